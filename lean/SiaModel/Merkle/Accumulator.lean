/-
  SiaModel.Merkle.Accumulator — executable model of `consensus/merkle.go`
  (ElementAccumulator): a function-by-function transliteration of

    mergeHeight, clearBits, proofRoot, elementLeaf.hash/proofRoot,
    hasTreeAtHeight, containsLeaf, addLeaves, updateLeaves (with `recompute`),
    applyBlock, revertBlock, updateProof,
    elementApplyUpdate.updateElementProof, elementRevertUpdate.updateElementProof

  over `Nat` indices and `List H` proofs.  In-place slice writes become functional
  updates; `[64]T` arrays become functions `Nat → T` (entries at heights without a
  tree are stale in Go and are never observed; they are never observed here either).
  Go panics are `Except.error`.

  Standing assumption (WF): leaf counts and indices are `< 2^62`, proofs are shorter
  than 64 — outside that range Go's `1<<height` / `[64]` indexing wraps or panics and
  the model does not follow it.

  Core Lean only (linked into the driver).
-/
import SiaModel.Merkle.Forest
namespace Sia.ElemAcc

/-- `mergeHeight x y = bits.Len64(x ^ y)` -/
def mergeHeight (x y : Nat) : Nat := bitLen (x ^^^ y)

/-- `clearBits x n = x &^ (1<<n - 1)`: clear the `n` least significant bits. -/
def clearBits (x n : Nat) : Nat := x - x % 2 ^ n

/-- `types.UnassignedLeafIndex` -/
def unassignedLeafIndex : Nat := 10101010101010101010

/-- `elementLeaf`: element hash, spent flag and the StateElement's index and proof. -/
structure Leaf (H : Type) where
  elem : H
  spent : Bool
  index : Nat
  proof : List H

/-- functional array write -/
def setFn {α : Type} (f : Nat → α) (k : Nat) (v : α) : Nat → α := fun j => if j = k then v else f j

section
variable {H : Type} [Hasher H]

/-- `elementLeaf.hash` -/
def Leaf.hash (l : Leaf H) : H := Hasher.leaf l.elem l.index l.spent

/-- the loop of `proofRoot`, started at proof position `lvl` -/
def proofRootFrom (idx : Nat) : Nat → H → List H → H
  | _, root, [] => root
  | lvl, root, h :: t =>
    proofRootFrom idx (lvl + 1) (if idx.testBit lvl then node h root else node root h) t

/-- `proofRoot(leafHash, leafIndex, proof)` -/
def proofRoot (leafHash : H) (idx : Nat) (proof : List H) : H := proofRootFrom idx 0 leafHash proof

/-- `elementLeaf.proofRoot` -/
def Leaf.proofRoot (l : Leaf H) : H := ElemAcc.proofRoot l.hash l.index l.proof

/-- `ElementAccumulator` -/
structure Acc (H : Type) where
  trees : Nat → H
  numLeaves : Nat

/-- `hasTreeAtHeight` -/
def Acc.hasTreeAtHeight (acc : Acc H) (height : Nat) : Bool := hasTree acc.numLeaves height

/-- `containsLeaf` -/
def Acc.containsLeaf [DecidableEq H] (acc : Acc H) (l : Leaf H) : Bool :=
  acc.hasTreeAtHeight l.proof.length && decide (acc.trees l.proof.length = l.proofRoot)

/-! ### addLeaves -/

/-- loop state of `addLeaves`: the accumulator, the batch leaves processed so far
    (including the current one) and `treeGrowth` -/
structure AddState (H : Type) where
  trees : Nat → H
  numLeaves : Nat
  leaves : List (Leaf H)
  growth : Nat → List H

/-- The two backward loops `for ; j > startOfNewTree && j >= 0; j--` and
    `for ; j > startOfOldTree && j >= 0; j--` of one merge step for batch leaf `i`
    (`leaves` has length `i+1`): the last `2^height` batch leaves get `oldRoot`, the
    `2^height` before them get `h`. -/
def appendSiblings (leaves : List (Leaf H)) (i height : Nat) (oldRoot h : H) : List (Leaf H) :=
  leaves.mapIdx fun j l =>
    if i < j + 2 ^ height then { l with proof := l.proof ++ [oldRoot] }
    else if i < j + 2 ^ (height + 1) then { l with proof := l.proof ++ [h] }
    else l

/-- The `for bit := range treeGrowth` loop of one merge step. -/
def growStep (initial numLeaves height : Nat) (oldRoot h : H) (growth : Nat → List H) : Nat → List H :=
  let curTreeIndex := (numLeaves + 1) - 2 ^ height
  let prevTreeIndex := (numLeaves + 1) - 2 ^ (height + 1)
  fun bit =>
    if bit < 64 ∧ initial.testBit bit then
      let treeStartIndex := clearBits initial (bit + 1)
      if treeStartIndex ≥ curTreeIndex then growth bit ++ [oldRoot]
      else if treeStartIndex ≥ prevTreeIndex then growth bit ++ [h]
      else growth bit
    else growth bit

/-- `for height := range &acc.Trees` for batch leaf `i`; `fuel = 64 - height`. -/
def addLeafLoop (initial i : Nat) : Nat → Nat → H → AddState H → AddState H
  | 0, _, _, st => st
  | fuel + 1, height, h, st =>
    if !hasTree st.numLeaves height then
      { st with trees := setFn st.trees height h, numLeaves := st.numLeaves + 1 }
    else
      let oldRoot := st.trees height
      let st' := { st with
        leaves := appendSiblings st.leaves i height oldRoot h
        growth := growStep initial st.numLeaves height oldRoot h st.growth }
      addLeafLoop initial i fuel (height + 1) (node oldRoot h) st'

/-- one iteration of `for i, el := range leaves` -/
def addOne (initial : Nat) (el : Leaf H) (st : AddState H) : AddState H :=
  let el := { el with index := st.numLeaves }
  addLeafLoop initial st.leaves.length 64 0 el.hash { st with leaves := st.leaves ++ [el] }

def addLeavesGo (initial : Nat) : List (Leaf H) → AddState H → AddState H
  | [], st => st
  | el :: rest, st => addLeavesGo initial rest (addOne initial el st)

/-- `addLeaves`: returns the new accumulator, the batch with indices and proofs
    filled in, and `treeGrowth`. -/
def Acc.addLeaves (acc : Acc H) (leaves : List (Leaf H)) : Acc H × List (Leaf H) × (Nat → List H) :=
  let st := addLeavesGo acc.numLeaves leaves
    { trees := acc.trees, numLeaves := acc.numLeaves, leaves := [], growth := fun _ => [] }
  ({ trees := st.trees, numLeaves := st.numLeaves }, st.leaves, st.growth)

/-! ### updateLeaves -/

variable [Inhabited H]

/-- `e.MerkleProof[k] = x` -/
def Leaf.setProofAt (l : Leaf H) (k : Nat) (x : H) : Leaf H := { l with proof := l.proof.set k x }

/-- `recompute(i, j, leaves)` with `j = i + 2^height`; returns the root and the
    leaves with rewritten proofs. `sort.Search` on the (sorted) leaves is the
    `takeWhile/dropWhile` split. -/
def recompute : Nat → Nat → List (Leaf H) → Except String (H × List (Leaf H))
  | 0, _, leaves =>
    match leaves with
    | [l] => .ok (l.hash, [l])
    | [] => .error "index out of range"
    | _ => .error "consensus: multiple leaves with same accumulator index"
  | height + 1, i, leaves =>
    let mid := i + 2 ^ height
    let left := leaves.takeWhile (fun l => l.index < mid)
    let right := leaves.dropWhile (fun l => l.index < mid)
    match left, right with
    | [], [] => .error "index out of range"
    | [], r0 :: _ => do
      let leftRoot := r0.proof.getD height default
      let (rightRoot, right') ← recompute height mid right
      pure (node leftRoot rightRoot, right')
    | _ :: _, [] => do
      let (leftRoot, left') ← recompute height i left
      let rightRoot := match left' with
        | l0 :: _ => l0.proof.getD height default
        | [] => default
      pure (node leftRoot rightRoot, left')
    | _ :: _, _ :: _ => do
      let (leftRoot, left') ← recompute height i left
      let right1 := right.map (·.setProofAt height leftRoot)
      let (rightRoot, right') ← recompute height mid right1
      let left'' := left'.map (·.setProofAt height rightRoot)
      pure (node leftRoot rightRoot, left'' ++ right')

/-- the order of `sort.Slice` in `updateLeaves`: by proof length, then leaf index -/
def leafLE (a b : Leaf H) : Bool :=
  a.proof.length < b.proof.length || (a.proof.length == b.proof.length && a.index ≤ b.index)

/-- the leaves of one tree after `recompute` -/
def updateGroup (sorted : List (Leaf H)) (height : Nat) : Except String (List (Leaf H)) :=
  match sorted.filter (fun l => l.proof.length == height) with
  | [] => .ok []
  | l0 :: rest => do
    let start := clearBits l0.index height
    let (_, grp) ← recompute height start (l0 :: rest)
    pure grp

def updateGroups (sorted : List (Leaf H)) : Nat → Except String (Nat → List (Leaf H))
  | 0 => .ok (fun _ => [])
  | k + 1 => do
    let t ← updateGroups sorted k
    let g ← updateGroup sorted k
    pure (setFn t k g)

/-- `updateLeaves`: leaves grouped by tree height, proofs mutually updated. -/
def updateLeaves (leaves : List (Leaf H)) : Except String (Nat → List (Leaf H)) :=
  updateGroups (leaves.mergeSort leafLE) 64

/-! ### applyBlock / revertBlock -/

/-- `elementApplyUpdate` -/
structure ApplyUpdate (H : Type) where
  updated : Nat → List (Leaf H)
  growth : Nat → List H
  oldNumLeaves : Nat
  numLeaves : Nat

/-- `elementRevertUpdate` -/
structure RevertUpdate (H : Type) where
  updated : Nat → List (Leaf H)
  numLeaves : Nat

/-- `for height, es := range eau.updated { if len(es) > 0 { acc.Trees[height] = es[0].proofRoot() } }` -/
def Acc.withUpdatedRoots (acc : Acc H) (upd : Nat → List (Leaf H)) : Acc H where
  trees := fun height =>
    match upd height with
    | l0 :: _ => if height < 64 then l0.proofRoot else acc.trees height
    | [] => acc.trees height
  numLeaves := acc.numLeaves

/-- the treeGrowth extension of the updated leaves' proofs at the end of `applyBlock` -/
def extendUpdated (upd : Nat → List (Leaf H)) (growth : Nat → List H) : Nat → List (Leaf H) :=
  fun height => (upd height).map fun l => { l with proof := l.proof ++ growth l.proof.length }

/-- `applyBlock`: new accumulator, the update, and the added leaves (indices and
    proofs filled in). The updated leaves with their final proofs are
    `eau.updated` (Go shares the StateElements between the caller's slice and
    `eau.updated`, so the treeGrowth extension is visible in both). -/
def Acc.applyBlock (acc : Acc H) (updated added : List (Leaf H)) :
    Except String (Acc H × ApplyUpdate H × List (Leaf H)) := do
  let upd ← updateLeaves updated
  let r := (acc.withUpdatedRoots upd).addLeaves added
  pure (r.1, { updated := extendUpdated upd r.2.2, growth := r.2.2, oldNumLeaves := acc.numLeaves, numLeaves := r.1.numLeaves }, r.2.1)

/-- `revertBlock`: `acc` is the accumulator before the block; returns the update and
    the added leaves with their (now meaningless) indices assigned. -/
def Acc.revertBlock (acc : Acc H) (updated added : List (Leaf H)) :
    Except String (RevertUpdate H × List (Leaf H)) := do
  let upd ← updateLeaves updated
  pure ({ updated := upd, numLeaves := acc.numLeaves },
        added.mapIdx fun i l => { l with index := acc.numLeaves + i })

/-! ### updateProof / updateElementProof -/

/-- Go's `copy(dst, src)` on lists -/
def copyInto {α : Type} (dst src : List α) : List α := src.take dst.length ++ dst.drop src.length

/-- `updateProof(e, updated)`; returns the new `e.MerkleProof`. -/
def updateProof (idx : Nat) (proof : List H) (updated : Nat → List (Leaf H)) : Except String (List H) :=
  match updated proof.length with
  | [] => .ok proof
  | u0 :: us =>
    let best := us.foldl (fun best ul =>
      if mergeHeight idx ul.index < mergeHeight idx best.index then ul else best) u0
    if best.index = idx then
      .ok (copyInto proof best.proof)
    else
      let mh := mergeHeight idx best.index
      if mh > proof.length ∨ mh > best.proof.length then .error "slice bounds out of range"
      else
        let p1 := proof.take mh ++ copyInto (proof.drop mh) (best.proof.drop mh)
        .ok (p1.set (mh - 1) (ElemAcc.proofRoot best.hash best.index (best.proof.take (mh - 1))))

/-- `elementApplyUpdate.updateElementProof` -/
def ApplyUpdate.updateElementProof (u : ApplyUpdate H) (idx : Nat) (proof : List H) : Except String (List H) :=
  if idx = unassignedLeafIndex then .error "cannot update an ephemeral element"
  else if idx ≥ u.oldNumLeaves then .ok proof
  else do
    let p ← updateProof idx proof u.updated
    if mergeHeight u.numLeaves idx ≠ p.length then pure (p ++ u.growth p.length) else pure p

/-- `elementRevertUpdate.updateElementProof` -/
def RevertUpdate.updateElementProof (u : RevertUpdate H) (idx : Nat) (proof : List H) : Except String (List H) :=
  if idx = unassignedLeafIndex then .error "cannot update an ephemeral element"
  else if idx ≥ u.numLeaves then .error "cannot update an element that is not present in the accumulator"
  else
    let mh := mergeHeight u.numLeaves idx
    let p := if mh ≤ proof.length then proof.take (mh - 1) else proof
    updateProof idx p u.updated

end
end Sia.ElemAcc
