/-!
# SiaModel.Codec.Schema — the schema language of the binary codec (C11, C10-decode)

One small schema language (`Sch`), one value tree (`Val`) and one pair of
interpreters (`enc`, `dec`) mirroring `types/encoding.go`:

* `Encoder.WriteUint8/WriteUint64/WriteBool/WriteTime/WriteBytes/WriteString/Write`,
  `EncodeSlice*`, `EncodePtr`, `V1Currency.EncodeTo`;
* `Decoder.Read*`, `ReadBytes` and `DecodeSlice*` **with their length-prefix guard**
  (`n > uint64(d.lr.N)` → error, i.e. the prefix may not exceed the bytes the limited
  reader still allows), `DecodePtr`, `V1Currency.DecodeFrom` (accepts ≤ 16 bytes,
  leading zeros included).

The decoder's *sticky error* (first error wins, later reads return zeros and every
loop ends at once because all length prefixes then read as 0) is modelled by the
`Except` monad.  `slack` is `d.lr.N - (bytes really available)`: 0 for
`NewBufDecoder`, `maxLen - len` for the stream decoders of gateway / rhp.

Core Lean only (the driver links this natively).
-/

namespace Sia.Codec

abbrev Bytes := List UInt8

/-! ## values -/

/-- Value tree with *normalised* representatives: lists have no nil/empty
distinction, times are raw seconds, fixed arrays are byte lists of that length. -/
inductive Val where
  | nat (n : Nat)
  | bool (b : Bool)
  | bytes (bs : List UInt8)
  | unit
  | pair (a b : Val)
  | list (vs : List Val)
  | none
  | some (v : Val)
  deriving Repr, Inhabited

inductive DecErr where
  | short        -- io.ErrUnexpectedEOF / io.EOF
  | invalid      -- d.SetErr(...) by a guard (length prefix, bool, currency size, ...)
  | panic        -- the Go code would panic (makeslice / slice bounds)
  | unsupported  -- no model (unknown `ext` codec)
  deriving DecidableEq, Repr, Inhabited

abbrev DecRes := Except DecErr (Val × Bytes)

/-! ## integers on the wire -/

/-- `k` little-endian bytes of `n` (truncating). -/
def leBytes : Nat → Nat → Bytes
  | 0, _ => []
  | k+1, n => UInt8.ofNat (n % 256) :: leBytes k (n / 256)

/-- little-endian value of a byte string -/
def leVal : Bytes → Nat
  | [] => 0
  | b :: bs => b.toNat + 256 * leVal bs

/-- big-endian value of a byte string -/
def beVal (bs : Bytes) : Nat := leVal bs.reverse

/-- `binary.LittleEndian.PutUint64` -/
def u64le (n : Nat) : Bytes := leBytes 8 n

/-- 16 big-endian bytes (`PutUint64(buf[:8], Hi); PutUint64(buf[8:], Lo)`) -/
def be16 (n : Nat) : Bytes := (leBytes 16 n).reverse

/-- `bytes.TrimLeft(buf, "\x00")` -/
def trimZeros (bs : Bytes) : Bytes := bs.dropWhile (· == 0)

def zeros (n : Nat) : Bytes := List.replicate n 0

/-- `copy(dst[:n], src)` into a zeroed array of size `n` -/
def copyInto (n : Nat) (src : Bytes) : Bytes := src.take n ++ zeros (n - src.length)

/-- `d.Read(p)` for `len(p) = n`: all or nothing. -/
def takeN (n : Nat) (bs : Bytes) : Except DecErr (Bytes × Bytes) :=
  if n ≤ bs.length then .ok (bs.take n, bs.drop n) else .error .short

def readU64 (bs : Bytes) : Except DecErr (Nat × Bytes) :=
  match takeN 8 bs with
  | .ok (a, r) => .ok (leVal a, r)
  | .error e => .error e

/-- `Decoder.ReadBytes`: prefix, guard against the limited reader's remaining
allowance (`bs.length + slack`), then `make([]byte, n)` and `Read`. -/
def readPrefixed (slack : Nat) (bs : Bytes) : Except DecErr (Bytes × Bytes) :=
  match readU64 bs with
  | .ok (n, r) => if r.length + slack < n then .error .invalid else takeN n r
  | .error e => .error e

/-- `V1Currency.DecodeFrom`: prefix `n ≤ 16`, then `n` big-endian bytes. With
`strict`, additionally reject a leading zero byte (non-canonical). -/
def readCur1 (strict : Bool) (bs : Bytes) : Except DecErr (Nat × Bytes) :=
  match readU64 bs with
  | .ok (n, r) =>
    if 16 < n then .error .invalid else
    match takeN n r with
    | .ok (a, r') => if strict && a.head? == some 0 then .error .invalid else .ok (beVal a, r')
    | .error e => .error e
  | .error e => .error e

def encCur1 (n : Nat) : Bytes :=
  let b := trimZeros (be16 n)
  u64le b.length ++ b

/-! ## atoms: the non-recursive wire forms -/

inductive Atom where
  | u8 | u64 | bool | time
  | fixed (n : Nat)     -- `e.Write(x[:])` of a `[n]byte`
  | bytes               -- `WriteBytes` / `ReadBytes`
  | str                 -- `WriteString` / `ReadString` (same wire form)
  | pfixed (n : Nat)    -- `e.WriteBytes(x.F[:])` / `copy(x.F[:], d.ReadBytes())` of a `[n]byte`
  | cur1                -- `V1Currency`: length-prefixed trimmed big-endian
  | sfval1              -- `V1Currency(NewCurrency64(x))`; decoder rejects `Hi != 0`
  | cur1pad             -- `(V1Currency{}).EncodeTo(e)` / `(&V1Currency{}).DecodeFrom(d)` (value discarded)
  | ubytes              -- `n := d.ReadUint64(); make([]byte, n); d.Read(..)` WITHOUT guard
  | cbytes              -- rhp `readN(d, buf, d.ReadUint64())`: no guard, buffer grown as data arrives
  deriving DecidableEq, Repr, Inhabited

/-- A codec for one (atomic or externally modelled) wire form. `dec strict slack`;
`decM` additionally meters allocation (slots requested through `make`/`append`). -/
structure Codec where
  enc : Val → Bytes
  dec : Bool → Nat → Bytes → DecRes
  alloc : Nat → Bytes → Nat
  canon : Val → Bool
  minLen : Nat
  depth : Nat
  guarded : Bool

def W64 : Nat := 18446744073709551616
def W128 : Nat := 340282366920938463463374607431768211456

def isBytes (p : Bytes → Bool) : Val → Bool
  | .bytes b => p b
  | _ => false

def isNat (bound : Nat) : Val → Bool
  | .nat n => n < bound
  | _ => false

def okNat (r : Except DecErr (Nat × Bytes)) : DecRes :=
  match r with
  | .ok (n, r) => .ok (.nat n, r)
  | .error e => .error e

def okBytes (r : Except DecErr (Bytes × Bytes)) : DecRes :=
  match r with
  | .ok (a, r) => .ok (.bytes a, r)
  | .error e => .error e

/-- allocation requested by `ReadBytes` on this input -/
def allocPrefixed (slack : Nat) (bs : Bytes) : Nat :=
  match readU64 bs with
  | .ok (n, r) => if r.length + slack < n then 0 else n
  | .error _ => 0

/-- The codec of an atom. `lim` is the runtime's allocation limit (`makeslice`
panics above it); it only matters for the unguarded atom `ubytes`. -/
def Atom.codec (lim : Nat) : Atom → Codec
  | .u8 => {
      enc := fun v => match v with | .nat n => leBytes 1 n | _ => []
      dec := fun _ _ bs => match takeN 1 bs with
        | .ok (a, r) => .ok (.nat (leVal a), r)
        | .error e => .error e
      alloc := fun _ _ => 0
      canon := isNat 256, minLen := 1, depth := 0, guarded := true }
  | .u64 | .time => {
      enc := fun v => match v with | .nat n => u64le n | _ => []
      dec := fun _ _ bs => okNat (readU64 bs)
      alloc := fun _ _ => 0
      canon := isNat W64, minLen := 8, depth := 0, guarded := true }
  | .bool => {
      enc := fun v => match v with | .bool b => [if b then 1 else 0] | _ => []
      dec := fun _ _ bs => match takeN 1 bs with
        | .ok (a, r) =>
          if leVal a = 0 then .ok (.bool false, r)
          else if leVal a = 1 then .ok (.bool true, r)
          else .error .invalid
        | .error e => .error e
      alloc := fun _ _ => 0
      canon := fun v => match v with | .bool _ => true | _ => false
      minLen := 1, depth := 0, guarded := true }
  | .fixed n => {
      enc := fun v => match v with | .bytes b => b | _ => []
      dec := fun _ _ bs => okBytes (takeN n bs)
      alloc := fun _ _ => 0
      canon := isBytes (fun b => b.length == n), minLen := n, depth := 0, guarded := true }
  | .bytes | .str => {
      enc := fun v => match v with | .bytes b => u64le b.length ++ b | _ => []
      dec := fun _ k bs => okBytes (readPrefixed k bs)
      alloc := allocPrefixed
      canon := isBytes (fun b => b.length < W64), minLen := 8, depth := 1, guarded := true }
  | .pfixed n => {
      enc := fun v => match v with | .bytes b => u64le b.length ++ b | _ => []
      dec := fun strict k bs => match readPrefixed k bs with
        | .ok (a, r) =>
          -- (`W64 ≤ n` cannot occur for a Go array; it keeps the decoder's image canonical)
          if (strict && a.length != n) || decide (W64 ≤ n) then .error .invalid
          else .ok (.bytes (copyInto n a), r)
        | .error e => .error e
      alloc := allocPrefixed
      canon := isBytes (fun b => b.length == n && n < W64), minLen := 8, depth := 1, guarded := true }
  | .cur1 => {
      enc := fun v => match v with | .nat n => encCur1 n | _ => []
      dec := fun strict _ bs => okNat (readCur1 strict bs)
      alloc := fun _ _ => 0
      canon := isNat W128, minLen := 8, depth := 0, guarded := true }
  | .sfval1 => {
      enc := fun v => match v with | .nat n => encCur1 n | _ => []
      dec := fun strict _ bs => match readCur1 strict bs with
        | .ok (n, r) => if W64 ≤ n then .error .invalid else .ok (.nat n, r)
        | .error e => .error e
      alloc := fun _ _ => 0
      canon := isNat W64, minLen := 8, depth := 0, guarded := true }
  | .cur1pad => {
      enc := fun v => match v with | .unit => encCur1 0 | _ => []
      dec := fun strict _ bs => match readCur1 strict bs with
        | .ok (n, r) => if strict && n != 0 then .error .invalid else .ok (.unit, r)
        | .error e => .error e
      alloc := fun _ _ => 0
      canon := fun v => match v with | .unit => true | _ => false
      minLen := 8, depth := 0, guarded := true }
  | .ubytes => {
      enc := fun v => match v with | .bytes b => u64le b.length ++ b | _ => []
      dec := fun _ _ bs => match readU64 bs with
        | .ok (n, r) => if lim < n then .error .panic else okBytes (takeN n r)
        | .error e => .error e
      alloc := fun _ bs => match readU64 bs with
        | .ok (n, _) => if lim < n then 0 else n
        | .error _ => 0
      canon := isBytes (fun b => b.length < W64 && b.length ≤ lim), minLen := 8, depth := 1, guarded := false }
  | .cbytes => {
      -- `readN`: the announced length is not compared with the reader's allowance, but the
      -- buffer only grows (16 KiB chunks) by what was really read; a short read is an error
      enc := fun v => match v with | .bytes b => u64le b.length ++ b | _ => []
      dec := fun _ _ bs => match readU64 bs with
        | .ok (n, r) => okBytes (takeN n r)
        | .error e => .error e
      alloc := fun _ bs => match readU64 bs with
        | .ok (n, r) => min n r.length
        | .error _ => 0
      canon := isBytes (fun b => b.length < W64), minLen := 8, depth := 1, guarded := true }

/-! ## schemas -/

/-- Schema terms. A record is a `cons` chain ended by `nil`; labels are Go field
paths and carry no wire meaning. -/
inductive Sch where
  | atom (a : Atom)
  | nil
  | cons (label : String) (s : Sch) (rest : Sch)
  | slice (s : Sch)      -- `EncodeSlice*` / `DecodeSlice*` (guarded, grown by `append`)
  | opt (s : Sch)        -- `EncodePtr` / `DecodePtr`
  | uslice (s : Sch)     -- `make([]T, d.ReadUint64())` WITHOUT guard, then a loop
  | aslice (s : Sch)     -- `n := d.ReadUint64(); for i < n { decode; append }`: no guard, grown by `append`
  | ext (name : String)  -- irregular codec, modelled by hand and supplied by the environment
  deriving DecidableEq, Repr, Inhabited

namespace Sch
@[match_pattern, reducible] def u8 : Sch := .atom .u8
@[match_pattern, reducible] def u64 : Sch := .atom .u64
@[match_pattern, reducible] def bool : Sch := .atom .bool
@[match_pattern, reducible] def time : Sch := .atom .time
@[match_pattern, reducible] def fixed (n : Nat) : Sch := .atom (.fixed n)
@[match_pattern, reducible] def bytes : Sch := .atom .bytes
@[match_pattern, reducible] def str : Sch := .atom .str
@[match_pattern, reducible] def pfixed (n : Nat) : Sch := .atom (.pfixed n)
@[match_pattern, reducible] def cur1 : Sch := .atom .cur1
@[match_pattern, reducible] def sfval1 : Sch := .atom .sfval1
@[match_pattern, reducible] def cur1pad : Sch := .atom .cur1pad
@[match_pattern, reducible] def ubytes : Sch := .atom .ubytes
@[match_pattern, reducible] def cbytes : Sch := .atom .cbytes

/-- record from a field list (what the extractor prints) -/
def seq : List (String × Sch) → Sch
  | [] => .nil
  | (l, s) :: fs => .cons l s (seq fs)

/-- splice: the fields of record `a` followed by those of `b` (used when a codec
delegates to another codec of the same object, e.g. `V1Block(b).EncodeTo(e)`);
a non-record `a` becomes one field with an empty label. -/
def append : Sch → Sch → Sch
  | .nil, b => b
  | .cons l s r, b => .cons l s (append r b)
  | a, b => .cons "" a b

/-- top-level labels of a record -/
def labels : Sch → List String
  | .cons l _ r => l :: labels r
  | _ => []
end Sch

/-- The environment: hand-modelled irregular codecs by name, and the allocation limit. -/
structure Env where
  ext : String → Codec
  lim : Nat

/-- codec used for names without a model: nothing is canonical, decoding is refused
(so every law holds vacuously; `minLen := 1` only says "would occupy a byte"). -/
def Codec.unsupported : Codec :=
  { enc := fun _ => [], dec := fun _ _ _ => .error .unsupported, alloc := fun _ _ => 0,
    canon := fun _ => false, minLen := 1, depth := 0, guarded := true }

/-- lower bound on the encoded length of canonical values -/
def Sch.minLen (E : Env) : Sch → Nat
  | .atom a => (a.codec E.lim).minLen
  | .nil => 0
  | .cons _ s r => s.minLen E + r.minLen E
  | .slice _ => 8
  | .opt _ => 1
  | .uslice _ => 8
  | .aslice _ => 8
  | .ext n => (E.ext n).minLen

/-- well-formed: every slice element occupies at least one byte. (Otherwise the real
`DecodeSlice` guard rejects valid encodings, and allocation is not linear.) -/
def Sch.wf (E : Env) : Sch → Bool
  | .atom _ => true
  | .nil => true
  | .cons _ s r => s.wf E && r.wf E
  | .slice s => s.wf E && decide (1 ≤ s.minLen E)
  | .opt s => s.wf E
  | .uslice s => s.wf E && decide (1 ≤ s.minLen E)
  | .aslice s => s.wf E && decide (1 ≤ s.minLen E)
  | .ext _ => true

/-- no unguarded allocation anywhere -/
def Sch.guarded (E : Env) : Sch → Bool
  | .atom a => (a.codec E.lim).guarded
  | .nil => true
  | .cons _ s r => s.guarded E && r.guarded E
  | .slice s => s.guarded E
  | .opt s => s.guarded E
  | .uslice _ => false
  | .aslice s => s.guarded E
  | .ext n => (E.ext n).guarded

/-- nesting depth of allocating constructs (the constant of the allocation bound) -/
def Sch.depth (E : Env) : Sch → Nat
  | .atom a => (a.codec E.lim).depth
  | .nil => 0
  | .cons _ s r => max (s.depth E) (r.depth E)
  | .slice s => s.depth E + 1
  | .opt s => s.depth E
  | .uslice s => s.depth E + 1
  | .aslice s => s.depth E + 1
  | .ext n => (E.ext n).depth

/-- `Canon s v`: `v` is a well-typed value of schema `s` (as a Bool). -/
def canon (E : Env) : Sch → Val → Bool
  | .atom a, v => (a.codec E.lim).canon v
  | .nil, v => match v with | .unit => true | _ => false
  | .cons _ s r, v => match v with | .pair a b => canon E s a && canon E r b | _ => false
  | .slice s, v => match v with | .list vs => decide (vs.length < W64) && vs.all (canon E s) | _ => false
  | .opt s, v => match v with | .none => true | .some a => canon E s a | _ => false
  | .uslice s, v => match v with
      | .list vs => decide (vs.length < W64) && decide (vs.length ≤ E.lim) && vs.all (canon E s)
      | _ => false
  | .aslice s, v => match v with | .list vs => decide (vs.length < W64) && vs.all (canon E s) | _ => false
  | .ext n, v => (E.ext n).canon v

abbrev Canon (E : Env) (s : Sch) (v : Val) : Prop := canon E s v = true

/-! ## encoder -/

def encList (f : Val → Bytes) : List Val → Bytes
  | [] => []
  | v :: vs => f v ++ encList f vs

def enc (E : Env) : Sch → Val → Bytes
  | .atom a, v => (a.codec E.lim).enc v
  | .nil, _ => []
  | .cons _ s r, v => match v with | .pair a b => enc E s a ++ enc E r b | _ => []
  | .slice s, v => match v with | .list vs => u64le vs.length ++ encList (enc E s) vs | _ => []
  | .opt s, v => match v with
      | .none => [0]
      | .some a => 1 :: enc E s a
      | _ => []
  | .uslice s, v => match v with | .list vs => u64le vs.length ++ encList (enc E s) vs | _ => []
  | .aslice s, v => match v with | .list vs => u64le vs.length ++ encList (enc E s) vs | _ => []
  | .ext n, v => (E.ext n).enc v

/-! ## decoder -/

/-- decode `n` consecutive elements -/
def decRep (f : Bytes → DecRes) : Nat → Bytes → Except DecErr (List Val × Bytes)
  | 0, bs => .ok ([], bs)
  | n+1, bs =>
    match f bs with
    | .ok (v, bs1) =>
      match decRep f n bs1 with
      | .ok (vs, bs2) => .ok (v :: vs, bs2)
      | .error e => .error e
    | .error e => .error e

def okList (r : Except DecErr (List Val × Bytes)) : DecRes :=
  match r with
  | .ok (vs, r) => .ok (.list vs, r)
  | .error e => .error e

/-- The decoder. `strict = false` is the real decoder; `strict = true` additionally
rejects the (exactly three kinds of) non-canonical atoms the real decoder accepts:
a V1 currency with a leading zero byte, a length-prefixed fixed array whose prefix
is not the array size, a non-zero discarded "ClaimStart". -/
def decG (E : Env) (strict : Bool) (slack : Nat) : Sch → Bytes → DecRes
  | .atom a, bs => (a.codec E.lim).dec strict slack bs
  | .nil, bs => .ok (.unit, bs)
  | .cons _ s r, bs =>
    match decG E strict slack s bs with
    | .ok (a, bs1) =>
      match decG E strict slack r bs1 with
      | .ok (b, bs2) => .ok (.pair a b, bs2)
      | .error e => .error e
    | .error e => .error e
  | .slice s, bs =>
    match readU64 bs with
    | .ok (n, r) =>
      if r.length + slack < n then .error .invalid
      else okList (decRep (decG E strict slack s) n r)
    | .error e => .error e
  | .opt s, bs =>
    match takeN 1 bs with
    | .ok (a, r) =>
      if leVal a = 0 then .ok (.none, r)
      else if leVal a = 1 then
        match decG E strict slack s r with
        | .ok (v, r') => .ok (.some v, r')
        | .error e => .error e
      else .error .invalid
    | .error e => .error e
  | .uslice s, bs =>
    match readU64 bs with
    | .ok (n, r) =>
      if E.lim < n then .error .panic
      else okList (decRep (decG E strict slack s) n r)
    | .error e => .error e
  | .aslice s, bs =>
    match readU64 bs with
    | .ok (n, r) => okList (decRep (decG E strict slack s) n r)
    | .error e => .error e
  | .ext n, bs => (E.ext n).dec strict slack bs

/-- the real decoder -/
abbrev dec (E : Env) (slack : Nat) (s : Sch) (bs : Bytes) : DecRes := decG E false slack s bs

/-- the canonical-input decoder -/
abbrev decStrict (E : Env) (slack : Nat) (s : Sch) (bs : Bytes) : DecRes := decG E true slack s bs

/-! ## allocation meter

`allocOf E slack s bs` = number of slots (`[]byte` bytes, slice elements) the real
decoder requests while decoding `bs`, whatever the outcome. `DecodeSlice` grows its
result by `append`, so only elements that were really decoded are counted. -/

def allocRep (f : Bytes → DecRes) (g : Bytes → Nat) : Nat → Bytes → Nat
  | 0, _ => 0
  | n+1, bs =>
    match f bs with
    | .ok (_, bs1) => g bs + 1 + allocRep f g n bs1
    | .error _ => g bs

def allocOf (E : Env) (slack : Nat) : Sch → Bytes → Nat
  | .atom a, bs => (a.codec E.lim).alloc slack bs
  | .nil, _ => 0
  | .cons _ s r, bs =>
    match decG E false slack s bs with
    | .ok (_, bs1) => allocOf E slack s bs + allocOf E slack r bs1
    | .error _ => allocOf E slack s bs
  | .slice s, bs =>
    match readU64 bs with
    | .ok (n, r) =>
      if r.length + slack < n then 0
      else allocRep (decG E false slack s) (allocOf E slack s) n r
    | .error _ => 0
  | .opt s, bs =>
    match takeN 1 bs with
    | .ok (a, r) => if leVal a = 1 then allocOf E slack s r else 0
    | .error _ => 0
  | .uslice s, bs =>
    match readU64 bs with
    | .ok (n, r) =>
      if E.lim < n then 0
      else n + allocRep (decG E false slack s) (allocOf E slack s) n r
    | .error _ => 0
  | .aslice s, bs =>
    match readU64 bs with
    | .ok (n, r) => allocRep (decG E false slack s) (allocOf E slack s) n r
    | .error _ => 0
  | .ext n, bs => (E.ext n).alloc slack bs

/-- how Go decides that a field is "empty" (and therefore absent from a presence bitmap) -/
inductive ZeroKind where
  | len     -- `len(x) != 0`: slices and byte strings
  | never   -- `x != nil`: a pointer; the bit alone says present
  | zero    -- `!x.IsZero()`: all-zero number(s)
  deriving DecidableEq, Repr, Inhabited

/-- all numeric leaves are zero (`Currency.IsZero`) -/
def Val.allZero : Val → Bool
  | .nat n => n == 0
  | .pair a b => a.allZero && b.allZero
  | .unit => true
  | _ => false

def isZeroVal : ZeroKind → Val → Bool
  | .len, .list vs => vs.isEmpty
  | .len, .bytes b => b.isEmpty
  | .len, _ => false
  | .never, _ => false
  | .zero, v => v.allZero

/-- default environment: no external models; allocation limit 2^47 (Go's `maxAlloc` on amd64) -/
def Env.default : Env := { ext := fun _ => Codec.unsupported, lim := 140737488355328 }

end Sia.Codec
