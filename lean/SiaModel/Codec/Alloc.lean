import SiaModel.Codec.Schema
/-!
# element-slot meter: how `DecodeSlice` sizes its result

`allocOf` (Schema.lean) counts every slot (bytes of `[]byte`, slice elements) and its bound
carries a `depth × slack` term: `ReadBytes` really does `make([]byte, n)` for any
`n ≤ d.lr.N`, so on a stream decoder a short message may allocate up to the reader's
allowance. Slice ELEMENTS are different: `DecodeSlice` / `DecodeSliceFn` start from
`var items []T` and `append` one element per element actually decoded, so the element
slots are bounded by the bytes really present — with NO slack term. `allocOf` does not
separate the two, and its bound (because of the slack term) is also met by a decoder that
pre-sizes the slice from the claimed count. `elemsOf` is the refinement: it counts slice
element slots only, charged at the moment the real decoder requests them, for either
growth discipline:

* `Growth.append`  — `items = append(items, v)`: one slot per decoded element;
* `Growth.presize` — `slices.Grow(nil, n)` / `make([]T, n)`: `n` slots at once, when the
  prefix has passed the guard.

`X` meters the external codecs (`ext`); see `ElemsOK` in `C10Decode.lean`.
-/
namespace Sia.Codec

/-- how a slice decoder sizes its result -/
inductive Growth where
  | append
  | presize
  deriving DecidableEq, Repr

/-- slots requested when the length prefix `n` has been accepted -/
def Growth.claim : Growth → Nat → Nat
  | .append, _ => 0
  | .presize, n => n

/-- decoded elements + the slots of their own decoding (element slots of a slice under
`append`; nested slots only are extra under `presize`, where the `n` are charged up front) -/
def elemsRep (f : Bytes → DecRes) (g : Bytes → Nat) (one : Nat) : Nat → Bytes → Nat
  | 0, _ => 0
  | n+1, bs =>
    match f bs with
    | .ok (_, bs1) => g bs + one + elemsRep f g one n bs1
    | .error _ => g bs

def Growth.perElem : Growth → Nat
  | .append => 1
  | .presize => 0

def elemsOf (gr : Growth) (E : Env) (X : String → Nat → Bytes → Nat) (slack : Nat) : Sch → Bytes → Nat
  | .atom _, _ => 0
  | .nil, _ => 0
  | .cons _ s r, bs =>
    match decG E false slack s bs with
    | .ok (_, bs1) => elemsOf gr E X slack s bs + elemsOf gr E X slack r bs1
    | .error _ => elemsOf gr E X slack s bs
  | .slice s, bs =>
    match readU64 bs with
    | .ok (n, r) =>
      if r.length + slack < n then 0
      else gr.claim n + elemsRep (decG E false slack s) (elemsOf gr E X slack s) gr.perElem n r
    | .error _ => 0
  | .opt s, bs =>
    match takeN 1 bs with
    | .ok (a, r) => if leVal a = 1 then elemsOf gr E X slack s r else 0
    | .error _ => 0
  | .uslice s, bs =>   -- `make([]T, n)` without guard: always charged at the claim
    match readU64 bs with
    | .ok (n, r) =>
      if E.lim < n then 0
      else n + elemsRep (decG E false slack s) (elemsOf gr E X slack s) 0 n r
    | .error _ => 0
  | .aslice s, bs =>   -- append-grown without guard (rhp3 program instructions)
    match readU64 bs with
    | .ok (n, r) => elemsRep (decG E false slack s) (elemsOf gr E X slack s) 1 n r
    | .error _ => 0
  | .ext n, bs => X n slack bs

end Sia.Codec
