import SiaModel.Codec.Schema
/-!
# SiaModel.Codec.Comb — building leaf codecs for irregular wire forms

`Codec.ofSch` turns a schema into a leaf codec (so that hand-modelled irregular codecs
can be assembled from generated schemas), `Env.with` adds a named codec to an
environment, `Codec.tagged` is a one-byte type tag selecting the codec of the payload
(`V2FileContractResolution`), `Codec.bitmap` a version byte and a presence bitmap
followed by the present fields (`V2Transaction`).
-/
namespace Sia.Codec

/-- the codec of a schema, as a leaf -/
def Codec.ofSch (E : Env) (s : Sch) : Codec :=
  { enc := Sia.Codec.enc E s
    dec := fun st k bs => decG E st k s bs
    alloc := fun k bs => allocOf E k s bs
    canon := Sia.Codec.canon E s
    minLen := s.minLen E
    depth := s.depth E
    guarded := s.guarded E }

/-- environment extended by one named codec -/
def Env.with (E : Env) (name : String) (c : Codec) : Env :=
  { ext := fun n => if n = name then c else E.ext n, lim := E.lim }

/-! ## tagged union: `e.WriteUint8(tag); payload.EncodeTo(e)` / `switch d.ReadUint8()` -/

def findTag (t : Nat) : List (Nat × Codec) → Option Codec
  | [] => none
  | (u, c) :: cs => if t = u then some c else findTag t cs

def tagDepth : List (Nat × Codec) → Nat
  | [] => 0
  | (_, c) :: cs => max c.depth (tagDepth cs)

def tagGuarded : List (Nat × Codec) → Bool
  | [] => true
  | (_, c) :: cs => c.guarded && tagGuarded cs

/-- value: `pair (nat tag) payload`. An unknown tag is refused (`d.SetErr`). -/
def Codec.tagged (cs : List (Nat × Codec)) : Codec :=
  { enc := fun v => match v with
      | .pair (.nat t) x => (match findTag t cs with
        | some c => leBytes 1 t ++ c.enc x
        | none => [])
      | _ => []
    dec := fun st k bs => match takeN 1 bs with
      | .ok (a, r) => (match findTag (leVal a) cs with
        | some c => (match c.dec st k r with
          | .ok (x, r') => .ok (.pair (.nat (leVal a)) x, r')
          | .error e => .error e)
        | none => .error .invalid)
      | .error e => .error e
    alloc := fun k bs => match takeN 1 bs with
      | .ok (a, r) => (match findTag (leVal a) cs with
        | some c => c.alloc k r
        | none => 0)
      | .error _ => 0
    canon := fun v => match v with
      | .pair (.nat t) x => decide (t < 256) && (match findTag t cs with
        | some c => c.canon x
        | none => false)
      | _ => false
    minLen := 1
    depth := tagDepth cs
    guarded := tagGuarded cs }

/-! ## version byte + presence bitmap + present fields (`V2Transaction`)

`e.WriteUint8(version); e.WriteUint64(fields); if fields&(1<<i) != 0 { field_i }`.
The encoder sets bit `i` iff field `i` is non-empty; the decoder reads field `i` iff
bit `i` is set and ignores bits beyond the last field. Value: a list with one entry per
field, `none` (absent/empty) or `some x` with `x` non-empty. -/

structure BitField where
  c : Codec
  /-- Go's emptiness test of the field (`len(x) == 0`, `IsZero()`, never for a pointer) -/
  isZero : Val → Bool

def maskOf : List Bool → Nat
  | [] => 0
  | b :: bs => (if b then 1 else 0) + 2 * maskOf bs

def isSome : Val → Bool
  | .some _ => true
  | _ => false

def encFields : List BitField → List Val → Bytes
  | [], _ => []
  | f :: fs, vs => match vs with
    | [] => []
    | v :: vs' => (match v with | .some x => f.c.enc x | _ => []) ++ encFields fs vs'

def canonFields : List BitField → List Val → Bool
  | [], vs => vs.isEmpty
  | f :: fs, vs => match vs with
    | [] => false
    | v :: vs' => (match v with
        | .some x => f.c.canon x && !f.isZero x
        | .none => true
        | _ => false) && canonFields fs vs'

def consOk (v : Val) (r : Except DecErr (List Val × Bytes)) : Except DecErr (List Val × Bytes) :=
  match r with
  | .ok (vs, r') => .ok (v :: vs, r')
  | .error e => .error e

def decFields (st : Bool) (k : Nat) : List BitField → Nat → Bytes → Except DecErr (List Val × Bytes)
  | [], _, bs => .ok ([], bs)
  | f :: fs, m, bs =>
    if m % 2 = 1 then
      match f.c.dec st k bs with
      | .ok (x, r) =>
        if f.isZero x then
          (if st then .error .invalid else consOk .none (decFields st k fs (m / 2) r))
        else consOk (.some x) (decFields st k fs (m / 2) r)
      | .error e => .error e
    else consOk .none (decFields st k fs (m / 2) bs)

def allocFields (k : Nat) : List BitField → Nat → Bytes → Nat
  | [], _, _ => 0
  | f :: fs, m, bs =>
    if m % 2 = 1 then
      match f.c.dec false k bs with
      | .ok (_, r) => f.c.alloc k bs + allocFields k fs (m / 2) r
      | .error _ => f.c.alloc k bs
    else allocFields k fs (m / 2) bs

def fieldsDepth : List BitField → Nat
  | [] => 0
  | f :: fs => max f.c.depth (fieldsDepth fs)

def fieldsGuarded : List BitField → Bool
  | [] => true
  | f :: fs => f.c.guarded && fieldsGuarded fs

def Codec.bitmap (version : Nat) (fs : List BitField) : Codec :=
  { enc := fun v => match v with
      | .list vs => leBytes 1 version ++ (u64le (maskOf (vs.map isSome)) ++ encFields fs vs)
      | _ => []
    dec := fun st k bs => match takeN 1 bs with
      | .ok (a, r) =>
        if leVal a ≠ version then .error .invalid else
        (match readU64 r with
        | .ok (m, r2) =>
          if st && decide (2 ^ fs.length ≤ m) then .error .invalid
          else okList (decFields st k fs m r2)
        | .error e => .error e)
      | .error e => .error e
    alloc := fun k bs => match takeN 1 bs with
      | .ok (a, r) =>
        if leVal a ≠ version then 0 else
        (match readU64 r with
        | .ok (m, r2) => allocFields k fs m r2
        | .error _ => 0)
      | .error _ => 0
    canon := fun v => match v with
      | .list vs => decide (version < 256) && decide (fs.length ≤ 64) && canonFields fs vs
      | _ => false
    minLen := 9
    depth := fieldsDepth fs
    guarded := fieldsGuarded fs }

end Sia.Codec
