import SiaModel.Codec.Schema
/-!
# SiaModel.Codec.Spec — the committed wire layout of consensus-critical objects

Hand-written from the protocol format at the pinned commit (Sia v1 "siad" encoding
for v1 objects; the v2 encoding of core for v2 objects). This file is the
independent statement of the byte layout: `C11Tie.tie_wire_*` proves that the
schema read off the *current* `EncodeTo` bodies equals these terms, so a field
re-ordered, dropped or re-typed symmetrically in encoder and decoder (every round
trip still passes) breaks a tie here. Labels are the Go field names: swapping two
fields of the same wire type is also caught.

NEVER regenerate this file from the code. Change it only when the protocol changes.
-/
namespace Sia.Codec.Spec
open Sia.Codec

/-- 32-byte hashes, IDs, addresses, public keys: raw bytes, no prefix -/
def hash32 : Sch := .fixed 32
/-- 16-byte specifier, zero padded -/
def specifier : Sch := .fixed 16
/-- 64-byte ed25519 signature, raw -/
def signature : Sch := .fixed 64

/-- v2 currency: 128 bit, low word first, both little-endian -/
def v2Currency : Sch := Sch.seq [("Lo", .u64), ("Hi", .u64)]

def chainIndex : Sch := Sch.seq [("Height", .u64), ("ID", hash32)]

/-! ### v1 transactions (siad encoding) -/

def unlockKey : Sch := Sch.seq [("Algorithm", specifier), ("Key", .bytes)]

def unlockConditions : Sch :=
  Sch.seq [("Timelock", .u64), ("PublicKeys", .slice unlockKey), ("SignaturesRequired", .u64)]

/-- v1 currency: length-prefixed big-endian, no leading zeros -/
def v1SiacoinOutput : Sch := Sch.seq [("Value", .cur1), ("Address", hash32)]

/-- siafund count as a v1 currency, address, and siad's (always zero) "ClaimStart" -/
def v1SiafundOutput : Sch := Sch.seq [("Value", .sfval1), ("Address", hash32), ("-", .cur1pad)]

def siacoinInput : Sch := Sch.seq [("ParentID", hash32), ("UnlockConditions", unlockConditions)]

def siafundInput : Sch :=
  Sch.seq [("ParentID", hash32), ("UnlockConditions", unlockConditions), ("ClaimAddress", hash32)]

def fileContract : Sch := Sch.seq [
  ("Filesize", .u64), ("FileMerkleRoot", hash32), ("WindowStart", .u64), ("WindowEnd", .u64),
  ("Payout", .cur1),
  ("ValidProofOutputs", .slice v1SiacoinOutput), ("MissedProofOutputs", .slice v1SiacoinOutput),
  ("UnlockHash", hash32), ("RevisionNumber", .u64)]

/-- a revision carries no payout and puts the revision number first -/
def fileContractRevision : Sch := Sch.seq [
  ("ParentID", hash32), ("UnlockConditions", unlockConditions),
  ("FileContract.RevisionNumber", .u64), ("FileContract.Filesize", .u64),
  ("FileContract.FileMerkleRoot", hash32),
  ("FileContract.WindowStart", .u64), ("FileContract.WindowEnd", .u64),
  ("FileContract.ValidProofOutputs", .slice v1SiacoinOutput),
  ("FileContract.MissedProofOutputs", .slice v1SiacoinOutput),
  ("FileContract.UnlockHash", hash32)]

def storageProof : Sch := Sch.seq [("ParentID", hash32), ("Leaf", .fixed 64), ("Proof", .slice hash32)]

def foundationAddressUpdate : Sch := Sch.seq [("NewPrimary", hash32), ("NewFailsafe", hash32)]

def coveredFields : Sch := Sch.seq [
  ("WholeTransaction", .bool),
  ("SiacoinInputs", .slice .u64), ("SiacoinOutputs", .slice .u64), ("FileContracts", .slice .u64),
  ("FileContractRevisions", .slice .u64), ("StorageProofs", .slice .u64),
  ("SiafundInputs", .slice .u64), ("SiafundOutputs", .slice .u64), ("MinerFees", .slice .u64),
  ("ArbitraryData", .slice .u64), ("Signatures", .slice .u64)]

def transactionSignature : Sch := Sch.seq [
  ("ParentID", hash32), ("PublicKeyIndex", .u64), ("Timelock", .u64),
  ("CoveredFields", coveredFields), ("Signature", .bytes)]

def transaction : Sch := Sch.seq [
  ("SiacoinInputs", .slice siacoinInput), ("SiacoinOutputs", .slice v1SiacoinOutput),
  ("FileContracts", .slice fileContract), ("FileContractRevisions", .slice fileContractRevision),
  ("StorageProofs", .slice storageProof),
  ("SiafundInputs", .slice siafundInput), ("SiafundOutputs", .slice v1SiafundOutput),
  ("MinerFees", .slice .cur1), ("ArbitraryData", .slice .bytes),
  ("Signatures", .slice transactionSignature)]

/-! ### blocks -/

def blockHeader : Sch :=
  Sch.seq [("ParentID", hash32), ("Nonce", .u64), ("Timestamp", .time), ("Commitment", hash32)]

def v1Block : Sch := Sch.seq [
  ("ParentID", hash32), ("Nonce", .u64), ("Timestamp", .time),
  ("MinerPayouts", .slice v1SiacoinOutput), ("Transactions", .slice transaction)]

/-- the v2 part: height, commitment, and the v2 transactions as a multiproof (irregular) -/
def v2BlockData : Sch := Sch.seq [
  ("Height", .u64), ("Commitment", hash32), ("Transactions", .ext "Types.V2TransactionsMultiproof")]

def v2Block : Sch := Sch.seq [
  ("ParentID", hash32), ("Nonce", .u64), ("Timestamp", .time),
  ("MinerPayouts", .slice v1SiacoinOutput), ("Transactions", .slice transaction),
  ("V2", .opt v2BlockData)]

/-! ### elements and v2 objects -/

def v2SiacoinOutput : Sch := Sch.seq [("Value", v2Currency), ("Address", hash32)]
def v2SiafundOutput : Sch := Sch.seq [("Value", .u64), ("Address", hash32)]

def stateElement : Sch := Sch.seq [("LeafIndex", .u64), ("MerkleProof", .slice hash32)]

def chainIndexElement : Sch :=
  Sch.seq [("StateElement", stateElement), ("ID", hash32), ("ChainIndex", chainIndex)]

def siacoinElement : Sch := Sch.seq [
  ("StateElement", stateElement), ("ID", hash32), ("SiacoinOutput", v2SiacoinOutput), ("MaturityHeight", .u64)]

def siafundElement : Sch := Sch.seq [
  ("StateElement", stateElement), ("ID", hash32), ("SiafundOutput", v2SiafundOutput), ("ClaimStart", v2Currency)]

def fileContractElement : Sch :=
  Sch.seq [("StateElement", stateElement), ("ID", hash32), ("FileContract", fileContract)]

def v2FileContract : Sch := Sch.seq [
  ("Capacity", .u64), ("Filesize", .u64), ("FileMerkleRoot", hash32),
  ("ProofHeight", .u64), ("ExpirationHeight", .u64),
  ("RenterOutput", v2SiacoinOutput), ("HostOutput", v2SiacoinOutput),
  ("MissedHostValue", v2Currency), ("TotalCollateral", v2Currency),
  ("RenterPublicKey", hash32), ("HostPublicKey", hash32),
  ("RevisionNumber", .u64), ("RenterSignature", signature), ("HostSignature", signature)]

def v2FileContractElement : Sch :=
  Sch.seq [("StateElement", stateElement), ("ID", hash32), ("V2FileContract", v2FileContract)]

def satisfiedPolicy : Sch := Sch.seq [
  ("Policy", .ext "Types.SpendPolicy"), ("Signatures", .slice signature), ("Preimages", .slice hash32)]

def v2SiacoinInput : Sch := Sch.seq [("Parent", siacoinElement), ("SatisfiedPolicy", satisfiedPolicy)]

def v2SiafundInput : Sch :=
  Sch.seq [("Parent", siafundElement), ("ClaimAddress", hash32), ("SatisfiedPolicy", satisfiedPolicy)]

def v2FileContractRevision : Sch := Sch.seq [("Parent", v2FileContractElement), ("Revision", v2FileContract)]

def v2FileContractRenewal : Sch := Sch.seq [
  ("FinalRenterOutput", v2SiacoinOutput), ("FinalHostOutput", v2SiacoinOutput),
  ("RenterRollover", v2Currency), ("HostRollover", v2Currency),
  ("NewContract", v2FileContract), ("RenterSignature", signature), ("HostSignature", signature)]

def v2StorageProof : Sch :=
  Sch.seq [("ProofIndex", chainIndexElement), ("Leaf", .fixed 64), ("Proof", .slice hash32)]

def v2FileContractExpiration : Sch := .nil

def attestation : Sch :=
  Sch.seq [("PublicKey", hash32), ("Key", .str), ("Value", .bytes), ("Signature", signature)]

/-- v2 transaction: version byte 2, a 64-bit presence bitmap, then — for every set bit, in
this order — the field. A bit is set iff the field is non-empty (slices, data), non-nil
(foundation address) or non-zero (miner fee). -/
def v2TransactionVersion : Nat := 2
def v2TransactionFields : List (Nat × String × ZeroKind × Sch) := [
  (0, "SiacoinInputs", .len, .slice v2SiacoinInput),
  (1, "SiacoinOutputs", .len, .slice v2SiacoinOutput),
  (2, "SiafundInputs", .len, .slice v2SiafundInput),
  (3, "SiafundOutputs", .len, .slice v2SiafundOutput),
  (4, "FileContracts", .len, .slice v2FileContract),
  (5, "FileContractRevisions", .len, .slice v2FileContractRevision),
  (6, "FileContractResolutions", .len, .slice (.ext "Types.V2FileContractResolution")),
  (7, "Attestations", .len, .slice attestation),
  (8, "ArbitraryData", .len, .bytes),
  (9, "NewFoundationAddress", .never, hash32),
  (10, "MinerFee", .zero, v2Currency)]

/-- a resolution: the contract element being resolved, then a type tag
(0 renewal, 1 storage proof, 2 expiration) and the payload of that type -/
def v2FileContractResolutionTags : List (String × Nat) :=
  [("V2FileContractRenewal", 0), ("V2StorageProof", 1), ("V2FileContractExpiration", 2)]

/-! ### consensus -/

/-- 256-bit big-endian work -/
def work : Sch := Sch.seq [("n", .fixed 32)]

/-- the accumulator: leaf count, then ONLY the roots of the trees that exist (bit `i` of
the leaf count set), lowest height first. (`ext`: the count depends on the first field.) -/
def elementAccumulator : Sch :=
  Sch.seq [("NumLeaves", .u64), ("Trees", .ext "dep[hasTreeAtHeight(i)] Types_Hash256")]

/-- the consensus state as hashed into the block commitment: only the first
`min(height+1, 11)` timestamps are present; the network parameters are not part of it -/
def state : Sch := Sch.seq [
  ("Index", chainIndex), ("PrevTimestamps", .ext "dep[:numTimestamps()] .time"),
  ("Depth", hash32), ("ChildTarget", hash32), ("SiafundTaxRevenue", v2Currency),
  ("OakTime", .u64), ("OakTarget", hash32),
  ("FoundationSubsidyAddress", hash32), ("FoundationManagementAddress", hash32),
  ("TotalWork", work), ("Difficulty", work), ("OakWork", work),
  ("Elements", elementAccumulator), ("Attestations", .u64)]

def v1StorageProofSupplement : Sch := Sch.seq [("FileContract", fileContractElement), ("WindowID", hash32)]

def v1TransactionSupplement : Sch := Sch.seq [
  ("SiacoinInputs", .slice siacoinElement), ("SiafundInputs", .slice siafundElement),
  ("RevisedFileContracts", .slice fileContractElement), ("StorageProofs", .slice v1StorageProofSupplement)]

def v1BlockSupplement : Sch := Sch.seq [
  ("Transactions", .slice v1TransactionSupplement), ("ExpiringFileContracts", .slice fileContractElement)]

end Sia.Codec.Spec
