import SiaModel.Codec.Policy
import SiaModel.Policy.Address
/-!
# SiaModel.Codec.PolicyBridge — the policy tree type of `SiaModel/Policy` as codec values

`ofPolicy` embeds `Sia.Policy.Policy` (the tree type of the policy semantics, C14) into the
value trees of the schema codec; `toPolicy` is its partial inverse. `SiaModel/Policy/Address.lean`
has its own `ByteArray` encoder (used for addresses); `crossEncode` runs both encoders on the
same tree so that the driver can check they produce the same bytes.
-/
namespace Sia.Codec.Policy
open Sia.Policy (Policy UnlockKey UnlockConditions)

def ofKey (k : UnlockKey) : Val := .pair (.bytes k.algorithm.data.toList) (.pair (.bytes k.key.data.toList) .unit)

def ofUC (c : UnlockConditions) : Val :=
  .pair (.nat c.timelock) (.pair (.list (c.publicKeys.map ofKey)) (.pair (.nat c.signaturesRequired) .unit))

mutual
/-- the node value (without the version byte) -/
def ofNode : Policy → Val
  | .above h => .pair (.nat opAbove) (.nat h)
  | .after t => .pair (.nat opAfter) (.nat (Sia.Policy.timeU64 t))
  | .pk k => .pair (.nat opPublicKey) (.bytes k.data.toList)
  | .hash h => .pair (.nat opHash) (.bytes h.data.toList)
  | .thresh n subs => .pair (.nat opThreshold) (.pair (.nat n) (.pair (.list (ofNodes subs)) .unit))
  | .opaque a => .pair (.nat opOpaque) (.bytes a.data.toList)
  | .uc c => .pair (.nat opUnlockConditions) (ofUC c)
def ofNodes : List Policy → List Val
  | [] => []
  | p :: ps => ofNode p :: ofNodes ps
end

/-- the codec value of a policy: version, then the root node -/
def ofPolicy (p : Policy) : Val := .pair (.nat version) (ofNode p)

def toBA (l : List UInt8) : ByteArray := ⟨l.toArray⟩

def toInt64 (u : Nat) : Int := if u < 9223372036854775808 then u else (u : Int) - 18446744073709551616

def toKey : Val → Option UnlockKey
  | .pair (.bytes a) (.pair (.bytes k) .unit) => some ⟨toBA a, toBA k⟩
  | _ => none

def toNode : Nat → Val → Option Policy
  | 0, _ => none
  | f + 1, v => match v with
    | .pair (.nat 1) (.nat h) => some (.above h)
    | .pair (.nat 2) (.nat t) => some (.after (toInt64 t))
    | .pair (.nat 3) (.bytes k) => some (.pk (toBA k))
    | .pair (.nat 4) (.bytes h) => some (.hash (toBA h))
    | .pair (.nat 5) (.pair (.nat n) (.pair (.list cs) .unit)) => (cs.mapM (toNode f)).map (.thresh n)
    | .pair (.nat 6) (.bytes a) => some (.opaque (toBA a))
    | .pair (.nat 7) (.pair (.nat tl) (.pair (.list ks) (.pair (.nat sr) .unit))) =>
      (ks.mapM toKey).map fun ks => .uc ⟨tl, ks, sr⟩
    | _ => none

def toPolicy : Val → Option Policy
  | .pair (.nat 1) n => toNode 40 n
  | _ => none

/-- the bytes of the policy semantics' own encoder (`Sia.Policy.encode`) -/
def otherEncoder (p : Policy) : List UInt8 := (Sia.Policy.encode p).data.toList

end Sia.Codec.Policy
