import SiaModel.Codec.Schema
/-!
# SiaModel.Codec.Size — encoded sizes (C19)

* `size E s v` — the encoded size of a value, computed structurally (`= |enc E s v|`,
  theorem `C19.size_eq`);
* `zeroSize s` — the size of the encoding of Go's zero value (rhp/v4 `sizeof(T{})`);
* `maxSize B s` — an upper bound on the size of every value whose variable-length parts
  obey the per-field limits `B` (field label ↦ maximal element / byte count); `none` when
  some part has no bound (an `ext` leaf, a field without limit);
* `within B s v` — `v` obeys the limits.
-/
namespace Sia.Codec

def sizeList (f : Val → Nat) : List Val → Nat
  | [] => 0
  | v :: vs => f v + sizeList f vs

/-- encoded size, structurally -/
def size (E : Env) : Sch → Val → Nat
  | .atom a, v => ((a.codec E.lim).enc v).length
  | .nil, _ => 0
  | .cons _ s r, v => match v with | .pair a b => size E s a + size E r b | _ => 0
  | .slice s, v => match v with | .list vs => 8 + sizeList (size E s) vs | _ => 0
  | .opt s, v => match v with | .none => 1 | .some a => 1 + size E s a | _ => 0
  | .uslice s, v => match v with | .list vs => 8 + sizeList (size E s) vs | _ => 0
  | .aslice s, v => match v with | .list vs => 8 + sizeList (size E s) vs | _ => 0
  | .ext n, v => ((E.ext n).enc v).length

/-- size of the encoding of the zero value: empty slices and byte strings, nil
pointers, zero numbers (rhp/v4 `sizeof(T{})`); `ext` leaves count 0 -/
def Sch.zeroSize : Sch → Nat
  | .atom a => match a with
    | .u8 | .bool => 1
    | .u64 | .time => 8
    | .fixed n => n
    | .bytes | .str | .ubytes | .cbytes => 8
    | .pfixed n => 8 + n
    | .cur1 | .sfval1 | .cur1pad => 8
  | .nil => 0
  | .cons _ s r => s.zeroSize + r.zeroSize
  | .slice _ => 8
  | .opt _ => 1
  | .uslice _ => 8
  | .aslice _ => 8
  | .ext _ => 0

def optAdd (a b : Option Nat) : Option Nat :=
  match a, b with
  | some x, some y => some (x + y)
  | _, _ => none

def optMul (n : Nat) (a : Option Nat) : Option Nat :=
  match a with
  | some x => some (n * x)
  | none => none

/-- upper bound of the encoded size of a part all of whose slices (nested ones too) have
at most `cur` elements and whose byte strings have at most `cur` bytes; `none`: no bound -/
def maxSizeIn : Option Nat → Sch → Option Nat
  | cur, .atom a => match a with
    | .u8 | .bool => some 1
    | .u64 | .time => some 8
    | .fixed n => some n
    | .bytes | .str | .ubytes | .cbytes => optAdd (some 8) cur
    | .pfixed n => some (8 + n)
    | .cur1 | .sfval1 => some 24
    | .cur1pad => some 8
  | _, .nil => some 0
  | cur, .cons _ s r => optAdd (maxSizeIn cur s) (maxSizeIn cur r)
  | cur, .slice s => match cur with
    | some n => optAdd (some 8) (optMul n (maxSizeIn cur s))
    | none => none
  | cur, .opt s => optAdd (some 1) (maxSizeIn cur s)
  | cur, .uslice s => match cur with
    | some n => optAdd (some 8) (optMul n (maxSizeIn cur s))
    | none => none
  | cur, .aslice s => match cur with
    | some n => optAdd (some 8) (optMul n (maxSizeIn cur s))
    | none => none
  | _, .ext _ => none

/-- the part obeys the limit `cur` -/
def withinIn : Option Nat → Sch → Val → Bool
  | cur, .atom a, v => match a with
    | .bytes | .str | .ubytes | .cbytes => (match cur, v with
      | some n, .bytes b => decide (b.length ≤ n)
      | _, _ => false)
    | _ => true
  | _, .nil, _ => true
  | cur, .cons _ s r, v => match v with
    | .pair a b => withinIn cur s a && withinIn cur r b
    | _ => false
  | cur, .slice s, v => match cur, v with
    | some n, .list vs => decide (vs.length ≤ n) && vs.all (withinIn cur s)
    | _, _ => false
  | cur, .opt s, v => match v with
    | .some a => withinIn cur s a
    | _ => true
  | cur, .uslice s, v => match cur, v with
    | some n, .list vs => decide (vs.length ≤ n) && vs.all (withinIn cur s)
    | _, _ => false
  | cur, .aslice s, v => match cur, v with
    | some n, .list vs => decide (vs.length ≤ n) && vs.all (withinIn cur s)
    | _, _ => false
  | _, .ext _, _ => false

/-- per-field limits of a record, IN FIELD ORDER: (Go field name, maximal element / byte
count of that field, `none` = the field has no variable-length part or no limit). The
names are documentation, tied to the schema's labels by a `rfl` theorem. -/
abbrev Limits := List (String × Option Nat)

/-- upper bound of the encoded size of a record under per-field limits -/
def maxSize : Limits → Sch → Option Nat
  | b :: B, .cons _ s r => optAdd (maxSizeIn b.2 s) (maxSize B r)
  | [], .cons _ s r => optAdd (maxSizeIn none s) (maxSize [] r)
  | _, .nil => some 0
  | _, s => maxSizeIn none s

/-- the record obeys its per-field limits -/
def within : Limits → Sch → Val → Bool
  | b :: B, .cons _ s r, v => match v with
    | .pair x y => withinIn b.2 s x && within B r y
    | _ => false
  | [], .cons _ s r, v => match v with
    | .pair x y => withinIn none s x && within [] r y
    | _ => false
  | _, .nil, _ => true
  | _, s, v => withinIn none s v

end Sia.Codec
