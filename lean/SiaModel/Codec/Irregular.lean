import SiaModel.Codec.Comb
import SiaModel.Codec.Policy
import SiaModel.Gen.FactsSchema
/-!
# SiaModel.Codec.Irregular — hand-written schema models of irregular codecs

These codecs are not straight sequences of the regular call shapes (the extractor
lists them as irregular), but their wire form is expressible in the schema language.
They mirror the code as it is, including the unguarded allocations.
-/
namespace Sia.Codec.Irregular
open Sia.Codec

/-- `types.V1Currency` — the atom `cur1` (`EncodeTo`: 16 big-endian bytes, trimmed,
length-prefixed; `DecodeFrom`: prefix ≤ 16, leading zeros accepted). -/
def v1Currency : Sch := .cur1

/-- rhp/v2 `RPCReadResponse` (after fix 3d18561): `copy(r.Signature[:], d.ReadBytes())`,
then `r.Data = readN(d, r.Data, d.ReadUint64())` — the announced length is not checked
against the reader's allowance, but `readN` only grows the buffer by what really arrives
(atom `cbytes`) — then `DecodeSlice(d, &r.MerkleProof)`. -/
def rhp2ReadResponse : Sch :=
  Sch.seq [("Signature", .pfixed 64), ("Data", .cbytes), ("MerkleProof", .slice (.fixed 32))]

/-- the same decoder BEFORE the fix: `dataLen := int(d.ReadUint64()); make([]byte, dataLen)`
(kept for the record: `c10_rhp2_readresponse_old_panics`) -/
def rhp2ReadResponseOld : Sch :=
  Sch.seq [("Signature", .pfixed 64), ("Data", .ubytes), ("MerkleProof", .slice (.fixed 32))]

/-- rhp/v3 `RPCExecuteProgramRequest` (after fix 1d18dfd): contract id, then
`n := d.ReadUint64(); for i < n { …; r.Program = append(r.Program, instr) }` — no guard on
`n`, but the slice grows only by instructions really decoded (`aslice`); each
instruction is a specifier, an argument length and the instruction's own codec (not
modelled: `ext`); then the length-prefixed program data. -/
def rhp3ExecuteProgramRequest : Sch :=
  Sch.seq [("FileContractID", .fixed 32), ("Program", .aslice (.ext "Rhp3.Instruction")),
    ("ProgramData", .bytes)]

/-- the same decoder BEFORE the fix: `r.Program = make([]Instruction, d.ReadUint64())` -/
def rhp3ExecuteProgramRequestOld : Sch :=
  Sch.seq [("FileContractID", .fixed 32), ("Program", .uslice (.ext "Rhp3.Instruction")),
    ("ProgramData", .bytes)]

/-! ### `types.V2FileContractResolution` — parent element, one-byte type tag, payload -/

/-- tag → payload type, as written in `V2FileContractResolution.EncodeTo/DecodeFrom`
(tied to the code by `C11.tie_resolution_tags`) -/
def resolutionTags : List (String × Nat) :=
  [("V2FileContractRenewal", 0), ("V2StorageProof", 1), ("V2FileContractExpiration", 2)]

/-- the payload codec by tag; the payloads are the generated (regular) schemas -/
def resolutionPayload (E : Env) : Codec := Codec.tagged [
  (0, Codec.ofSch E Gen.encSchema_Types_V2FileContractRenewal),
  (1, Codec.ofSch E Gen.encSchema_Types_V2StorageProof),
  (2, Codec.ofSch E Gen.encSchema_Types_V2FileContractExpiration)]

/-- `res.Parent.EncodeTo(e); e.WriteUint8(tag); res.Resolution.EncodeTo(e)` -/
def resolutionSch : Sch := Sch.seq [
  ("Parent", Gen.encSchema_Types_V2FileContractElement),
  ("Resolution", .ext "Types.V2FileContractResolution.payload")]

/-- environment with the `SpendPolicy` codec (`Codec/Policy.lean`) -/
def envP : Env := Env.default.with "Types.SpendPolicy" (Policy.codec Env.default)

/-- … and the resolution payload -/
def env1 : Env := envP.with "Types.V2FileContractResolution.payload" (resolutionPayload envP)

/-- environment with resolutions -/
def env2 : Env := env1.with "Types.V2FileContractResolution" (Codec.ofSch env1 resolutionSch)

/-! ### `types.V2Transaction` — version byte, presence bitmap, present fields

The field list (bit, Go field, emptiness test, field schema) is the GENERATED one
(`Gen.v2TxnFieldsEnc`, read off the `if fields&(1<<i) != 0` blocks), so the model always
mirrors the code; `Spec.v2TransactionFields` is the committed layout it is tied to. -/

def v2TxnBitFields (E : Env) (fs : List (Nat × String × ZeroKind × Sch)) : List BitField :=
  fs.map fun t => { c := Codec.ofSch E t.2.2.2, isZero := isZeroVal t.2.2.1 }

def v2TxnCodec (E : Env) : Codec := Codec.bitmap Gen.v2TxnVersionEnc (v2TxnBitFields E Gen.v2TxnFieldsEnc)

/-- the environment of hand-modelled irregular codecs used by the driver -/
def env : Env := env2.with "Types.V2Transaction" (v2TxnCodec env2)

/-- hand-modelled codecs addressable by the driver like the generated ones:
(name, encoder schema, decoder schema) -/
def handSchemas : List (String × Sch × Sch) := [
  ("Types_V1Currency", v1Currency, v1Currency),
  ("Rhp2_RPCReadResponse", rhp2ReadResponse, rhp2ReadResponse),
  ("Rhp3_RPCExecuteProgramRequest", rhp3ExecuteProgramRequest, rhp3ExecuteProgramRequest),
  ("Types_V2FileContractResolution", .ext "Types.V2FileContractResolution", .ext "Types.V2FileContractResolution"),
  ("Types_V2Transaction", .ext "Types.V2Transaction", .ext "Types.V2Transaction"),
  ("Types_SpendPolicy", .ext "Types.SpendPolicy", .ext "Types.SpendPolicy")
]

end Sia.Codec.Irregular
