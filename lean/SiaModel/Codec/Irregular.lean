import SiaModel.Codec.Schema
/-!
# SiaModel.Codec.Irregular — hand-written schema models of irregular codecs

These codecs are not straight sequences of the regular call shapes (the extractor
lists them as irregular), but their wire form is expressible in the schema language.
They mirror the code as it is, including the unguarded allocations.
-/
namespace Sia.Codec.Irregular
open Sia.Codec

/-- `types.V1Currency` — the atom `cur1` (`EncodeTo`: 16 big-endian bytes, trimmed,
length-prefixed; `DecodeFrom`: prefix ≤ 16, leading zeros accepted). -/
def v1Currency : Sch := .cur1

/-- rhp/v2 `RPCReadResponse`: `copy(r.Signature[:], d.ReadBytes())`, then
`dataLen := int(d.ReadUint64()); r.Data = make([]byte, dataLen)[:dataLen]; d.Read(r.Data)`
— no guard on `dataLen` — then `DecodeSlice(d, &r.MerkleProof)`. -/
def rhp2ReadResponse : Sch :=
  Sch.seq [("Signature", .pfixed 64), ("Data", .ubytes), ("MerkleProof", .slice (.fixed 32))]

/-- rhp/v3 `RPCExecuteProgramRequest`: contract id, then
`r.Program = make([]Instruction, d.ReadUint64())` — no guard — each instruction being a
specifier, an argument length and the instruction's own codec (not modelled: `ext`),
then the length-prefixed program data. -/
def rhp3ExecuteProgramRequest : Sch :=
  Sch.seq [("FileContractID", .fixed 32), ("Program", .uslice (.ext "Rhp3.Instruction")),
    ("ProgramData", .bytes)]

/-- hand-modelled codecs addressable by the driver like the generated ones:
(name, encoder schema, decoder schema) -/
def handSchemas : List (String × Sch × Sch) := [
  ("Types_V1Currency", v1Currency, v1Currency),
  ("Rhp2_RPCReadResponse", rhp2ReadResponse, rhp2ReadResponse),
  ("Rhp3_RPCExecuteProgramRequest", rhp3ExecuteProgramRequest, rhp3ExecuteProgramRequest)
]

end Sia.Codec.Irregular
