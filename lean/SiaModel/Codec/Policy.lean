import SiaModel.Codec.Comb
import SiaModel.Gen.FactsSchema
/-!
# SiaModel.Codec.Policy — the binary codec of `types.SpendPolicy`

`SpendPolicy.EncodeTo`: a version byte (1), then `encodePolicy`: an opcode byte and the
payload — above: u64 · after: u64 seconds · public key / hash / opaque: 32 bytes ·
threshold: `n` (u8), `len(of)` (u8), the sub-policies · unlock conditions: the (regular,
generated) `UnlockConditions` codec.

`SpendPolicy.DecodeFrom`: the version must be 1; `readPolicy(depth)` fails when
`depth > maxPolicyDepth` (so nodes live at depths 0…32), reads the opcode (unknown → error),
a threshold does `make([]SpendPolicy, d.ReadUint8())` (≤ 255 slots, no guard needed) and reads
that many sub-policies at `depth+1`. Nothing else is checked (in particular `n > len(of)` is
accepted).

The codec is assembled from the combinators (`Codec.tagged` for the version byte and for the
opcode, `Codec.ofSch` for the payloads, `Codec.list8` for the u8-counted children), by
recursion on the remaining depth. Values: `pair (nat 1) node`, node = `pair (nat opcode) payload`,
threshold payload = `pair (nat n) (pair (list children) unit)`.
-/
namespace Sia.Codec

/-- a codec that refuses everything (children below the maximal depth) -/
def Codec.fail : Codec :=
  { enc := fun _ => [], dec := fun _ _ _ => .error .invalid, alloc := fun _ _ => 0,
    canon := fun _ => false, minLen := 1, depth := 0, guarded := true }

/-- a list counted by ONE byte: `e.WriteUint8(uint8(len(xs)))` then the elements;
`make([]T, d.ReadUint8())` then a loop. At most 255 slots are allocated whatever follows. -/
def Codec.list8 (c : Codec) : Codec :=
  { enc := fun v => match v with
      | .list vs => leBytes 1 vs.length ++ encList c.enc vs
      | _ => []
    dec := fun st k bs => match takeN 1 bs with
      | .ok (a, r) => okList (decRep (c.dec st k) (leVal a) r)
      | .error e => .error e
    alloc := fun k bs => match takeN 1 bs with
      | .ok (a, r) => leVal a + allocRep (c.dec false k) (c.alloc k) (leVal a) r
      | .error _ => 0
    canon := fun v => match v with
      | .list vs => decide (vs.length < 256) && vs.all c.canon
      | _ => false
    minLen := 1
    depth := c.depth + 256
    guarded := c.guarded }

namespace Policy

/-- opcodes of `encodePolicy` / `readPolicy` (tied to the code by `C11.tie_policy_opcodes`) -/
def opAbove : Nat := 1
def opAfter : Nat := 2
def opPublicKey : Nat := 3
def opHash : Nat := 4
def opThreshold : Nat := 5
def opOpaque : Nat := 6
def opUnlockConditions : Nat := 7
def version : Nat := 1
/-- `maxPolicyDepth` -/
def maxDepth : Nat := 32

/-- threshold payload: `e.WriteUint8(p.N)`, then the u8-counted sub-policies -/
def threshSch : Sch := Sch.seq [("N", .u8), ("Of", .ext "policy.children")]

/-- the environment in which `policy.children` is the list of sub-policies `children` -/
def childEnv (E : Env) (children : Codec) : Env := E.with "policy.children" (Codec.list8 children)

/-- `encodePolicy` / `readPolicy(depth)` with `fuel = maxPolicyDepth - depth` levels left below -/
def node (E : Env) : Nat → Codec
  | 0 => Codec.tagged [
      (opAbove, Codec.ofSch E .u64), (opAfter, Codec.ofSch E .time),
      (opPublicKey, Codec.ofSch E (.fixed 32)), (opHash, Codec.ofSch E (.fixed 32)),
      (opThreshold, Codec.ofSch (childEnv E Codec.fail) threshSch),
      (opOpaque, Codec.ofSch E (.fixed 32)),
      (opUnlockConditions, Codec.ofSch E Gen.encSchema_Types_UnlockConditions)]
  | f + 1 => Codec.tagged [
      (opAbove, Codec.ofSch E .u64), (opAfter, Codec.ofSch E .time),
      (opPublicKey, Codec.ofSch E (.fixed 32)), (opHash, Codec.ofSch E (.fixed 32)),
      (opThreshold, Codec.ofSch (childEnv E (node E f)) threshSch),
      (opOpaque, Codec.ofSch E (.fixed 32)),
      (opUnlockConditions, Codec.ofSch E Gen.encSchema_Types_UnlockConditions)]

/-- `SpendPolicy.EncodeTo` / `DecodeFrom`: version byte, then the root node at depth 0 -/
def codec (E : Env) : Codec := Codec.tagged [(version, node E maxDepth)]

/-- the satisfied policy is a regular record around the policy (generated schema) -/
def satisfiedSch : Sch := Gen.encSchema_Types_SatisfiedPolicy

end Policy
end Sia.Codec
