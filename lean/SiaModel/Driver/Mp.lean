import SiaModel.Driver.Acc
import SiaModel.Merkle.Multiproof
import SiaModel.Gateway.Outline
import SiaModel.Merkle.TxTraverse
import SiaModel.Codec.Irregular
/-!
  Line-protocol ops for the multiproof code and the block outline (C18), `H := ByteArray`
  with the real BLAKE2b-256 for the multiproof ops; the outline ops work on hash tokens.

    mleaves   idx:elem:proof;...   (proof = hashes, `-` or empty = no hashes)
    mp-compute <mleaves>                 -> <multiproofSize> <computeMultiproof hashes>
    mp-expand  <idx:elem:len;...> <hashes> -> ok proof;proof;...   | panic
    mp-codec   <mleaves>                 -> <numLeaves> <multiproof> <decoded proofs>  | error
    mp-encode  <hex of EncodeSlice(txns)>  -> hex of V2TransactionsMultiproof(txns).EncodeTo (value-tree model)
    mp-traverse <hex of EncodeSlice(txns)> -> idx:prooflen;... of the visited parents (forEachElementLeaf on the value tree)
    ol-complete <reward> <block kind:hash:fee;...> <omitted hashes ,> <pool kind:hash:fee;...>
        -> <outline hashes> <missing before> <v1 hashes> <v2 hashes> <miner value> <missing after>
-/
namespace Sia.Driver
open Sia Sia.ElemAcc Sia.Multiproof

namespace MpOps
open AccOps

def parseMLeaf (withProof : Bool) (tag : Nat) (s : String) : Option (MLeaf ByteArray) :=
  match s.splitOn ":" with
  | [idx, el, pr] => do
    let idx ← idx.toNat?
    let el ← hexDecode el
    let pr ← if withProof then parseHashes pr
             else (pr.toNat?).map fun n => List.replicate n ByteArray.empty
    pure { tag := tag, elem := el, index := idx, proof := pr }
  | _ => none

def parseMLeaves (withProof : Bool) (s : String) : Option (List (MLeaf ByteArray)) :=
  ((splitList s ';').zipIdx.mapM fun (t, i) => parseMLeaf withProof i t)

def showProofs (ls : List (MLeaf ByteArray)) : String := showList (ls.map fun l => showHashes l.proof)

def opCompute : List String → String
  | [ls] =>
    match parseMLeaves true ls with
    | some ls => s!"{multiproofSize ls} {showHashes (computeMultiproof ls)}"
    | none => "bad-op"
  | _ => "bad-op"

def opExpand : List String → String
  | [ls, hs] =>
    match parseMLeaves false ls, parseHashes hs with
    | some ls, some hs =>
      match expandMultiproof ls hs with
      | .ok out => "ok " ++ showProofs out
      | .error _ => "panic"
    | _, _ => "bad-op"
  | _ => "bad-op"

def opCodec : List String → String
  | [ls] =>
    match parseMLeaves true ls with
    | some ls =>
      let (proofless, n, mp) := encodeMP ls
      match decodeMP proofless n mp with
      | .ok (out, _) => s!"{n} {showHashes mp} {showProofs out}"
      | .error _ => "error"
    | none => "bad-op"
  | _ => "bad-op"

/-! the byte-level model on value trees -/

def toHash32 (b : ByteArray) : Hash32 :=
  if h : b.data.toList.length = 32 then ⟨b.data.toList, h⟩ else default

instance : Hasher Hash32 where
  node l r := toHash32 (blake2b256 ((ByteArray.empty.push 1 ++ ⟨l.val.toArray⟩) ++ ⟨r.val.toArray⟩))
  leaf e i s := toHash32 (blake2b256 (((ByteArray.empty.push 0 ++ ⟨e.val.toArray⟩) ++ le64 i).push (if s then 1 else 0)))

def txnsSch : Sia.Codec.Sch := .slice (.ext "Types.V2Transaction")

def valOpsDriver : TxSetOps Sia.Codec.Val :=
  valOps (fun _ _ => default) (Sia.Codec.enc Sia.Codec.Irregular.env txnsSch) (Sia.Codec.dec Sia.Codec.Irregular.env 0 txnsSch)

def opEncode : List String → String
  | [hx] =>
    match hexDecode hx with
    | some b =>
      match Sia.Codec.dec Sia.Codec.Irregular.env 0 txnsSch b.data.toList with
      | .ok (v, []) => hexEncode ⟨(encodeBytes valOpsDriver v).toArray⟩
      | _ => "error"
    | none => "bad-op"
  | _ => "bad-op"

def opTraverse : List String → String
  | [hx] =>
    match hexDecode hx with
    | some b =>
      match Sia.Codec.dec Sia.Codec.Irregular.env 0 txnsSch b.data.toList with
      | .ok (v, []) => showList ((valOpsDriver.leaves v).map fun l => s!"{l.index}:{l.proof.length}")
      | _ => "error"
    | none => "bad-op"
  | _ => "bad-op"

/-! outline ops over hash tokens -/

structure Tok where
  hash : String
  fee : Nat

def parseToks (s : String) : Option (List (Nat × Tok)) :=
  (splitList s ';').mapM fun t =>
    match t.splitOn ":" with
    | [k, h, f] => do pure (← k.toNat?, { hash := h, fee := ← f.toNat? })
    | _ => none

def olEnv (reward : Nat) : Outline.Env Tok Tok String Unit where
  leaf1 := (·.hash)
  leaf2 := (·.hash)
  fee1 := (·.fee)
  fee2 := (·.fee)
  commit := fun _ hs => ",".intercalate hs
  headerID := fun _ _ _ c => c
  reward := reward

def showStrs (l : List String) : String := if l.isEmpty then "-" else ",".intercalate l

def opOlComplete : List String → String
  | [reward, blk, omitted, pool] =>
    match reward.toNat?, parseToks blk, parseToks pool with
    | some reward, some blk, some pool =>
      let env := olEnv reward
      let omitted := splitList omitted ','
      let b : Outline.Block Tok Tok String Unit :=
        { parentID := "", nonce := 0, timestamp := 0, minerAddress := (), minerValue := 0, height := 0,
          commitment := "",
          txns := (blk.filter (·.1 == 0)).map (·.2), v2txns := (blk.filter (·.1 == 1)).map (·.2) }
      let om1 := b.txns.filter (fun t => omitted.contains t.hash)
      let om2 := b.v2txns.filter (fun t => omitted.contains t.hash)
      let bo := Outline.outlineBlock env b om1 om2
      let p1 := (pool.filter (·.1 == 0)).map (·.2)
      let p2 := (pool.filter (·.1 == 1)).map (·.2)
      let (b', missing, _) := bo.complete env p1 p2
      s!"{showStrs (bo.transactions.map (·.hash))} {showStrs (bo.missing)} {showStrs (b'.txns.map (·.hash))} {showStrs (b'.v2txns.map (·.hash))} {b'.minerValue} {showStrs missing}"
    | _, _, _ => "bad-op"
  | _ => "bad-op"

end MpOps

def mpOps : List (String × (List String → String)) := [
  ("mp-compute", MpOps.opCompute),
  ("mp-expand", MpOps.opExpand),
  ("mp-codec", MpOps.opCodec),
  ("mp-encode", MpOps.opEncode),
  ("mp-traverse", MpOps.opTraverse),
  ("ol-complete", MpOps.opOlComplete)]

end Sia.Driver
