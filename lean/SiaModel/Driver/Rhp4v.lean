import SiaModel.Rhp.V4Validate
import SiaModel.Driver.Rhp4c
/-!
  Line-protocol ops for the rhp/v4 request `Validate` model (C17): `rhp4v <kind> …`
  → `ok` | `reject` | `panic`.  Token conventions as in Rhp4c (prices = 7 tokens,
  contract = 11 tokens, currencies one decimal token); Booleans are 0/1.
-/
namespace Sia.Driver.Rhp4v
open Sia.Driver.Rhp4c Sia.Rhp.V4

def verdict (b : Bool) : String := if b then "ok" else "reject"
def verdictE (r : Except String Bool) : String :=
  match r with
  | .ok b => verdict b
  | .error _ => "panic"

def pBool : P Bool
  | 0 :: r => some (false, r)
  | 1 :: r => some (true, r)
  | _ => none

def pairs : List Nat → Option (List (Bool × Nat))
  | [] => some []
  | a :: v :: r => if a ≤ 1 ∧ v < Rhp4c.w64 * Rhp4c.w64 then (pairs r).map (fun l => (a == 1, v) :: l) else none
  | _ => none

def run (op : String) (l : List Nat) : Option String :=
  match op with
  | "free" =>
    match l with
    | fs :: n :: idx => if fs < Rhp4c.w64 ∧ idx.length = n ∧ idx.all (· < Rhp4c.w64) then some (verdict (freeSectorsValidate fs idx)) else none
    | _ => none
  | "append" => match l with | [n] => some (verdict (appendSectorsValidate n)) | _ => none
  | "roots" =>
    match l with
    | [fs, off, len] => if fs < Rhp4c.w64 ∧ off < Rhp4c.w64 ∧ len < Rhp4c.w64 then some (verdict (sectorRootsValidate fs off len)) else none
    | _ => none
  | "fund" =>
    match l with
    | idSet :: sigSet :: n :: rest =>
      match pairs rest with
      | some ds => if idSet ≤ 1 ∧ sigSet ≤ 1 ∧ ds.length = n then some (verdict (fundAccountsValidate (idSet == 1) (sigSet == 1) ds)) else none
      | none => none
    | _ => none
  | "replenish" =>
    match l with
    | idSet :: sigSet :: target :: n :: accts =>
      if idSet ≤ 1 ∧ sigSet ≤ 1 ∧ accts.length = n ∧ accts.all (· ≤ 1) ∧ target < Rhp4c.w64 * Rhp4c.w64 then
        some (verdict (replenishValidate (idSet == 1) (sigSet == 1) (accts.map (· == 1)) target))
      else none
    | _ => none
  | "form" => do
    let (tip, l) ← pNat l
    let (p, l) ← pPrices l
    let (feeZero, l) ← pBool l
    let (basisZero, l) ← pBool l
    let (nIn, l) ← pNat l
    let (a, l) ← pCur l
    let (c, l) ← pCur l
    let (ph, l) ← pNat l
    let (mc, l) ← pCur l
    let (md, l) ← pNat l
    if l ≠ [] then none else
    some (verdictE (formContractValidate tip p feeZero basisZero nIn a c ph mc md))
  | "renew" => do
    let (tip, l) ← pNat l
    let (p, l) ← pPrices l
    let (feeZero, l) ← pBool l
    let (basisZero, l) ← pBool l
    let (a, l) ← pCur l
    let (c, l) ← pCur l
    let (ph, l) ← pNat l
    let (eph, l) ← pNat l
    let (efs, l) ← pNat l
    let (mc, l) ← pCur l
    let (md, l) ← pNat l
    if l ≠ [] then none else
    some (verdictE (renewContractValidate tip p feeZero basisZero a c ph eph efs mc md))
  | "refresh" => do
    let (tip, l) ← pNat l
    let (p, l) ← pPrices l
    let (feeZero, l) ← pBool l
    let (basisZero, l) ← pBool l
    let (a, l) ← pCur l
    let (c, l) ← pCur l
    let (fc, l) ← pFC l
    let (mc, l) ← pCur l
    let (part, l) ← pBool l
    if l ≠ [] then none else
    some (verdictE (refreshContractValidate tip p feeZero basisZero a c fc mc part))
  | "read" => match l with | [off, len] => if off < Rhp4c.w64 ∧ len < Rhp4c.w64 then some (verdict (readSectorValidate off len)) else none | _ => none
  | "write" => match l with | [len] => if len < Rhp4c.w64 then some (verdict (writeSectorValidate len)) else none | _ => none
  | _ => none

def op (args : List String) : String :=
  match args with
  | name :: rest =>
    match rest.mapM String.toNat? with
    | some l => (run name l).getD "bad-op"
    | none => "bad-op"
  | [] => "bad-op"

end Sia.Driver.Rhp4v

namespace Sia.Driver
def rhp4vOps : List (String × (List String → String)) := [("rhp4v", Rhp4v.op)]
end Sia.Driver
