import SiaModel.Ids.Decode
/-!
Line-protocol ops of the id / sighash model (C12, C03), instantiated with real BLAKE2b-256.
Byte strings travel as lowercase hex (`-` = empty); lists are comma separated (`-` = empty).

* `ids-v2 <txn hex>` → `ok wf=<0|1> txid=… input=… sc=… sf=… fc=… att=… claim=… res=… fcsig=… revsig=… rensig=… attsig=…`
  (txid, InputSigHash; siacoin/siafund output ids, contract ids, attestation ids by index; the v2
  claim output id of every siafund input; `renterOut:hostOut:renewalId` of every resolution's
  parent; ContractSigHash of every formation / revision; `RenewalSigHash:ContractSigHash(new)`
  of every renewal (`x` for other resolutions); AttestationSigHash of every attestation)
* `sem-v2 <txn hex>` → the semantic encoding, hex
* `cmp-v2 <txn hex> <txn hex>` → `strip=<0|1> code=<0|1> kinds=<0|1> sem=<0|1>`: equality of the specification
  `strip`, of what the code binds (`stripCode`), of the resolution kinds, of the semantic encodings
* `ids-v1 <txn hex>` → `ok wf=<0|1> txid=… sc=… sf=… fc=… sfclaim=… fcout=<valid ids|missed ids;…>`
* `sighash-v1 <prefix hex> <txn hex>` → `ok <h per signature>` (`panic` where Go would panic)
* `block-id <parentID> <nonce> <timestamp> <commitment>` → the block id
* `block-outs <block id> <n>` → `<n miner output ids> <foundation output id>`
* `merkle-v1 <n payouts> <leaf encodings…>` → `blockMerkleRoot` (payouts, then transactions)
* `commitment <state encoding> <miner address> <n v1 txns> <txn encodings…>` → `State.Commitment`
-/
namespace Sia.Driver
open Sia Sia.Codec Sia.Ids

namespace IdsD

abbrev BL := List UInt8

def hexArg (s : String) : Option BL :=
  if s == "-" then some [] else (Sia.hexDecode s).map (·.data.toList)

def hexOut (b : BL) : String := if b.isEmpty then "-" else Sia.hexEncode ⟨b.toArray⟩

def hexList (l : List BL) : String := if l.isEmpty then "-" else ",".intercalate (l.map hexOut)

def idx {α} (l : List α) : List Nat := List.range l.length

def idsV2 (args : List String) : String :=
  match args with
  | [hex] =>
    match hexArg hex >>= decodeV2Txn with
    | none => "bad-txn"
    | some t =>
      let id := txid blake t
      let dk (k : V2Kind) (n : Nat) := hexList ((List.range n).map fun i => derived blake k id i)
      let res := t.resolutions.map fun r =>
        hexOut (derived blake .contractOutput r.parent.id 0) ++ ":" ++ hexOut (derived blake .contractOutput r.parent.id 1) ++ ":" ++
          hexOut (derived blake .renewal r.parent.id 0)
      let rensig := t.resolutions.map fun r => match r.body with
        | .renewal rn => hexOut (blake (renewalSigPre rn)) ++ ":" ++ hexOut (blake (contractSigPre rn.newContract))
        | _ => "x"
      let wf := if decide (WFG codeBindsClaimAddress t) then "1" else "0"
      s!"ok wf={wf} txid={hexOut id} input={hexOut (blake (inputSigPre t))} sc={dk .siacoinOutput t.siacoinOutputs.length} sf={dk .siafundOutput t.siafundOutputs.length} fc={dk .fileContract t.fileContracts.length} att={dk .attestation t.attestations.length} claim={hexList (t.siafundInputs.map fun i => derived blake .claimOutput i.parent.id 0)} res={if res.isEmpty then "-" else ",".intercalate res} fcsig={hexList (t.fileContracts.map fun fc => blake (contractSigPre fc))} revsig={hexList (t.revisions.map fun r => blake (contractSigPre r.revision))} rensig={if rensig.isEmpty then "-" else ",".intercalate rensig} attsig={hexList (t.attestations.map fun a => blake (attestationSigPre a))}"
  | _ => "bad-op"

def semV2 (args : List String) : String :=
  match args with
  | [hex] =>
    match hexArg hex >>= decodeV2Txn with
    | none => "bad-txn"
    | some t => hexOut (semEncode t)
  | _ => "bad-op"

/-- `cmp-v2 <txn hex> <txn hex>`: is the specification `strip` equal, is what the code binds
(`stripCode`) equal, are the resolution kinds equal, are the semantic encodings equal -/
def cmpV2 (args : List String) : String :=
  match args with
  | [h1, h2] =>
    match hexArg h1 >>= decodeV2Txn, hexArg h2 >>= decodeV2Txn with
    | some t, some t' =>
      let b (x : Bool) := if x then "1" else "0"
      s!"strip={b (decide (strip t = strip t'))} code={b (decide (stripCode codeBindsClaimAddress t = stripCode codeBindsClaimAddress t'))} kinds={b (decide (t.kinds = t'.kinds))} sem={b (decide (semEncode t = semEncode t'))}"
    | _, _ => "bad-txn"
  | _ => "bad-op"

def fcOuts (fcid : BL) (fc : Val) : String :=
  match fields fc with
  | [_, _, _, _, _, .list valid, .list missed, _, _] =>
    hexList ((idx valid).map fun i => blake (v1ProofOutputPre fcid true i)) ++ "|" ++
      hexList ((idx missed).map fun i => blake (v1ProofOutputPre fcid false i))
  | _ => "?"

def idsV1 (args : List String) : String :=
  match args with
  | [hex] =>
    match hexArg hex >>= decodeV1Txn with
    | none => "bad-txn"
    | some t =>
      let fs := bodyFields t.body
      let dk (k : V1Kind) (n : Nat) := (List.range n).map fun i => v1Derived blake k t i
      let sfids := dk .siafundOutput (fs.getD 6 []).length
      let fcids := dk .fileContract (fs.getD 2 []).length
      let fcout := (fcids.zip (fs.getD 2 [])).map fun (id, fc) => fcOuts id fc
      let wf := if canon Env.default v1BodySch t.body then "1" else "0"
      s!"ok wf={wf} txid={hexOut (v1Txid blake t)} sc={hexList (dk .siacoinOutput (fs.getD 1 []).length)} sf={hexList sfids} fc={hexList fcids} sfclaim={hexList (sfids.map fun id => blake (v1ClaimPre id))} fcout={if fcout.isEmpty then "-" else ";".intercalate fcout}"
  | _ => "bad-op"

def natList (v : Val) : List Nat := (listOf v).filterMap asNat

def sighashV1 (args : List String) : String :=
  match args with
  | [phex, hex] =>
    match hexArg phex, hexArg hex >>= decodeV1Txn with
    | some p, some t =>
      let outs := (listOf t.signatures).map fun sg =>
        match fields sg with
        | [.bytes parentID, .nat pki, .nat tl, cf, _] =>
          match fields cf with
          | .bool whole :: lists =>
            let r := if whole then wholeSigPre p t parentID pki tl (natList (lists.getD 9 .unit))
                     else partialSigPre p t (lists.map natList)
            match r with
            | some pre => hexOut (blake pre)
            | none => "panic"
          | _ => "?"
        | _ => "?"
      "ok " ++ (if outs.isEmpty then "-" else ",".intercalate outs)
    | _, _ => "bad-txn"
  | _ => "bad-op"

def blockId (args : List String) : String :=
  match args with
  | [p, n, ts, c] =>
    match hexArg p, n.toNat?, ts.toNat?, hexArg c with
    | some p, some n, some ts, some c => hexOut (blake (blockIdPre p n ts c))
    | _, _, _, _ => "bad-op"
  | _ => "bad-op"

def blockOuts (args : List String) : String :=
  match args with
  | [b, n] =>
    match hexArg b, n.toNat? with
    | some b, some n =>
      hexList ((List.range n).map fun i => blake (minerOutputPre b i)) ++ " " ++ hexOut (blake (foundationOutputPre b))
    | _, _ => "bad-op"
  | _ => "bad-op"

/-- `merkle-v1 <n payouts> <leaf encodings…>`: `blockMerkleRoot` -/
def merkleV1 (args : List String) : String :=
  match args with
  | n :: rest =>
    match n.toNat?, rest.mapM hexArg with
    | some n, some encs => Sia.hexEncode (blockMerkleRootB (encs.take n) (encs.drop n))
    | _, _ => "bad-op"
  | _ => "bad-op"

/-- `commitment <state encoding> <miner address> <n v1 txns> <txn encodings…>`: `State.Commitment` -/
def commitment (args : List String) : String :=
  match args with
  | st :: miner :: n :: txns =>
    match hexArg st, hexArg miner, n.toNat?, txns.mapM hexArg with
    | some st, some miner, some n, some encs => Sia.hexEncode (commitmentB st miner (encs.take n) (encs.drop n))
    | _, _, _, _ => "bad-op"
  | _ => "bad-op"

end IdsD

def idsOps : List (String × (List String → String)) :=
  [("ids-v2", IdsD.idsV2), ("sem-v2", IdsD.semV2), ("cmp-v2", IdsD.cmpV2), ("ids-v1", IdsD.idsV1), ("sighash-v1", IdsD.sighashV1),
   ("block-id", IdsD.blockId), ("block-outs", IdsD.blockOuts), ("merkle-v1", IdsD.merkleV1), ("commitment", IdsD.commitment)]

end Sia.Driver
