import SiaModel.Prim.Bytes
import SiaModel.Codec.Schema
import SiaModel.Gen.FactsSchema
import SiaModel.Codec.Irregular
import SiaModel.Codec.PolicyBridge
/-!
Line-protocol ops of the schema codec (C11 / C10-decode):

* `codec <TypeName> <hex>`  — decode `<hex>` with the decoder schema generated from the
  type's `DecodeFrom`, re-encode the value with the schema generated from its
  `EncodeTo`: `ok <hex of the re-encoding> <number of bytes left over>`, `err`
  (the decoder refuses), or `panic` (the mirrored Go code would panic).
  `-` stands for the empty byte string.
* `codecstrict <TypeName> <hex>` — `1` iff the canonical-input decoder accepts too.
-/
namespace Sia.Driver
open Sia.Codec

def codecLookup (name : String) : Option (Sch × Sch) :=
  match (Gen.allSchemas ++ Irregular.handSchemas).find? (fun t => t.1 == name) with
  | some t => some t.2
  | none => none

def codecHexArg (s : String) : Option (List UInt8) :=
  if s == "-" then some [] else (Sia.hexDecode s).map (·.toList)

def codecHexOut (b : List UInt8) : String :=
  if b.isEmpty then "-" else Sia.hexEncode ⟨b.toArray⟩

def codecOp (args : List String) : String :=
  match args with
  | [name, hex] =>
    match codecLookup name, codecHexArg hex with
    | some (es, ds), some bs =>
      match dec Irregular.env 0 ds bs with
      | .ok (v, rest) => "ok " ++ codecHexOut (enc Irregular.env es v) ++ " " ++ toString rest.length
      | .error .panic => "panic"
      | .error .unsupported => "unsupported"
      | .error _ => "err"
    | _, _ => "bad-op"
  | _ => "bad-op"

def codecStrictOp (args : List String) : String :=
  match args with
  | [name, hex] =>
    match codecLookup name, codecHexArg hex with
    | some (_, ds), some bs =>
      match decStrict Irregular.env 0 ds bs with
      | .ok _ => "1"
      | .error _ => "0"
    | _, _ => "bad-op"
  | _ => "bad-op"

/-- `policyx <hex>`: decode a SpendPolicy with the schema codec, convert the value to the policy
tree of the semantics model (C14) and encode it with THAT model's own encoder
(`Sia.Policy.encode`, used for addresses): `same <hex>` when both encoders agree with the input
consumed, `differ …` otherwise, `err` when the decoder refuses. -/
def policyXOp (args : List String) : String :=
  match args with
  | [hex] =>
    match codecHexArg hex with
    | some bs =>
      match dec Irregular.env 0 (.ext "Types.SpendPolicy") bs with
      | .ok (v, rest) =>
        let mine := enc Irregular.env (.ext "Types.SpendPolicy") v
        match Policy.toPolicy v with
        | some p =>
          let theirs := Policy.otherEncoder p
          if mine == theirs && mine ++ rest == bs then "same " ++ codecHexOut mine
          else "differ " ++ codecHexOut mine ++ " " ++ codecHexOut theirs
        | none => "differ-no-tree"
      | .error _ => "err"
    | none => "bad-op"
  | _ => "bad-op"

def codecOps : List (String × (List String → String)) :=
  [("codec", codecOp), ("codecstrict", codecStrictOp), ("policyx", policyXOp)]

end Sia.Driver
