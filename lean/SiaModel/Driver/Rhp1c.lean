import SiaModel.Rhp.V1Contracts
/-!
  Line-protocol ops for the v1-era contract constructors (C17): the hand model
  `Sia.Rhp.V1.*` and the generated `Gen.Rhp2.CalculateHostPayouts`,
  `ContractFormationCollateral`, `ContractRenewalCollateral`.  All tokens decimal.

    contract  = fs ws we payout rev nv v1..vnv nm m1..mnm
    pt        = contractPrice collateralCost writeStoreCost maxCollateral renewContractCost windowSize hostBlockHeight
-/
namespace Sia.Driver.Rhp1c
open Sia.Rhp.V1

def cur (n : Nat) : Gen.Types.Currency := { Lo := n % w64, Hi := n / w64 }

def showList (l : List Nat) : String := toString l.length ++ String.join (l.map fun x => " " ++ toString x)

def showContract (c : Contract) : String :=
  s!"{c.filesize} {c.windowStart} {c.windowEnd} {c.payout} {c.revNum} {showList c.valid} {showList c.missed}"

def allCur (l : List Nat) : Bool := l.all (· < lim)
def allU64 (l : List Nat) : Bool := l.all (· < w64)

def pt7 (l : List Nat) : Option PriceTable :=
  match l with
  | [cp, cc, ws, mc, rc, w, h] =>
    if allCur [cp, cc, ws, mc, rc] && allU64 [w, h] then
      some { contractPrice := cp, collateralCost := cc, writeStoreCost := ws, maxCollateral := mc, renewContractCost := rc,
             windowSize := w, hostBlockHeight := h }
    else none
  | _ => none

def hs (cp sp coll maxc ws : Nat) : Gen.Rhp2.HostSettings :=
  { ContractPrice := cur cp, StoragePrice := cur sp, Collateral := cur coll, MaxCollateral := cur maxc, WindowSize := ws }

def run (op : String) (l : List Nat) : Option String :=
  match op, l with
  | "form", [rp, hc, cp, e, ws] =>
    if allCur [rp, hc, cp] && allU64 [e, ws] then
      match prepareFormation rp hc cp e ws with
      | some c => some ("ok " ++ showContract c)
      | none => some "panic"
    else none
  | "hostpay2", [fs, wend, nc, cp, sp, coll, e, ws] =>
    if allCur [nc, cp, sp, coll] && allU64 [fs, wend, e, ws] then
      match Gen.Rhp2.CalculateHostPayouts { Filesize := fs, WindowEnd := wend } (cur nc) (hs cp sp coll 0 ws) e with
      | .ok (hv, hm, vm, bp) => some s!"ok {cv hv} {cv hm} {cv vm} {cv bp}"
      | .error _ => some "panic"
    else none
  | "renew2", [fs, wend, rp, nc, cp, sp, coll, e, ws] =>
    if allCur [rp, nc, cp, sp, coll] && allU64 [fs, wend, e, ws] then
      match prepareRenewalV2 { Filesize := fs, WindowEnd := wend } rp (cur nc) (hs cp sp coll 0 ws) e with
      | some (c, bp) => some s!"ok {showContract c} {bp}"
      | none => some "panic"
    else none
  | "formcoll2", [period, storage, coll, maxc] =>
    if allCur [coll, maxc] && allU64 [period, storage] then
      match Gen.Rhp2.ContractFormationCollateral period storage (hs 0 0 coll maxc 0) with
      | .ok c => some s!"ok {cv c}"
      | .error _ => some "panic"
    else none
  | "renewcoll2", [fs, wstart, wend, ens, coll, maxc, bh, e] =>
    if allCur [coll, maxc] && allU64 [fs, wstart, wend, ens, bh, e] then
      match Gen.Rhp2.ContractRenewalCollateral { Filesize := fs, WindowStart := wstart, WindowEnd := wend } ens (hs 0 0 coll maxc 0) bh e with
      | .ok c => some s!"ok {cv c}"
      | .error _ => some "panic"
    else none
  | "costs3", fs :: wend :: rest =>
    match rest with
    | [a, b, c, d, e', f, g, ens, e] =>
      match pt7 [a, b, c, d, e', f, g] with
      | some pt =>
        if allU64 [fs, wend, ens, e] then
          match renewalCostsV3 fs wend pt ens e with
          | some (bp, bc, nc) => some s!"ok {bp} {bc} {nc}"
          | none => some "panic"
        else none
      | none => none
    | _ => none
  | "hostpay3", fs :: wstart :: wend :: minNC :: rest =>
    match rest with
    | [a, b, c, d, e', f, g, ens, e] =>
      match pt7 [a, b, c, d, e', f, g] with
      | some pt =>
        if allU64 [fs, wstart, wend, ens, e] && minNC < lim then
          match hostPayoutsV3 fs wstart wend minNC pt ens e with
          | some (some (hv, hm, vm, bp)) => some s!"ok {hv} {hm} {vm} {bp}"
          | some none => some "err"
          | none => some "panic"
        else none
      | none => none
    | _ => none
  | "renew3", fs :: wstart :: wend :: rp :: minNC :: rest =>
    match rest with
    | [a, b, c, d, e', f, g, ens, e] =>
      match pt7 [a, b, c, d, e', f, g] with
      | some pt =>
        if allU64 [fs, wstart, wend, ens, e] && allCur [rp, minNC] then
          match prepareRenewalV3 fs wstart wend rp minNC pt ens e with
          | some (some (c, bp)) => some s!"ok {showContract c} {bp}"
          | some none => some "err"
          | none => some "panic"
        else none
      | none => none
    | _ => none
  | "paybc", rev :: amount :: nv :: rest =>
    let valid := rest.take nv
    match rest.drop nv with
    | nm :: rest2 =>
      let missed := rest2
      if valid.length = nv && missed.length = nm && rev < w64 && amount < lim && allCur valid && allCur missed then
        match payByContract valid missed rev amount with
        | some (some (v, m, r)) => some s!"ok {r} {showList v} {showList m}"
        | some none => some "false"
        | none => some "panic"
      else none
    | [] => none
  | _, _ => none

def op (args : List String) : String :=
  match args with
  | name :: rest =>
    match rest.mapM String.toNat? with
    | some l => (run name l).getD "bad-op"
    | none => "bad-op"
  | [] => "bad-op"

end Sia.Driver.Rhp1c

namespace Sia.Driver
def rhp1cOps : List (String × (List String → String)) := [("rhp1c", Rhp1c.op)]
end Sia.Driver
