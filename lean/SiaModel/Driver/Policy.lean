import SiaModel.Policy.Verify
import SiaModel.Policy.Address
import SiaModel.Policy.Codec
import SiaModel.Policy.Txn
import SiaModel.Prim.Sha256
/-!
  Line-protocol ops for C14 (spend policies).

  Policy tree text form (one token, self-delimiting, prefix order):
    a<dec>.                 above(height)
    f<dec|-dec>.            after(unix seconds)
    k<hex>.  h<hex>.  o<hex>.   public key / hash / opaque address
    t<n>.<count>.<child>…   threshold(n, children)
    u<timelock>.<sigsRequired>.<nkeys>.(<alghex>.<keyhex>.)…   unlock conditions

  Ops:
    policy-verify <height> <medianUnix> <sighashHex> <policy> <sigs> <pres> <keys> <valid>
        sigs, pres, keys : "-" or comma-separated hex
        valid            : "-" or comma-separated "<keyIndex>:<sigIndex>" — the pairs for which the
                           real `VerifyHash(key, sigHash, sig)` returned true (the signature oracle)
        → "accept" | "reject:<class>"
    policy-address <policy>         → address hex
    policy-encode <policy>          → hex of SpendPolicy.EncodeTo
    policy-decode <hex>             → "ok <policy>" | "reject"
    policy-std <pkhex> <timelockLeafHex> <sigsreqLeafHex>
        → "<StandardAddress hex> <StandardUnlockHash hex>"
    policy-txn <height> <medianUnix> <sighashHex> (<policy> <sigs> <pres> <keys> <valid> <parentAddressHex>)*
        the policy part of validateV2Siacoins/validateV2Siafunds over the inputs in order
        → "accept" | "reject:<input index>:wrong-policy" | "reject:<input index>:<class>"
    policy-unlockhash <uc policy> <timelockLeafHex> <sigsreqLeafHex>
        → hex of UnlockConditions.UnlockHash() (fast path included)
-/
namespace Sia.Driver
open Sia Sia.Policy

private def takeUntilDot : List Char → List Char → Option (List Char × List Char)
  | [], _ => none
  | '.' :: cs, acc => some (acc.reverse, cs)
  | c :: cs, acc => takeUntilDot cs (c :: acc)

private def pNat (cs : List Char) : Option (Nat × List Char) := do
  let (d, rest) ← takeUntilDot cs []
  let n ← (String.ofList d).toNat?
  pure (n, rest)

private def pInt (cs : List Char) : Option (Int × List Char) := do
  let (d, rest) ← takeUntilDot cs []
  let n ← (String.ofList d).toInt?
  pure (n, rest)

private def pHex (cs : List Char) : Option (ByteArray × List Char) := do
  let (d, rest) ← takeUntilDot cs []
  let b ← hexDecodeChars d ByteArray.empty
  pure (b, rest)

private def pKeys : Nat → List Char → Option (List UnlockKey × List Char)
  | 0, cs => some ([], cs)
  | k + 1, cs => do
    let (alg, cs) ← pHex cs
    let (key, cs) ← pHex cs
    let (ks, cs) ← pKeys k cs
    pure (⟨alg, key⟩ :: ks, cs)

mutual
private def parseP : Nat → List Char → Option (Policy × List Char)
  | 0, _ => none
  | _ + 1, [] => none
  | fuel + 1, c :: cs =>
    if c = 'a' then do let (n, cs) ← pNat cs; pure (.above n, cs)
    else if c = 'f' then do let (n, cs) ← pInt cs; pure (.after n, cs)
    else if c = 'k' then do let (b, cs) ← pHex cs; pure (.pk b, cs)
    else if c = 'h' then do let (b, cs) ← pHex cs; pure (.hash b, cs)
    else if c = 'o' then do let (b, cs) ← pHex cs; pure (.opaque b, cs)
    else if c = 't' then do
      let (n, cs) ← pNat cs
      let (cnt, cs) ← pNat cs
      let (subs, cs) ← parseN fuel cnt cs
      pure (.thresh n subs, cs)
    else if c = 'u' then do
      let (tl, cs) ← pNat cs
      let (req, cs) ← pNat cs
      let (nk, cs) ← pNat cs
      let (ks, cs) ← pKeys nk cs
      pure (.uc ⟨tl, ks, req⟩, cs)
    else none
private def parseN : Nat → Nat → List Char → Option (List Policy × List Char)
  | 0, _, _ => none
  | _ + 1, 0, cs => some ([], cs)
  | fuel + 1, k + 1, cs => do
    let (p, cs) ← parseP fuel cs
    let (ps, cs) ← parseN fuel k cs
    pure (p :: ps, cs)
end

def parsePolicy (s : String) : Option Policy :=
  let cs := s.toList
  match parseP (2 * cs.length + 2) cs with
  | some (p, []) => some p
  | _ => none

mutual
def showPolicy : Policy → String
  | .above h => s!"a{h}."
  | .after t => s!"f{t}."
  | .pk k => s!"k{hexEncode k}."
  | .hash h => s!"h{hexEncode h}."
  | .opaque a => s!"o{hexEncode a}."
  | .thresh n subs => s!"t{n}.{subs.length}." ++ showPolicies subs
  | .uc c => s!"u{c.timelock}.{c.signaturesRequired}.{c.publicKeys.length}."
      ++ String.join (c.publicKeys.map fun k => s!"{hexEncode k.algorithm}.{hexEncode k.key}.")
def showPolicies : List Policy → String
  | [] => ""
  | p :: ps => showPolicy p ++ showPolicies ps
end

private def hexList (s : String) : Option (List ByteArray) :=
  if s = "-" then some [] else (s.splitOn ",").mapM hexDecode

private def pairList (s : String) : Option (List (Nat × Nat)) :=
  if s = "-" then some [] else
    (s.splitOn ",").mapM fun t =>
      match t.splitOn ":" with
      | [a, b] => do pure ((← a.toNat?), (← b.toNat?))
      | _ => none

private def getAt (l : List ByteArray) (i : Nat) : ByteArray := (l[i]?).getD ByteArray.empty

private def scenario (args : List String) : Option (Env × Policy × List ByteArray × List ByteArray) :=
  match args with
  | [h, m, sh, p, sigs, pres, keys, valid] => do
    let h ← h.toNat?
    let m ← m.toInt?
    let sh ← hexDecode sh
    let p ← parsePolicy p
    let sigs ← hexList sigs
    let pres ← hexList pres
    let keys ← hexList keys
    let valid ← pairList valid
    let table : List (ByteArray × ByteArray) := valid.map fun (ki, si) => (getAt keys ki, getAt sigs si)
    let vs : ByteArray → ByteArray → ByteArray → Bool := fun k hh s =>
      hh == sh && table.any fun (k', s') => k' == k && s' == s
    pure ({ height := h, median := m, sigHash := sh, verifySig := vs, sha := sha256 }, p, sigs, pres)
  | _ => none

def policyVerifyOp (args : List String) : String :=
  match scenario args with
  | some (E, p, sigs, pres) =>
    match verify E p sigs pres with
    | .ok _ => "accept"
    | .error e => "reject:" ++ e.name
  | none => "bad-op"

def policyAddressOp (args : List String) : String :=
  match args with
  | [p] => match parsePolicy p with
    | some p => hexEncode (address p)
    | none => "bad-op"
  | _ => "bad-op"

def policyEncodeOp (args : List String) : String :=
  match args with
  | [p] => match parsePolicy p with
    | some p => hexEncode (encode p)
    | none => "bad-op"
  | _ => "bad-op"

def policyDecodeOp (args : List String) : String :=
  match args with
  | [h] => match hexDecode h with
    | some b => match decode b with
      | some p => "ok " ++ showPolicy p
      | none => "reject"
    | none => "bad-op"
  | _ => "bad-op"

def policyStdOp (args : List String) : String :=
  match args with
  | [pk, tl, sr] => match hexDecode pk, hexDecode tl, hexDecode sr with
    | some pk, some tl, some sr =>
      hexEncode (standardAddress blake2b256 pk) ++ " " ++ hexEncode (standardUnlockHash blake2b256 tl sr pk)
    | _, _, _ => "bad-op"
  | _ => "bad-op"

private def txnInputs (sh : ByteArray) :
    List String → Option (List TxInput × List (ByteArray × ByteArray))
  | [] => some ([], [])
  | p :: sigs :: pres :: keys :: valid :: addr :: rest => do
    let p ← parsePolicy p
    let sigs ← hexList sigs
    let pres ← hexList pres
    let keys ← hexList keys
    let valid ← pairList valid
    let addr ← hexDecode addr
    let table : List (ByteArray × ByteArray) := valid.map fun (ki, si) => (getAt keys ki, getAt sigs si)
    let (ins, tbl) ← txnInputs sh rest
    pure (⟨p, sigs, pres, addr⟩ :: ins, table ++ tbl)
  | _ => none

def policyTxnOp (args : List String) : String :=
  match args with
  | h :: m :: sh :: rest =>
    match h.toNat?, m.toInt?, hexDecode sh with
    | some h, some m, some sh =>
      match txnInputs sh rest with
      | some (ins, table) =>
        let vs : ByteArray → ByteArray → ByteArray → Bool := fun k hh s =>
          hh == sh && table.any fun (k', s') => k' == k && s' == s
        let E : Env := { height := h, median := m, sigHash := sh, verifySig := vs, sha := sha256 }
        match validateInputs blake2b256 E ins with
        | .ok _ => "accept"
        | .error (.wrongPolicy i) => s!"reject:{i}:wrong-policy"
        | .error (.unsatisfied i e) => s!"reject:{i}:" ++ e.name
      | none => "bad-op"
    | _, _, _ => "bad-op"
  | _ => "bad-op"

def policyUnlockHashOp (args : List String) : String :=
  match args with
  | [p, tl, sr] => match parsePolicy p, hexDecode tl, hexDecode sr with
    | some (.uc c), some tl, some sr => hexEncode (unlockHash blake2b256 tl sr c)
    | _, _, _ => "bad-op"
  | _ => "bad-op"

end Sia.Driver

namespace Sia.Driver
def policyOps : List (String × (List String → String)) :=
  [("policy-verify", policyVerifyOp), ("policy-address", policyAddressOp),
   ("policy-encode", policyEncodeOp), ("policy-decode", policyDecodeOp),
   ("policy-std", policyStdOp), ("policy-unlockhash", policyUnlockHashOp),
   ("policy-txn", policyTxnOp)]
end Sia.Driver
