import SiaModel.Prim.Bytes
import SiaModel.Codec.Schema
import SiaModel.Codec.Spec
import SiaModel.Codec.Irregular
/-!
Line-protocol op of the COMMITTED wire layout (C11, wire-format clause):

* `specfields <TypeName> <hex>` — decode `<hex>` with the layout of `Codec/Spec.lean` (the
  hand-written, committed byte layout — NOT the schema regenerated from the method bodies) and
  answer, for every top-level field of the record, the bytes that field occupies:
  `ok <rest> <label>=<hex> <label>=<hex> …`; `err` when the layout does not accept the bytes.

The harness uses it to decide, on the real encoder's output, WHICH field of a value was written
WHERE: a value whose only non-zero field is `F` must show its content under label `F` and
nowhere else. A symmetric permutation of same-typed fields in an encoder/decoder pair keeps every
round trip intact and is invisible to byte-to-byte comparison; it is not invisible to this.
-/
namespace Sia.Driver
open Sia.Codec

def specTable : List (String × Sch) := [
  ("Types_ChainIndex", Spec.chainIndex), ("Types_UnlockKey", Spec.unlockKey),
  ("Types_UnlockConditions", Spec.unlockConditions), ("Types_V1SiacoinOutput", Spec.v1SiacoinOutput),
  ("Types_V1SiafundOutput", Spec.v1SiafundOutput), ("Types_SiacoinInput", Spec.siacoinInput),
  ("Types_SiafundInput", Spec.siafundInput), ("Types_FileContract", Spec.fileContract),
  ("Types_FileContractRevision", Spec.fileContractRevision), ("Types_StorageProof", Spec.storageProof),
  ("Types_FoundationAddressUpdate", Spec.foundationAddressUpdate), ("Types_CoveredFields", Spec.coveredFields),
  ("Types_TransactionSignature", Spec.transactionSignature), ("Types_Transaction", Spec.transaction),
  ("Types_BlockHeader", Spec.blockHeader), ("Types_V1Block", Spec.v1Block),
  ("Types_V2SiacoinOutput", Spec.v2SiacoinOutput), ("Types_V2SiafundOutput", Spec.v2SiafundOutput),
  ("Types_StateElement", Spec.stateElement), ("Types_ChainIndexElement", Spec.chainIndexElement),
  ("Types_SiacoinElement", Spec.siacoinElement), ("Types_SiafundElement", Spec.siafundElement),
  ("Types_FileContractElement", Spec.fileContractElement), ("Types_V2FileContract", Spec.v2FileContract),
  ("Types_V2FileContractElement", Spec.v2FileContractElement), ("Types_SatisfiedPolicy", Spec.satisfiedPolicy),
  ("Types_V2SiacoinInput", Spec.v2SiacoinInput), ("Types_V2SiafundInput", Spec.v2SiafundInput),
  ("Types_V2FileContractRevision", Spec.v2FileContractRevision), ("Types_V2FileContractRenewal", Spec.v2FileContractRenewal),
  ("Types_V2StorageProof", Spec.v2StorageProof), ("Types_Attestation", Spec.attestation),
  ("Consensus_V1StorageProofSupplement", Spec.v1StorageProofSupplement),
  ("Consensus_V1TransactionSupplement", Spec.v1TransactionSupplement),
  ("Consensus_V1BlockSupplement", Spec.v1BlockSupplement),
  ("Consensus_State", Spec.state)]

/-- the bytes each top-level field of a record occupies -/
def specFieldBytes (E : Env) : Sch → Val → List (String × Codec.Bytes)
  | .cons l s r, .pair a b => (l, enc E s a) :: specFieldBytes E r b
  | _, _ => []

private def sfHex (b : Codec.Bytes) : String :=
  if b.isEmpty then "-" else Sia.hexEncode ⟨b.toArray⟩

def specFieldsOp (args : List String) : String :=
  match args with
  | [name, hex] =>
    let bs? : Option Codec.Bytes := if hex == "-" then some [] else (Sia.hexDecode hex).map (·.toList)
    match specTable.find? (fun t => t.1 == name), bs? with
    | some (_, s), some bs =>
      match dec Irregular.env 0 s bs with
      | .ok (v, rest) =>
        "ok " ++ toString rest.length ++
          String.join ((specFieldBytes Irregular.env s v).map (fun (l, b) => " " ++ l ++ "=" ++ sfHex b))
      | .error _ => "err"
    | _, _ => "bad-op"
  | _ => "bad-op"

def specFieldsOps : List (String × (List String → String)) := [("specfields", specFieldsOp)]

end Sia.Driver
