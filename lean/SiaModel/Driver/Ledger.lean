import Lean.Data.Json
import SiaModel.Ledger.Model
/-!
  Line-protocol op for the ledger model:
    ledger-block <json {ledger, block, parentBlockId}>
  → `reject` | `panic-validate` | `ok <canonical dump of the update>` | `ok-validate panic-apply`
  The ledger sent is the restriction of the real state to the elements the block mentions.
-/
open Lean

namespace Sia.Ledger
deriving instance FromJson for Params, ScOut, ScElem, SfElem, Fc1, Fc1Elem, Fc2, Fc2Elem, Ledger
deriving instance FromJson for ScIn1, SfIn1, Rev1, Proof1, Supp1, Txn1, ScIn2, SfIn2, Rev2, Renewal, Res2, Resolution2, Txn2, Block
end Sia.Ledger

namespace Sia.Driver
open Sia.Ledger

private def b2s (b : Bool) : String := if b then "1" else "0"

private def dumpOuts (l : List ScOut) : String := ",".intercalate (l.map fun o => s!"{o.value}:{o.addr}")

private def dumpFc1 (f : Fc1) : String :=
  s!"{f.filesize}/{f.root}/{f.windowStart}/{f.windowEnd}/{f.payout}/[{dumpOuts f.valid}]/[{dumpOuts f.missed}]/{f.unlockHash}/{f.revNum}"

private def dumpFc2 (f : Fc2) : String :=
  s!"{f.capacity}/{f.filesize}/{f.root}/{f.proofHeight}/{f.expHeight}/{f.renter.value}:{f.renter.addr}/{f.host.value}:{f.host.addr}/{f.missedHost}/{f.totalCollateral}/{f.renterKey}/{f.hostKey}/{f.revNum}"

private def dumpRes : Option ResKind → String
  | none => "-"
  | some .renewal => "renewal"
  | some .proof => "proof"
  | some .expiration => "expiration"

/-- canonical rendering of a mid-state's diffs, in diff order -/
def dumpMid (ms : Mid) : String :=
  let sc := ms.sces.map fun d => s!"sc {d.e.id} {d.e.value} {d.e.addr} {d.e.maturity} {b2s d.created}{b2s d.spent}"
  let sf := ms.sfes.map fun d => s!"sf {d.e.id} {d.e.value} {d.e.addr} {d.e.claimStart} {b2s d.created}{b2s d.spent}"
  let f1 := ms.fces.map fun d => s!"fc {d.e.id} {dumpFc1 d.e.fc} {b2s d.created}{b2s d.resolved}{b2s d.valid} {match d.revision with | some r => dumpFc1 r | none => "-"}"
  let f2 := ms.v2fces.map fun d => s!"v2fc {d.e.id} {dumpFc2 d.e.fc} {b2s d.created} {dumpRes d.resolution} {match d.revision with | some r => dumpFc2 r | none => "-"}"
  ";".intercalate (sc ++ sf ++ f1 ++ f2) ++ s!";pool {ms.pool};foundation {ms.fPrimary} {ms.fFailsafe};atts {ms.natts}"

structure LedgerReq where
  ledger : Ledger
  block : Block
  parentBlockId : Nat
deriving FromJson

def ledgerBlock (args : List String) : String :=
  match args with
  | [js] =>
    match Json.parse js >>= fromJson? (α := LedgerReq) with
    | .error e => "bad-op " ++ e
    | .ok req =>
      match validateBlock req.ledger req.block req.parentBlockId with
      | .error (.reject _) => "reject"
      | .error (.panic _) => "panic-validate"
      | .ok _ =>
        match applyBlock req.ledger req.block with
        | .error _ => "ok-validate panic-apply"
        | .ok (_, ms) => "ok " ++ dumpMid ms
  | _ => "bad-op"

/-- apply without validating (what ApplyBlock does with a block someone else validated) -/
def ledgerApply (args : List String) : String :=
  match args with
  | [js] =>
    match Json.parse js >>= fromJson? (α := LedgerReq) with
    | .error e => "bad-op " ++ e
    | .ok req =>
      match applyBlock req.ledger req.block with
      | .error _ => "panic-apply"
      | .ok (_, ms) => "ok " ++ dumpMid ms
  | _ => "bad-op"

def ledgerOps : List (String × (List String → String)) := [("ledger-block", ledgerBlock), ("ledger-apply", ledgerApply)]

end Sia.Driver
