import SiaModel.Gen.CodeConsensus
/-!
Line-protocol ops that RUN the definitions regenerated from `consensus/validation.go` (loops, nil-able pointers,
regions) on inputs abstracted from real blocks and transactions, so that the translator's newer constructs are
themselves under the correspondence check (the harness compares with what the real function answers).

  genrun payouts <initialCoinbase> <minimumCoinbase> <height> <payouts> <v1fees> <v2fees>
      payouts : `-` or comma-separated values
      v1fees  : `-` or `;`-separated transactions, each `-` or comma-separated fee values
      v2fees  : `nil` (no v2 part), `-` (v2 part without transactions) or comma-separated fees (one per v2 transaction)
    → `ok` | `err <message>` | `panic`          (Gen.Consensus.validateMinerPayouts)

  genrun sfbalance <inputs> <outputs>            (siafund values; `-` = none)
    → `ok` | `err <message>` | `panic`          (Gen.Consensus.validateV2Siafunds_balance)

  genrun coveredfields <whole:0|1> <10 index lists, `-` or comma-separated> <10 list lengths, comma-separated>
    → `true` | `false` | `panic`                (Gen.Consensus.validCoveredFields_body)
-/
namespace Sia.Driver

private def gcur (n : Nat) : Gen.Types.Currency :=
  { Lo := n % 18446744073709551616, Hi := n / 18446744073709551616 % 18446744073709551616 }

private def natList (s : String) : Option (List Nat) :=
  if s == "-" then some [] else (s.splitOn ",").mapM String.toNat?

private def showVerdict (r : Except String (Option String)) : String :=
  match r with
  | .ok none => "ok"
  | .ok (some m) => "err " ++ m
  | .error _ => "panic"

def genrunOp (args : List String) : String :=
  match args with
  | ["payouts", ini, mn, h, pays, v1, v2] =>
    match ini.toNat?, mn.toNat?, h.toNat?, natList pays with
    | some ini, some mn, some h, some pays =>
      let txns? : Option (List Gen.Types.Transaction) :=
        if v1 == "-" then some []
        else (v1.splitOn ";").mapM (fun t => (natList t).map (fun fees => ({ MinerFees := fees.map gcur } : Gen.Types.Transaction)))
      let v2? : Option (Option Gen.Types.V2BlockData) :=
        if v2 == "nil" then some none
        else (natList v2).map (fun fees => some { Transactions := fees.map (fun f => ({ MinerFee := gcur f } : Gen.Types.V2Transaction)) })
      match txns?, v2? with
      | some txns, some v2d =>
        let s : Gen.Consensus.State := { Network := { InitialCoinbase := gcur ini, MinimumCoinbase := gcur mn }, Index := { Height := h } }
        let b : Gen.Types.Block := { MinerPayouts := pays.map (fun p => { Value := gcur p }), Transactions := txns, V2 := v2d }
        showVerdict (Gen.Consensus.validateMinerPayouts s b)
      | _, _ => "bad-op"
    | _, _, _, _ => "bad-op"
  | ["sfbalance", ins, outs] =>
    match natList ins, natList outs with
    | some ins, some outs =>
      let txn : Gen.Types.V2Transaction :=
        { SiafundInputs := ins.map (fun v => { Parent := { SiafundOutput := { Value := v } } }),
          SiafundOutputs := outs.map (fun v => { Value := v }) }
      showVerdict (Gen.Consensus.validateV2Siafunds_balance txn)
    | _, _ => "bad-op"
  | "coveredfields" :: whole :: rest =>
    match rest.reverse with
    | lens :: listsRev =>
      match natList lens, listsRev.reverse.mapM natList with
      | some [l0, l1, l2, l3, l4, l5, l6, l7, l8, l9], some [i0, i1, i2, i3, i4, i5, i6, i7, i8, i9] =>
        let cf : Gen.Types.CoveredFields :=
          { WholeTransaction := whole == "1", SiacoinInputs := i0, SiacoinOutputs := i1, FileContracts := i2,
            FileContractRevisions := i3, StorageProofs := i4, SiafundInputs := i5, SiafundOutputs := i6,
            MinerFees := i7, ArbitraryData := i8, Signatures := i9 }
        let rep {α : Type} (n : Nat) (x : α) : List α := List.replicate n x
        let txn : Gen.Types.Transaction :=
          { SiacoinInputs := rep l0 {}, SiacoinOutputs := rep l1 {}, FileContracts := rep l2 {}, FileContractRevisions := rep l3 {},
            StorageProofs := rep l4 {}, SiafundInputs := rep l5 {}, SiafundOutputs := rep l6 {}, MinerFees := rep l7 {},
            ArbitraryData := rep l8 ByteArray.empty, Signatures := rep l9 {} }
        match Gen.Consensus.validCoveredFields_body cf txn with
        | .ok true => "true"
        | .ok false => "false"
        | .error _ => "panic"
      | _, _ => "bad-op"
    | [] => "bad-op"
  | _ => "bad-op"

def genRunOps : List (String × (List String → String)) := [("genrun", genrunOp)]

end Sia.Driver
