import SiaModel.Gen.CodeRhp4
import SiaModel.Ledger.ContractRules
import SiaModel.Rhp.V1Payout
/-!
  Line-protocol ops for the generated rhp/v4 contract constructors and cost
  functions (C17; doubles as translator self-test) and for the hand model of the
  consensus contract rules (`Sia.Ledger.validate*`).

  All tokens are decimal numbers.
    currency  = one token  (< 2^128)
    contract  = 11 tokens  cap fsz ph eh renter host missed total rev rk hk
                (rk/hk: one byte each, the public keys are 32 copies of that byte)
    prices    = 7 tokens   contractPrice collateral storage ingress egress freeSector tipHeight
    usage     = 6 tokens   rpc storage egress ingress funding risked
    renewal   = 4 tokens + contract : finalRenter finalHost renterRollover hostRollover newContract
-/
namespace Sia.Driver.Rhp4c
open Gen.Types Gen.Rhp4

def w64 : Nat := 18446744073709551616

def cur (n : Nat) : Currency := { Lo := n % w64, Hi := n / w64 }
def cval (c : Currency) : Nat := c.Hi * w64 + c.Lo
def key (b : Nat) : ByteArray := ⟨Array.replicate 32 (UInt8.ofNat b)⟩

abbrev P (α : Type) := List Nat → Option (α × List Nat)

def pNat : P Nat
  | n :: r => if n < w64 then some (n, r) else none
  | [] => none

def pCur : P Currency
  | n :: r => if n < w64 * w64 then some (cur n, r) else none
  | [] => none

def pFC : P V2FileContract := fun l => do
  let (cap, l) ← pNat l
  let (fsz, l) ← pNat l
  let (ph, l) ← pNat l
  let (eh, l) ← pNat l
  let (ro, l) ← pCur l
  let (ho, l) ← pCur l
  let (m, l) ← pCur l
  let (tc, l) ← pCur l
  let (rev, l) ← pNat l
  let (rk, l) ← pNat l
  let (hk, l) ← pNat l
  if rk ≥ 256 || hk ≥ 256 then none else
  some ({ Capacity := cap, Filesize := fsz, ProofHeight := ph, ExpirationHeight := eh,
          RenterOutput := { Value := ro }, HostOutput := { Value := ho },
          MissedHostValue := m, TotalCollateral := tc, RevisionNumber := rev,
          RenterPublicKey := key rk, HostPublicKey := key hk }, l)

def pPrices : P HostPrices := fun l => do
  let (cp, l) ← pCur l
  let (co, l) ← pCur l
  let (sp, l) ← pCur l
  let (ip, l) ← pCur l
  let (ep, l) ← pCur l
  let (fp, l) ← pCur l
  let (tip, l) ← pNat l
  some ({ ContractPrice := cp, Collateral := co, StoragePrice := sp, IngressPrice := ip,
          EgressPrice := ep, FreeSectorPrice := fp, TipHeight := tip }, l)

def pUsage : P Usage := fun l => do
  let (a, l) ← pCur l
  let (b, l) ← pCur l
  let (c, l) ← pCur l
  let (d, l) ← pCur l
  let (e, l) ← pCur l
  let (f, l) ← pCur l
  some ({ RPC := a, Storage := b, Egress := c, Ingress := d, AccountFunding := e, RiskedCollateral := f }, l)

def pRenewal : P V2FileContractRenewal := fun l => do
  let (fr, l) ← pCur l
  let (fh, l) ← pCur l
  let (rr, l) ← pCur l
  let (hr, l) ← pCur l
  let (nc, l) ← pFC l
  some ({ FinalRenterOutput := { Value := fr }, FinalHostOutput := { Value := fh },
          RenterRollover := rr, HostRollover := hr, NewContract := nc }, l)

def keyTag (k : ByteArray) : Nat := if k.size = 0 then 0 else (k.get! 0).toNat

def showFC (fc : V2FileContract) : String :=
  s!"{fc.Capacity} {fc.Filesize} {fc.ProofHeight} {fc.ExpirationHeight} {cval fc.RenterOutput.Value} {cval fc.HostOutput.Value} {cval fc.MissedHostValue} {cval fc.TotalCollateral} {fc.RevisionNumber} {keyTag fc.RenterPublicKey} {keyTag fc.HostPublicKey}"

def showUsage (u : Usage) : String :=
  s!"{cval u.RPC} {cval u.Storage} {cval u.Egress} {cval u.Ingress} {cval u.AccountFunding} {cval u.RiskedCollateral}"

def showRenewal (r : V2FileContractRenewal) : String :=
  s!"{cval r.FinalRenterOutput.Value} {cval r.FinalHostOutput.Value} {cval r.RenterRollover} {cval r.HostRollover} {showFC r.NewContract}"

def showErr (e : Option String) : String := match e with | none => "none" | some _ => "err"

def showRevise (r : Except String (V2FileContract × Usage × Option String)) : String :=
  match r with
  | .ok (fc, u, e) => s!"ok {showFC fc} {showUsage u} {showErr e}"
  | .error _ => "panic"

def showRenew (r : Except String (V2FileContractRenewal × Usage)) : String :=
  match r with
  | .ok (rn, u) => s!"ok {showRenewal rn} {showUsage u}"
  | .error _ => "panic"

def showPair (r : Except String (Currency × Currency)) : String :=
  match r with
  | .ok (a, b) => s!"ok {cval a} {cval b}"
  | .error _ => "panic"

def showUsageE (r : Except String Usage) : String :=
  match r with
  | .ok u => "ok " ++ showUsage u
  | .error _ => "panic"

def showCurE (r : Except String Currency) : String :=
  match r with
  | .ok c => s!"ok {cval c}"
  | .error _ => "panic"

def showVerdict (r : Except String (Option String)) : String :=
  match r with
  | .ok none => "accept"
  | .ok (some m) => "reject " ++ m.replace " " "-"
  | .error _ => "panic"

def run (op : String) (l : List Nat) : Option String :=
  match op with
  | "pay" => do
    let (fc, l) ← pFC l
    let (u, l) ← pUsage l
    if l ≠ [] then none else
    match PayWithContract fc u with
    | .ok (fc', e) => some s!"ok {showFC fc'} {showErr e}"
    | .error _ => some "panic"
  | "append" => do
    let (fc, l) ← pFC l
    let (p, l) ← pPrices l
    let (n, l) ← pNat l
    if l ≠ [] then none else
    some (showRevise (ReviseForAppendSectors fc p (Go.zeros 32) n))
  | "free" => do
    let (fc, l) ← pFC l
    let (p, l) ← pPrices l
    let (n, l) ← pNat l
    if l ≠ [] then none else
    some (showRevise (ReviseForFreeSectors fc p (Go.zeros 32) (Int.ofNat n)))
  | "roots" => do
    let (fc, l) ← pFC l
    let (p, l) ← pPrices l
    let (n, l) ← pNat l
    if l ≠ [] then none else
    some (showRevise (ReviseForSectorRoots fc p n))
  | "fund" => do
    let (fc, l) ← pFC l
    let (a, l) ← pCur l
    if l ≠ [] then none else
    some (showRevise (ReviseForFundAccounts fc a))
  | "replenish" => do
    let (fc, l) ← pFC l
    let (a, l) ← pCur l
    if l ≠ [] then none else
    some (showRevise (ReviseForReplenish fc a))
  | "new" => do
    let (p, l) ← pPrices l
    let (a, l) ← pCur l
    let (c, l) ← pCur l
    let (ph, l) ← pNat l
    let (rk, l) ← pNat l
    let (hk, l) ← pNat l
    if l ≠ [] || rk ≥ 256 || hk ≥ 256 then none else
    match NewContract p { Allowance := a, Collateral := c, ProofHeight := ph, RenterPublicKey := key rk } (key hk) (Go.zeros 32) with
    | .ok (fc, u) => some s!"ok {showFC fc} {showUsage u}"
    | .error _ => some "panic"
  | "ccost" => do
    let (fc, l) ← pFC l
    let (fee, l) ← pCur l
    if l ≠ [] then none else
    some (showPair (ContractCost {} fc fee))
  | "renew" => do
    let (fc, l) ← pFC l
    let (p, l) ← pPrices l
    let (a, l) ← pCur l
    let (c, l) ← pCur l
    let (ph, l) ← pNat l
    if l ≠ [] then none else
    some (showRenew (RenewContract fc p (Go.zeros 32) { Allowance := a, Collateral := c, ProofHeight := ph }))
  | "refreshp" => do
    let (fc, l) ← pFC l
    let (p, l) ← pPrices l
    let (a, l) ← pCur l
    let (c, l) ← pCur l
    if l ≠ [] then none else
    some (showRenew (RefreshContractPartialRollover fc p (Go.zeros 32) { Allowance := a, Collateral := c }))
  | "refreshf" => do
    let (fc, l) ← pFC l
    let (p, l) ← pPrices l
    let (a, l) ← pCur l
    let (c, l) ← pCur l
    if l ≠ [] then none else
    some (showRenew (RefreshContractFullRollover fc p (Go.zeros 32) { Allowance := a, Collateral := c }))
  | "rcost" => do
    let (r, l) ← pRenewal l
    let (fee, l) ← pCur l
    if l ≠ [] then none else
    some (showPair (RenewalCost {} r fee))
  | "fcost" => do
    let (r, l) ← pRenewal l
    let (p, l) ← pPrices l
    let (fee, l) ← pCur l
    if l ≠ [] then none else
    some (showPair (RefreshCost {} p r fee))
  | "tax" => do
    let (fc, l) ← pFC l
    if l ≠ [] then none else
    some (showCurE (Gen.Consensus.State.V2FileContractTax {} fc))
  | "ucost" => do
    -- ucost <kind> prices a b : the per-RPC usage functions
    let (k, l) ← pNat l
    let (p, l) ← pPrices l
    let (a, l) ← pNat l
    let (b, l) ← pNat l
    if l ≠ [] then none else
    match k with
    | 0 => some (showUsageE (p.RPCReadSectorCost a))
    | 1 => some (showUsageE (p.RPCWriteSectorCost a))
    | 2 => some (showUsageE (p.RPCSectorRootsCost a))
    | 3 => some (showUsageE p.RPCVerifySectorCost)
    | 4 => some (showUsageE (p.RPCFreeSectorsCost (Int.ofNat a)))
    | 5 => some (showUsageE (p.RPCAppendSectorsCost a b))
    | _ => none
  | "uadd" => do
    let (a, l) ← pUsage l
    let (b, l) ← pUsage l
    if l ≠ [] then none else
    some (showUsageE (a.Add b))
  | "umul" => do
    let (a, l) ← pUsage l
    let (n, l) ← pNat l
    if l ≠ [] then none else
    some (showUsageE (a.Mul n))
  | "minallow" => do
    let (p, l) ← pPrices l
    let (c, l) ← pCur l
    if l ≠ [] then none else
    some (showCurE (MinRenterAllowance p c))
  | "maxcoll" => do
    let (p, l) ← pPrices l
    let (c, l) ← pCur l
    if l ≠ [] then none else
    some (showCurE (MaxHostCollateral p c))
  | "v1payout" =>
    match l with
    | [t] => match Sia.Rhp.V1.taxAdjustedPayout t with
      | some p => some s!"ok {p}"
      | none => some "panic"
    | _ => none
  | "v1tax" =>
    match l with
    | [p] => some s!"ok {Sia.Rhp.V1.tax p}"
    | _ => none
  | "vcontract" => do
    let (ch, l) ← pNat l
    let (fc, l) ← pFC l
    if l ≠ [] then none else
    some (showVerdict (.ok (Sia.Ledger.validateContract ch fc)))
  | "vrevision" => do
    let (ch, l) ← pNat l
    let (eph, l) ← pNat l
    let (c, l) ← pFC l
    let (r, l) ← pFC l
    if l ≠ [] then none else
    some (showVerdict (Sia.Ledger.validateRevision ch eph c r))
  | "vrenewal" => do
    let (ch, l) ← pNat l
    let (c, l) ← pFC l
    let (r, l) ← pRenewal l
    if l ≠ [] then none else
    some (showVerdict (Sia.Ledger.validateRenewal ch c r))
  | _ => none

def op (args : List String) : String :=
  match args with
  | name :: rest =>
    match rest.mapM String.toNat? with
    | some l => (run name l).getD "bad-op"
    | none => "bad-op"
  | [] => "bad-op"

end Sia.Driver.Rhp4c

namespace Sia.Driver
def rhp4cOps : List (String × (List String → String)) := [("rhp4c", Rhp4c.op)]
end Sia.Driver
