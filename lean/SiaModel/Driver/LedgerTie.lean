import SiaModel.Ledger.Model
import SiaModel.Gen.CodeConsensus
/-!
Line-protocol ops for the C01 ties (ledger arithmetic helpers): the hand model
(`m-…`) and the definitions generated from consensus/state.go (`g-…`) side by side.

  c01t taxrat                                    → <taxNum> <taxDen>
  c01t m-tax <pre:0|1> <payout>                  → <n>
  c01t m-reward <initial> <minimum> <child>      → <n>
  c01t g-reward <initial> <minimum> <height>     → ok <n> | panic        (height = Index.Height)
  c01t m-subsidy <void:0|1> <bpy> <child> <hf>   → none | some <n> | panic
  c01t g-subsidy <void:0|1> <interval> <height> <hf> → none | some <n> | panic
  c01t m-claim <pool> <start> <value>            → ok <n> | panic
  c01t m-maturity <child> <delay> / g-maturity <height> <delay> → <n>
-/
namespace Sia.Driver
open Sia.Ledger

private def cur (n : Nat) : Gen.Types.Currency := { Lo := n % 18446744073709551616, Hi := n / 18446744073709551616 % 18446744073709551616 }
private def curVal (c : Gen.Types.Currency) : Nat := c.Hi * 18446744073709551616 + c.Lo

private def ledgerWith (child : Nat) (f : Params → Params) : Ledger :=
  { (default : Ledger) with child := child, P := f (default : Params) }

private def showVM (r : VM Cur) : String :=
  match r with
  | .ok n => s!"ok {n}"
  | .error _ => "panic"

def c01tOp (args : List String) : String :=
  match args with
  | ["taxrat"] => s!"{taxNum} {taxDen}"
  | "m-tax" :: rest =>
    match rest.mapM String.toNat? with
    | some [pre, payout] =>
      let L := ledgerWith (if pre = 1 then 0 else 10) (fun p => { p with hfTax := 5 })
      toString (fileContractTax L payout)
    | _ => "bad-op"
  | "m-reward" :: rest =>
    match rest.mapM String.toNat? with
    | some [ini, mn, child] =>
      toString (blockReward (ledgerWith child (fun p => { p with initialCoinbase := ini, minimumCoinbase := mn })))
    | _ => "bad-op"
  | "g-reward" :: rest =>
    match rest.mapM String.toNat? with
    | some [ini, mn, height] =>
      let s : Gen.Consensus.State := { Network := { InitialCoinbase := cur ini, MinimumCoinbase := cur mn }, Index := { Height := height } }
      match Gen.Consensus.State.BlockReward s with
      | .ok c => s!"ok {curVal c}"
      | .error _ => "panic"
    | _ => "bad-op"
  | "m-subsidy" :: rest =>
    match rest.mapM String.toNat? with
    | some [void, bpy, child, hf] =>
      let L := { ledgerWith child (fun p => { p with blocksPerYear := bpy, hfFoundation := hf, voidAddr := 0 }) with
                 fPrimary := if void = 1 then 0 else 7 }
      match foundationSubsidy L with
      | .ok none => "none"
      | .ok (some o) => s!"some {o.value}"
      | .error _ => "panic"
    | _ => "bad-op"
  | "g-subsidy" :: rest =>
    match rest.mapM String.toNat? with
    | some [void, interval, height, hf] =>
      let addr : ByteArray := if void = 1 then Go.zeros 32 else (Go.zeros 31).push 7
      let s : Gen.Consensus.State :=
        { Network := { BlockInterval := Int.ofNat interval, HardforkFoundation := { Height := hf } },
          Index := { Height := height }, FoundationSubsidyAddress := addr }
      match Gen.Consensus.State.FoundationSubsidy s with
      | .ok (_, false) => "none"
      | .ok (o, true) => s!"some {curVal o.Value}"
      | .error _ => "panic"
    | _ => "bad-op"
  | "m-claim" :: rest =>
    match rest.mapM String.toNat? with
    | some [pool, start, value] => showVM (claimPortion pool start value)
    | _ => "bad-op"
  | "m-maturity" :: rest =>
    match rest.mapM String.toNat? with
    | some [child, delay] => toString (maturityHeight (ledgerWith child (fun p => { p with maturityDelay := delay })))
    | _ => "bad-op"
  | "g-maturity" :: rest =>
    match rest.mapM String.toNat? with
    | some [height, delay] =>
      toString (Gen.Consensus.State.MaturityHeight { Network := { MaturityDelay := delay }, Index := { Height := height } })
    | _ => "bad-op"
  | _ => "bad-op"

end Sia.Driver

namespace Sia.Driver
def ledgerTieOps : List (String × (List String → String)) := [("c01t", c01tOp)]
end Sia.Driver
