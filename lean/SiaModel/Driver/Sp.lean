import SiaModel.Merkle.StorageProof
import SiaModel.Driver.Rhp
/-!
  Line-protocol ops for consensus storage-proof verification (C07, proof part) with real BLAKE2b.
  Hash lists as in Driver/Rhp.lean (`-` = empty).
-/
namespace Sia.Driver
open Sia Sia.Rhp Sia.SP RhpD

def parseEra (s : String) : Option Era :=
  match s with
  | "0" => some .preTax
  | "1" => some .preStorageProof
  | "2" => some .current
  | _ => none

/-- `sp-root2 leaf64hex index filesize proof` → consensus/merkle.go storageProofRoot of the leaf hash -/
def spRoot2 : List String → String
  | [l, i, fs, p] => match unhex l, i.toNat?, fs.toNat?, hashList p with
    | some l, some i, some fs, some p =>
      if l.size ≠ 64 then "bad-op" else hex (storageProofRoot (HashOps.leaf l : ByteArray) i fs p)
    | _, _, _, _ => "bad-op"
  | _ => "bad-op"

/-- `sp-proofroot leafhash index proof` → proofRoot -/
def spProofRoot : List String → String
  | [h, i, p] => match hash1 h, i.toNat?, hashList p with
    | some h, some i, some p => hex (proofRoot h i p)
    | _, _, _ => "bad-op"
  | _ => "bad-op"

/-- `sp-verify1 era index filesize leaf64hex proof root` → verdict of the v1 check -/
def spVerify1 : List String → String
  | [e, i, fs, l, p, r] => match parseEra e, i.toNat?, fs.toNat?, unhex l, hashList p, hash1 r with
    | some e, some i, some fs, some l, some p, some r =>
      if l.size ≠ 64 then "bad-op" else flag (verifyV1 e i fs l p r)
    | _, _, _, _, _, _ => "bad-op"
  | _ => "bad-op"

/-- `sp-leafindex filesize windowIDhex fcidhex` → `ok <index>` / `panic` (State.StorageProofLeafIndex) -/
def spLeafIndex : List String → String
  | [fs, w, f] => match fs.toNat?, unhex w, unhex f with
    | some fs, some w, some f =>
      if w.size ≠ 32 ∨ f.size ≠ 32 ∨ fs ≥ 18446744073709551616 then "bad-op" else
      match storageProofLeafIndex blake2b256 fs w f with
      | .ok i => s!"ok {i}"
      | .error _ => "panic"
    | _, _, _ => "bad-op"
  | _ => "bad-op"

/-- `sp-verify2 index filesize leaf64hex proof root` → verdict of the v2 check -/
def spVerify2 : List String → String
  | [i, fs, l, p, r] => match i.toNat?, fs.toNat?, unhex l, hashList p, hash1 r with
    | some i, some fs, some l, some p, some r =>
      if l.size ≠ 64 then "bad-op" else flag (verifyV2 i fs l p r)
    | _, _, _, _, _ => "bad-op"
  | _ => "bad-op"

/-- `sp-prove filehex index` → `<file root> <leaf (64 bytes, zero padded)> <proof>` -/
def spProve : List String → String
  | [f, i] => match unhex f, i.toNat? with
    | some f, some i =>
      let leaves := fileLeaves f
      let hs : List ByteArray := leaves.map HashOps.leaf
      hex (metaRoot hs : ByteArray) ++ " " ++ hex (leaves.getD i (Bytes.zeros 64)) ++ " " ++ hexList (spPath hs i)
    | _, _ => "bad-op"
  | _ => "bad-op"

def spOps : List (String × (List String → String)) := [
  ("sp-root2", spRoot2),
  ("sp-proofroot", spProofRoot),
  ("sp-verify1", spVerify1),
  ("sp-verify2", spVerify2),
  ("sp-leafindex", spLeafIndex),
  ("sp-prove", spProve)]

end Sia.Driver
