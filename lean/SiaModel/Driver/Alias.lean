import SiaModel.Ledger.Alias
/-!
Line-protocol op for the aliasing model (C09).

  alias-script <w0,w1,…|-> <ops>     ops ∈ {S,C,M,W}*  (Share, Copy, Move, Write)

Start with one unshared element whose proof holds the given words (`-` = nil proof).
Every S/C/M acts on the newest handle and pushes the resulting handle; `W` increments word 0
of the newest handle's buffer in place. Answer: `ok <h0>;<h1>;…` with every handle's current
buffer (`-` for nil), or `panic <k>` when op k (0-based) is a Move on a shared element.
-/
namespace Sia.Driver
open Sia.Alias

private def showBuf (s : St) (e : StateElement) : String :=
  match e.proof with
  | none => "-"
  | some a => ",".intercalate ((s.read a).map toString)

private def runScript : List Char → Nat → List StateElement → St → String
  | [], _, hs, s => "ok " ++ ";".intercalate (hs.reverse.map (showBuf s))
  | c :: rest, k, hs, s =>
    match hs with
    | [] => "bad-op"
    | e :: _ =>
      match c with
      | 'S' => runScript rest (k + 1) (e.share :: hs) s
      | 'C' => let (e', s') := e.copy s; runScript rest (k + 1) (e' :: hs) s'
      | 'M' => match e.move with
        | .ok e' => runScript rest (k + 1) (e' :: hs) s
        | .error _ => s!"panic {k}"
      | 'W' => match e.proof with
        | some a => match s.read a with
          | w :: ws => runScript rest (k + 1) hs (s.write a ((w + 1) % 256 :: ws))
          | [] => runScript rest (k + 1) hs s
        | none => runScript rest (k + 1) hs s
      | _ => "bad-op"

private def aliasRun (buf ops : String) : String :=
  let s0 : St := { heap := { cells := fun _ => none, next := 0 }, written := [] }
  if buf = "-" then
    runScript ops.toList 0 [{ leafIndex := some 0, proof := none, shared := false }] s0
  else match (buf.splitOn ",").mapM String.toNat? with
    | some ws =>
      let (a, s1) := s0.alloc ws
      runScript ops.toList 0 [{ leafIndex := some 0, proof := some a, shared := false }] s1
    | none => "bad-op"

def aliasScript (args : List String) : String :=
  match args with
  | [buf, ops] => aliasRun buf ops
  | [buf] => aliasRun buf ""
  | _ => "bad-op"

end Sia.Driver

namespace Sia.Driver
def aliasOps : List (String × (List String → String)) := [("alias-script", aliasScript)]
end Sia.Driver
