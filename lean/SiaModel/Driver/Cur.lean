import SiaModel.Gen.CodeTypes
/-! Line-protocol ops for the generated currency functions (C15, translator self-test). -/
namespace Sia.Driver
open Gen.Types

private def showCur (c : Currency) : String := s!"{c.Lo} {c.Hi}"
private def showFlag (b : Bool) : String := if b then "1" else "0"
private def showE (r : Except String Currency) : String :=
  match r with
  | .ok c => "ok " ++ showCur c
  | .error _ => "panic"

def curOp (args : List String) : String :=
  match args with
  | [op, alo, ahi, blo, bhi] =>
    match alo.toNat?, ahi.toNat?, blo.toNat?, bhi.toNat? with
    | some alo, some ahi, some blo, some bhi =>
      let a : Currency := { Lo := alo, Hi := ahi }
      let b : Currency := { Lo := blo, Hi := bhi }
      match op with
      | "addo" => let (s, f) := a.AddWithOverflow b; showCur s ++ " " ++ showFlag f
      | "subo" => let (s, f) := a.SubWithUnderflow b; showCur s ++ " " ++ showFlag f
      | "mulo" => let (s, f) := a.MulWithOverflow b; showCur s ++ " " ++ showFlag f
      | "mul64o" => let (s, f) := a.Mul64WithOverflow blo; showCur s ++ " " ++ showFlag f
      | "add" => showE (a.Add b)
      | "sub" => showE (a.Sub b)
      | "mul" => showE (a.Mul b)
      | "mul64" => showE (a.Mul64 blo)
      | "div" => showE (a.Div b)
      | "div64" => showE (a.Div64 blo)
      | "quorem" => match a.quoRem b with
          | .ok (q, r) => "ok " ++ showCur q ++ " " ++ showCur r
          | .error _ => "panic"
      | "cmp" => toString (a.Cmp b)
      | "iszero" => showFlag a.IsZero
      | "eq" => showFlag (a.Equals b)
      | _ => "bad-op"
    | _, _, _, _ => "bad-op"
  | _ => "bad-op"

end Sia.Driver

namespace Sia.Driver
def curOps : List (String × (List String → String)) := [("cur", curOp)]
end Sia.Driver
