import SiaModel.Merkle.Rhp
import SiaModel.Gen.CodeRhp2
/-!
  Line-protocol ops for the RHP Merkle model (C16), instantiated with real BLAKE2b-256:
  leaf = blake2b(0x00 ‖ data), node = blake2b(0x01 ‖ l ‖ r), zero = 32 zero bytes.

  Hash lists travel as concatenated lowercase hex (64 chars per hash), the empty list
  as `-`. Index lists are comma separated (`-` = empty). Action lists are comma
  separated tokens `a:<root hex>`, `t:<k>`, `s:<a>:<b>`, `u` (unsupported).
-/
namespace Sia.Driver
open Sia Sia.Rhp

instance : HashOps ByteArray where
  zero := Bytes.zeros 32
  leaf d := blake2b256 ((ByteArray.empty.push 0) ++ d)
  node l r := blake2b256 (((ByteArray.empty.push 1) ++ l) ++ r)

namespace RhpD

/-- hex decoding over the UTF-8 bytes (fast path for long inputs) -/
def hexNib (c : UInt8) : Option UInt8 :=
  if 48 ≤ c ∧ c ≤ 57 then some (c - 48)
  else if 97 ≤ c ∧ c ≤ 102 then some (c - 87)
  else none

def unhex (s : String) : Option ByteArray :=
  if s = "-" then some ByteArray.empty else
  let b := s.toUTF8
  if b.size % 2 ≠ 0 then none else
  let n := b.size / 2
  let r := Nat.fold n (fun i _ (acc : Option ByteArray) =>
    match acc with
    | none => none
    | some a =>
      match hexNib (Bytes.at b (2 * i)), hexNib (Bytes.at b (2 * i + 1)) with
      | some h, some l => some (a.push ((h <<< 4) ||| l))
      | _, _ => none) (some (ByteArray.emptyWithCapacity n))
  r

def hex (b : ByteArray) : String := if b.size = 0 then "-" else hexEncode b

/-- split into 32-byte hashes -/
def hashList (s : String) : Option (List ByteArray) :=
  match unhex s with
  | none => none
  | some b =>
    if b.size % 32 ≠ 0 then none
    else some ((List.range (b.size / 32)).map (fun i => b.extract (32 * i) (32 * i + 32)))

def hash1 (s : String) : Option ByteArray :=
  match unhex s with
  | some b => if b.size = 32 then some b else none
  | none => none

def hexList (l : List ByteArray) : String :=
  if l.isEmpty then "-" else hexEncode (l.foldl (· ++ ·) ByteArray.empty)

def natList (s : String) : Option (List Nat) :=
  if s = "-" then some [] else (s.splitOn ",").mapM String.toNat?

def flag (b : Bool) : String := if b then "1" else "0"

def showB (r : Except String Bool) : String :=
  match r with
  | .ok b => "ok " ++ flag b
  | .error _ => "panic"

def showL (r : Except String (List ByteArray)) : String :=
  match r with
  | .ok l => "ok " ++ hexList l
  | .error _ => "panic"

def parseAction (t : String) : Option (Action ByteArray) :=
  match t.splitOn ":" with
  | ["a", h] => (hash1 h).map Action.append
  | ["t", k] => k.toNat?.map Action.trim
  | ["s", a, b] => match a.toNat?, b.toNat? with
    | some a, some b => some (Action.swap a b)
    | _, _ => none
  | ["u"] => some Action.other
  | _ => none

def actions (s : String) : Option (List (Action ByteArray)) :=
  if s = "-" then some [] else (s.splitOn ",").mapM parseAction

/-- deterministic sector generator shared with the Go harness:
kind 0: all zero; kind 1: byte i = (seed + 7 i + (i / 64)) mod 256; kind 2: xorshift64*
stream, little-endian words; kind 3: leaf index (8 bytes LE) at the start of each leaf, rest `seed`. -/
def genSector (kind seed nbytes : Nat) : ByteArray :=
  match kind with
  | 0 => Bytes.zeros nbytes
  | 1 => Nat.fold nbytes (fun i _ (a : ByteArray) => a.push (UInt8.ofNat (seed + 7 * i + i / 64))) (ByteArray.emptyWithCapacity nbytes)
  | 2 =>
    let words := nbytes / 8
    let st : UInt64 := UInt64.ofNat seed ||| 1
    (Nat.fold words (fun _ _ (p : UInt64 × ByteArray) =>
      let x := p.1
      let x := x ^^^ (x >>> 12)
      let x := x ^^^ (x <<< 25)
      let x := x ^^^ (x >>> 27)
      let w := x * 0x2545F4914F6CDD1D
      (x, Blake2b.pushLe64 p.2 w)) (st, ByteArray.emptyWithCapacity nbytes)).2
  | _ => Nat.fold nbytes (fun i _ (a : ByteArray) =>
      let off := i % 64
      if off < 8 then a.push (UInt8.ofNat ((i / 64) >>> (8 * off))) else a.push (UInt8.ofNat seed)) (ByteArray.emptyWithCapacity nbytes)

end RhpD
open RhpD

def rhpHashBlocks : List String → String
  | [p, d] =>
    match p.toNat?, unhex d with
    | some p, some b =>
      if b.size ≠ 256 ∨ p > 255 then "bad-op" else
      hexList ((List.range 4).map (fun i => blake2b256 ((ByteArray.empty.push (UInt8.ofNat p)) ++ b.extract (64 * i) (64 * i + 64))))
    | _, _ => "bad-op"
  | _ => "bad-op"

def rhpLeafPair : List String → String
  | [d] => match unhex d with
    | some b =>
      if b.size = 64 then
        hex (HashOps.leaf b : ByteArray) ++ " " ++ hex (HashOps.node (b.extract 0 32) (b.extract 32 64) : ByteArray)
      else "bad-op"
    | none => "bad-op"
  | _ => "bad-op"

/-- spec root, Accumulator (AddLeaf) root, proofAccumulator (insertNode _ 0) root, and
Go's MetaRoot recursion with a small limit over the accumulator -/
def rhpRoots : List String → String
  | [hs] => match hashList hs with
    | some l =>
      let spec : ByteArray := metaRoot l
      let acc := (l.foldl Acc.addLeaf Acc.empty).root
      let pa := (l.foldl (fun a h => a.insertNode h 0) Acc.empty).root
      let go4 := goMetaRoot 4 (fun x => (x.foldl Acc.addLeaf Acc.empty).root) l
      hex spec ++ " " ++ hex acc ++ " " ++ hex pa ++ " " ++ hex go4
    | none => "bad-op"
  | _ => "bad-op"

/-- `rhp-saroot hashes`: the 4-lane sectorAccumulator fed by appendNode, and Go's MetaRoot
(sector accumulator below LeavesPerSector, recursion above) -/
def rhpSaRoot : List String → String
  | [hs] => match hashList hs with
    | some l =>
      hex ((l.foldl SecAcc.appendNode SecAcc.empty).root : ByteArray) ++ " " ++ hex (goMetaRootSA l : ByteArray)
    | none => "bad-op"
  | _ => "bad-op"

/-- one step of a feeding plan: `n<k>` = k appendNode calls, `l<k>` = one appendLeaves call with k leaves -/
def saFeed (sa : SecAcc ByteArray) (lh : List ByteArray) : List String → Option (SecAcc ByteArray)
  | [] => if lh.isEmpty then some sa else none
  | tok :: rest =>
    match (tok.drop 1).toString.toNat? with
    | none => none
    | some k =>
      if k > lh.length then none
      else if tok.startsWith "n" then saFeed ((lh.take k).foldl SecAcc.appendNode sa) (lh.drop k) rest
      else if tok.startsWith "l" then saFeed (sa.appendLeafHashes (lh.take k)) (lh.drop k) rest
      else none

/-- `rhp-saleaves datahex plan`: feed the leaves to the 4-lane accumulator according to the plan -/
def rhpSaLeaves : List String → String
  | [d, plan] => match unhex d with
    | some b =>
      if b.size % 64 ≠ 0 then "bad-op" else
      match saFeed SecAcc.empty (leafHashes b) (if plan = "-" then [] else plan.splitOn ",") with
      | some sa => hex (sa.root : ByteArray)
      | none => "bad-op"
    | none => "bad-op"
  | _ => "bad-op"

def rhpSectorRoot : List String → String
  | [d] => match unhex d with
    | some b => if b.size % 64 ≠ 0 then "error" else hex (sectorRoot b : ByteArray)
    | none => "bad-op"
  | _ => "bad-op"

def parseRanges : List String → Option (List (Nat × Nat))
  | [] => some []
  | [_] => none
  | a :: b :: r => match a.toNat?, b.toNat?, parseRanges r with
    | some a, some b, some r => some ((a, b) :: r)
    | _, _, _ => none

/-- `rhp-sector kind seed nleaves [s e]*`: root of the generated data by the plain tree,
then for every range the `BuildProof` proof (only meaningful for `nleaves = 2^k`),
the verdict of `RangeProofVerifier` on it, and the `ConvertProofOrdering` of the proof
when the range is a single leaf. -/
def rhpSector : List String → String
  | kind :: seed :: nl :: rs =>
    match kind.toNat?, seed.toNat?, nl.toNat?, parseRanges rs with
    | some kind, some seed, some nl, some ranges =>
      let data := genSector kind seed (nl * 64)
      let lh : List ByteArray := leafHashes data
      let root : ByteArray := metaRoot lh
      let outs := ranges.map (fun (se : Nat × Nat) =>
        match buildProof lh se.1 se.2 with
        | .error _ => "panic"
        | .ok p =>
          let v := rangeProofVerify nl p ((lh.drop se.1).take (se.2 - se.1)) se.1 se.2 root
          let conv := if se.2 = se.1 + 1 then
              (match convertProofOrdering p se.1 with
               | .ok q => hexList q
               | .error _ => "panic")
            else "-"
          hexList p ++ ":" ++ flag v ++ ":" ++ conv)
      hex root ++ " " ++ (if outs.isEmpty then "-" else ",".intercalate outs)
    | _, _, _, _ => "bad-op"
  | _ => "bad-op"

def rhpNss : List String → String
  | [i, j] => match i.toNat?, j.toNat? with
    | some i, some j => s!"{Gen.Rhp2.nextSubtreeSize i j} {nextSubtreeSize i j}"
    | _, _ => "bad-op"
  | _ => "bad-op"

def rhpRps : List String → String
  | [n, s, e] => match n.toNat?, s.toNat?, e.toNat? with
    | some n, some s, some e => s!"{Gen.Rhp2.RangeProofSize n s e} {rangeProofSize n s e}"
    | _, _, _ => "bad-op"
  | _ => "bad-op"

def rhpBuildRange : List String → String
  | [roots, s, e] => match hashList roots, s.toNat?, e.toNat? with
    | some l, some s, some e => showL (buildSectorRangeProof l s e)
    | _, _, _ => "bad-op"
  | _ => "bad-op"

def rhpVerifyRange : List String → String
  | [proof, rr, s, e, n, root] =>
    match hashList proof, hashList rr, s.toNat?, e.toNat?, n.toNat?, hash1 root with
    | some p, some rr, some s, some e, some n, some root => showB (verifySectorRangeProof p rr s e n root)
    | _, _, _, _, _, _ => "bad-op"
  | _ => "bad-op"

/-- `rhp-rpv n proof datahex s e root`: RangeProofVerifier over raw leaf data -/
def rhpRpv : List String → String
  | [n, proof, d, s, e, root] =>
    match n.toNat?, hashList proof, unhex d, s.toNat?, e.toNat?, hash1 root with
    | some n, some p, some d, some s, some e, some root =>
      if d.size % 64 ≠ 0 then "bad-op" else flag (rangeProofVerify n p (leafHashes d) s e root)
    | _, _, _, _, _, _ => "bad-op"
  | _ => "bad-op"

def rhpAppendVerify2 : List String → String
  | [n, th, sr, o, nw] =>
    match n.toNat?, hashList th, hash1 sr, hash1 o, hash1 nw with
    | some n, some th, some sr, some o, some nw => flag (verifyAppendProof n th sr o nw)
    | _, _, _, _, _ => "bad-op"
  | _ => "bad-op"

def rhpAppendBuild4 : List String → String
  | [roots, app] => match hashList roots, hashList app with
    | some l, some a => let r := buildAppendProof l a; hexList r.1 ++ " " ++ hex r.2
    | _, _ => "bad-op"
  | _ => "bad-op"

def rhpAppendVerify4 : List String → String
  | [n, st, app, o, nw] =>
    match n.toNat?, hashList st, hashList app, hash1 o, hash1 nw with
    | some n, some st, some app, some o, some nw => flag (verifyAppendSectorsProof n st app o nw)
    | _, _, _, _, _ => "bad-op"
  | _ => "bad-op"

def showPair (r : Except String (List ByteArray × List ByteArray)) : String :=
  match r with
  | .ok p => "ok " ++ hexList p.1 ++ " " ++ hexList p.2
  | .error _ => "panic"

def rhpDiffBuild : List String → String
  | [as, roots] => match actions as, hashList roots with
    | some as, some l => showPair (buildDiffProof as l)
    | _, _ => "bad-op"
  | _ => "bad-op"

/-- `rhp-diff-apply actions roots`: plain root of the list the actions denote (`applyActions`) -/
def rhpDiffApply : List String → String
  | [as, roots] => match actions as, hashList roots with
    | some as, some l => match applyActions l as with
      | .ok l' => "ok " ++ hex (metaRoot l' : ByteArray)
      | .error _ => "panic"
    | _, _ => "bad-op"
  | _ => "bad-op"

def rhpDiffVerify : List String → String
  | [as, n, th, lh, o, nw] =>
    match actions as, n.toNat?, hashList th, hashList lh, hash1 o, hash1 nw with
    | some as, some n, some th, some lh, some o, some nw => showB (verifyDiffProof as n th lh o nw)
    | _, _, _, _, _, _ => "bad-op"
  | _ => "bad-op"

def rhpDiffSize : List String → String
  | [as, n] => match actions as, n.toNat? with
    | some as, some n => match diffProofSize as n with
      | .ok k => s!"ok {k}"
      | .error _ => "panic"
    | _, _ => "bad-op"
  | _ => "bad-op"

def rhpFreeBuild : List String → String
  | [roots, freed] => match hashList roots, natList freed with
    | some l, some f => showPair (buildFreeSectorsProof l f)
    | _, _ => "bad-op"
  | _ => "bad-op"

def rhpFreeVerify : List String → String
  | [th, lh, freed, n, o, nw] =>
    match hashList th, hashList lh, natList freed, n.toNat?, hash1 o, hash1 nw with
    | some th, some lh, some f, some n, some o, some nw => showB (verifyFreeSectorsProof th lh f n o nw)
    | _, _, _, _, _, _ => "bad-op"
  | _ => "bad-op"

/-- new root after freeing, by the plain tree over the updated list -/
def rhpFreeApply : List String → String
  | [roots, freed] => match hashList roots, natList freed with
    | some l, some f => match applyFree l f with
      | .ok l' => "ok " ++ hex (metaRoot l' : ByteArray)
      | .error _ => "panic"
    | _, _ => "bad-op"
  | _ => "bad-op"

def rhpConvert : List String → String
  | [proof, idx] => match hashList proof, idx.toNat? with
    | some p, some i => showL (convertProofOrdering p i)
    | _, _ => "bad-op"
  | _ => "bad-op"

/-- `rhp-l2r leafhash index proof` : leaf-to-root evaluation -/
def rhpL2r : List String → String
  | [h, idx, proof] => match hash1 h, idx.toNat?, hashList proof with
    | some h, some i, some p => hex (leafToRoot h i p)
    | _, _, _ => "bad-op"
  | _ => "bad-op"

def rhpOps : List (String × (List String → String)) := [
  ("rhp-hashblocks", rhpHashBlocks),
  ("rhp-leafpair", rhpLeafPair),
  ("rhp-roots", rhpRoots),
  ("rhp-sectorroot", rhpSectorRoot),
  ("rhp-saroot", rhpSaRoot),
  ("rhp-saleaves", rhpSaLeaves),
  ("rhp-sector", rhpSector),
  ("rhp-nss", rhpNss),
  ("rhp-rps", rhpRps),
  ("rhp-buildrange", rhpBuildRange),
  ("rhp-verifyrange", rhpVerifyRange),
  ("rhp-rpv", rhpRpv),
  ("rhp-append-verify2", rhpAppendVerify2),
  ("rhp-append-build4", rhpAppendBuild4),
  ("rhp-append-verify4", rhpAppendVerify4),
  ("rhp-diff-build", rhpDiffBuild),
  ("rhp-diff-verify", rhpDiffVerify),
  ("rhp-diff-apply", rhpDiffApply),
  ("rhp-diff-size", rhpDiffSize),
  ("rhp-free-build", rhpFreeBuild),
  ("rhp-free-verify", rhpFreeVerify),
  ("rhp-free-apply", rhpFreeApply),
  ("rhp-convert", rhpConvert),
  ("rhp-l2r", rhpL2r)]

end Sia.Driver
