import SiaModel.Text.Policy
import SiaModel.Text.Ident
/-! Line-protocol ops for the text forms (C20).  `text <op> <args…>`.
    Byte strings and texts travel as lowercase hex ("-" = empty), numbers in decimal.
    A policy travels as a prefix token sequence:
      `ab <h>` | `af <t>` | `pk <hex>` | `h <hex>` | `op <hex>` |
      `th <n> <k> <k policies>` | `uc <timelock> <sigs> <k> <k × (alghex keyhex)>`.
    `runes` is a comma list of the runes above U+00FF that Go's IsPrint accepts ("-" = none). -/
namespace Sia.Driver
open Sia.Text

def textUnhexArg (s : String) : Option (List UInt8) :=
  if s = "-" then some [] else (Sia.hexDecode s).map (·.data.toList)

def textHexOut (b : List UInt8) : String :=
  if b.isEmpty then "-" else Sia.hexEncode ⟨b.toArray⟩

def textRunesArg (s : String) : Option (Nat → Bool) :=
  if s = "-" then some (fun _ => false)
  else
    let parts := (s.splitOn ",").map String.toNat?
    if parts.all Option.isSome then
      let l := parts.filterMap id
      some (fun r => l.contains r)
    else none

private def optOut (o : Option (List UInt8)) : String :=
  match o with
  | some b => "ok " ++ textHexOut b
  | none => "err"

private def resOut (o : Res (List UInt8)) : String :=
  match o with
  | .ok b => "ok " ++ textHexOut b
  | .err => "err"
  | .panic => "panic"

private def ckLen : Nat := Gen.FactsText.addrChecksumLenParse
private def addrLen : Nat := Gen.FactsText.addrBodyLen

mutual
  private def showPolicy : Policy → List String
    | .above h => ["ab", toString h]
    | .after t => ["af", toString t]
    | .pk k => ["pk", textHexOut k]
    | .hash k => ["h", textHexOut k]
    | .opaque k => ["op", textHexOut k]
    | .thresh n ps => ["th", toString n, toString (lenPL ps)] ++ showPL ps
    | .uc tl ks sg => ["uc", toString tl, toString sg, toString ks.length] ++
        (ks.map (fun k => [textHexOut k.alg, textHexOut k.key])).flatten
  private def showPL : PolicyList → List String
    | .nil => []
    | .cons p ps => showPolicy p ++ showPL ps
  private def lenPL : PolicyList → Nat
    | .nil => 0
    | .cons _ ps => lenPL ps + 1
end

def textReadKeys : Nat → List String → Option (List UnlockKey × List String)
  | 0, r => some ([], r)
  | n + 1, a :: k :: r =>
    match textUnhexArg a, textUnhexArg k, textReadKeys n r with
    | some a, some k, some (ks, r) => some (⟨a, k⟩ :: ks, r)
    | _, _, _ => none
  | _, _ => none

mutual
  def textReadPolicy : Nat → List String → Option (Policy × List String)
    | 0, _ => none
    | f + 1, toks =>
      match toks with
      | "ab" :: h :: r => h.toNat?.map (fun h => (.above h, r))
      | "af" :: t :: r => t.toInt?.map (fun t => (.after t, r))
      | "pk" :: k :: r => (textUnhexArg k).map (fun k => (.pk k, r))
      | "h" :: k :: r => (textUnhexArg k).map (fun k => (.hash k, r))
      | "op" :: k :: r => (textUnhexArg k).map (fun k => (.opaque k, r))
      | "th" :: n :: k :: r =>
        match n.toNat?, k.toNat? with
        | some n, some k =>
          match textReadPL f k r with
          | some (ps, r) => some (.thresh n ps, r)
          | none => none
        | _, _ => none
      | "uc" :: tl :: sg :: k :: r =>
        match tl.toNat?, sg.toNat?, k.toNat? with
        | some tl, some sg, some k =>
          match textReadKeys k r with
          | some (ks, r) => some (.uc tl ks sg, r)
          | none => none
        | _, _, _ => none
      | _ => none
  def textReadPL : Nat → Nat → List String → Option (PolicyList × List String)
    | 0, _, _ => none
    | _ + 1, 0, r => some (.nil, r)
    | f + 1, k + 1, r =>
      match textReadPolicy f r with
      | some (p, r) =>
        match textReadPL f k r with
        | some (ps, r) => some (.cons p ps, r)
        | none => none
      | none => none
end

def textOp (args : List String) : String :=
  match args with
  | ["hex.enc", b] => match textUnhexArg b with
    | some b => textHexOut (hexEnc b) | none => "bad-op"
  | ["hex.parse", n, t] => match n.toNat?, textUnhexArg t with
    | some n, some t => optOut (unmarshalHex n t) | _, _ => "bad-op"
  | ["addr.str", a] => match textUnhexArg a with
    | some a => textHexOut (addrStringH hashBytes Gen.FactsText.addrChecksumLenPrint a) | none => "bad-op"
  | ["addr.parse", t] => match textUnhexArg t with
    | some t => optOut (parseAddrH hashBytes addrLen ckLen t) | none => "bad-op"
  | ["pk.str", k] => match textUnhexArg k with
    | some k => textHexOut (pkString Gen.FactsText.pkPrefixBytes k) | none => "bad-op"
  | ["pk.parse", t] => match textUnhexArg t with
    | some t => optOut (parsePk Gen.FactsText.pkAlgBytes 32 t) | none => "bad-op"
  | ["acct4.str", k] => match textUnhexArg k with
    | some k => textHexOut (pkString Gen.FactsText.account4PrefixBytes k) | none => "bad-op"
  | ["acct4.parse", t] => match textUnhexArg t with
    | some t => resOut (parseAccount4 Gen.FactsText.acct4HexGuarded Gen.FactsText.account4TrimPrefixBytes Gen.FactsText.rhp4AccountSize t) | none => "bad-op"
  | ["ci.text", h, id] => match h.toNat?, textUnhexArg id with
    | some h, some id => textHexOut (ciText ⟨h, id⟩) | _, _ => "bad-op"
  | ["ci.str", h, id] => match h.toNat?, textUnhexArg id with
    | some h, some id => textHexOut (ciString ⟨h, id⟩) | _, _ => "bad-op"
  | ["ci.parse", t] => match textUnhexArg t with
    | some t => (match parseCi Gen.FactsText.ciHexGuarded 32 t with
      | .ok ci => s!"ok {ci.height} {textHexOut ci.id}"
      | .err => "err"
      | .panic => "panic")
    | none => "bad-op"
  | ["ver.str", a, b, c] => match a.toNat?, b.toNat?, c.toNat? with
    | some a, some b, some c => textHexOut (versionText a b c) | _, _, _ => "bad-op"
  | ["ver.parse", t] => match textUnhexArg t with
    | some t => (match parseVersion t with
      | some (a, b, c) => s!"ok {a} {b} {c}"
      | none => "err")
    | none => "bad-op"
  | ["work.str", n] => match n.toNat? with
    | some n => textHexOut (workText n) | none => "bad-op"
  | ["work.parse", t] => match textUnhexArg t with
    | some t => (match parseWork t with
      | some n => s!"ok {n}"
      | none => "err")
    | none => "bad-op"
  | ["spec.str", s, runes] => match textUnhexArg s, textRunesArg runes with
    | some s, some hi => textHexOut (specString hi s) | _, _ => "bad-op"
  | ["spec.parse", t] => match textUnhexArg t with
    | some t => optOut (parseSpec 16 t) | none => "bad-op"
  | ["uk.str", a, k, runes] => match textUnhexArg a, textUnhexArg k, textRunesArg runes with
    | some a, some k, some hi => textHexOut (ukText hi ⟨a, k⟩) | _, _, _ => "bad-op"
  | ["uk.parse", t] => match textUnhexArg t with
    | some t => (match parseUk 16 t with
      | some uk => s!"ok {textHexOut uk.alg} {textHexOut uk.key}"
      | none => "err")
    | none => "bad-op"
  | "pol.str" :: runes :: toks => match textRunesArg runes, textReadPolicy (toks.length + 1) toks with
    | some hi, some (p, []) => textHexOut (Policy.str hi p) | _, _ => "bad-op"
  | ["pol.parse", t] => match textUnhexArg t with
    | some t => (match parsePolicy (goCfg (fun _ => false)) t with
      | some p => "ok " ++ " ".intercalate (showPolicy p)
      | none => "err")
    | none => "bad-op"
  | _ => "bad-op"

def textOps : List (String × (List String → String)) := [("text", textOp)]

end Sia.Driver
