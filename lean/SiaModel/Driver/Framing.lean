import SiaModel.Prim.Bytes
import SiaModel.Rhp4.Framing
/-!
Line-protocol ops of the framing model (C19):

* `frame maxlen4 <Type>`            — generated rhp/v4 `maxLen()` of the type
* `frame gwmaxlen <Unit> <rMax>`    — generated gateway limit (`Unit` = `RPCSendHeaders_Response` …)
* `frame req4 <Type> <hex>`         — `ReadRequest` of the model on the stream: `ok <bytes pulled> <re-encoding>` | `err`
* `frame resp4 <Type> <hex>`        — `ReadResponse`: `ok <pulled> <re-encoding>` | `rpcerr <code> <hex desc> <pulled>` | `err`
* `frame consts`                    — `encbuf decbuf rhp2min rhp3min rhp4err chunk` (generated constants)
* `frame rhp2rt <hex payload> <maxLen>` — the payload framed by the model's `writeMessage` (identity
  cipher, zero padding) and read back by its `readMessage`: `ok <hex plaintext prefix> <frame bytes>` | `err`
* `frame handshake <g1> <u1> <g2> <u2>` — header exchange dialer(g1,u1) / acceptor(g2,u2): `accept` | `reject`
-/
namespace Sia.Driver
open Sia.Codec Sia.Framing

private def frHexArg (s : String) : Option (List UInt8) :=
  if s == "-" then some [] else (Sia.hexDecode s).map (·.toList)

private def frHexOut (b : List UInt8) : String :=
  if b.isEmpty then "-" else Sia.hexEncode ⟨b.toArray⟩

private def frSchema (name : String) : Option Sch :=
  match Gen.allSchemas.find? (fun t => t.1 == "Rhp4_" ++ name) with
  | some t => some t.2.2
  | none => none

/-- the identity cipher with a 16-byte zero tag (the driver needs no secrecy) -/
private def frToyAEAD : AEAD :=
  { sealF := fun _ m => m ++ List.replicate 16 0
    openF := fun _ c => if c.length < 16 then none else some (c.take (c.length - 16)) }

def frameOp (args : List String) : String :=
  match args with
  | ["consts"] =>
    s!"{Gen.encoderBufSize} {Gen.decoderBufSize} {Gen.Framing.rhp2_minMessageSize} {Gen.Framing.rhp3_minMessageSize} {Gen.Framing.rhp4_maxLen_RPCError} {Gen.Framing.rhp2_readNChunk}"
  | ["rhp2rt", hex, ml] =>
    match frHexArg hex, ml.toNat? with
    | some p, some maxLen =>
      let nonce : List UInt8 := List.replicate nonceSize 7
      let frame := rhp2Frame frToyAEAD nonce p (List.replicate (rhp2PadLen p.length) 0)
      match rhp2ReadFrame frToyAEAD none maxLen (frame ++ [1, 2, 3]) with
      | (.msg pt _, _) => "ok " ++ frHexOut (pt.take p.length) ++ " " ++ toString frame.length
      | _ => "err"
    | _, _ => "bad-op"
  | ["maxlen4", t] =>
    match Gen.Framing.rhp4_maxLens.find? (fun p => p.1 == t) with
    | some p => toString p.2
    | none => "bad-op"
  | ["gwmaxlen", u, m] =>
    match Gen.Framing.gw_maxLens.find? (fun p => p.1 == u), m.toNat? with
    | some p, some n => toString (p.2 n)
    | _, _ => "bad-op"
  | ["req4", t, hex] =>
    match frSchema t, Gen.Framing.rhp4_maxLens.find? (fun p => p.1 == t), frHexArg hex with
    | some s, some p, some bs =>
      match rhp4ReadRequest Irregular.env s p.2 bs with
      | .ok (v, n) => "ok " ++ toString n ++ " " ++ frHexOut (enc Irregular.env s v)
      | .error .unsupported => "unsupported"
      | .error _ => "err"
    | _, _, _ => "bad-op"
  | ["resp4", t, hex] =>
    match frSchema t, Gen.Framing.rhp4_maxLens.find? (fun p => p.1 == t), frHexArg hex with
    | some s, some p, some bs =>
      match rhp4ReadResponse Irregular.env s p.2 bs with
      | .ok (.pair (.nat 0) v, n) => "ok " ++ toString n ++ " " ++ frHexOut (enc Irregular.env s v)
      | .ok (.pair (.nat 1) (.pair (.nat code) (.pair (.bytes d) .unit)), n) =>
        "rpcerr " ++ toString code ++ " " ++ frHexOut d ++ " " ++ toString n
      | .ok _ => "err"
      | .error .unsupported => "unsupported"
      | .error _ => "err"
    | _, _, _ => "bad-op"
  | ["handshake", g1, u1, g2, u2] =>
    match frHexArg g1, frHexArg u1, frHexArg g2, frHexArg u2 with
    | some g1, some u1, some g2, some u2 =>
      match handshake ⟨g1, u1, []⟩ ⟨g2, u2, []⟩ with
      | (.accept, .accept) => "accept"
      | _ => "reject"
    | _, _, _, _ => "bad-op"
  | _ => "bad-op"

def framingOps : List (String × (List String → String)) := [("frame", frameOp)]

end Sia.Driver
