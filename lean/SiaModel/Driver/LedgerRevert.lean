import SiaModel.Driver.Ledger
/-!
  Line-protocol op for the REVERT side of the ledger model:
    ledger-revert <json {ledger, block, parentBlockId}>      (same request as `ledger-block`)
  → `panic-apply` | `ok <canonical dump of the revert report>`
  `RevertBlock` recomputes the block's mid-state on the parent ledger and reports the four diff
  lists reversed; the dump has the format of `ledger-apply` (`dumpMid`), lists reversed, the state
  scalars being those of the reverted tip.
-/
open Lean

namespace Sia.Driver
open Sia.Ledger

/-- the model's revert report: the mid-state of the block on the parent ledger, each diff list reversed -/
def revertReport (L : Ledger) (b : Block) : VM (List ScDiff × List SfDiff × List Fc1Diff × List Fc2Diff) := do
  let ms ← midApplyBlock (newMid L) b
  pure (ms.sces.reverse, ms.sfes.reverse, ms.fces.reverse, ms.v2fces.reverse)

/-- the mid-state with its diff lists replaced by a revert report (only used for printing) -/
def withReport (ms : Mid) (r : List ScDiff × List SfDiff × List Fc1Diff × List Fc2Diff) : Mid :=
  { ms with sces := r.1, sfes := r.2.1, fces := r.2.2.1, v2fces := r.2.2.2 }

def ledgerRevert (args : List String) : String :=
  match args with
  | [js] =>
    match Json.parse js >>= fromJson? (α := LedgerReq) with
    | .error e => "bad-op " ++ e
    | .ok req =>
      match midApplyBlock (newMid req.ledger) req.block, revertReport req.ledger req.block with
      | .ok ms, .ok r => "ok " ++ dumpMid (withReport ms r)
      | _, _ => "panic-apply"
  | _ => "bad-op"

def ledgerRevertOps : List (String × (List String → String)) := [("ledger-revert", ledgerRevert)]

end Sia.Driver
