import SiaModel.Prim.Bytes
import SiaModel.Prim.Blake2b
import SiaModel.Merkle.Accumulator
import SiaModel.Merkle.TreeNodes
/-!
  Line-protocol ops for the element accumulator (C04, C05), with `H := ByteArray`
  and the real BLAKE2b-256.

  Token grammar (tokens are separated by blanks; `-` is the empty list):
    hashes   h,h,...                         (hex)
    leaves   idx:spent:elem:proof;...        proof = hashes or empty
    news     spent:elem;...
    tracked  idx:proof;...

  ops
    acc-forest  <hashes>                     SPEC: naive forest of raw leaf hashes
        -> n roots(set bits, ascending height) path_0;path_1;...
    acc-leaf    elem idx spent               elementLeaf.hash
    acc-root    leafhash idx <hashes>        proofRoot
    acc-contains n roots idx:spent:elem:proof    containsLeaf -> 0/1
    acc-apply   n roots <leaves updated> <news added> <tracked>
        -> ok n roots | updated idx:proof;.. (by index) | added idx:proof;.. | tracked proof;..
    acc-revert  n <leaves updated> addedCount <tracked>
        -> ok n | updated idx:proof;.. | added indices | tracked proof;..
    acc-nodes   <leaves>                     ForEachTreeNode over the elements of an update
        -> row:col:hash;...
    acc-scenario <news initial> <updates idx:spent:elem;..> <news added>
        -> "<alg> = <spec>" where each side is `n roots proofs-of-every-leaf`,
           alg: addLeaves from empty, then applyBlock + updateElementProof of every old leaf
           spec: forestOf / path over the final leaf hashes
-/
namespace Sia.Driver
open Sia Sia.ElemAcc

instance : Hasher ByteArray where
  node l r := blake2b256 ((ByteArray.empty.push 1 ++ l) ++ r)
  leaf e i s := blake2b256 (((ByteArray.empty.push 0 ++ e) ++ le64 i).push (if s then 1 else 0))

namespace AccOps

def splitList (s : String) (sep : Char) : List String :=
  if s = "-" ∨ s = "" then [] else s.splitOn (String.singleton sep)

def parseHashes (s : String) : Option (List ByteArray) :=
  (splitList s ',').mapM hexDecode

def parseBool (s : String) : Option Bool :=
  if s = "0" then some false else if s = "1" then some true else none

def parseLeaf (s : String) : Option (Leaf ByteArray) :=
  match s.splitOn ":" with
  | [idx, sp, el, pr] => do
    let idx ← idx.toNat?
    let sp ← parseBool sp
    let el ← hexDecode el
    let pr ← parseHashes pr
    pure { elem := el, spent := sp, index := idx, proof := pr }
  | _ => none

def parseLeaves (s : String) : Option (List (Leaf ByteArray)) := (splitList s ';').mapM parseLeaf

def parseNew (s : String) : Option (Leaf ByteArray) :=
  match s.splitOn ":" with
  | [sp, el] => do
    let sp ← parseBool sp
    let el ← hexDecode el
    pure { elem := el, spent := sp, index := unassignedLeafIndex, proof := [] }
  | _ => none

def parseNews (s : String) : Option (List (Leaf ByteArray)) := (splitList s ';').mapM parseNew

def parseTracked (s : String) : Option (List (Nat × List ByteArray)) :=
  (splitList s ';').mapM fun t =>
    match t.splitOn ":" with
    | [idx, pr] => do pure (← idx.toNat?, ← parseHashes pr)
    | _ => none

def parseUpdates (s : String) : Option (List (Nat × Bool × ByteArray)) :=
  (splitList s ';').mapM fun t =>
    match t.splitOn ":" with
    | [idx, sp, el] => do pure (← idx.toNat?, ← parseBool sp, ← hexDecode el)
    | _ => none

def showHashes (l : List ByteArray) : String :=
  if l.isEmpty then "-" else ",".intercalate (l.map hexEncode)

def showList (l : List String) : String := if l.isEmpty then "-" else ";".intercalate l

/-- heights 0..63 that have a tree -/
def treeHeights (n : Nat) : List Nat := (List.range 64).filter (hasTree n)

def showRoots (n : Nat) (trees : Nat → ByteArray) : String :=
  showHashes ((treeHeights n).map trees)

/-- accumulator from the wire form (roots of the set bits, ascending) -/
def mkAcc (n : Nat) (roots : List ByteArray) : Option (Acc ByteArray) :=
  let hs := treeHeights n
  if hs.length ≠ roots.length then none
  else
    let tbl := hs.zip roots
    some { numLeaves := n, trees := fun h => (tbl.lookup h).getD ByteArray.empty }

def insertByIndex (l : Leaf ByteArray) : List (Leaf ByteArray) → List (Leaf ByteArray)
  | [] => [l]
  | x :: xs => if l.index ≤ x.index then l :: x :: xs else x :: insertByIndex l xs

def sortByIndex (ls : List (Leaf ByteArray)) : List (Leaf ByteArray) := ls.foldr insertByIndex []

def showLeafProofs (ls : List (Leaf ByteArray)) : String :=
  showList (ls.map fun l => s!"{l.index}:{showHashes l.proof}")

def allGroups (g : Nat → List (Leaf ByteArray)) : List (Leaf ByteArray) :=
  (List.range 64).flatMap g

def showTracked (rs : List (Except String (List ByteArray))) : String :=
  showList (rs.map fun r => match r with | .ok p => showHashes p | .error _ => "panic")

def opForest : List String → String
  | [hs] =>
    match parseHashes hs with
    | some ls =>
      let f := forestOf ls
      let roots := (treeHeights f.numLeaves).filterMap f.trees
      let paths := (List.range ls.length).map fun i => showHashes (path ls i)
      s!"{f.numLeaves} {showHashes roots} {showList paths}"
    | none => "bad-op"
  | _ => "bad-op"

def opLeaf : List String → String
  | [el, idx, sp] =>
    match hexDecode el, idx.toNat?, parseBool sp with
    | some el, some idx, some sp => hexEncode (Hasher.leaf el idx sp)
    | _, _, _ => "bad-op"
  | _ => "bad-op"

def opRoot : List String → String
  | [lh, idx, pr] =>
    match hexDecode lh, idx.toNat?, parseHashes pr with
    | some lh, some idx, some pr => hexEncode (proofRoot lh idx pr)
    | _, _, _ => "bad-op"
  | _ => "bad-op"

def opContains : List String → String
  | [n, roots, leaf] =>
    match n.toNat?, parseHashes roots, parseLeaf leaf with
    | some n, some roots, some l =>
      match mkAcc n roots with
      | some acc => if acc.containsLeaf l then "1" else "0"
      | none => "bad-op"
    | _, _, _ => "bad-op"
  | _ => "bad-op"

def opApply : List String → String
  | [n, roots, upd, add, trk] =>
    match n.toNat?, parseHashes roots, parseLeaves upd, parseNews add, parseTracked trk with
    | some n, some roots, some upd, some add, some trk =>
      match mkAcc n roots with
      | none => "bad-op"
      | some acc =>
        match acc.applyBlock upd add with
        | .error _ => "panic"
        | .ok (acc', u, added) =>
          let tr := trk.map fun (i, p) => u.updateElementProof i p
          s!"ok {acc'.numLeaves} {showRoots acc'.numLeaves acc'.trees} {showLeafProofs (sortByIndex (allGroups u.updated))} {showLeafProofs added} {showTracked tr}"
    | _, _, _, _, _ => "bad-op"
  | _ => "bad-op"

def opRevert : List String → String
  | [n, upd, addCount, trk] =>
    match n.toNat?, parseLeaves upd, addCount.toNat?, parseTracked trk with
    | some n, some upd, some k, some trk =>
      let acc : Acc ByteArray := { numLeaves := n, trees := fun _ => ByteArray.empty }
      let added := (List.range k).map fun _ =>
        ({ elem := ByteArray.empty, spent := false, index := unassignedLeafIndex, proof := [] } : Leaf ByteArray)
      match acc.revertBlock upd added with
      | .error _ => "panic"
      | .ok (u, added') =>
        let tr := trk.map fun (i, p) => u.updateElementProof i p
        let idxs := showList (added'.map fun l => toString l.index)
        s!"ok {u.numLeaves} {showLeafProofs (sortByIndex (allGroups u.updated))} {idxs} {showTracked tr}"
    | _, _, _, _ => "bad-op"
  | _ => "bad-op"

def opNodes : List String → String
  | [ls] =>
    match parseLeaves ls with
    | some ls => showList ((forEachTreeNode ls).map fun (r, c, h) => s!"{r}:{c}:{hexEncode h}")
    | none => "bad-op"
  | _ => "bad-op"

def opScenario : List String → String
  | [ini, upds, add] =>
    match parseNews ini, parseUpdates upds, parseNews add with
    | some ini, some upds, some add =>
      let empty : Acc ByteArray := { numLeaves := 0, trees := fun _ => ByteArray.empty }
      let (acc0, leaves0, _) := empty.addLeaves ini
      -- the leaves the block updates: new content, the proof the holder has
      let updLeaves := upds.filterMap fun (i, sp, el) =>
        (leaves0[i]?).map fun l => ({ elem := el, spent := sp, index := i, proof := l.proof } : Leaf ByteArray)
      if updLeaves.length ≠ upds.length then "bad-op" else
      match acc0.applyBlock updLeaves add with
      | .error _ => "panic"
      | .ok (acc1, u, added) =>
        let old := leaves0.map fun l => u.updateElementProof l.index l.proof
        let new := added.map fun l => (Except.ok l.proof : Except String (List ByteArray))
        let alg := s!"{acc1.numLeaves} {showRoots acc1.numLeaves acc1.trees} {showTracked (old ++ new)}"
        -- specification side: the final leaf hashes, naive forest
        let content := (ini.mapIdx fun i l =>
          match upds.find? (fun u => u.1 = i) with
          | some (_, sp, el) => (el, sp)
          | none => (l.elem, l.spent)) ++ add.map fun l => (l.elem, l.spent)
        let hashes := content.mapIdx fun i (el, sp) => (Hasher.leaf el i sp : ByteArray)
        let f := forestOf hashes
        let roots := (treeHeights f.numLeaves).filterMap f.trees
        let paths := (List.range hashes.length).map fun i => showHashes (path hashes i)
        s!"{alg} = {f.numLeaves} {showHashes roots} {showList paths}"
    | _, _, _ => "bad-op"
  | _ => "bad-op"

end AccOps

def accOps : List (String × (List String → String)) := [
  ("acc-forest", AccOps.opForest),
  ("acc-leaf", AccOps.opLeaf),
  ("acc-root", AccOps.opRoot),
  ("acc-contains", AccOps.opContains),
  ("acc-apply", AccOps.opApply),
  ("acc-revert", AccOps.opRevert),
  ("acc-nodes", AccOps.opNodes),
  ("acc-scenario", AccOps.opScenario)]

end Sia.Driver
