import SiaModel.Pow.Header
/-!
Line-protocol ops for the proof-of-work model (C13). All numbers in decimal.

  network  = bi it oakH oakFix oakGen asicH asicOakTime asicOakTarget asicNF allow finalcut   (11 tokens)
  state    = height id ts0 … ts10 depth childTarget oakTime oakTarget totalWork difficulty oakWork   (20 tokens)
  header   = parentID timestamp nonce id   (4 tokens)

  pow-apply    <network> <state> <header> <targetTs>   → ok <state> | panic
  pow-genesis  <network>                               → ok <state> | panic
  pow-adjust   <fn> <network> <state> <blockTs> <targetTs>
               fn ∈ target | v2 | finalcut | difficulty | totalwork | oaktime(blockTs,parentTs) | oaktarget | oakwork
  pow-validate <network> <state> <header>              → accept | reject <k> | panic
  pow-median   <state>                                 → ok <ns> | panic
  pow-heavier  <state> <state>                         → ok 0|1 | panic
  pow-work     add|sub|mul64|div64|min|max a b         (limb loops) → ok n | panic;  cmp a b → -1|0|1
  pow-tgt      inv a | add a b | mulfrac x n d | int i → ok n | panic
-/
namespace Sia.Driver
open Sia.Pow

private def nats? (l : List String) : Option (List Nat) := l.mapM String.toNat?
private def ints? (l : List String) : Option (List Int) := l.mapM String.toInt?

private def showEN (r : Except String Nat) : String :=
  match r with
  | .ok n => s!"ok {n}"
  | .error _ => "panic"

private def parseNet (l : List String) : Option Network :=
  match ints? l with
  | some [bi, it, oakH, oakFix, oakGen, asicH, asicOT, asicTgt, asicNF, allow, fc] =>
    some { blockInterval := bi, initialTarget := it.toNat, oakHeight := oakH.toNat,
           oakFixHeight := oakFix.toNat, oakGenesisTs := oakGen, asicHeight := asicH.toNat,
           asicOakTime := asicOT, asicOakTarget := asicTgt.toNat, asicNonceFactor := asicNF.toNat,
           v2AllowHeight := allow.toNat, v2FinalCutHeight := fc.toNat }
  | _ => none

private def parseState (l : List String) : Option PowState :=
  if l.length ≠ 20 then none else
  match ints? l with
  | some v =>
    let g (i : Nat) : Int := v.getD i 0
    some { height := (g 0).toNat, id := (g 1).toNat, prevTimestamps := (v.drop 2).take 11,
           depth := (g 13).toNat, childTarget := (g 14).toNat, oakTime := g 15,
           oakTarget := (g 16).toNat, totalWork := (g 17).toNat, difficulty := (g 18).toNat,
           oakWork := (g 19).toNat }
  | none => none

private def parseHeader (l : List String) : Option Header :=
  match ints? l with
  | some [p, t, nn, i] => some { parentID := p.toNat, timestamp := t, nonce := nn.toNat, id := i.toNat }
  | _ => none

private def showState (s : PowState) : String :=
  let ts := " ".intercalate (s.prevTimestamps.map toString)
  s!"{s.height} {s.id} {ts} {s.depth} {s.childTarget} {s.oakTime} {s.oakTarget} {s.totalWork} {s.difficulty} {s.oakWork}"

private def showES (r : Except String PowState) : String :=
  match r with
  | .ok s => "ok " ++ showState s
  | .error _ => "panic"

private def showEP (r : Except String (Nat × Nat)) : String :=
  match r with
  | .ok (a, b) => s!"ok {a} {b}"
  | .error _ => "panic"

def powApply (args : List String) : String :=
  if args.length ≠ 36 then "bad-op" else
  match parseNet (args.take 11), parseState ((args.drop 11).take 20), parseHeader ((args.drop 31).take 4),
        (args.getD 35 "").toInt? with
  | some n, some s, some h, some tt => showES (applyHeader n s h tt)
  | _, _, _, _ => "bad-op"

def powGenesis (args : List String) : String :=
  match parseNet args with
  | some n => showES (genesisState n)
  | none => "bad-op"

def powAdjust (args : List String) : String :=
  match args with
  | fn :: rest =>
    if rest.length ≠ 33 then "bad-op" else
    match parseNet (rest.take 11), parseState ((rest.drop 11).take 20),
          (rest.getD 31 "").toInt?, (rest.getD 32 "").toInt? with
    | some n, some s, some bt, some tt =>
      match fn with
      | "target" => showEN (adjustTarget n s bt tt)
      | "v2" => showEN (adjustDifficultyV2 n s bt)
      | "finalcut" => showEN (adjustDifficultyFinalCut n s bt)
      | "difficulty" => showEP (adjustDifficulty n s bt tt)
      | "totalwork" => showEP (updateTotalWork n s)
      | "oaktime" => s!"ok {updateOakTime n s bt tt}"
      | "oaktarget" => showEN (updateOakTarget n s)
      | "oakwork" => showEP (updateOakWork n s)
      | _ => "bad-op"
    | _, _, _, _ => "bad-op"
  | _ => "bad-op"

def powValidate (args : List String) : String :=
  if args.length ≠ 35 then "bad-op" else
  match parseNet (args.take 11), parseState ((args.drop 11).take 20), parseHeader ((args.drop 31).take 4) with
  | some n, some s, some h =>
    match validateHeader n s h with
    | .ok none => "accept"
    | .ok (some k) => s!"reject {k}"
    | .error _ => "panic"
  | _, _, _ => "bad-op"

def powMedian (args : List String) : String :=
  match parseState args with
  | some s => match medianTimestamp s with
    | .ok m => s!"ok {m}"
    | .error _ => "panic"
  | none => "bad-op"

def powHeavier (args : List String) : String :=
  if args.length ≠ 40 then "bad-op" else
  match parseState (args.take 20), parseState (args.drop 20) with
  | some s, some t => match sufficientlyHeavierThan s t with
    | .ok b => if b then "ok 1" else "ok 0"
    | .error _ => "panic"
  | _, _ => "bad-op"

private def showEL (r : Except String Limbs) : String :=
  match r with
  | .ok l => s!"ok {l.val}"
  | .error _ => "panic"

def powWork (args : List String) : String :=
  match args with
  | [op, a, b] =>
    match a.toNat?, b.toNat? with
    | some a, some b =>
      if a ≥ W256 then "bad-op" else
      match op with
      | "add" => if b ≥ W256 then "bad-op" else showEL ((Limbs.ofNat a).add (Limbs.ofNat b))
      | "sub" => if b ≥ W256 then "bad-op" else showEL ((Limbs.ofNat a).sub (Limbs.ofNat b))
      | "mul64" => if b ≥ W64 then "bad-op" else showEL ((Limbs.ofNat a).mul64 b)
      | "div64" => if b ≥ W64 then "bad-op" else showEL ((Limbs.ofNat a).div64 b)
      | "cmp" => if a < b then "-1" else if a = b then "0" else "1"
      | "min" => s!"ok {wmin a b}"
      | "max" => s!"ok {wmax a b}"
      | _ => "bad-op"
    | _, _ => "bad-op"
  | _ => "bad-op"

def powTgt (args : List String) : String :=
  match args with
  | ["inv", a] => match a.toNat? with
    | some a => showEN (invTarget a)
    | none => "bad-op"
  | ["add", a, b] => match a.toNat?, b.toNat? with
    | some a, some b => showEN (addTarget a b)
    | _, _ => "bad-op"
  | ["mulfrac", x, n, d] => match x.toNat?, n.toInt?, d.toInt? with
    | some x, some n, some d => showEN (mulTargetFrac x n d)
    | _, _, _ => "bad-op"
  | ["int", i] => match i.toInt? with
    | some i => s!"ok {intToTarget i}"
    | none => "bad-op"
  | _ => "bad-op"

end Sia.Driver

namespace Sia.Driver
def powOps : List (String × (List String → String)) :=
  [("pow-apply", powApply), ("pow-genesis", powGenesis), ("pow-adjust", powAdjust),
   ("pow-validate", powValidate), ("pow-median", powMedian), ("pow-heavier", powHeavier),
   ("pow-work", powWork), ("pow-tgt", powTgt)]
end Sia.Driver
