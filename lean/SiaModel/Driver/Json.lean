import SiaModel.Text.JsonUpdate
import SiaModel.Driver.Text
/-! Line-protocol ops for the JSON tree model (C20): `json <op> <args…>` prints, as lowercase
    hex, the compact JSON text the model's tree renders to — to be compared byte for byte with
    what `json.Marshal` produces in Go.  Hashes are byte strings, written as hex strings.
    Argument conventions: "-" = empty / nil; a list of fixed-size hashes is one hex string
    of the concatenation ("e" = empty but non-nil). -/
namespace Sia.Driver
open Sia.Text Sia.Text.Json Sia.ElemAcc

private def chunks (n : Nat) : Nat → List UInt8 → List (List UInt8)
  | 0, _ => []
  | f + 1, l => if l.isEmpty then [] else l.take n :: chunks n f (l.drop n)

/-- "-" nil, "e" empty, else concatenated `n`-byte items -/
private def sliceArg (n : Nat) (s : String) : Option (Option (List (List UInt8))) :=
  if s = "-" then some none
  else if s = "e" then some (some [])
  else (textUnhexArg s).map (fun b => some (chunks n (b.length + 1) b))

private def listArg (n : Nat) (s : String) : Option (List (List UInt8)) :=
  (sliceArg n s).map (·.getD [])

private def out (j : Json) : String := textHexOut (render j)

private def encHash (h : List UInt8) : Json := ofHex h

private def readLeaves : Nat → List String → Option (List (Leaf (List UInt8)) × List String)
  | 0, r => some ([], r)
  | n + 1, idx :: elem :: spent :: proof :: r =>
    match idx.toNat?, textUnhexArg elem, listArg 32 proof, readLeaves n r with
    | some i, some e, some p, some (ls, r) => some (⟨e, spent = "1", i, p⟩ :: ls, r)
    | _, _, _, _ => none
  | _, _ => none

/-- `<count> (<key> <nleaves> (<idx> <elem> <spent> <proof>)*)*` -/
private def readLeafMap : Nat → List String → (Nat → List (Leaf (List UInt8))) → Option ((Nat → List (Leaf (List UInt8))) × List String)
  | 0, r, acc => some (acc, r)
  | n + 1, k :: cnt :: r, acc =>
    match k.toNat?, cnt.toNat? with
    | some k, some cnt =>
      match readLeaves cnt r with
      | some (ls, r) => readLeafMap n r (setFn acc k ls)
      | none => none
    | _, _ => none
  | _, _, _ => none

private def readHashMap : Nat → List String → (Nat → List (List UInt8)) → Option ((Nat → List (List UInt8)) × List String)
  | 0, r, acc => some (acc, r)
  | n + 1, k :: hs :: r, acc =>
    match k.toNat?, listArg 32 hs with
    | some k, some l => readHashMap n r (setFn acc k l)
    | _, _ => none
  | _, _, _ => none

private def readOutputs : Nat → List String → Option (List OutputV × List String)
  | 0, r => some ([], r)
  | n + 1, v :: a :: r =>
    match v.toNat?, textUnhexArg a, readOutputs n r with
    | some v, some a, some (os, r) => some (⟨v, a⟩ :: os, r)
    | _, _, _ => none
  | _, _ => none

/-- "-" = nil, otherwise `<n> (<value> <addr>)*` -/
private def readOutSlice : List String → Option (Option (List OutputV) × List String)
  | "-" :: r => some (none, r)
  | n :: r =>
    match n.toNat? with
    | some n => (readOutputs n r).map (fun (os, r) => (some os, r))
    | none => none
  | _ => none

def jsonOp (args : List String) : String :=
  match args with
  | ["ci", h, id] => match h.toNat?, textUnhexArg id with
    | some h, some id => out (ciToTree ⟨h, id⟩) | _, _ => "bad-op"
  | ["work", n] => match n.toNat? with
    | some n => out (workToTree n) | none => "bad-op"
  | ["ver", a, b, c] => match a.toNat?, b.toNat?, c.toNat? with
    | some a, some b, some c => out (versionToTree a b c) | _, _, _ => "bad-op"
  | ["acc", n, roots] => match n.toNat?, listArg 32 roots with
    | some n, some rs => out (accToTree encHash n (assignTrees [] (occupied n) rs)) | _, _ => "bad-op"
  | ["sp", pid, leaf, proof] => match textUnhexArg pid, textUnhexArg leaf, sliceArg 32 proof with
    | some pid, some leaf, some proof => out (spToTree ⟨pid, leaf, proof⟩) | _, _, _ => "bad-op"
  | "pol" :: runes :: toks => match textRunesArg runes, textReadPolicy (toks.length + 1) toks with
    | some hi, some (p, []) => out (policyToTree hashBytes hi p) | _, _ => "bad-op"
  | "sat" :: sigs :: pre :: runes :: toks =>
    match listArg 64 sigs, listArg 32 pre, textRunesArg runes, textReadPolicy (toks.length + 1) toks with
    | some sigs, some pre, some hi, some (p, []) => out (satisfiedToTree hashBytes hi ⟨p, sigs, pre⟩)
    | _, _, _, _ => "bad-op"
  | "rev" :: runes :: pid :: tl :: sg :: fsz :: root :: ws :: we :: uh :: rn :: nk :: r =>
    match textRunesArg runes, textUnhexArg pid, tl.toNat?, sg.toNat?, fsz.toNat?, textUnhexArg root, ws.toNat?, we.toNat?,
          textUnhexArg uh, rn.toNat?, nk.toNat? with
    | some hi, some pid, some tl, some sg, some fsz, some root, some ws, some we, some uh, some rn, some nk =>
      match textReadKeys nk r with
      | some (ks, r) =>
        match readOutSlice r with
        | some (vo, r) =>
          match readOutSlice r with
          | some (mo, []) => out (revisionToTree hashBytes hi ⟨pid, tl, ks, sg, fsz, root, ws, we, 0, vo, mo, uh, rn⟩)
          | _ => "bad-op"
        | none => "bad-op"
      | none => "bad-op"
    | _, _, _, _, _, _, _, _, _, _, _ => "bad-op"
  | "leaf" :: r => match readLeaves 1 r with
    | some ([l], []) => out (leafToTree encHash l) | _ => "bad-op"
  | "upd" :: old :: new :: nu :: r =>
    match old.toNat?, new.toNat?, nu.toNat? with
    | some old, some new, some nu =>
      match readLeafMap nu r (fun _ => []) with
      | some (upd, ng :: r) =>
        match ng.toNat? with
        | some ng =>
          match readHashMap ng r (fun _ => []) with
          | some (g, []) => out (applyToTree encHash [] ⟨upd, g, old, new⟩)
          | _ => "bad-op"
        | none => "bad-op"
      | _ => "bad-op"
    | _, _, _ => "bad-op"
  | "rupd" :: new :: nu :: r =>
    match new.toNat?, nu.toNat? with
    | some new, some nu =>
      match readLeafMap nu r (fun _ => []) with
      | some (upd, []) => out (revertToTree encHash [] ⟨upd, new⟩)
      | _ => "bad-op"
    | _, _ => "bad-op"
  | ["splice", kind, body] =>
    -- the diff's resolution text for a body given as its own JSON text: only the splice is modelled
    match textUnhexArg body with
    | some b =>
      let k : Option ResKind := if kind = "renewal" then some .renewal else if kind = "storageProof" then some .storageProof
        else if kind = "expiration" then some .expiration else none
      match k with
      | some .expiration => textHexOut (diffResolutionText .expiration .null)
      | some k => textHexOut (spliceType b k.tag)
      | none => "bad-op"
    | none => "bad-op"
  | _ => "bad-op"

def jsonOps : List (String × (List String → String)) := [("json", jsonOp)]

end Sia.Driver
