import SiaModel.Text.JsonUpdate
import SiaModel.Driver.Text
/-! Line-protocol ops for the JSON tree model (C20): `json <op> <args…>` prints, as lowercase
    hex, the compact JSON text the model's tree renders to — to be compared byte for byte with
    what `json.Marshal` produces in Go.  Hashes are byte strings, written as hex strings.
    Argument conventions: "-" = empty / nil; a list of fixed-size hashes is one hex string
    of the concatenation ("e" = empty but non-nil). -/
namespace Sia.Driver
open Sia.Text Sia.Text.Json Sia.ElemAcc

private def chunks (n : Nat) : Nat → List UInt8 → List (List UInt8)
  | 0, _ => []
  | f + 1, l => if l.isEmpty then [] else l.take n :: chunks n f (l.drop n)

/-- "-" nil, "e" empty, else concatenated `n`-byte items -/
private def sliceArg (n : Nat) (s : String) : Option (Option (List (List UInt8))) :=
  if s = "-" then some none
  else if s = "e" then some (some [])
  else (textUnhexArg s).map (fun b => some (chunks n (b.length + 1) b))

private def listArg (n : Nat) (s : String) : Option (List (List UInt8)) :=
  (sliceArg n s).map (·.getD [])

private def out (j : Json) : String := textHexOut (render j)

private def encHash (h : List UInt8) : Json := ofHex h

private def readLeaves : Nat → List String → Option (List (Leaf (List UInt8)) × List String)
  | 0, r => some ([], r)
  | n + 1, idx :: elem :: spent :: proof :: r =>
    match idx.toNat?, textUnhexArg elem, listArg 32 proof, readLeaves n r with
    | some i, some e, some p, some (ls, r) => some (⟨e, spent = "1", i, p⟩ :: ls, r)
    | _, _, _, _ => none
  | _, _ => none

/-- `<count> (<key> <nleaves> (<idx> <elem> <spent> <proof>)*)*` -/
private def readLeafMap : Nat → List String → (Nat → List (Leaf (List UInt8))) → Option ((Nat → List (Leaf (List UInt8))) × List String)
  | 0, r, acc => some (acc, r)
  | n + 1, k :: cnt :: r, acc =>
    match k.toNat?, cnt.toNat? with
    | some k, some cnt =>
      match readLeaves cnt r with
      | some (ls, r) => readLeafMap n r (setFn acc k ls)
      | none => none
    | _, _ => none
  | _, _, _ => none

private def readHashMap : Nat → List String → (Nat → List (List UInt8)) → Option ((Nat → List (List UInt8)) × List String)
  | 0, r, acc => some (acc, r)
  | n + 1, k :: hs :: r, acc =>
    match k.toNat?, listArg 32 hs with
    | some k, some l => readHashMap n r (setFn acc k l)
    | _, _ => none
  | _, _, _ => none

private def readOutputs : Nat → List String → Option (List OutputV × List String)
  | 0, r => some ([], r)
  | n + 1, v :: a :: r =>
    match v.toNat?, textUnhexArg a, readOutputs n r with
    | some v, some a, some (os, r) => some (⟨v, a⟩ :: os, r)
    | _, _, _ => none
  | _, _ => none

/-- "-" = nil, otherwise `<n> (<value> <addr>)*` -/
private def readOutSlice : List String → Option (Option (List OutputV) × List String)
  | "-" :: r => some (none, r)
  | n :: r =>
    match n.toNat? with
    | some n => (readOutputs n r).map (fun (os, r) => (some os, r))
    | none => none
  | _ => none

/-! ### a JSON text reader (driver only: bytes → tree is encoding/json's job and is not part of
     the proofs; this reader exists so that the harness can ask the tree DECODERS of the model
     whether they accept a document).  Input is assumed to be valid JSON (the harness checks
     with json.Valid).  A number that is not a plain integer literal becomes the marker
     `[null, "<literal>"]`, which no decoder of the model accepts where Go expects an integer
     or a string. -/

private def isWs (c : UInt8) : Bool := c == 32 || c == 9 || c == 10 || c == 13

private def skipWs : List UInt8 → List UInt8
  | c :: cs => if isWs c then skipWs cs else c :: cs
  | [] => []

private def hex4Val (a b c d : UInt8) : Option Nat :=
  match hexVal a, hexVal b, hexVal c, hexVal d with
  | some a, some b, some c, some d => some (((a * 16 + b) * 16 + c) * 16 + d)
  | _, _, _, _ => none

/-- string body after the opening quote; `\uXXXX` is decoded to UTF-8 (surrogate pairs and
    lone surrogates as U+FFFD, which is enough for accept/reject) -/
private def readStr : Nat → List UInt8 → List UInt8 → Option (List UInt8 × List UInt8)
  | 0, _, _ => none
  | _ + 1, [], _ => none
  | f + 1, c :: cs, acc =>
    if c == 34 then some (acc.reverse, cs)
    else if c == 92 then
      match cs with
      | 117 :: a :: b :: c2 :: d :: r =>
        match hex4Val a b c2 d with
        | some v => readStr f r ((encodeRune (if 0xD800 ≤ v ∧ v < 0xE000 then 0xFFFD else v)).reverse ++ acc)
        | none => none
      | e :: r =>
        let x : UInt8 := if e == 110 then 10 else if e == 116 then 9 else if e == 114 then 13 else if e == 98 then 8
          else if e == 102 then 12 else e
        readStr f r (x :: acc)
      | [] => none
    else readStr f cs (c :: acc)

private def isNumCh (c : UInt8) : Bool := isDigit c || c == 45 || c == 43 || c == 46 || c == 101 || c == 69

private def takeNumLit : List UInt8 → List UInt8 × List UInt8
  | c :: cs => if isNumCh c then let (a, b) := takeNumLit cs; (c :: a, b) else ([], c :: cs)
  | [] => ([], [])

private def numOfLit (l : List UInt8) : Json :=
  let plain := l.all (fun c => isDigit c || c == 45)
  if plain then
    match l with
    | 45 :: ds => match parseDigits ds 0 with
      | some n => .num (-(n : Int))
      | none => .arr [.null, .str l]
    | ds => match parseDigits ds 0 with
      | some n => .num n
      | none => .arr [.null, .str l]
  else .arr [.null, .str l]

mutual
  private def readVal : Nat → List UInt8 → Option (Json × List UInt8)
    | 0, _ => none
    | f + 1, s =>
      match skipWs s with
      | 123 :: r => readMembers f (skipWs r) []
      | 91 :: r => readElems f (skipWs r) []
      | 34 :: r => (readStr (r.length + 1) r []).map (fun (x, r) => (.str x, r))
      | 116 :: 114 :: 117 :: 101 :: r => some (.bool true, r)
      | 102 :: 97 :: 108 :: 115 :: 101 :: r => some (.bool false, r)
      | 110 :: 117 :: 108 :: 108 :: r => some (.null, r)
      | c :: r =>
        if isNumCh c then let (l, r') := takeNumLit (c :: r); some (numOfLit l, r') else none
      | [] => none
  private def readElems : Nat → List UInt8 → List Json → Option (Json × List UInt8)
    | 0, _, _ => none
    | f + 1, s, acc =>
      match s with
      | 93 :: r => some (.arr acc.reverse, r)
      | _ =>
        match readVal f s with
        | some (v, r) =>
          match skipWs r with
          | 44 :: r => readElems f (skipWs r) (v :: acc)
          | 93 :: r => some (.arr (v :: acc).reverse, r)
          | _ => none
        | none => none
  private def readMembers : Nat → List UInt8 → List (Txt × Json) → Option (Json × List UInt8)
    | 0, _, _ => none
    | f + 1, s, acc =>
      match s with
      | 125 :: r => some (.obj acc.reverse, r)
      | 34 :: r =>
        match readStr (r.length + 1) r [] with
        | some (k, r) =>
          match skipWs r with
          | 58 :: r =>
            match readVal f r with
            | some (v, r) =>
              match skipWs r with
              | 44 :: r => readMembers f (skipWs r) ((k, v) :: acc)
              | 125 :: r => some (.obj ((k, v) :: acc).reverse, r)
              | _ => none
            | none => none
          | _ => none
        | none => none
      | _ => none
end

def textParseJson (s : List UInt8) : Option Json :=
  match readVal (s.length + 2) s with
  | some (j, r) => if (skipWs r).isEmpty then some j else none
  | none => none

private def yes {α : Type} (o : Option α) : String := if o.isSome then "ok" else "err"

private def decHash (j : Json) : Option (List UInt8) := toHex 32 j

/-- accept / reject of the model's tree decoder for a document -/
def jsonParseOp (typ : String) (doc : List UInt8) : String :=
  match textParseJson doc with
  | none => "bad-json"
  | some j =>
    match typ with
    | "ci" => yes (ciOfTree j)
    | "work" => yes (workOfTree j)
    | "ver" => yes (versionOfTree j)
    | "acc" => yes (accOfTree ([] : List UInt8) decHash j)
    | "sp" => yes (spOfTree j)
    | "pol" => yes (policyOfTree hashBytes (doc.length + 1) j)
    | "sat" => yes (satisfiedOfTree hashBytes (doc.length + 1) j)
    | "rev" => yes (revisionOfTree hashBytes j)
    | "input" => yes (inputOfTree j)
    | "upd" => yes (applyOfTree decHash ([] : List UInt8) j)
    | "rupd" => yes (revertOfTree decHash ([] : List UInt8) j)
    | _ => "bad-op"

def jsonOp (args : List String) : String :=
  match args with
  | ["ci", h, id] => match h.toNat?, textUnhexArg id with
    | some h, some id => out (ciToTree ⟨h, id⟩) | _, _ => "bad-op"
  | ["work", n] => match n.toNat? with
    | some n => out (workToTree n) | none => "bad-op"
  | ["ver", a, b, c] => match a.toNat?, b.toNat?, c.toNat? with
    | some a, some b, some c => out (versionToTree a b c) | _, _, _ => "bad-op"
  | ["acc", n, roots] => match n.toNat?, listArg 32 roots with
    | some n, some rs => out (accToTree encHash n (assignTrees [] (occupied n) rs)) | _, _ => "bad-op"
  | ["sp", pid, leaf, proof] => match textUnhexArg pid, textUnhexArg leaf, sliceArg 32 proof with
    | some pid, some leaf, some proof => out (spToTree ⟨pid, leaf, proof⟩) | _, _, _ => "bad-op"
  | "pol" :: runes :: toks => match textRunesArg runes, textReadPolicy (toks.length + 1) toks with
    | some hi, some (p, []) => out (policyToTree hashBytes hi p) | _, _ => "bad-op"
  | "sat" :: sigs :: pre :: runes :: toks =>
    match listArg 64 sigs, listArg 32 pre, textRunesArg runes, textReadPolicy (toks.length + 1) toks with
    | some sigs, some pre, some hi, some (p, []) => out (satisfiedToTree hashBytes hi ⟨p, sigs, pre⟩)
    | _, _, _, _ => "bad-op"
  | "rev" :: runes :: pid :: tl :: sg :: fsz :: root :: ws :: we :: uh :: rn :: nk :: r =>
    match textRunesArg runes, textUnhexArg pid, tl.toNat?, sg.toNat?, fsz.toNat?, textUnhexArg root, ws.toNat?, we.toNat?,
          textUnhexArg uh, rn.toNat?, nk.toNat? with
    | some hi, some pid, some tl, some sg, some fsz, some root, some ws, some we, some uh, some rn, some nk =>
      match textReadKeys nk r with
      | some (ks, r) =>
        match readOutSlice r with
        | some (vo, r) =>
          match readOutSlice r with
          | some (mo, []) => out (revisionToTree hashBytes hi ⟨pid, tl, ks, sg, fsz, root, ws, we, 0, vo, mo, uh, rn⟩)
          | _ => "bad-op"
        | none => "bad-op"
      | none => "bad-op"
    | _, _, _, _, _, _, _, _, _, _, _ => "bad-op"
  | "leaf" :: r => match readLeaves 1 r with
    | some ([l], []) => out (leafToTree encHash l) | _ => "bad-op"
  | "upd" :: old :: new :: nu :: r =>
    match old.toNat?, new.toNat?, nu.toNat? with
    | some old, some new, some nu =>
      match readLeafMap nu r (fun _ => []) with
      | some (upd, ng :: r) =>
        match ng.toNat? with
        | some ng =>
          match readHashMap ng r (fun _ => []) with
          | some (g, []) => out (applyToTree encHash [] ⟨upd, g, old, new⟩)
          | _ => "bad-op"
        | none => "bad-op"
      | _ => "bad-op"
    | _, _, _ => "bad-op"
  | "rupd" :: new :: nu :: r =>
    match new.toNat?, nu.toNat? with
    | some new, some nu =>
      match readLeafMap nu r (fun _ => []) with
      | some (upd, []) => out (revertToTree encHash [] ⟨upd, new⟩)
      | _ => "bad-op"
    | _, _ => "bad-op"
  | [op, doc] =>
    if op.startsWith "parse." then
      match textUnhexArg doc with
      | some d => jsonParseOp (op.drop 6).toString d
      | none => "bad-op"
    else "bad-op"
  | ["splice", kind, body] =>
    -- the diff's resolution text for a body given as its own JSON text: only the splice is modelled
    match textUnhexArg body with
    | some b =>
      let k : Option ResKind := if kind = "renewal" then some .renewal else if kind = "storageProof" then some .storageProof
        else if kind = "expiration" then some .expiration else none
      match k with
      | some .expiration => textHexOut (diffResolutionText .expiration .null)
      | some k => textHexOut (spliceType b k.tag)
      | none => "bad-op"
    | none => "bad-op"
  | _ => "bad-op"

def jsonOps : List (String × (List String → String)) := [("json", jsonOp)]

end Sia.Driver
