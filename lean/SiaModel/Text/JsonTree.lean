/-
  SiaModel.Text.JsonTree — JSON at the level of a VALUE TREE (C20).

  `encoding/json` (bytes ↔ tree, struct-field matching, `omitempty`, map-key
  sorting) is trusted; what is modelled is what the HAND-WRITTEN MarshalJSON /
  UnmarshalJSON methods of core do on top of it, as pairs of tree functions
  `…ToTree` / `…OfTree`:

    types:      ChainIndex, StorageProof, SpendPolicy (object form), SatisfiedPolicy,
                FileContractRevision (payout omitted, sentinel on input), SiacoinInput /
                SiafundInput (extra "address"), Transaction / V2Transaction (extra "id"
                on the transaction and on every output), V2FileContractResolution
                ("type" tag);
    consensus:  Work, ElementAccumulator (trees list ↔ occupied slots),
                V2FileContractElementDiff (the byte splice that appends "type");
                ApplyUpdate / RevertUpdate are in JsonUpdate.lean;
    rhp/v4:     ProtocolVersion (string form, legacy array accepted).

  Conventions.  Object fields are ordered (struct order; Go sorts map keys as
  strings).  A decoder looks a field up by the name the marshaler writes and ignores
  unknown fields; a missing field leaves the Go zero value.  A nil slice is `none`
  (JSON `null`), a non-nil one `some l` (JSON array), where the Go form can tell them
  apart.  Nested types that have no hand-written marshaler are parameters
  (`enc`/`dec` pairs) of the definitions that contain them.  `render` prints a tree as
  the compact text `json.Marshal` produces (strings: ASCII escaping only), which is
  what the correspondence run compares byte for byte.
-/
import SiaModel.Text.Policy
import SiaModel.Text.Ident

namespace Sia.Text

inductive Json where
  | null
  | bool (b : Bool)
  | num (n : Int)
  | str (s : Txt)
  | arr (l : List Json)
  | obj (fs : List (Txt × Json))

namespace Json

/-- field name of a string literal (run-time version; the model uses `key!`) -/
def key (s : String) : Txt := s.toUTF8.data.toList

end Json

open Lean in
/-- `key! "abc"` is the byte-list literal `[97, 98, 99]` (expanded at elaboration
    time, so that comparing two field names is a comparison of numeral lists) -/
macro "key!" s:str : term => do
  let bytes := s.getString.toUTF8.toList
  let elems : Array (TSyntax `term) := (bytes.map (fun b => Syntax.mkNumLit (toString b.toNat))).toArray
  `(([$elems,*] : List UInt8))

namespace Json

/-- lookup of a field; like encoding/json, the last occurrence wins -/
def getF (k : Txt) : List (Txt × Json) → Option Json
  | [] => none
  | (k', v) :: r =>
    match getF k r with
    | some x => some x
    | none => if k' = k then some v else none

/-! ## rendering (compact, as `json.Marshal`) -/

def hexNib (n : Nat) : UInt8 := hexDigit (n % 16)

/-- string escaping of encoding/json for ASCII input (HTML-safe mode): `"` `\` control
    characters `<` `>` `&`; everything else verbatim -/
def escByte (c : UInt8) : Txt :=
  if c = 34 then [92, 34]
  else if c = 92 then [92, 92]
  else if c = 10 then [92, 110]
  else if c = 13 then [92, 114]
  else if c = 9 then [92, 116]
  else if c = 8 then [92, 98]
  else if c = 12 then [92, 102]
  else if c.toNat < 32 ∨ c = 60 ∨ c = 62 ∨ c = 38 then
    [92, 117, 48, 48, hexNib (c.toNat / 16), hexNib c.toNat]
  else [c]

def escape (s : Txt) : Txt := (s.map escByte).flatten

def quoteJ (s : Txt) : Txt := 34 :: (escape s ++ [34])

mutual
  def render : Json → Txt
    | .null => key! "null"
    | .bool true => key! "true"
    | .bool false => key! "false"
    | .num n => intToDec n
    | .str s => quoteJ s
    | .arr l => 91 :: (renderList l ++ [93])
    | .obj fs => 123 :: (renderFields fs ++ [125])
  def renderList : List Json → Txt
    | [] => []
    | [x] => render x
    | x :: y :: r => render x ++ 44 :: renderList (y :: r)
  def renderFields : List (Txt × Json) → Txt
    | [] => []
    | [(k, v)] => quoteJ k ++ 58 :: render v
    | (k, v) :: f :: r => quoteJ k ++ 58 :: (render v ++ 44 :: renderFields (f :: r))
end

/-! ## leaf codecs -/

def ofNat (n : Nat) : Json := .num n

/-- an unsigned integer of `bits` bits -/
def toNatBits (bits : Nat) : Json → Option Nat
  | .num i => if 0 ≤ i ∧ i < 2 ^ bits then some i.toNat else none
  | .null => some 0
  | _ => none

def toBool : Json → Option Bool
  | .bool b => some b
  | .null => some false
  | _ => none

def ofHex (b : List UInt8) : Json := .str (hexEnc b)

/-- a fixed-size hex identifier (Hash256, Signature, …: `unmarshalHex`) -/
def toHex (n : Nat) : Json → Option (List UInt8)
  | .str s => unmarshalHex n s
  | .null => some (List.replicate n 0)
  | _ => none

/-- a hex value that Go first reads into a `string` and then decodes with a length check
    (SatisfiedPolicy preimages): null reads as "" and fails the length check -/
def toHexStrict (n : Nat) : Json → Option (List UInt8)
  | .str s => unmarshalHex n s
  | _ => none

/-- `Currency` as its exact decimal string (ParseCurrency also reads unit suffixes;
    only the form MarshalText writes is modelled) -/
def ofCurrency (c : Nat) : Json := .str (natToDec c)

def toCurrency : Json → Option Nat
  | .str s => parseUint 128 s
  | .null => some 0
  | _ => none

/-- a slice: `none` = nil = JSON null -/
def ofSlice {α : Type} (enc : α → Json) : Option (List α) → Json
  | none => .null
  | some l => .arr (l.map enc)

def decList {α : Type} (dec : Json → Option α) : List Json → Option (List α)
  | [] => some []
  | x :: xs =>
    match dec x, decList dec xs with
    | some a, some as => some (a :: as)
    | _, _ => none

def toSlice {α : Type} (dec : Json → Option α) : Json → Option (Option (List α))
  | .null => some none
  | .arr l => (decList dec l).map some
  | _ => none

/-- a field read into a Go zero value when absent -/
def fieldOr {α : Type} (fs : List (Txt × Json)) (k : Txt) (dflt : α) (dec : Json → Option α) : Option α :=
  match getF k fs with
  | none => some dflt
  | some .null => some dflt
  | some v => dec v

end Json

open Json

/-! JSON `null` read into a non-pointer Go value leaves it at its zero value (for a type with
    its own UnmarshalJSON the method is called with `null`; those are noted where they differ). -/

/-! ## types.ChainIndex (MarshalJSON hides MarshalText: plain object) -/

def ciToTree (ci : ChainIndex) : Json :=
  .obj [(key! "height", ofNat ci.height), (key! "id", ofHex ci.id)]

def ciOfTree : Json → Option ChainIndex
  | .obj fs =>
    match fieldOr fs (key! "height") 0 (toNatBits 64), fieldOr fs (key! "id") (List.replicate 32 0) (toHex 32) with
    | some h, some id => some ⟨h, id⟩
    | _, _ => none
  | .null => some ⟨0, List.replicate 32 0⟩
  | _ => none

/-! ## consensus.Work: a JSON string with the decimal value -/

def workToTree (n : Nat) : Json := .str (workText n)

/-- `UnmarshalJSON` trims the quotes and calls UnmarshalText -/
def workOfTree : Json → Option Nat
  | .str s => parseWork s
  | .num i => if 0 ≤ i then parseWork (natToDec i.toNat) else none
  | _ => none

/-! ## rhp/v4 ProtocolVersion -/

def versionToTree (a b c : Nat) : Json := .str (versionText a b c)

/-- string form, or the legacy array decoded into a `[3]uint8` (missing elements are zero,
    surplus elements must still be valid JSON but are dropped) -/
def versionOfTree : Json → Option (Nat × Nat × Nat)
  | .str s => parseVersion s
  | .arr l =>
    match toNatBits 8 (l.getD 0 .null), toNatBits 8 (l.getD 1 .null), toNatBits 8 (l.getD 2 .null) with
    | some a, some b, some c => some (a, b, c)
    | _, _, _ => none
  | _ => none

/-! ## consensus.ElementAccumulator: `trees` lists the roots of the occupied slots only -/

/-- heights `< 64` at which `numLeaves` has a tree, ascending -/
def occupied (numLeaves : Nat) : List Nat := (List.range 64).filter (fun i => numLeaves.testBit i)

def accToTree {H : Type} (encH : H → Json) (numLeaves : Nat) (trees : Nat → H) : Json :=
  .obj [(key! "numLeaves", ofNat numLeaves), (key! "trees", .arr ((occupied numLeaves).map (fun i => encH (trees i))))]

/-- hand the decoded roots out to the occupied slots, in order -/
def assignTrees {H : Type} (zero : H) : List Nat → List H → Nat → H
  | i :: is, h :: hs => fun j => if j = i then h else assignTrees zero is hs j
  | _, _ => fun _ => zero

/-- `UnmarshalJSON`: the number of roots must equal the number of set bits -/
def accOfTree {H : Type} (zero : H) (decH : Json → Option H) : Json → Option (Nat × (Nat → H))
  | .obj fs =>
    match fieldOr fs (key! "numLeaves") 0 (toNatBits 64), fieldOr fs (key! "trees") none (toSlice decH) with
    | some n, some ts =>
      let roots := ts.getD []
      if roots.length ≠ (occupied n).length then none
      else some (n, assignTrees zero (occupied n) roots)
    | _, _ => none
  | .null => some (0, fun _ => zero)
  | _ => none

/-! ## types.StorageProof: the 64-byte leaf travels as a hex string -/

structure StorageProofV where
  parentID : List UInt8
  leaf : List UInt8
  proof : Option (List (List UInt8))

def spToTree (sp : StorageProofV) : Json :=
  .obj [(key! "parentID", ofHex sp.parentID), (key! "leaf", .str (hexEnc sp.leaf)),
        (key! "proof", ofSlice ofHex sp.proof)]

/-- the leaf string must have exactly 128 characters and be hex -/
def spOfTree : Json → Option StorageProofV
  | .obj fs =>
    match fieldOr fs (key! "parentID") (List.replicate 32 0) (toHex 32),
          fieldOr fs (key! "leaf") [] (fun j => match j with | .str s => some s | _ => none),
          fieldOr fs (key! "proof") none (toSlice (toHex 32)) with
    | some pid, some leaf, some proof =>
      if leaf.length ≠ 128 then none
      else match hexDec leaf with
        | some l => some ⟨pid, l, proof⟩
        | none => none
    | _, _, _ => none
  | _ => none

/-! ## types.SpendPolicy, object form `{"type": …, "policy": …}` -/

/-- JSON of an UnlockKey: its text form -/
def ukToTree (hi : Nat → Bool) (k : UnlockKey) : Json := .str (ukText hi k)

def ukOfTree : Json → Option UnlockKey
  | .str s => parseUk 16 s
  | .null => some ⟨List.replicate 16 0, []⟩
  | _ => none

def keysToTree (hi : Nat → Bool) : List UnlockKey → Json
  | [] => .null
  | ks => .arr (ks.map (ukToTree hi))

def keysOfTree : Json → Option (List UnlockKey)
  | .null => some []
  | .arr l => decList ukOfTree l
  | _ => none

/-- `UnlockConditions` (default struct form) -/
def ucFields (hi : Nat → Bool) (tl : Nat) (ks : List UnlockKey) (sg : Nat) : List (Txt × Json) :=
  [(key! "timelock", ofNat tl), (key! "publicKeys", keysToTree hi ks), (key! "signaturesRequired", ofNat sg)]

def ucOfFields (fs : List (Txt × Json)) : Option (Nat × List UnlockKey × Nat) :=
  match fieldOr fs (key! "timelock") 0 (toNatBits 64), fieldOr fs (key! "publicKeys") [] keysOfTree,
        fieldOr fs (key! "signaturesRequired") 0 (toNatBits 64) with
  | some tl, some ks, some sg => some (tl, ks, sg)
  | _, _, _ => none

def ucOfTree : Json → Option (Nat × List UnlockKey × Nat)
  | .obj uf => ucOfFields uf
  | .null => some (0, [], 0)
  | _ => none

section
variable (Hh : List UInt8 → List UInt8) (hi : Nat → Bool)

mutual
  /-- `SpendPolicy.MarshalJSON` (an empty sub-policy / key list is written as null, the
      form of a nil slice) -/
  def policyToTree : Policy → Json
    | .above h => .obj [(key! "type", .str kwAbove), (key! "policy", ofNat h)]
    | .after t => .obj [(key! "type", .str kwAfter), (key! "policy", .num t)]
    | .pk k => .obj [(key! "type", .str kwPk), (key! "policy", .str (pkString Gen.FactsText.pkPrefixBytes k))]
    | .hash h => .obj [(key! "type", .str kwH), (key! "policy", ofHex h)]
    | .thresh n ps => .obj [(key! "type", .str kwThresh),
        (key! "policy", .obj [(key! "n", ofNat n), (key! "of", policyListToTree ps)])]
    | .opaque a => .obj [(key! "type", .str kwOpaque), (key! "policy", .str (addrStringH Hh 6 a))]
    | .uc tl ks sg => .obj [(key! "type", .str kwUc), (key! "policy", .obj (ucFields hi tl ks sg))]
  def policyListToTree : PolicyList → Json
    | .nil => .null
    | .cons p ps => .arr (policyToTree p :: policyItems ps)
  def policyItems : PolicyList → List Json
    | .nil => []
    | .cons p ps => policyToTree p :: policyItems ps
end

/-- the `switch v.Type` of `SpendPolicy.UnmarshalJSON`; `sub` decodes a list of sub-policies -/
def policyBody (sub : List Json → Option PolicyList) (typ : Txt) (body : Json) : Option Policy :=
  if typ = kwAbove then (toNatBits 64 body).map .above
  else if typ = kwAfter then
    match body with
    | .num t => if -(2 ^ 63 : Int) ≤ t ∧ t < 2 ^ 63 then some (.after t) else none
    | .null => some (.after 0)
    | _ => none
  else if typ = kwPk then
    match body with
    | .str s => (parsePk Gen.FactsText.pkAlgBytes 32 s).map .pk
    | .null => some (.pk (List.replicate 32 0))
    | _ => none
  else if typ = kwH then (toHex 32 body).map .hash
  else if typ = kwThresh then
    match body with
    | .obj tf =>
      match fieldOr tf (key! "n") 0 (toNatBits 8), getF (key! "of") tf with
      | some n, none => some (.thresh n .nil)
      | some n, some .null => some (.thresh n .nil)
      | some n, some (.arr l) => (sub l).map (.thresh n)
      | _, _ => none
    | .null => some (.thresh 0 .nil)
    | _ => none
  else if typ = kwOpaque then
    match body with
    | .str s => (parseAddrH Hh 32 6 s).map .opaque
    | .null => some (.opaque (List.replicate 32 0))
    | _ => none
  else if typ = kwUc then
    match body with
    | .obj uf => (ucOfFields uf).map (fun (tl, ks, sg) => .uc tl ks sg)
    | .null => some (.uc 0 [] 0)
    | _ => none
  else none

mutual
  /-- `SpendPolicy.UnmarshalJSON`; fuel bounds the nesting -/
  def policyOfTree : Nat → Json → Option Policy
    | 0, _ => none
    | f + 1, .obj fs =>
      match getF (key! "type") fs with
      | some (.str typ) =>
        -- `policy` is a json.RawMessage: absent, it is empty and cannot be decoded (null can)
        match getF (key! "policy") fs with
        | some body => policyBody Hh (policyListOfTree f) typ body
        | none => none
      | _ => none
    | _ + 1, _ => none
  def policyListOfTree : Nat → List Json → Option PolicyList
    | 0, _ => none
    | _ + 1, [] => some .nil
    | f + 1, x :: xs =>
      match policyOfTree f x, policyListOfTree f xs with
      | some p, some ps => some (.cons p ps)
      | _, _ => none
end

/-! ## types.SatisfiedPolicy: preimages travel as hex strings; both lists `omitempty` -/

structure SatisfiedV where
  policy : Policy
  signatures : List (List UInt8)
  preimages : List (List UInt8)

def omitEmpty (k : Txt) (l : List Json) : List (Txt × Json) :=
  if l.isEmpty then [] else [(k, .arr l)]

def satisfiedToTree (sp : SatisfiedV) : Json :=
  .obj ([(key! "policy", policyToTree Hh hi sp.policy)] ++ omitEmpty (key! "signatures") (sp.signatures.map ofHex)
        ++ omitEmpty (key! "preimages") (sp.preimages.map ofHex))

def satisfiedOfTree (fuel : Nat) : Json → Option SatisfiedV
  | .obj fs =>
    match (getF (key! "policy") fs).bind (policyOfTree Hh fuel),
          fieldOr fs (key! "signatures") [] (fun j => (toSlice (toHex 64) j).map (·.getD [])),
          fieldOr fs (key! "preimages") [] (fun j => (toSlice (toHexStrict 32) j).map (·.getD [])) with
    | some p, some sigs, some pre => some ⟨p, sigs, pre⟩
    | _, _, _ => none
  | _ => none

end

/-! ## types.FileContractRevision: the payout is not written; a sentinel is set on input -/

structure OutputV where
  value : Nat
  address : List UInt8

structure RevisionV where
  parentID : List UInt8
  timelock : Nat
  keys : List UnlockKey
  sigsRequired : Nat
  filesize : Nat
  fileMerkleRoot : List UInt8
  windowStart : Nat
  windowEnd : Nat
  payout : Nat
  validOutputs : Option (List OutputV)
  missedOutputs : Option (List OutputV)
  unlockHash : List UInt8
  revisionNumber : Nat

/-- `NewCurrency(math.MaxUint64, math.MaxUint64)` -/
def payoutSentinel : Nat := 2 ^ 128 - 1

section
variable (Hh : List UInt8 → List UInt8) (hi : Nat → Bool)

def outputFields (o : OutputV) : List (Txt × Json) :=
  [(key! "value", ofCurrency o.value), (key! "address", .str (addrStringH Hh 6 o.address))]

def outputToTree (o : OutputV) : Json := .obj (outputFields Hh o)

def addrOfTree : Json → Option (List UInt8)
  | .str s => parseAddrH Hh 32 6 s
  | .null => some (List.replicate 32 0)
  | _ => none

def outputOfFields (fs : List (Txt × Json)) : Option OutputV :=
  match fieldOr fs (key! "value") 0 toCurrency, fieldOr fs (key! "address") (List.replicate 32 0) (addrOfTree Hh) with
  | some v, some a => some ⟨v, a⟩
  | _, _ => none

def outputOfTree : Json → Option OutputV
  | .obj fs => outputOfFields Hh fs
  | .null => some ⟨0, List.replicate 32 0⟩
  | _ => none

def revisionToTree (r : RevisionV) : Json :=
  .obj [(key! "parentID", ofHex r.parentID),
        (key! "unlockConditions", .obj (ucFields hi r.timelock r.keys r.sigsRequired)),
        (key! "filesize", ofNat r.filesize), (key! "fileMerkleRoot", ofHex r.fileMerkleRoot),
        (key! "windowStart", ofNat r.windowStart), (key! "windowEnd", ofNat r.windowEnd),
        (key! "validProofOutputs", ofSlice (outputToTree Hh) r.validOutputs),
        (key! "missedProofOutputs", ofSlice (outputToTree Hh) r.missedOutputs),
        (key! "unlockHash", .str (addrStringH Hh 6 r.unlockHash)),
        (key! "revisionNumber", ofNat r.revisionNumber)]

/-- `UnmarshalJSON`: the default struct decoding (which would also read a "payout"
    field), then `fcr.Payout = sentinel` -/
def revisionOfTree : Json → Option RevisionV
  | .obj fs =>
    let zero32 : List UInt8 := List.replicate 32 0
    match fieldOr fs (key! "parentID") zero32 (toHex 32),
          fieldOr fs (key! "unlockConditions") (0, [], 0) ucOfTree,
          fieldOr fs (key! "filesize") 0 (toNatBits 64), fieldOr fs (key! "fileMerkleRoot") zero32 (toHex 32),
          fieldOr fs (key! "windowStart") 0 (toNatBits 64), fieldOr fs (key! "windowEnd") 0 (toNatBits 64),
          fieldOr fs (key! "validProofOutputs") none (toSlice (outputOfTree Hh)),
          fieldOr fs (key! "missedProofOutputs") none (toSlice (outputOfTree Hh)),
          fieldOr fs (key! "unlockHash") zero32 (addrOfTree Hh), fieldOr fs (key! "revisionNumber") 0 (toNatBits 64) with
    | some pid, some (tl, ks, sg), some fsz, some root, some ws, some we, some vo, some mo, some uh, some rn =>
      some ⟨pid, tl, ks, sg, fsz, root, ws, we, payoutSentinel, vo, mo, uh, rn⟩
    | _, _, _, _, _, _, _, _, _, _ => none
  | .null => some ⟨List.replicate 32 0, 0, [], 0, 0, List.replicate 32 0, 0, 0, payoutSentinel, none, none, List.replicate 32 0, 0⟩
  | _ => none

/-! ## SiacoinInput / SiafundInput: an extra "address" field is written and ignored on input -/

structure InputV where
  parentID : List UInt8
  timelock : Nat
  keys : List UnlockKey
  sigsRequired : Nat

/-- `unlockHash` is `UnlockConditions.UnlockHash`, a parameter here -/
def inputToTree (unlockHash : InputV → List UInt8) (i : InputV) : Json :=
  .obj [(key! "parentID", ofHex i.parentID),
        (key! "unlockConditions", .obj (ucFields hi i.timelock i.keys i.sigsRequired)),
        (key! "address", .str (addrStringH Hh 6 (unlockHash i)))]

def inputOfTree : Json → Option InputV
  | .obj fs =>
    match fieldOr fs (key! "parentID") (List.replicate 32 0) (toHex 32),
          fieldOr fs (key! "unlockConditions") (0, [], 0) ucOfTree with
    | some pid, some (tl, ks, sg) => some ⟨pid, tl, ks, sg⟩
    | _, _ => none
  | .null => some ⟨List.replicate 32 0, 0, [], 0⟩
  | _ => none

end

/-! ## Transaction / V2Transaction: "id" on the transaction and on each output -/

/-- put an extra field in front of an object's fields -/
def withField (k : Txt) (v : Json) : Json → Json
  | .obj fs => .obj ((k, v) :: fs)
  | j => j

/-- one output list of a transaction: each output object gets its `id` in front; with
    `omitempty` (v1) an empty list is not written at all -/
def outsField (omitE : Bool) (k : Txt) (l : List (Json × Json)) : List (Txt × Json) :=
  if omitE ∧ l.isEmpty then [] else [(k, .arr (l.map (fun x => withField (key! "id") x.1 x.2)))]

/-- the hand-written part of `Transaction.MarshalJSON` / `V2Transaction.MarshalJSON`:
    `id`, then the outputs each with its own `id` in front, then the remaining fields
    as the default encoding writes them.  `omitE` = the two output lists are
    `omitempty` (v1) or always written (v2). -/
def txnToTree (omitE : Bool) (id : Json) (scos sfos : List (Json × Json)) (rest : List (Txt × Json)) : Json :=
  .obj ((key! "id", id) :: (outsField omitE (key! "siacoinOutputs") scos ++ outsField omitE (key! "siafundOutputs") sfos ++ rest))

/-- reading it back: the default struct decoding, which looks fields up by name — the
    transaction's `id` and each output's `id` are not fields of the Go types and are
    ignored.  `decSco`/`decSfo` decode one output object, `decRest` the other fields. -/
def txnOfTree {α β ρ : Type} (decSco : Json → Option α) (decSfo : Json → Option β)
    (decRest : List (Txt × Json) → Option ρ) : Json → Option (List α × List β × ρ)
  | .obj fs =>
    match fieldOr fs (key! "siacoinOutputs") [] (fun j => (toSlice decSco j).map (·.getD [])),
          fieldOr fs (key! "siafundOutputs") [] (fun j => (toSlice decSfo j).map (·.getD [])),
          decRest fs with
    | some a, some b, some r => some (a, b, r)
    | _, _, _ => none
  | _ => none

/-! ## V2FileContractResolution: `{"parent", "type", "resolution"}` -/

inductive ResKind where
  | renewal | storageProof | expiration
  deriving DecidableEq, Repr

def ResKind.tag : ResKind → Txt
  | .renewal => key! "renewal"
  | .storageProof => key! "storageProof"
  | .expiration => key! "expiration"

def ResKind.ofTag (t : Txt) : Option ResKind :=
  if t = key! "renewal" then some .renewal
  else if t = key! "storageProof" then some .storageProof
  else if t = key! "expiration" then some .expiration
  else none

/-- `parent` and `body` are the default encodings of the parent element and of the
    resolution (a pointer to one of the three kinds) -/
def resolutionToTree (parent : Json) (k : ResKind) (body : Json) : Json :=
  .obj [(key! "parent", parent), (key! "type", .str k.tag), (key! "resolution", body)]

/-- `UnmarshalJSON`: the tag selects which kind `resolution` is decoded as -/
def resolutionOfTree {P R : Type} (decParent : Json → Option P) (decBody : ResKind → Json → Option R) :
    Json → Option (P × ResKind × R)
  | .obj fs =>
    match (getF (key! "parent") fs).bind decParent, getF (key! "type") fs with
    | some p, some (.str t) =>
      match ResKind.ofTag t with
      | some k =>
        match decBody k ((getF (key! "resolution") fs).getD .null) with
        | some r => some (p, k, r)
        | none => none
      | none => none
    | _, _ => none
  | _ => none

/-! ## consensus.V2FileContractElementDiff: the resolution object gets a `"type"` field
    spliced in at the BYTE level -/

/-- `append(buf[:len(buf)-1], []byte(`,"type":"<typ>"}`)...)` -/
def spliceType (buf : Txt) (typ : Txt) : Txt :=
  buf.dropLast ++ (key! ",\"type\":\"" ++ typ ++ key! "\"}")

/-- the text put in the `resolution` field: for an expiration (an empty struct) the
    literal `{"type":"expiration"}`, otherwise the resolution's own JSON with the type
    field spliced in before the closing brace -/
def diffResolutionText (k : ResKind) (body : Json) : Txt :=
  match k with
  | .expiration => key! "{\"type\":\"" ++ k.tag ++ key! "\"}"
  | _ => spliceType (render body) k.tag

/-- the same at tree level -/
def diffResolutionTree (k : ResKind) (body : Json) : Json :=
  match k, body with
  | .expiration, _ => .obj [(key! "type", .str k.tag)]
  | _, .obj fs => .obj (fs ++ [(key! "type", .str k.tag)])
  | _, j => j

/-- `UnmarshalJSON`: read `type` out of the resolution object, then decode the same
    object as that kind (the extra `type` field is ignored by the default decoder) -/
def diffResolutionOfTree {R : Type} (decBody : ResKind → Json → Option R) : Json → Option (ResKind × R)
  | .obj fs =>
    match getF (key! "type") fs with
    | some (.str t) =>
      match ResKind.ofTag t with
      | some .expiration => (decBody .expiration (.obj [])).map (fun r => (.expiration, r))
      | some k => (decBody k (.obj fs)).map (fun r => (k, r))
      | none => none
    | _ => none
  | _ => none

end Sia.Text
