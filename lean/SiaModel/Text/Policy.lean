/-
  SiaModel.Text.Policy — `SpendPolicy.String` and `ParseSpendPolicy`
  (types/policy.go), as written: a tokenizer that cuts at the next delimiter, a
  recursive-descent parser over a mutable remaining string `s` and a sticky error.

  The policy syntax type is local to this file (C20 owns only the text form).
  Constants spelled out in the Go source — the delimiter set and the bit sizes
  handed to the integer parser — are fields of `Cfg`; `goCfg` fills them from the
  generated facts, so the model follows the source when those literals change.
-/
import SiaModel.Text.Quote
import SiaModel.Gen.FactsText

namespace Sia.Text

mutual
  inductive Policy where
    | above (h : Nat)
    | after (t : Int)
    | pk (k : List UInt8)
    | hash (h : List UInt8)
    | thresh (n : Nat) (of : PolicyList)
    | opaque (a : List UInt8)
    | uc (timelock : Nat) (keys : List UnlockKey) (sigs : Nat)
  inductive PolicyList where
    | nil
    | cons (p : Policy) (ps : PolicyList)
end

structure Cfg where
  /-- `strings.IndexAny(s, delims)` in nextToken -/
  delims : List UInt8
  aboveBits : Nat
  threshBits : Nat
  ucTimelockBits : Nat
  ucSigBits : Nat
  /-- size of a Specifier -/
  specLen : Nat
  /-- `parseUnlockKey` lifts a leading quoted string off the input with
      `strconv.QuotedPrefix` before tokenizing (generated fact `ukQuotedPrefix`;
      `false` = the parser as first found, finding F3) -/
  quotedKeys : Bool
  /-- `unicode.IsPrint` above U+00FF (see Quote.lean) -/
  hi : Nat → Bool

/-- the parser configuration with a given signature-count bit size and a given
    treatment of quoted key specifiers, everything else as read from the source -/
def goCfgWith (sigBits : Nat) (quotedKeys : Bool) (hi : Nat → Bool) : Cfg :=
  { delims := Gen.FactsText.tokenDelimsBytes
    aboveBits := Gen.FactsText.aboveBits
    threshBits := Gen.FactsText.threshBits
    ucTimelockBits := Gen.FactsText.ucTimelockBits
    ucSigBits := sigBits
    specLen := 16
    quotedKeys := quotedKeys
    hi := hi }

/-- the configuration of the code as it is now -/
def goCfg (hi : Nat → Bool) : Cfg := goCfgWith Gen.FactsText.ucSigBits Gen.FactsText.ukQuotedPrefix hi

/-! ## printer -/

def kwAbove : Txt := [97, 98, 111, 118, 101]
def kwAfter : Txt := [97, 102, 116, 101, 114]
def kwPk : Txt := [112, 107]
def kwH : Txt := [104]
def kwThresh : Txt := [116, 104, 114, 101, 115, 104]
def kwOpaque : Txt := [111, 112, 97, 113, 117, 101]
def kwUc : Txt := [117, 99]

/-- "0x" ‖ hex -/
def hex0x (b : List UInt8) : Txt := 48 :: 120 :: hexEnc b

def joinKeys (hi : Nat → Bool) : List UnlockKey → Txt
  | [] => []
  | [k] => ukText hi k
  | k :: ks => ukText hi k ++ 44 :: joinKeys hi ks

mutual
  /-- `SpendPolicy.String` -/
  def Policy.str (hi : Nat → Bool) : Policy → Txt
    | .above h => kwAbove ++ 40 :: (natToDec h ++ [41])
    | .after t => kwAfter ++ 40 :: (intToDec t ++ [41])
    | .pk k => kwPk ++ 40 :: (hex0x k ++ [41])
    | .hash h => kwH ++ 40 :: (hex0x h ++ [41])
    | .thresh n ps => kwThresh ++ 40 :: (natToDec n ++ 44 :: 91 :: (PolicyList.str hi ps ++ [93, 41]))
    | .opaque a => kwOpaque ++ 40 :: (hex0x a ++ [41])
    | .uc tl keys sigs =>
      kwUc ++ 40 :: (natToDec tl ++ 44 :: 91 :: (joinKeys hi keys ++ 93 :: 44 :: (natToDec sigs ++ [41])))
  def PolicyList.str (hi : Nat → Bool) : PolicyList → Txt
    | .nil => []
    | .cons p .nil => Policy.str hi p
    | .cons p ps => Policy.str hi p ++ 44 :: PolicyList.str hi ps
end

/-! ## parser -/

/-- remaining input and the sticky error -/
structure St where
  s : Txt
  err : Bool

/-- split at the first byte that belongs to `delims` (`strings.IndexAny`) -/
def splitAny (delims : List UInt8) : Txt → Option (Txt × Txt)
  | [] => none
  | c :: cs =>
    if delims.contains c then some ([], c :: cs)
    else match splitAny delims cs with
      | some (a, b) => some (c :: a, b)
      | none => none

def nextToken (cfg : Cfg) (st : St) : Txt × St :=
  let s := trimSpace st.s
  match splitAny cfg.delims s with
  | none => ([], { st with s := s })
  | some (t, rest) =>
    if st.err then ([], { st with s := s }) else (trimSpace t, { st with s := rest })

def consume (b : UInt8) (st : St) : St :=
  if st.err then st
  else match trimSpace st.s with
    | [] => { s := [], err := true }
    | c :: cs => if c ≠ b then { s := c :: cs, err := true } else { s := cs, err := false }

def peek (st : St) : UInt8 × St :=
  let s := trimSpace st.s
  match s with
  | [] => (0, { st with s := s })
  | c :: _ => (if st.err then 0 else c, { st with s := s })

def parseIntTok (cfg : Cfg) (bits : Nat) (st : St) : Nat × St :=
  let (t, st) := nextToken cfg st
  if st.err then (0, st)
  else match parseUint bits t with
    | some u => (u, st)
    | none => (0, { st with err := true })

def parseTimeTok (cfg : Cfg) (st : St) : Int × St :=
  let (t, st) := nextToken cfg st
  if st.err then (0, st)
  else match parseInt64 t with
    | some u => (u, st)
    | none => (0, { st with err := true })

/-- `parsePubkey`: 66 characters, "0x" prefix, hex -/
def parseHexTok (cfg : Cfg) (st : St) : List UInt8 × St :=
  let (t, st) := nextToken cfg st
  if st.err then ([], st)
  else if t.length ≠ 66 then ([], { st with err := true })
  else match t with
    | 48 :: 120 :: body =>
      match hexDec body with
      | some bs => (bs, st)
      | none => ([], { st with err := true })
    | _ => ([], { st with err := true })

/-- `strconv.QuotedPrefix` of a text starting with '"': the shortest prefix that is a
    valid double-quoted Go string literal, and what follows it.  (The library scans with
    the same `UnquoteChar` loop as `Unquote`; its fast path for escape-free valid UTF-8
    ends at the same closing quote.) -/
def quotedPrefix (s : Txt) : Option (Txt × Txt) :=
  match s with
  | 34 :: rest =>
    match unquoteLoop (rest.length + 1) rest [] with
    | some (_, tail) => some (s.take (s.length - tail.length), tail)
    | none => none
  | _ => none

/-- the closure `parseUnlockKey`.  With `cfg.quotedKeys`: `s = TrimSpace(s)`; if no error
    yet and `s` starts with '"' and has a quoted prefix, that prefix is removed from `s`
    and prepended to the next token.  Without: just the next token. -/
def parseKeyTok (cfg : Cfg) (st : St) : UnlockKey × St :=
  let (quoted, st) : Txt × St :=
    if cfg.quotedKeys then
      let s := trimSpace st.s
      if st.err then ([], { st with s := s })
      else match quotedPrefix s with
        | some (q, r) => (q, { st with s := r })
        | none => ([], { st with s := s })
    else ([], st)
  let (t, st) := nextToken cfg st
  if st.err then (⟨[], []⟩, st)
  else match parseUk cfg.specLen (quoted ++ t) with
    | some uk => (uk, st)
    | none => (⟨[], []⟩, { st with err := true })

/-- the `for err == nil && peek() != ']'` loop of the "uc" case -/
def parseKeys (cfg : Cfg) : Nat → St → List UnlockKey × St
  | 0, st => ([], { st with err := true })
  | f + 1, st =>
    if st.err then ([], st)
    else
      let (c, st) := peek st
      if c = 93 then ([], st)
      else
        let (k, st) := parseKeyTok cfg st
        let (c, st) := peek st
        let st := if c ≠ 93 then consume 44 st else st
        let (ks, st) := parseKeys cfg f st
        (k :: ks, st)

mutual
  /-- the closure `parseSpendPolicy`; fuel bounds the recursion (each call consumes
      at least its '(' or sets the error, so `|s| + 1` is always enough) -/
  def parseSP (cfg : Cfg) : Nat → St → Policy × St
    | 0, st => (.above 0, { st with err := true })
    | f + 1, st =>
      let (typ, st) := nextToken cfg st
      let st := consume 40 st
      let (p, st) : Policy × St :=
        if typ = kwAbove then
          let (u, st) := parseIntTok cfg cfg.aboveBits st
          (.above u, st)
        else if typ = kwAfter then
          let (t, st) := parseTimeTok cfg st
          (.after t, st)
        else if typ = kwPk then
          let (k, st) := parseHexTok cfg st
          (.pk k, st)
        else if typ = kwH then
          let (k, st) := parseHexTok cfg st
          (.hash k, st)
        else if typ = kwThresh then
          let (n, st) := parseIntTok cfg cfg.threshBits st
          let st := consume 44 st
          let st := consume 91 st
          let (ps, st) := parseSPList cfg f st
          let st := consume 93 st
          (.thresh n ps, st)
        else if typ = kwOpaque then
          let (k, st) := parseHexTok cfg st
          (.opaque k, st)
        else if typ = kwUc then
          let (tl, st) := parseIntTok cfg cfg.ucTimelockBits st
          let st := consume 44 st
          let st := consume 91 st
          let (ks, st) := parseKeys cfg (st.s.length + 1) st
          let st := consume 93 st
          let st := consume 44 st
          let (sg, st) := parseIntTok cfg cfg.ucSigBits st
          (.uc tl ks sg, st)
        else (.above 0, { st with err := true })
      (p, consume 41 st)
  /-- the `for err == nil && peek() != ']'` loop of the "thresh" case -/
  def parseSPList (cfg : Cfg) : Nat → St → PolicyList × St
    | 0, st => (.nil, { st with err := true })
    | f + 1, st =>
      if st.err then (.nil, st)
      else
        let (c, st) := peek st
        if c = 93 then (.nil, st)
        else
          let (p, st) := parseSP cfg f st
          let (c, st) := peek st
          let st := if c ≠ 93 then consume 44 st else st
          let (ps, st) := parseSPList cfg f st
          (.cons p ps, st)
end

/-- `types.ParseSpendPolicy`: `none` = an error was returned -/
def parsePolicy (cfg : Cfg) (s : Txt) : Option Policy :=
  let (p, st) := parseSP cfg (s.length + 1) ⟨s, false⟩
  if st.err then none
  else if st.s ≠ [] then none
  else some p

end Sia.Text
