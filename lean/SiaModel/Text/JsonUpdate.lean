/-
  SiaModel.Text.JsonUpdate — the JSON tree of consensus.ApplyUpdate / RevertUpdate
  (applyUpdateJSON / revertUpdateJSON in consensus/application.go) over the
  accumulator model of SiaModel/Merkle/Accumulator.lean.

  Only the accumulator part matters for proof refreshing: `updatedLeaves` and
  `treeGrowth` (JSON objects keyed by tree height, written only for non-empty
  entries, keys sorted as STRINGS by encoding/json), `oldNumLeaves`, `numLeaves`.
  The element diffs in front of them are carried as opaque fields.

  `leafToTree` is `elementLeaf.MarshalJSON` after repair fcf35a3 (leafIndex, merkleProof
  (omitempty), elementHash, spent); `leafToTreeOld` is the encoding before it (only the
  embedded StateElement), decoded by the same `leafOfTree`, which leaves a missing
  elementHash / spent at their zero values.

  `UnmarshalJSON` files every entry under its MAP KEY (`updated[i] = els`); a key
  outside 0..63 is an index-out-of-range panic in Go, `none` here.
-/
import SiaModel.Text.JsonTree
import SiaModel.Merkle.Accumulator

namespace Sia.Text
open Json Sia.ElemAcc

section
variable {H : Type} (encH : H → Json) (decH : Json → Option H) (zero : H)

/-- `elementLeafJSON` -/
def leafToTree (l : Leaf H) : Json :=
  .obj ([(key! "leafIndex", ofNat l.index)] ++ omitEmpty (key! "merkleProof") (l.proof.map encH)
        ++ [(key! "elementHash", encH l.elem), (key! "spent", .bool l.spent)])

/-- the encoding before the repair: the embedded StateElement only -/
def leafToTreeOld (l : Leaf H) : Json :=
  .obj ([(key! "leafIndex", ofNat l.index)] ++ omitEmpty (key! "merkleProof") (l.proof.map encH))

def leafOfTree : Json → Option (Leaf H)
  | .obj fs =>
    match fieldOr fs (key! "leafIndex") 0 (toNatBits 64),
          fieldOr fs (key! "merkleProof") [] (fun j => (toSlice decH j).map (·.getD [])),
          fieldOr fs (key! "elementHash") zero decH, fieldOr fs (key! "spent") false toBool with
    | some i, some p, some e, some s => some ⟨e, s, i, p⟩
    | _, _, _, _ => none
  | .null => some ⟨zero, false, 0, []⟩
  | _ => none

/-- the heights 0..63 in the order encoding/json writes them as map keys
    (sorted as decimal strings: "0","1","10",…,"19","2","20",…) -/
def keyOrder : List Nat :=
  [0, 1, 10, 11, 12, 13, 14, 15, 16, 17, 18, 19, 2, 20, 21, 22, 23, 24, 25, 26, 27, 28, 29,
   3, 30, 31, 32, 33, 34, 35, 36, 37, 38, 39, 4, 40, 41, 42, 43, 44, 45, 46, 47, 48, 49,
   5, 50, 51, 52, 53, 54, 55, 56, 57, 58, 59, 6, 60, 61, 62, 63, 7, 8, 9]

/-- a `map[int][]T` built from a `[64][]T`: only the non-empty entries -/
def mapEntries {α : Type} (enc : α → Json) (f : Nat → List α) : List Nat → List (Txt × Json)
  | [] => []
  | k :: ks =>
    if (f k).isEmpty then mapEntries enc f ks
    else (natToDec k, .arr ((f k).map enc)) :: mapEntries enc f ks

def mapToTree {α : Type} (enc : α → Json) (f : Nat → List α) : Json := .obj (mapEntries enc f keyOrder)

/-- `for i, els := range js.X { arr[i] = els }` -/
def fileEntries {α : Type} (dec : Json → Option α) : List (Txt × Json) → (Nat → List α) → Option (Nat → List α)
  | [], acc => some acc
  | (k, v) :: r, acc =>
    match parseInt64 k, toSlice dec v with
    | some i, some els =>
      if 0 ≤ i ∧ i < 64 then fileEntries dec r (setFn acc i.toNat (els.getD [])) else none
    | _, _ => none

def mapOfTree {α : Type} (dec : Json → Option α) : Json → Option (Nat → List α)
  | .null => some (fun _ => [])
  | .obj es => fileEntries dec es (fun _ => [])
  | _ => none

/-- `ApplyUpdate.MarshalJSON`; `diffs` are the six element-diff fields -/
def applyToTreeWith (leafEnc : Leaf H → Json) (diffs : List (Txt × Json)) (u : ApplyUpdate H) : Json :=
  .obj (diffs ++ [(key! "updatedLeaves", mapToTree leafEnc u.updated), (key! "treeGrowth", mapToTree encH u.growth),
                  (key! "oldNumLeaves", ofNat u.oldNumLeaves), (key! "numLeaves", ofNat u.numLeaves)])

def applyToTree (diffs : List (Txt × Json)) (u : ApplyUpdate H) : Json :=
  applyToTreeWith encH (leafToTree encH) diffs u

def applyToTreeOld (diffs : List (Txt × Json)) (u : ApplyUpdate H) : Json :=
  applyToTreeWith encH (leafToTreeOld encH) diffs u

def applyOfTree : Json → Option (ApplyUpdate H)
  | .obj fs =>
    match fieldOr fs (key! "updatedLeaves") (fun _ => []) (mapOfTree (leafOfTree decH zero)),
          fieldOr fs (key! "treeGrowth") (fun _ => []) (mapOfTree decH),
          fieldOr fs (key! "oldNumLeaves") 0 (toNatBits 64), fieldOr fs (key! "numLeaves") 0 (toNatBits 64) with
    | some upd, some g, some o, some n => some ⟨upd, g, o, n⟩
    | _, _, _, _ => none
  | .null => some ⟨fun _ => [], fun _ => [], 0, 0⟩
  | _ => none

/-- `RevertUpdate.MarshalJSON` -/
def revertToTreeWith (leafEnc : Leaf H → Json) (diffs : List (Txt × Json)) (u : RevertUpdate H) : Json :=
  .obj (diffs ++ [(key! "updatedLeaves", mapToTree leafEnc u.updated), (key! "numLeaves", ofNat u.numLeaves)])

def revertToTree (diffs : List (Txt × Json)) (u : RevertUpdate H) : Json :=
  revertToTreeWith (leafToTree encH) diffs u

def revertToTreeOld (diffs : List (Txt × Json)) (u : RevertUpdate H) : Json :=
  revertToTreeWith (leafToTreeOld encH) diffs u

def revertOfTree : Json → Option (RevertUpdate H)
  | .obj fs =>
    match fieldOr fs (key! "updatedLeaves") (fun _ => []) (mapOfTree (leafOfTree decH zero)),
          fieldOr fs (key! "numLeaves") 0 (toNatBits 64) with
    | some upd, some n => some ⟨upd, n⟩
    | _, _ => none
  | .null => some ⟨fun _ => [], 0⟩
  | _ => none

end

/-- what the seeded "hardening" does instead of filing by key: regroup the decoded
    leaves by the length of their proof (kept to state why it is wrong) -/
def regroupByProofLength {H : Type} (f : Nat → List (Leaf H)) : Nat → List (Leaf H) :=
  fun h => (keyOrder.map f).flatten.filter (fun l => l.proof.length == h)

end Sia.Text
