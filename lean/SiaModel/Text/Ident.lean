/-
  SiaModel.Text.Ident — text forms of the identifier types (C20):
  Hash256 / BlockID / TransactionID / … / Signature (plain hex, exact length),
  Address (hex of 32 bytes + 6-byte checksum), PublicKey and rhp Account
  ("ed25519:" prefix forms), ChainIndex ("<height>::<id>"), rhp/v4
  ProtocolVersion ("v%d.%d.%d"), consensus.Work (decimal).

  Constants that the Go code spells out (prefix, checksum length, sizes) are
  parameters of the definitions; `Sia.Text.goIds` instantiates them from the
  facts generated out of the source (`SiaModel.Gen.FactsText`).
-/
import SiaModel.Text.Basic
import SiaModel.Prim.Blake2b

namespace Sia.Text

/-- outcome of a Go text parser: value, error return, or run-time panic -/
inductive Res (α : Type) where
  | ok (v : α)
  | err
  | panic
  deriving Repr, DecidableEq

def Res.ofOption {α} : Option α → Res α
  | some v => .ok v
  | none => .err

def Res.isOk {α} : Res α → Bool
  | .ok _ => true
  | _ => false

/-! ## Address -/

/-- `types.HashBytes` on a byte list (real BLAKE2b-256) -/
def hashBytes (b : List UInt8) : List UInt8 := (Sia.blake2b256 ⟨b.toArray⟩).data.toList

/-- `Address.String`: hex(addr ‖ H(addr)[:ck]) — stated for an arbitrary hash `H`
    so that theorems do not depend on BLAKE2b internals. -/
def addrStringH (H : List UInt8 → List UInt8) (ck : Nat) (a : List UInt8) : Txt :=
  hexEnc (a ++ (H a).take ck)

/-- `Address.UnmarshalText`: length must be 2*(n+ck); hex; checksum must match. -/
def parseAddrH (H : List UInt8 → List UInt8) (n ck : Nat) (t : Txt) : Option (List UInt8) :=
  if t.length ≠ (n + ck) * 2 then none
  else match hexDec t with
    | none => none
    | some w =>
      if w.length ≠ n + ck then none
      else if (H (w.take n)).take ck = w.drop n then some (w.take n) else none

/-! ## PublicKey / Account -/

/-- `PublicKey.String`: prefix ‖ hex -/
def pkString (pfx : Txt) (k : List UInt8) : Txt := pfx ++ hexEnc k

/-- `PublicKey.UnmarshalText`: `alg` is the prefix without its trailing ':' -/
def parsePk (alg : Txt) (n : Nat) (t : Txt) : Option (List UInt8) :=
  match splitFirst 58 t with
  | none => none
  | some (a, rest) => if a = alg then unmarshalHex n rest else none

/-- rhp/v4 `Account.UnmarshalText`: `hex.Decode(a[:], bytes.TrimPrefix(b, pfx))`, short
    input → ErrUnexpectedEOF.  `guard` says whether the source checks the length of the
    hex text before decoding (generated fact `acct4HexGuarded`; as found: no, so an
    over-long text is a run-time panic; with a guard it is an error). -/
def parseAccount4 (guard : Bool) (pfx : Txt) (n : Nat) (t : Txt) : Res (List UInt8) :=
  let body := match stripPrefix pfx t with
    | some r => r
    | none => t
  match hexDecodeInto n body [] with
  | .ok bs => if bs.length < n then .err else .ok bs
  | .err => .err
  | .panic => if guard then .err else .panic

/-! ## ChainIndex -/

structure ChainIndex where
  height : Nat
  id : List UInt8
  deriving Repr, DecidableEq

/-- `ChainIndex.MarshalText`: "%d::%x" -/
def ciText (ci : ChainIndex) : Txt := natToDec ci.height ++ [58, 58] ++ hexEnc ci.id

/-- `ChainIndex.String`: "%d::%x" with the last 4 bytes of the id -/
def ciString (ci : ChainIndex) : Txt :=
  natToDec ci.height ++ [58, 58] ++ hexEnc (ci.id.drop (ci.id.length - 4))

/-- split at the first "::" -/
def splitSep : Txt → Option (Txt × Txt)
  | [] => none
  | [_] => none
  | a :: b :: rest =>
    if a == 58 ∧ b == 58 then some ([], rest)
    else match splitSep (b :: rest) with
      | some (x, y) => some (a :: x, y)
      | none => none

/-- `ChainIndex.UnmarshalText`: exactly one "::" (bytes.Split gives two parts),
    ParseUint(…,10,64), then hex.Decode into the 32-byte id — unguarded as found
    (`guard = false`, generated fact `ciHexGuarded`): an over-long id panics. -/
def parseCi (guard : Bool) (n : Nat) (t : Txt) : Res ChainIndex :=
  match splitSep t with
  | none => .err
  | some (a, b) =>
    match splitSep b with
    | some _ => .err
    | none =>
      match parseUint 64 a with
      | none => .err
      | some h =>
        match hexDecodeInto n b [] with
        | .ok bs => if bs.length < n then .err else .ok ⟨h, bs⟩
        | .err => .err
        | .panic => if guard then .err else .panic

/-! ## rhp/v4 ProtocolVersion -/

/-- `ProtocolVersion.String`: "v%d.%d.%d" -/
def versionText (a b c : Nat) : Txt :=
  118 :: (natToDec a ++ 46 :: (natToDec b ++ 46 :: natToDec c))

/-- fmt's SkipSpace inside Sscanf (newline is an error, other ASCII blanks are skipped);
    Unicode blanks are outside the model. -/
def scanSkip : Txt → Option Txt
  | [] => some []
  | c :: cs => if c == 10 then none else if isSpace c then scanSkip cs else some (c :: cs)

def takeNum : Txt → Txt × Txt
  | [] => ([], [])
  | c :: cs => if isDigit c then
      let (a, b) := takeNum cs; (c :: a, b)
    else ([], c :: cs)

/-- `%d` into a `*uint8`: skip blanks, a non-empty run of decimal digits (no sign,
    no underscore — those belong to `%v`), ParseUint, must fit 8 bits -/
def scanU8 (t : Txt) : Option (Nat × Txt) :=
  match scanSkip t with
  | none => none
  | some t =>
    let (tok, rest) := takeNum t
    match parseUint 64 tok with
    | some v => if v < 256 then some (v, rest) else none
    | none => none

def expect (c : UInt8) : Txt → Option Txt
  | [] => none
  | x :: xs => if x == c then some xs else none

/-- `fmt.Sscanf(s, "v%d.%d.%d", &v[0], &v[1], &v[2])`; trailing input is ignored -/
def parseVersion (t : Txt) : Option (Nat × Nat × Nat) :=
  match expect 118 t with
  | none => none
  | some t =>
  match scanU8 t with
  | none => none
  | some (a, t) =>
  match expect 46 t with
  | none => none
  | some t =>
  match scanU8 t with
  | none => none
  | some (b, t) =>
  match expect 46 t with
  | none => none
  | some t =>
  match scanU8 t with
  | none => none
  | some (c, _) => some (a, b, c)

/-! ## consensus.Work -/

/-- `Work.String` / `MarshalText`: decimal of the 256-bit big-endian number -/
def workText (n : Nat) : Txt := natToDec n

/-- `Work.UnmarshalText` restricted to plain decimal input without sign, prefix
    or underscore (big.Int's base-0 scanner accepts more; outside the model). -/
def parseWork (t : Txt) : Option Nat :=
  if t = [] then none
  else match parseDigits t 0 with
    | some v => if v < 2 ^ 256 then some v else none
    | none => none

end Sia.Text
