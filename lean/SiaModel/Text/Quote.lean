/-
  SiaModel.Text.Quote — `types.Specifier` and `types.UnlockKey` text forms (C20).

  Specifier.String trims trailing zero bytes and, if any byte is not ASCII
  alphanumeric, returns `strconv.Quote` of the rest; UnmarshalText undoes this with
  `strconv.Unquote` when the text starts with '"'.  Modelled here:
  * unicode/utf8 `DecodeRuneInString` and `AppendRune` (arithmetic form of the masks),
  * `strconv.Quote` (`appendQuotedWith` / `appendEscapedRune`, quote = '"'),
  * `strconv.Unquote` for a '"'-quoted string: the general `UnquoteChar` loop.  The
    library's fast path (no backslash, no newline, valid UTF-8 → return the contents)
    yields the same value as the loop and is not modelled separately.
  `unicode.IsPrint` above U+00FF is a table lookup in Go; the model takes it as a
  parameter `hi : Nat → Bool` (the round-trip theorem holds for every `hi`; the
  driver is told by the harness which runes of the input Go considers printable).
-/
import SiaModel.Text.Basic

namespace Sia.Text

def runeError : Nat := 65533

def validRune (r : Nat) : Bool := r < 0xD800 ∨ (0xE000 ≤ r ∧ r ≤ 0x10FFFF)

def isCont (b : UInt8) : Bool := 0x80 ≤ b.toNat ∧ b.toNat ≤ 0xBF

/-- `utf8.DecodeRuneInString`: (rune, width); invalid or short encodings give
    (RuneError, 1), the empty string (RuneError, 0). -/
def decodeRune : Txt → Nat × Nat
  | [] => (runeError, 0)
  | b0 :: rest =>
    let n0 := b0.toNat
    if n0 < 0x80 then (n0, 1)
    else if n0 < 0xC2 then (runeError, 1)
    else if n0 < 0xE0 then
      match rest with
      | b1 :: _ => if isCont b1 then ((n0 % 32) * 64 + b1.toNat % 64, 2) else (runeError, 1)
      | _ => (runeError, 1)
    else if n0 < 0xF0 then
      match rest with
      | b1 :: b2 :: _ =>
        let lo := if n0 = 0xE0 then 0xA0 else 0x80
        let hi := if n0 = 0xED then 0x9F else 0xBF
        if lo ≤ b1.toNat ∧ b1.toNat ≤ hi ∧ isCont b2 then
          ((n0 % 16) * 4096 + (b1.toNat % 64) * 64 + b2.toNat % 64, 3)
        else (runeError, 1)
      | _ => (runeError, 1)
    else if n0 < 0xF5 then
      match rest with
      | b1 :: b2 :: b3 :: _ =>
        let lo := if n0 = 0xF0 then 0x90 else 0x80
        let hi := if n0 = 0xF4 then 0x8F else 0xBF
        if lo ≤ b1.toNat ∧ b1.toNat ≤ hi ∧ isCont b2 ∧ isCont b3 then
          ((n0 % 8) * 262144 + (b1.toNat % 64) * 4096 + (b2.toNat % 64) * 64 + b3.toNat % 64, 4)
        else (runeError, 1)
      | _ => (runeError, 1)
    else (runeError, 1)

/-- `utf8.AppendRune` -/
def encodeRune (r : Nat) : Txt :=
  if r < 0x80 then [UInt8.ofNat r]
  else if r < 0x800 then [UInt8.ofNat (0xC0 + r / 64), UInt8.ofNat (0x80 + r % 64)]
  else if !validRune r then [0xEF, 0xBF, 0xBD]
  else if r < 0x10000 then
    [UInt8.ofNat (0xE0 + r / 4096), UInt8.ofNat (0x80 + (r / 64) % 64), UInt8.ofNat (0x80 + r % 64)]
  else
    [UInt8.ofNat (0xF0 + r / 262144), UInt8.ofNat (0x80 + (r / 4096) % 64),
     UInt8.ofNat (0x80 + (r / 64) % 64), UInt8.ofNat (0x80 + r % 64)]

/-- `strconv.IsPrint`; `hi` answers for runes above U+00FF -/
def isPrint (hi : Nat → Bool) (r : Nat) : Bool :=
  if r < 0x100 then (0x20 ≤ r ∧ r < 0x7F) ∨ (0xA1 ≤ r ∧ r ≠ 0xAD) else hi r

def hex2 (b : Nat) : Txt := [hexDigit (b / 16 % 16), hexDigit (b % 16)]
def hex4 (r : Nat) : Txt := hex2 (r / 256) ++ hex2 r
def hex8 (r : Nat) : Txt := hex4 (r / 65536) ++ hex4 r

/-- `appendEscapedRune` with quote '"', ASCIIonly = graphicOnly = false -/
def escRune (hi : Nat → Bool) (r : Nat) : Txt :=
  if r = 34 ∨ r = 92 then [92, UInt8.ofNat r]
  else if isPrint hi r then encodeRune r
  else if r = 7 then [92, 97]
  else if r = 8 then [92, 98]
  else if r = 12 then [92, 102]
  else if r = 10 then [92, 110]
  else if r = 13 then [92, 114]
  else if r = 9 then [92, 116]
  else if r = 11 then [92, 118]
  else if r < 32 ∨ r = 127 then 92 :: 120 :: hex2 r
  else if !validRune r then 92 :: 117 :: hex4 runeError
  else if r < 0x10000 then 92 :: 117 :: hex4 r
  else 92 :: 85 :: hex8 r

def quoteBody (hi : Nat → Bool) : Nat → Txt → Txt
  | 0, _ => []
  | _ + 1, [] => []
  | f + 1, b :: rest =>
    let (r, w) := decodeRune (b :: rest)
    if w = 1 ∧ r = runeError then 92 :: 120 :: (hex2 b.toNat ++ quoteBody hi f rest)
    else escRune hi r ++ quoteBody hi f ((b :: rest).drop w)

/-- `strconv.Quote` -/
def quote (hi : Nat → Bool) (s : Txt) : Txt := 34 :: (quoteBody hi s.length s ++ [34])

/-- `n` hex digits, most significant first (`unhex` accepts either case) -/
def readHexN : Nat → Txt → Nat → Option (Nat × Txt)
  | 0, t, acc => some (acc, t)
  | _ + 1, [], _ => none
  | n + 1, c :: cs, acc =>
    match hexVal c with
    | some v => readHexN n cs (acc * 16 + v)
    | none => none

def octVal (c : UInt8) : Option Nat := if 48 ≤ c.toNat ∧ c.toNat ≤ 55 then some (c.toNat - 48) else none

/-- `strconv.UnquoteChar(s, '"')`: (value, multibyte, tail) -/
def unquoteChar : Txt → Option (Nat × Bool × Txt)
  | [] => none
  | c :: rest =>
    if c = 34 then none
    else if c.toNat ≥ 0x80 then
      let (r, w) := decodeRune (c :: rest)
      some (r, true, (c :: rest).drop w)
    else if c ≠ 92 then some (c.toNat, false, rest)
    else match rest with
      | [] => none
      | e :: s =>
        if e = 97 then some (7, false, s)
        else if e = 98 then some (8, false, s)
        else if e = 102 then some (12, false, s)
        else if e = 110 then some (10, false, s)
        else if e = 114 then some (13, false, s)
        else if e = 116 then some (9, false, s)
        else if e = 118 then some (11, false, s)
        else if e = 120 then
          match readHexN 2 s 0 with
          | some (v, t) => some (v, false, t)
          | none => none
        else if e = 117 ∨ e = 85 then
          match readHexN (if e = 117 then 4 else 8) s 0 with
          | some (v, t) => if validRune v then some (v, true, t) else none
          | none => none
        else if 48 ≤ e.toNat ∧ e.toNat ≤ 55 then
          match s with
          | d1 :: d2 :: t =>
            match octVal d1, octVal d2 with
            | some a, some b =>
              let v := ((e.toNat - 48) * 8 + a) * 8 + b
              if v > 255 then none else some (v, false, t)
            | _, _ => none
          | _ => none
        else if e = 92 then some (92, false, s)
        else if e = 34 then some (34, false, s)
        else none

/-- the loop of `strconv.unquote` after the opening quote; returns the bytes and
    what follows the closing quote -/
def unquoteLoop : Nat → Txt → List UInt8 → Option (List UInt8 × Txt)
  | 0, _, _ => none
  | _ + 1, [], _ => none
  | f + 1, c :: rest, acc =>
    if c = 34 then some (acc, rest)
    else if c = 10 then none
    else match unquoteChar (c :: rest) with
      | none => none
      | some (r, multibyte, tail) =>
        let out := if r < 0x80 ∨ !multibyte then [UInt8.ofNat r] else encodeRune r
        unquoteLoop f tail (acc ++ out)

/-- `strconv.Unquote` of a text starting with '"' -/
def unquote (t : Txt) : Option (List UInt8) :=
  match t with
  | 34 :: rest =>
    match unquoteLoop (rest.length + 1) rest [] with
    | some (out, []) => some out
    | _ => none
  | _ => none

/-! ## Specifier -/

def isAlnum (c : UInt8) : Bool :=
  (65 ≤ c.toNat ∧ c.toNat ≤ 90) ∨ (97 ≤ c.toNat ∧ c.toNat ≤ 122) ∨ (48 ≤ c.toNat ∧ c.toNat ≤ 57)

def dropZeros : List UInt8 → List UInt8
  | [] => []
  | c :: cs => if c = 0 then dropZeros cs else c :: cs

/-- `bytes.TrimRight(s[:], "\x00")` -/
def trimZeros (s : List UInt8) : List UInt8 := (dropZeros s.reverse).reverse

/-- `Specifier.String`.  Go ranges over the runes of the trimmed text; a rune is
    alphanumeric iff it is a single alphanumeric byte, so "some rune is not
    alphanumeric" is "some byte is not alphanumeric". -/
def specString (hi : Nat → Bool) (s : List UInt8) : Txt :=
  let b := trimZeros s
  if b.all isAlnum then b else quote hi b

/-- `Specifier.UnmarshalText` into a zero specifier of `n` bytes -/
def parseSpec (n : Nat) (t : Txt) : Option (List UInt8) :=
  let body := match t with
    | 34 :: _ => unquote t
    | _ => some t
  match body with
  | none => none
  | some b => if b.length > n then none else some (b ++ List.replicate (n - b.length) 0)

/-! ## UnlockKey -/

structure UnlockKey where
  alg : List UInt8
  key : List UInt8
  deriving Repr, DecidableEq

/-- `UnlockKey.MarshalText` -/
def ukText (hi : Nat → Bool) (uk : UnlockKey) : Txt := specString hi uk.alg ++ 58 :: hexEnc uk.key

/-- `UnlockKey.UnmarshalText` -/
def parseUk (n : Nat) (t : Txt) : Option UnlockKey :=
  match splitLast 58 t with
  | none => none
  | some (a, k) =>
    match parseSpec n a with
    | none => none
    | some alg =>
      match hexDec k with
      | none => none
      | some key => some ⟨alg, key⟩

end Sia.Text
