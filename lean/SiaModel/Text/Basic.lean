/-
  SiaModel.Text.Basic — byte-string text primitives used by the text forms of
  types/types.go, types/policy.go, rhp/v4/rhp.go (C20).

  Go strings are byte strings, so text is `List UInt8`.  Everything is total,
  structurally recursive (fuel where Go loops on a shrinking value) and core-only.
  Modelled library functions (trusted, exercised by the correspondence run):
  encoding/hex (EncodeToString, Decode), strconv (FormatUint, FormatInt, ParseUint,
  ParseInt in base 10), bytes/strings (TrimSpace on ASCII, IndexByte, LastIndexByte,
  Split on "::", TrimPrefix).
-/
namespace Sia.Text

abbrev Txt := List UInt8

/-- text of an ASCII string literal (convenience for the driver and examples) -/
def ofString (s : String) : Txt := s.toUTF8.data.toList

/-! ## encoding/hex -/

/-- lowercase hex digit of a nibble `n < 16` -/
def hexDigit (n : Nat) : UInt8 := if n < 10 then UInt8.ofNat (48 + n) else UInt8.ofNat (87 + n)

/-- `hex.EncodeToString` -/
def hexEnc : List UInt8 → Txt
  | [] => []
  | b :: bs => hexDigit (b.toNat / 16) :: hexDigit (b.toNat % 16) :: hexEnc bs

/-- value of a hex digit, either case (`reverseHexTable`) -/
def hexVal (c : UInt8) : Option Nat :=
  let n := c.toNat
  if 48 ≤ n ∧ n ≤ 57 then some (n - 48)
  else if 97 ≤ n ∧ n ≤ 102 then some (n - 87)
  else if 65 ≤ n ∧ n ≤ 70 then some (n - 55)
  else none

def isHex (c : UInt8) : Bool := (hexVal c).isSome

/-- `hex.Decode` into a buffer that is large enough: `none` on any error
    (odd length, non-hex byte). -/
def hexDec : Txt → Option (List UInt8)
  | [] => some []
  | [_] => none
  | h :: l :: rest =>
    match hexVal h, hexVal l with
    | some a, some b =>
      match hexDec rest with
      | some bs => some (UInt8.ofNat (a * 16 + b) :: bs)
      | none => none
    | _, _ => none

/-- ASCII lower-casing of A–F (for stating canonicity of accepted hex) -/
def lowerHex (c : UInt8) : UInt8 := if 65 ≤ c.toNat ∧ c.toNat ≤ 70 then UInt8.ofNat (c.toNat + 32) else c

/-- `types.unmarshalHex(dst[:n], data)`: too long → error; decode error → error;
    fewer than `n` bytes → io.ErrUnexpectedEOF. -/
def unmarshalHex (n : Nat) (data : Txt) : Option (List UInt8) :=
  if data.length > 2 * n then none
  else match hexDec data with
    | some bs => if bs.length < n then none else some bs
    | none => none

/-- Result of `hex.Decode(dst[:n], src)` when nothing guards the length of `src`
    (ChainIndex.UnmarshalText, rhp/v4 Account.UnmarshalText): writing past `dst`
    is a Go run-time panic (index out of range), reported before any later error. -/
inductive HexRes where
  | ok (bs : List UInt8)
  | err
  | panic
  deriving Repr, DecidableEq

/-- walk `src` pairwise like `hex.Decode`; `room` = remaining capacity of dst -/
def hexDecodeInto : Nat → Txt → List UInt8 → HexRes
  | _, [], acc => .ok acc.reverse
  | _, [_], _ => .err
  | room, h :: l :: rest, acc =>
    match hexVal h, hexVal l with
    | some a, some b =>
      match room with
      | 0 => .panic
      | room + 1 => hexDecodeInto room rest (UInt8.ofNat (a * 16 + b) :: acc)
    | _, _ => .err

/-! ## strconv, base 10 -/

def digitChar (d : Nat) : UInt8 := UInt8.ofNat (48 + d)

/-- decimal digits of `n`, least significant first (`fuel > n` suffices) -/
def revDigits : Nat → Nat → List Nat
  | 0, _ => []
  | f + 1, n => if n < 10 then [n] else (n % 10) :: revDigits f (n / 10)

/-- `strconv.FormatUint(n, 10)` -/
def natToDec (n : Nat) : Txt := ((revDigits (n + 1) n).reverse).map digitChar

/-- `strconv.FormatInt(i, 10)` -/
def intToDec (i : Int) : Txt :=
  if i < 0 then 45 :: natToDec i.natAbs else natToDec i.natAbs

def isDigit (c : UInt8) : Bool := 48 ≤ c.toNat ∧ c.toNat ≤ 57

def parseDigits : Txt → Nat → Option Nat
  | [], acc => some acc
  | c :: cs, acc => if isDigit c then parseDigits cs (acc * 10 + (c.toNat - 48)) else none

/-- `strconv.ParseUint(t, 10, bits)`: `none` for "", a non-digit, or a value ≥ 2^bits. -/
def parseUint (bits : Nat) (t : Txt) : Option Nat :=
  if t = [] then none
  else match parseDigits t 0 with
    | some v => if v < 2 ^ bits then some v else none
    | none => none

/-- `strconv.ParseInt(t, 10, 64)` -/
def parseInt64 (t : Txt) : Option Int :=
  match t with
  | [] => none
  | c :: cs =>
    let neg := c == 45
    let body := if c == 43 ∨ c == 45 then cs else t
    match parseUint 64 body with
    | none => none
    | some u =>
      if !neg ∧ u ≥ 2 ^ 63 then none
      else if neg ∧ u > 2 ^ 63 then none
      else some (if neg then -(Int.ofNat u) else Int.ofNat u)

/-! ## bytes / strings helpers -/

/-- ASCII white space as trimmed by `strings.TrimSpace` ('\t' '\n' '\v' '\f' '\r' ' ').
    Unicode spaces (U+0085, U+00A0, …) at the ends are outside the model. -/
def isSpace (c : UInt8) : Bool := c == 32 ∨ (9 ≤ c.toNat ∧ c.toNat ≤ 13)

def trimLeft : Txt → Txt
  | [] => []
  | c :: cs => if isSpace c then trimLeft cs else c :: cs

def trimRight (t : Txt) : Txt := (trimLeft t.reverse).reverse

def trimSpace (t : Txt) : Txt := trimRight (trimLeft t)

/-- `bytes.IndexByte` as a split: text before the first `c`, text after it -/
def splitFirst (c : UInt8) : Txt → Option (Txt × Txt)
  | [] => none
  | x :: xs => if x == c then some ([], xs) else
    match splitFirst c xs with
    | some (a, b) => some (x :: a, b)
    | none => none

/-- `bytes.LastIndexByte` as a split -/
def splitLast (c : UInt8) (t : Txt) : Option (Txt × Txt) :=
  match splitFirst c t.reverse with
  | some (a, b) => some (b.reverse, a.reverse)
  | none => none

def stripPrefix (p t : Txt) : Option Txt :=
  match p, t with
  | [], t => some t
  | _ :: _, [] => none
  | a :: p, b :: t => if a == b then stripPrefix p t else none

end Sia.Text
