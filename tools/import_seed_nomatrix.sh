#!/bin/sh
# tools/import_seed_nomatrix.sh <scratch-prefix> <id> <slug> [batch-label] — as import_seed.sh, without running the matrix
pre="$1"; id="$2"; slug="$3"; label="${4:-later batch}"
cd "$(dirname "$0")/.."
wt="$pre$id"; out="$pre$id-out"
[ -f "$out/patch.diff" ] || { echo "no $out/patch.diff"; exit 2; }
v=$(tools/verify_seed.sh "$wt" "$out" 2>&1 | tail -3)
echo "$v" | cut -c1-200
echo "$v" | grep -q "suite with change: ok" || { echo "NOT IMPORTED: suite fails with the change"; exit 1; }
echo "$v" | grep "demo WITH change" | grep -q FAIL || { echo "NOT IMPORTED: demo does not fail with the change"; exit 1; }
echo "$v" | grep "demo WITHOUT change" | grep -q FAIL && { echo "NOT IMPORTED: demo fails without the change"; exit 1; }
d="seeded/$id-$slug"; mkdir -p "$d"; cp -r "$out"/* "$d"/
jq --arg o "$label: independent sub-agent given only the property text; verified by tools/verify_seed.sh (suite ok with change; demo fails with / passes without)" '. + {origin:$o}' "$d/meta.json" > "$d/meta.tmp" && mv "$d/meta.tmp" "$d/meta.json"
git -C /repo worktree remove --force "$wt"; rm -rf "$out" "$pre$id.patch"
echo "IMPORTED $id-$slug"
