#!/usr/bin/env python3
"""Regenerate /verif/MANIFEST.json from props.d/*.json (claimed checks) and properties.jsonl."""
import json, os, subprocess, sys
SKIP = set(sys.argv[1].split(",")) if len(sys.argv) > 1 else set()
ROOT = os.path.dirname(os.path.dirname(os.path.abspath(__file__)))
props = [json.loads(l) for l in open(os.path.join(ROOT, "properties.jsonl"))]
claimed = {}
for fn in sorted(os.listdir(os.path.join(ROOT, "props.d"))):
    pid = fn[:-5]
    if fn.endswith(".json") and pid not in SKIP and any(p["id"] == pid for p in props):
        claimed[pid] = json.load(open(os.path.join(ROOT, "props.d", fn)))
hooks = subprocess.run(["git", "-C", "/repo", "log", "--format=%H %s"], capture_output=True, text=True).stdout.splitlines()
hook_commits = [l.split()[0] for l in hooks if " verif hook" in l]
man = {
    "version": 1,
    "setup_cmd": "./setup.sh",
    "hooks": {
        "guard": "verif",
        "enable": "go build -tags verif (harness module /verif/harness with `replace go.sia.tech/core => /repo`); hook files are /repo/<pkg>/verif_*.go, all `//go:build verif`, add-only",
        "baseline_off_cmd": "cd /repo && go test -vet=off -count=1 ./...",
        "source_commits": hook_commits,
        "add_only": True,
    },
    "engines": [{
        "name": "lean-proof+correspondence",
        "path": "/verif/check",
        "serves_properties": sorted(claimed),
        "kind_free_text": "Lean 4 theorems about (a) definitions/facts regenerated from the Go source on every run by /verif/extract and (b) hand-written executable models; a Go harness built against /repo (-tags verif) runs the real code against the compiled Lean model (line protocol) and against a statement-level oracle; a broken proof/tie/correspondence triggers a search for a concrete failing input",
    }],
    "checks": [],
    "not_applicable": [],
    "notes": "See DESIGN.md and FRAMEWORK.md. ./check <id> quick|thorough [--replay <file>]. known_findings.txt lists repaired defects (fixed:) and recorded findings (known:).",
}
allcfg = {fn[:-5]: json.load(open(os.path.join(ROOT, "props.d", fn))) for fn in os.listdir(os.path.join(ROOT, "props.d")) if fn.endswith(".json")}
for p in props:
    pid = p["id"]
    if pid in claimed:
        cfg = claimed[pid]
        for sub in cfg.get("includes", []):
            cfg["assumptions"] = cfg.get("assumptions", []) + [f"[{sub}] " + a for a in allcfg[sub].get("assumptions", [])]
        man["checks"].append({
            "property_id": pid,
            "quick_cmd": f"./check {pid} quick",
            "thorough_cmd": f"./check {pid} thorough",
            "evidence_file": f"/verif/evidence/{pid}.json",
            "replay_cmd_template": f"./check {pid} quick --replay {{path}}",
            "engine": "lean-proof+correspondence",
            "level_claimed": {
                "category": cfg.get("level", "proof"),
                "text": cfg.get("level_text", "Lean 4 theorems (kernel-checked, axioms ⊆ propext/Classical.choice/Quot.sound, no sorry) about a model tied to the current source by regeneration and/or by running model and implementation on the same generated inputs; see evidence for the theorem list"),
                "design_ref": f"DESIGN.md §6 {pid}",
            },
            "level_note": cfg.get("level_note", "; ".join(cfg.get("assumptions", [])) or "see DESIGN.md §5 (trusted base)"),
            "technique": cfg.get("technique", "Lean 4 proof over a model tied by translation/correspondence"),
        })
    else:
        man["not_applicable"].append({"property_id": pid, "reason": "check not built yet in this session (planned with the same technique; see DESIGN.md §6 " + pid + ")"})
json.dump(man, open(os.path.join(ROOT, "MANIFEST.json"), "w"), indent=1)
print("claimed:", sorted(claimed))
