#!/bin/sh
# tools/verify_seed.sh <worktree-with-change-and-demo> <out-dir-with-patch.diff+meta.json>
# Independent verification of a seeded change: suite green with the change, demo fails with it and passes without.
wt="$1"; out="$2"
export GOFLAGS=-mod=mod GOPROXY=off
cd "$wt" || exit 2
demo=$(jq -r '.demonstration.file' "$out/meta.json"); tags=$(jq -r '.demonstration.build_tags // "seeddemo"' "$out/meta.json")
[ -z "$tags" ] && tags=seeddemo
f=$(find . -name "$(basename "$demo")" | head -1); dir=$(dirname "$f")
echo "demo file: $f (tags $tags)"
git apply -R --check "$out/patch.diff" 2>/dev/null || { echo "patch not applied in worktree?"; }
go build ./... || { echo "BUILD FAILS"; exit 1; }
suite=$(go test -vet=off -count=1 ./... 2>&1 | grep -v "^ok\|no test files" | head -5)
[ -z "$suite" ] && echo "suite with change: ok" || echo "suite with change: FAIL: $suite"
if [ -f "$dir/go.mod" ]; then run="cd $dir && go test -tags $tags -count=1 ./..."; else run="go test -vet=off -tags $tags -count=1 -run 'Seed' $dir"; fi
with=$(sh -c "$run" 2>&1 | tail -3 | tr '\n' ' ')
git apply -R "$out/patch.diff" || { echo "cannot reverse"; exit 1; }
without=$(sh -c "$run" 2>&1 | tail -3 | tr '\n' ' ')
git apply "$out/patch.diff"
echo "demo WITH change:    $with"
echo "demo WITHOUT change: $without"
