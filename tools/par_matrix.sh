#!/bin/sh
# tools/par_matrix.sh <workers> <seed-dir-name>... — seed_matrix.sh over private copies of the framework, in parallel
# (a check run regenerates lean/SiaModel/Gen from the patched checkout, so two runs cannot share one copy).
# result.json of every seed is copied back into seeded/<name>/; exit 1 if a seed is missed.
cd "$(dirname "$0")/.."
V=$(pwd); W="$1"; shift
[ -z "$1" ] && { echo "usage: par_matrix.sh <workers> <seed>..."; exit 2; }
i=0; for n in "$@"; do k=$((i % W)); eval "set$k=\"\$set$k $n\""; i=$((i+1)); done
rc=0; rm -f /var/tmp/pm*.log
for k in $(seq 0 $((W-1))); do
  eval "names=\$set$k"; [ -z "$names" ] && continue
  (
    c=/var/tmp/pm$k; rm -rf $c; mkdir -p $c
    rsync -a --exclude .git --exclude seeded --exclude replays --exclude work "$V/" $c/verif/ 2>/dev/null
    mkdir -p $c/verif/seeded $c/verif/work
    for n in $names; do cp -r "$V/seeded/$n" $c/verif/seeded/; done
    (cd $c/verif/extract && go build -o ../bin/extract .) >/dev/null 2>&1
    $c/verif/tools/seed_matrix.sh $names > /var/tmp/pm$k.log 2>&1
    for n in $names; do cp $c/verif/seeded/$n/result.json "$V/seeded/$n/result.json" 2>/dev/null; done
    rm -rf $c
  ) &
done
wait
cat /var/tmp/pm*.log 2>/dev/null | cut -c1-260
grep -q "MISSED" /var/tmp/pm*.log 2>/dev/null && rc=1
exit $rc
