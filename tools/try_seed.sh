#!/bin/sh
# tools/try_seed.sh <worktree-with-change-applied> <check-id>...   — run checks against a scratch checkout
# (VERIF_REPO makes extract AND the harness build use that checkout instead of /repo)
wt="$1"; shift
for id in "$@"; do
  echo "=== $id against $wt"
  VERIF_REPO="$wt" /verif/check "$id" quick 2>/dev/null | grep -E "^(VIOLATION|KNOWN-FINDING|C[0-9]+ )" | cut -c1-300
done
# restore generated files for /repo
/verif/bin/extract -repo /repo > /dev/null 2>&1
