#!/bin/sh
# tools/try_seed.sh <checkout-with-change-applied> <check-id>...   — run checks against a scratch checkout.
# VERIF_REPO makes extract AND the harness build use that checkout instead of /repo.
# Evidence and generated files are restored afterwards: committed evidence must come from runs against /repo.
wt="$1"; shift
for id in "$@"; do
  echo "=== $id against $wt"
  cp /verif/evidence/$id.json /tmp/evidence-backup-$id.json 2>/dev/null
  VERIF_REPO="$wt" /verif/check "$id" quick 2>/dev/null | grep -E "^(VIOLATION|KNOWN-FINDING|C[0-9A-Z]+ )" | cut -c1-300
  cp /tmp/evidence-backup-$id.json /verif/evidence/$id.json 2>/dev/null
done
/verif/bin/extract -repo /repo > /dev/null 2>&1
