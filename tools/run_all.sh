#!/bin/sh
# tools/run_all.sh [quick|thorough] — run every claimed check against /repo (regenerates all evidence files)
tier="${1:-quick}"
cd "$(dirname "$0")/.."
for id in $(python3 -c "import json;print(' '.join(c['property_id'] for c in json.load(open('MANIFEST.json'))['checks']))"); do
  ./check "$id" "$tier" 2>/dev/null | grep -E "^(VIOLATION|KNOWN-FINDING|C[0-9A-Z]+ )" | cut -c1-200
done
