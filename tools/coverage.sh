#!/bin/sh
# tools/coverage.sh [props...] — statement coverage of /repo's packages by the harness (generator quality metric).
# Builds the harness with -cover for go.sia.tech/core/..., runs the quick tier of the given properties (default: all),
# prints per-package coverage and writes the uncovered blocks to /var/tmp/verif-cov/uncovered.txt.
cd "$(dirname "$0")/.."
V=$(pwd); export GOFLAGS=-mod=mod GOPROXY=off
D=/var/tmp/verif-cov; rm -rf $D; mkdir -p $D/data
props="$*"; [ -z "$props" ] && props="C01 C02 C03 C04 C05 C06 C07 C08 C09 C10 C11 C12 C13 C14 C15 C16 C17 C18 C19 C20"
(cd harness && go build -tags verif -cover -coverpkg=go.sia.tech/core/consensus,go.sia.tech/core/types,go.sia.tech/core/gateway,go.sia.tech/core/rhp/v2,go.sia.tech/core/rhp/v3,go.sia.tech/core/rhp/v4,verif/harness/cmd/verif-check -o $D/vc ./cmd/verif-check) || exit 2
cp lean/.lake/build/bin/driver $D/driver
for p in $props; do (cd harness && GOCOVERDIR=$D/data $D/vc -prop $p -tier quick -seed ${VERIF_SEED:-1} -driver $D/driver -out $D/$p.json 2>&1 | tail -1); done
go tool covdata percent -i=$D/data | grep sia.tech
go tool covdata textfmt -i=$D/data -o $D/cov.txt
grep "go.sia.tech/core" $D/cov.txt | awk '$NF==0{print $1}' | sed 's/^go.sia.tech\/core\///' | sort -t: -k1,1 -k2,2n > $D/uncovered.txt
echo "uncovered blocks: $(wc -l < $D/uncovered.txt) (see $D/uncovered.txt)"
