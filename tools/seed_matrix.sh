#!/bin/sh
# tools/seed_matrix.sh [seed-dir-name ...] — apply every seeded change to a scratch worktree of /repo,
# run the quick check of its property against it and record what was reported in seeded/<name>/result.json.
# A seed that is NOT caught makes the script exit 1. Evidence files are restored afterwards.
cd "$(dirname "$0")/.."
V=$(pwd)
names="$*"; [ -z "$names" ] && names=$(ls seeded)
rc=0
for n in $names; do
  d="$V/seeded/$n"; [ -f "$d/patch.diff" ] || continue
  id=$(echo "$n" | cut -d- -f1)
  wt=/var/tmp/seedwt-$n
  git -C /repo worktree remove --force "$wt" >/dev/null 2>&1
  git -C /repo worktree add --detach "$wt" HEAD >/dev/null 2>&1 || { echo "$n: worktree failed"; rc=1; continue; }
  if ! git -C "$wt" apply "$d/patch.diff" 2>/dev/null && ! git -C "$wt" apply -3 "$d/patch.diff" 2>/dev/null; then
    echo "$n: patch does not apply"; rc=1; git -C /repo worktree remove --force "$wt"; continue
  fi
  cp "$V/evidence/$id.json" "/var/tmp/evidence-backup-$id.json" 2>/dev/null
  out=$(VERIF_REPO="$wt" "$V/check" "$id" quick 2>/dev/null); code=$?
  nviol=$(echo "$out" | grep -c '^VIOLATION')
  keys=$(echo "$out" | sed -n 's/^VIOLATION .*replay=\([^ ]*\).*/\1/p' | while read f; do jq -r '.key // "no-key"' "$f" 2>/dev/null; done | sort -u | head -12 | jq -R . | jq -sc .)
  nofail=$(echo "$out" | grep -c 'no-failing-input-found')
  jq -c --arg seed "$n" --argjson exit "$code" --argjson keys "${keys:-[]}" --argjson nviol "$nviol" --argjson nofail "$nofail" '{seed:$seed, check:.property_id, exit:$exit, violation_lines:$nviol, no_failing_input_found_lines:$nofail, discharged:.coverage.discharged, obligations:.coverage.obligations, disagreements:.coverage.disagreements, violation_keys:$keys}' "$V/evidence/$id.json" > "$d/result.json" 2>/dev/null
  cp "/var/tmp/evidence-backup-$id.json" "$V/evidence/$id.json" 2>/dev/null; rm -f "/var/tmp/evidence-backup-$id.json"
  git -C /repo worktree remove --force "$wt"
  if [ "$code" = 1 ] && [ "$nviol" -gt 0 ]; then echo "$n: CAUGHT ($nviol violations) $(jq -c '.violation_keys[:3]' "$d/result.json") discharged $(jq -c '[.discharged,.obligations]' "$d/result.json")"; else echo "$n: MISSED (exit $code)"; rc=1; fi
done
"$V/bin/extract" -repo /repo >/dev/null 2>&1
exit $rc
