#!/bin/sh
# Build the framework from files on disk only (offline). Run once after a fresh restore.
set -e
cd "$(dirname "$0")"
export GOFLAGS=-mod=mod GOPROXY=off
unset GOSUMDB
mkdir -p bin work evidence replays
(cd extract && go build -o ../bin/extract .)
./bin/extract -repo "${VERIF_REPO:-/repo}" > work/extract.log 2>&1 || true
python3 -c "import importlib.machinery,importlib.util,sys; l=importlib.machinery.SourceFileLoader('chk','./check'); s=importlib.util.spec_from_loader('chk',l); m=importlib.util.module_from_spec(s); l.exec_module(m); m.gen_driver_table()"
(cd lean && lake build SiaModel SiaProofs driver)
cp "${VERIF_REPO:-/repo}/go.sum" harness/go.sum
(cd harness && go build -tags verif -o bin/verif-check ./cmd/verif-check)
echo "setup ok"
