package main

// T-code regions: closures and statement ranges INSIDE a core function are
// translated as stand-alone Lean definitions.  A region is a contiguous run of
// statements of one statement list (a closure body, a loop body, a case body);
// every variable the region reads that is declared outside of it (parameters of
// the enclosing function, captured locals, closure parameters) becomes a
// parameter of the generated definition, in order of first use.  Calls to sibling
// closures become calls to their generated definitions (with the closure's own
// captured variables passed explicitly).  Calls to the functions listed in
// `extFuncs` (real cryptography, Merkle membership, map-backed lookups — all
// modelled elsewhere) become applications of a field of the generated structure
// `Gen.<Pkg>.Ext`, which every definition that needs one takes as its first
// parameter: an external call becomes a parameter.
//
// A region whose control falls off its end yields `none` (no early return), which
// is also what `return nil` yields: a region answers "does this stretch of the
// validator reject, and with which message".  Error values are the literal format
// string of the `fmt.Errorf` / `errors.New` that builds them.

import (
	"bytes"
	"fmt"
	"go/ast"
	"go/printer"
	"go/token"
	"go/types"
	"sort"
	"strings"
)

type regionSpec struct {
	fn      string // "consensus.validateV2FileContracts" (relative to core)
	name    string // suffix of the generated name: Gen.<Pkg>.<fn>_<name>
	closure string // closure variable whose body holds the region ("" = the function body)
	from    string // prefix of the source text of the first statement ("" = first statement of the body)
	to      string // prefix of the source text of the first statement after the region ("" = to the end of the list)
}

var regionRoots []regionSpec

// functions that become fields of Gen.<Pkg>.Ext (key → field name)
var extFuncs = map[string]string{
	coreMod + "/types.PublicKey.VerifyHash":                                            "VerifyHash",
	coreMod + "/consensus.State.ContractSigHash":                                       "ContractSigHash",
	coreMod + "/consensus.State.RenewalSigHash":                                        "RenewalSigHash",
	coreMod + "/consensus.State.AttestationSigHash":                                    "AttestationSigHash",
	coreMod + "/consensus.State.StorageProofLeafIndex":                                 "StorageProofLeafIndex",
	coreMod + "/consensus.State.StorageProofLeafHash":                                  "StorageProofLeafHash",
	coreMod + "/consensus.storageProofRoot":                                            "storageProofRoot",
	coreMod + "/consensus.storageProofSubtreeHeight":                                   "storageProofSubtreeHeight",
	coreMod + "/consensus.ElementAccumulator.containsChainIndex":                       "containsChainIndex",
	coreMod + "/consensus.ElementAccumulator.containsUnresolvedV2FileContractElement": "containsUnresolvedV2FileContractElement",
	coreMod + "/consensus.ElementAccumulator.containsResolvedV2FileContractElement":   "containsResolvedV2FileContractElement",
	coreMod + "/consensus.ElementAccumulator.containsUnspentSiacoinElement":           "containsUnspentSiacoinElement",
	coreMod + "/consensus.ElementAccumulator.containsSpentSiacoinElement":             "containsSpentSiacoinElement",
	coreMod + "/consensus.ElementAccumulator.containsUnspentSiafundElement":           "containsUnspentSiafundElement",
	coreMod + "/consensus.ElementAccumulator.containsSpentSiafundElement":             "containsSpentSiafundElement",
	coreMod + "/consensus.MidState.spent":                                              "spent",
	coreMod + "/types.SpendPolicy.Address":                                             "PolicyAddress",
	coreMod + "/types.SpendPolicy.Verify":                                              "PolicyVerify",
	coreMod + "/consensus.State.medianTimestamp":                                       "medianTimestamp",
}

type regionInfo struct {
	spec    regionSpec
	key     string
	decl    *ast.FuncDecl
	frees   []*types.Var // captured variables, in parameter order
	nparams int          // number of own (closure) parameters following the captured ones
}

type extField struct {
	name string
	typ  string
}

func stmtText(fset *token.FileSet, s ast.Node) string {
	var b bytes.Buffer
	printer.Fprint(&b, fset, s)
	return strings.Join(strings.Fields(b.String()), " ")
}

// findClosure returns the FuncLit assigned to variable `name` inside body, and the variable.
func (t *tcode) findClosure(body *ast.BlockStmt, name string) (*ast.FuncLit, *types.Var) {
	var lit *ast.FuncLit
	var obj *types.Var
	ast.Inspect(body, func(n ast.Node) bool {
		if lit != nil {
			return false
		}
		as, ok := n.(*ast.AssignStmt)
		if !ok || as.Tok != token.DEFINE || len(as.Lhs) != 1 || len(as.Rhs) != 1 {
			return true
		}
		id, ok := as.Lhs[0].(*ast.Ident)
		if !ok || id.Name != name {
			return true
		}
		if fl, ok := as.Rhs[0].(*ast.FuncLit); ok {
			lit = fl
			obj, _ = t.L.info.Defs[id].(*types.Var)
			return false
		}
		return true
	})
	return lit, obj
}

// stmtLists enumerates every statement list below n (blocks and case bodies).
func stmtLists(n ast.Node, visit func(list []ast.Stmt)) {
	ast.Inspect(n, func(n ast.Node) bool {
		switch x := n.(type) {
		case *ast.FuncLit:
			_ = x
			return true
		case *ast.BlockStmt:
			visit(x.List)
		case *ast.CaseClause:
			visit(x.Body)
		}
		return true
	})
}

func (t *tcode) regionKey(spec regionSpec) string {
	return coreMod + "/" + spec.fn + "_" + spec.name
}

// ensureRegion synthesises (once) the FuncDecl of a region and registers it as a
// translatable function. Returns nil and an error text when it cannot be located.
func (t *tcode) ensureRegion(spec regionSpec) (*regionInfo, string) {
	key := t.regionKey(spec)
	if ri, ok := t.regions[key]; ok {
		return ri, ""
	}
	outer, ok := t.L.funcs[coreMod+"/"+spec.fn]
	if !ok || outer.Body == nil {
		return nil, "enclosing function not found: " + spec.fn
	}
	body := outer.Body
	var ownParams, namedResults []*ast.Ident
	var results *types.Tuple
	outerSig := t.L.info.Defs[outer.Name].Type().(*types.Signature)
	results = outerSig.Results()
	if spec.closure != "" {
		lit, _ := t.findClosure(outer.Body, spec.closure)
		if lit == nil {
			return nil, fmt.Sprintf("closure %s not found in %s", spec.closure, spec.fn)
		}
		body = lit.Body
		sig, _ := t.L.info.Types[lit].Type.(*types.Signature)
		if sig == nil {
			return nil, "closure without signature"
		}
		results = sig.Results()
		if spec.from == "" {
			for _, f := range lit.Type.Params.List {
				ownParams = append(ownParams, f.Names...)
			}
		}
		if lit.Type.Results != nil {
			for _, f := range lit.Type.Results.List {
				namedResults = append(namedResults, f.Names...)
			}
		}
	}
	// locate the statement range
	var list []ast.Stmt
	start, end := -1, -1
	if spec.from == "" {
		list, start, end = body.List, 0, len(body.List)
	} else {
		nfound := 0
		stmtLists(body, func(l []ast.Stmt) {
			for i, s := range l {
				if strings.HasPrefix(stmtText(t.L.fset, s), spec.from) {
					nfound++
					if nfound == 1 {
						list, start, end = l, i, len(l)
					}
				}
			}
		})
		if nfound != 1 {
			return nil, fmt.Sprintf("region %s_%s: %d statements start with %q (need exactly 1)", spec.fn, spec.name, nfound, spec.from)
		}
	}
	if spec.to != "" {
		found := false
		for i := start + 1; i < len(list); i++ {
			if strings.HasPrefix(stmtText(t.L.fset, list[i]), spec.to) {
				end, found = i, true
				break
			}
		}
		if !found {
			return nil, fmt.Sprintf("region %s_%s: no statement after the start begins with %q", spec.fn, spec.name, spec.to)
		}
	}
	region := list[start:end]
	if len(region) == 0 {
		return nil, "empty region"
	}
	lo, hi := region[0].Pos(), region[len(region)-1].End()
	ri := &regionInfo{spec: spec, key: key, nparams: len(ownParams)}
	t.regions[key] = ri
	// free variables in order of first use; closures called are ensured first
	own := map[types.Object]bool{}
	for _, p := range ownParams {
		own[t.L.info.Defs[p]] = true
	}
	for _, p := range namedResults {
		own[t.L.info.Defs[p]] = true // declared by the generated definition itself
	}
	seen := map[*types.Var]bool{}
	var errText string
	addFree := func(v *types.Var) {
		if !seen[v] {
			seen[v] = true
			ri.frees = append(ri.frees, v)
		}
	}
	for _, s := range region {
		ast.Inspect(s, func(n ast.Node) bool {
			id, ok := n.(*ast.Ident)
			if !ok {
				return true
			}
			v, ok := t.L.info.Uses[id].(*types.Var)
			if !ok || v.IsField() || own[v] {
				return true
			}
			if v.Pkg() != nil && v.Parent() == v.Pkg().Scope() {
				return true // package-level
			}
			_, isFn := v.Type().Underlying().(*types.Signature)
			if v.Pos() >= lo && v.Pos() < hi && !isFn {
				return true // declared inside the region
			}
			if isFn {
				// sibling closure
				sub, e := t.ensureRegion(regionSpec{fn: spec.fn, name: v.Name(), closure: v.Name()})
				if sub == nil {
					errText = e
					return true
				}
				t.closureKey[v] = sub.key
				for _, fv := range sub.frees {
					addFree(fv)
				}
				return true
			}
			addFree(v)
			return true
		})
	}
	if errText != "" {
		delete(t.regions, key)
		return nil, errText
	}
	// synthetic declaration
	name := ast.NewIdent(spec.fn[strings.LastIndex(spec.fn, ".")+1:] + "_" + spec.name)
	var fields []*ast.Field
	var pvars []*types.Var
	for _, v := range ri.frees {
		id := ast.NewIdent(v.Name())
		t.L.info.Defs[id] = v
		fields = append(fields, &ast.Field{Names: []*ast.Ident{id}})
		pvars = append(pvars, v)
	}
	for _, p := range ownParams {
		fields = append(fields, &ast.Field{Names: []*ast.Ident{p}})
		pvars = append(pvars, t.L.info.Defs[p].(*types.Var))
	}
	decl := &ast.FuncDecl{
		Name: name,
		Type: &ast.FuncType{Func: lo, Params: &ast.FieldList{List: fields}},
		Body: &ast.BlockStmt{Lbrace: lo, List: region, Rbrace: hi},
	}
	slash := strings.LastIndex(spec.fn, "/") + 1
	pkg := t.L.pkgs[coreMod+"/"+spec.fn[:slash+strings.Index(spec.fn[slash:], ".")]]
	sig := types.NewSignatureType(nil, nil, nil, types.NewTuple(pvars...), results, false)
	t.L.info.Defs[name] = types.NewFunc(lo, pkg, name.Name, sig)
	ri.decl = decl
	t.L.funcs[key] = decl
	t.isRegion[key] = ri
	return ri, ""
}

// extUse records that a function of package alias uses ext field `field` with the given Go signature.
func (t *tcode) extUse(alias, field string, sig *types.Signature, at ast.Node) {
	if t.exts[alias] == nil {
		t.exts[alias] = map[string]string{}
	}
	if _, ok := t.exts[alias][field]; ok {
		return
	}
	var parts []string
	if r := sig.Recv(); r != nil {
		lt, ok := t.leanType(r.Type())
		if !ok {
			t.fail(at, "external %s: receiver type %s not modelled", field, r.Type())
		}
		parts = append(parts, lt)
	}
	for i := 0; i < sig.Params().Len(); i++ {
		lt, ok := t.leanType(sig.Params().At(i).Type())
		if !ok {
			t.fail(at, "external %s: parameter type %s not modelled", field, sig.Params().At(i).Type())
		}
		parts = append(parts, lt)
	}
	rt, ok := t.leanType(sig.Results())
	if !ok {
		t.fail(at, "external %s: result type not modelled", field)
	}
	parts = append(parts, rt)
	t.exts[alias][field] = strings.Join(parts, " → ")
	// the all-zero instance (for non-vacuity examples): every external answers the zero value of its result type
	z := ""
	if sig.Results().Len() == 1 {
		z, ok = t.zero(sig.Results().At(0).Type())
	} else {
		var zs []string
		ok = true
		for i := 0; i < sig.Results().Len(); i++ {
			zi, oki := t.zero(sig.Results().At(i).Type())
			ok = ok && oki
			zs = append(zs, zi)
		}
		z = "(" + strings.Join(zs, ", ") + ")"
	}
	if !ok {
		t.fail(at, "external %s: no zero value for its result", field)
	}
	if t.extZero[alias] == nil {
		t.extZero[alias] = map[string]string{}
	}
	t.extZero[alias][field] = "fun" + strings.Repeat(" _", len(parts)-1) + " => " + z
}

func (t *tcode) extStruct(alias string) string {
	fs := t.exts[alias]
	if len(fs) == 0 {
		return ""
	}
	var names []string
	for n := range fs {
		names = append(names, n)
	}
	sort.Strings(names)
	var sb strings.Builder
	sb.WriteString("/-- external functions of the translated regions: real cryptography, Merkle membership and\n    map-backed lookups, modelled elsewhere; here they are parameters. -/\n")
	sb.WriteString("structure Gen." + alias + ".Ext where\n")
	for _, n := range names {
		sb.WriteString("  " + n + " : " + fs[n] + "\n")
	}
	sb.WriteString("\n/-- every external answers the zero value of its result type (a base for concrete instances) -/\n")
	sb.WriteString("def Gen." + alias + ".Ext.trivial : Gen." + alias + ".Ext where\n")
	for _, n := range names {
		sb.WriteString("  " + n + " := " + t.extZero[alias][n] + "\n")
	}
	sb.WriteString("\n")
	return sb.String()
}
