package main

func init() {
	tcodeRoots = append(tcodeRoots,
		// C17 — v1-era payout/collateral helpers of rhp/v2 that are inside the T-code subset.
		// Outside it (hand-modelled in SiaModel/Rhp/V1Contracts.lean, tied by correspondence):
		//   rhp/v2+v3 taxAdjustedPayout (function literal), PrepareContractFormation/Renewal and
		//   PayByContract (slices, embedded fields, hashing), rhp/v3 RenewalCosts/CalculateHostPayouts
		//   (blank named results), Contract*Cost (big.Int tax).
		"rhp/v2.CalculateHostPayouts", "rhp/v2.ContractFormationCollateral", "rhp/v2.ContractRenewalCollateral",
	)
}
