package main

func init() {
	tcodeRoots = append(tcodeRoots,
		// C16 — RHP Merkle integer helpers
		"rhp/v2.RangeProofSize", "rhp/v2.ProofSize", "rhp/v2.nextSubtreeSize",
	)
}
