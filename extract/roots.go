package main

// Whitelisted T-code roots ("<pkg>.<Func>" or "<pkg>.<Type>.<Method>", relative
// to go.sia.tech/core).  Callees are pulled in transitively. Other files add
// roots with `func init() { tcodeRoots = append(tcodeRoots, ...) }`.
var tcodeRoots = []string{}
