package main

// T-facts for C07 (proof part): the SHAPE of the storage-proof verification code, as Lean data.
// For consensus/merkle.go (`proofRoot`, `storageProofRoot`) and for the closures inside
// `validateFileContracts` in consensus/validation.go (`lastLeafIndex`, `storageProofLeaf`,
// `storageProofRoot`, and the per-proof check with its "too few proof hashes" guard) the
// generator emits the parameter list and the top-level statements of the body, printed by
// go/printer and whitespace-normalised (comments are not part of the AST nodes). They become
// `SiaModel.Gen.FactsSp`; `SiaProofs/Props/C07ProofTie.lean` pins each of them to the text the
// hand-written model `SiaModel/Merkle/StorageProof.lean` was transcribed from, so any rewrite
// of these functions breaks a tie (the behaviour is tied by the C07P correspondence run).

import (
	"bytes"
	"fmt"
	"go/ast"
	"go/constant"
	"go/printer"
	"strings"
)

func init() { registerFacts("FactsSp", genFactsSp) }

type spFacts struct {
	L    *loader
	sb   strings.Builder
	rep  map[string]any
	errs []string
}

func (f *spFacts) fail(format string, a ...any) {
	f.errs = append(f.errs, "FactsSp: "+fmt.Sprintf(format, a...))
}

func (f *spFacts) src(n ast.Node) string {
	var b bytes.Buffer
	printer.Fprint(&b, f.L.fset, n)
	return strings.Join(strings.Fields(b.String()), " ")
}

func spLeanStr(s string) string {
	return "\"" + strings.ReplaceAll(strings.ReplaceAll(s, "\\", "\\\\"), "\"", "\\\"") + "\""
}

func (f *spFacts) defList(name string, vs []string, doc string) {
	q := make([]string, len(vs))
	for i, v := range vs {
		q[i] = "\n  " + spLeanStr(v)
	}
	fmt.Fprintf(&f.sb, "/-- %s -/\ndef %s : List String := [%s]\n\n", doc, name, strings.Join(q, ","))
	f.rep[name] = vs
}

func (f *spFacts) defStr(name, v, doc string) {
	fmt.Fprintf(&f.sb, "/-- %s -/\ndef %s : String := %s\n\n", doc, name, spLeanStr(v))
	f.rep[name] = v
}

func (f *spFacts) stmts(b *ast.BlockStmt) []string {
	var out []string
	for _, s := range b.List {
		out = append(out, f.src(s))
	}
	return out
}

func (f *spFacts) params(ft *ast.FuncType) string {
	return f.src(ft)
}

// closureIn finds `name := func…` among the TOP-LEVEL statements of fd's body.
func spClosure(fd *ast.FuncDecl, name string) *ast.FuncLit {
	for _, st := range fd.Body.List {
		if as, ok := st.(*ast.AssignStmt); ok && len(as.Lhs) == 1 && len(as.Rhs) == 1 {
			if id, ok := as.Lhs[0].(*ast.Ident); ok && id.Name == name {
				if l, ok := as.Rhs[0].(*ast.FuncLit); ok {
					return l
				}
			}
		}
	}
	return nil
}

func genFactsSp(L *loader) (string, any, []string) {
	f := &spFacts{L: L, rep: map[string]any{}}
	f.sb.WriteString("/-! T-facts for C07 (proof part): shape of the storage-proof verification code. -/\nnamespace Gen.FactsSp\n\n")
	pkg := coreMod + "/consensus"

	// ---- consensus/merkle.go
	for _, fn := range []struct{ name, lean string }{{"proofRoot", "proofRoot"}, {"storageProofSubtreeHeight", "storageProofSubtreeHeight"}, {"storageProofRoot", "storageProofRoot"}} {
		if fd := L.funcs[pkg+"."+fn.name]; fd == nil {
			f.fail("consensus.%s not found", fn.name)
		} else {
			f.defStr(fn.lean+"Sig", f.params(fd.Type), "signature of consensus."+fn.name+" ("+L.pos(fd)+")")
			f.defList(fn.lean+"Body", f.stmts(fd.Body), "top-level statements of consensus."+fn.name)
		}
	}

	// ---- consensus/state.go: the challenged leaf
	if fd := L.funcs[pkg+".State.StorageProofLeafIndex"]; fd == nil {
		f.fail("consensus.State.StorageProofLeafIndex not found")
	} else {
		f.defStr("leafIndexSig", f.params(fd.Type), "signature of State.StorageProofLeafIndex ("+L.pos(fd)+")")
		f.defList("leafIndexBody", f.stmts(fd.Body), "top-level statements of State.StorageProofLeafIndex")
	}
	if fd := L.funcs[pkg+".State.StorageProofLeafHash"]; fd == nil {
		f.fail("consensus.State.StorageProofLeafHash not found")
	} else {
		f.defList("leafHashBody", f.stmts(fd.Body), "top-level statements of State.StorageProofLeafHash ("+L.pos(fd)+")")
	}

	// ---- closures of validateFileContracts
	fd := L.funcs[pkg+".validateFileContracts"]
	if fd == nil {
		f.fail("consensus.validateFileContracts not found")
	} else {
		for _, cl := range []struct{ name, lean string }{
			{"lastLeafIndex", "v1LastLeafIndex"}, {"storageProofLeaf", "v1StorageProofLeaf"}, {"storageProofRoot", "v1StorageProofRoot"},
		} {
			lit := spClosure(fd, cl.name)
			if lit == nil {
				f.fail("closure %s not found in validateFileContracts (%s)", cl.name, L.pos(fd))
				continue
			}
			f.defStr(cl.lean+"Sig", f.params(lit.Type), "signature of the closure "+cl.name+" in validateFileContracts ("+L.pos(lit)+")")
			if cl.name == "storageProofLeaf" {
				// the three era branches: condition and statements of each case clause
				var cases []string
				ok := false
				if len(lit.Body.List) == 1 {
					if sw, isSw := lit.Body.List[0].(*ast.SwitchStmt); isSw && sw.Tag == nil && sw.Init == nil {
						ok = true
						for _, c := range sw.Body.List {
							cc := c.(*ast.CaseClause)
							cond := "default"
							if len(cc.List) > 0 {
								var cs []string
								for _, e := range cc.List {
									cs = append(cs, f.src(e))
								}
								cond = "case " + strings.Join(cs, ", ")
							}
							var body []string
							for _, s := range cc.Body {
								body = append(body, f.src(s))
							}
							cases = append(cases, cond+" => "+strings.Join(body, " ; "))
						}
					}
				}
				if !ok {
					f.fail("closure storageProofLeaf is not a single tagless switch (%s)", L.pos(lit))
				}
				f.defList(cl.lean+"Cases", cases, "the era branches of storageProofLeaf: `case <cond> => <statements>`")
			} else {
				f.defList(cl.lean+"Body", f.stmts(lit.Body), "top-level statements of the closure "+cl.name)
			}
			if cl.name == "storageProofRoot" {
				// the loop, taken apart: range clause, condition, the two branches
				for _, st := range lit.Body.List {
					rs, ok := st.(*ast.RangeStmt)
					if !ok {
						continue
					}
					f.defStr("v1LoopRange", f.src(rs.Key)+", "+f.src(rs.Value)+" := range "+f.src(rs.X), "range clause of the fold")
					if len(rs.Body.List) == 1 {
						if is, ok := rs.Body.List[0].(*ast.IfStmt); ok && is.Init == nil {
							f.defStr("v1LoopCond", f.src(is.Cond), "condition under which the proof hash is the LEFT sibling")
							f.defList("v1LoopThen", f.stmts(is.Body), "branch taken when the condition holds")
							if eb, ok := is.Else.(*ast.BlockStmt); ok {
								f.defList("v1LoopElse", f.stmts(eb), "branch taken otherwise")
							} else {
								f.fail("v1 storageProofRoot loop: no plain else block (%s)", L.pos(is))
							}
							continue
						}
					}
					f.fail("v1 storageProofRoot loop body is not a single if/else (%s)", L.pos(rs))
				}
			}
		}
		// the constant leafSize declared in validateFileContracts
		found := false
		for _, st := range fd.Body.List {
			ds, ok := st.(*ast.DeclStmt)
			if !ok {
				continue
			}
			gd, ok := ds.Decl.(*ast.GenDecl)
			if !ok {
				continue
			}
			for _, sp := range gd.Specs {
				vs, ok := sp.(*ast.ValueSpec)
				if !ok || len(vs.Names) != 1 || vs.Names[0].Name != "leafSize" || len(vs.Values) != 1 {
					continue
				}
				found = true
				f.defStr("v1LeafSizeExpr", f.src(vs.Values[0]), "definition of leafSize in validateFileContracts")
				if tv, ok := L.info.Types[vs.Values[0]]; ok && tv.Value != nil {
					fmt.Fprintf(&f.sb, "def v1LeafSize : Nat := %s\n\n", constant.ToInt(tv.Value).ExactString())
				} else {
					f.fail("leafSize is not a constant")
				}
			}
		}
		if !found {
			f.fail("const leafSize not found in validateFileContracts")
		}
		// the per-proof check: body of `for i, sp := range txn.StorageProofs`
		var loop *ast.RangeStmt
		for _, st := range fd.Body.List {
			if rs, ok := st.(*ast.RangeStmt); ok && f.src(rs.X) == "txn.StorageProofs" && rs.Value != nil {
				loop = rs // the last such loop is the verification loop
			}
		}
		if loop == nil {
			f.fail("loop over txn.StorageProofs not found in validateFileContracts")
		} else {
			// keep only the statements from the computation of leafIndex on, and flatten the
			// if / else-if chain into `if <cond> => <first statement of the branch>` lines
			var lines []string
			started := false
			for _, st := range loop.Body.List {
				s := f.src(st)
				if strings.HasPrefix(s, "leafIndex :=") {
					started = true
				}
				if !started {
					continue
				}
				if is, ok := st.(*ast.IfStmt); ok {
					for cur := is; cur != nil; {
						first := ""
						if len(cur.Body.List) > 0 {
							first = f.src(cur.Body.List[0])
							if strings.HasPrefix(first, "return fmt.Errorf(") {
								first = "return error"
							}
						}
						lines = append(lines, "if "+f.src(cur.Cond)+" => "+first)
						next, _ := cur.Else.(*ast.IfStmt)
						if cur.Else != nil && next == nil {
							lines = append(lines, "else => "+f.src(cur.Else))
						}
						cur = next
					}
					continue
				}
				lines = append(lines, s)
			}
			if !started {
				f.fail("statement `leafIndex := …` not found in the storage-proof loop (%s)", L.pos(loop))
			}
			f.defList("v1ProofCheck", lines, "the per-proof check in validateFileContracts, from `leafIndex :=` on; if/else-if chain flattened")
		}
	}
	// ---- the v2 per-proof check: the `case *types.V2StorageProof:` clause of the resolution type
	// switch in validateV2FileContracts, if / else-if chains flattened
	if fd2 := L.funcs[pkg+".validateV2FileContracts"]; fd2 == nil {
		f.fail("consensus.validateV2FileContracts not found")
	} else {
		var clause *ast.CaseClause
		ast.Inspect(fd2.Body, func(n ast.Node) bool {
			ts, ok := n.(*ast.TypeSwitchStmt)
			if !ok {
				return true
			}
			for _, c := range ts.Body.List {
				cc := c.(*ast.CaseClause)
				if len(cc.List) == 1 && f.src(cc.List[0]) == "*types.V2StorageProof" {
					clause = cc
				}
			}
			return true
		})
		if clause == nil {
			f.fail("case *types.V2StorageProof not found in validateV2FileContracts (%s)", L.pos(fd2))
		} else {
			var lines []string
			for _, st := range clause.Body {
				if is, ok := st.(*ast.IfStmt); ok {
					for cur := is; cur != nil; {
						first := ""
						if len(cur.Body.List) > 0 {
							first = f.src(cur.Body.List[0])
							if strings.HasPrefix(first, "return fmt.Errorf(") {
								first = "return error"
							}
						}
						lines = append(lines, "if "+f.src(cur.Cond)+" => "+first)
						next, _ := cur.Else.(*ast.IfStmt)
						if cur.Else != nil && next == nil {
							lines = append(lines, "else => "+f.src(cur.Else))
						}
						cur = next
					}
					continue
				}
				lines = append(lines, f.src(st))
			}
			f.defList("v2ProofCheck", lines, "the `case *types.V2StorageProof` clause of validateV2FileContracts ("+L.pos(clause)+"); if/else-if chains flattened")
		}
	}
	f.sb.WriteString("end Gen.FactsSp\n")
	return f.sb.String(), f.rep, f.errs
}
