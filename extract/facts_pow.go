package main

// T-facts for C13 (proof of work / difficulty retargeting): the clamp and decay
// constants exactly as they appear in consensus/application.go and
// consensus/state.go, the literal sequence of every retargeting function (a
// syntactic fingerprint: any edit of a constant breaks a tie), the calls to the
// Work/target helpers with their printed arguments, and the State fields that
// ApplyHeader (with everything it calls) touches versus the fields ApplyBlock
// assigns outside ApplyHeader.
// A fact that cannot be found is an error (broken tie), never skipped.

import (
	"fmt"
	"go/ast"
	"go/token"
	"go/types"
	"sort"
	"strings"
)

func init() { registerFacts("FactsPow", genFactsPow) }

func genFactsPow(L *loader) (string, any, []string) {
	const pkg = coreMod + "/consensus"
	var errs []string
	fail := func(f string, a ...any) { errs = append(errs, "FactsPow: "+fmt.Sprintf(f, a...)) }
	rep := map[string]any{}
	var sb strings.Builder
	sb.WriteString("namespace Gen.FactsPow\n\n")

	leanList := func(xs []string) string {
		q := make([]string, len(xs))
		for i, x := range xs {
			q[i] = fmt.Sprintf("%q", x)
		}
		return "[" + strings.Join(q, ", ") + "]"
	}
	emitList := func(name string, xs []string, src string) {
		fmt.Fprintf(&sb, "/-- %s -/\ndef %s : List String := %s\n", src, name, leanList(xs))
		rep[name] = xs
	}
	fn := func(name string) *ast.FuncDecl {
		fd := L.funcs[pkg+"."+name]
		if fd == nil || fd.Body == nil {
			fail("function consensus.%s not found", name)
			return nil
		}
		return fd
	}
	// every INT/FLOAT literal of the body, in source order
	lits := func(fd *ast.FuncDecl) []string {
		var out []string
		ast.Inspect(fd.Body, func(x ast.Node) bool {
			if bl, ok := x.(*ast.BasicLit); ok && (bl.Kind == token.INT || bl.Kind == token.FLOAT) {
				out = append(out, bl.Value)
			}
			return true
		})
		return out
	}
	// every call whose callee is named `callee` (method or function), printed
	calls := func(fd *ast.FuncDecl, callees map[string]bool) []string {
		var out []string
		ast.Inspect(fd.Body, func(x ast.Node) bool {
			ce, ok := x.(*ast.CallExpr)
			if !ok {
				return true
			}
			name := ""
			switch f := ce.Fun.(type) {
			case *ast.Ident:
				name = f.Name
			case *ast.SelectorExpr:
				name = f.Sel.Name
			}
			if callees[name] {
				out = append(out, types.ExprString(ce))
			}
			return true
		})
		return out
	}
	helperCalls := map[string]bool{"mulTargetFrac": true, "addTarget": true, "invTarget": true, "intToTarget": true,
		"div64": true, "mul64": true, "add": true, "sub": true, "min": true, "max": true, "Sub": true}

	type fnSpec struct{ goName, leanName string }
	fns := []fnSpec{
		{"updateTotalWork", "updateTotalWork"}, {"updateOakTime", "updateOakTime"},
		{"updateOakTarget", "updateOakTarget"}, {"updateOakWork", "updateOakWork"},
		{"adjustTarget", "adjustTarget"}, {"adjustDifficultyV2", "adjustDifficultyV2"},
		{"adjustDifficultyFinalCut", "adjustDifficultyFinalCut"}, {"adjustDifficulty", "adjustDifficulty"},
		{"ApplyHeader", "applyHeader"}, {"intToTarget", "intToTarget"}, {"invTarget", "invTarget"},
		{"addTarget", "addTarget"}, {"mulTargetFrac", "mulTargetFrac"},
		{"State.SufficientlyHeavierThan", "sufficientlyHeavierThan"}, {"State.medianTimestamp", "medianTimestamp"},
		{"State.numTimestamps", "numTimestamps"}, {"State.PoWTarget", "powTarget"}, {"State.NonceFactor", "nonceFactor"},
		{"ValidateHeader", "validateHeader"},
		{"Work.add", "workAdd"}, {"Work.sub", "workSub"}, {"Work.mul64", "workMul64"}, {"Work.div64", "workDiv64"},
	}
	for _, f := range fns {
		fd := fn(f.goName)
		if fd == nil {
			continue
		}
		emitList("lits_"+f.leanName, lits(fd), "numeric literals of consensus."+f.goName+" in source order ("+L.pos(fd)+")")
		emitList("calls_"+f.leanName, calls(fd, helperCalls), "calls to the Work/target helpers in consensus."+f.goName)
	}

	// ---- named constants at precise syntactic positions
	emitNat := func(name string, v string, src string) {
		for _, c := range v {
			if c < '0' || c > '9' {
				fail("%s: %q is not a plain integer literal", name, v)
				return
			}
		}
		fmt.Fprintf(&sb, "/-- %s -/\ndef %s : Nat := %s\n", src, name, v)
		rep[name] = v
	}
	// argument k of the unique call `recv.callee(...)` in fd whose receiver prints as recv
	callArg := func(fdName, recv, callee string, k int) (string, bool) {
		fd := fn(fdName)
		if fd == nil {
			return "", false
		}
		var found []string
		ast.Inspect(fd.Body, func(x ast.Node) bool {
			ce, ok := x.(*ast.CallExpr)
			if !ok {
				return true
			}
			switch f := ce.Fun.(type) {
			case *ast.SelectorExpr:
				if f.Sel.Name == callee && types.ExprString(f.X) == recv && k < len(ce.Args) {
					found = append(found, types.ExprString(ce.Args[k]))
				}
			case *ast.Ident:
				if f.Name == callee && recv == "" && k < len(ce.Args) {
					found = append(found, types.ExprString(ce.Args[k]))
				}
			}
			return true
		})
		if len(found) == 0 {
			fail("no call %s.%s(…) in consensus.%s", recv, callee, fdName)
			return "", false
		}
		for _, f := range found[1:] {
			if f != found[0] {
				fail("calls %s.%s(…) in consensus.%s disagree on argument %d: %v", recv, callee, fdName, k, found)
				return "", false
			}
		}
		return found[0], true
	}
	if v, ok := callArg("adjustDifficultyV2", "s.Difficulty", "div64", 0); ok {
		emitNat("v2ClampDiv", v, "adjustDifficultyV2: maxAdjust := s.Difficulty.div64(·)")
	}
	if v, ok := callArg("adjustDifficultyFinalCut", "s.Difficulty", "div64", 0); ok {
		emitNat("finalCutClampDiv", v, "adjustDifficultyFinalCut: maxAdjust := s.Difficulty.div64(·).max(oneWork)")
	}
	if v, ok := callArg("updateOakWork", "s.OakWork", "div64", 0); ok {
		emitNat("oakWorkDecayDiv", v, "updateOakWork: s.OakWork.sub(s.OakWork.div64(·))")
	}
	if v, ok := callArg("State.SufficientlyHeavierThan", "t.Difficulty", "div64", 0); ok {
		emitNat("heavierDiv", v, "SufficientlyHeavierThan: t.TotalWork.add(t.Difficulty.div64(·))")
	}
	// mulTargetFrac calls: (x, n, d) triples
	triples := func(fdName string) [][3]string {
		fd := fn(fdName)
		if fd == nil {
			return nil
		}
		var out [][3]string
		ast.Inspect(fd.Body, func(x ast.Node) bool {
			if ce, ok := x.(*ast.CallExpr); ok {
				if id, ok := ce.Fun.(*ast.Ident); ok && id.Name == "mulTargetFrac" && len(ce.Args) == 3 {
					out = append(out, [3]string{types.ExprString(ce.Args[0]), types.ExprString(ce.Args[1]), types.ExprString(ce.Args[2])})
				}
			}
			return true
		})
		return out
	}
	if t := triples("updateOakTarget"); len(t) == 1 && t[0][0] == "s.OakTarget" {
		emitNat("oakTargetDecayNum", t[0][1], "updateOakTarget: mulTargetFrac(s.OakTarget, ·, _)")
		emitNat("oakTargetDecayDen", t[0][2], "updateOakTarget: mulTargetFrac(s.OakTarget, _, ·)")
	} else {
		fail("updateOakTarget: expected exactly one mulTargetFrac(s.OakTarget, n, d), got %v", t)
	}
	if t := triples("adjustTarget"); len(t) == 3 && t[1][0] == "s.ChildTarget" && t[2][0] == "s.ChildTarget" {
		emitList("preOakMul", []string{t[0][0], t[0][1], t[0][2]}, "adjustTarget (pre-Oak): mulTargetFrac(·, ·, ·)")
		emitNat("oakClampUpNum", t[1][1], "adjustTarget: minTarget := mulTargetFrac(s.ChildTarget, ·, _)")
		emitNat("oakClampUpDen", t[1][2], "adjustTarget: minTarget := mulTargetFrac(s.ChildTarget, _, ·)")
		emitNat("oakClampDownNum", t[2][1], "adjustTarget: maxTarget := mulTargetFrac(s.ChildTarget, ·, _)")
		emitNat("oakClampDownDen", t[2][2], "adjustTarget: maxTarget := mulTargetFrac(s.ChildTarget, _, ·)")
	} else {
		fail("adjustTarget: expected three mulTargetFrac calls (pre-Oak, minTarget, maxTarget), got %v", t)
	}
	// the float comparisons of the pre-Oak clamp and what they assign
	if fd := fn("adjustTarget"); fd != nil {
		var conds, assigns []string
		ast.Inspect(fd.Body, func(x ast.Node) bool {
			switch n := x.(type) {
			case *ast.BinaryExpr:
				if id, ok := n.X.(*ast.Ident); ok && id.Name == "r" && (n.Op == token.GTR || n.Op == token.LSS) {
					conds = append(conds, types.ExprString(n))
				}
			case *ast.AssignStmt:
				if len(n.Lhs) == 2 && n.Tok == token.ASSIGN {
					if a, ok := n.Lhs[0].(*ast.Ident); ok && a.Name == "expected" {
						assigns = append(assigns, types.ExprString(n.Lhs[0])+","+types.ExprString(n.Lhs[1])+"="+types.ExprString(n.Rhs[0])+","+types.ExprString(n.Rhs[1]))
					}
				}
			}
			return true
		})
		if len(conds) != 2 || len(assigns) != 2 {
			fail("adjustTarget: pre-Oak clamp shape changed: conds=%v assigns=%v", conds, assigns)
		}
		emitList("preOakClampConds", conds, "adjustTarget: the two float64 comparisons of the pre-Oak clamp")
		emitList("preOakClampAssigns", assigns, "adjustTarget: what the two clamp branches assign")
	}
	// median window = len(State.PrevTimestamps)
	if p := L.pkgs[pkg]; p != nil {
		if o := p.Scope().Lookup("State"); o != nil {
			if st, ok := o.Type().Underlying().(*types.Struct); ok {
				found := false
				for i := 0; i < st.NumFields(); i++ {
					if st.Field(i).Name() == "PrevTimestamps" {
						if at, ok := st.Field(i).Type().(*types.Array); ok {
							emitNat("medianWindow", fmt.Sprint(at.Len()), "len(State.PrevTimestamps)")
							found = true
						}
					}
				}
				if !found {
					fail("State.PrevTimestamps is not an array field")
				}
			}
		} else {
			fail("type consensus.State not found")
		}
	}
	// intToTarget: `i.BitLen() >= 256`
	if fd := fn("intToTarget"); fd != nil {
		var conds []string
		ast.Inspect(fd.Body, func(x ast.Node) bool {
			if is, ok := x.(*ast.IfStmt); ok {
				conds = append(conds, types.ExprString(is.Cond))
			}
			return true
		})
		emitList("intToTargetConds", conds, "intToTarget: the capping condition")
	}

	// ---- State fields: ApplyHeader (transitively) vs ApplyBlock outside ApplyHeader
	stateFieldsOf := func(root string) ([]string, []string) {
		seen := map[string]bool{}
		fields := map[string]bool{}
		var order []string
		var visit func(name string)
		visit = func(name string) {
			if seen[name] {
				return
			}
			seen[name] = true
			fd := L.funcs[pkg+"."+name]
			if fd == nil || fd.Body == nil {
				return
			}
			order = append(order, name)
			ast.Inspect(fd.Body, func(x ast.Node) bool {
				switch n := x.(type) {
				case *ast.SelectorExpr:
					if sel := L.info.Selections[n]; sel != nil && sel.Kind() == types.FieldVal {
						if named, ok := sel.Recv().(*types.Named); ok && named.Obj().Name() == "State" && named.Obj().Pkg().Path() == pkg {
							fields[n.Sel.Name] = true
						}
					}
					// method calls on State
					if sel := L.info.Selections[n]; sel != nil && sel.Kind() == types.MethodVal {
						if named, ok := sel.Recv().(*types.Named); ok && named.Obj().Name() == "State" && named.Obj().Pkg().Path() == pkg {
							visit("State." + n.Sel.Name)
						}
					}
				case *ast.CallExpr:
					if id, ok := n.Fun.(*ast.Ident); ok {
						if _, isFn := L.info.Uses[id].(*types.Func); isFn {
							visit(id.Name)
						}
					}
				}
				return true
			})
		}
		visit(root)
		var fs []string
		for f := range fields {
			fs = append(fs, f)
		}
		sort.Strings(fs)
		sort.Strings(order)
		return fs, order
	}
	hdrFields, hdrFuncs := stateFieldsOf("ApplyHeader")
	emitList("headerStateFields", hdrFields, "State fields read or written by ApplyHeader and every consensus function it (transitively) calls")
	emitList("headerFuncs", hdrFuncs, "the consensus functions reachable from ApplyHeader")
	if fd := fn("ApplyBlock"); fd != nil {
		assigned := map[string]bool{}
		calledHeader := 0
		ast.Inspect(fd.Body, func(x ast.Node) bool {
			switch n := x.(type) {
			case *ast.AssignStmt:
				for _, l := range n.Lhs {
					if se, ok := l.(*ast.SelectorExpr); ok {
						if id, ok := se.X.(*ast.Ident); ok && id.Name == "s" {
							assigned[se.Sel.Name] = true
						}
					}
				}
			case *ast.IncDecStmt:
				if se, ok := n.X.(*ast.SelectorExpr); ok {
					if id, ok := se.X.(*ast.Ident); ok && id.Name == "s" {
						assigned[se.Sel.Name] = true
					}
				}
			case *ast.CallExpr:
				// pointer-receiver method call on a field of s mutates that field
				if se, ok := n.Fun.(*ast.SelectorExpr); ok {
					if inner, ok := se.X.(*ast.SelectorExpr); ok {
						if id, ok := inner.X.(*ast.Ident); ok && id.Name == "s" {
							if sel := L.info.Selections[se]; sel != nil && sel.Kind() == types.MethodVal {
								if sig, ok := sel.Obj().Type().(*types.Signature); ok && sig.Recv() != nil {
									if _, isPtr := sig.Recv().Type().(*types.Pointer); isPtr {
										assigned[inner.Sel.Name] = true
									}
								}
							}
						}
					}
				}
				if id, ok := n.Fun.(*ast.Ident); ok && id.Name == "ApplyHeader" {
					calledHeader++
					if len(n.Args) != 3 || types.ExprString(n.Args[0]) != "s" || types.ExprString(n.Args[1]) != "b.Header()" || types.ExprString(n.Args[2]) != "targetTimestamp" {
						fail("ApplyBlock no longer calls ApplyHeader(s, b.Header(), targetTimestamp): %s", types.ExprString(n))
					}
				}
			}
			return true
		})
		if calledHeader != 1 {
			fail("ApplyBlock calls ApplyHeader %d times (expected exactly once)", calledHeader)
		}
		var fs []string
		for f := range assigned {
			fs = append(fs, f)
		}
		sort.Strings(fs)
		emitList("blockOnlyStateFields", fs, "State fields ApplyBlock assigns (or mutates through a pointer method) itself, outside ApplyHeader")
	}
	sb.WriteString("\nend Gen.FactsPow\n")
	return sb.String(), rep, errs
}
