package main

// T-facts for C16 (RHP Merkle proofs): structural facts about the verifiers in
// rhp/v2/merkle.go that the hand-written model depends on, and the constants it
// uses. They become `SiaModel.Gen.FactsRhp`; the model READS
// `verifyMultiChecksLeafCount` (so it follows the code), and
// `SiaProofs/Props/C16Tie.lean` ties every fact to the value the theorems assume.

import (
	"bytes"
	"fmt"
	"go/ast"
	"go/constant"
	"go/printer"
	"go/token"
	"go/types"
	"strings"
)

func init() { registerFacts("FactsRhp", genFactsRhp) }

type rhpFacts struct {
	L    *loader
	sb   strings.Builder
	rep  map[string]any
	errs []string
}

func (f *rhpFacts) fail(format string, a ...any) {
	f.errs = append(f.errs, "FactsRhp: "+fmt.Sprintf(format, a...))
}

func (f *rhpFacts) src(n ast.Node) string {
	var b bytes.Buffer
	printer.Fprint(&b, f.L.fset, n)
	return strings.Join(strings.Fields(b.String()), " ")
}

func rhpLeanStr(s string) string {
	return "\"" + strings.ReplaceAll(strings.ReplaceAll(s, "\\", "\\\\"), "\"", "\\\"") + "\""
}

func (f *rhpFacts) defBool(name string, v bool, doc string) {
	fmt.Fprintf(&f.sb, "/-- %s -/\ndef %s : Bool := %v\n\n", doc, name, v)
	f.rep[name] = v
}

func (f *rhpFacts) defNat(name string, v string, doc string) {
	fmt.Fprintf(&f.sb, "/-- %s -/\ndef %s : Nat := %s\n\n", doc, name, v)
	f.rep[name] = v
}

func (f *rhpFacts) defStrList(name string, vs []string, doc string) {
	q := make([]string, len(vs))
	for i, v := range vs {
		q[i] = rhpLeanStr(v)
	}
	fmt.Fprintf(&f.sb, "/-- %s -/\ndef %s : List String := [%s]\n\n", doc, name, strings.Join(q, ", "))
	f.rep[name] = vs
}

// conjuncts flattens a && b && c.
func rhpConjuncts(e ast.Expr) []ast.Expr {
	if p, ok := e.(*ast.ParenExpr); ok {
		return rhpConjuncts(p.X)
	}
	if b, ok := e.(*ast.BinaryExpr); ok && b.Op == token.LAND {
		return append(rhpConjuncts(b.X), rhpConjuncts(b.Y)...)
	}
	return []ast.Expr{e}
}

// constNat evaluates a constant expression of the package to a decimal string.
func (f *rhpFacts) constOf(e ast.Expr) (string, bool) {
	if tv, ok := f.L.info.Types[e]; ok && tv.Value != nil {
		if v := constant.ToInt(tv.Value); v.Kind() == constant.Int {
			return v.ExactString(), true
		}
	}
	return "", false
}

func (f *rhpFacts) pkgConst(pkg, name string) (string, bool) {
	p := f.L.pkgs[pkg]
	if p == nil {
		return "", false
	}
	c, ok := p.Scope().Lookup(name).(*types.Const)
	if !ok {
		return "", false
	}
	if v := constant.ToInt(c.Val()); v.Kind() == constant.Int {
		return v.ExactString(), true
	}
	return "", false
}

// closure finds `name := func(...) {...}` in a function body.
func rhpClosure(fd *ast.FuncDecl, name string) *ast.FuncLit {
	var lit *ast.FuncLit
	ast.Inspect(fd.Body, func(n ast.Node) bool {
		if as, ok := n.(*ast.AssignStmt); ok && len(as.Lhs) == 1 && len(as.Rhs) == 1 {
			if id, ok := as.Lhs[0].(*ast.Ident); ok && id.Name == name {
				if l, ok := as.Rhs[0].(*ast.FuncLit); ok && lit == nil {
					lit = l
				}
			}
		}
		return true
	})
	return lit
}

// lengthGuard reports whether `body` has a top-level `if <cond> { return false }`
// whose condition is  uint64(len(<proofVar>)) != RangeProofSize(<args>)  and
// returns the printed arguments.
func (f *rhpFacts) lengthGuard(body *ast.BlockStmt, proofVar string) (bool, string) {
	for _, st := range body.List {
		is, ok := st.(*ast.IfStmt)
		if !ok || is.Init != nil || is.Else != nil || len(is.Body.List) != 1 {
			continue
		}
		rs, ok := is.Body.List[0].(*ast.ReturnStmt)
		if !ok || len(rs.Results) != 1 || f.src(rs.Results[0]) != "false" {
			continue
		}
		be, ok := is.Cond.(*ast.BinaryExpr)
		if !ok || be.Op != token.NEQ {
			continue
		}
		if f.src(be.X) != "uint64(len("+proofVar+"))" {
			continue
		}
		call, ok := be.Y.(*ast.CallExpr)
		if !ok || f.src(call.Fun) != "RangeProofSize" {
			continue
		}
		var args []string
		for _, a := range call.Args {
			args = append(args, f.src(a))
		}
		return true, strings.Join(args, ", ")
	}
	return false, ""
}

// rangeBound finds the second argument of the LAST call `fn(<first>, X)` statement in body.
func (f *rhpFacts) rangeBound(body *ast.BlockStmt, fn, first string) (string, bool) {
	val, found := "", false
	for _, st := range body.List {
		es, ok := st.(*ast.ExprStmt)
		if !ok {
			continue
		}
		call, ok := es.X.(*ast.CallExpr)
		if !ok || f.src(call.Fun) != fn || len(call.Args) != 2 || f.src(call.Args[0]) != first {
			continue
		}
		if v, ok := f.constOf(call.Args[1]); ok {
			val, found = v, true
		}
	}
	return val, found
}

func genFactsRhp(L *loader) (string, any, []string) {
	f := &rhpFacts{L: L, rep: map[string]any{}}
	f.sb.WriteString("/-! T-facts for C16: structure of the RHP Merkle verifiers and their constants. -/\nnamespace Gen.FactsRhp\n\n")
	rhp2 := coreMod + "/rhp/v2"
	b2 := coreMod + "/blake2b"

	// --- verifyMulti's verdict
	if fd := L.funcs[rhp2+".VerifyDiffProof"]; fd == nil {
		f.fail("rhp/v2.VerifyDiffProof not found")
	} else if lit := rhpClosure(fd, "verifyMulti"); lit == nil {
		f.fail("closure verifyMulti not found in VerifyDiffProof (%s)", L.pos(fd))
	} else {
		var rets []*ast.ReturnStmt
		for _, st := range lit.Body.List { // top-level returns only
			if r, ok := st.(*ast.ReturnStmt); ok {
				rets = append(rets, r)
			}
		}
		if len(rets) != 1 || len(rets[0].Results) != 1 {
			f.fail("verifyMulti: expected exactly one top-level `return <expr>` (%s)", L.pos(lit))
		} else {
			var cs []string
			for _, c := range rhpConjuncts(rets[0].Results[0]) {
				cs = append(cs, f.src(c))
			}
			has := func(s string) bool {
				for _, c := range cs {
					if c == s {
						return true
					}
				}
				return false
			}
			f.defStrList("verifyMultiVerdict", cs, "the conjuncts of verifyMulti's `return` ("+L.pos(rets[0])+")")
			f.defBool("verifyMultiChecksLeafCount", has("acc.numLeaves == numLeaves"),
				"does verifyMulti require its accumulator to end with exactly numLeaves leaves?")
			f.defBool("verifyMultiChecksRoot", has("acc.root() == root"), "verifyMulti compares the computed root")
			f.defBool("verifyMultiChecksNoLeftover", has("len(treeHashes) == 0"), "verifyMulti requires every tree hash to be consumed")
			known := map[string]bool{"acc.root() == root": true, "len(treeHashes) == 0": true, "acc.numLeaves == numLeaves": true}
			for _, c := range cs {
				if !known[c] {
					f.fail("verifyMulti: unmodelled conjunct %q in its verdict (%s)", c, L.pos(rets[0]))
				}
			}
		}
		// the two passes both go through verifyMulti and the leaf-hash count is checked first
		n := 0
		ast.Inspect(fd.Body, func(x ast.Node) bool {
			if c, ok := x.(*ast.CallExpr); ok && f.src(c.Fun) == "verifyMulti" {
				n++
			}
			return true
		})
		f.defNat("verifyDiffProofPasses", fmt.Sprint(n), "number of verifyMulti calls in VerifyDiffProof (old root, new root)")
	}

	// --- explicit proof-length checks of the range verifiers
	if fd := L.funcs[rhp2+".VerifySectorRangeProof"]; fd == nil {
		f.fail("rhp/v2.VerifySectorRangeProof not found")
	} else {
		ok, args := f.lengthGuard(fd.Body, "proof")
		f.defBool("verifySectorRangeProofChecksLength", ok && args == "numRoots, start, end",
			"VerifySectorRangeProof rejects unless uint64(len(proof)) == RangeProofSize(numRoots, start, end)")
		if v, ok := f.rangeBound(fd.Body, "insertRange", "end"); ok {
			f.defNat("verifyRangeRightBound", v, "VerifySectorRangeProof walks right of the range up to this bound (math.MaxUint64)")
		} else {
			f.fail("VerifySectorRangeProof: call insertRange(end, <const>) not found (%s)", L.pos(fd))
		}
	}
	if fd := L.funcs[rhp2+".RangeProofVerifier.Verify"]; fd == nil {
		f.fail("rhp/v2.RangeProofVerifier.Verify not found")
	} else {
		ok, args := f.lengthGuard(fd.Body, "proof")
		f.defBool("rangeProofVerifierChecksLength", ok && args == "LeavesPerSector, rpv.start, rpv.end",
			"RangeProofVerifier.Verify rejects unless uint64(len(proof)) == RangeProofSize(LeavesPerSector, rpv.start, rpv.end)")
	}
	if fd := L.funcs[rhp2+".BuildSectorRangeProof"]; fd == nil {
		f.fail("rhp/v2.BuildSectorRangeProof not found")
	} else if v, ok := f.rangeBound(fd.Body, "buildRange", "end"); ok {
		f.defNat("buildRangeRightBound", v, "BuildSectorRangeProof walks right of the range up to this bound (math.MaxInt32)")
	} else {
		f.fail("BuildSectorRangeProof: call buildRange(end, <const>) not found (%s)", L.pos(fd))
	}

	// --- constants
	for _, c := range []struct{ pkg, name, lean, doc string }{
		{rhp2, "LeafSize", "leafSize", "rhp/v2.LeafSize"},
		{rhp2, "LeavesPerSector", "leavesPerSector", "rhp/v2.LeavesPerSector"},
		{rhp2, "SectorSize", "sectorSize", "rhp/v2.SectorSize"},
		{coreMod + "/rhp/v4", "sectorSubtreeLeaves", "sectorSubtreeLeaves", "rhp/v4.sectorSubtreeLeaves"},
		{b2, "leafHashPrefix", "leafHashPrefix", "blake2b.leafHashPrefix"},
		{b2, "nodeHashPrefix", "nodeHashPrefix", "blake2b.nodeHashPrefix"},
	} {
		if v, ok := f.pkgConst(c.pkg, c.name); ok {
			f.defNat(c.lean, v, c.doc)
		} else {
			f.fail("constant %s not found", c.doc)
		}
	}
	f.sb.WriteString("end Gen.FactsRhp\n")
	return f.sb.String(), f.rep, f.errs
}
