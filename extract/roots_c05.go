package main

func init() {
	tcodeRoots = append(tcodeRoots,
		// C05 — accumulator bit helpers
		"consensus.mergeHeight", "consensus.clearBits",
	)
}
