package main

// T-facts for C17: the SKELETON of every rhp/v4 request `Validate` method that guards a
// contract/revision constructor, as Lean data (module SiaModel.Gen.FactsC17).
//
// For each method the generator walks the body in source order and emits one string per
//   short variable declaration   "x := expr"
//   if / else-if                 "if [init; ]cond"
//   switch                       "switch [tag]"        case clause  "case e1, e2" | "default"
//   range / for header           "for k, v := range x"
//   return                       "return nil" | "return error"
// (printed by go/printer, whitespace-normalised).  SiaProofs/Props/C17Validate.lean pins
// each skeleton to the text the hand model SiaModel/Rhp/V4Validate.lean was transcribed
// from, so any change to a bound, a comparison operator or the order of the checks breaks
// a tie; the behaviour itself is tied by the `rhp4v` correspondence ops.

import (
	"bytes"
	"fmt"
	"go/ast"
	"go/printer"
	"strings"
)

func init() { registerFacts("FactsC17", genFactsC17) }

func genFactsC17(L *loader) (string, any, []string) {
	var sb strings.Builder
	var errs []string
	rep := map[string]any{}
	sb.WriteString("/-! T-facts for C17: skeletons of the rhp/v4 request Validate methods. -/\nnamespace Gen.FactsC17\n\n")
	src := func(n ast.Node) string {
		var b bytes.Buffer
		printer.Fprint(&b, L.fset, n)
		return strings.Join(strings.Fields(b.String()), " ")
	}
	quote := func(s string) string {
		return "\"" + strings.ReplaceAll(strings.ReplaceAll(s, "\\", "\\\\"), "\"", "\\\"") + "\""
	}
	returnsError := true
	var walk func(out *[]string, s ast.Stmt)
	walkBlock := func(out *[]string, l []ast.Stmt) {
		for _, s := range l {
			walk(out, s)
		}
	}
	walk = func(out *[]string, s ast.Stmt) {
		switch x := s.(type) {
		case *ast.AssignStmt:
			*out = append(*out, src(x))
		case *ast.DeclStmt:
			*out = append(*out, src(x))
		case *ast.IfStmt:
			h := "if "
			if x.Init != nil {
				h += src(x.Init) + "; "
			}
			*out = append(*out, h+src(x.Cond))
			walkBlock(out, x.Body.List)
			if x.Else != nil {
				*out = append(*out, "else")
				switch e := x.Else.(type) {
				case *ast.BlockStmt:
					walkBlock(out, e.List)
				default:
					walk(out, e)
				}
			}
		case *ast.SwitchStmt:
			h := "switch"
			if x.Init != nil {
				h += " " + src(x.Init) + ";"
			}
			if x.Tag != nil {
				h += " " + src(x.Tag)
			}
			*out = append(*out, h)
			for _, c := range x.Body.List {
				cc := c.(*ast.CaseClause)
				if len(cc.List) == 0 {
					*out = append(*out, "default")
				} else {
					var es []string
					for _, e := range cc.List {
						es = append(es, src(e))
					}
					*out = append(*out, "case "+strings.Join(es, ", "))
				}
				walkBlock(out, cc.Body)
			}
		case *ast.RangeStmt:
			h := "for "
			if x.Key != nil {
				h += src(x.Key)
			}
			if x.Value != nil {
				h += ", " + src(x.Value)
			}
			*out = append(*out, h+" := range "+src(x.X))
			walkBlock(out, x.Body.List)
			*out = append(*out, "end for")
		case *ast.ForStmt:
			*out = append(*out, "for "+src(x.Cond))
			walkBlock(out, x.Body.List)
			*out = append(*out, "end for")
		case *ast.BlockStmt:
			walkBlock(out, x.List)
		case *ast.ReturnStmt:
			if !returnsError {
				*out = append(*out, src(x))
			} else if len(x.Results) == 1 && src(x.Results[0]) == "nil" {
				*out = append(*out, "return nil")
			} else {
				*out = append(*out, "return error")
			}
		default:
			*out = append(*out, src(x))
		}
	}
	pkg := coreMod + "/rhp/v4"
	for _, m := range []struct{ fn, lean string }{
		{"RPCFreeSectorsRequest.Validate", "freeSectors"},
		{"RPCAppendSectorsRequest.Validate", "appendSectors"},
		{"RPCSectorRootsRequest.Validate", "sectorRoots"},
		{"RPCFundAccountsRequest.Validate", "fundAccounts"},
		{"RPCReplenishAccountsRequest.Validate", "replenishAccounts"},
		{"RPCFormContractRequest.Validate", "formContract"},
		{"RPCRenewContractRequest.Validate", "renewContract"},
		{"RPCRefreshContractRequest.Validate", "refreshContract"},
		{"RPCReadSectorRequest.Validate", "readSector"},
		{"RPCWriteSectorRequest.Validate", "writeSector"},
		{"minProofHeight", "minProofHeight"},
	} {
		fd := L.funcs[pkg+"."+m.fn]
		if fd == nil || fd.Body == nil {
			errs = append(errs, "FactsC17: rhp/v4."+m.fn+" not found")
			continue
		}
		var out []string
		returnsError = fd.Type.Results != nil && len(fd.Type.Results.List) == 1 && src(fd.Type.Results.List[0].Type) == "error"
		walkBlock(&out, fd.Body.List)
		q := make([]string, len(out))
		for i, v := range out {
			q[i] = "\n  " + quote(v)
		}
		fmt.Fprintf(&sb, "/-- skeleton of rhp/v4.%s (%s), signature `%s` -/\ndef %s : List String := [%s]\n\n", m.fn, L.pos(fd), src(fd.Type), m.lean, strings.Join(q, ","))
		rep[m.lean] = out
	}
	// the constants the bounds refer to
	for _, cn := range []string{"SectorSize", "MaxSectorBatchSize", "MaxAccountBatchSize", "ProofWindow", "MinContractDuration", "LeafSize"} {
		found := false
		for _, f := range L.files[pkg] {
			ast.Inspect(f, func(n ast.Node) bool {
				vs, ok := n.(*ast.ValueSpec)
				if !ok {
					return true
				}
				for i, id := range vs.Names {
					if id.Name == cn && i < len(vs.Values) {
						if tv, ok := L.info.Types[vs.Values[i]]; ok && tv.Value != nil {
							fmt.Fprintf(&sb, "def const%s : Nat := %s\n", cn, tv.Value.ExactString())
							rep["const"+cn] = tv.Value.ExactString()
							found = true
						}
					}
				}
				return true
			})
		}
		if !found {
			errs = append(errs, "FactsC17: constant rhp/v4."+cn+" not found")
		}
	}
	sb.WriteString("\nend Gen.FactsC17\n")
	return sb.String(), rep, errs
}
