package main

// T-facts for the C01 ties (ledger arithmetic helpers): the parts of the code
// that cannot be translated as T-code — State.FileContractTax (math/big and a
// float64 constant) and the siafund claim expression, which is written inline
// in ApplyTransaction / ApplyV2Transaction — recorded as syntax so that a
// change of a constant or of the operation chain breaks a tie.

import (
	"fmt"
	"go/ast"
	"go/token"
	"go/types"
	"strings"
)

func init() { registerFacts("FactsLedger", genFactsLedger) }

func genFactsLedger(L *loader) (string, any, []string) {
	const pkg = coreMod + "/consensus"
	var errs []string
	fail := func(f string, a ...any) { errs = append(errs, "FactsLedger: "+fmt.Sprintf(f, a...)) }
	rep := map[string]any{}
	var sb strings.Builder
	sb.WriteString("namespace Gen.FactsLedger\n\n")
	emit := func(name string, xs []string, doc string) {
		qs := make([]string, len(xs))
		for i, x := range xs {
			qs[i] = fmt.Sprintf("%q", x)
		}
		fmt.Fprintf(&sb, "/-- %s -/\ndef %s : List String := [%s]\n", doc, name, strings.Join(qs, ", "))
		rep[name] = xs
	}
	// ---- FileContractTax: literals and math/big calls in source order
	if fd := L.funcs[pkg+".State.FileContractTax"]; fd == nil || fd.Body == nil {
		fail("consensus.State.FileContractTax not found")
	} else {
		var lits, calls []string
		ast.Inspect(fd.Body, func(n ast.Node) bool {
			switch x := n.(type) {
			case *ast.BasicLit:
				if x.Kind == token.INT || x.Kind == token.FLOAT {
					lits = append(lits, x.Value)
				}
			case *ast.CallExpr:
				if se, ok := x.Fun.(*ast.SelectorExpr); ok {
					calls = append(calls, se.Sel.Name)
				}
			}
			return true
		})
		emit("fileContractTaxLits", lits, "numeric literals of State.FileContractTax in source order")
		emit("fileContractTaxCalls", calls, "method/function selectors called by State.FileContractTax in source order")
		// the era test
		var conds []string
		ast.Inspect(fd.Body, func(n ast.Node) bool {
			if is, ok := n.(*ast.IfStmt); ok {
				conds = append(conds, types.ExprString(is.Cond))
			}
			return true
		})
		emit("fileContractTaxConds", conds, "the branch condition of State.FileContractTax")
	}
	// ---- the claim expression
	for _, fn := range []string{"MidState.ApplyTransaction", "MidState.ApplyV2Transaction"} {
		fd := L.funcs[pkg+"."+fn]
		if fd == nil || fd.Body == nil {
			fail("consensus.%s not found", fn)
			continue
		}
		var found []string
		ast.Inspect(fd.Body, func(n ast.Node) bool {
			if as, ok := n.(*ast.AssignStmt); ok && len(as.Lhs) == 1 && len(as.Rhs) == 1 {
				if id, ok := as.Lhs[0].(*ast.Ident); ok && id.Name == "claimPortion" {
					found = append(found, types.ExprString(as.Rhs[0]))
				}
			}
			return true
		})
		if len(found) != 1 {
			fail("consensus.%s: expected exactly one `claimPortion := …`, found %d", fn, len(found))
		}
		emit("claimExpr_"+strings.TrimPrefix(fn, "MidState."), found, "the siafund claim computed by "+fn)
	}
	sb.WriteString("\nend Gen.FactsLedger\n")
	return sb.String(), rep, errs
}
