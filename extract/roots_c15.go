package main

func init() {
	tcodeRoots = append(tcodeRoots,
		// C15 — currency
		"types.Currency.Cmp",
		"types.Currency.Add", "types.Currency.AddWithOverflow",
		"types.Currency.Sub", "types.Currency.SubWithUnderflow",
		"types.Currency.Mul", "types.Currency.MulWithOverflow",
		"types.Currency.Mul64", "types.Currency.Mul64WithOverflow",
		"types.Currency.Div", "types.Currency.Div64",
		"types.Currency.quoRem", "types.Currency.quoRem64",
		"types.Currency.IsZero", "types.Currency.Equals",
		"types.NewCurrency", "types.NewCurrency64", "types.Siacoins",
	)
}
