package main

func init() {
	tcodeRoots = append(tcodeRoots,
		// C01 — the ledger model's arithmetic helpers (state.go), tied by translation
		"consensus.State.childHeight",
		"consensus.State.BlockReward",
		"consensus.State.MaturityHeight",
		"consensus.State.SiafundCount",
		"consensus.State.FoundationSubsidy",
		"consensus.State.NonceFactor",
		"consensus.State.MaxBlockWeight",
		"consensus.State.BlockInterval",
		"consensus.State.AncestorDepth",
	)
}

func init() {
	// C01 — "miner fees reappear exactly in the miner payout": the payout rule itself, loops included
	tcodeRoots = append(tcodeRoots, "consensus.validateMinerPayouts")
}
