package main

// T-code regions: the v2 file-contract rules of consensus/validation.go (closures of
// validateV2FileContracts and the per-resolution case bodies), translated statement by
// statement on every run.  SiaProofs/Props/C07Gen.lean relates them to the hand-written
// ledger rules (SiaModel/Ledger/ContractRules.lean) the C07/C17 theorems are stated over.
func init() {
	const f = "consensus.validateV2FileContracts"
	regionRoots = append(regionRoots,
		regionSpec{fn: f, name: "validateSignatures", closure: "validateSignatures"},
		regionSpec{fn: f, name: "validateContract", closure: "validateContract"},
		regionSpec{fn: f, name: "validateRevisionRules", closure: "validateRevision", from: "curOutputSum :="},
		regionSpec{fn: f, name: "renewalRules", from: "renewal := *r"},
		regionSpec{fn: f, name: "storageProofRules", from: "sp := *r"},
		regionSpec{fn: f, name: "expirationRules", from: "if ms.base.childHeight() <= fc.ExpirationHeight"},
	)
}
