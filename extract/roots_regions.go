package main

// T-code regions: the v2 file-contract rules of consensus/validation.go (closures of
// validateV2FileContracts and the per-resolution case bodies), translated statement by
// statement on every run.  SiaProofs/Props/C07Gen.lean relates them to the hand-written
// ledger rules (SiaModel/Ledger/ContractRules.lean) the C07/C17 theorems are stated over.
func init() {
	const f = "consensus.validateV2FileContracts"
	regionRoots = append(regionRoots,
		regionSpec{fn: f, name: "validateSignatures", closure: "validateSignatures"},
		regionSpec{fn: f, name: "validateContract", closure: "validateContract"},
		regionSpec{fn: f, name: "validateRevisionRules", closure: "validateRevision", from: "curOutputSum :="},
		regionSpec{fn: f, name: "renewalRules", from: "renewal := *r"},
		regionSpec{fn: f, name: "storageProofRules", from: "sp := *r"},
		regionSpec{fn: f, name: "expirationRules", from: "if ms.base.childHeight() <= fc.ExpirationHeight"},
	)
}

func init() {
	// C10 — the range check of v1 covered fields (guard of fix 14c9be0): closure `inRange` and the body that calls it
	regionRoots = append(regionRoots,
		regionSpec{fn: "consensus.validCoveredFields", name: "body", from: "if cf.WholeTransaction"},
	)
}

func init() {
	// C07/C01/C08 — the v1 contract rules (formation and revision loop bodies of validateFileContracts)
	const f = "consensus.validateFileContracts"
	regionRoots = append(regionRoots,
		regionSpec{fn: f, name: "formationRules", from: "if fc.WindowStart < ms.base.childHeight()"},
		regionSpec{fn: f, name: "revisionRulesA", from: "if fcr.UnlockConditions.Timelock > ms.base.childHeight()", to: "parent, ok := ms.fileContractElement"},
		regionSpec{fn: f, name: "revisionRulesB", from: "parent, ok := ms.fileContractElement"},
	)
	extFuncs[coreMod+"/consensus.State.FileContractTax"] = "FileContractTax"
	extFuncs[coreMod+"/consensus.MidState.fileContractElement"] = "fileContractElement"
	extFuncs[coreMod+"/types.UnlockConditions.UnlockHash"] = "UnlockHash"
}

func init() {
	// C04 — the block supplement: every v1 parent record must be a member of the accumulator (whole function, loops included)
	extFuncs[coreMod+"/consensus.ElementAccumulator.containsUnresolvedFileContractElement"] = "containsUnresolvedFileContractElement"
	extFuncs[coreMod+"/consensus.ElementAccumulator.containsResolvedFileContractElement"] = "containsResolvedFileContractElement"
	tcodeRoots = append(tcodeRoots, "consensus.validateSupplement")
}

func init() {
	// C01 — the balance equation of a v2 transaction (second half of validateV2Siacoins: four loops, a type assertion)
	regionRoots = append(regionRoots,
		regionSpec{fn: "consensus.validateV2Siacoins", name: "balance", from: "var inputSum, outputSum types.Currency"},
	)
}

func init() {
	// C01 — "the total number of siafunds never changes": the siafund balance check of a v2 transaction (uint64 sums)
	regionRoots = append(regionRoots,
		regionSpec{fn: "consensus.validateV2Siafunds", name: "balance", from: "var inputSum, outputSum uint64"},
	)
}

func init() {
	// C02 / C03 / C04 / C08 — what validation establishes about ONE v2 siacoin / siafund input (the second halves of the loop
	// bodies of validateV2Siacoins and validateV2Siafunds: accumulator membership / ephemeral check, spend policy)
	extFuncs[coreMod+"/consensus.validateEphemeralSiacoinElement"] = "validateEphemeralSiacoinElement"
	extFuncs[coreMod+"/consensus.validateEphemeralSiafundElement"] = "validateEphemeralSiafundElement"
	tcodeRoots = append(tcodeRoots, "consensus.validateV2SpendPolicy")
	regionRoots = append(regionRoots,
		regionSpec{fn: "consensus.validateV2Siacoins", name: "inputFresh", from: "if txid, ok := ms.spent(sci.Parent.ID); ok", to: "spent[sci.Parent.ID] = i"},
		regionSpec{fn: "consensus.validateV2Siafunds", name: "inputFresh", from: "if txid, ok := ms.spent(sfi.Parent.ID); ok", to: "spent[sfi.Parent.ID] = i"},
		regionSpec{fn: "consensus.validateV2Siacoins", name: "inputMember", from: "if sci.Parent.StateElement.LeafIndex == types.UnassignedLeafIndex", to: "if err := validateV2SpendPolicy"},
		regionSpec{fn: "consensus.validateV2Siafunds", name: "inputMember", from: "if sfi.Parent.StateElement.LeafIndex == types.UnassignedLeafIndex", to: "if err := validateV2SpendPolicy"},
	)
}

func init() {
	// C02 — no parent is named twice by the inputs of one v2 transaction: the whole first loop of validateV2Siacoins /
	// validateV2Siafunds (map writes included) as one definition
	extFuncs[coreMod+"/consensus.State.InputSigHash"] = "InputSigHash"
	regionRoots = append(regionRoots,
		regionSpec{fn: "consensus.validateV2Siacoins", name: "inputs", from: "sigHash := ms.base.InputSigHash(txn)", to: "var inputSum, outputSum types.Currency"},
		regionSpec{fn: "consensus.validateV2Siafunds", name: "inputs", from: "sigHash := ms.base.InputSigHash(txn)", to: "var inputSum, outputSum uint64"},
	)
}

func init() {
	// C01 / C03 / C08 — the v1 siacoin and siafund rules, whole functions (loops included)
	extFuncs[coreMod+"/consensus.MidState.siacoinElement"] = "siacoinElement"
	extFuncs[coreMod+"/consensus.MidState.siafundElement"] = "siafundElement"
	tcodeRoots = append(tcodeRoots, "consensus.validateSiacoins", "consensus.validateSiafunds")
}

func init() {
	// C03 — attestations and the Foundation address update (whole functions)
	tcodeRoots = append(tcodeRoots, "consensus.validateAttestations", "consensus.validateFoundationUpdate")
}

func init() {
	// C03 / C07 — validateRevision as a whole: which contract a revision is judged against (the latest in-block
	// revision if there is one, else the parent element's contract), then the rule chain
	regionRoots = append(regionRoots,
		regionSpec{fn: "consensus.validateV2FileContracts", name: "validateRevision", closure: "validateRevision"},
	)
}

func init() {
	// C01 / C10 — the check of a same-block ("ephemeral") parent record, whole functions
	tcodeRoots = append(tcodeRoots, "consensus.validateEphemeralSiacoinElement", "consensus.validateEphemeralSiafundElement")
}

func init() {
	// C02 / C07 — the revision loop of validateV2FileContracts (closures validateParent and validateRevision, the
	// `revised` bookkeeping map) as one definition
	regionRoots = append(regionRoots,
		regionSpec{fn: "consensus.validateV2FileContracts", name: "revisions", from: "for i, fcr := range txn.FileContractRevisions", to: "for i, fcr := range txn.FileContractResolutions"},
	)
}

func init() {
	// the top of v2 transaction validation: ValidateV2Transaction as a whole, calling the regenerated validateV2Siacoins,
	// validateV2Siafunds, validateAttestations, validateFoundationUpdate; what is not generated is external
	extFuncs[coreMod+"/consensus.validateV2CurrencyOverflow"] = "validateV2CurrencyOverflow"
	extFuncs[coreMod+"/consensus.State.V2TransactionWeight"] = "V2TransactionWeight"
	extFuncs[coreMod+"/consensus.validateV2FileContracts"] = "validateV2FileContracts"
	tcodeRoots = append(tcodeRoots, "consensus.ValidateV2Transaction", "consensus.validateV2Siacoins", "consensus.validateV2Siafunds")
}

func init() {
	// the top of v1 transaction validation, the same way
	extFuncs[coreMod+"/consensus.validateCurrencyOverflow"] = "validateCurrencyOverflow"
	extFuncs[coreMod+"/consensus.State.TransactionWeight"] = "TransactionWeight"
	extFuncs[coreMod+"/consensus.validateMinimumValues"] = "validateMinimumValues"
	extFuncs[coreMod+"/consensus.validateFileContracts"] = "validateFileContracts"
	extFuncs[coreMod+"/consensus.validateArbitraryData"] = "validateArbitraryData"
	extFuncs[coreMod+"/consensus.validateSignatures"] = "validateSignatures"
	tcodeRoots = append(tcodeRoots, "consensus.ValidateTransaction")
}
