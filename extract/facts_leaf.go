package main

// T-facts for the element leaf constructors of consensus/merkle.go (property C04:
// the leaf hash commits to every field of the element).
//
//	Gen.FactsLeaf.leafConstructors      (function, distinguisher, hashAll arguments with how hashAll writes them)
//	Gen.FactsLeaf.leafSchema_<fn>       the schema of the hashed content after the distinguisher,
//	                                    built from the generated codec schemas of the argument types
//	Gen.FactsLeaf.leafSchemas           (function, distinguisher, schema)
//	Gen.FactsLeaf.elementDeclaredFields (function, element type, declared struct fields)
//	Gen.FactsLeaf.leafCoveredFields     (function, fields of the element read by the hashAll arguments
//	                                    — through the local alias `fc` too — or handed on as &e.StateElement)
//	Gen.FactsLeaf.leafReturns           the parts of the returned elementLeaf literal
//	Gen.FactsLeaf.leafBodies            the normalised statements of each constructor
//	Gen.FactsLeaf.elementLeafFields / elementLeafHashBody / stateElementFields
//
// A constructor that cannot be read this way is an error (broken tie), never skipped.

import (
	"fmt"
	"go/ast"
	"go/constant"
	"go/types"
	"sort"
	"strings"
)

func init() { registerFacts("FactsLeaf", genFactsLeaf) }

func genFactsLeaf(L *loader) (string, any, []string) {
	const tpkg = coreMod + "/types"
	const cpkg = coreMod + "/consensus"
	var errs []string
	fail := func(f string, a ...any) { errs = append(errs, "FactsLeaf: "+fmt.Sprintf(f, a...)) }
	idsFset = L.fset
	rep := map[string]any{}
	var sb strings.Builder
	sb.WriteString("import SiaModel.Gen.FactsSchema\n")
	sb.WriteString("/-! T-facts: the element leaf constructors of consensus/merkle.go (see extract/facts_leaf.go). -/\n")
	sb.WriteString("namespace Gen.FactsLeaf\nopen Sia.Codec Sia.Codec.Gen\n\n")

	schemaOf := func(t types.Type) (string, bool) {
		if n, ok := t.(*types.Named); ok && n.Obj().Pkg() != nil {
			switch n.Obj().Pkg().Path() {
			case tpkg:
				return "encSchema_Types_" + n.Obj().Name(), true
			case cpkg:
				return "encSchema_Consensus_" + n.Obj().Name(), true
			}
		}
		return "", false
	}
	typeName := func(t types.Type) string {
		return types.TypeString(t, func(p *types.Package) string {
			if p.Path() == tpkg {
				return "types"
			} else if p.Path() == cpkg {
				return "consensus"
			}
			return p.Name()
		})
	}

	type ctor struct {
		name     string
		dist     string
		args     [][2]string // (text, kind)
		schema   []string    // (label, schema term)
		elemType string
		declared []string
		covered  []string
		ret      []string
		body     []string
	}
	var ctors []ctor
	var fds []*ast.FuncDecl
	for _, f := range L.files[cpkg] {
		for _, d := range f.Decls {
			fd, ok := d.(*ast.FuncDecl)
			if !ok || fd.Body == nil || fd.Recv != nil || !strings.HasSuffix(fd.Name.Name, "Leaf") {
				continue
			}
			if fd.Type.Results == nil || len(fd.Type.Results.List) != 1 || normExpr(fd.Type.Results.List[0].Type) != "elementLeaf" {
				continue
			}
			fds = append(fds, fd)
		}
	}
	sort.Slice(fds, func(i, j int) bool { return fds[i].Pos() < fds[j].Pos() })
	if len(fds) == 0 {
		fail("no function `…Leaf(…) elementLeaf` found in package consensus")
	}
	for _, fd := range fds {
		c := ctor{name: fd.Name.Name}
		// first parameter: e *types.XElement
		if len(fd.Type.Params.List) == 0 || len(fd.Type.Params.List[0].Names) != 1 {
			fail("%s: first parameter not understood", c.name)
			continue
		}
		pname := fd.Type.Params.List[0].Names[0].Name
		ptv, ok := L.info.Types[fd.Type.Params.List[0].Type]
		if !ok {
			fail("%s: no type for the first parameter", c.name)
			continue
		}
		pt := ptv.Type
		if p, ok := pt.(*types.Pointer); ok {
			pt = p.Elem()
		}
		st, ok := pt.Underlying().(*types.Struct)
		if !ok {
			fail("%s: first parameter is not a (pointer to a) struct", c.name)
			continue
		}
		c.elemType = typeName(pt)
		for i := 0; i < st.NumFields(); i++ {
			c.declared = append(c.declared, st.Field(i).Name())
		}
		// aliases: x := e.Field
		alias := map[string]string{}
		covered := map[string]bool{}
		var hashCalls []*ast.CallExpr
		for _, s := range fd.Body.List {
			c.body = append(c.body, normStmt(L, s))
			if as, ok := s.(*ast.AssignStmt); ok && len(as.Lhs) == 1 && len(as.Rhs) == 1 {
				if id, ok := as.Lhs[0].(*ast.Ident); ok {
					if sel, ok := as.Rhs[0].(*ast.SelectorExpr); ok {
						if x, ok := sel.X.(*ast.Ident); ok && x.Name == pname {
							alias[id.Name] = sel.Sel.Name
						}
					}
				}
			}
		}
		ast.Inspect(fd.Body, func(x ast.Node) bool {
			if call, ok := x.(*ast.CallExpr); ok {
				if id, ok := call.Fun.(*ast.Ident); ok && id.Name == "hashAll" {
					hashCalls = append(hashCalls, call)
				}
			}
			return true
		})
		if len(hashCalls) != 1 {
			fail("%s: expected exactly one hashAll call, found %d", c.name, len(hashCalls))
			continue
		}
		for i, a := range hashCalls[0].Args {
			tv := L.info.Types[a]
			if i == 0 {
				if tv.Value == nil || tv.Value.Kind() != constant.String {
					fail("%s: first hashAll argument is not a constant distinguisher", c.name)
				} else {
					c.dist = constant.StringVal(tv.Value)
				}
				continue
			}
			txt := normExpr(a)
			kind, sch := "", ""
			if b, ok := tv.Type.Underlying().(*types.Basic); ok {
				if _, named := tv.Type.(*types.Named); !named {
					switch b.Kind() {
					case types.Uint64:
						kind, sch = "u64", ".u64"
					case types.Uint8:
						kind, sch = "u8", ".u8"
					}
				}
			}
			if kind == "" {
				if s, ok := schemaOf(tv.Type); ok {
					kind, sch = "enc:"+typeName(tv.Type), s
				} else {
					fail("%s: hashAll argument %s has a type that cannot be modelled", c.name, txt)
					kind, sch = "?", ".nil"
				}
			}
			c.args = append(c.args, [2]string{txt, kind})
			c.schema = append(c.schema, fmt.Sprintf(".cons %s %s <|", leanStr(txt), sch))
			ast.Inspect(a, func(x ast.Node) bool {
				switch n := x.(type) {
				case *ast.SelectorExpr:
					if id, ok := n.X.(*ast.Ident); ok && id.Name == pname {
						covered[n.Sel.Name] = true
					}
				case *ast.Ident:
					if f, ok := alias[n.Name]; ok {
						covered[f] = true
					}
				}
				return true
			})
		}
		// the returned literal
		for _, s := range fd.Body.List {
			if rs, ok := s.(*ast.ReturnStmt); ok && len(rs.Results) == 1 {
				if cl, ok := rs.Results[0].(*ast.CompositeLit); ok {
					for _, e := range cl.Elts {
						c.ret = append(c.ret, normExpr(e))
						if u, ok := e.(*ast.UnaryExpr); ok {
							if sel, ok := u.X.(*ast.SelectorExpr); ok {
								if id, ok := sel.X.(*ast.Ident); ok && id.Name == pname {
									covered[sel.Sel.Name] = true
								}
							}
						}
					}
				}
			}
		}
		if len(c.ret) == 0 {
			fail("%s: no `return elementLeaf{…}` found", c.name)
		}
		for _, f := range c.declared {
			if covered[f] {
				c.covered = append(c.covered, f)
			}
		}
		ctors = append(ctors, c)
	}

	pairList := func(ps [][2]string) string {
		var q []string
		for _, p := range ps {
			q = append(q, "("+leanStr(p[0])+", "+leanStr(p[1])+")")
		}
		return "[" + strings.Join(q, ", ") + "]"
	}
	sb.WriteString("/-- (constructor, distinguisher, hashAll arguments after the distinguisher as (source text, how hashAll writes it)) -/\n")
	sb.WriteString("def leafConstructors : List (String × String × List (String × String)) := [\n")
	for i, c := range ctors {
		sep := ","
		if i == len(ctors)-1 {
			sep = ""
		}
		sb.WriteString("  (" + leanStr(c.name) + ", " + leanStr(c.dist) + ", " + pairList(c.args) + ")" + sep + "\n")
	}
	sb.WriteString("]\n\n")
	for _, c := range ctors {
		sb.WriteString(fmt.Sprintf("/-- what %s hashes after its distinguisher -/\ndef leafSchema_%s : Sch :=\n", c.name, c.name))
		for _, l := range c.schema {
			sb.WriteString("  " + l + "\n")
		}
		sb.WriteString("  .nil\n\n")
	}
	sb.WriteString("def leafSchemas : List (String × String × Sch) := [\n")
	for i, c := range ctors {
		sep := ","
		if i == len(ctors)-1 {
			sep = ""
		}
		sb.WriteString(fmt.Sprintf("  (%s, %s, leafSchema_%s)%s\n", leanStr(c.name), leanStr(c.dist), c.name, sep))
	}
	sb.WriteString("]\n\n")
	triple := func(name string, doc string, f func(c ctor) string) {
		sb.WriteString("/-- " + doc + " -/\ndef " + name + " := [\n")
		for i, c := range ctors {
			sep := ","
			if i == len(ctors)-1 {
				sep = ""
			}
			sb.WriteString("  " + f(c) + sep + "\n")
		}
		sb.WriteString("]\n\n")
	}
	triple("elementDeclaredFields : List (String × String × List String)", "(constructor, element type, declared fields of the element struct)",
		func(c ctor) string { return "(" + leanStr(c.name) + ", " + leanStr(c.elemType) + ", " + leanStrList(c.declared) + ")" })
	triple("leafCoveredFields : List (String × List String)", "(constructor, element fields read by the hashAll arguments or handed on as &e.StateElement)",
		func(c ctor) string { return "(" + leanStr(c.name) + ", " + leanStrList(c.covered) + ")" })
	triple("leafReturns : List (String × List String)", "(constructor, parts of the returned elementLeaf literal)",
		func(c ctor) string { return "(" + leanStr(c.name) + ", " + leanStrList(c.ret) + ")" })
	triple("leafBodies : List (String × List String)", "(constructor, normalised statements)",
		func(c ctor) string { return "(" + leanStr(c.name) + ", " + leanStrList(c.body) + ")" })

	// elementLeaf struct, its hash method, StateElement
	structFields := func(pkg, name string) [][2]string {
		p := L.pkgs[pkg]
		if p == nil {
			fail("package %s not loaded", pkg)
			return nil
		}
		obj := p.Scope().Lookup(name)
		if obj == nil {
			fail("type %s.%s not found", pkg, name)
			return nil
		}
		st, ok := obj.Type().Underlying().(*types.Struct)
		if !ok {
			fail("%s.%s is not a struct", pkg, name)
			return nil
		}
		var out [][2]string
		for i := 0; i < st.NumFields(); i++ {
			out = append(out, [2]string{st.Field(i).Name(), typeName(st.Field(i).Type())})
		}
		return out
	}
	sb.WriteString("def elementLeafFields : List (String × String) := " + pairList(structFields(cpkg, "elementLeaf")) + "\n\n")
	sb.WriteString("def stateElementFields : List (String × String) := " + pairList(structFields(tpkg, "StateElement")) + "\n\n")
	var hashBody []string
	if fd := L.funcs[cpkg+".elementLeaf.hash"]; fd != nil && fd.Body != nil {
		for _, s := range fd.Body.List {
			hashBody = append(hashBody, normStmt(L, s))
		}
	} else {
		fail("method elementLeaf.hash not found")
	}
	sb.WriteString("/-- the statements of `elementLeaf.hash` -/\ndef elementLeafHashBody : List String := " + leanStrList(hashBody) + "\n\n")
	lp := ""
	if p := L.pkgs[cpkg]; p != nil {
		if o, ok := p.Scope().Lookup("leafHashPrefix").(*types.Const); ok {
			lp = o.Val().ExactString()
		}
	}
	if lp == "" {
		fail("constant leafHashPrefix not found")
		lp = "0"
	}
	sb.WriteString("def leafHashPrefix : Nat := " + lp + "\n")
	sb.WriteString("\nend Gen.FactsLeaf\n")
	rep["constructors"] = len(ctors)
	return sb.String(), rep, errs
}
