package main

func init() {
	tcodeRoots = append(tcodeRoots,
		// C17 — RHP contract constructors (rhp/v4)
		"rhp/v4.round4KiB",
		"rhp/v4.Usage.RenterCost", "rhp/v4.Usage.HostRiskedCollateral", "rhp/v4.Usage.Add", "rhp/v4.Usage.Mul",
		"rhp/v4.HostPrices.RPCReadSectorCost", "rhp/v4.HostPrices.RPCWriteSectorCost", "rhp/v4.HostPrices.RPCSectorRootsCost",
		"rhp/v4.HostPrices.RPCVerifySectorCost", "rhp/v4.HostPrices.RPCFreeSectorsCost", "rhp/v4.HostPrices.RPCAppendSectorsCost",
		"rhp/v4.NewContract", "rhp/v4.ContractCost", "rhp/v4.RenewalCost", "rhp/v4.RefreshCost",
		"rhp/v4.PayWithContract",
		"rhp/v4.ReviseForFreeSectors", "rhp/v4.ReviseForAppendSectors", "rhp/v4.ReviseForSectorRoots",
		"rhp/v4.ReviseForFundAccounts", "rhp/v4.ReviseForReplenish",
		"rhp/v4.MinRenterAllowance", "rhp/v4.MaxHostCollateral",
		"rhp/v4.RenewContract", "rhp/v4.RefreshContractPartialRollover", "rhp/v4.RefreshContractFullRollover",
		"types.V2FileContract.RiskedCollateral", "types.V2FileContract.RiskedHostRevenue", "types.V2FileContract.MissedHostOutput",
		"consensus.State.V2FileContractTax",
	)
}
