package main

// T-facts for C12 / C03 (ids, sighashes, authorisation call shapes).
//
//  * every `hashAll(...)` call of packages types and consensus: enclosing function,
//    the distinguisher string (if any) and, per argument, its source text and how
//    hashAll writes it (dist | u8 | u64 | bool | enc:<static type>);
//  * the hasher-based derivations (WholeSigHash, PartialSigHash, State.MerkleLeafHash,
//    BlockHeader.ID, blockMerkleRoot, Commitment, Block.Header): one canonical token per
//    statement;
//  * the statements of V2TransactionSemantics.EncodeTo as a schema-like list: per
//    V2Transaction field, the form in which it is written;
//  * the replay-prefix switch (condition -> prefix bytes) and v2ReplayPrefix;
//  * which keys are handed to signature verification in validateV2FileContracts
//    (formation, revision: keys of `cur`, renewal: keys of the parent), in
//    validateAttestations, and the signed check of validateArbitraryData /
//    validateFoundationUpdate.
//
// Everything is read from the syntax tree of /repo's working tree; a derivation that
// cannot be parsed is an error (broken tie), never skipped.

import (
	"bytes"
	"fmt"
	"go/ast"
	"go/constant"
	"go/printer"
	"go/token"
	"go/types"
	"sort"
	"strings"
)

func init() { registerFacts("FactsIds", genFactsIds) }

func leanStr(s string) string {
	var sb strings.Builder
	sb.WriteByte('"')
	for _, r := range s {
		switch {
		case r == '"':
			sb.WriteString("\\\"")
		case r == '\\':
			sb.WriteString("\\\\")
		case r == '\n':
			sb.WriteString("\\n")
		case r == '\t':
			sb.WriteString("\\t")
		case r < 0x20 || r > 0x7e:
			fmt.Fprintf(&sb, "\\u{%x}", r)
		default:
			sb.WriteRune(r)
		}
	}
	sb.WriteByte('"')
	return sb.String()
}

func leanStrList(xs []string) string {
	var q []string
	for _, x := range xs {
		q = append(q, leanStr(x))
	}
	return "[" + strings.Join(q, ", ") + "]"
}

func genFactsIds(L *loader) (string, any, []string) {
	const tpkg = coreMod + "/types"
	const cpkg = coreMod + "/consensus"
	var errs []string
	fail := func(f string, a ...any) { errs = append(errs, "FactsIds: "+fmt.Sprintf(f, a...)) }
	rep := map[string]any{}
	idsFset = L.fset
	var sb strings.Builder
	sb.WriteString("namespace Gen.FactsIds\n\n")

	constString := func(e ast.Expr) (string, bool) {
		if tv, ok := L.info.Types[e]; ok && tv.Value != nil && tv.Value.Kind() == constant.String {
			return constant.StringVal(tv.Value), true
		}
		return "", false
	}
	typeName := func(t types.Type) string {
		return types.TypeString(t, func(p *types.Package) string {
			if p.Path() == tpkg {
				return "types"
			} else if p.Path() == cpkg {
				return "consensus"
			}
			return p.Name()
		})
	}
	// how hashAll writes an argument of this static type
	argKind := func(e ast.Expr) (string, bool) {
		tv, ok := L.info.Types[e]
		if !ok || tv.Type == nil {
			return "", false
		}
		t := tv.Type
		if b, ok := t.Underlying().(*types.Basic); ok {
			if _, named := t.(*types.Named); !named {
				switch {
				case b.Info()&types.IsString != 0:
					return "dist", true
				case b.Kind() == types.Uint8:
					return "u8", true
				case b.Kind() == types.Int || b.Kind() == types.UntypedInt || b.Kind() == types.Uint64:
					return "u64", true
				case b.Kind() == types.Bool || b.Kind() == types.UntypedBool:
					return "bool", true
				}
				return "", false
			}
		}
		return "enc:" + typeName(t), true
	}

	// ------------------------------------------------------------ 1. hashAll calls
	type hcall struct {
		fn   string
		pos  token.Pos
		args []string
		kind []string
		dist string
	}
	var calls []hcall
	allDists := map[string]bool{}
	for _, pkg := range []string{tpkg, cpkg} {
		short := "types"
		if pkg == cpkg {
			short = "consensus"
		}
		for _, f := range L.files[pkg] {
			for _, d := range f.Decls {
				fd, ok := d.(*ast.FuncDecl)
				if !ok || fd.Body == nil {
					continue
				}
				name := fd.Name.Name
				if fd.Recv != nil && len(fd.Recv.List) == 1 {
					t := fd.Recv.List[0].Type
					if st, ok := t.(*ast.StarExpr); ok {
						t = st.X
					}
					if id, ok := t.(*ast.Ident); ok {
						name = id.Name + "." + name
					}
				}
				if name == "hashAll" {
					continue
				}
				ast.Inspect(fd.Body, func(x ast.Node) bool {
					call, ok := x.(*ast.CallExpr)
					if !ok {
						return true
					}
					if id, ok := call.Fun.(*ast.Ident); ok && id.Name == "hashAll" {
						hc := hcall{fn: short + "." + name, pos: call.Pos()}
						for i, a := range call.Args {
							k, ok := argKind(a)
							if !ok {
								fail("%s: hashAll argument %d (%s) has a type hashAll cannot be modelled for", hc.fn, i, types.ExprString(a))
								k = "?"
							}
							txt := types.ExprString(a)
							if k == "dist" {
								s, ok := constString(a)
								if !ok {
									fail("%s: hashAll distinguisher %s is not a constant string", hc.fn, txt)
								} else if i != 0 {
									fail("%s: hashAll distinguisher %q is not the first argument", hc.fn, s)
								} else {
									hc.dist = s
									allDists[s] = true
								}
								txt = s
							}
							hc.args = append(hc.args, txt)
							hc.kind = append(hc.kind, k)
						}
						calls = append(calls, hc)
					}
					if sel, ok := call.Fun.(*ast.SelectorExpr); ok && sel.Sel.Name == "WriteDistinguisher" && len(call.Args) == 1 {
						if s, ok := constString(call.Args[0]); ok {
							allDists[s] = true
						} else if name != "Hasher.WriteDistinguisher" {
							fail("%s.%s: WriteDistinguisher with a non-constant argument %s", short, name, types.ExprString(call.Args[0]))
						}
					}
					return true
				})
			}
		}
	}
	sort.SliceStable(calls, func(i, j int) bool {
		pi, pj := L.fset.Position(calls[i].pos), L.fset.Position(calls[j].pos)
		if pi.Filename != pj.Filename {
			return pi.Filename < pj.Filename
		}
		return pi.Offset < pj.Offset
	})
	if len(calls) == 0 {
		fail("no hashAll calls found in types / consensus")
	}
	sb.WriteString("/-- every `hashAll(...)` call of packages types and consensus: (enclosing function, distinguisher or \"\", arguments as (source text, how hashAll writes it)) -/\n")
	sb.WriteString("def hashAllCalls : List (String × String × List (String × String)) := [\n")
	var repCalls []string
	for i, c := range calls {
		var as []string
		for j := range c.args {
			as = append(as, fmt.Sprintf("(%s, %s)", leanStr(c.args[j]), leanStr(c.kind[j])))
		}
		sep := ","
		if i == len(calls)-1 {
			sep = ""
		}
		fmt.Fprintf(&sb, "  (%s, %s, [%s])%s\n", leanStr(c.fn), leanStr(c.dist), strings.Join(as, ", "), sep)
		repCalls = append(repCalls, c.fn+"("+strings.Join(c.args, ", ")+")")
	}
	sb.WriteString("]\n\n")
	rep["hashAllCalls"] = repCalls
	var dists []string
	for d := range allDists {
		dists = append(dists, d)
	}
	sort.Strings(dists)
	fmt.Fprintf(&sb, "/-- every distinguisher string used with hashAll / WriteDistinguisher in types and consensus -/\ndef distinguishers : List String := %s\n\n", leanStrList(dists))
	rep["distinguishers"] = dists

	// the shape of WriteDistinguisher
	if fd := L.funcs[tpkg+".Hasher.WriteDistinguisher"]; fd == nil || len(fd.Body.List) != 1 {
		fail("types.Hasher.WriteDistinguisher: body is not a single statement")
	} else {
		s := normStmt(L, fd.Body.List[0])
		fmt.Fprintf(&sb, "/-- Hasher.WriteDistinguisher -/\ndef writeDistinguisher : String := %s\n\n", leanStr(s))
	}
	// the type switch of hashAll itself (which Go types are written how), both copies
	for _, p := range []struct{ pkg, short string }{{tpkg, "types"}, {cpkg, "consensus"}} {
		fd := L.funcs[p.pkg+".hashAll"]
		if fd == nil {
			fail("%s.hashAll not found", p.short)
			continue
		}
		var items []string
		ast.Inspect(fd.Body, func(x ast.Node) bool {
			cc, ok := x.(*ast.CaseClause)
			if !ok {
				return true
			}
			var ts []string
			for _, e := range cc.List {
				ts = append(ts, types.ExprString(e))
			}
			if len(ts) == 0 {
				ts = []string{"default"}
			}
			var body []string
			for _, s := range cc.Body {
				body = append(body, normStmt(L, s))
			}
			b := strings.Join(body, "; ")
			if strings.HasPrefix(b, "panic(") {
				b = "panic"
			}
			items = append(items, fmt.Sprintf("(%s, %s)", leanStr(strings.Join(ts, ",")), leanStr(b)))
			return true
		})
		if len(items) == 0 {
			fail("%s.hashAll: type switch not found", p.short)
		}
		fmt.Fprintf(&sb, "/-- %s.hashAll: non-EncoderTo argument types and what is written -/\ndef hashAllSwitch_%s : List (String × String) := [%s]\n\n", p.short, p.short, strings.Join(items, ", "))
	}

	// ------------------------------------------------------------ 2. hasher-based derivations: statement lists
	stmtList := func(key, defName, doc string) {
		fd := L.funcs[key]
		if fd == nil || fd.Body == nil {
			fail("%s not found", key)
			return
		}
		var out []string
		for _, s := range fd.Body.List {
			out = append(out, normStmt(L, s))
		}
		fmt.Fprintf(&sb, "/-- %s: the statements of the body, one canonical string each -/\ndef %s : List String := [\n", doc, defName)
		for i, s := range out {
			sep := ","
			if i == len(out)-1 {
				sep = ""
			}
			fmt.Fprintf(&sb, "  %s%s\n", leanStr(s), sep)
		}
		sb.WriteString("]\n\n")
		rep[defName] = out
	}
	stmtList(cpkg+".State.WholeSigHash", "wholeSigHashBody", "consensus.State.WholeSigHash")
	stmtList(cpkg+".State.PartialSigHash", "partialSigHashBody", "consensus.State.PartialSigHash")
	stmtList(cpkg+".State.MerkleLeafHash", "stateMerkleLeafHashBody", "consensus.State.MerkleLeafHash")
	stmtList(cpkg+".State.Commitment", "commitmentBody", "consensus.State.Commitment")
	stmtList(cpkg+".State.ContractSigHash", "contractSigHashBody", "consensus.State.ContractSigHash")
	stmtList(cpkg+".State.RenewalSigHash", "renewalSigHashBody", "consensus.State.RenewalSigHash")
	stmtList(cpkg+".State.AttestationSigHash", "attestationSigHashBody", "consensus.State.AttestationSigHash")
	stmtList(cpkg+".State.InputSigHash", "inputSigHashBody", "consensus.State.InputSigHash")
	stmtList(tpkg+".BlockHeader.ID", "blockHeaderIDBody", "types.BlockHeader.ID")
	stmtList(tpkg+".Block.Header", "blockHeaderBody", "types.Block.Header")
	stmtList(tpkg+".Block.ID", "blockIDBody", "types.Block.ID")
	stmtList(tpkg+".blockMerkleRoot", "blockMerkleRootBody", "types.blockMerkleRoot")
	stmtList(tpkg+".txnSansSigs.EncodeTo", "txnSansSigsBody", "types.txnSansSigs.EncodeTo")
	stmtList(tpkg+".Transaction.EncodeTo", "transactionEncodeBody", "types.Transaction.EncodeTo")

	// the Merkle accumulator under the block commitments (package blake2b)
	const bpkg = coreMod + "/blake2b"
	stmtList(bpkg+".Accumulator.AddLeaf", "accumulatorAddLeafBody", "blake2b.Accumulator.AddLeaf")
	stmtList(bpkg+".Accumulator.Root", "accumulatorRootBody", "blake2b.Accumulator.Root")
	stmtList(bpkg+".Accumulator.hasTreeAtHeight", "accumulatorHasTreeBody", "blake2b.Accumulator.hasTreeAtHeight")
	stmtList(bpkg+".SumPair", "sumPairBody", "blake2b.SumPair")
	stmtList(bpkg+".hashBlockGeneric", "hashBlockGenericBody", "blake2b.hashBlockGeneric")
	// block weight: the bound behind "a v1 transaction id preimage never starts with a specifier"
	stmtList(cpkg+".State.MaxBlockWeight", "maxBlockWeightBody", "consensus.State.MaxBlockWeight")
	stmtList(cpkg+".State.TransactionWeight", "transactionWeightBody", "consensus.State.TransactionWeight")
	if fd := L.funcs[cpkg+".State.MaxBlockWeight"]; fd != nil && len(fd.Body.List) == 1 {
		done := false
		if rs, ok := fd.Body.List[0].(*ast.ReturnStmt); ok && len(rs.Results) == 1 {
			if tv, ok := L.info.Types[rs.Results[0]]; ok && tv.Value != nil {
				if v, ok := constant.Int64Val(constant.ToInt(tv.Value)); ok {
					fmt.Fprintf(&sb, "/-- State.MaxBlockWeight -/\ndef maxBlockWeight : Nat := %d\n\n", v)
					done = true
				}
			}
		}
		if !done {
			fail("consensus.State.MaxBlockWeight: body is not `return <const>`")
		}
	} else {
		fail("consensus.State.MaxBlockWeight not found or not a single return")
	}

	// constants used by these bodies
	emitConst := func(pkg, name, defName string) {
		found := false
		for _, f := range L.files[pkg] {
			for _, d := range f.Decls {
				gd, ok := d.(*ast.GenDecl)
				if !ok || gd.Tok != token.CONST {
					continue
				}
				for _, s := range gd.Specs {
					for _, id := range s.(*ast.ValueSpec).Names {
						if id.Name != name {
							continue
						}
						if o, ok := L.info.Defs[id].(*types.Const); ok {
							switch o.Val().Kind() {
							case constant.String:
								fmt.Fprintf(&sb, "def %s : String := %s\n", defName, leanStr(constant.StringVal(o.Val())))
								found = true
							case constant.Int:
								if v, ok := constant.Int64Val(o.Val()); ok {
									fmt.Fprintf(&sb, "def %s : Nat := %d\n", defName, v)
									found = true
								}
							}
						}
					}
				}
			}
		}
		if !found {
			fail("constant %s.%s not found", pkg, name)
		}
	}
	emitConst(tpkg, "leafHashPrefix", "leafHashPrefix_types")
	emitConst(cpkg, "leafHashPrefix", "leafHashPrefix_consensus")
	emitConst(cpkg, "commitmentDistinguisher", "commitmentDistinguisher")
	emitConst(bpkg, "leafHashPrefix", "leafHashPrefix_blake2b")
	emitConst(bpkg, "nodeHashPrefix", "nodeHashPrefix_blake2b")
	sb.WriteString("\n")

	// specifiers used by id derivations: NewSpecifier("...") values
	{
		var items []string
		want := map[string]bool{"SpecifierSiacoinOutput": true, "SpecifierSiafundOutput": true, "SpecifierFileContract": true, "SpecifierStorageProof": true, "SpecifierFoundation": true}
		for _, f := range L.files[tpkg] {
			for _, d := range f.Decls {
				gd, ok := d.(*ast.GenDecl)
				if !ok || gd.Tok != token.VAR {
					continue
				}
				for _, s := range gd.Specs {
					vs := s.(*ast.ValueSpec)
					for i, id := range vs.Names {
						if !want[id.Name] || i >= len(vs.Values) {
							continue
						}
						call, ok := vs.Values[i].(*ast.CallExpr)
						if !ok || len(call.Args) != 1 || types.ExprString(call.Fun) != "NewSpecifier" {
							fail("types.%s is not NewSpecifier(<const>)", id.Name)
							continue
						}
						if v, ok := constString(call.Args[0]); ok {
							items = append(items, fmt.Sprintf("(%s, %s)", leanStr(id.Name), leanStr(v)))
							delete(want, id.Name)
						}
					}
				}
			}
		}
		for n := range want {
			fail("specifier types.%s not found", n)
		}
		sort.Strings(items)
		fmt.Fprintf(&sb, "/-- specifiers used by id derivations (NewSpecifier pads to 16 bytes) -/\ndef specifiers : List (String × String) := [%s]\n\n", strings.Join(items, ", "))
	}

	// ------------------------------------------------------------ 3. V2TransactionSemantics.EncodeTo as a schema-like list
	if fd := L.funcs[tpkg+".V2TransactionSemantics.EncodeTo"]; fd == nil {
		fail("types.V2TransactionSemantics.EncodeTo not found")
	} else {
		recv := "txn"
		if len(fd.Recv.List[0].Names) == 1 {
			recv = fd.Recv.List[0].Names[0].Name
		}
		type entry struct {
			field string
			form  []string
		}
		var entries []entry
		stmts := fd.Body.List
		i := 0
		// leading helper: nilSigs := func(sigs ...*Signature) { for i := range sigs { *sigs[i] = Signature{} } }
		if len(stmts) > 0 {
			if as, ok := stmts[0].(*ast.AssignStmt); ok && len(as.Lhs) == 1 && types.ExprString(as.Lhs[0]) == "nilSigs" {
				got := normStmt(L, as)
				fmt.Fprintf(&sb, "/-- the local helper of V2TransactionSemantics.EncodeTo -/\ndef semanticsNilSigs : String := %s\n", leanStr(got))
				i = 1
			} else {
				fail("V2TransactionSemantics.EncodeTo: first statement is not the nilSigs helper")
			}
		}
		fieldOf := func(e ast.Expr) (string, bool) {
			s := types.ExprString(e)
			if strings.HasPrefix(s, recv+".") && !strings.Contains(s[len(recv)+1:], ".") {
				return s[len(recv)+1:], true
			}
			return "", false
		}
		for i < len(stmts) {
			s := stmts[i]
			// e.WriteUint64(uint64(len(txn.F))) ; for _, x := range txn.F { ... }
			if es, ok := s.(*ast.ExprStmt); ok {
				call, _ := es.X.(*ast.CallExpr)
				if call != nil && types.ExprString(call.Fun) == "e.WriteUint64" && len(call.Args) == 1 {
					arg := types.ExprString(call.Args[0])
					if strings.HasPrefix(arg, "uint64(len(") && i+1 < len(stmts) {
						inner := strings.TrimSuffix(strings.TrimPrefix(arg, "uint64(len("), "))")
						if rs, ok := stmts[i+1].(*ast.RangeStmt); ok && types.ExprString(rs.X) == inner && strings.HasPrefix(inner, recv+".") {
							v := types.ExprString(rs.Value)
							var form []string
							form = append(form, "len:u64")
							for _, bs := range rs.Body.List {
								form = append(form, semTokens(L, bs, v, &errs)...)
							}
							entries = append(entries, entry{inner[len(recv)+1:], form})
							i += 2
							continue
						}
					}
				}
				if call != nil {
					fn := types.ExprString(call.Fun)
					switch {
					case fn == "e.WriteBytes" && len(call.Args) == 1:
						if f, ok := fieldOf(call.Args[0]); ok {
							entries = append(entries, entry{f, []string{"bytes"}})
							i++
							continue
						}
					case fn == "EncodePtr" && len(call.Args) == 2 && types.ExprString(call.Args[0]) == "e":
						if f, ok := fieldOf(call.Args[1]); ok {
							entries = append(entries, entry{f, []string{"ptr"}})
							i++
							continue
						}
					case strings.HasSuffix(fn, ".EncodeTo") && len(call.Args) == 1 && types.ExprString(call.Args[0]) == "e":
						x := call.Fun.(*ast.SelectorExpr).X
						if c2, ok := x.(*ast.CallExpr); ok && len(c2.Args) == 1 {
							if f, ok := fieldOf(c2.Args[0]); ok {
								entries = append(entries, entry{f, []string{"enc(. as " + types.ExprString(c2.Fun) + ")"}})
								i++
								continue
							}
						}
						if f, ok := fieldOf(x); ok {
							entries = append(entries, entry{f, []string{"enc(.)"}})
							i++
							continue
						}
					}
				}
			}
			fail("V2TransactionSemantics.EncodeTo: statement %d not understood: %s", i, normStmt(L, s))
			i++
		}
		sb.WriteString("/-- V2TransactionSemantics.EncodeTo: per V2Transaction field (in code order) the form written; `.` is the element / field -/\n")
		sb.WriteString("def semanticsSchema : List (String × List String) := [\n")
		var repE []string
		for k, en := range entries {
			sep := ","
			if k == len(entries)-1 {
				sep = ""
			}
			fmt.Fprintf(&sb, "  (%s, %s)%s\n", leanStr(en.field), leanStrList(en.form), sep)
			repE = append(repE, en.field+": "+strings.Join(en.form, " ; "))
		}
		sb.WriteString("]\n\n")
		rep["semanticsSchema"] = repE
		// is the claim address of a siafund input written?
		binds, seen := false, false
		for _, en := range entries {
			if en.field == "SiafundInputs" {
				seen = true
				for _, tk := range en.form {
					if tk == "enc(.ClaimAddress)" {
						binds = true
					}
				}
			}
		}
		if !seen {
			fail("V2TransactionSemantics.EncodeTo: no loop over txn.SiafundInputs")
		}
		fmt.Fprintf(&sb, "/-- does the siafund-input loop of V2TransactionSemantics.EncodeTo write `in.ClaimAddress`? -/\ndef semanticsBindsClaimAddress : Bool := %v\n\n", binds)
		rep["semanticsBindsClaimAddress"] = binds
	}
	// declared fields of V2Transaction
	if p := L.pkgs[tpkg]; p == nil {
		fail("package types not loaded")
	} else if o := p.Scope().Lookup("V2Transaction"); o == nil {
		fail("types.V2Transaction not found")
	} else if st, ok := o.Type().Underlying().(*types.Struct); !ok {
		fail("types.V2Transaction is not a struct")
	} else {
		var fs []string
		for i := 0; i < st.NumFields(); i++ {
			fs = append(fs, st.Field(i).Name())
		}
		fmt.Fprintf(&sb, "/-- declared fields of types.V2Transaction -/\ndef v2TransactionDeclaredFields : List String := %s\n\n", leanStrList(fs))
	}
	// how Transaction.ID / V2Transaction.ID cast the receiver
	// (already in hashAllCalls: "(*txnSansSigs)(txn)", "(*V2TransactionSemantics)(txn)")

	// ------------------------------------------------------------ 4. replay prefixes
	if fd := L.funcs[cpkg+".State.replayPrefix"]; fd == nil {
		fail("consensus.State.replayPrefix not found")
	} else {
		var items []string
		ok := false
		if len(fd.Body.List) == 1 {
			if sw, isSw := fd.Body.List[0].(*ast.SwitchStmt); isSw && sw.Tag == nil && sw.Init == nil {
				ok = true
				for _, c := range sw.Body.List {
					cc := c.(*ast.CaseClause)
					cond := "default"
					if len(cc.List) == 1 {
						cond = types.ExprString(cc.List[0])
					} else if len(cc.List) > 1 {
						ok = false
					}
					if len(cc.Body) != 1 {
						ok = false
						continue
					}
					rs, isRet := cc.Body[0].(*ast.ReturnStmt)
					if !isRet || len(rs.Results) != 1 {
						ok = false
						continue
					}
					var bytes []string
					switch r := rs.Results[0].(type) {
					case *ast.Ident:
						if r.Name != "nil" {
							ok = false
						}
					case *ast.CompositeLit:
						if types.ExprString(r.Type) != "[]byte" {
							ok = false
						}
						for _, el := range r.Elts {
							tv, has := L.info.Types[el]
							if !has || tv.Value == nil {
								ok = false
								continue
							}
							v, _ := constant.Int64Val(constant.ToInt(tv.Value))
							bytes = append(bytes, fmt.Sprint(v))
						}
					default:
						ok = false
					}
					items = append(items, fmt.Sprintf("(%s, [%s])", leanStr(cond), strings.Join(bytes, ", ")))
				}
			}
		}
		if !ok {
			fail("consensus.State.replayPrefix: body is not a tagless switch of `case cond: return []byte{..}|nil`")
		}
		fmt.Fprintf(&sb, "/-- State.replayPrefix: first matching condition wins -/\ndef replayPrefixTable : List (String × List Nat) := [%s]\n", strings.Join(items, ", "))
		rep["replayPrefixTable"] = items
	}
	if fd := L.funcs[cpkg+".State.v2ReplayPrefix"]; fd == nil {
		fail("consensus.State.v2ReplayPrefix not found")
	} else {
		done := false
		if len(fd.Body.List) == 1 {
			if rs, ok := fd.Body.List[0].(*ast.ReturnStmt); ok && len(rs.Results) == 1 {
				if tv, ok := L.info.Types[rs.Results[0]]; ok && tv.Value != nil {
					if v, ok := constant.Int64Val(constant.ToInt(tv.Value)); ok {
						fmt.Fprintf(&sb, "/-- State.v2ReplayPrefix -/\ndef v2ReplayPrefix : Nat := %d\n\n", v)
						done = true
					}
				}
			}
		}
		if !done {
			fail("consensus.State.v2ReplayPrefix: body is not `return <const>`")
		}
	}

	// ------------------------------------------------------------ 5. keys handed to signature verification
	if fd := L.funcs[cpkg+".validateV2FileContracts"]; fd == nil {
		fail("consensus.validateV2FileContracts not found")
	} else {
		closures := map[string]*ast.FuncLit{}
		for _, s := range fd.Body.List {
			if as, ok := s.(*ast.AssignStmt); ok && len(as.Lhs) == 1 && len(as.Rhs) == 1 {
				if fl, ok := as.Rhs[0].(*ast.FuncLit); ok {
					closures[types.ExprString(as.Lhs[0])] = fl
				}
			}
		}
		// calls of the local validateSignatures closure, with the closure they occur in
		callsOf := func(n ast.Node, fname string) [][]string {
			var out [][]string
			ast.Inspect(n, func(x ast.Node) bool {
				if call, ok := x.(*ast.CallExpr); ok && types.ExprString(call.Fun) == fname {
					var as []string
					for _, a := range call.Args {
						as = append(as, types.ExprString(a))
					}
					out = append(out, as)
				}
				return true
			})
			return out
		}
		emitCalls := func(defName, doc string, cs [][]string) {
			var items []string
			for _, c := range cs {
				items = append(items, leanStrList(c))
			}
			fmt.Fprintf(&sb, "/-- %s -/\ndef %s : List (List String) := [%s]\n", doc, defName, strings.Join(items, ", "))
			rep[defName] = items
		}
		if vs := closures["validateSignatures"]; vs == nil {
			fail("validateV2FileContracts: closure validateSignatures not found")
		} else {
			var ps []string
			for _, p := range vs.Type.Params.List {
				for _, n := range p.Names {
					ps = append(ps, n.Name)
				}
			}
			var body []string
			for _, s := range vs.Body.List {
				body = append(body, normStmt(L, s))
			}
			fmt.Fprintf(&sb, "/-- validateV2FileContracts: the validateSignatures closure (parameters, statements) -/\ndef contractSigCheckParams : List String := %s\ndef contractSigCheckBody : List String := %s\n", leanStrList(ps), leanStrList(body))
		}
		if vc := closures["validateContract"]; vc == nil {
			fail("validateV2FileContracts: closure validateContract not found")
		} else {
			emitCalls("formationSigArgs", "validateContract: arguments of validateSignatures (contract, renter key, host key)", callsOf(vc, "validateSignatures"))
		}
		if vr := closures["validateRevision"]; vr == nil {
			fail("validateV2FileContracts: closure validateRevision not found")
		} else {
			emitCalls("revisionSigArgs", "validateRevision: arguments of validateSignatures (must be the CURRENT contract's keys)", callsOf(vr, "validateSignatures"))
			// how `cur` is defined: every assignment to cur in the closure
			var defs []string
			ast.Inspect(vr.Body, func(x ast.Node) bool {
				switch s := x.(type) {
				case *ast.AssignStmt:
					if len(s.Lhs) == 1 && types.ExprString(s.Lhs[0]) == "cur" {
						defs = append(defs, normStmt(L, s))
					}
				case *ast.IfStmt:
					for _, b := range s.Body.List {
						if as, ok := b.(*ast.AssignStmt); ok && len(as.Lhs) == 1 && types.ExprString(as.Lhs[0]) == "cur" {
							init := ""
							if s.Init != nil {
								init = normStmt(L, s.Init) + "; "
							}
							defs = append(defs, "if "+init+types.ExprString(s.Cond))
						}
					}
				}
				return true
			})
			if len(defs) == 0 {
				fail("validateRevision: no assignment to `cur` found")
			}
			fmt.Fprintf(&sb, "/-- validateRevision: how `cur` (the contract as it currently stands) is determined -/\ndef revisionCurDefs : List String := %s\n", leanStrList(defs))
		}
		// the resolution loop: renewal branch
		var renewalVerify [][]string
		var renewalDefs []string
		var renewalContractCalls [][]string
		found := false
		ast.Inspect(fd.Body, func(x ast.Node) bool {
			cc, ok := x.(*ast.CaseClause)
			if !ok || len(cc.List) != 1 || types.ExprString(cc.List[0]) != "*types.V2FileContractRenewal" {
				return true
			}
			found = true
			for _, s := range cc.Body {
				ast.Inspect(s, func(y ast.Node) bool {
					switch n := y.(type) {
					case *ast.CallExpr:
						if sel, ok := n.Fun.(*ast.SelectorExpr); ok && sel.Sel.Name == "VerifyHash" {
							it := []string{types.ExprString(sel.X)}
							for _, a := range n.Args {
								it = append(it, types.ExprString(a))
							}
							renewalVerify = append(renewalVerify, it)
						}
						if types.ExprString(n.Fun) == "validateContract" {
							var as []string
							for _, a := range n.Args {
								as = append(as, types.ExprString(a))
							}
							renewalContractCalls = append(renewalContractCalls, as)
						}
					case *ast.AssignStmt:
						if len(n.Lhs) == 1 {
							l := types.ExprString(n.Lhs[0])
							if l == "renewalHash" || l == "renewal" {
								renewalDefs = append(renewalDefs, normStmt(L, n))
							}
						}
					}
					return true
				})
			}
			return false
		})
		if !found {
			fail("validateV2FileContracts: case *types.V2FileContractRenewal not found")
		}
		emitCalls("renewalVerifyCalls", "renewal branch: VerifyHash calls as (key, hash, signature)", renewalVerify)
		emitCalls("renewalContractCalls", "renewal branch: validateContract calls", renewalContractCalls)
		fmt.Fprintf(&sb, "def renewalDefs : List String := %s\n", leanStrList(renewalDefs))
		// `fc := fcr.Parent.V2FileContract` in the resolution loop
		var fcDefs []string
		ast.Inspect(fd.Body, func(x ast.Node) bool {
			rs, ok := x.(*ast.RangeStmt)
			if !ok || types.ExprString(rs.X) != "txn.FileContractResolutions" {
				return true
			}
			for _, s := range rs.Body.List {
				if as, ok := s.(*ast.AssignStmt); ok && len(as.Lhs) == 1 && types.ExprString(as.Lhs[0]) == "fc" {
					fcDefs = append(fcDefs, normStmt(L, as))
				}
			}
			return false
		})
		if len(fcDefs) != 1 {
			fail("validateV2FileContracts: resolution loop does not define `fc` exactly once")
		}
		fmt.Fprintf(&sb, "/-- resolution loop: the contract whose keys authorise a renewal -/\ndef resolutionFcDefs : List String := %s\n\n", leanStrList(fcDefs))
	}
	// attestations, v1 signatures, foundation checks: statement lists
	stmtList(cpkg+".validateAttestations", "validateAttestationsBody", "consensus.validateAttestations")
	stmtList(cpkg+".validateFoundationUpdate", "validateFoundationUpdateBody", "consensus.validateFoundationUpdate")
	stmtList(cpkg+".validateV2SpendPolicy", "validateV2SpendPolicyBody", "consensus.validateV2SpendPolicy")
	// validateArbitraryData: the `signed` computation
	if fd := L.funcs[cpkg+".validateArbitraryData"]; fd == nil {
		fail("consensus.validateArbitraryData not found")
	} else {
		var signed []string
		ast.Inspect(fd.Body, func(x ast.Node) bool {
			switch s := x.(type) {
			case *ast.AssignStmt:
				if len(s.Lhs) == 1 && types.ExprString(s.Lhs[0]) == "signed" {
					signed = append(signed, normStmt(L, s))
				}
			case *ast.IfStmt:
				c := types.ExprString(s.Cond)
				if strings.Contains(c, "FoundationSubsidyAddress") || c == "!signed" {
					init := ""
					if s.Init != nil {
						init = normStmt(L, s.Init) + "; "
					}
					signed = append(signed, "if "+init+c)
				}
			}
			return true
		})
		if len(signed) < 3 {
			fail("validateArbitraryData: the `signed` computation was not recognised")
		}
		fmt.Fprintf(&sb, "/-- validateArbitraryData: how `signed` is computed -/\ndef foundationSignedCheck : List String := %s\n", leanStrList(signed))
	}
	// validateSignatures (v1): which sighash is verified
	if fd := L.funcs[cpkg+".validateSignatures"]; fd == nil {
		fail("consensus.validateSignatures not found")
	} else {
		var items []string
		ast.Inspect(fd.Body, func(x ast.Node) bool {
			switch n := x.(type) {
			case *ast.AssignStmt:
				if len(n.Lhs) == 1 && types.ExprString(n.Lhs[0]) == "sigHash" {
					items = append(items, normStmt(L, n))
				}
			case *ast.CallExpr:
				if sel, ok := n.Fun.(*ast.SelectorExpr); ok && sel.Sel.Name == "VerifyHash" {
					items = append(items, normExpr(n))
				}
			}
			return true
		})
		if len(items) != 3 {
			fail("validateSignatures: expected two sigHash assignments and one VerifyHash, found %d items", len(items))
		}
		fmt.Fprintf(&sb, "/-- validateSignatures (v1): sighash selection and verification -/\ndef v1SigVerify : List String := %s\n", leanStrList(items))
	}
	// validateV2Siacoins / validateV2Siafunds: the sighash and the call of validateV2SpendPolicy
	for _, fn := range []string{"validateV2Siacoins", "validateV2Siafunds"} {
		fd := L.funcs[cpkg+"."+fn]
		if fd == nil {
			fail("consensus.%s not found", fn)
			continue
		}
		var items []string
		ast.Inspect(fd.Body, func(x ast.Node) bool {
			switch n := x.(type) {
			case *ast.AssignStmt:
				if len(n.Lhs) == 1 && types.ExprString(n.Lhs[0]) == "sigHash" {
					items = append(items, normStmt(L, n))
				}
			case *ast.CallExpr:
				if types.ExprString(n.Fun) == "validateV2SpendPolicy" {
					items = append(items, normExpr(n))
				}
			}
			return true
		})
		if len(items) != 2 {
			fail("%s: expected one sigHash assignment and one validateV2SpendPolicy call, found %d items", fn, len(items))
		}
		fmt.Fprintf(&sb, "def %sAuth : List String := %s\n", fn, leanStrList(items))
	}

	sb.WriteString("\nend Gen.FactsIds\n")
	return sb.String(), rep, errs
}

// normExpr renders an expression on one line.
func normExpr(e ast.Expr) string {
	var buf bytes.Buffer
	if idsFset == nil || printer.Fprint(&buf, idsFset, e) != nil {
		return strings.Join(strings.Fields(types.ExprString(e)), " ")
	}
	return strings.Join(strings.Fields(buf.String()), " ")
}

var idsFset *token.FileSet

// normStmt renders a statement as one canonical line (comments dropped, blocks in
// braces with `; ` separators).
func normStmt(L *loader, s ast.Stmt) string {
	switch n := s.(type) {
	case nil:
		return ""
	case *ast.ExprStmt:
		return normExpr(n.X)
	case *ast.AssignStmt:
		var l, r []string
		for _, e := range n.Lhs {
			l = append(l, normExpr(e))
		}
		for _, e := range n.Rhs {
			if fl, ok := e.(*ast.FuncLit); ok {
				r = append(r, "func"+strings.TrimPrefix(normExpr(fl.Type), "func")+" "+normBlock(L, fl.Body))
			} else {
				r = append(r, normExpr(e))
			}
		}
		return strings.Join(l, ", ") + " " + n.Tok.String() + " " + strings.Join(r, ", ")
	case *ast.ReturnStmt:
		var r []string
		for _, e := range n.Results {
			r = append(r, normExpr(e))
		}
		if len(r) == 0 {
			return "return"
		}
		return "return " + strings.Join(r, ", ")
	case *ast.BlockStmt:
		return normBlock(L, n)
	case *ast.IfStmt:
		out := "if "
		if n.Init != nil {
			out += normStmt(L, n.Init) + "; "
		}
		out += normExpr(n.Cond) + " " + normBlock(L, n.Body)
		if n.Else != nil {
			out += " else " + normStmt(L, n.Else)
		}
		return out
	case *ast.RangeStmt:
		out := "for "
		if n.Key != nil {
			out += normExpr(n.Key)
			if n.Value != nil {
				out += ", " + normExpr(n.Value)
			}
			out += " " + n.Tok.String() + " "
		}
		return out + "range " + normExpr(n.X) + " " + normBlock(L, n.Body)
	case *ast.ForStmt:
		out := "for "
		if n.Init != nil || n.Post != nil {
			out += normStmt(L, n.Init) + "; "
			if n.Cond != nil {
				out += normExpr(n.Cond)
			}
			out += "; " + normStmt(L, n.Post) + " "
		} else if n.Cond != nil {
			out += normExpr(n.Cond) + " "
		}
		return out + normBlock(L, n.Body)
	case *ast.IncDecStmt:
		return normExpr(n.X) + n.Tok.String()
	case *ast.DeclStmt:
		if gd, ok := n.Decl.(*ast.GenDecl); ok {
			var parts []string
			for _, sp := range gd.Specs {
				switch v := sp.(type) {
				case *ast.ValueSpec:
					var names []string
					for _, id := range v.Names {
						names = append(names, id.Name)
					}
					p := gd.Tok.String() + " " + strings.Join(names, ", ")
					if v.Type != nil {
						p += " " + normExpr(v.Type)
					}
					if len(v.Values) > 0 {
						var vs []string
						for _, e := range v.Values {
							vs = append(vs, normExpr(e))
						}
						p += " = " + strings.Join(vs, ", ")
					}
					parts = append(parts, p)
				case *ast.TypeSpec:
					parts = append(parts, "type "+v.Name.Name+" "+normExpr(v.Type))
				}
			}
			return strings.Join(parts, "; ")
		}
	case *ast.DeferStmt:
		return "defer " + normExpr(n.Call)
	case *ast.SwitchStmt:
		out := "switch "
		if n.Init != nil {
			out += normStmt(L, n.Init) + "; "
		}
		if n.Tag != nil {
			out += normExpr(n.Tag) + " "
		}
		return out + normCases(L, n.Body)
	case *ast.TypeSwitchStmt:
		out := "switch "
		if n.Init != nil {
			out += normStmt(L, n.Init) + "; "
		}
		return out + normStmt(L, n.Assign) + " " + normCases(L, n.Body)
	case *ast.BranchStmt:
		return n.Tok.String()
	}
	return fmt.Sprintf("<%T@%s>", s, L.pos(s))
}

func normBlock(L *loader, b *ast.BlockStmt) string {
	var parts []string
	for _, s := range b.List {
		parts = append(parts, normStmt(L, s))
	}
	return "{ " + strings.Join(parts, "; ") + " }"
}

func normCases(L *loader, b *ast.BlockStmt) string {
	var parts []string
	for _, c := range b.List {
		cc := c.(*ast.CaseClause)
		head := "default:"
		if len(cc.List) > 0 {
			var es []string
			for _, e := range cc.List {
				es = append(es, normExpr(e))
			}
			head = "case " + strings.Join(es, ", ") + ":"
		}
		var body []string
		for _, s := range cc.Body {
			body = append(body, normStmt(L, s))
		}
		parts = append(parts, head+" "+strings.Join(body, "; "))
	}
	return "{ " + strings.Join(parts, " | ") + " }"
}

// semTokens turns one statement of a loop body of V2TransactionSemantics.EncodeTo
// into form tokens relative to the loop variable v (rendered as `.`).
func semTokens(L *loader, s ast.Stmt, v string, errs *[]string) []string {
	rel := func(e ast.Expr) string {
		t := normExpr(e)
		t = strings.TrimPrefix(t, "&")
		if t == v {
			return "."
		}
		if strings.HasPrefix(t, v+".") {
			return t[len(v):]
		}
		return t
	}
	switch n := s.(type) {
	case *ast.ExprStmt:
		call, ok := n.X.(*ast.CallExpr)
		if !ok {
			break
		}
		fn := normExpr(call.Fun)
		if fn == "nilSigs" {
			var as []string
			for _, a := range call.Args {
				as = append(as, rel(a))
			}
			return []string{"zero(" + strings.Join(as, ",") + ")"}
		}
		if sel, ok := call.Fun.(*ast.SelectorExpr); ok && sel.Sel.Name == "EncodeTo" && len(call.Args) == 1 && normExpr(call.Args[0]) == "e" {
			switch x := sel.X.(type) {
			case *ast.CallExpr: // T(x).EncodeTo(e)
				if len(x.Args) == 1 {
					return []string{"enc(" + rel(x.Args[0]) + " as " + normExpr(x.Fun) + ")"}
				}
			case *ast.TypeAssertExpr: // x.(EncoderTo).EncodeTo(e): dynamic type, nothing identifies it on the wire
				return []string{"enc-dynamic(" + rel(x.X) + ")"}
			default:
				return []string{"enc(" + rel(sel.X) + ")"}
			}
		}
	case *ast.TypeSwitchStmt:
		// switch res := fcr.Resolution.(type) { case *T: copy; normalise; store back }
		var out []string
		as, ok := n.Assign.(*ast.AssignStmt)
		if !ok || len(as.Rhs) != 1 {
			break
		}
		ta, ok := as.Rhs[0].(*ast.TypeAssertExpr)
		if !ok {
			break
		}
		subject := rel(ta.X)
		for _, c := range n.Body.List {
			cc := c.(*ast.CaseClause)
			if len(cc.List) != 1 {
				*errs = append(*errs, "FactsIds: V2TransactionSemantics.EncodeTo: type switch clause with "+fmt.Sprint(len(cc.List))+" types")
				continue
			}
			// statements: `tmp := *res`, normalisations on tmp, `fcr.Resolution = &tmp`
			tmp := ""
			var norms []string
			okc := true
			for _, bs := range cc.Body {
				switch b := bs.(type) {
				case *ast.AssignStmt:
					l, r := normExpr(b.Lhs[0]), normExpr(b.Rhs[0])
					switch {
					case b.Tok == token.DEFINE && strings.HasPrefix(r, "*"):
						tmp = l
					case tmp != "" && strings.HasPrefix(l, tmp+".") && r == "nil":
						norms = append(norms, "drop("+l[len(tmp):]+")")
					case tmp != "" && r == "&"+tmp && rel(b.Lhs[0]) == subject:
						// store back
					default:
						okc = false
					}
				case *ast.ExprStmt:
					call, isCall := b.X.(*ast.CallExpr)
					if isCall && normExpr(call.Fun) == "nilSigs" && tmp != "" {
						var as []string
						for _, a := range call.Args {
							t := strings.TrimPrefix(normExpr(a), "&")
							if strings.HasPrefix(t, tmp+".") {
								t = t[len(tmp):]
							}
							as = append(as, t)
						}
						norms = append(norms, "zero("+strings.Join(as, ",")+")")
					} else {
						okc = false
					}
				default:
					okc = false
				}
			}
			if !okc {
				*errs = append(*errs, "FactsIds: V2TransactionSemantics.EncodeTo: clause "+normExpr(cc.List[0])+" of the resolution switch not understood")
			}
			out = append(out, "case "+normExpr(cc.List[0])+": "+strings.Join(norms, " "))
		}
		return append([]string{"switch " + subject}, out...)
	}
	*errs = append(*errs, "FactsIds: V2TransactionSemantics.EncodeTo: loop statement not understood: "+normStmt(L, s))
	return []string{"?"}
}
