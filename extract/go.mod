module verif/extract

go 1.26.0
