package main

// T-code: translate a whitelisted set of Go functions (straight-line integer /
// struct code with if/else, switch, early return, panics) into Lean 4
// definitions, statement by statement.  Pure functions become plain
// `let`/`if` terms; functions that can panic become `Except String` do-blocks
// in continuation style (no `mut`).  Anything outside the subset is an error
// for that function (a broken tie), never silently skipped.

import (
	"fmt"
	"go/ast"
	"go/constant"
	"go/token"
	"go/types"
	"sort"
	"strings"
)

var pkgAlias = map[string]string{
	coreMod + "/types":     "Types",
	coreMod + "/consensus": "Consensus",
	coreMod + "/gateway":   "Gateway",
	coreMod + "/rhp/v2":    "Rhp2",
	coreMod + "/rhp/v3":    "Rhp3",
	coreMod + "/rhp/v4":    "Rhp4",
	coreMod + "/blake2b":   "Blake2b",
}

var pkgOrder = []string{"Types", "Blake2b", "Consensus", "Gateway", "Rhp2", "Rhp3", "Rhp4"}

// external (non-core) functions with a hand-written Lean meaning in
// SiaModel/Prim/GoSem.lean; value = (lean name, impure)
var externs = map[string]struct {
	lean   string
	impure bool
}{
	"math/bits.Add64":          {"Go.bits_Add64", false},
	"math/bits.Sub64":          {"Go.bits_Sub64", false},
	"math/bits.Mul64":          {"Go.bits_Mul64", false},
	"math/bits.Div64":          {"Go.bits_Div64", true},
	"math/bits.LeadingZeros64": {"Go.bits_LeadingZeros64", false},
	"math/bits.Len64":          {"Go.bits_Len64", false},
	"math/bits.Len":            {"Go.bits_Len64", false},
	"math/bits.TrailingZeros64": {"Go.bits_TrailingZeros64", false},
	"math/bits.OnesCount64":    {"Go.bits_OnesCount64", false},
}

var leanKeywords = map[string]bool{}

func init() {
	for _, k := range strings.Fields(`end at from in do then fun let have show open section namespace instance class structure theorem def match with if else return mut for where deriving extends prefix private protected variable universe import export abbrev axiom example inductive macro syntax notation infix infixl infixr postfix set_option attribute local scoped partial unsafe noncomputable mutual using by calc at this Type Prop Sort exists`) {
		leanKeywords[k] = true
	}
}

func sanitize(n string) string {
	if n == "_" {
		return "_"
	}
	if leanKeywords[n] {
		return n + "_"
	}
	return n
}

type fnInfo struct {
	key      string // pkgpath.Name
	decl     *ast.FuncDecl
	pkg      string // alias
	leanName string // Gen.Types.Currency.Add
	impure   bool
	usesExt  bool   // takes the package's Ext structure as first parameter
	ptrMut   []bool // per param (receiver first): mutated through pointer
	deps     []string
	body     string
	sig      string
	err      error
	pos      string
}

type structInfo struct {
	named    *types.Named
	leanName string
	pkg      string
	fields   []string // lean field decl lines
	omitted  []string
	deps     []string // lean names of structs used
	// fields whose type is an anonymous struct (e.g. Network.HardforkFoundation):
	// omitted by default, modelled on demand (enableAnonField) when a translated
	// function reads them, so that the output for functions that do not is unchanged
	anon map[string]*types.Struct
}

type varInfo struct {
	leanName string
	pkg      string
	typ      string
	body     string
	deps     []string
	fdeps    []string
}

type tcode struct {
	L       *loader
	fns     map[string]*fnInfo
	order   []string
	structs map[string]*structInfo
	sorder  []string
	vars    map[string]*varInfo
	vorder  []string
	work    []string
	anonOf  map[*types.Struct]*structInfo // modelled anonymous struct types
	// regions (tregion.go)
	regions    map[string]*regionInfo
	isRegion   map[string]*regionInfo
	closureKey map[*types.Var]string
	exts       map[string]map[string]string // alias → ext field → Lean type
	extZero    map[string]map[string]string // alias → ext field → constant function returning the zero value
}

func newTcode(L *loader) *tcode {
	return &tcode{L: L, fns: map[string]*fnInfo{}, structs: map[string]*structInfo{}, vars: map[string]*varInfo{},
		regions: map[string]*regionInfo{}, isRegion: map[string]*regionInfo{}, closureKey: map[*types.Var]string{}, exts: map[string]map[string]string{}, extZero: map[string]map[string]string{}}
}

type terr struct{ msg string }

func (e terr) Error() string { return e.msg }

func (t *tcode) fail(n ast.Node, f string, a ...any) {
	panic(terr{fmt.Sprintf("%s: %s", t.L.pos(n), fmt.Sprintf(f, a...))})
}

// ---------------------------------------------------------------- types

func bitsOf(b *types.Basic) (bits int, signed bool, ok bool) {
	switch b.Kind() {
	case types.Uint8:
		return 8, false, true
	case types.Uint16:
		return 16, false, true
	case types.Uint32:
		return 32, false, true
	case types.Uint64, types.Uint, types.Uintptr:
		return 64, false, true
	case types.Int8:
		return 8, true, true
	case types.Int16:
		return 16, true, true
	case types.Int32:
		return 32, true, true
	case types.Int64, types.Int, types.UntypedInt, types.UntypedRune:
		return 64, true, true
	}
	return 0, false, false
}

func pow2(n int) string {
	return constant.Shift(constant.MakeInt64(1), token.SHL, uint(n)).ExactString()
}

func isErrorType(T types.Type) bool {
	n, ok := T.(*types.Named)
	return ok && n.Obj().Pkg() == nil && n.Obj().Name() == "error"
}

func isByte(T types.Type) bool {
	b, ok := T.Underlying().(*types.Basic)
	return ok && b.Kind() == types.Uint8
}

// leanType maps a Go type to a Lean type; ok=false when unsupported.
func (t *tcode) leanType(T types.Type) (string, bool) {
	T = types.Unalias(T)
	if isErrorType(T) {
		return "(Option String)", true
	}
	switch x := T.(type) {
	case *types.Basic:
		if _, signed, ok := bitsOf(x); ok {
			if signed {
				return "Int", true
			}
			return "Nat", true
		}
		switch x.Kind() {
		case types.Bool, types.UntypedBool:
			return "Bool", true
		case types.String, types.UntypedString:
			return "String", true
		}
		return "", false
	case *types.Named:
		obj := x.Obj()
		if obj.Pkg() != nil && obj.Pkg().Path() == "time" && (obj.Name() == "Time" || obj.Name() == "Duration") {
			return "Int", true
		}
		if _, ok := x.Underlying().(*types.Struct); ok {
			if obj.Pkg() == nil || pkgAlias[obj.Pkg().Path()] == "" {
				return "", false
			}
			si := t.ensureStruct(x)
			if si == nil {
				return "", false
			}
			return si.leanName, true
		}
		return t.leanType(x.Underlying())
	case *types.Array:
		if isByte(x.Elem()) {
			return "ByteArray", true
		}
		e, ok := t.leanType(x.Elem())
		if !ok {
			return "", false
		}
		return "(List " + e + ")", true
	case *types.Slice:
		if isByte(x.Elem()) {
			return "ByteArray", true
		}
		e, ok := t.leanType(x.Elem())
		if !ok {
			return "", false
		}
		return "(List " + e + ")", true
	case *types.Map:
		// read-only use: an association list (lookups go through Go.mapGet)
		k, ok1 := t.leanType(x.Key())
		v, ok2 := t.leanType(x.Elem())
		if !ok1 || !ok2 {
			return "", false
		}
		return "(List (" + k + " × " + v + "))", true
	case *types.Pointer:
		return t.leanType(x.Elem())
	case *types.Tuple:
		var parts []string
		for i := 0; i < x.Len(); i++ {
			s, ok := t.leanType(x.At(i).Type())
			if !ok {
				return "", false
			}
			parts = append(parts, s)
		}
		if len(parts) == 0 {
			return "Unit", true
		}
		if len(parts) == 1 {
			return parts[0], true
		}
		return "(" + strings.Join(parts, " × ") + ")", true
	}
	return "", false
}

func (t *tcode) zero(T types.Type) (string, bool) {
	T = types.Unalias(T)
	if isErrorType(T) {
		return "(none : Option String)", true
	}
	switch x := T.(type) {
	case *types.Basic:
		if _, signed, ok := bitsOf(x); ok {
			if signed {
				return "(0 : Int)", true
			}
			return "(0 : Nat)", true
		}
		switch x.Kind() {
		case types.Bool:
			return "false", true
		case types.String:
			return "\"\"", true
		}
	case *types.Named:
		obj := x.Obj()
		if obj.Pkg() != nil && obj.Pkg().Path() == "time" {
			return "(0 : Int)", true
		}
		if _, ok := x.Underlying().(*types.Struct); ok {
			lt, ok := t.leanType(x)
			if !ok {
				return "", false
			}
			return "({} : " + lt + ")", true
		}
		return t.zero(x.Underlying())
	case *types.Array:
		if isByte(x.Elem()) {
			return fmt.Sprintf("(Go.zeros %d)", x.Len()), true
		}
		z, ok := t.zero(x.Elem())
		if !ok {
			return "", false
		}
		return fmt.Sprintf("(List.replicate %d %s)", x.Len(), z), true
	case *types.Slice:
		if isByte(x.Elem()) {
			return "ByteArray.empty", true
		}
		if _, ok := t.leanType(x.Elem()); ok {
			return "[]", true
		}
	case *types.Map:
		if _, ok := t.leanType(x); ok {
			return "[]", true
		}
	case *types.Pointer:
		return t.zero(x.Elem())
	}
	return "", false
}

func (t *tcode) ensureStruct(n *types.Named) *structInfo {
	alias := pkgAlias[n.Obj().Pkg().Path()]
	name := "Gen." + alias + "." + n.Obj().Name()
	if si, ok := t.structs[name]; ok {
		return si
	}
	si := &structInfo{named: n, leanName: name, pkg: alias}
	t.structs[name] = si // break cycles
	st := n.Underlying().(*types.Struct)
	for i := 0; i < st.NumFields(); i++ {
		f := st.Field(i)
		lt, ok := t.leanType(f.Type())
		z, ok2 := t.zero(f.Type())
		if _, isPtr := f.Type().(*types.Pointer); isPtr && ok && nilableFields[n.Obj().Pkg().Path()+"."+n.Obj().Name()+"."+f.Name()] {
			// a pointer FIELD can be nil: Option of the pointee (locals and parameters of pointer type stay plain)
			lt, z, ok2 = "(Option "+lt+")", "none", true
		}
		if !ok || !ok2 {
			si.omitted = append(si.omitted, f.Name())
			if as, isAnon := f.Type().(*types.Struct); isAnon {
				if si.anon == nil {
					si.anon = map[string]*types.Struct{}
				}
				si.anon[f.Name()] = as
			}
			continue
		}
		si.fields = append(si.fields, fmt.Sprintf("  %s : %s := %s", sanitize(f.Name()), lt, z))
	}
	t.sorder = append(t.sorder, name)
	return si
}

// enableAnonField models the anonymous-struct field fname of si as a synthetic
// structure `<parent>_<field>` (emitted before the parent). Returns the synthetic
// struct, or nil when fname is not such a field.
func (t *tcode) enableAnonField(si *structInfo, fname string) *structInfo {
	st, ok := si.anon[fname]
	if !ok {
		return nil
	}
	name := si.leanName + "_" + fname
	if sub, done := t.structs[name]; done {
		return sub
	}
	sub := &structInfo{leanName: name, pkg: si.pkg}
	t.structs[name] = sub
	for i := 0; i < st.NumFields(); i++ {
		f := st.Field(i)
		lt, ok := t.leanType(f.Type())
		z, ok2 := t.zero(f.Type())
		if !ok || !ok2 {
			sub.omitted = append(sub.omitted, f.Name())
			continue
		}
		sub.fields = append(sub.fields, fmt.Sprintf("  %s : %s := %s", sanitize(f.Name()), lt, z))
	}
	// emit before the parent
	idx := len(t.sorder)
	for i, n := range t.sorder {
		if n == si.leanName {
			idx = i
			break
		}
	}
	t.sorder = append(t.sorder[:idx], append([]string{name}, t.sorder[idx:]...)...)
	si.fields = append(si.fields, fmt.Sprintf("  %s : %s := ({} : %s)", sanitize(fname), name, name))
	var om []string
	for _, o := range si.omitted {
		if o != fname {
			om = append(om, o)
		}
	}
	si.omitted = om
	if t.anonOf == nil {
		t.anonOf = map[*types.Struct]*structInfo{}
	}
	t.anonOf[st] = sub
	return sub
}

func (si *structInfo) hasField(name string) bool {
	for _, o := range si.omitted {
		if o == name {
			return false
		}
	}
	return true
}

// ---------------------------------------------------------------- functions

func (t *tcode) objKey(obj types.Object) string {
	if v, ok := obj.(*types.Var); ok {
		return t.closureKey[v] // "" unless a sibling closure of a translated region
	}
	fn, ok := obj.(*types.Func)
	if !ok || fn.Pkg() == nil {
		return ""
	}
	sig := fn.Type().(*types.Signature)
	if r := sig.Recv(); r != nil {
		T := r.Type()
		if p, ok := T.(*types.Pointer); ok {
			T = p.Elem()
		}
		if n, ok := T.(*types.Named); ok {
			return fn.Pkg().Path() + "." + n.Obj().Name() + "." + fn.Name()
		}
		return ""
	}
	return fn.Pkg().Path() + "." + fn.Name()
}

func (t *tcode) ensureFn(key string, at ast.Node) *fnInfo {
	if fi, ok := t.fns[key]; ok {
		return fi
	}
	decl, ok := t.L.funcs[key]
	if !ok {
		if at != nil {
			t.fail(at, "call to %s: not a core function with a body", key)
		}
		return nil
	}
	i := strings.LastIndex(key, "/")
	dot := strings.Index(key[i+1:], ".")
	pkgPath := key[:i+1+dot]
	alias := pkgAlias[pkgPath]
	fi := &fnInfo{key: key, decl: decl, pkg: alias, leanName: "Gen." + alias + "." + key[len(pkgPath)+1:], pos: t.L.pos(decl)}
	t.fns[key] = fi
	t.work = append(t.work, key)
	// pointer-mutation analysis (syntactic)
	var params []*ast.Ident
	if decl.Recv != nil {
		for _, f := range decl.Recv.List {
			for _, n := range f.Names {
				params = append(params, n)
			}
			if len(f.Names) == 0 {
				params = append(params, ast.NewIdent("_"))
			}
		}
	}
	for _, f := range decl.Type.Params.List {
		for _, n := range f.Names {
			params = append(params, n)
		}
		if len(f.Names) == 0 {
			params = append(params, ast.NewIdent("_"))
		}
	}
	fi.ptrMut = make([]bool, len(params))
	for i, p := range params {
		obj := t.L.info.Defs[p]
		if obj == nil {
			continue
		}
		if _, isPtr := obj.Type().(*types.Pointer); !isPtr {
			continue
		}
		mut := false
		ast.Inspect(decl.Body, func(n ast.Node) bool {
			switch s := n.(type) {
			case *ast.AssignStmt:
				for _, l := range s.Lhs {
					if r := rootIdent(l); r != nil && t.L.info.Uses[r] == obj {
						if _, isId := l.(*ast.Ident); !isId {
							mut = true
						}
					}
				}
			case *ast.IncDecStmt:
				if r := rootIdent(s.X); r != nil && t.L.info.Uses[r] == obj {
					mut = true
				}
			}
			return true
		})
		fi.ptrMut[i] = mut
	}
	return fi
}

func rootIdent(e ast.Expr) *ast.Ident {
	for {
		switch x := e.(type) {
		case *ast.Ident:
			return x
		case *ast.SelectorExpr:
			e = x.X
		case *ast.StarExpr:
			e = x.X
		case *ast.ParenExpr:
			e = x.X
		case *ast.IndexExpr:
			e = x.X
		default:
			return nil
		}
	}
}

// impurity: computed as a fixpoint after all bodies are scanned syntactically
func (t *tcode) computeImpure() {
	// direct impurity
	direct := map[string]bool{}
	calls := map[string][]string{}
	for key, fi := range t.fns {
		ast.Inspect(fi.decl.Body, func(n ast.Node) bool {
			switch x := n.(type) {
			case *ast.CallExpr:
				if id, ok := x.Fun.(*ast.Ident); ok && id.Name == "panic" {
					if _, isB := t.L.info.Uses[id].(*types.Builtin); isB {
						direct[key] = true
					}
				}
				if obj := t.calleeObj(x); obj != nil {
					k := t.objKey(obj)
					if ex, ok := externs[k]; ok {
						if ex.impure {
							direct[key] = true
						}
					} else if _, isExt := extFuncs[k]; isExt {
						// called through the Ext structure: a total function there, whatever the generated root of the same name is
					} else if _, ok := t.L.funcs[k]; ok {
						calls[key] = append(calls[key], k)
					}
				}
			case *ast.IndexExpr:
				if tv, ok := t.L.info.Types[x.X]; ok && tv.Type != nil {
					switch tv.Type.Underlying().(type) {
					case *types.Slice, *types.Array:
						direct[key] = true
					}
				}
			case *ast.RangeStmt:
				direct[key] = true
			case *ast.SelectorExpr:
				if inner, ok := x.X.(*ast.SelectorExpr); ok {
					if (&emitter{t: t}).isPtrField(inner) {
						direct[key] = true
					}
				}
			case *ast.StarExpr:
				if inner, ok := x.X.(*ast.SelectorExpr); ok {
					if (&emitter{t: t}).isPtrField(inner) {
						direct[key] = true
					}
				}
			case *ast.BinaryExpr:
				if x.Op == token.QUO || x.Op == token.REM {
					if tv, ok := t.L.info.Types[x.Y]; ok && tv.Value == nil {
						if tv2 := t.L.info.Types[x]; tv2.Value == nil {
							direct[key] = true
						}
					}
				}
			case *ast.AssignStmt:
				if x.Tok == token.QUO_ASSIGN || x.Tok == token.REM_ASSIGN {
					if tv, ok := t.L.info.Types[x.Rhs[0]]; ok && tv.Value == nil {
						direct[key] = true
					}
				}
			}
			return true
		})
	}
	for changed := true; changed; {
		changed = false
		for key := range t.fns {
			if direct[key] {
				continue
			}
			for _, c := range calls[key] {
				if direct[c] {
					direct[key] = true
					changed = true
					break
				}
			}
		}
	}
	for key, fi := range t.fns {
		fi.impure = direct[key]
	}
	// which definitions need the Ext structure
	ext := map[string]bool{}
	for key, fi := range t.fns {
		ast.Inspect(fi.decl.Body, func(n ast.Node) bool {
			if ta, ok := n.(*ast.TypeAssertExpr); ok && ta.Type != nil {
				ext[key] = true
			}
			if c, ok := n.(*ast.CallExpr); ok {
				if obj := t.calleeObj(c); obj != nil {
					if _, ok := extFuncs[t.objKey(obj)]; ok {
						ext[key] = true
					}
				}
			}
			return true
		})
	}
	for changed := true; changed; {
		changed = false
		for key := range t.fns {
			if ext[key] {
				continue
			}
			for _, c := range calls[key] {
				if ext[c] {
					ext[key] = true
					changed = true
					break
				}
			}
		}
	}
	for key, fi := range t.fns {
		fi.usesExt = ext[key]
	}
}

func (t *tcode) calleeObj(c *ast.CallExpr) types.Object {
	switch f := c.Fun.(type) {
	case *ast.Ident:
		return t.L.info.Uses[f]
	case *ast.SelectorExpr:
		if sel, ok := t.L.info.Selections[f]; ok {
			return sel.Obj()
		}
		return t.L.info.Uses[f.Sel]
	case *ast.ParenExpr:
		return nil
	}
	return nil
}

// discover: transitively add callees and package-level vars so that impurity
// can be computed before emission.
func (t *tcode) discover() {
	for len(t.work) > 0 {
		key := t.work[0]
		t.work = t.work[1:]
		fi := t.fns[key]
		ast.Inspect(fi.decl.Body, func(n ast.Node) bool {
			c, ok := n.(*ast.CallExpr)
			if !ok {
				return true
			}
			if obj := t.calleeObj(c); obj != nil {
				k := t.objKey(obj)
				if k == "" {
					return true
				}
				if _, ok := externs[k]; ok {
					return true
				}
				if _, ok := t.L.funcs[k]; ok && !t.opaqueCall(k) {
					t.ensureFn(k, nil)
				}
			}
			return true
		})
		// package-level var initialisers referenced
		ast.Inspect(fi.decl.Body, func(n ast.Node) bool {
			id, ok := n.(*ast.Ident)
			if !ok {
				return true
			}
			if v, ok := t.L.info.Uses[id].(*types.Var); ok && v.Pkg() != nil && v.Parent() == v.Pkg().Scope() && pkgAlias[v.Pkg().Path()] != "" {
				if init := t.varInit(v); init != nil {
					ast.Inspect(init, func(n ast.Node) bool {
						if c, ok := n.(*ast.CallExpr); ok {
							if obj := t.calleeObj(c); obj != nil {
								if k := t.objKey(obj); k != "" {
									if _, ok := t.L.funcs[k]; ok && !t.opaqueCall(k) {
										t.ensureFn(k, nil)
									}
								}
							}
						}
						return true
					})
				}
			}
			return true
		})
	}
}

// calls whose result is an `error` built from formatting: modelled as an opaque
// non-nil error value.
func (t *tcode) opaqueCall(key string) bool {
	if _, ok := extFuncs[key]; ok {
		return true
	}
	switch key {
	case coreMod + "/rhp/v4.NewRPCError", coreMod + "/rhp/v4.ErrorCode.String":
		return true
	}
	return false
}

func (t *tcode) varInit(v *types.Var) ast.Expr {
	for _, f := range t.L.files[v.Pkg().Path()] {
		for _, d := range f.Decls {
			gd, ok := d.(*ast.GenDecl)
			if !ok || gd.Tok != token.VAR {
				continue
			}
			for _, s := range gd.Specs {
				vs := s.(*ast.ValueSpec)
				for i, n := range vs.Names {
					if t.L.info.Defs[n] == v {
						if i < len(vs.Values) {
							return vs.Values[i]
						}
						return nil
					}
				}
			}
		}
	}
	return nil
}

// ---------------------------------------------------------------- emission

type emitter struct {
	t      *tcode
	fi     *fnInfo
	impure bool
	tmp    int
	deps   map[string]bool
	// names declared anywhere in the function (for the no-shadowing rule)
	declared map[string]int
	results  []*types.Var // named results
	resNames []string
	ptrOut   []string // names of pointer params returned first
	size     int
	loops    []string // innermost last: the state tuple of each enclosing range loop ("()" when empty)
}

func (e *emitter) fresh() string {
	e.tmp++
	return fmt.Sprintf("t_%d", e.tmp)
}

type hoist struct{ lines []string }

func (e *emitter) typeOf(x ast.Expr) types.Type {
	tv, ok := e.t.L.info.Types[x]
	if !ok || tv.Type == nil {
		e.t.fail(x, "no type information")
	}
	return tv.Type
}

func (e *emitter) constLit(x ast.Expr, tv types.TypeAndValue) string {
	T := tv.Type
	switch tv.Value.Kind() {
	case constant.Bool:
		if constant.BoolVal(tv.Value) {
			return "true"
		}
		return "false"
	case constant.String:
		return fmt.Sprintf("%q", constant.StringVal(tv.Value))
	case constant.Int:
		s := tv.Value.ExactString()
		if b, ok := T.Underlying().(*types.Basic); ok {
			if _, signed, ok := bitsOf(b); ok && signed {
				return "(" + s + " : Int)"
			}
		}
		if n, ok := T.(*types.Named); ok && n.Obj().Pkg() != nil && n.Obj().Pkg().Path() == "time" {
			return "(" + s + " : Int)"
		}
		return "(" + s + " : Nat)"
	}
	e.t.fail(x, "unsupported constant kind")
	return ""
}

func (e *emitter) expr(x ast.Expr, h *hoist) string {
	e.size++
	info := e.t.L.info
	if tv, ok := info.Types[x]; ok && tv.Value != nil {
		return e.constLit(x, tv)
	}
	switch x := x.(type) {
	case *ast.ParenExpr:
		return e.expr(x.X, h)
	case *ast.Ident:
		obj := info.Uses[x]
		if obj == nil {
			obj = info.Defs[x]
		}
		switch o := obj.(type) {
		case *types.Nil:
			return "none"
		case *types.Var:
			if o.Pkg() != nil && o.Parent() == o.Pkg().Scope() {
				return e.globalVar(o, x)
			}
			return sanitize(x.Name)
		case *types.Const:
			e.t.fail(x, "constant without value")
		}
		e.t.fail(x, "unsupported identifier %s", x.Name)
	case *ast.SelectorExpr:
		if sel, ok := info.Selections[x]; ok {
			if sel.Kind() != types.FieldVal {
				e.t.fail(x, "method value not supported")
			}
			base := e.expr(x.X, h)
			if e.isPtrField(x.X) {
				base = e.hoistCall(h, "Go.deref "+e.atom(base), true)
			}
			// check field is modelled
			recvT := sel.Recv()
			if p, ok := recvT.(*types.Pointer); ok {
				recvT = p.Elem()
			}
			if len(sel.Index()) != 1 {
				e.t.fail(x, "embedded field access not supported")
			}
			if n, ok := recvT.(*types.Named); ok {
				if _, ok := n.Underlying().(*types.Struct); ok && n.Obj().Pkg() != nil && pkgAlias[n.Obj().Pkg().Path()] != "" {
					si := e.t.ensureStruct(n)
					if !si.hasField(x.Sel.Name) {
						if sub := e.t.enableAnonField(si, x.Sel.Name); sub != nil {
							e.deps[sub.leanName] = true
						} else {
							e.t.fail(x, "field %s.%s has an unmodelled type", n.Obj().Name(), x.Sel.Name)
						}
					}
					e.deps[si.leanName] = true
				}
			} else if as, ok := recvT.(*types.Struct); ok {
				// field of a modelled anonymous struct (its parent selector was translated just above)
				sub := e.t.anonOf[as]
				if sub == nil || !sub.hasField(x.Sel.Name) {
					e.t.fail(x, "field %s of an anonymous struct has an unmodelled type", x.Sel.Name)
				}
				e.deps[sub.leanName] = true
			}
			return base + "." + sanitize(x.Sel.Name)
		}
		// package-qualified
		obj := info.Uses[x.Sel]
		if v, ok := obj.(*types.Var); ok {
			return e.globalVar(v, x)
		}
		e.t.fail(x, "unsupported selector")
	case *ast.StarExpr:
		if e.isPtrField(x.X) {
			return e.hoistCall(h, "Go.deref "+e.atom(e.expr(x.X, h)), true)
		}
		return e.expr(x.X, h)
	case *ast.IndexExpr:
		switch e.typeOf(x.X).Underlying().(type) {
		case *types.Slice, *types.Array:
			if isBytesType(e.typeOf(x.X)) {
				e.t.fail(x, "index into a byte string")
			}
			xs := e.expr(x.X, h)
			idx := e.expr(x.Index, h)
			if ib, ok := e.typeOf(x.Index).Underlying().(*types.Basic); ok {
				if _, signed, _ := bitsOf(ib); !signed {
					idx = "(Int.ofNat " + idx + ")"
				}
			}
			return e.hoistCall(h, "Go.sliceGet "+e.atom(xs)+" "+e.atom(idx), true)
		}
		e.t.fail(x, "unsupported index expression")
	case *ast.SliceExpr:
		if x.Low == nil && x.High == nil && x.Max == nil {
			return e.expr(x.X, h) // x[:] — same contents
		}
		e.t.fail(x, "slice expression with bounds")
	case *ast.UnaryExpr:
		T := e.typeOf(x)
		switch x.Op {
		case token.NOT:
			return "(!" + e.expr(x.X, h) + ")"
		case token.SUB:
			if b, ok := T.Underlying().(*types.Basic); ok {
				if bits, signed, ok := bitsOf(b); ok {
					if signed {
						return "(-" + e.expr(x.X, h) + ")"
					}
					return fmt.Sprintf("((%s - %s %% %s) %% %s)", pow2(bits), e.expr(x.X, h), pow2(bits), pow2(bits))
				}
			}
		case token.XOR:
			if b, ok := T.Underlying().(*types.Basic); ok {
				if bits, signed, ok := bitsOf(b); ok && !signed {
					return fmt.Sprintf("(%s - 1 - %s)", pow2(bits), e.expr(x.X, h))
				}
			}
		case token.ADD:
			return e.expr(x.X, h)
		}
		e.t.fail(x, "unsupported unary operator %s", x.Op)
	case *ast.BinaryExpr:
		return e.binary(x, x.Op, x.X, x.Y, e.typeOf(x), h)
	case *ast.CompositeLit:
		return e.composite(x, h)
	case *ast.CallExpr:
		return e.call(x, h, nil)
	}
	e.t.fail(x, "unsupported expression %T", x)
	return ""
}

// pointer-typed struct fields modelled as `Option` (nil is a value the code tests for). Every other pointer field is
// modelled as its pointee, i.e. assumed non-nil (State.Network, …): a nil test on such a field does not type-check in
// Lean, so the assumption cannot be used silently.
var nilableFields = map[string]bool{
	coreMod + "/types.Block.V2":                          true,
	coreMod + "/types.V2Transaction.NewFoundationAddress": true,
	coreMod + "/consensus.V2FileContractElementDiff.Revision": true,
}

// isPtrField: x selects a struct field of pointer type (modelled as Option)
func (e *emitter) isPtrField(x ast.Expr) bool {
	for {
		p, ok := x.(*ast.ParenExpr)
		if !ok {
			break
		}
		x = p.X
	}
	se, ok := x.(*ast.SelectorExpr)
	if !ok {
		return false
	}
	sel, ok := e.t.L.info.Selections[se]
	if !ok || sel.Kind() != types.FieldVal {
		return false
	}
	if _, isPtr := sel.Obj().Type().(*types.Pointer); !isPtr {
		return false
	}
	recv := sel.Recv()
	if p, ok := recv.(*types.Pointer); ok {
		recv = p.Elem()
	}
	nm, ok := recv.(*types.Named)
	return ok && nm.Obj().Pkg() != nil && nilableFields[nm.Obj().Pkg().Path()+"."+nm.Obj().Name()+"."+sel.Obj().Name()]
}

func (e *emitter) globalVar(v *types.Var, at ast.Node) string {
	alias := pkgAlias[v.Pkg().Path()]
	if alias == "" {
		e.t.fail(at, "package-level variable %s.%s outside core", v.Pkg().Path(), v.Name())
	}
	name := "Gen." + alias + "." + v.Name()
	if _, ok := e.t.vars[name]; !ok {
		init := e.t.varInit(v)
		vi := &varInfo{leanName: name, pkg: alias}
		e.t.vars[name] = vi
		lt, ok := e.t.leanType(v.Type())
		if !ok {
			e.t.fail(at, "package-level variable %s has unmodelled type", v.Name())
		}
		vi.typ = lt
		sub := &emitter{t: e.t, fi: e.fi, deps: map[string]bool{}, declared: map[string]int{}}
		var h hoist
		if init == nil {
			z, _ := e.t.zero(v.Type())
			vi.body = z
		} else {
			vi.body = sub.expr(init, &h)
			if len(h.lines) > 0 {
				e.t.fail(at, "package-level variable %s has an impure initialiser", v.Name())
			}
		}
		for d := range sub.deps {
			vi.deps = append(vi.deps, d)
		}
		sort.Strings(vi.deps)
		e.t.vorder = append(e.t.vorder, name)
	}
	e.deps[name] = true
	return name
}

func (e *emitter) binary(at ast.Node, op token.Token, X, Y ast.Expr, T types.Type, h *hoist) string {
	info := e.t.L.info
	switch op {
	case token.LAND, token.LOR:
		l := e.expr(X, h)
		var h2 hoist
		r := e.expr(Y, &h2)
		if len(h2.lines) > 0 {
			// The right operand can panic (e.g. `%` by a variable) and Go evaluates it only
			// when the left operand does not decide: bind the whole operator to a temporary
			// whose right branch runs the hoisted calls. Every hoisted line is `let v ← call`.
			body := "pure " + r
			for i := len(h2.lines) - 1; i >= 0; i-- {
				ln := h2.lines[i]
				const pre = "let "
				k := strings.Index(ln, " ← ")
				if !strings.HasPrefix(ln, pre) || k < 0 {
					e.t.fail(at, "panicking call on the right of a short-circuit operator")
				}
				body = "(" + ln[k+len(" ← "):] + ") >>= fun " + ln[len(pre):k] + " => " + body
			}
			if op == token.LAND {
				return e.hoistCall(h, fmt.Sprintf("(if %s then (%s) else pure false)", l, body), true)
			}
			return e.hoistCall(h, fmt.Sprintf("(if %s then pure true else (%s))", l, body), true)
		}
		if op == token.LAND {
			return "(" + l + " && " + r + ")"
		}
		return "(" + l + " || " + r + ")"
	case token.EQL, token.NEQ, token.LSS, token.LEQ, token.GTR, token.GEQ:
		l := e.expr(X, h)
		r := e.expr(Y, h)
		sym := map[token.Token]string{token.EQL: "=", token.NEQ: "≠", token.LSS: "<", token.LEQ: "≤", token.GTR: ">", token.GEQ: "≥"}[op]
		return "(decide (" + l + " " + sym + " " + r + "))"
	}
	// arithmetic
	opT := info.Types[X].Type
	if op == token.SHL || op == token.SHR {
		opT = T
	}
	b, ok := opT.Underlying().(*types.Basic)
	if !ok {
		e.t.fail(at, "arithmetic on non-basic type %s", opT)
	}
	bits, signed, ok := bitsOf(b)
	if !ok {
		e.t.fail(at, "arithmetic on unsupported type %s", opT)
	}
	l := e.expr(X, h)
	if op == token.SHL || op == token.SHR {
		cnt := e.expr(Y, h)
		if cb, ok := info.Types[Y].Type.Underlying().(*types.Basic); ok {
			if _, csigned, _ := bitsOf(cb); csigned {
				cnt = "(Int.toNat " + cnt + ")"
			}
		}
		if signed {
			e.t.fail(at, "shift of signed value not supported")
		}
		if op == token.SHL {
			return fmt.Sprintf("((%s <<< %s) %% %s)", l, cnt, pow2(bits))
		}
		return fmt.Sprintf("(%s >>> %s)", l, cnt)
	}
	r := e.expr(Y, h)
	W := pow2(bits)
	if signed {
		// int arithmetic is modelled without wrap-around (documented assumption)
		switch op {
		case token.ADD:
			return "(" + l + " + " + r + ")"
		case token.SUB:
			return "(" + l + " - " + r + ")"
		case token.MUL:
			return "(" + l + " * " + r + ")"
		case token.QUO:
			return e.hoistCall(h, fmt.Sprintf("Go.intDiv %s %s", l, r), true)
		case token.REM:
			return e.hoistCall(h, fmt.Sprintf("Go.intMod %s %s", l, r), true)
		}
		e.t.fail(at, "unsupported signed operator %s", op)
	}
	switch op {
	case token.ADD:
		return fmt.Sprintf("((%s + %s) %% %s)", l, r, W)
	case token.SUB:
		return fmt.Sprintf("((%s + %s - %s) %% %s)", l, W, r, W)
	case token.MUL:
		return fmt.Sprintf("((%s * %s) %% %s)", l, r, W)
	case token.QUO:
		if tv := info.Types[Y]; tv.Value != nil && constant.Sign(tv.Value) != 0 {
			return fmt.Sprintf("(%s / %s)", l, r)
		}
		return e.hoistCall(h, fmt.Sprintf("Go.natDiv %s %s", l, r), true)
	case token.REM:
		if tv := info.Types[Y]; tv.Value != nil && constant.Sign(tv.Value) != 0 {
			return fmt.Sprintf("(%s %% %s)", l, r)
		}
		return e.hoistCall(h, fmt.Sprintf("Go.natMod %s %s", l, r), true)
	case token.AND:
		return fmt.Sprintf("(%s &&& %s)", l, r)
	case token.OR:
		return fmt.Sprintf("(%s ||| %s)", l, r)
	case token.XOR:
		return fmt.Sprintf("(%s ^^^ %s)", l, r)
	case token.AND_NOT:
		return fmt.Sprintf("(Go.andNot %d %s %s)", bits, l, r)
	}
	e.t.fail(at, "unsupported operator %s", op)
	return ""
}

// hoistCall binds an impure call to a fresh temporary (evaluation order is
// preserved because hoisted lines are emitted in order of occurrence).
func (e *emitter) hoistCall(h *hoist, call string, impure bool) string {
	if !impure {
		return "(" + call + ")"
	}
	if !e.impure {
		panic(terr{"internal: impure call in function classified pure: " + call})
	}
	v := e.fresh()
	h.lines = append(h.lines, fmt.Sprintf("let %s ← %s", v, call))
	return v
}

func (e *emitter) composite(x *ast.CompositeLit, h *hoist) string {
	T := e.typeOf(x)
	if _, ok := T.Underlying().(*types.Struct); ok {
		n, ok := T.(*types.Named)
		if !ok {
			e.t.fail(x, "anonymous struct literal")
		}
		lt, ok := e.t.leanType(T)
		if !ok {
			e.t.fail(x, "unmodelled struct type %s", T)
		}
		e.deps[lt] = true
		st := n.Underlying().(*types.Struct)
		si := e.t.ensureStruct(n)
		var parts []string
		for i, el := range x.Elts {
			var fname string
			var val ast.Expr
			if kv, ok := el.(*ast.KeyValueExpr); ok {
				fname = kv.Key.(*ast.Ident).Name
				val = kv.Value
			} else {
				fname = st.Field(i).Name()
				val = el
			}
			if !si.hasField(fname) {
				e.t.fail(x, "literal sets unmodelled field %s", fname)
			}
			fv := ""
			for fi := 0; fi < st.NumFields(); fi++ {
				if st.Field(fi).Name() == fname {
					if _, isPtr := st.Field(fi).Type().(*types.Pointer); isPtr {
						if u, ok := val.(*ast.UnaryExpr); ok && u.Op == token.AND {
							fv = "(some " + e.atom(e.expr(u.X, h)) + ")"
						} else if tv, ok := e.t.L.info.Types[val]; ok && tv.IsNil() {
							fv = "none"
						} else if e.isPtrField(val) {
							fv = e.expr(val, h)
						} else {
							e.t.fail(val, "pointer field %s set from an expression that is neither &x, nil nor another pointer field", fname)
						}
					}
				}
			}
			if fv == "" {
				fv = e.expr(val, h)
			}
			parts = append(parts, sanitize(fname)+" := "+fv)
		}
		return "({ " + strings.Join(parts, ", ") + " } : " + lt + ")"
	}
	if len(x.Elts) == 0 {
		z, ok := e.t.zero(T)
		if ok {
			return z
		}
	}
	e.t.fail(x, "unsupported composite literal of type %s", T)
	return ""
}

// call translates a call expression. ptrTargets, when non-nil, receives the
// names of variables passed by address to pointer-mutating parameters; the
// returned expression then yields (ptrs..., results...).
func (e *emitter) call(x *ast.CallExpr, h *hoist, ptrTargets *[]ast.Expr) string {
	info := e.t.L.info
	// conversion?
	if tv, ok := info.Types[x.Fun]; ok && tv.IsType() {
		return e.conversion(x, tv.Type, x.Args[0], h)
	}
	if id, ok := x.Fun.(*ast.Ident); ok {
		if _, isB := info.Uses[id].(*types.Builtin); isB {
			switch id.Name {
			case "min", "max":
				if len(x.Args) != 2 {
					e.t.fail(x, "%s with %d args", id.Name, len(x.Args))
				}
				return fmt.Sprintf("(%s %s %s)", id.Name, e.expr(x.Args[0], h), e.expr(x.Args[1], h))
			case "make":
				if _, isMap := e.typeOf(x).Underlying().(*types.Map); isMap && len(x.Args) == 1 {
					return "[]"
				}
				e.t.fail(x, "make of a non-map type")
			case "len":
				T := e.typeOf(x.Args[0])
				if isBytesType(T) {
					return "(Int.ofNat " + e.expr(x.Args[0], h) + ".size)"
				}
				return "(Int.ofNat " + e.expr(x.Args[0], h) + ".length)"
			}
			e.t.fail(x, "unsupported builtin %s", id.Name)
		}
	}
	obj := e.t.calleeObj(x)
	if obj == nil {
		e.t.fail(x, "cannot resolve callee")
	}
	key := e.t.objKey(obj)
	resT := e.typeOf(x)
	if key == "" {
		e.t.fail(x, "unsupported callee")
	}
	if ex, ok := externs[key]; ok {
		var args []string
		for _, a := range x.Args {
			args = append(args, e.atom(e.expr(a, h)))
		}
		return e.hoistCall(h, ex.lean+" "+strings.Join(args, " "), ex.impure)
	}
	if field, ok := extFuncs[key]; ok {
		// external function: a field of the package's Ext structure (tregion.go)
		if !e.fi.usesExt {
			e.t.fail(x, "call to external %s outside a translated region", key)
		}
		fn := obj.(*types.Func)
		e.t.extUse(e.fi.pkg, field, fn.Type().(*types.Signature), x)
		var args []string
		if sel, ok := x.Fun.(*ast.SelectorExpr); ok {
			if _, isMethod := info.Selections[sel]; isMethod {
				args = append(args, e.atom(e.expr(sel.X, h)))
			}
		}
		for _, a := range x.Args {
			args = append(args, e.atom(e.expr(a, h)))
		}
		return "(ext." + field + " " + strings.Join(args, " ") + ")"
	}
	if _, isCore := e.t.L.funcs[key]; !isCore || e.t.opaqueCall(key) {
		// opaque helpers: formatting and error construction
		if isErrorType(resT) {
			name := key[strings.LastIndex(key, "/")+1:]
			if len(x.Args) > 0 {
				// the error value is the literal format string
				if tv, ok := info.Types[x.Args[0]]; ok && tv.Value != nil && tv.Value.Kind() == constant.String {
					name = constant.StringVal(tv.Value)
				}
			}
			return fmt.Sprintf("(some %q : Option String)", name)
		}
		if b, ok := resT.Underlying().(*types.Basic); ok && b.Kind() == types.String {
			return "\"\""
		}
		e.t.fail(x, "call to unmodelled function %s", key)
	}
	callee := e.t.ensureFn(key, x)
	e.deps[callee.leanName] = true
	var args []string
	var argExprs []ast.Expr
	if callee.usesExt {
		if !e.fi.usesExt || callee.pkg != e.fi.pkg {
			e.t.fail(x, "call to %s, which needs external functions, from a definition without them", key)
		}
		args = append(args, "ext")
	}
	nfree := 0
	if ri := e.t.isRegion[key]; ri != nil {
		// a sibling closure: its captured variables are in scope here under their own names
		for _, v := range ri.frees {
			args = append(args, sanitize(v.Name()))
		}
		nfree = len(ri.frees)
	}
	if sel, ok := x.Fun.(*ast.SelectorExpr); ok {
		if _, isMethod := info.Selections[sel]; isMethod {
			argExprs = append(argExprs, sel.X)
		}
	}
	argExprs = append(argExprs, x.Args...)
	anyPtr := false
	for i0, a := range argExprs {
		i := i0 + nfree
		if i < len(callee.ptrMut) && callee.ptrMut[i] {
			anyPtr = true
			// must be &ident or an identifier that is itself a pointer parameter
			target := a
			if u, ok := a.(*ast.UnaryExpr); ok && u.Op == token.AND {
				target = u.X
			}
			if ptrTargets == nil {
				e.t.fail(x, "call to pointer-mutating %s in expression position", key)
			}
			*ptrTargets = append(*ptrTargets, target)
			args = append(args, e.atom(e.expr(target, h)))
			continue
		}
		if u, ok := a.(*ast.UnaryExpr); ok && u.Op == token.AND {
			a = u.X
		}
		args = append(args, e.atom(e.expr(a, h)))
	}
	_ = anyPtr
	return e.hoistCall(h, callee.leanName+" "+strings.Join(args, " "), callee.impure)
}

func isBytesType(T types.Type) bool {
	switch x := T.Underlying().(type) {
	case *types.Array:
		return isByte(x.Elem())
	case *types.Slice:
		return isByte(x.Elem())
	}
	return false
}

func (e *emitter) atom(s string) string {
	if strings.ContainsAny(s, " ") && !(strings.HasPrefix(s, "(") && balanced(s)) {
		return "(" + s + ")"
	}
	return s
}

func balanced(s string) bool {
	// true when the leading '(' closes at the very end
	d := 0
	for i, c := range s {
		if c == '(' {
			d++
		} else if c == ')' {
			d--
			if d == 0 && i != len(s)-1 {
				return false
			}
		}
	}
	return d == 0
}

func (e *emitter) conversion(at ast.Node, to types.Type, arg ast.Expr, h *hoist) string {
	from := e.typeOf(arg)
	a := e.expr(arg, h)
	tb, tok := to.Underlying().(*types.Basic)
	fb, fok := from.Underlying().(*types.Basic)
	if tok && fok {
		tbits, tsigned, ok1 := bitsOf(tb)
		fbits, fsigned, ok2 := bitsOf(fb)
		if ok1 && ok2 {
			switch {
			case !tsigned && !fsigned:
				if tbits >= fbits {
					return a
				}
				return fmt.Sprintf("(%s %% %s)", a, pow2(tbits))
			case !tsigned && fsigned:
				return fmt.Sprintf("(Int.toNat (%s %% %s))", a, pow2(tbits))
			case tsigned && !fsigned:
				// assumes the value fits (documented)
				return "(Int.ofNat " + a + ")"
			default:
				return a
			}
		}
	}
	// same underlying representation (named byte arrays, named structs)
	lt1, ok1 := e.t.leanType(to)
	lt2, ok2 := e.t.leanType(from)
	if ok1 && ok2 && lt1 == lt2 {
		return a
	}
	e.t.fail(at, "unsupported conversion %s -> %s", from, to)
	return ""
}

// ------------------------------------------------------------ statements

func terminates(stmts []ast.Stmt) bool {
	if len(stmts) == 0 {
		return false
	}
	switch s := stmts[len(stmts)-1].(type) {
	case *ast.ReturnStmt:
		return true
	case *ast.ExprStmt:
		if c, ok := s.X.(*ast.CallExpr); ok {
			if id, ok := c.Fun.(*ast.Ident); ok && id.Name == "panic" {
				return true
			}
		}
	case *ast.BlockStmt:
		return terminates(s.List)
	case *ast.IfStmt:
		if s.Else == nil {
			return false
		}
		if !terminates(s.Body.List) {
			return false
		}
		switch el := s.Else.(type) {
		case *ast.BlockStmt:
			return terminates(el.List)
		case *ast.IfStmt:
			return terminates([]ast.Stmt{el})
		}
	case *ast.SwitchStmt:
		hasDefault := false
		for _, c := range s.Body.List {
			cc := c.(*ast.CaseClause)
			if cc.List == nil {
				hasDefault = true
			}
			if !terminates(cc.Body) {
				return false
			}
		}
		return hasDefault
	}
	return false
}

func (e *emitter) ind(n int) string { return strings.Repeat("  ", n) }

func (e *emitter) retExpr(vals []string) string {
	all := append(append([]string{}, e.ptrOut...), vals...)
	var s string
	switch len(all) {
	case 0:
		s = "()"
	case 1:
		s = all[0]
	default:
		s = "(" + strings.Join(all, ", ") + ")"
	}
	return e.retWrap(s)
}

// retWrap turns a fully formed result expression into the value a `return` produces here: inside a range-loop
// body it is the early-exit value of the iteration (`some result`, loop state).
func (e *emitter) retWrap(s string) string {
	if k := len(e.loops); k > 0 {
		return "pure (some " + e.atom(s) + ", " + e.loops[k-1] + ")"
	}
	if e.impure {
		return "pure " + e.atom(s)
	}
	return s
}

func (e *emitter) emitHoist(sb *strings.Builder, h *hoist, n int) {
	for _, l := range h.lines {
		sb.WriteString(e.ind(n) + l + "\n")
	}
	h.lines = nil
}

// assignTo emits the Lean binding that stores `val` into the Go lvalue lhs.
func (e *emitter) assignTo(sb *strings.Builder, lhs ast.Expr, val string, n int, h *hoist) {
	switch l := lhs.(type) {
	case *ast.Ident:
		if l.Name == "_" {
			return
		}
		sb.WriteString(fmt.Sprintf("%slet %s := %s\n", e.ind(n), sanitize(l.Name), val))
		return
	case *ast.ParenExpr:
		e.assignTo(sb, l.X, val, n, h)
		return
	case *ast.StarExpr:
		e.assignTo(sb, l.X, val, n, h)
		return
	case *ast.IndexExpr:
		if _, isMap := e.typeOf(l.X).Underlying().(*types.Map); isMap {
			if mid, ok := l.X.(*ast.Ident); ok {
				// m[k] = v on an association list: the newest binding comes first (Go.mapGet finds it first)
				k := e.expr(l.Index, h)
				sb.WriteString(fmt.Sprintf("%slet %s := (%s, %s) :: %s\n", e.ind(n), sanitize(mid.Name), k, val, sanitize(mid.Name)))
				return
			}
		}
		e.t.fail(lhs, "unsupported indexed assignment target")
	case *ast.SelectorExpr:
		root := rootIdent(l)
		if root == nil {
			e.t.fail(lhs, "unsupported assignment target")
		}
		// build the field path and validate fields exist
		var path []string
		cur := ast.Expr(l)
		for {
			s, ok := cur.(*ast.SelectorExpr)
			if !ok {
				break
			}
			path = append([]string{sanitize(s.Sel.Name)}, path...)
			// validates modelled field
			_ = e.expr(s, h)
			cur = s.X
			if p, ok := cur.(*ast.ParenExpr); ok {
				cur = p.X
			}
			if p, ok := cur.(*ast.StarExpr); ok {
				cur = p.X
			}
		}
		r := sanitize(root.Name)
		sb.WriteString(fmt.Sprintf("%slet %s := { %s with %s := %s }\n", e.ind(n), r, r, strings.Join(path, "."), val))
		return
	}
	e.t.fail(lhs, "unsupported assignment target %T", lhs)
}

func (e *emitter) noteDecl(id *ast.Ident) {
	if id.Name == "_" {
		return
	}
	e.declared[id.Name]++
}

// stmts translates a statement list followed by the continuation `rest`.
func (e *emitter) stmts(sb *strings.Builder, list []ast.Stmt, n int) {
	if e.size > 4000 {
		panic(terr{e.fi.pos + ": translated body too large (branch duplication)"})
	}
	if len(list) == 0 && len(e.loops) > 0 {
		sb.WriteString(e.ind(n) + "pure (none, " + e.loops[len(e.loops)-1] + ")\n")
		return
	}
	if len(list) == 0 {
		// fall off the end: only legal with named results / no results
		var vals []string
		for _, r := range e.resNames {
			vals = append(vals, r)
		}
		sig := e.t.L.info.Defs[e.fi.decl.Name].Type().(*types.Signature)
		if sig.Results().Len() > 0 && len(e.resNames) == 0 {
			if e.t.isRegion[e.fi.key] != nil && sig.Results().Len() == 1 && isErrorType(sig.Results().At(0).Type()) {
				// a region that is left without an early return: no error
				sb.WriteString(e.ind(n) + e.retExpr([]string{"(none : Option String)"}) + "\n")
				return
			}
			panic(terr{e.fi.pos + ": control reaches end of function without return"})
		}
		sb.WriteString(e.ind(n) + e.retExpr(vals) + "\n")
		return
	}
	s, rest := list[0], list[1:]
	var h hoist
	switch s := s.(type) {
	case *ast.EmptyStmt:
		e.stmts(sb, rest, n)
	case *ast.BlockStmt:
		e.stmts(sb, append(append([]ast.Stmt{}, s.List...), rest...), n)
	case *ast.ReturnStmt:
		var vals []string
		if len(s.Results) == 0 {
			vals = append(vals, e.resNames...)
		} else if len(s.Results) == 1 {
			if _, ok := e.typeOf(s.Results[0]).(*types.Tuple); ok {
				// return f() with multiple values
				v := e.expr(s.Results[0], &h)
				e.emitHoist(sb, &h, n)
				if len(e.ptrOut) > 0 || len(e.loops) > 0 {
					e.t.fail(s, "tuple-forwarding return in pointer-mutating function or loop")
				}
				if e.impure {
					sb.WriteString(e.ind(n) + "pure " + e.atom(v) + "\n")
				} else {
					sb.WriteString(e.ind(n) + v + "\n")
				}
				return
			}
			vals = append(vals, e.expr(s.Results[0], &h))
		} else {
			for _, r := range s.Results {
				vals = append(vals, e.expr(r, &h))
			}
		}
		e.emitHoist(sb, &h, n)
		sb.WriteString(e.ind(n) + e.retExpr(vals) + "\n")
	case *ast.ExprStmt:
		c, ok := s.X.(*ast.CallExpr)
		if !ok {
			e.t.fail(s, "unsupported expression statement")
		}
		if id, ok := c.Fun.(*ast.Ident); ok && id.Name == "panic" {
			msg := "panic"
			if len(c.Args) == 1 {
				if tv, ok := e.t.L.info.Types[c.Args[0]]; ok && tv.Value != nil && tv.Value.Kind() == constant.String {
					msg = constant.StringVal(tv.Value)
				}
			}
			sb.WriteString(fmt.Sprintf("%sthrow %q\n", e.ind(n), msg))
			return
		}
		var ptrs []ast.Expr
		v := e.call(c, &h, &ptrs)
		e.emitHoist(sb, &h, n)
		e.bindCallResult(sb, c, v, ptrs, nil, false, n)
		e.stmts(sb, rest, n)
	case *ast.DeclStmt:
		gd := s.Decl.(*ast.GenDecl)
		if gd.Tok == token.CONST {
			e.stmts(sb, rest, n)
			return
		}
		if gd.Tok != token.VAR {
			e.t.fail(s, "unsupported declaration")
		}
		for _, sp := range gd.Specs {
			vs := sp.(*ast.ValueSpec)
			for i, name := range vs.Names {
				e.noteDecl(name)
				obj := e.t.L.info.Defs[name]
				lt, ok := e.t.leanType(obj.Type())
				if !ok {
					e.t.fail(s, "variable %s has unmodelled type %s", name.Name, obj.Type())
				}
				var val string
				if i < len(vs.Values) {
					val = e.expr(vs.Values[i], &h)
					e.emitHoist(sb, &h, n)
				} else {
					z, ok := e.t.zero(obj.Type())
					if !ok {
						e.t.fail(s, "no zero value for %s", obj.Type())
					}
					val = z
				}
				if name.Name != "_" {
					sb.WriteString(fmt.Sprintf("%slet %s : %s := %s\n", e.ind(n), sanitize(name.Name), lt, val))
				}
			}
		}
		e.stmts(sb, rest, n)
	case *ast.IncDecStmt:
		op := token.ADD
		if s.Tok == token.DEC {
			op = token.SUB
		}
		one := &ast.BasicLit{Kind: token.INT, Value: "1"}
		T := e.typeOf(s.X)
		e.t.L.info.Types[one] = types.TypeAndValue{Type: T, Value: constant.MakeInt64(1)}
		val := e.binary(s, op, s.X, one, T, &h)
		e.emitHoist(sb, &h, n)
		e.assignTo(sb, s.X, val, n, &h)
		e.stmts(sb, rest, n)
	case *ast.AssignStmt:
		if len(s.Rhs) == 1 && len(s.Lhs) == 1 {
			if _, isLit := s.Rhs[0].(*ast.FuncLit); isLit {
				if id, ok := s.Lhs[0].(*ast.Ident); ok {
					if v, ok := e.t.L.info.Defs[id].(*types.Var); ok && e.t.closureKey[v] != "" {
						// a closure defined here is translated as a definition of its own
						e.stmts(sb, rest, n)
						return
					}
				}
			}
		}
		e.assign(sb, s, n)
		e.stmts(sb, rest, n)
	case *ast.IfStmt:
		if s.Init != nil {
			e.checkInitShadow(s.Init, rest)
			e.stmts1(sb, s.Init, n)
		}
		cond := e.expr(s.Cond, &h)
		e.emitHoist(sb, &h, n)
		thenL := s.Body.List
		var elseL []ast.Stmt
		switch el := s.Else.(type) {
		case *ast.BlockStmt:
			elseL = el.List
		case *ast.IfStmt:
			elseL = []ast.Stmt{el}
		}
		if e.tryJoin(sb, s, cond, thenL, elseL, n) {
			e.stmts(sb, rest, n)
			return
		}
		e.checkBlockShadow(thenL, rest)
		e.checkBlockShadow(elseL, rest)
		if !terminates(thenL) {
			thenL = append(append([]ast.Stmt{}, thenL...), rest...)
		}
		if !terminates(elseL) {
			elseL = append(append([]ast.Stmt{}, elseL...), rest...)
		}
		do := ""
		if e.impure {
			do = " do"
		}
		sb.WriteString(fmt.Sprintf("%sif %s then%s\n", e.ind(n), cond, do))
		e.stmts(sb, thenL, n+1)
		sb.WriteString(fmt.Sprintf("%selse%s\n", e.ind(n), do))
		e.stmts(sb, elseL, n+1)
	case *ast.SwitchStmt:
		if s.Init != nil {
			e.checkInitShadow(s.Init, rest)
			e.stmts1(sb, s.Init, n)
		}
		// desugar to an if-chain
		var chain ast.Stmt
		var clauses []*ast.CaseClause
		var def *ast.CaseClause
		for _, c := range s.Body.List {
			cc := c.(*ast.CaseClause)
			for _, b := range cc.Body {
				if br, ok := b.(*ast.BranchStmt); ok {
					e.t.fail(br, "branch statement in switch")
				}
			}
			if cc.List == nil {
				def = cc
			} else {
				clauses = append(clauses, cc)
			}
		}
		var elseS ast.Stmt
		if def != nil {
			elseS = &ast.BlockStmt{List: def.Body}
		}
		for i := len(clauses) - 1; i >= 0; i-- {
			cc := clauses[i]
			var cond ast.Expr
			for _, v := range cc.List {
				var c ast.Expr = v
				if s.Tag != nil {
					be := &ast.BinaryExpr{X: s.Tag, Op: token.EQL, Y: v}
					e.t.L.info.Types[be] = types.TypeAndValue{Type: types.Typ[types.Bool]}
					c = be
				}
				if cond == nil {
					cond = c
				} else {
					be := &ast.BinaryExpr{X: cond, Op: token.LOR, Y: c}
					e.t.L.info.Types[be] = types.TypeAndValue{Type: types.Typ[types.Bool]}
					cond = be
				}
			}
			ifs := &ast.IfStmt{Cond: cond, Body: &ast.BlockStmt{List: cc.Body}, Else: elseS}
			elseS = ifs
		}
		chain = elseS
		if chain == nil {
			e.stmts(sb, rest, n)
			return
		}
		e.stmts(sb, append([]ast.Stmt{chain}, rest...), n)
	case *ast.BranchStmt:
		if s.Tok == token.CONTINUE && s.Label == nil && len(e.loops) > 0 {
			sb.WriteString(e.ind(n) + "pure (none, " + e.loops[len(e.loops)-1] + ")\n")
			return
		}
		e.t.fail(s, "unsupported branch statement %s", s.Tok)
	case *ast.RangeStmt:
		e.rangeStmt(sb, s, rest, n)
	default:
		e.t.fail(s, "unsupported statement %T", s)
	}
}

// rangeStmt: `for k, v := range xs { body }` over a slice or array becomes
//   let (r, state…) ← Go.forRange xs (state…) (fun k v st => do let (state…) := st; body)
//   match r with | some rv => <return rv> | none => <rest>
// where `state` are the variables declared outside the loop that the body assigns, a `return` in the body ends the
// loop with `some result`, and falling off the body (or `continue`) goes to the next element.
func (e *emitter) rangeStmt(sb *strings.Builder, s *ast.RangeStmt, rest []ast.Stmt, n int) {
	if !e.impure {
		panic(terr{"internal: range loop in function classified pure"})
	}
	if len(e.ptrOut) > 0 {
		e.t.fail(s, "range loop in a pointer-mutating function")
	}
	if s.Tok != token.DEFINE && (s.Key != nil || s.Value != nil) {
		e.t.fail(s, "range loop assigning to existing variables")
	}
	XT := e.typeOf(s.X)
	switch XT.Underlying().(type) {
	case *types.Slice, *types.Array:
	default:
		e.t.fail(s, "range over %s", XT)
	}
	if isBytesType(XT) {
		e.t.fail(s, "range over a byte string")
	}
	var h hoist
	xs := e.expr(s.X, &h)
	e.emitHoist(sb, &h, n)
	// state: outer variables assigned in the body
	info := e.t.L.info
	lo, hi := s.Body.Pos(), s.Body.End()
	seen := map[string]bool{}
	var state []string
	note := func(lhs ast.Expr) {
		r := rootIdent(lhs)
		if r == nil || r.Name == "_" {
			return
		}
		obj := info.Uses[r]
		if obj == nil {
			obj = info.Defs[r]
		}
		v, ok := obj.(*types.Var)
		if !ok || (v.Pos() >= lo && v.Pos() < hi) {
			return
		}
		if s.Key != nil && info.Defs[identOf(s.Key)] == obj || s.Value != nil && info.Defs[identOf(s.Value)] == obj {
			return
		}
		if !seen[r.Name] {
			seen[r.Name] = true
			state = append(state, sanitize(r.Name))
		}
	}
	ast.Inspect(s.Body, func(nd ast.Node) bool {
		switch a := nd.(type) {
		case *ast.AssignStmt:
			if a.Tok != token.DEFINE {
				for _, l := range a.Lhs {
					note(l)
				}
			} else {
				// `x, err := …` may re-assign an outer variable only if declared in the same scope: inside the body it defines
				for _, l := range a.Lhs {
					if id, ok := l.(*ast.Ident); ok && info.Defs[id] == nil {
						note(l)
					}
				}
			}
		case *ast.IncDecStmt:
			note(a.X)
		case *ast.FuncLit:
			e.t.fail(a, "function literal inside a range loop")
		case *ast.BranchStmt:
			if a.Tok != token.CONTINUE || a.Label != nil {
				e.t.fail(a, "%s inside a range loop", a.Tok)
			}
		}
		return true
	})
	sort.Strings(state)
	tuple := "()"
	if len(state) == 1 {
		tuple = state[0]
	} else if len(state) > 1 {
		tuple = "(" + strings.Join(state, ", ") + ")"
	}
	name := func(x ast.Expr, def string) string {
		if x == nil {
			return def
		}
		id := identOf(x)
		if id == nil {
			e.t.fail(s, "range variable is not an identifier")
		}
		if id.Name == "_" {
			return def
		}
		e.noteDecl(id)
		return sanitize(id.Name)
	}
	k := name(s.Key, "_")
	v := name(s.Value, "_")
	r := e.fresh()
	bind := strings.TrimSuffix(strings.TrimPrefix(tuple, "("), ")")
	if len(state) == 0 {
		bind = "_"
	}
	sb.WriteString(fmt.Sprintf("%slet (%s, %s) ← Go.forRange %s %s (fun %s %s st_ => do\n", e.ind(n), r, bind, e.atom(xs), tuple, k, v))
	if len(state) > 0 {
		sb.WriteString(fmt.Sprintf("%slet %s := st_\n", e.ind(n+1), tuple))
	}
	e.loops = append(e.loops, tuple)
	e.stmts(sb, s.Body.List, n+1)
	e.loops = e.loops[:len(e.loops)-1]
	sb.WriteString(e.ind(n+1) + ")\n")
	sb.WriteString(fmt.Sprintf("%smatch %s with\n", e.ind(n), r))
	sb.WriteString(fmt.Sprintf("%s| some rv_ => %s\n", e.ind(n), e.retWrap("rv_")))
	sb.WriteString(fmt.Sprintf("%s| none =>\n", e.ind(n)))
	e.stmts(sb, rest, n+1)
}

func identOf(x ast.Expr) *ast.Ident {
	id, _ := x.(*ast.Ident)
	return id
}

// tryJoin handles an `if` whose branches only assign to already-declared
// variables with pure right-hand sides: it is emitted as
// `let (vars) := if c then (…; vars) else (…; vars)` so the continuation is not
// duplicated.
func (e *emitter) tryJoin(sb *strings.Builder, s *ast.IfStmt, cond string, thenL, elseL []ast.Stmt, n int) bool {
	if terminates(thenL) || terminates(elseL) {
		return false
	}
	var vars []string
	seen := map[string]bool{}
	simple := func(list []ast.Stmt) bool {
		for _, st := range list {
			var lhs []ast.Expr
			switch a := st.(type) {
			case *ast.AssignStmt:
				if a.Tok == token.DEFINE {
					return false
				}
				lhs = a.Lhs
			case *ast.IncDecStmt:
				lhs = []ast.Expr{a.X}
			default:
				return false
			}
			for _, l := range lhs {
				r := rootIdent(l)
				if r == nil {
					return false
				}
				if r.Name != "_" && !seen[r.Name] {
					seen[r.Name] = true
					vars = append(vars, sanitize(r.Name))
				}
			}
		}
		return true
	}
	if !simple(thenL) || !simple(elseL) || len(vars) == 0 {
		return false
	}
	tuple := vars[0]
	if len(vars) > 1 {
		tuple = "(" + strings.Join(vars, ", ") + ")"
	}
	branch := func(list []ast.Stmt) (string, bool) {
		var b strings.Builder
		saveTmp := e.tmp
		for _, st := range list {
			before := b.Len()
			_ = before
			var h hoist
			switch a := st.(type) {
			case *ast.AssignStmt:
				// reuse assign but make sure nothing impure was hoisted
				var tmp strings.Builder
				e.assign(&tmp, a, n+2)
				if strings.Contains(tmp.String(), " ← ") {
					e.tmp = saveTmp
					return "", false
				}
				b.WriteString(tmp.String())
			case *ast.IncDecStmt:
				var tmp strings.Builder
				e.stmts1(&tmp, a, n+2)
				if strings.Contains(tmp.String(), " ← ") {
					e.tmp = saveTmp
					return "", false
				}
				b.WriteString(tmp.String())
			}
			_ = h
		}
		b.WriteString(e.ind(n+2) + tuple + "\n")
		return b.String(), true
	}
	tb, ok1 := branch(thenL)
	eb, ok2 := branch(elseL)
	if !ok1 || !ok2 {
		return false
	}
	sb.WriteString(fmt.Sprintf("%slet %s := if %s then\n%s%selse\n%s", e.ind(n), tuple, cond, tb, e.ind(n+1), eb))
	return true
}

// stmts1 emits a single simple statement (used for if/switch init).
func (e *emitter) stmts1(sb *strings.Builder, s ast.Stmt, n int) {
	switch s := s.(type) {
	case *ast.AssignStmt:
		e.assign(sb, s, n)
	case *ast.IncDecStmt:
		var h hoist
		op := token.ADD
		if s.Tok == token.DEC {
			op = token.SUB
		}
		one := &ast.BasicLit{Kind: token.INT, Value: "1"}
		T := e.typeOf(s.X)
		e.t.L.info.Types[one] = types.TypeAndValue{Type: T, Value: constant.MakeInt64(1)}
		val := e.binary(s, op, s.X, one, T, &h)
		e.emitHoist(sb, &h, n)
		e.assignTo(sb, s.X, val, n, &h)
	case *ast.ExprStmt:
		var h hoist
		c, ok := s.X.(*ast.CallExpr)
		if !ok {
			e.t.fail(s, "unsupported init statement")
		}
		var ptrs []ast.Expr
		v := e.call(c, &h, &ptrs)
		e.emitHoist(sb, &h, n)
		e.bindCallResult(sb, c, v, ptrs, nil, false, n)
	default:
		e.t.fail(s, "unsupported init statement %T", s)
	}
}

// the init statement of an if/switch is emitted before it, so a name it defines
// would stay visible afterwards; reject when that could change meaning.
func (e *emitter) checkInitShadow(s ast.Stmt, rest []ast.Stmt) {
	as, ok := s.(*ast.AssignStmt)
	if !ok || as.Tok != token.DEFINE {
		return
	}
	for _, l := range as.Lhs {
		if id, ok := l.(*ast.Ident); ok && id.Name != "_" {
			if e.declared[id.Name] > 0 {
				// the name shadows an earlier one for the length of the if/else chain only; in the translation it stays
				// visible afterwards, which is harmless exactly when nothing after the chain mentions that name
				used := false
				for _, r := range rest {
					ast.Inspect(r, func(n ast.Node) bool {
						if x, ok := n.(*ast.Ident); ok && x.Name == id.Name && (e.t.L.info.Uses[x] != nil || e.t.L.info.Defs[x] != nil) {
							used = true
						}
						return !used
					})
				}
				if used {
					e.t.fail(s, "if-init redeclares %s, which is used after the if statement (scoping not representable)", id.Name)
				}
			}
		}
	}
}

// when a branch is extended with the continuation, names defined (:=) inside the
// branch must not be used by the continuation with their outer meaning.
func (e *emitter) checkBlockShadow(block []ast.Stmt, rest []ast.Stmt) {
	if len(block) == 0 || terminates(block) || len(rest) == 0 {
		return
	}
	defined := map[string]bool{}
	for _, s := range block {
		ast.Inspect(s, func(n ast.Node) bool {
			switch x := n.(type) {
			case *ast.AssignStmt:
				if x.Tok == token.DEFINE {
					for _, l := range x.Lhs {
						if id, ok := l.(*ast.Ident); ok && e.t.L.info.Defs[id] != nil {
							defined[id.Name] = true
						}
					}
				}
			case *ast.ValueSpec:
				for _, id := range x.Names {
					defined[id.Name] = true
				}
			}
			return true
		})
	}
	if len(defined) == 0 {
		return
	}
	if len(rest) == 0 {
		return
	}
	rlo, rhi := rest[0].Pos(), rest[len(rest)-1].End()
	for _, s := range rest {
		ast.Inspect(s, func(n ast.Node) bool {
			if id, ok := n.(*ast.Ident); ok && defined[id.Name] {
				// a later re-declaration of the name, and uses of THAT declaration, are harmless: only a use that refers to
				// a variable declared before the branch would be captured by the branch's `let`
				if obj := e.t.L.info.Uses[id]; obj != nil {
					if obj.Pos() >= rlo && obj.Pos() < rhi {
						return true
					}
					e.t.fail(id, "name %s defined in a non-terminating branch is also used after it", id.Name)
				}
				if false {
					e.t.fail(id, "name %s defined in a non-terminating branch is also used after it", id.Name)
				}
			}
			return true
		})
	}
}

func (e *emitter) bindCallResult(sb *strings.Builder, c *ast.CallExpr, v string, ptrs []ast.Expr, lhs []ast.Expr, define bool, n int) {
	// v is either a hoisted temp (impure) or a pure expression producing
	// (ptrs..., results...)
	total := len(ptrs) + len(lhs)
	if total == 0 {
		if !strings.HasPrefix(v, "t_") {
			// pure call with ignored result: nothing to do
		}
		return
	}
	var names []string
	var h hoist
	for range ptrs {
		names = append(names, e.fresh())
	}
	for range lhs {
		names = append(names, e.fresh())
	}
	resT := e.typeOf(c)
	nres := 1
	if tup, ok := resT.(*types.Tuple); ok {
		nres = tup.Len()
	}
	if len(lhs) == 0 && nres > 0 && len(ptrs) > 0 {
		// results ignored
		for i := 0; i < nres; i++ {
			names = append(names, "_")
		}
	}
	if len(names) == 1 {
		sb.WriteString(fmt.Sprintf("%slet %s := %s\n", e.ind(n), names[0], v))
	} else {
		sb.WriteString(fmt.Sprintf("%slet (%s) := %s\n", e.ind(n), strings.Join(names, ", "), v))
	}
	for i, p := range ptrs {
		e.assignTo(sb, p, names[i], n, &h)
	}
	for i, l := range lhs {
		if define {
			if id, ok := l.(*ast.Ident); ok {
				e.noteDecl(id)
			}
		}
		e.assignTo(sb, l, names[len(ptrs)+i], n, &h)
	}
}

// typeAssert: `v, ok := x.F.(T)` where F is an interface-typed field of a modelled struct (the field itself is not
// modelled). Which dynamic type the field holds is an EXTERNAL fact about the struct value: it becomes the field
// `<F>_as_<T> : Struct → T × Bool` of the package's Ext structure.
func (e *emitter) typeAssert(sb *strings.Builder, s *ast.AssignStmt, ta *ast.TypeAssertExpr, n int) {
	if !e.fi.usesExt {
		e.t.fail(ta, "type assertion outside a definition with external functions")
	}
	se, ok := ta.X.(*ast.SelectorExpr)
	if !ok {
		e.t.fail(ta, "type assertion on something that is not a struct field")
	}
	sel, ok := e.t.L.info.Selections[se]
	if !ok || sel.Kind() != types.FieldVal {
		e.t.fail(ta, "type assertion on something that is not a struct field")
	}
	if _, isIface := sel.Obj().Type().Underlying().(*types.Interface); !isIface {
		e.t.fail(ta, "type assertion on a non-interface field")
	}
	baseT := e.typeOf(se.X)
	toT := e.typeOf(ta.Type)
	tn := toT
	if p, ok := tn.(*types.Pointer); ok {
		tn = p.Elem()
	}
	named, ok := tn.(*types.Named)
	if !ok {
		e.t.fail(ta, "type assertion to an unnamed type")
	}
	field := sel.Obj().Name() + "_as_" + named.Obj().Name()
	sig := types.NewSignatureType(nil, nil, nil,
		types.NewTuple(types.NewVar(token.NoPos, nil, "x", baseT)),
		types.NewTuple(types.NewVar(token.NoPos, nil, "", toT), types.NewVar(token.NoPos, nil, "", types.Typ[types.Bool])), false)
	e.t.extUse(e.fi.pkg, field, sig, ta)
	var h hoist
	base := e.expr(se.X, &h)
	e.emitHoist(sb, &h, n)
	a, b := e.fresh(), e.fresh()
	sb.WriteString(fmt.Sprintf("%slet (%s, %s) := (ext.%s %s)\n", e.ind(n), a, b, field, e.atom(base)))
	for i, l := range s.Lhs {
		if s.Tok == token.DEFINE {
			if id, ok := l.(*ast.Ident); ok {
				e.noteDecl(id)
			}
		}
		e.assignTo(sb, l, []string{a, b}[i], n, &h)
	}
}

func (e *emitter) assign(sb *strings.Builder, s *ast.AssignStmt, n int) {
	var h hoist
	switch s.Tok {
	case token.DEFINE, token.ASSIGN:
		if len(s.Rhs) == 1 && len(s.Lhs) == 2 {
			if ta, ok := s.Rhs[0].(*ast.TypeAssertExpr); ok && ta.Type != nil {
				e.typeAssert(sb, s, ta, n)
				return
			}
			if ix, ok := s.Rhs[0].(*ast.IndexExpr); ok {
				if mt, isMap := e.typeOf(ix.X).Underlying().(*types.Map); isMap {
					// v, ok := m[k]
					z, okz := e.t.zero(mt.Elem())
					if !okz {
						e.t.fail(ix, "map value type without a zero value")
					}
					m := e.expr(ix.X, &h)
					k := e.expr(ix.Index, &h)
					e.emitHoist(sb, &h, n)
					a, b := e.fresh(), e.fresh()
					sb.WriteString(fmt.Sprintf("%slet (%s, %s) := (Go.mapGet %s %s %s)\n", e.ind(n), a, b, e.atom(m), e.atom(k), e.atom(z)))
					for i, l := range s.Lhs {
						if s.Tok == token.DEFINE {
							if id, ok := l.(*ast.Ident); ok {
								e.noteDecl(id)
							}
						}
						e.assignTo(sb, l, []string{a, b}[i], n, &h)
					}
					return
				}
			}
		}
		if len(s.Rhs) == 1 {
			if c, ok := s.Rhs[0].(*ast.CallExpr); ok {
				if tv, ok := e.t.L.info.Types[c.Fun]; !(ok && tv.IsType()) {
					var ptrs []ast.Expr
					v := e.call(c, &h, &ptrs)
					e.emitHoist(sb, &h, n)
					if len(ptrs) > 0 || len(s.Lhs) > 1 {
						e.bindCallResult(sb, c, v, ptrs, s.Lhs, s.Tok == token.DEFINE, n)
						return
					}
					if s.Tok == token.DEFINE {
						if id, ok := s.Lhs[0].(*ast.Ident); ok {
							e.noteDecl(id)
						}
					}
					e.assignTo(sb, s.Lhs[0], v, n, &h)
					return
				}
			}
		}
		if len(s.Lhs) != len(s.Rhs) {
			e.t.fail(s, "unsupported assignment shape")
		}
		if len(s.Lhs) == 1 {
			v := e.expr(s.Rhs[0], &h)
			e.emitHoist(sb, &h, n)
			if s.Tok == token.DEFINE {
				if id, ok := s.Lhs[0].(*ast.Ident); ok {
					e.noteDecl(id)
				}
			}
			e.assignTo(sb, s.Lhs[0], v, n, &h)
			return
		}
		// parallel assignment: evaluate all right-hand sides first
		var tmps []string
		for _, r := range s.Rhs {
			v := e.expr(r, &h)
			e.emitHoist(sb, &h, n)
			tname := e.fresh()
			sb.WriteString(fmt.Sprintf("%slet %s := %s\n", e.ind(n), tname, v))
			tmps = append(tmps, tname)
		}
		for i, l := range s.Lhs {
			if s.Tok == token.DEFINE {
				if id, ok := l.(*ast.Ident); ok {
					e.noteDecl(id)
				}
			}
			e.assignTo(sb, l, tmps[i], n, &h)
		}
	default:
		// op-assign
		opmap := map[token.Token]token.Token{
			token.ADD_ASSIGN: token.ADD, token.SUB_ASSIGN: token.SUB, token.MUL_ASSIGN: token.MUL,
			token.QUO_ASSIGN: token.QUO, token.REM_ASSIGN: token.REM, token.AND_ASSIGN: token.AND,
			token.OR_ASSIGN: token.OR, token.XOR_ASSIGN: token.XOR, token.SHL_ASSIGN: token.SHL,
			token.SHR_ASSIGN: token.SHR, token.AND_NOT_ASSIGN: token.AND_NOT,
		}
		op, ok := opmap[s.Tok]
		if !ok {
			e.t.fail(s, "unsupported assignment operator %s", s.Tok)
		}
		T := e.typeOf(s.Lhs[0])
		v := e.binary(s, op, s.Lhs[0], s.Rhs[0], T, &h)
		e.emitHoist(sb, &h, n)
		e.assignTo(sb, s.Lhs[0], v, n, &h)
	}
}

func (t *tcode) emitFn(fi *fnInfo) {
	defer func() {
		if r := recover(); r != nil {
			if te, ok := r.(terr); ok {
				fi.err = te
				return
			}
			panic(r)
		}
	}()
	e := &emitter{t: t, fi: fi, impure: fi.impure, deps: map[string]bool{}, declared: map[string]int{}}
	decl := fi.decl
	sig := t.L.info.Defs[decl.Name].Type().(*types.Signature)
	var params []string
	if fi.usesExt {
		params = append(params, "(ext : Gen."+fi.pkg+".Ext)")
		e.deps["Gen."+fi.pkg+".Ext"] = true
	}
	idx := 0
	addParam := func(name *ast.Ident, T types.Type) {
		lt, ok := t.leanType(T)
		if !ok {
			t.fail(decl, "parameter %s has unmodelled type %s", name.Name, T)
		}
		e.deps[strings.Trim(lt, "()")] = true
		nm := sanitize(name.Name)
		if nm == "_" {
			nm = fmt.Sprintf("x_%d", idx)
		}
		params = append(params, fmt.Sprintf("(%s : %s)", nm, lt))
		e.declared[name.Name]++
		if idx < len(fi.ptrMut) && fi.ptrMut[idx] {
			e.ptrOut = append(e.ptrOut, nm)
		}
		idx++
	}
	if decl.Recv != nil {
		f := decl.Recv.List[0]
		name := ast.NewIdent("_")
		if len(f.Names) > 0 {
			name = f.Names[0]
		}
		addParam(name, sig.Recv().Type())
	}
	pi := 0
	for _, f := range decl.Type.Params.List {
		if len(f.Names) == 0 {
			addParam(ast.NewIdent("_"), sig.Params().At(pi).Type())
			pi++
		}
		for _, nme := range f.Names {
			addParam(nme, sig.Params().At(pi).Type())
			pi++
		}
	}
	// result type
	var resTypes []string
	for _, p := range e.ptrOut {
		_ = p
	}
	idx2 := 0
	if decl.Recv != nil {
		if fi.ptrMut[0] {
			lt, _ := t.leanType(sig.Recv().Type())
			resTypes = append(resTypes, lt)
		}
		idx2 = 1
	}
	for i := 0; i < sig.Params().Len(); i++ {
		if fi.ptrMut[idx2+i] {
			lt, _ := t.leanType(sig.Params().At(i).Type())
			resTypes = append(resTypes, lt)
		}
	}
	var sb strings.Builder
	for i := 0; i < sig.Results().Len(); i++ {
		r := sig.Results().At(i)
		lt, ok := t.leanType(r.Type())
		if !ok {
			t.fail(decl, "result has unmodelled type %s", r.Type())
		}
		e.deps[strings.Trim(lt, "()")] = true
		resTypes = append(resTypes, lt)
		if r.Name() != "" && r.Name() != "_" {
			z, ok := t.zero(r.Type())
			if !ok {
				t.fail(decl, "no zero value for result %s", r.Name())
			}
			e.resNames = append(e.resNames, sanitize(r.Name()))
			e.declared[r.Name()]++
			sb.WriteString(fmt.Sprintf("  let %s : %s := %s\n", sanitize(r.Name()), lt, z))
		} else if r.Name() == "_" {
			t.fail(decl, "blank named result")
		}
	}
	if len(e.resNames) != 0 && len(e.resNames) != sig.Results().Len() {
		t.fail(decl, "mixed named/unnamed results")
	}
	var rt string
	switch len(resTypes) {
	case 0:
		rt = "Unit"
	case 1:
		rt = resTypes[0]
	default:
		rt = "(" + strings.Join(resTypes, " × ") + ")"
	}
	e.stmts(&sb, decl.Body.List, 1)
	if fi.impure {
		fi.sig = fmt.Sprintf("def %s %s : Except String %s := do", fi.leanName, strings.Join(params, " "), rt)
	} else {
		fi.sig = fmt.Sprintf("def %s %s : %s :=", fi.leanName, strings.Join(params, " "), rt)
	}
	fi.body = sb.String()
	for d := range e.deps {
		fi.deps = append(fi.deps, d)
	}
	sort.Strings(fi.deps)
}

// run translates the roots (and everything they call) and returns the Lean
// source per package alias plus a report.
func (t *tcode) run(roots []string) (map[string]string, []map[string]any, []string) {
	var errs []string
	for _, r := range roots {
		key := coreMod + "/" + r
		if t.ensureFn(key, nil) == nil {
			errs = append(errs, "T-code root not found in source: "+r)
		}
	}
	for _, spec := range regionRoots {
		ri, e := t.ensureRegion(spec)
		if ri == nil {
			errs = append(errs, "T-code region "+spec.fn+"_"+spec.name+": "+e)
			continue
		}
		t.ensureFn(ri.key, nil)
	}
	t.discover()
	t.computeImpure()
	keys := make([]string, 0, len(t.fns))
	for k := range t.fns {
		keys = append(keys, k)
	}
	sort.Strings(keys)
	for _, k := range keys {
		t.emitFn(t.fns[k])
	}
	// order: structs, vars, functions — topologically within each package by deps
	out := map[string]string{}
	var report []map[string]any
	for _, alias := range pkgOrder {
		var sb strings.Builder
		any_ := false
		for _, sn := range t.topoStructs() {
			si := t.structs[sn]
			if si.pkg != alias {
				continue
			}
			any_ = true
			sb.WriteString("structure " + si.leanName + " where\n")
			for _, f := range si.fields {
				sb.WriteString(f + "\n")
			}
			if len(si.fields) == 0 {
				sb.WriteString("  dummy_ : Unit := ()\n")
			}
			sb.WriteString("deriving DecidableEq\n")
			if len(si.omitted) > 0 {
				sb.WriteString("-- unmodelled fields: " + strings.Join(si.omitted, ", ") + "\n")
			}
			sb.WriteString("\n")
		}
		// vars and functions in dependency order
		type item struct {
			name string
			text string
			deps []string
		}
		var items []item
		for _, vn := range t.vorder {
			vi := t.vars[vn]
			if vi.pkg != alias {
				continue
			}
			items = append(items, item{vn, fmt.Sprintf("def %s : %s := %s\n", vi.leanName, vi.typ, vi.body), vi.deps})
		}
		for _, k := range keys {
			fi := t.fns[k]
			if fi.pkg != alias {
				continue
			}
			if fi.err != nil {
				errs = append(errs, "T-code: "+fi.key+": "+fi.err.Error())
				report = append(report, map[string]any{"func": fi.key, "pos": fi.pos, "ok": false, "error": fi.err.Error()})
				continue
			}
			report = append(report, map[string]any{"func": fi.key, "lean": fi.leanName, "pos": fi.pos, "ok": true, "impure": fi.impure})
			items = append(items, item{fi.leanName, fmt.Sprintf("/-- %s (%s) -/\n%s\n%s", fi.key, fi.pos, fi.sig, fi.body), fi.deps})
		}
		if es := t.extStruct(alias); es != "" {
			items = append(items, item{"Gen." + alias + ".Ext", es, nil})
		}
		// topo sort
		done := map[string]bool{}
		inPkg := map[string]int{}
		for i, it := range items {
			inPkg[it.name] = i
		}
		var visit func(i int, depth int)
		var ordered []item
		visiting := map[string]bool{}
		visit = func(i int, depth int) {
			it := items[i]
			if done[it.name] || visiting[it.name] {
				return
			}
			visiting[it.name] = true
			for _, d := range it.deps {
				if j, ok := inPkg[d]; ok {
					visit(j, depth+1)
				}
			}
			done[it.name] = true
			ordered = append(ordered, it)
		}
		for i := range items {
			visit(i, 0)
		}
		for _, it := range ordered {
			any_ = true
			sb.WriteString(it.text + "\n")
		}
		if any_ {
			out[alias] = sb.String()
		}
	}
	sort.Strings(errs)
	return out, report, errs
}

func (t *tcode) topoStructs() []string {
	// sorder is creation order with children created during the parent's field
	// scan, i.e. children are appended before the parent finishes: ensureStruct
	// appends the parent after its fields, so sorder is already topological.
	return t.sorder
}
