package main

// T-facts for C20 (text and JSON forms): the constants that the text parsers and
// printers spell out in the source — prefixes, checksum length, the bit sizes the
// policy-string parser passes to its integer parser, the tokenizer's delimiter
// set, the policy keywords — and the JSON visibility of consensus.elementLeaf.
// They become `SiaModel.Gen.FactsText`; `SiaProofs/Props/C20.lean` ties them to the
// hand-written model (and the model takes the parser bit sizes FROM these facts).

import (
	"fmt"
	"go/ast"
	"go/constant"
	"go/token"
	"go/types"
	"sort"
	"strconv"
	"strings"
)

func init() { registerFacts("FactsText", genFactsText) }

type textFacts struct {
	L    *loader
	sb   strings.Builder
	rep  map[string]any
	errs []string
}

func (f *textFacts) fail(format string, a ...any) {
	f.errs = append(f.errs, "FactsText: "+fmt.Sprintf(format, a...))
}

func textLeanStr(s string) string {
	var sb strings.Builder
	sb.WriteByte('"')
	for _, c := range []byte(s) {
		switch {
		case c == '"' || c == '\\':
			sb.WriteByte('\\')
			sb.WriteByte(c)
		case c >= 0x20 && c < 0x7f:
			sb.WriteByte(c)
		default:
			fmt.Fprintf(&sb, "\\x%02x", c)
		}
	}
	sb.WriteByte('"')
	return sb.String()
}

func textLeanBytes(s string) string {
	parts := make([]string, len(s))
	for i := 0; i < len(s); i++ {
		parts[i] = strconv.Itoa(int(s[i]))
	}
	return "[" + strings.Join(parts, ", ") + "]"
}

func (f *textFacts) defStr(name, val, src string) {
	fmt.Fprintf(&f.sb, "/-- %s -/\ndef %s : String := %s\ndef %sBytes : List UInt8 := %s\n\n", src, name, textLeanStr(val), name, textLeanBytes(val))
	f.rep[name] = val
}

func (f *textFacts) defNat(name string, val int64, src string) {
	fmt.Fprintf(&f.sb, "/-- %s -/\ndef %s : Nat := %d\n\n", src, name, val)
	f.rep[name] = val
}

func (f *textFacts) defBool(name string, val bool, src string) {
	fmt.Fprintf(&f.sb, "/-- %s -/\ndef %s : Bool := %v\n\n", src, name, val)
	f.rep[name] = val
}

func (f *textFacts) defStrList(name string, vals []string, src string) {
	q := make([]string, len(vals))
	for i, v := range vals {
		q[i] = textLeanStr(v)
	}
	fmt.Fprintf(&f.sb, "/-- %s -/\ndef %s : List String := [%s]\n\n", src, name, strings.Join(q, ", "))
	f.rep[name] = vals
}

func (f *textFacts) fn(key string) *ast.FuncDecl {
	fd := f.L.funcs[coreMod+"/"+key]
	if fd == nil || fd.Body == nil {
		f.fail("function %s not found", key)
		return nil
	}
	return fd
}

// constant value of an expression (string or int), via go/types
func (f *textFacts) constOf(e ast.Expr) (constant.Value, bool) {
	tv, ok := f.L.info.Types[e]
	if !ok || tv.Value == nil {
		return nil, false
	}
	return tv.Value, true
}

func (f *textFacts) strConsts(n ast.Node) []string {
	var out []string
	ast.Inspect(n, func(x ast.Node) bool {
		if bl, ok := x.(*ast.BasicLit); ok && bl.Kind == token.STRING {
			if s, err := strconv.Unquote(bl.Value); err == nil {
				out = append(out, s)
			}
		}
		return true
	})
	return out
}

func (f *textFacts) uniqueStr(key string) (string, bool) {
	fd := f.fn(key)
	if fd == nil {
		return "", false
	}
	ss := f.strConsts(fd.Body)
	set := map[string]bool{}
	for _, s := range ss {
		set[s] = true
	}
	if len(set) != 1 {
		f.fail("%s: expected exactly one distinct string literal, found %q", key, ss)
		return "", false
	}
	return ss[0], true
}

// calleeName returns "pkg.Func" / "Func" / "recv.Method" text of a call.
func textCallee(c *ast.CallExpr) string {
	switch fn := c.Fun.(type) {
	case *ast.Ident:
		return fn.Name
	case *ast.SelectorExpr:
		if id, ok := fn.X.(*ast.Ident); ok {
			return id.Name + "." + fn.Sel.Name
		}
		return "?." + fn.Sel.Name
	}
	return "?"
}

func genFactsText(L *loader) (string, any, []string) {
	f := &textFacts{L: L, rep: map[string]any{}}
	f.sb.WriteString("namespace Gen.FactsText\n\n")

	// ---------------------------------------------------------------- prefixes
	if s, ok := f.uniqueStr("types.PublicKey.String"); ok {
		f.defStr("pkPrefix", s, "types.PublicKey.String: the literal prepended to the hex key")
	}
	if fd := f.fn("types.PublicKey.UnmarshalText"); fd != nil {
		// the literal compared with string(b[:i]) and the separator byte of IndexByte
		var alg string
		var sep int64 = -1
		n := 0
		ast.Inspect(fd.Body, func(x ast.Node) bool {
			switch x := x.(type) {
			case *ast.BinaryExpr:
				if x.Op == token.NEQ {
					if v, ok := f.constOf(x.Y); ok && v.Kind() == constant.String {
						alg = constant.StringVal(v)
						n++
					}
				}
			case *ast.CallExpr:
				if textCallee(x) == "bytes.IndexByte" && len(x.Args) == 2 {
					if v, ok := f.constOf(x.Args[1]); ok {
						if i, ok := constant.Int64Val(constant.ToInt(v)); ok {
							sep = i
						}
					}
				}
			}
			return true
		})
		if n != 1 || sep < 0 {
			f.fail("types.PublicKey.UnmarshalText: shape changed (algorithm comparisons %d, separator %d)", n, sep)
		} else {
			f.defStr("pkAlg", alg, "types.PublicKey.UnmarshalText: the algorithm name the text before the separator must equal")
			f.defNat("pkSep", sep, "types.PublicKey.UnmarshalText: separator byte given to bytes.IndexByte")
		}
	}
	if s, ok := f.uniqueStr("rhp/v4.Account.String"); ok {
		f.defStr("account4Prefix", s, "rhp/v4 Account.String: the literal prepended to the hex key")
	}
	if fd := f.fn("rhp/v4.Account.UnmarshalText"); fd != nil {
		var pfx string
		n := 0
		ast.Inspect(fd.Body, func(x ast.Node) bool {
			if c, ok := x.(*ast.CallExpr); ok && textCallee(c) == "bytes.TrimPrefix" && len(c.Args) == 2 {
				ss := f.strConsts(c.Args[1])
				if len(ss) == 1 {
					pfx = ss[0]
					n++
				}
			}
			return true
		})
		if n != 1 {
			f.fail("rhp/v4.Account.UnmarshalText: expected one bytes.TrimPrefix(b, <literal>) call, found %d", n)
		} else {
			f.defStr("account4TrimPrefix", pfx, "rhp/v4 Account.UnmarshalText: the (optional) prefix removed by bytes.TrimPrefix")
		}
	}

	// ---------------------------------------------------------------- is the text handed to hex.Decode length-checked?
	// (ChainIndex.UnmarshalText and rhp/v4 Account.UnmarshalText decode straight into a
	// fixed array; without a check an over-long text indexes past it and panics)
	guarded := func(key, name, what string) {
		fd := f.fn(key)
		if fd == nil {
			return
		}
		var srcs []string
		direct := 0
		ast.Inspect(fd.Body, func(x ast.Node) bool {
			if c, ok := x.(*ast.CallExpr); ok && textCallee(c) == "hex.Decode" && len(c.Args) == 2 {
				direct++
				srcs = append(srcs, types.ExprString(c.Args[1]))
			}
			return true
		})
		isGuarded := direct == 0 // e.g. delegated to unmarshalHex, which checks the length
		if direct > 0 {
			ok := true
			for _, src := range srcs {
				found := false
				ast.Inspect(fd.Body, func(x ast.Node) bool {
					be, isBin := x.(*ast.BinaryExpr)
					if !isBin {
						return true
					}
					switch be.Op {
					case token.NEQ, token.EQL, token.GTR, token.LSS, token.GEQ, token.LEQ:
						for _, side := range []ast.Expr{be.X, be.Y} {
							if c, isCall := side.(*ast.CallExpr); isCall && len(c.Args) == 1 {
								if id, isId := c.Fun.(*ast.Ident); isId && id.Name == "len" && types.ExprString(c.Args[0]) == src {
									found = true
								}
							}
						}
					}
					return true
				})
				ok = ok && found
			}
			isGuarded = ok
		}
		f.defBool(name, isGuarded, what+": the text passed to hex.Decode is compared by length first (or decoding is delegated to a checked helper)")
	}
	guarded("types.ChainIndex.UnmarshalText", "ciHexGuarded", "types.ChainIndex.UnmarshalText")
	guarded("rhp/v4.Account.UnmarshalText", "acct4HexGuarded", "rhp/v4 Account.UnmarshalText")

	// ---------------------------------------------------------------- address checksum
	if fd := f.fn("types.Address.String"); fd != nil {
		// checksum[:N]
		var ns []int64
		ast.Inspect(fd.Body, func(x ast.Node) bool {
			if se, ok := x.(*ast.SliceExpr); ok && se.High != nil && se.Low == nil {
				if id, ok := se.X.(*ast.Ident); ok && id.Name == "checksum" {
					if v, ok := f.constOf(se.High); ok {
						if i, ok := constant.Int64Val(constant.ToInt(v)); ok {
							ns = append(ns, i)
						}
					}
				}
			}
			return true
		})
		if len(ns) != 1 {
			f.fail("types.Address.String: expected one checksum[:N] slice, found %v", ns)
		} else {
			f.defNat("addrChecksumLenPrint", ns[0], "types.Address.String: number of checksum bytes appended (checksum[:N])")
		}
	}
	if fd := f.fn("types.Address.UnmarshalText"); fd != nil {
		var total int64 = -1
		var ckN, bodyN []int64
		ast.Inspect(fd.Body, func(x ast.Node) bool {
			switch x := x.(type) {
			case *ast.CallExpr:
				if id, ok := x.Fun.(*ast.Ident); ok && id.Name == "make" && len(x.Args) == 2 {
					if v, ok := f.constOf(x.Args[1]); ok {
						if i, ok := constant.Int64Val(constant.ToInt(v)); ok {
							total = i
						}
					}
				}
			case *ast.SliceExpr:
				id, ok := x.X.(*ast.Ident)
				if !ok {
					return true
				}
				if id.Name == "checksum" && x.Low == nil && x.High != nil {
					if v, ok := f.constOf(x.High); ok {
						i, _ := constant.Int64Val(constant.ToInt(v))
						ckN = append(ckN, i)
					}
				}
				if id.Name == "withChecksum" {
					for _, b := range []ast.Expr{x.Low, x.High} {
						if b == nil {
							continue
						}
						if v, ok := f.constOf(b); ok {
							i, _ := constant.Int64Val(constant.ToInt(v))
							bodyN = append(bodyN, i)
						}
					}
				}
			}
			return true
		})
		same := func(xs []int64) bool {
			for _, x := range xs {
				if x != xs[0] {
					return false
				}
			}
			return len(xs) > 0
		}
		if total < 0 || !same(ckN) || !same(bodyN) {
			f.fail("types.Address.UnmarshalText: shape changed (make %d, checksum[:N] %v, withChecksum bounds %v)", total, ckN, bodyN)
		} else {
			f.defNat("addrBufLen", total, "types.Address.UnmarshalText: size of the decode buffer (make([]byte, 32+6))")
			f.defNat("addrChecksumLenParse", ckN[0], "types.Address.UnmarshalText: checksum bytes compared (checksum[:N])")
			f.defNat("addrBodyLen", bodyN[0], "types.Address.UnmarshalText: address bytes (withChecksum[:N] / [N:])")
		}
	}

	// ---------------------------------------------------------------- array sizes of the hex identifier types
	if p := L.pkgs[coreMod+"/types"]; p != nil {
		names := []string{"Hash256", "BlockID", "TransactionID", "AttestationID", "SiacoinOutputID", "SiafundOutputID", "FileContractID", "Address", "PublicKey", "Signature", "Specifier"}
		var rows []string
		for _, n := range names {
			obj := p.Scope().Lookup(n)
			if obj == nil {
				f.fail("types.%s not found", n)
				continue
			}
			arr, ok := obj.Type().Underlying().(*types.Array)
			if !ok {
				f.fail("types.%s is no longer an array type", n)
				continue
			}
			rows = append(rows, fmt.Sprintf("(%s, %d)", textLeanStr(n), arr.Len()))
			f.rep["size:"+n] = arr.Len()
		}
		fmt.Fprintf(&f.sb, "/-- byte sizes of the fixed-size identifier types of package types -/\ndef idSizes : List (String × Nat) := [%s]\n\n", strings.Join(rows, ", "))
		// field widths printed by SpendPolicy.String
		width := func(typ, field string) int64 {
			obj := p.Scope().Lookup(typ)
			if obj == nil {
				f.fail("types.%s not found", typ)
				return -1
			}
			st, ok := obj.Type().Underlying().(*types.Struct)
			if !ok {
				f.fail("types.%s is not a struct", typ)
				return -1
			}
			for i := 0; i < st.NumFields(); i++ {
				if st.Field(i).Name() == field {
					if b, ok := st.Field(i).Type().Underlying().(*types.Basic); ok {
						if bits, _, ok := bitsOf(b); ok {
							return int64(bits)
						}
					}
				}
			}
			f.fail("types.%s.%s: not an integer field", typ, field)
			return -1
		}
		if w := width("UnlockConditions", "SignaturesRequired"); w > 0 {
			f.defNat("ucSigFieldBits", w, "bit width of the field types.UnlockConditions.SignaturesRequired (what SpendPolicy.String prints)")
		}
		if w := width("UnlockConditions", "Timelock"); w > 0 {
			f.defNat("ucTimelockFieldBits", w, "bit width of the field types.UnlockConditions.Timelock")
		}
		if w := width("PolicyTypeThreshold", "N"); w > 0 {
			f.defNat("threshNFieldBits", w, "bit width of the field types.PolicyTypeThreshold.N")
		}
	}
	if p := L.pkgs[coreMod+"/rhp/v4"]; p != nil {
		for _, n := range []string{"Account", "ProtocolVersion"} {
			obj := p.Scope().Lookup(n)
			if obj == nil {
				f.fail("rhp/v4.%s not found", n)
				continue
			}
			if arr, ok := obj.Type().Underlying().(*types.Array); ok {
				f.defNat("rhp4"+n+"Size", arr.Len(), "array length of rhp/v4."+n)
			} else {
				f.fail("rhp/v4.%s is no longer an array type", n)
			}
		}
	}

	// ---------------------------------------------------------------- ParseSpendPolicy
	if fd := f.fn("types.ParseSpendPolicy"); fd != nil {
		// closures by name
		lits := map[string]*ast.FuncLit{}
		ast.Inspect(fd.Body, func(x ast.Node) bool {
			if as, ok := x.(*ast.AssignStmt); ok && len(as.Lhs) == 1 && len(as.Rhs) == 1 {
				if id, ok := as.Lhs[0].(*ast.Ident); ok {
					if fl, ok := as.Rhs[0].(*ast.FuncLit); ok {
						lits[id.Name] = fl
					}
				}
			}
			return true
		})
		// tokenizer: the single strings.IndexAny(s, "<delims>") call, and nothing else that searches
		if nt := lits["nextToken"]; nt == nil {
			f.fail("types.ParseSpendPolicy: closure nextToken not found")
		} else {
			var delims []string
			var calls []string
			ast.Inspect(nt.Body, func(x ast.Node) bool {
				if c, ok := x.(*ast.CallExpr); ok {
					calls = append(calls, textCallee(c))
					if textCallee(c) == "strings.IndexAny" && len(c.Args) == 2 {
						if v, ok := f.constOf(c.Args[1]); ok && v.Kind() == constant.String {
							delims = append(delims, constant.StringVal(v))
						}
					}
				}
				return true
			})
			sort.Strings(calls)
			if len(delims) != 1 {
				f.fail("types.ParseSpendPolicy.nextToken: expected one strings.IndexAny(s, <literal>) call, found %d", len(delims))
			} else {
				f.defStr("tokenDelims", delims[0], "ParseSpendPolicy.nextToken: the delimiter set given to strings.IndexAny")
			}
			f.defStrList("nextTokenCalls", calls, "ParseSpendPolicy.nextToken: every function it calls (sorted); the model's tokenizer is written for exactly [strings.IndexAny, strings.TrimSpace, strings.TrimSpace]")
		}
		if pp := lits["parsePubkey"]; pp == nil {
			f.fail("types.ParseSpendPolicy: closure parsePubkey not found")
		} else {
			var ln int64 = -1
			var pfx string
			ast.Inspect(pp.Body, func(x ast.Node) bool {
				if be, ok := x.(*ast.BinaryExpr); ok && be.Op == token.NEQ {
					if v, ok := f.constOf(be.Y); ok {
						switch v.Kind() {
						case constant.Int:
							ln, _ = constant.Int64Val(v)
						case constant.String:
							pfx = constant.StringVal(v)
						}
					}
				}
				return true
			})
			if ln < 0 || pfx == "" {
				f.fail("types.ParseSpendPolicy.parsePubkey: shape changed")
			} else {
				f.defNat("policyHexTokenLen", ln, "ParseSpendPolicy.parsePubkey: required token length")
				f.defStr("policyHexPrefix", pfx, "ParseSpendPolicy.parsePubkey: required token prefix")
			}
		}
		// per-case parseInt(N) literals, in source order
		if ps := lits["parseSpendPolicy"]; ps == nil {
			f.fail("types.ParseSpendPolicy: closure parseSpendPolicy not found")
		} else {
			bitsByCase := map[string][]int64{}
			var keywords []string
			ast.Inspect(ps.Body, func(x ast.Node) bool {
				cc, ok := x.(*ast.CaseClause)
				if !ok || len(cc.List) != 1 {
					return true
				}
				v, ok := f.constOf(cc.List[0])
				if !ok || v.Kind() != constant.String {
					return true
				}
				kw := constant.StringVal(v)
				keywords = append(keywords, kw)
				for _, st := range cc.Body {
					ast.Inspect(st, func(y ast.Node) bool {
						if c, ok := y.(*ast.CallExpr); ok && textCallee(c) == "parseInt" && len(c.Args) == 1 {
							if v, ok := f.constOf(c.Args[0]); ok {
								i, _ := constant.Int64Val(constant.ToInt(v))
								bitsByCase[kw] = append(bitsByCase[kw], i)
							}
						}
						return true
					})
				}
				return true
			})
			f.defStrList("policyKeywords", keywords, "ParseSpendPolicy: the case labels of the policy-type switch, in source order")
			want := map[string]int{"above": 1, "thresh": 1, "uc": 2}
			okShape := true
			for kw, n := range want {
				if len(bitsByCase[kw]) != n {
					f.fail("types.ParseSpendPolicy: case %q has %d parseInt calls, the model expects %d", kw, len(bitsByCase[kw]), n)
					okShape = false
				}
			}
			if okShape {
				f.defNat("aboveBits", bitsByCase["above"][0], `ParseSpendPolicy case "above": bit size passed to parseInt for the height`)
				f.defNat("threshBits", bitsByCase["thresh"][0], `ParseSpendPolicy case "thresh": bit size passed to parseInt for n`)
				f.defNat("ucTimelockBits", bitsByCase["uc"][0], `ParseSpendPolicy case "uc": bit size passed to parseInt for the timelock`)
				f.defNat("ucSigBits", bitsByCase["uc"][1], `ParseSpendPolicy case "uc": bit size passed to parseInt for the signature count`)
			}
		}
		// parseUnlockKey: does it lift a leading quoted string (the quoted algorithm
		// specifier, which may contain delimiters) off the input before tokenizing?
		if pu := lits["parseUnlockKey"]; pu == nil {
			f.fail("types.ParseSpendPolicy: closure parseUnlockKey not found")
		} else {
			var calls []string
			ast.Inspect(pu.Body, func(x ast.Node) bool {
				if c, ok := x.(*ast.CallExpr); ok {
					if n := textCallee(c); n != "?" {
						calls = append(calls, n)
					}
				}
				return true
			})
			sort.Strings(calls)
			has := false
			for _, c := range calls {
				has = has || c == "strconv.QuotedPrefix"
			}
			f.defBool("ukQuotedPrefix", has, "ParseSpendPolicy.parseUnlockKey calls strconv.QuotedPrefix (a quoted specifier is taken off the input before the tokenizer cuts at delimiters)")
			f.defStrList("parseUnlockKeyCalls", calls, "ParseSpendPolicy.parseUnlockKey: every named function it calls (sorted)")
		}
		// parseTime: strconv.ParseInt(t, 10, 64)
		if pt := lits["parseTime"]; pt != nil {
			found := false
			ast.Inspect(pt.Body, func(x ast.Node) bool {
				if c, ok := x.(*ast.CallExpr); ok && textCallee(c) == "strconv.ParseInt" && len(c.Args) == 3 {
					if v, ok := f.constOf(c.Args[2]); ok {
						i, _ := constant.Int64Val(constant.ToInt(v))
						f.defNat("afterBits", i, "ParseSpendPolicy.parseTime: bit size given to strconv.ParseInt")
						found = true
					}
				}
				return true
			})
			if !found {
				f.fail("types.ParseSpendPolicy.parseTime: strconv.ParseInt call not found")
			}
		} else {
			f.fail("types.ParseSpendPolicy: closure parseTime not found")
		}
	}
	// printer keywords of SpendPolicy.String
	if fd := f.fn("types.SpendPolicy.String"); fd != nil {
		f.defStrList("policyPrintLiterals", f.strConsts(fd.Body), "SpendPolicy.String: every string literal it writes, in source order")
	}

	// ---------------------------------------------------------------- elementLeaf JSON visibility (F1)
	if p := L.pkgs[coreMod+"/consensus"]; p != nil {
		obj := p.Scope().Lookup("elementLeaf")
		if obj == nil {
			f.fail("consensus.elementLeaf not found")
		} else if st, ok := obj.Type().Underlying().(*types.Struct); !ok {
			f.fail("consensus.elementLeaf is not a struct")
		} else {
			var visible, hidden []string
			for i := 0; i < st.NumFields(); i++ {
				fl := st.Field(i)
				if fl.Exported() {
					visible = append(visible, fl.Name())
				} else {
					hidden = append(hidden, fl.Name())
				}
			}
			f.defStrList("elementLeafJSONVisible", visible, "consensus.elementLeaf: fields encoding/json can see (exported or embedded exported)")
			f.defStrList("elementLeafJSONHidden", hidden, "consensus.elementLeaf: unexported fields, invisible to encoding/json unless a custom marshaler carries them")
			_, hasM := L.funcs[coreMod+"/consensus.elementLeaf.MarshalJSON"]
			_, hasU := L.funcs[coreMod+"/consensus.elementLeaf.UnmarshalJSON"]
			f.defBool("elementLeafCustomJSON", hasM && hasU, "consensus.elementLeaf has its own MarshalJSON and UnmarshalJSON")
		}
		// json tags of applyUpdateJSON
		for _, tn := range []string{"applyUpdateJSON", "revertUpdateJSON"} {
			obj := p.Scope().Lookup(tn)
			if obj == nil {
				f.fail("consensus.%s not found", tn)
				continue
			}
			st, ok := obj.Type().Underlying().(*types.Struct)
			if !ok {
				f.fail("consensus.%s is not a struct", tn)
				continue
			}
			var tags []string
			for i := 0; i < st.NumFields(); i++ {
				tag := st.Tag(i)
				if j := strings.Index(tag, `json:"`); j >= 0 {
					rest := tag[j+6:]
					tags = append(tags, rest[:strings.IndexByte(rest, '"')])
				} else {
					tags = append(tags, st.Field(i).Name())
				}
			}
			f.defStrList(tn+"Tags", tags, "consensus."+tn+": JSON names of its fields, in order")
		}
	}

	// ---------------------------------------------------------------- JSON shape of the update types (tree model, C20Json)
	structTags := func(pkgpath, tn string) ([]string, bool) {
		p := L.pkgs[coreMod+"/"+pkgpath]
		if p == nil {
			return nil, false
		}
		obj := p.Scope().Lookup(tn)
		if obj == nil {
			return nil, false
		}
		st, ok := obj.Type().Underlying().(*types.Struct)
		if !ok {
			return nil, false
		}
		var tags []string
		for i := 0; i < st.NumFields(); i++ {
			tag := st.Tag(i)
			if j := strings.Index(tag, `json:"`); j >= 0 {
				rest := tag[j+6:]
				tags = append(tags, rest[:strings.IndexByte(rest, '"')])
			} else {
				tags = append(tags, st.Field(i).Name())
			}
		}
		return tags, true
	}
	if tags, ok := structTags("consensus", "elementLeafJSON"); ok {
		f.defStrList("elementLeafJSONTags", tags, "consensus.elementLeafJSON: JSON names (with options) of its fields, in order")
	} else {
		f.fail("consensus.elementLeafJSON (the JSON form of an accumulator leaf) not found")
	}
	if tags, ok := structTags("types", "V2FileContractRenewal"); ok {
		f.defStrList("renewalJSONTags", tags, "types.V2FileContractRenewal: JSON field names")
	} else {
		f.fail("types.V2FileContractRenewal not found")
	}
	// the anonymous struct V2StorageProof.MarshalJSON marshals
	if fd := f.fn("types.V2StorageProof.MarshalJSON"); fd != nil {
		var tags []string
		ast.Inspect(fd.Body, func(x ast.Node) bool {
			if st, ok := x.(*ast.StructType); ok && len(tags) == 0 {
				for _, fl := range st.Fields.List {
					if fl.Tag != nil {
						if t, err := strconv.Unquote(fl.Tag.Value); err == nil {
							if j := strings.Index(t, `json:"`); j >= 0 {
								rest := t[j+6:]
								tags = append(tags, rest[:strings.IndexByte(rest, '"')])
							}
						}
					}
				}
			}
			return true
		})
		if len(tags) == 0 {
			f.fail("types.V2StorageProof.MarshalJSON: no tagged struct literal found")
		} else {
			f.defStrList("v2StorageProofJSONTags", tags, "types.V2StorageProof.MarshalJSON: JSON field names of the struct it marshals")
		}
	}
	// resolution type tags (constants of consensus/state.go, the ones the diff splice writes)
	if p := L.pkgs[coreMod+"/consensus"]; p != nil {
		var tags []string
		for _, n := range []string{"v2ResolutionRenewal", "v2ResolutionStorageProof", "v2ResolutionExpiration"} {
			if c, ok := p.Scope().Lookup(n).(*types.Const); ok && c.Val().Kind() == constant.String {
				tags = append(tags, constant.StringVal(c.Val()))
			} else {
				f.fail("consensus.%s: constant not found", n)
			}
		}
		f.defStrList("resolutionTags", tags, "consensus: the `type` strings of renewal, storage proof, expiration")
	}
	// how MarshalJSON fills the maps and how UnmarshalJSON files their entries
	filesByKey := func(key, mapField, target string) bool {
		// a `for k, v := range js.<mapField> { <recv>.<e?u>.<target>[k] = v }` loop
		fd := f.fn(key)
		if fd == nil {
			return false
		}
		found := false
		ast.Inspect(fd.Body, func(x ast.Node) bool {
			rs, ok := x.(*ast.RangeStmt)
			if !ok || rs.Key == nil || rs.Value == nil {
				return true
			}
			if !strings.HasSuffix(types.ExprString(rs.X), "."+mapField) || len(rs.Body.List) < 1 || len(rs.Body.List) > 2 {
				return true
			}
			if len(rs.Body.List) == 2 {
				// since fix 1ff03e4: a range guard `if k < 0 || k >= len(arr) { return <error> }` precedes the assignment
				g, ok := rs.Body.List[0].(*ast.IfStmt)
				if !ok || g.Else != nil || len(g.Body.List) != 1 {
					return true
				}
				if _, isRet := g.Body.List[0].(*ast.ReturnStmt); !isRet {
					return true
				}
			}
			as, ok := rs.Body.List[len(rs.Body.List)-1].(*ast.AssignStmt)
			if !ok || len(as.Lhs) != 1 || len(as.Rhs) != 1 {
				return true
			}
			ix, ok := as.Lhs[0].(*ast.IndexExpr)
			if !ok {
				return true
			}
			if strings.HasSuffix(types.ExprString(ix.X), "."+target) && types.ExprString(ix.Index) == types.ExprString(rs.Key) &&
				types.ExprString(as.Rhs[0]) == types.ExprString(rs.Value) {
				found = true
			}
			return true
		})
		return found
	}
	f.defBool("applyUpdateFilesLeavesByKey", filesByKey("consensus.ApplyUpdate.UnmarshalJSON", "UpdatedLeaves", "updated"),
		"ApplyUpdate.UnmarshalJSON: `for i, els := range js.UpdatedLeaves { au.eau.updated[i] = els }` — entries are filed under their map key")
	f.defBool("applyUpdateFilesGrowthByKey", filesByKey("consensus.ApplyUpdate.UnmarshalJSON", "TreeGrowth", "treeGrowth"),
		"ApplyUpdate.UnmarshalJSON: `for i, els := range js.TreeGrowth { au.eau.treeGrowth[i] = els }`")
	f.defBool("revertUpdateFilesLeavesByKey", filesByKey("consensus.RevertUpdate.UnmarshalJSON", "UpdatedLeaves", "updated"),
		"RevertUpdate.UnmarshalJSON: `for i, els := range js.UpdatedLeaves { ru.eru.updated[i] = els }`")
	writesByIndex := func(key, arr, mapField string) bool {
		// `for i, els := range <recv>.<arr> { if len(els) > 0 { js.<mapField>[i] = els } }`
		fd := f.fn(key)
		if fd == nil {
			return false
		}
		found := false
		ast.Inspect(fd.Body, func(x ast.Node) bool {
			rs, ok := x.(*ast.RangeStmt)
			if !ok || rs.Key == nil || rs.Value == nil || !strings.HasSuffix(types.ExprString(rs.X), "."+arr) {
				return true
			}
			ast.Inspect(rs.Body, func(y ast.Node) bool {
				as, ok := y.(*ast.AssignStmt)
				if !ok || len(as.Lhs) != 1 {
					return true
				}
				if ix, ok := as.Lhs[0].(*ast.IndexExpr); ok && strings.HasSuffix(types.ExprString(ix.X), "."+mapField) &&
					types.ExprString(ix.Index) == types.ExprString(rs.Key) && types.ExprString(as.Rhs[0]) == types.ExprString(rs.Value) {
					found = true
				}
				return true
			})
			return true
		})
		return found
	}
	f.defBool("applyUpdateWritesLeavesByIndex", writesByIndex("consensus.ApplyUpdate.MarshalJSON", "updated", "UpdatedLeaves"),
		"ApplyUpdate.MarshalJSON: js.UpdatedLeaves[i] = au.eau.updated[i] for the non-empty entries")
	f.defBool("applyUpdateWritesGrowthByIndex", writesByIndex("consensus.ApplyUpdate.MarshalJSON", "treeGrowth", "TreeGrowth"),
		"ApplyUpdate.MarshalJSON: js.TreeGrowth[i] = au.eau.treeGrowth[i] for the non-empty entries")
	f.defBool("revertUpdateWritesLeavesByIndex", writesByIndex("consensus.RevertUpdate.MarshalJSON", "updated", "UpdatedLeaves"),
		"RevertUpdate.MarshalJSON: js.UpdatedLeaves[i] = ru.eru.updated[i] for the non-empty entries")

	// ---------------------------------------------------------------- census of types with a text/JSON form
	// (the harness sweeps a committed list, harness/props/c20_types.go; this census of the
	// CURRENT tree lets it notice a type that appeared or disappeared)
	{
		alias := map[string]string{"types": "types", "consensus": "consensus", "gateway": "gateway", "rhp/v2": "rhp", "rhp/v3": "rhp", "rhp/v4": "rhp"}
		hasMethod := func(T types.Type, name string) bool {
			for _, t := range []types.Type{T, types.NewPointer(T)} {
				ms := types.NewMethodSet(t)
				for i := 0; i < ms.Len(); i++ {
					if ms.At(i).Obj().Name() == name {
						return true
					}
				}
			}
			return false
		}
		var census []string
		for _, pp := range []string{"types", "consensus", "gateway", "rhp/v2", "rhp/v3", "rhp/v4"} {
			p := L.pkgs[coreMod+"/"+pp]
			if p == nil {
				continue
			}
			names := p.Scope().Names()
			sort.Strings(names)
			for _, n := range names {
				obj, ok := p.Scope().Lookup(n).(*types.TypeName)
				if !ok || !obj.Exported() || strings.HasPrefix(n, "Verif") {
					continue
				}
				named, ok := obj.Type().(*types.Named)
				if !ok || named.TypeParams().Len() > 0 {
					continue
				}
				has := false
				switch u := named.Underlying().(type) {
				case *types.Interface, *types.Signature, *types.Chan:
					continue
				case *types.Struct:
					for i := 0; i < u.NumFields(); i++ {
						if strings.Contains(u.Tag(i), `json:"`) {
							has = true
						}
					}
				default:
					has = true
				}
				if hasMethod(named, "MarshalJSON") || hasMethod(named, "MarshalText") {
					has = true
				}
				if has {
					census = append(census, alias[pp]+"."+n+"@"+pp)
				}
			}
		}
		f.defStrList("jsonTypeCensus", census, "exported types of types, consensus, gateway, rhp/v2-4 with a MarshalText/MarshalJSON method, json field tags, or a plain named non-struct type (\"<reflect name>@<package dir>\")")
	}

	f.sb.WriteString("end Gen.FactsText\n")
	return f.sb.String(), f.rep, f.errs
}
