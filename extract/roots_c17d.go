package main

func init() {
	tcodeRoots = append(tcodeRoots,
		// C17 — the part of the rhp/v4 request validation that is inside the T-code subset.
		// The Validate methods themselves (loops, maps, slices, time, signatures) are pinned by
		// T-facts (facts_c17.go) and hand-modelled in SiaModel/Rhp/V4Validate.lean.
		"rhp/v4.minProofHeight",
	)
}
