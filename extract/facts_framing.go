package main

// T-facts for C19 (RPC framing): every rhp/v4 `maxLen()` body, the `sizeof*`
// variables, batch limits and size constants, the limit expressions of
// ReadRequest/ReadResponse, the `Validate` clauses that bound a length, the gateway
// `max*Len` bodies (functions of `r.Max` where the code says so), the gateway
// handshake limits and decision conditions, rhp2/rhp3 `minMessageSize` and the
// rhp2/rhp3 message-length checks — all as Lean definitions in
// SiaModel.Gen.FactsFraming.

import (
	"fmt"
	"go/ast"
	"go/constant"
	"go/printer"
	"go/token"
	"go/types"
	"sort"
	"strings"
)

func init() { registerFacts("FactsFraming", genFraming) }

type frGen struct {
	L    *loader
	errs []string
	sb   strings.Builder
}

func (g *frGen) fail(f string, a ...any) { g.errs = append(g.errs, "framing "+fmt.Sprintf(f, a...)) }

func (g *frGen) text(n ast.Node) string {
	var pb strings.Builder
	printer.Fprint(&pb, g.L.fset, n)
	return pb.String()
}

// natExpr translates an integer Go expression to a Lean Nat term. Constant
// sub-expressions are folded by go/types; `params` maps Go selector texts (e.g.
// "r.Max") to Lean parameter names; idents maps package-level variable names to
// Lean names.
func (g *frGen) natExpr(e ast.Expr, idents map[string]string, params map[string]string) (string, bool) {
	if tv, ok := g.L.info.Types[e]; ok && tv.Value != nil {
		v := constant.ToInt(tv.Value)
		if v.Kind() == constant.Int {
			return v.ExactString(), true
		}
	}
	switch x := e.(type) {
	case *ast.ParenExpr:
		s, ok := g.natExpr(x.X, idents, params)
		return "(" + s + ")", ok
	case *ast.Ident:
		if n, ok := idents[x.Name]; ok {
			return n, true
		}
	case *ast.SelectorExpr:
		if n, ok := params[g.text(x)]; ok {
			return n, true
		}
	case *ast.BinaryExpr:
		a, ok1 := g.natExpr(x.X, idents, params)
		b, ok2 := g.natExpr(x.Y, idents, params)
		if !ok1 || !ok2 {
			return "", false
		}
		switch x.Op {
		case token.ADD:
			return "(" + a + " + " + b + ")", true
		case token.MUL:
			return "(" + a + " * " + b + ")", true
		case token.QUO:
			return "(" + a + " / " + b + ")", true
		case token.SUB:
			return "(" + a + " - " + b + ")", true
		case token.SHL:
			return "(" + a + " * 2 ^ " + b + ")", true
		}
	case *ast.CallExpr:
		// conversions int(x), uint64(x)
		if len(x.Args) == 1 {
			if tv, ok := g.L.info.Types[x.Fun]; ok && tv.IsType() {
				return g.natExpr(x.Args[0], idents, params)
			}
		}
		// (*RPCError)(nil).maxLen()  /  o.maxLen()
		if se, ok := x.Fun.(*ast.SelectorExpr); ok && se.Sel.Name == "maxLen" && len(x.Args) == 0 {
			if n, ok := params[g.text(x)]; ok {
				return n, true
			}
		}
	}
	return "", false
}

// singleReturn: the body must be exactly `return <expr>` (comments allowed).
func singleReturn(fd *ast.FuncDecl) (ast.Expr, bool) {
	if fd == nil || fd.Body == nil || len(fd.Body.List) != 1 {
		return nil, false
	}
	rs, ok := fd.Body.List[0].(*ast.ReturnStmt)
	if !ok || len(rs.Results) != 1 {
		return nil, false
	}
	return rs.Results[0], true
}

func (g *frGen) constNat(pkg, name string) (string, bool) {
	p := g.L.pkgs[coreMod+"/"+pkg]
	if p == nil {
		return "", false
	}
	obj := p.Scope().Lookup(name)
	c, ok := obj.(*types.Const)
	if !ok {
		return "", false
	}
	v := constant.ToInt(c.Val())
	if v.Kind() != constant.Int {
		return "", false
	}
	return v.ExactString(), true
}

func genFraming(L *loader) (string, any, []string) {
	g := &frGen{L: L}
	sb := &g.sb
	sb.WriteString("import SiaModel.Codec.Size\nimport SiaModel.Gen.FactsSchema\nset_option linter.unusedVariables false\n")
	sb.WriteString("/-! T-facts for C19: message-length limits as the code states them (see extract/facts_framing.go). -/\n")
	sb.WriteString("namespace Sia.Codec.Gen.Framing\nopen Sia.Codec Sia.Codec.Gen\n\n")
	rep := map[string]any{}

	// ---------------------------------------------------------------- rhp/v4 constants
	r4 := "rhp/v4"
	r4path := coreMod + "/" + r4
	idents := map[string]string{}
	for _, c := range []string{"SectorSize", "LeafSize", "LeavesPerSector", "MaxSectorBatchSize", "MaxAccountBatchSize", "reasonableObjectSize", "reasonableTransactionSetSize", "ProofWindow"} {
		v, ok := g.constNat(r4, c)
		if !ok {
			g.fail("rhp4 constant %s not found", c)
			v = "0"
		}
		sb.WriteString(fmt.Sprintf("def rhp4_%s : Nat := %s\n", c, v))
		idents[c] = "rhp4_" + c
	}
	// sizeof* variables: sizeofX = sizeof(T{}) | sizeof(types.EncoderFunc(T{}.encodeTo))
	sb.WriteString("\n/-- rhp/v4 `sizeofX = sizeof(T{})`: the size of the encoding of the zero value -/\n")
	for _, f := range L.files[r4path] {
		for _, d := range f.Decls {
			gd, ok := d.(*ast.GenDecl)
			if !ok || gd.Tok != token.VAR {
				continue
			}
			for _, sp := range gd.Specs {
				vs := sp.(*ast.ValueSpec)
				for i, n := range vs.Names {
					if !strings.HasPrefix(n.Name, "sizeof") || i >= len(vs.Values) {
						continue
					}
					call, ok := vs.Values[i].(*ast.CallExpr)
					if !ok || g.text(call.Fun) != "sizeof" || len(call.Args) != 1 {
						g.fail("rhp4 %s is not sizeof(...)", n.Name)
						continue
					}
					arg := call.Args[0]
					// types.EncoderFunc(T{}.encodeTo)
					if c2, ok := arg.(*ast.CallExpr); ok && len(c2.Args) == 1 {
						if se, ok := c2.Args[0].(*ast.SelectorExpr); ok {
							arg = se.X
						}
					}
					cl, ok := arg.(*ast.CompositeLit)
					if !ok || len(cl.Elts) != 0 {
						g.fail("rhp4 %s: argument of sizeof is not a zero value literal", n.Name)
						continue
					}
					tv := L.info.Types[cl.Type]
					named, ok := tv.Type.(*types.Named)
					if !ok {
						g.fail("rhp4 %s: unnamed type", n.Name)
						continue
					}
					key := pkgAlias[named.Obj().Pkg().Path()] + "_" + named.Obj().Name()
					sb.WriteString(fmt.Sprintf("def rhp4_%s : Nat := Sch.zeroSize encSchema_%s\n", n.Name, key))
					idents[n.Name] = "rhp4_" + n.Name
				}
			}
		}
	}
	// maxLen bodies
	sb.WriteString("\n/-- rhp/v4 `maxLen()` of every Object -/\n")
	var keys []string
	for k := range L.funcs {
		if strings.HasPrefix(k, r4path+".") && strings.HasSuffix(k, ".maxLen") {
			keys = append(keys, k)
		}
	}
	sort.Strings(keys)
	var r4types []string
	for _, k := range keys {
		tn := strings.TrimSuffix(strings.TrimPrefix(k, r4path+"."), ".maxLen")
		e, ok := singleReturn(L.funcs[k])
		if !ok {
			g.fail("rhp4 %s.maxLen is not a single return", tn)
			continue
		}
		s, ok := g.natExpr(e, idents, nil)
		if !ok {
			g.fail("rhp4 %s.maxLen: cannot translate %s", tn, g.text(e))
			continue
		}
		sb.WriteString(fmt.Sprintf("def rhp4_maxLen_%s : Nat := %s  -- %s\n", tn, s, g.text(e)))
		r4types = append(r4types, tn)
	}
	sb.WriteString("\n/-- (type name, maxLen) for every rhp/v4 Object -/\ndef rhp4_maxLens : List (String × Nat) := [\n")
	for i, tn := range r4types {
		sep := ","
		if i == len(r4types)-1 {
			sep = ""
		}
		sb.WriteString(fmt.Sprintf("  (%q, rhp4_maxLen_%s)%s\n", tn, tn, sep))
	}
	sb.WriteString("]\n")
	// limit expressions of ReadRequest / ReadResponse
	for _, fn := range []string{"ReadRequest", "ReadResponse"} {
		fd := L.funcs[r4path+"."+fn]
		lim := ""
		if fd != nil {
			if e, ok := singleReturn(fd); ok {
				if call, ok := e.(*ast.CallExpr); ok && g.text(call.Fun) == "withDecoder" && len(call.Args) == 3 {
					lim = g.text(call.Args[1])
				}
			}
		}
		if lim == "" {
			g.fail("rhp4 %s: limit expression not found", fn)
		}
		sb.WriteString(fmt.Sprintf("/-- the limit rhp/v4 `%s` hands to the decoder -/\ndef rhp4_%sLimit : String := %q\n", fn, fn, lim))
	}
	// Validate clauses bounding a length
	sb.WriteString("\n/-- rhp/v4 `Validate` clauses that reject on `<lhs> > <rhs>`: (receiver type, lhs, rhs) -/\ndef rhp4_validateBounds : List (String × String × String) := [\n")
	var vb []string
	var vkeys []string
	for k := range L.funcs {
		if strings.HasPrefix(k, r4path+".") && strings.HasSuffix(k, ".Validate") {
			vkeys = append(vkeys, k)
		}
	}
	sort.Strings(vkeys)
	for _, k := range vkeys {
		tn := strings.TrimSuffix(strings.TrimPrefix(k, r4path+"."), ".Validate")
		ast.Inspect(L.funcs[k].Body, func(n ast.Node) bool {
			be, ok := n.(*ast.BinaryExpr)
			if !ok || be.Op != token.GTR {
				return true
			}
			rhs := g.text(be.Y)
			if rhs == "MaxSectorBatchSize" || rhs == "MaxAccountBatchSize" || rhs == "SectorSize" {
				vb = append(vb, fmt.Sprintf("  (%q, %q, %q)", tn, g.text(be.X), rhs))
			}
			return true
		})
	}
	sb.WriteString(strings.Join(vb, ",\n") + "\n]\n")

	// ---------------------------------------------------------------- gateway
	gwpath := coreMod + "/gateway"
	sb.WriteString("\n/-- gateway `maxRequestLen()` / `maxResponseLen()`; `rMax` is the request's `Max` field -/\n")
	var gkeys []string
	for k := range L.funcs {
		if strings.HasPrefix(k, gwpath+".") && (strings.HasSuffix(k, ".maxRequestLen") || strings.HasSuffix(k, ".maxResponseLen")) {
			gkeys = append(gkeys, k)
		}
	}
	sort.Strings(gkeys)
	var gwEntries []string
	for _, k := range gkeys {
		rest := strings.TrimPrefix(k, gwpath+".")
		i := strings.LastIndex(rest, ".")
		tn, m := rest[:i], rest[i+1:]
		half := "Request"
		if m == "maxResponseLen" {
			half = "Response"
		}
		fd := L.funcs[k]
		e, ok := singleReturn(fd)
		if !ok {
			g.fail("gateway %s.%s is not a single return", tn, m)
			continue
		}
		recv := ""
		if fd.Recv != nil && len(fd.Recv.List) == 1 && len(fd.Recv.List[0].Names) == 1 {
			recv = fd.Recv.List[0].Names[0].Name
		}
		s, ok := g.natExpr(e, nil, map[string]string{recv + ".Max": "rMax"})
		if !ok {
			g.fail("gateway %s.%s: cannot translate %s", tn, m, g.text(e))
			continue
		}
		sb.WriteString(fmt.Sprintf("def gw_maxLen_%s_%s (rMax : Nat) : Nat := %s  -- %s\n", tn, half, s, g.text(e)))
		gwEntries = append(gwEntries, fmt.Sprintf("  (%q, gw_maxLen_%s_%s)", tn+"_"+half, tn, half))
	}
	sb.WriteString("\ndef gw_maxLens : List (String × (Nat → Nat)) := [\n" + strings.Join(gwEntries, ",\n") + "\n]\n")
	// handshake: validateHeader conditions and messages, header/version read limits
	if fd := L.funcs[gwpath+".validateHeader"]; fd != nil && fd.Body != nil && len(fd.Body.List) == 2 {
		var conds []string
		if is, ok := fd.Body.List[0].(*ast.IfStmt); ok {
			for is != nil {
				msg := ""
				ast.Inspect(is.Body, func(n ast.Node) bool {
					if bl, ok := n.(*ast.BasicLit); ok && bl.Kind == token.STRING {
						msg = bl.Value
					}
					return true
				})
				conds = append(conds, fmt.Sprintf("(%q, %s)", g.text(is.Cond), msg))
				next, _ := is.Else.(*ast.IfStmt)
				if is.Else != nil && next == nil {
					g.fail("gateway validateHeader: unexpected else")
				}
				is = next
			}
		} else {
			g.fail("gateway validateHeader: unexpected shape")
		}
		sb.WriteString("\n/-- gateway `validateHeader`: the if / else-if chain (condition, rejection message); otherwise accept -/\ndef gw_validateHeader : List (String × String) := [" + strings.Join(conds, ", ") + "]\n")
	} else {
		g.fail("gateway validateHeader: unexpected shape")
		sb.WriteString("def gw_validateHeader : List (String × String) := []\n")
	}
	// withV1Decoder limits used by the handshake
	var hs []string
	for _, fn := range []string{"writeHeader", "readHeader", "Dial", "Accept"} {
		fd := L.funcs[gwpath+"."+fn]
		if fd == nil {
			g.fail("gateway %s not found", fn)
			continue
		}
		ast.Inspect(fd.Body, func(n ast.Node) bool {
			call, ok := n.(*ast.CallExpr)
			if ok && g.text(call.Fun) == "withV1Decoder" && len(call.Args) == 3 {
				if s, ok := g.natExpr(call.Args[1], nil, nil); ok {
					hs = append(hs, fmt.Sprintf("(%q, %s)", fn, s))
				}
			}
			return true
		})
	}
	sb.WriteString("/-- limits of the handshake reads (`withV1Decoder(conn, N, …)`): (function, N) -/\ndef gw_handshakeLimits : List (String × Nat) := [" + strings.Join(hs, ", ") + "]\n")

	// ---------------------------------------------------------------- rhp2 / rhp3
	for _, p := range []struct{ pkg, alias string }{{"rhp/v2", "rhp2"}, {"rhp/v3", "rhp3"}} {
		v, ok := g.constNat(p.pkg, "minMessageSize")
		if !ok {
			g.fail("%s minMessageSize not found", p.alias)
			v = "0"
		}
		sb.WriteString(fmt.Sprintf("\ndef %s_minMessageSize : Nat := %s\n", p.alias, v))
	}
	// readN chunk size (rhp2, rhp3): `var chunk [1 << 14]byte`
	for _, p := range []struct{ pkg, alias string }{{"rhp/v2", "rhp2"}, {"rhp/v3", "rhp3"}} {
		n := "0"
		if fd := L.funcs[coreMod+"/"+p.pkg+".readN"]; fd != nil {
			ast.Inspect(fd.Body, func(nd ast.Node) bool {
				if vs, ok := nd.(*ast.ValueSpec); ok && len(vs.Names) == 1 && vs.Names[0].Name == "chunk" {
					if at, ok := vs.Type.(*ast.ArrayType); ok && at.Len != nil {
						if s, ok := g.natExpr(at.Len, nil, nil); ok {
							n = s
						}
					}
				}
				return true
			})
		}
		if n == "0" {
			g.fail("%s readN chunk size not found", p.alias)
		}
		sb.WriteString(fmt.Sprintf("def %s_readNChunk : Nat := %s\n", p.alias, n))
	}
	// rhp2 readMessage: the checks applied to the announced size, in order
	if fd := L.funcs[coreMod+"/rhp/v2.Transport.readMessage"]; fd != nil {
		var checks []string
		ast.Inspect(fd.Body, func(n ast.Node) bool {
			be, ok := n.(*ast.BinaryExpr)
			if ok && (be.Op == token.GTR || be.Op == token.LSS) && strings.Contains(g.text(be), "msgSize") {
				checks = append(checks, fmt.Sprintf("%q", g.text(be)))
			}
			return true
		})
		sb.WriteString("/-- rhp/v2 `readMessage`: conditions under which the announced size is refused -/\ndef rhp2_readMessageChecks : List String := [" + strings.Join(checks, ", ") + "]\n")
	} else {
		g.fail("rhp2 readMessage not found")
	}
	if fd := L.funcs[coreMod+"/rhp/v3.Stream.readObject"]; fd != nil {
		var checks []string
		ast.Inspect(fd.Body, func(n ast.Node) bool {
			switch x := n.(type) {
			case *ast.AssignStmt:
				if x.Tok == token.ADD_ASSIGN && g.text(x.Lhs[0]) == "maxLen" {
					checks = append(checks, fmt.Sprintf("%q", g.text(x)))
				}
			case *ast.BinaryExpr:
				if x.Op == token.GTR && strings.Contains(g.text(x), "maxLen") {
					checks = append(checks, fmt.Sprintf("%q", g.text(x)))
				}
			}
			return true
		})
		sb.WriteString("/-- rhp/v3 `readObject`: limit adjustment and length check -/\ndef rhp3_readObjectChecks : List String := [" + strings.Join(checks, ", ") + "]\n")
	} else {
		g.fail("rhp3 readObject not found")
	}
	sb.WriteString("\nend Sia.Codec.Gen.Framing\n")
	rep["rhp4_maxLen"] = len(r4types)
	rep["gateway_maxLen"] = len(gwEntries)
	return sb.String(), rep, g.errs
}
