package main

// T-facts for C09 (aliasing discipline):
//
//  1. every element hand-off in consensus/{application,merkle,validation,state}.go:
//     for each call argument / assignment / bare statement whose value is one of
//     the Element types, whether it goes through .Share(), .Copy(), .Move(), is a
//     fresh composite literal, or is passed raw;
//  2. every slice-, pointer- or map-typed location reachable inside a
//     types.V2Transaction (computed from go/types, through interfaces by
//     enumerating their implementations in package types), with its nearest
//     enclosing slice/pointer location;
//  3. the locations V2Transaction.DeepCopy clones (an alias-tracking reading of
//     its body, of deepCopyPolicy and of the Copy methods it calls), the element
//     proofs that V2TransactionsMultiproof.EncodeTo strips, and whether EncodeTo
//     deep-copies before stripping.
//
// A statement of DeepCopy that the reader does not understand is an error (broken
// tie), never skipped.

import (
	"fmt"
	"go/ast"
	"go/token"
	"go/types"
	"path/filepath"
	"sort"
	"strings"
)

func init() { registerFacts("FactsAlias", genFactsAlias) }

func genFactsAlias(L *loader) (string, any, []string) {
	const cpkg = coreMod + "/consensus"
	const tpkg = coreMod + "/types"
	var errs []string
	fail := func(f string, a ...any) { errs = append(errs, "FactsAlias: "+fmt.Sprintf(f, a...)) }
	rep := map[string]any{}
	var sb strings.Builder
	sb.WriteString("namespace Gen.FactsAlias\n\n")
	q := func(s string) string { return fmt.Sprintf("%q", s) }
	emitStrs := func(name string, xs []string, doc string) {
		qs := make([]string, len(xs))
		for i, x := range xs {
			qs[i] = q(x)
		}
		fmt.Fprintf(&sb, "/-- %s -/\ndef %s : List String := [%s]\n", doc, name, strings.Join(qs, ",\n  "))
		rep[name] = xs
	}

	isElemType := func(t types.Type) bool {
		n, ok := t.(*types.Named)
		if !ok || n.Obj().Pkg() == nil || n.Obj().Pkg().Path() != tpkg {
			return false
		}
		return strings.HasSuffix(n.Obj().Name(), "Element")
	}
	// mode of an element-typed expression
	modeOf := func(e ast.Expr) (mode, inner string) {
		switch x := e.(type) {
		case *ast.CallExpr:
			if se, ok := x.Fun.(*ast.SelectorExpr); ok && len(x.Args) == 0 {
				switch se.Sel.Name {
				case "Share", "Copy", "Move":
					// the method must be one of the Element methods of package types (possibly
					// promoted through an embedded *StateElement, or called on a pointer)
					if sel := L.info.Selections[se]; sel != nil {
						if fn, ok := sel.Obj().(*types.Func); ok {
							if sig, ok := fn.Type().(*types.Signature); ok && sig.Recv() != nil && isElemType(sig.Recv().Type()) {
								return strings.ToLower(se.Sel.Name), types.ExprString(se.X)
							}
						}
					}
				}
			}
			return "call", types.ExprString(e)
		case *ast.CompositeLit:
			return "literal", types.ExprString(x.Type)
		}
		return "raw", types.ExprString(e)
	}

	// ---------------------------------------------------------------- 1. hand-offs
	type handoff struct{ File, Func, Callee, Arg, Mode string }
	var hs []handoff
	wantFiles := map[string]bool{"application.go": true, "merkle.go": true, "validation.go": true, "state.go": true}
	for _, f := range L.files[cpkg] {
		base := filepath.Base(L.fset.Position(f.Pos()).Filename)
		if !wantFiles[base] {
			continue
		}
		for _, d := range f.Decls {
			fd, ok := d.(*ast.FuncDecl)
			if !ok || fd.Body == nil {
				continue
			}
			fname := fd.Name.Name
			if fd.Recv != nil && len(fd.Recv.List) == 1 {
				t := fd.Recv.List[0].Type
				if st, ok := t.(*ast.StarExpr); ok {
					t = st.X
				}
				if id, ok := t.(*ast.Ident); ok {
					fname = id.Name + "." + fname
				}
			}
			seen := map[ast.Expr]bool{} // Share/Copy/Move calls already attributed to a consumer
			record := func(callee string, e ast.Expr) {
				tv, ok := L.info.Types[e]
				if !ok || !isElemType(tv.Type) {
					return
				}
				m, inner := modeOf(e)
				seen[e] = true
				hs = append(hs, handoff{base, fname, callee, inner, m})
			}
			ast.Inspect(fd.Body, func(n ast.Node) bool {
				switch x := n.(type) {
				case *ast.CallExpr:
					callee := types.ExprString(x.Fun)
					if se, ok := x.Fun.(*ast.SelectorExpr); ok && len(x.Args) == 0 {
						if se.Sel.Name == "Share" || se.Sel.Name == "Copy" || se.Sel.Name == "Move" {
							return true // handled where it is consumed
						}
					}
					for _, a := range x.Args {
						record(callee, a)
					}
				case *ast.AssignStmt:
					for i, r := range x.Rhs {
						if m, _ := modeOf(r); m == "share" || m == "copy" || m == "move" {
							lhs := "_"
							if i < len(x.Lhs) {
								lhs = types.ExprString(x.Lhs[i])
							}
							record("assign:"+lhs, r)
						}
					}
				case *ast.KeyValueExpr:
					if m, _ := modeOf(x.Value); m == "share" || m == "copy" || m == "move" {
						record("field:"+types.ExprString(x.Key), x.Value)
					}
				case *ast.ExprStmt:
					if m, _ := modeOf(x.X); m == "share" || m == "copy" || m == "move" {
						record("discard", x.X)
					}
				}
				return true
			})
			// any Share/Copy/Move call not consumed by one of the shapes above
			ast.Inspect(fd.Body, func(n ast.Node) bool {
				if ce, ok := n.(*ast.CallExpr); ok && !seen[ce] {
					if m, inner := modeOf(ce); m == "share" || m == "copy" || m == "move" {
						hs = append(hs, handoff{base, fname, "other", inner, m})
					}
				}
				return true
			})
		}
	}
	sort.SliceStable(hs, func(i, j int) bool {
		if hs[i].File != hs[j].File {
			return hs[i].File < hs[j].File
		}
		return false
	})
	if len(hs) == 0 {
		fail("no element hand-offs found in consensus")
	}
	sb.WriteString("/-- every element hand-off: (file, function, consumer, argument expression, mode);\n    mode ∈ share | copy | move | raw | literal | call -/\ndef handoffs : List (String × String × String × String × String) := [\n")
	for i, h := range hs {
		sep := ","
		if i == len(hs)-1 {
			sep = ""
		}
		fmt.Fprintf(&sb, "  (%s, %s, %s, %s, %s)%s\n", q(h.File), q(h.Func), q(h.Callee), q(h.Arg), q(h.Mode), sep)
	}
	sb.WriteString("]\n")
	rep["handoffs"] = hs

	// ---------------------------------------------------------------- 2. reachable locations of V2Transaction
	tp := L.pkgs[tpkg]
	if tp == nil {
		fail("package types not loaded")
		return sb.String() + "\nend Gen.FactsAlias\n", rep, errs
	}
	lookupNamed := func(name string) *types.Named {
		o := tp.Scope().Lookup(name)
		if o == nil {
			return nil
		}
		n, _ := o.Type().(*types.Named)
		return n
	}
	// implementations of an interface among the named types of package types
	impls := func(it *types.Interface) []types.Type {
		var out []types.Type
		names := tp.Scope().Names()
		sort.Strings(names)
		for _, nm := range names {
			tn, ok := tp.Scope().Lookup(nm).(*types.TypeName)
			if !ok || tn.IsAlias() {
				continue
			}
			nt, ok := tn.Type().(*types.Named)
			if !ok {
				continue
			}
			if _, isIface := nt.Underlying().(*types.Interface); isIface {
				continue
			}
			if types.Implements(nt, it) {
				out = append(out, nt)
			} else if types.Implements(types.NewPointer(nt), it) {
				out = append(out, types.NewPointer(nt))
			}
		}
		return out
	}
	type loc struct{ Path, Kind, Parent string }
	var locs []loc
	var walk func(t types.Type, path []string, parent string, stack map[string]bool)
	walk = func(t types.Type, path []string, parent string, stack map[string]bool) {
		p := strings.Join(path, "/")
		switch u := t.(type) {
		case *types.Named:
			key := u.Obj().Name()
			if u.Obj().Pkg() == nil || u.Obj().Pkg().Path() != tpkg {
				return // foreign types (none with mutable memory in a V2Transaction)
			}
			if stack[key] {
				return // recursive occurrence (SpendPolicy inside a threshold): same locations again
			}
			stack[key] = true
			walk(u.Underlying(), path, parent, stack)
			delete(stack, key)
		case *types.Struct:
			for i := 0; i < u.NumFields(); i++ {
				walk(u.Field(i).Type(), append(append([]string{}, path...), u.Field(i).Name()), parent, stack)
			}
		case *types.Slice:
			locs = append(locs, loc{p, "slice", parent})
			walk(u.Elem(), append(append([]string{}, path...), "[]"), p, stack)
		case *types.Map:
			locs = append(locs, loc{p, "map", parent})
		case *types.Pointer:
			locs = append(locs, loc{p, "pointer", parent})
			walk(u.Elem(), append(append([]string{}, path...), "*"), p, stack)
		case *types.Array:
			walk(u.Elem(), path, parent, stack)
		case *types.Interface:
			for _, im := range impls(u) {
				if pt, ok := im.(*types.Pointer); ok {
					seg := "(*" + pt.Elem().(*types.Named).Obj().Name() + ")"
					pp := strings.Join(append(append([]string{}, path...), seg), "/")
					locs = append(locs, loc{pp, "pointer", parent})
					walk(pt.Elem(), append(append([]string{}, path...), seg, "*"), pp, stack)
				} else {
					seg := "(" + im.(*types.Named).Obj().Name() + ")"
					walk(im, append(append([]string{}, path...), seg), parent, stack)
				}
			}
		}
	}
	v2t := lookupNamed("V2Transaction")
	if v2t == nil {
		fail("types.V2Transaction not found")
	} else {
		walk(v2t, nil, "", map[string]bool{})
	}
	sort.Slice(locs, func(i, j int) bool { return locs[i].Path < locs[j].Path })
	var reach []string
	for _, l := range locs {
		reach = append(reach, l.Path)
	}
	emitStrs("reachable", reach, "every slice/pointer/map location reachable in a types.V2Transaction (from go/types)")
	sb.WriteString("/-- (location, kind, nearest enclosing slice/pointer location or \"\") -/\ndef reachableInfo : List (String × String × String) := [\n")
	for i, l := range locs {
		sep := ","
		if i == len(locs)-1 {
			sep = ""
		}
		fmt.Fprintf(&sb, "  (%s, %s, %s)%s\n", q(l.Path), q(l.Kind), q(l.Parent), sep)
	}
	sb.WriteString("]\n")
	rep["reachableInfo"] = locs

	// ---------------------------------------------------------------- 3. what DeepCopy clones
	tfn := func(name string) *ast.FuncDecl {
		fd := L.funcs[tpkg+"."+name]
		if fd == nil || fd.Body == nil {
			fail("function types.%s not found", name)
		}
		return fd
	}
	// locations cloned by <ElementType>.Copy, relative to the element
	var copyPaths func(typeName string, depth int) []string
	copyPaths = func(typeName string, depth int) []string {
		fd := L.funcs[tpkg+"."+typeName+".Copy"]
		if fd == nil || fd.Body == nil || fd.Recv == nil || len(fd.Recv.List[0].Names) == 0 || depth > 4 {
			fail("Copy method of types.%s not found", typeName)
			return nil
		}
		recv := fd.Recv.List[0].Names[0].Name
		var out []string
		for _, st := range fd.Body.List {
			switch s := st.(type) {
			case *ast.AssignStmt:
				if len(s.Lhs) != 1 || len(s.Rhs) != 1 {
					fail("%s.Copy: unexpected statement %s", typeName, L.pos(s))
					continue
				}
				lhs := types.ExprString(s.Lhs[0])
				if !strings.HasPrefix(lhs, recv+".") {
					fail("%s.Copy: assignment to %s", typeName, lhs)
					continue
				}
				field := strings.TrimPrefix(lhs, recv+".")
				rhs := types.ExprString(s.Rhs[0])
				switch {
				case rhs == "slices.Clone("+lhs+")":
					out = append(out, field)
				case rhs == lhs+".Copy()":
					ft := ""
					if tv, ok := L.info.Types[s.Lhs[0]]; ok {
						if n, ok := tv.Type.(*types.Named); ok {
							ft = n.Obj().Name()
						}
					}
					for _, sub := range copyPaths(ft, depth+1) {
						out = append(out, field+"/"+sub)
					}
				case rhs == "false" || rhs == "true":
					// the shared flag
				default:
					fail("%s.Copy: unexpected right-hand side %s", typeName, rhs)
				}
			case *ast.ReturnStmt:
			default:
				fail("%s.Copy: unexpected statement at %s", typeName, L.pos(st))
			}
		}
		return out
	}

	cloned := map[string]bool{}
	// alias environment: local variable -> location path ("" = the transaction itself)
	type env map[string]string
	var pathOf func(e ast.Expr, en env) (string, bool)
	pathOf = func(e ast.Expr, en env) (string, bool) {
		switch x := e.(type) {
		case *ast.Ident:
			p, ok := en[x.Name]
			return p, ok
		case *ast.SelectorExpr:
			b, ok := pathOf(x.X, en)
			if !ok {
				return "", false
			}
			if b == "" {
				return x.Sel.Name, true
			}
			return b + "/" + x.Sel.Name, true
		case *ast.IndexExpr:
			b, ok := pathOf(x.X, en)
			if !ok {
				return "", false
			}
			return b + "/[]", true
		case *ast.ParenExpr:
			return pathOf(x.X, en)
		}
		return "", false
	}
	namedOf := func(e ast.Expr) string {
		if tv, ok := L.info.Types[e]; ok {
			if n, ok := tv.Type.(*types.Named); ok {
				return n.Obj().Name()
			}
		}
		return ""
	}
	var policyPaths []string // locations cloned by deepCopyPolicy, relative to the SpendPolicy
	var interp func(fn string, stmts []ast.Stmt, en env, mark func(string))
	interp = func(fn string, stmts []ast.Stmt, en env, mark func(string)) {
		for _, st := range stmts {
			switch s := st.(type) {
			case *ast.AssignStmt:
				if len(s.Lhs) != 1 || len(s.Rhs) != 1 {
					fail("%s: unexpected assignment at %s", fn, L.pos(s))
					continue
				}
				rhsStr := types.ExprString(s.Rhs[0])
				lhsID, lhsIsIdent := s.Lhs[0].(*ast.Ident)
				// v := *e   (copy of a pointee / of the receiver)
				if ue, ok := s.Rhs[0].(*ast.StarExpr); ok && s.Tok == token.DEFINE && lhsIsIdent {
					if p, ok := pathOf(ue.X, en); ok {
						if p == "" {
							en[lhsID.Name] = ""
						} else {
							en[lhsID.Name] = p + "/*"
						}
						continue
					}
				}
				// v := slices.Clone(e) | v := make([]T, len(e))
				if ce, ok := s.Rhs[0].(*ast.CallExpr); ok && s.Tok == token.DEFINE && lhsIsIdent {
					callee := types.ExprString(ce.Fun)
					if callee == "slices.Clone" && len(ce.Args) == 1 {
						if p, ok := pathOf(ce.Args[0], en); ok {
							en[lhsID.Name] = p
							mark(p)
							continue
						}
					}
					if callee == "make" && len(ce.Args) >= 2 {
						if le, ok := ce.Args[1].(*ast.CallExpr); ok && types.ExprString(le.Fun) == "len" && len(le.Args) == 1 {
							if p, ok := pathOf(le.Args[0], en); ok {
								en[lhsID.Name] = p
								mark(p)
								continue
							}
						}
					}
				}
				lp, lok := pathOf(s.Lhs[0], en)
				if !lok {
					fail("%s: cannot read the left-hand side %s at %s", fn, types.ExprString(s.Lhs[0]), L.pos(s))
					continue
				}
				switch r := s.Rhs[0].(type) {
				case *ast.CallExpr:
					callee := types.ExprString(r.Fun)
					switch {
					case callee == "slices.Clone" && len(r.Args) == 1:
						if rp, ok := pathOf(r.Args[0], en); ok && rp == lp {
							mark(lp)
						} else {
							fail("%s: %s = slices.Clone(%s): source and destination differ", fn, types.ExprString(s.Lhs[0]), types.ExprString(r.Args[0]))
						}
					case callee == "deepCopyPolicy" && len(r.Args) == 1:
						if rp, ok := pathOf(r.Args[0], en); ok && rp == lp {
							if fn == "deepCopyPolicy" {
								break // recursion on the children: same locations one level down
							}
							for _, pp := range policyPaths {
								mark(lp + "/" + pp)
							}
						} else {
							fail("%s: deepCopyPolicy source and destination differ at %s", fn, L.pos(s))
						}
					case strings.HasSuffix(callee, ".Copy") && len(r.Args) == 0:
						se := r.Fun.(*ast.SelectorExpr)
						if rp, ok := pathOf(se.X, en); ok && rp == lp {
							for _, cp := range copyPaths(namedOf(se.X), 0) {
								mark(lp + "/" + cp)
							}
						} else {
							fail("%s: Copy source and destination differ at %s", fn, L.pos(s))
						}
					default:
						fail("%s: unexpected call %s at %s", fn, rhsStr, L.pos(s))
					}
				case *ast.UnaryExpr: // x = &v
					if r.Op != token.AND {
						fail("%s: unexpected expression %s", fn, rhsStr)
						continue
					}
					vp, ok := pathOf(r.X, en)
					if !ok || !strings.HasSuffix(vp, "/*") {
						fail("%s: &%s is not the address of a copied pointee", fn, types.ExprString(r.X))
						continue
					}
					ptrLoc := strings.TrimSuffix(vp, "/*")
					if ptrLoc != lp && !strings.HasPrefix(ptrLoc, lp+"/(") {
						fail("%s: %s = &%s stores the copy of %s elsewhere", fn, types.ExprString(s.Lhs[0]), types.ExprString(r.X), ptrLoc)
						continue
					}
					mark(ptrLoc)
				case *ast.Ident:
					if r.Name == "nil" {
						continue // `of = nil` keeps nil-ness
					}
					// t.PublicKeys = pks  (storing a clone made above)
					if vp, ok := en[r.Name]; ok && vp == lp {
						continue
					}
					fail("%s: unexpected assignment %s = %s", fn, types.ExprString(s.Lhs[0]), rhsStr)
				default:
					fail("%s: unexpected assignment %s = %s at %s", fn, types.ExprString(s.Lhs[0]), rhsStr, L.pos(s))
				}
			case *ast.RangeStmt:
				interp(fn, s.Body.List, en, mark)
			case *ast.ForStmt:
				interp(fn, s.Body.List, en, mark)
			case *ast.IfStmt:
				interp(fn, s.Body.List, en, mark)
				if s.Else != nil {
					fail("%s: unexpected else at %s", fn, L.pos(s))
				}
			case *ast.TypeSwitchStmt:
				// switch v := X.(type)
				var vname string
				var subj ast.Expr
				switch a := s.Assign.(type) {
				case *ast.AssignStmt:
					vname = a.Lhs[0].(*ast.Ident).Name
					subj = a.Rhs[0].(*ast.TypeAssertExpr).X
				case *ast.ExprStmt:
					subj = a.X.(*ast.TypeAssertExpr).X
				}
				sp, ok := pathOf(subj, en)
				if !ok {
					fail("%s: cannot read the type-switch subject at %s", fn, L.pos(s))
					continue
				}
				for _, cc := range s.Body.List {
					c := cc.(*ast.CaseClause)
					if len(c.List) != 1 {
						if len(c.List) == 0 { // default
							for _, b := range c.Body {
								if _, isRet := b.(*ast.ReturnStmt); !isRet {
									fail("%s: default clause does more than return at %s", fn, L.pos(b))
								}
							}
						}
						continue
					}
					seg := "(" + strings.ReplaceAll(types.ExprString(c.List[0]), " ", "") + ")"
					en2 := env{}
					for k, v := range en {
						en2[k] = v
					}
					if vname != "" {
						if sp == "" {
							en2[vname] = seg
						} else {
							en2[vname] = sp + "/" + seg
						}
					}
					interp(fn, c.Body, en2, mark)
				}
			case *ast.ReturnStmt, *ast.DeclStmt:
			default:
				fail("%s: unexpected statement at %s", fn, L.pos(st))
			}
		}
	}
	// deepCopyPolicy first (relative to the policy value `p`)
	if fd := tfn("deepCopyPolicy"); fd != nil {
		pm := map[string]bool{}
		interp("deepCopyPolicy", fd.Body.List, env{"p": ""}, func(p string) { pm[p] = true })
		for p := range pm {
			policyPaths = append(policyPaths, p)
		}
		sort.Strings(policyPaths)
		emitStrs("policyCloned", policyPaths, "locations deepCopyPolicy clones, relative to the SpendPolicy")
	}
	if fd := tfn("V2Transaction.DeepCopy"); fd != nil && fd.Recv != nil && len(fd.Recv.List[0].Names) == 1 {
		recv := fd.Recv.List[0].Names[0].Name
		interp("DeepCopy", fd.Body.List, env{recv: ""}, func(p string) { cloned[p] = true })
	}
	var cl []string
	for p := range cloned {
		cl = append(cl, p)
	}
	sort.Strings(cl)
	emitStrs("deepCopyCloned", cl, "every location V2Transaction.DeepCopy replaces by a fresh copy")
	for _, tn := range []string{"StateElement", "SiacoinElement", "SiafundElement", "FileContractElement", "V2FileContractElement", "ChainIndexElement", "AttestationElement"} {
		emitStrs("copy_"+tn, copyPaths(tn, 0), "locations "+tn+".Copy clones, relative to the element")
	}

	// ---------------------------------------------------------------- multiproof: copy before strip
	if fd := tfn("V2TransactionsMultiproof.EncodeTo"); fd != nil {
		var order []string
		ast.Inspect(fd.Body, func(n ast.Node) bool {
			switch x := n.(type) {
			case *ast.CallExpr:
				s := types.ExprString(x.Fun)
				if strings.HasSuffix(s, ".DeepCopy") {
					order = append(order, "deepcopy:"+types.ExprString(x.Fun.(*ast.SelectorExpr).X))
				}
				if s == "forEachElementLeaf" && len(x.Args) > 0 {
					order = append(order, "foreach:"+types.ExprString(x.Args[0]))
				}
				if s == "computeMultiproof" && len(x.Args) > 0 {
					order = append(order, "multiproof:"+types.ExprString(x.Args[0]))
				}
			case *ast.AssignStmt:
				if len(x.Lhs) == 1 && len(x.Rhs) == 1 && types.ExprString(x.Rhs[0]) == "nil" {
					order = append(order, "strip:"+types.ExprString(x.Lhs[0]))
				}
			}
			return true
		})
		emitStrs("multiproofEncodeShape", order, "V2TransactionsMultiproof.EncodeTo: the deep copy, the loop that strips proofs, and what the multiproof is computed from, in source order")
	}
	if fd := tfn("forEachElementLeaf"); fd != nil {
		var leaves []string
		ast.Inspect(fd.Body, func(n ast.Node) bool {
			if ue, ok := n.(*ast.UnaryExpr); ok && ue.Op == token.AND {
				leaves = append(leaves, types.ExprString(ue.X))
			}
			return true
		})
		emitStrs("multiproofLeaves", leaves, "forEachElementLeaf: the elements whose proofs the multiproof codec strips and restores")
	}

	sb.WriteString("\nend Gen.FactsAlias\n")
	return sb.String(), rep, errs
}
