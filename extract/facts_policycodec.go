package main

// T-facts of the SpendPolicy binary codec (C11): the opcode constants of
// `encodePolicy` and of `SpendPolicy.DecodeFrom` (two separate iota blocks in the
// code), the version constants, `maxPolicyDepth`, the depth check and the integer
// type that counts a threshold's sub-policies. (extract/facts_policy.go — policy
// semantics, property C14 — belongs to the policy check and is not touched.)

import (
	"fmt"
	"go/ast"
	"go/constant"
	"go/token"
	"go/types"
	"strings"
)

func init() { registerFacts("FactsPolicyCodec", genPolicyCodec) }

func genPolicyCodec(L *loader) (string, any, []string) {
	var errs []string
	fail := func(f string, a ...any) { errs = append(errs, "schema policy codec: "+fmt.Sprintf(f, a...)) }
	var sb strings.Builder
	sb.WriteString("/-! T-facts of the SpendPolicy binary codec (see extract/facts_policycodec.go). -/\nnamespace Sia.Codec.Gen.PolicyCodec\n\n")
	constsOf := func(fd *ast.FuncDecl) (ops []string, version string) {
		if fd == nil {
			return
		}
		ast.Inspect(fd.Body, func(n ast.Node) bool {
			gd, ok := n.(*ast.GenDecl)
			if !ok || gd.Tok != token.CONST {
				return true
			}
			for _, sp := range gd.Specs {
				vs := sp.(*ast.ValueSpec)
				for _, name := range vs.Names {
					obj, ok := L.info.Defs[name].(*types.Const)
					if !ok {
						continue
					}
					v := constant.ToInt(obj.Val())
					if v.Kind() != constant.Int {
						continue
					}
					if name.Name == "version" {
						version = v.ExactString()
					} else if strings.HasPrefix(name.Name, "op") {
						ops = append(ops, fmt.Sprintf("(%q, %s)", name.Name, v.ExactString()))
					}
				}
			}
			return true
		})
		return
	}
	tp := coreMod + "/types."
	encOps, _ := constsOf(L.funcs[tp+"SpendPolicy.encodePolicy"])
	_, encVer := constsOf(L.funcs[tp+"SpendPolicy.EncodeTo"])
	decOps, decVer := constsOf(L.funcs[tp+"SpendPolicy.DecodeFrom"])
	if len(encOps) == 0 || len(decOps) == 0 || encVer == "" || decVer == "" {
		fail("opcode / version constants not found (enc %d ops, version %q; dec %d ops, version %q)", len(encOps), encVer, len(decOps), decVer)
	}
	if encVer == "" {
		encVer = "0"
	}
	if decVer == "" {
		decVer = "0"
	}
	sb.WriteString("/-- `encodePolicy`: opcode constants -/\ndef opcodesEnc : List (String × Nat) := [" + strings.Join(encOps, ", ") + "]\n")
	sb.WriteString("/-- `SpendPolicy.DecodeFrom`: opcode constants -/\ndef opcodesDec : List (String × Nat) := [" + strings.Join(decOps, ", ") + "]\n")
	sb.WriteString("def versionEnc : Nat := " + encVer + "\ndef versionDec : Nat := " + decVer + "\n")
	// maxPolicyDepth and its use
	depth := "0"
	if pkg := L.pkgs[coreMod+"/types"]; pkg != nil {
		if c, ok := pkg.Scope().Lookup("maxPolicyDepth").(*types.Const); ok {
			depth = constant.ToInt(c.Val()).ExactString()
		} else {
			fail("maxPolicyDepth not found")
		}
	}
	sb.WriteString("def maxPolicyDepth : Nat := " + depth + "\n")
	var checks, counts, calls []string
	if fd := L.funcs[tp+"SpendPolicy.DecodeFrom"]; fd != nil {
		ast.Inspect(fd.Body, func(n ast.Node) bool {
			switch x := n.(type) {
			case *ast.BinaryExpr:
				if s := exprText(L, x); strings.Contains(s, "maxPolicyDepth") {
					checks = append(checks, fmt.Sprintf("%q", s))
				}
			case *ast.CallExpr:
				s := exprText(L, x)
				if id, ok := x.Fun.(*ast.Ident); ok && id.Name == "make" {
					counts = append(counts, fmt.Sprintf("%q", s))
				}
				if id, ok := x.Fun.(*ast.Ident); ok && id.Name == "readPolicy" {
					calls = append(calls, fmt.Sprintf("%q", s))
				}
			}
			return true
		})
	}
	sb.WriteString("/-- the depth check of `readPolicy` -/\ndef depthChecks : List String := [" + strings.Join(checks, ", ") + "]\n")
	sb.WriteString("/-- how the sub-policy slice of a threshold is sized -/\ndef thresholdAlloc : List String := [" + strings.Join(counts, ", ") + "]\n")
	sb.WriteString("/-- the calls of `readPolicy` (root at depth 0, children one deeper) -/\ndef readPolicyCalls : List String := [" + strings.Join(calls, ", ") + "]\n")
	sb.WriteString("\nend Sia.Codec.Gen.PolicyCodec\n")
	return sb.String(), map[string]any{"ops": len(encOps)}, errs
}

func exprText(L *loader, n ast.Node) string {
	g := &frGen{L: L}
	return g.text(n)
}
