package main

func runFacts(L *loader) (map[string]string, any, []string) {
	return map[string]string{}, nil, nil
}
