package main

// T-facts / T-schema generators register themselves here (one Go file per area,
// `func init() { registerFacts("FactsXyz", genXyz) }`). Each returns the Lean
// source of module SiaModel.Gen.<name> (without the header line), a JSON-able
// report, and a list of errors (a broken tie — never silently skipped).

import "sort"

type factGen func(L *loader) (leanSrc string, report any, errs []string)

var factGens = map[string]factGen{}

func registerFacts(name string, g factGen) { factGens[name] = g }

func runFacts(L *loader) (map[string]string, any, []string) {
	out := map[string]string{}
	rep := map[string]any{}
	var errs []string
	var names []string
	for n := range factGens {
		names = append(names, n)
	}
	sort.Strings(names)
	for _, n := range names {
		src, r, e := factGens[n](L)
		out[n] = src
		rep[n] = r
		errs = append(errs, e...)
	}
	return out, rep, errs
}
