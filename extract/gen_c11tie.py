#!/usr/bin/env python3
"""One-off helper (NOT run by ./check): prints lean/SiaProofs/Props/C11Tie.lean from the
extractor's report, i.e. freezes the list of regular codec types into per-type tie
theorems. Re-run by hand (and review the diff) when codec types are added or removed:
    python3 extract/gen_c11tie.py > lean/SiaProofs/Props/C11Tie.lean
The allow-list of non-transmitted fields and the wire-spec table below are the
committed, hand-maintained part."""
import json, os, sys
root = os.path.dirname(os.path.dirname(os.path.abspath(__file__)))
rep = json.load(open(os.path.join(root, "lean/SiaModel/Gen/report.json")))["facts"]["FactsSchema"]
regular = [u["name"] for u in rep["units"] if u["status"] == "regular"]
irregular = sorted(u["name"] for u in rep["units"] if u["status"] == "irregular")

# documented non-transmitted fields: (type, field, why)
ALLOW = [
    ("Consensus_State", "Network", "network parameters are not encoded (struct comment)"),
    ("Rhp3_InstrReadRegistryNoVersion", "Version", "pre-1.5.7 form: version implied (decoder sets 1)"),
    ("Rhp3_InstrUpdateRegistryNoType", "EntryType", "pre-1.5.7 form: entry type implied (decoder sets arbitrary)"),
    ("Types_FileContractRevision.FileContract", "Payout", "a revision cannot change the payout; decoder sets the sentinel"),
    ("Types_StateElement", "shared", "in-memory aliasing guard, never on the wire"),
    ("Types_V1Block", "V2", "V1Block is the v1 (pre-hardfork) encoding of a Block; V2Block adds the v2 part"),
]
# consensus-critical objects: generated schema name -> hand-written layout in Codec/Spec.lean
WIRE = [
    ("Types_Hash256", "hash32"), ("Types_BlockID", "hash32"), ("Types_TransactionID", "hash32"),
    ("Types_Address", "hash32"), ("Types_PublicKey", "hash32"), ("Types_SiacoinOutputID", "hash32"),
    ("Types_SiafundOutputID", "hash32"), ("Types_FileContractID", "hash32"), ("Types_AttestationID", "hash32"),
    ("Types_Signature", "signature"), ("Types_Specifier", "specifier"),
    ("Types_V2Currency", "v2Currency"), ("Types_ChainIndex", "chainIndex"),
    ("Types_UnlockKey", "unlockKey"), ("Types_UnlockConditions", "unlockConditions"),
    ("Types_V1SiacoinOutput", "v1SiacoinOutput"), ("Types_V1SiafundOutput", "v1SiafundOutput"),
    ("Types_SiacoinInput", "siacoinInput"), ("Types_SiafundInput", "siafundInput"),
    ("Types_FileContract", "fileContract"), ("Types_FileContractRevision", "fileContractRevision"),
    ("Types_StorageProof", "storageProof"), ("Types_FoundationAddressUpdate", "foundationAddressUpdate"),
    ("Types_CoveredFields", "coveredFields"), ("Types_TransactionSignature", "transactionSignature"),
    ("Types_Transaction", "transaction"), ("Types_BlockHeader", "blockHeader"),
    ("Types_V1Block", "v1Block"), ("Types_V2BlockData", "v2BlockData"), ("Types_V2Block", "v2Block"),
    ("Types_V2SiacoinOutput", "v2SiacoinOutput"), ("Types_V2SiafundOutput", "v2SiafundOutput"),
    ("Types_StateElement", "stateElement"), ("Types_ChainIndexElement", "chainIndexElement"),
    ("Types_SiacoinElement", "siacoinElement"), ("Types_SiafundElement", "siafundElement"),
    ("Types_FileContractElement", "fileContractElement"), ("Types_V2FileContract", "v2FileContract"),
    ("Types_V2FileContractElement", "v2FileContractElement"), ("Types_SatisfiedPolicy", "satisfiedPolicy"),
    ("Types_V2SiacoinInput", "v2SiacoinInput"), ("Types_V2SiafundInput", "v2SiafundInput"),
    ("Types_V2FileContractRevision", "v2FileContractRevision"), ("Types_V2FileContractRenewal", "v2FileContractRenewal"),
    ("Types_V2StorageProof", "v2StorageProof"), ("Types_V2FileContractExpiration", "v2FileContractExpiration"),
    ("Types_Attestation", "attestation"), ("Consensus_Work", "work"),
    ("Consensus_V1StorageProofSupplement", "v1StorageProofSupplement"),
    ("Consensus_V1TransactionSupplement", "v1TransactionSupplement"),
    ("Consensus_V1BlockSupplement", "v1BlockSupplement"),
    ("Consensus_ElementAccumulator", "elementAccumulator"), ("Consensus_State", "state"),
]
def q(s): return '"' + s + '"'
out = []
w = out.append
w("import SiaModel.Gen.FactsSchema")
w("import SiaModel.Codec.Spec")
w("import SiaProofs.Props.C11")
w("/-!")
w("# C11 ties — the generated schemas (what the code says now) against the model's assumptions")
w("")
w("`SiaModel/Gen/FactsSchema.lean` is regenerated from the `EncodeTo`/`DecodeFrom` bodies on every")
w("run. For every regular codec type: `tie_symmetric_T` (encoder schema = decoder schema),")
w("`tie_fields_complete_T` (every declared struct field is transmitted, minus the committed")
w("allow-list `nonTransmitted`), and for consensus-critical objects `tie_wire_T` (= the")
w("hand-written layout of `Codec/Spec.lean`). The `tie_all_*` theorems quantify over the")
w("generated tables, so a codec type added later is covered without editing this file.")
w("(Per-type part printed by extract/gen_c11tie.py; allow-list and wire table are hand-maintained.)")
w("-/")
w("namespace C11")
w("open Sia.Codec Sia.Codec.Gen")
w("")
w("/-- Documented fields that are deliberately NOT transmitted. `missingFields` (generated: the")
w("declared struct fields of each codec type that no encoder label mentions) must be exactly this. -/")
w("def nonTransmitted : List (String × List String) := [")
for i, (t, f, why) in enumerate(ALLOW):
    w(f"  ({q(t)}, [{q(f)}]){',' if i < len(ALLOW)-1 else ''}  -- {why}")
w("]")
w("")
w("/-! ## list-wide ties (cover every codec the extractor finds, now or later) -/")
w("")
w("theorem tie_all_symmetric : (allSchemas.all fun t => t.2.1 == t.2.2) = true := by decide +kernel")
w("")
w("/-- slice elements occupy ≥ 1 byte and nothing allocates from an unchecked prefix, so the")
w("hypotheses `wf`/`guarded` of the generic theorems hold for every generated schema -/")
w("theorem tie_all_wf_guarded :")
w("    (allSchemas.all fun t => t.2.1.wf Env.default && t.2.1.guarded Env.default) = true := by decide +kernel")
w("")
w("/-- **field completeness**: every declared field of every codec type is transmitted,")
w("except exactly the documented ones -/")
w("theorem tie_all_fields_complete : missingFields = nonTransmitted := rfl")
w("")
w("/-- the decoder sets exactly these fields without reading the stream (all allow-listed above) -/")
w("theorem tie_decoder_constants : decoderConstants = [")
w('    ("Rhp3_InstrReadRegistryNoVersion", ["Version"]),')
w('    ("Rhp3_InstrUpdateRegistryNoType", ["EntryType"]),')
w('    ("Types_FileContractRevision", ["FileContract.Payout"])] := rfl')
w("")
w("/-- the codecs that are not regular are exactly the committed list (hand-modelled / oracle-only) -/")
w("theorem tie_irregular_list : irregularCodecs = [")
for i, n in enumerate(irregular):
    w(f"    {q(n)}{',' if i < len(irregular)-1 else ''}")
w("  ] := rfl")
w("")
w("/-- number of regular codecs at the pinned commit (a removed codec shows up here) -/")
w(f"theorem tie_regular_count : allSchemas.length = {len(regular)} := by decide +kernel")
w("")
w("/-! ## the generic theorems instantiated: they apply to every generated schema -/")
w("")
w("/-- every generated schema satisfies the hypotheses of `c11_roundtrip` & co. -/")
w("theorem tie_generic_applies (n : String) (e d : Sch) (h : (n, e, d) ∈ allSchemas) :")
w("    e = d ∧ e.wf Env.default = true ∧ e.guarded Env.default = true := by")
w("  have h1 := List.all_eq_true.mp tie_all_symmetric _ h")
w("  have h2 := List.all_eq_true.mp tie_all_wf_guarded _ h")
w("  simp only [Bool.and_eq_true] at h2")
w("  exact ⟨by simpa using h1, h2.1, h2.2⟩")
w("")
w("/-! ## wire layout of consensus-critical objects -/")
w("")
for t, sp in WIRE:
    w(f"theorem tie_wire_{t} : encSchema_{t} = Spec.{sp} := rfl")
w("")
w("/-! ## per type: encoder/decoder symmetry and field completeness -/")
w("")
types_seen = []
for n in regular:
    w(f"theorem tie_symmetric_{n} : encSchema_{n} = decSchema_{n} := rfl")
w("")
tkeys = []
for n in regular:
    base = n
    for suf in ("_Request", "_Response"):
        if n.endswith(suf): base = n[: -len(suf)]
    if base not in tkeys: tkeys.append(base)
units = {}
for n in regular:
    base = n
    for suf in ("_Request", "_Response"):
        if n.endswith(suf): base = n[: -len(suf)]
    units.setdefault(base, []).append(n)
for t in tkeys:
    es = ", ".join("encSchema_" + u for u in units[t])
    al = [f for (tt, f, _) in ALLOW if tt == t]
    w(f"theorem tie_fields_complete_{t} : missing_{t} = [{', '.join(q(f) for f in al)}] := rfl")
w("")
w("end C11")
print("\n".join(out))
