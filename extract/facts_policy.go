package main

// T-facts for C14 (spend policies): complexity limits, opcode tables, version bytes,
// the comparison at each lock, the address distinguisher, the key-algorithm
// specifiers and the two precomputed leaf hashes of StandardUnlockHash.
// Everything is read from the syntax tree of /repo's working tree; a fact that
// cannot be found is an error (broken tie), never skipped.

import (
	"fmt"
	"go/ast"
	"go/constant"
	"go/token"
	"go/types"
	"sort"
	"strings"
)

func init() { registerFacts("FactsPolicy", genFactsPolicy) }

func genFactsPolicy(L *loader) (string, any, []string) {
	const pkg = coreMod + "/types"
	var errs []string
	fail := func(f string, a ...any) { errs = append(errs, "FactsPolicy: "+fmt.Sprintf(f, a...)) }
	rep := map[string]any{}
	var sb strings.Builder
	sb.WriteString("namespace Gen.FactsPolicy\n\n")
	emitNat := func(name string, v int64, src string) {
		fmt.Fprintf(&sb, "/-- %s -/\ndef %s : Nat := %d\n", src, name, v)
		rep[name] = v
	}
	emitStr := func(name, v, src string) {
		fmt.Fprintf(&sb, "/-- %s -/\ndef %s : String := %q\n", src, name, v)
		rep[name] = v
	}

	constVal := func(id *ast.Ident) (int64, bool) {
		if o, ok := L.info.Defs[id].(*types.Const); ok {
			if v, ok := constant.Int64Val(constant.ToInt(o.Val())); ok {
				return v, true
			}
		}
		return 0, false
	}
	// all constants declared (at any depth) inside a function body / at package level
	localConsts := func(n ast.Node) map[string]int64 {
		m := map[string]int64{}
		ast.Inspect(n, func(x ast.Node) bool {
			if gd, ok := x.(*ast.GenDecl); ok && gd.Tok == token.CONST {
				for _, s := range gd.Specs {
					for _, id := range s.(*ast.ValueSpec).Names {
						if v, ok := constVal(id); ok {
							m[id.Name] = v
						}
					}
				}
			}
			return true
		})
		return m
	}
	constOrder := func(n ast.Node) []string {
		var names []string
		ast.Inspect(n, func(x ast.Node) bool {
			if gd, ok := x.(*ast.GenDecl); ok && gd.Tok == token.CONST {
				for _, s := range gd.Specs {
					for _, id := range s.(*ast.ValueSpec).Names {
						names = append(names, id.Name)
					}
				}
			}
			return true
		})
		return names
	}

	// ---- package-level maxPolicyDepth
	found := false
	for _, f := range L.files[pkg] {
		for _, d := range f.Decls {
			if gd, ok := d.(*ast.GenDecl); ok && gd.Tok == token.CONST {
				for _, s := range gd.Specs {
					for _, id := range s.(*ast.ValueSpec).Names {
						if id.Name == "maxPolicyDepth" {
							if v, ok := constVal(id); ok {
								emitNat("maxPolicyDepth", v, "types/encoding.go: const maxPolicyDepth")
								found = true
							}
						}
					}
				}
			}
		}
	}
	if !found {
		fail("constant types.maxPolicyDepth not found")
	}

	// ---- Verify: maxPolicies, the child bound, lock comparisons
	if fd := L.funcs[pkg+".SpendPolicy.Verify"]; fd == nil {
		fail("types.SpendPolicy.Verify not found")
	} else {
		cs := localConsts(fd.Body)
		if v, ok := cs["maxPolicies"]; ok {
			emitNat("maxPolicies", v, "SpendPolicy.Verify: const maxPolicies")
		} else {
			fail("types.SpendPolicy.Verify: const maxPolicies not found")
		}
		// the complexity condition: totalPolicies > maxPolicies || len(p.Of) > K
		var complexity, aboveCond, afterCond string
		var childBound int64 = -1
		ast.Inspect(fd.Body, func(x ast.Node) bool {
			ifs, ok := x.(*ast.IfStmt)
			if !ok {
				return true
			}
			s := types.ExprString(ifs.Cond)
			if be, ok := ifs.Cond.(*ast.BinaryExpr); ok && be.Op == token.LOR && strings.Contains(s, "maxPolicies") {
				complexity = s
				if r, ok := be.Y.(*ast.BinaryExpr); ok && r.Op == token.GTR {
					if tv, ok := L.info.Types[r.Y]; ok && tv.Value != nil {
						if v, ok := constant.Int64Val(constant.ToInt(tv.Value)); ok {
							childBound = v
						}
					}
				}
			}
			return true
		})
		// the lock comparisons are the conditions of the first `if` in the respective type-switch clauses
		ast.Inspect(fd.Body, func(x ast.Node) bool {
			cc, ok := x.(*ast.CaseClause)
			if !ok || len(cc.List) != 1 || len(cc.Body) == 0 {
				return true
			}
			id, ok := cc.List[0].(*ast.Ident)
			if !ok {
				return true
			}
			ifs, ok := cc.Body[0].(*ast.IfStmt)
			if !ok {
				return true
			}
			switch id.Name {
			case "PolicyTypeAbove":
				aboveCond = types.ExprString(ifs.Cond)
			case "PolicyTypeAfter":
				afterCond = types.ExprString(ifs.Cond)
			}
			return true
		})
		if childBound < 0 {
			fail("types.SpendPolicy.Verify: complexity condition `totalPolicies > maxPolicies || len(p.Of) > K` not found")
		} else {
			emitNat("maxChildren", childBound, "SpendPolicy.Verify: "+complexity)
			emitStr("complexityCond", complexity, "SpendPolicy.Verify")
		}
		if aboveCond == "" {
			fail("types.SpendPolicy.Verify: PolicyTypeAbove condition not found")
		} else {
			emitStr("aboveCond", aboveCond, "SpendPolicy.Verify, case PolicyTypeAbove: accept when")
		}
		if afterCond == "" {
			fail("types.SpendPolicy.Verify: PolicyTypeAfter condition not found")
		} else {
			emitStr("afterCond", afterCond, "SpendPolicy.Verify, case PolicyTypeAfter: accept when")
		}
	}

	// ---- opcode tables and version bytes
	opTable := func(fn, defName, verName string) {
		fd := L.funcs[pkg+"."+fn]
		if fd == nil {
			fail("types.%s not found", fn)
			return
		}
		cs := localConsts(fd.Body)
		var names []string
		for _, n := range constOrder(fd.Body) {
			if strings.HasPrefix(n, "op") {
				names = append(names, n)
			}
		}
		if len(names) == 0 {
			fail("types.%s: no opcode constants", fn)
			return
		}
		sort.SliceStable(names, func(i, j int) bool { return cs[names[i]] < cs[names[j]] })
		var items []string
		for _, n := range names {
			items = append(items, fmt.Sprintf("(%q, %d)", n, cs[n]))
		}
		fmt.Fprintf(&sb, "/-- types.%s: opcode constants -/\ndef %s : List (String × Nat) := [%s]\n", fn, defName, strings.Join(items, ", "))
		rep[defName] = items
		if verName != "" {
			if v, ok := cs["version"]; ok {
				emitNat(verName, v, "types."+fn+": const version")
			} else {
				fail("types.%s: const version not found", fn)
			}
		}
	}
	opTable("SpendPolicy.encodePolicy", "encOpcodes", "")
	opTable("SpendPolicy.DecodeFrom", "decOpcodes", "decVersion")
	if fd := L.funcs[pkg+".SpendPolicy.EncodeTo"]; fd == nil {
		fail("types.SpendPolicy.EncodeTo not found")
	} else if v, ok := localConsts(fd.Body)["version"]; ok {
		emitNat("encVersion", v, "types.SpendPolicy.EncodeTo: const version")
	} else {
		fail("types.SpendPolicy.EncodeTo: const version not found")
	}

	// which opcode each policy type writes first (encodePolicy) / which opcode builds which type (DecodeFrom)
	if fd := L.funcs[pkg+".SpendPolicy.encodePolicy"]; fd != nil {
		var items []string
		ast.Inspect(fd.Body, func(x ast.Node) bool {
			cc, ok := x.(*ast.CaseClause)
			if !ok || len(cc.List) != 1 || len(cc.Body) == 0 {
				return true
			}
			id, ok := cc.List[0].(*ast.Ident)
			if !ok {
				return true
			}
			if es, ok := cc.Body[0].(*ast.ExprStmt); ok {
				if call, ok := es.X.(*ast.CallExpr); ok && len(call.Args) == 1 {
					if sel, ok := call.Fun.(*ast.SelectorExpr); ok && sel.Sel.Name == "WriteUint8" {
						items = append(items, fmt.Sprintf("(%q, %q)", id.Name, types.ExprString(call.Args[0])))
					}
				}
			}
			return true
		})
		if len(items) == 0 {
			fail("types.SpendPolicy.encodePolicy: no `case T: e.WriteUint8(op)` clauses found")
		}
		fmt.Fprintf(&sb, "/-- encodePolicy: first byte written per policy type -/\ndef encFirstOp : List (String × String) := [%s]\n", strings.Join(items, ", "))
		rep["encFirstOp"] = items
	}

	// ---- Address: distinguisher
	if fd := L.funcs[pkg+".SpendPolicy.Address"]; fd == nil {
		fail("types.SpendPolicy.Address not found")
	} else {
		dist := ""
		ast.Inspect(fd.Body, func(x ast.Node) bool {
			if call, ok := x.(*ast.CallExpr); ok && len(call.Args) == 1 {
				if sel, ok := call.Fun.(*ast.SelectorExpr); ok && sel.Sel.Name == "WriteDistinguisher" {
					if tv, ok := L.info.Types[call.Args[0]]; ok && tv.Value != nil && tv.Value.Kind() == constant.String {
						dist = constant.StringVal(tv.Value)
					}
				}
			}
			return true
		})
		if dist == "" {
			fail("types.SpendPolicy.Address: WriteDistinguisher(<const>) not found")
		} else {
			emitStr("addressDistinguisher", dist, "SpendPolicy.Address: h.WriteDistinguisher")
		}
	}
	if fd := L.funcs[pkg+".Hasher.WriteDistinguisher"]; fd == nil {
		fail("types.Hasher.WriteDistinguisher not found")
	} else {
		shape := ""
		ast.Inspect(fd.Body, func(x ast.Node) bool {
			if be, ok := x.(*ast.BinaryExpr); ok && be.Op == token.ADD && shape == "" {
				shape = types.ExprString(be)
			}
			return true
		})
		if shape == "" {
			fail("types.Hasher.WriteDistinguisher: concatenation not found")
		} else {
			emitStr("distinguisherShape", shape, "Hasher.WriteDistinguisher")
		}
	}

	// ---- specifiers
	specOf := func(name string) {
		for _, f := range L.files[pkg] {
			for _, d := range f.Decls {
				gd, ok := d.(*ast.GenDecl)
				if !ok || gd.Tok != token.VAR {
					continue
				}
				for _, s := range gd.Specs {
					vs := s.(*ast.ValueSpec)
					for i, id := range vs.Names {
						if id.Name != name || i >= len(vs.Values) {
							continue
						}
						if call, ok := vs.Values[i].(*ast.CallExpr); ok && len(call.Args) == 1 {
							if tv, ok := L.info.Types[call.Args[0]]; ok && tv.Value != nil && tv.Value.Kind() == constant.String {
								emitStr(strings.ToLower(name[:1])+name[1:], constant.StringVal(tv.Value), "types."+name+" = NewSpecifier(..)")
								return
							}
						}
					}
				}
			}
		}
		fail("types.%s = NewSpecifier(<const>) not found", name)
	}
	specOf("SpecifierEd25519")
	specOf("SpecifierEntropy")

	// ---- the two precomputed leaf hashes in StandardUnlockHash, and the StandardAddress bytes
	if fd := L.funcs[pkg+".StandardUnlockHash"]; fd == nil {
		fail("types.StandardUnlockHash not found")
	} else {
		got := map[string]string{}
		ast.Inspect(fd.Body, func(x ast.Node) bool {
			as, ok := x.(*ast.AssignStmt)
			if !ok || len(as.Lhs) != 1 || len(as.Rhs) != 1 {
				return true
			}
			id, ok := as.Lhs[0].(*ast.Ident)
			if !ok {
				return true
			}
			cl, ok := as.Rhs[0].(*ast.CompositeLit)
			if !ok {
				return true
			}
			var hx strings.Builder
			for _, e := range cl.Elts {
				tv, ok := L.info.Types[e]
				if !ok || tv.Value == nil {
					return true
				}
				v, _ := constant.Int64Val(constant.ToInt(tv.Value))
				fmt.Fprintf(&hx, "%02x", v)
			}
			got[id.Name] = hx.String()
			return true
		})
		for _, n := range []string{"timelockHash", "sigsrequiredHash"} {
			if len(got[n]) != 64 {
				fail("types.StandardUnlockHash: 32-byte literal %s not found", n)
			} else {
				emitStr(n+"Hex", got[n], "StandardUnlockHash: precomputed "+n)
			}
		}
	}
	if fd := L.funcs[pkg+".StandardAddress"]; fd == nil {
		fail("types.StandardAddress not found")
	} else {
		// buf[12] = <version>; buf[13] = <op>; copy(buf, "<prefix>")
		idx := map[int64]int64{}
		prefix := ""
		ast.Inspect(fd.Body, func(x ast.Node) bool {
			switch s := x.(type) {
			case *ast.AssignStmt:
				if len(s.Lhs) == 1 && len(s.Rhs) == 1 {
					if ie, ok := s.Lhs[0].(*ast.IndexExpr); ok {
						ti, ok1 := L.info.Types[ie.Index]
						tv, ok2 := L.info.Types[s.Rhs[0]]
						if ok1 && ok2 && ti.Value != nil && tv.Value != nil {
							i, _ := constant.Int64Val(constant.ToInt(ti.Value))
							v, _ := constant.Int64Val(constant.ToInt(tv.Value))
							idx[i] = v
						}
					}
				}
			case *ast.CallExpr:
				if id, ok := s.Fun.(*ast.Ident); ok && id.Name == "copy" && len(s.Args) == 2 {
					if tv, ok := L.info.Types[s.Args[1]]; ok && tv.Value != nil && tv.Value.Kind() == constant.String {
						prefix = constant.StringVal(tv.Value)
					}
				}
			}
			return true
		})
		v12, ok12 := idx[12]
		v13, ok13 := idx[13]
		if prefix == "" || !ok12 || !ok13 {
			fail("types.StandardAddress: prefix / buf[12] / buf[13] assignments not found")
		} else {
			emitStr("standardAddressPrefix", prefix, "StandardAddress: copy(buf, ..)")
			emitNat("standardAddressVersion", v12, "StandardAddress: buf[12]")
			emitNat("standardAddressOp", v13, "StandardAddress: buf[13]")
		}
	}

	// ---- special cases in the address code: the "standard" fast path(s). For each function
	// that can reach StandardUnlockHash we emit the conjuncts (source text, in order) guarding
	// that return; an absent fast path is the empty list.
	fastPath := func(fn string) ([]string, bool) {
		fd := L.funcs[pkg+"."+fn]
		if fd == nil {
			fail("types.%s not found", fn)
			return nil, false
		}
		var conj func(e ast.Expr) []string
		conj = func(e ast.Expr) []string {
			if p, ok := e.(*ast.ParenExpr); ok {
				return conj(p.X)
			}
			if be, ok := e.(*ast.BinaryExpr); ok && be.Op == token.LAND {
				return append(conj(be.X), conj(be.Y)...)
			}
			return []string{types.ExprString(e)}
		}
		returnsStd := func(n ast.Node) bool {
			found := false
			ast.Inspect(n, func(x ast.Node) bool {
				if rs, ok := x.(*ast.ReturnStmt); ok {
					for _, r := range rs.Results {
						ast.Inspect(r, func(y ast.Node) bool {
							if id, ok := y.(*ast.Ident); ok && id.Name == "StandardUnlockHash" {
								found = true
							}
							return true
						})
					}
				}
				return true
			})
			return found
		}
		var out []string
		var walk func(stmts []ast.Stmt, acc []string)
		walk = func(stmts []ast.Stmt, acc []string) {
			for _, st := range stmts {
				ifs, ok := st.(*ast.IfStmt)
				if !ok || !returnsStd(ifs.Body) {
					continue
				}
				cur := append([]string{}, acc...)
				if ifs.Init != nil {
					if as, ok := ifs.Init.(*ast.AssignStmt); ok && len(as.Lhs) == 1 && len(as.Rhs) == 1 {
						cur = append(cur, types.ExprString(as.Lhs[0])+" := "+types.ExprString(as.Rhs[0]))
					} else {
						cur = append(cur, "<init>")
					}
				}
				cur = append(cur, conj(ifs.Cond)...)
				direct := false
				for _, b := range ifs.Body.List {
					if rs, ok := b.(*ast.ReturnStmt); ok && returnsStd(rs) {
						direct = true
					}
				}
				if direct {
					out = append(out, cur...)
				} else {
					walk(ifs.Body.List, cur)
				}
			}
		}
		walk(fd.Body.List, nil)
		return out, true
	}
	emitList := func(name string, xs []string, src string) {
		var q []string
		for _, x := range xs {
			q = append(q, fmt.Sprintf("%q", x))
		}
		fmt.Fprintf(&sb, "/-- %s -/\ndef %s : List String := [%s]\n", src, name, strings.Join(q, ", "))
		rep[name] = xs
	}
	if xs, ok := fastPath("UnlockConditions.UnlockHash"); ok {
		emitList("unlockHashFastPath", xs, "UnlockConditions.UnlockHash: conjuncts guarding `return StandardUnlockHash(..)` ([] = no fast path)")
	}
	if xs, ok := fastPath("unlockConditionsRoot"); ok {
		emitList("ucRootFastPath", xs, "unlockConditionsRoot: conjuncts guarding `return StandardUnlockHash(..)` ([] = no fast path)")
	}
	if xs, ok := fastPath("SpendPolicy.Address"); ok {
		emitList("addressFastPath", xs, "SpendPolicy.Address: conjuncts guarding `return StandardUnlockHash(..)` ([] = no fast path)")
	}
	// what SpendPolicy.Address returns for a uc policy, and what UnlockHash falls through to
	lastReturn := func(fn string, inFirstIf bool) string {
		fd := L.funcs[pkg+"."+fn]
		if fd == nil {
			return ""
		}
		stmts := fd.Body.List
		if inFirstIf {
			for _, st := range stmts {
				if ifs, ok := st.(*ast.IfStmt); ok {
					stmts = ifs.Body.List
					break
				}
			}
		}
		for i := len(stmts) - 1; i >= 0; i-- {
			if rs, ok := stmts[i].(*ast.ReturnStmt); ok && len(rs.Results) == 1 {
				return types.ExprString(rs.Results[0])
			}
		}
		return ""
	}
	if r := lastReturn("SpendPolicy.Address", true); r == "" {
		fail("types.SpendPolicy.Address: return inside the unlock-conditions special case not found")
	} else {
		emitStr("addressUcReturn", r, "SpendPolicy.Address: value returned for a PolicyTypeUnlockConditions")
	}
	if r := lastReturn("UnlockConditions.UnlockHash", false); r == "" {
		fail("types.UnlockConditions.UnlockHash: final return not found")
	} else {
		emitStr("unlockHashFallthrough", r, "UnlockConditions.UnlockHash: final return")
	}

	// ---- where consensus calls Verify: the loop shape in validateV2Siacoins / validateV2Siafunds
	// and the body of validateV2SpendPolicy. A memo, skip or extra branch changes these facts.
	const cpkg = coreMod + "/consensus"
	stmtCond := func(ifs *ast.IfStmt) string {
		c := types.ExprString(ifs.Cond)
		if ifs.Init != nil {
			if as, ok := ifs.Init.(*ast.AssignStmt); ok && len(as.Lhs) >= 1 && len(as.Rhs) == 1 {
				var lhs []string
				for _, l := range as.Lhs {
					lhs = append(lhs, types.ExprString(l))
				}
				return strings.Join(lhs, ", ") + " " + as.Tok.String() + " " + types.ExprString(as.Rhs[0]) + "; " + c
			}
			return "<init>; " + c
		}
		return c
	}
	if fd := L.funcs[cpkg+".validateV2SpendPolicy"]; fd == nil {
		fail("consensus.validateV2SpendPolicy not found")
	} else {
		var params []string
		for _, fl := range fd.Type.Params.List {
			for _, n := range fl.Names {
				params = append(params, n.Name+" "+types.ExprString(fl.Type))
			}
		}
		emitList("spendPolicyParams", params, "consensus.validateV2SpendPolicy: parameters")
		// the body must be one if/else-if chain followed by `return nil`
		var chain []string
		shape := "other"
		if len(fd.Body.List) == 2 {
			if ifs, ok := fd.Body.List[0].(*ast.IfStmt); ok {
				if rs, ok := fd.Body.List[1].(*ast.ReturnStmt); ok && len(rs.Results) == 1 && types.ExprString(rs.Results[0]) == "nil" {
					shape = "if-chain;return nil"
					for cur := ifs; cur != nil; {
						br := "error"
						if len(cur.Body.List) != 1 {
							br = "other"
						} else if rs, ok := cur.Body.List[0].(*ast.ReturnStmt); !ok || len(rs.Results) != 1 || types.ExprString(rs.Results[0]) == "nil" {
							br = "non-error"
						}
						chain = append(chain, stmtCond(cur)+" => "+br)
						next, _ := cur.Else.(*ast.IfStmt)
						if cur.Else != nil && next == nil {
							chain = append(chain, "else => other")
						}
						cur = next
					}
				}
			}
		}
		emitStr("spendPolicyShape", shape, "consensus.validateV2SpendPolicy: statement shape of the body")
		emitList("spendPolicyChain", chain, "consensus.validateV2SpendPolicy: the branches, in order (condition => what the branch returns)")
	}
	loopFact := func(fn, rng, name string) {
		fd := L.funcs[cpkg+"."+fn]
		if fd == nil {
			fail("consensus.%s not found", fn)
			return
		}
		var facts []string
		calls := 0
		ast.Inspect(fd.Body, func(x ast.Node) bool {
			if c, ok := x.(*ast.CallExpr); ok {
				if id, ok := c.Fun.(*ast.Ident); ok && id.Name == "validateV2SpendPolicy" {
					calls++
				}
			}
			return true
		})
		for _, st := range fd.Body.List {
			rs, ok := st.(*ast.RangeStmt)
			if !ok || types.ExprString(rs.X) != rng {
				continue
			}
			branches := 0
			ast.Inspect(rs.Body, func(x ast.Node) bool {
				if _, ok := x.(*ast.BranchStmt); ok {
					branches++ // continue / break / goto would let an input skip the check
				}
				return true
			})
			for _, b := range rs.Body.List { // direct statements of the loop body only
				ifs, ok := b.(*ast.IfStmt)
				if !ok || ifs.Init == nil {
					continue
				}
				as, ok := ifs.Init.(*ast.AssignStmt)
				if !ok || len(as.Rhs) != 1 {
					continue
				}
				call, ok := as.Rhs[0].(*ast.CallExpr)
				if !ok {
					continue
				}
				if id, ok := call.Fun.(*ast.Ident); ok && id.Name == "validateV2SpendPolicy" {
					facts = append(facts, "for "+types.ExprString(rs.Key)+", "+types.ExprString(rs.Value)+" := range "+rng,
						"unconditional: "+stmtCond(ifs), fmt.Sprintf("continue/break in loop: %d", branches))
				}
			}
		}
		facts = append(facts, fmt.Sprintf("calls in function: %d", calls))
		emitList(name, facts, "consensus."+fn+": the spend-policy check — a direct statement of the range loop over every input")
	}
	loopFact("validateV2Siacoins", "txn.SiacoinInputs", "siacoinPolicyLoop")
	loopFact("validateV2Siafunds", "txn.SiafundInputs", "siafundPolicyLoop")

	sb.WriteString("\nend Gen.FactsPolicy\n")
	return sb.String(), rep, errs
}
