package main

// Loader: parses and type-checks the packages of /repo's *current working tree*
// with go/parser + go/types only (no x/tools dependency, works offline).

import (
	"go/ast"
	"go/importer"
	"go/parser"
	"go/token"
	"go/types"
	"os"
	"path/filepath"
	"sort"
	"strings"
)

const coreMod = "go.sia.tech/core"

type loader struct {
	fset  *token.FileSet
	root  string
	pkgs  map[string]*types.Package
	files map[string][]*ast.File
	std   types.Importer
	info  *types.Info
	// funcs maps "pkgpath.Func" / "pkgpath.Type.Method" to its declaration
	funcs map[string]*ast.FuncDecl
	// typeErrs collects type errors inside core packages (reported, not fatal)
	typeErrs []string
}

func newLoader(root string) *loader {
	fset := token.NewFileSet()
	return &loader{
		fset:  fset,
		root:  root,
		pkgs:  map[string]*types.Package{},
		files: map[string][]*ast.File{},
		std:   importer.ForCompiler(fset, "source", nil),
		info: &types.Info{
			Types:      map[ast.Expr]types.TypeAndValue{},
			Defs:       map[*ast.Ident]types.Object{},
			Uses:       map[*ast.Ident]types.Object{},
			Selections: map[*ast.SelectorExpr]*types.Selection{},
		},
		funcs: map[string]*ast.FuncDecl{},
	}
}

func (m *loader) Import(path string) (*types.Package, error) {
	if p, ok := m.pkgs[path]; ok {
		return p, nil
	}
	if path == coreMod || strings.HasPrefix(path, coreMod+"/") {
		dir := filepath.Join(m.root, strings.TrimPrefix(path, coreMod))
		pkgs, err := parser.ParseDir(m.fset, dir, func(fi os.FileInfo) bool {
			n := fi.Name()
			return !strings.HasSuffix(n, "_test.go") && !strings.HasSuffix(n, "_verif.go") && !strings.HasPrefix(n, "verif_")
		}, parser.ParseComments)
		if err != nil {
			return nil, err
		}
		var files []*ast.File
		for _, p := range pkgs {
			if strings.HasSuffix(p.Name, "_test") || p.Name == "main" {
				continue
			}
			var names []string
			for fn := range p.Files {
				names = append(names, fn)
			}
			sort.Strings(names)
			for _, fn := range names {
				if filepath.Base(fn) == "gen.go" {
					continue
				}
				files = append(files, p.Files[fn])
			}
		}
		conf := types.Config{Importer: m, FakeImportC: true, Error: func(err error) {
			m.typeErrs = append(m.typeErrs, err.Error())
		}}
		p, _ := conf.Check(path, m.fset, files, m.info)
		m.pkgs[path] = p
		m.files[path] = files
		for _, f := range files {
			for _, d := range f.Decls {
				fd, ok := d.(*ast.FuncDecl)
				if !ok {
					continue
				}
				name := fd.Name.Name
				if fd.Recv != nil && len(fd.Recv.List) == 1 {
					t := fd.Recv.List[0].Type
					if st, ok := t.(*ast.StarExpr); ok {
						t = st.X
					}
					if ix, ok := t.(*ast.IndexExpr); ok {
						t = ix.X
					}
					if id, ok := t.(*ast.Ident); ok {
						name = id.Name + "." + name
					}
				}
				m.funcs[path+"."+name] = fd
			}
		}
		return p, nil
	}
	p, err := m.std.Import(path)
	if err != nil || p == nil {
		p = types.NewPackage(path, filepath.Base(path))
		p.MarkComplete()
	}
	m.pkgs[path] = p
	return p, nil
}

func (m *loader) loadAll() error {
	for _, p := range []string{"types", "consensus", "gateway", "rhp/v2", "rhp/v3", "rhp/v4", "blake2b"} {
		if _, err := m.Import(coreMod + "/" + p); err != nil {
			return err
		}
	}
	return nil
}

func (m *loader) pos(n ast.Node) string {
	p := m.fset.Position(n.Pos())
	rel, _ := filepath.Rel(m.root, p.Filename)
	return rel + ":" + itoa(p.Line)
}

func itoa(i int) string {
	if i == 0 {
		return "0"
	}
	neg := i < 0
	if neg {
		i = -i
	}
	var b []byte
	for i > 0 {
		b = append([]byte{byte('0' + i%10)}, b...)
		i /= 10
	}
	if neg {
		b = append([]byte{'-'}, b...)
	}
	return string(b)
}
