#!/usr/bin/env python3
"""One-off helper (NOT run by ./check): prints lean/SiaProofs/Props/C19Fits.lean — one
`c19_fits_<T>` theorem per rhp/v4 / gateway message type whose size is bounded by
protocol limits, from the hand-maintained table LIMITS below (field -> maximal element
count, taken from the Validate clauses / protocol constants). Field order and names are
read from the generated schemas and re-checked in Lean by a `rfl` tie.
    python3 extract/gen_c19fits.py > lean/SiaProofs/Props/C19Fits.lean"""
import os, re, sys
root = os.path.dirname(os.path.dirname(os.path.abspath(__file__)))
src = open(os.path.join(root, "lean/SiaModel/Gen/FactsSchema.lean")).read()
def labels(unit):
    m = re.search(r"def encSchema_%s : Sch :=\n((?:  .*\n)+)" % re.escape(unit), src)
    if not m: raise SystemExit("no schema " + unit)
    return re.findall(r'\.cons "([^"]+)"', m.group(1))
SB, AB = "Gen.Framing.rhp4_MaxSectorBatchSize", "Gen.Framing.rhp4_MaxAccountBatchSize"
# rhp/v4: type -> (is_response, {field: limit}, comment)
R4 = [
 ("RPCSettingsRequest", False, {}, "empty"),
 ("RPCAccountBalanceRequest", False, {}, "fixed size"),
 ("RPCAccountBalanceResponse", True, {}, "fixed size"),
 ("RPCLatestRevisionRequest", False, {}, "fixed size"),
 ("RPCLatestRevisionResponse", True, {}, "fixed size; two bytes larger than maxLen()=sizeofContract, absorbed by the RPCError allowance of ReadResponse"),
 ("RPCReadSectorRequest", False, {}, "fixed size, equal to maxLen()"),
 ("RPCReadSectorResponse", True, {"Proof": "300"}, "a range proof inside one sector has at most 2*16 hashes; 300 is what maxLen() leaves room for"),
 ("RPCWriteSectorRequest", False, {}, "fixed size, equal to maxLen()"),
 ("RPCWriteSectorResponse", True, {}, "fixed size"),
 ("RPCVerifySectorRequest", False, {}, "fixed size, equal to maxLen()"),
 ("RPCVerifySectorResponse", True, {"Proof": "300"}, "a sector leaf proof has 16 hashes"),
 ("RPCSectorRootsRequest", False, {}, "fixed size, equal to maxLen()"),
 ("RPCSectorRootsResponse", True, {"Proof": "128", "Roots": SB}, "Validate: Length <= MaxSectorBatchSize; a range proof has at most 2*64 hashes"),
 ("RPCFreeSectorsRequest", False, {"Indices": SB}, "Validate: len(Indices) <= MaxSectorBatchSize"),
 ("RPCFreeSectorsSecondResponse", True, {}, "signature"),
 ("RPCFreeSectorsThirdResponse", True, {}, "signature"),
 ("RPCAppendSectorsRequest", False, {"Sectors": SB}, "Validate: len(Sectors) <= MaxSectorBatchSize"),
 ("RPCAppendSectorsResponse", True, {"Accepted": SB, "SubtreeRoots": SB}, "one flag per requested sector; subtree roots generously bounded by the batch size"),
 ("RPCAppendSectorsSecondResponse", True, {}, "signature"),
 ("RPCAppendSectorsThirdResponse", True, {}, "signature"),
 ("RPCFundAccountsRequest", False, {"Deposits": AB}, "Validate: len(Deposits) <= MaxAccountBatchSize"),
 ("RPCFundAccountsResponse", True, {"Balances": AB}, "one balance per deposit"),
 ("RPCReplenishAccountsRequest", False, {"Accounts": AB}, "Validate: len(Accounts) <= MaxAccountBatchSize"),
 ("RPCReplenishAccountsResponse", True, {"Deposits": AB}, "one deposit per account"),
 ("RPCReplenishAccountsSecondResponse", True, {}, "signature"),
 ("RPCReplenishAccountsThirdResponse", True, {}, "signature"),
 ("RPCAttachPoolsRequest", False, {"Attachments": AB}, "Validate: len(Attachments) <= MaxAccountBatchSize"),
 ("RPCAttachPoolsResponse", True, {}, "empty"),
 ("RPCDetachPoolsRequest", False, {"Detachments": AB}, "Validate: len(Detachments) <= MaxAccountBatchSize"),
 ("RPCDetachPoolsResponse", True, {}, "empty"),
]
# gateway: unit -> ({field: limit}, comment); limits are the ones the maxLen formula itself assumes
GW = [
 ("RPCSendHeaders_Request", {}, "fixed size"),
 ("RPCRelayV2Header_Request", {}, "fixed size"),
 ("RPCSendCheckpoint_Request", {}, "fixed size"),
 ("RPCSendTransactions_Request", {"Hashes": "100"}, "at most 100 hashes (the figure in maxRequestLen)"),
 ("RPCSendV2Blocks_Request", {"History": "32"}, "at most 32 history ids (the figure in maxRequestLen)"),
 ("RPCDiscoverIP_Response", {"IP": "120"}, "an address of at most 120 bytes"),
]
out = []
w = out.append
w("import SiaProofs.Props.C19")
w("/-!")
w("# C19 — per-type `fits` theorems (printed by extract/gen_c19fits.py from its LIMITS table)")
w("")
w("`c19_fits_T`: every canonical message of type `T` that obeys the protocol's own limits")
w("(`within limits_T`) encodes within the length limit the receiver applies to it — for a")
w("request `o.maxLen()`, for a response `RPCError.maxLen() + o.maxLen()` including the error")
w("flag byte — using the GENERATED `maxLen` facts. `tie_limits_T`: the limit table names the")
w("schema's fields in order.")
w("-/")
w("namespace C19")
w("open Sia.Codec Sia.Codec.Gen Sia.Framing")
w("")
def lim_list(unit, lims):
    ls = labels(unit)
    for f in lims:
        if f not in ls: raise SystemExit(f"{unit}: no field {f}")
    items = ", ".join('("%s", %s)' % (l, ("some " + lims[l]) if l in lims else "none") for l in ls)
    return "[" + items + "]"
for t, resp, lims, why in R4:
    unit = "Rhp4_" + t
    w(f"/-- limits of `rhp4.{t}`: {why} -/")
    w(f"def limits_{unit} : Limits := {lim_list(unit, lims)}")
    w(f"theorem tie_limits_{unit} : limits_{unit}.map (·.1) = encSchema_{unit}.labels := rfl")
    if resp:
        w(f"theorem c19_fits_{unit} (v : Val) (hc : Canon Irregular.env encSchema_{unit} v)")
        w(f"    (hw : within limits_{unit} encSchema_{unit} v = true) :")
        w(f"    (rhp4WriteResponse Irregular.env encSchema_{unit} (respObj v)).length ≤ rhp4RespLimit Framing.rhp4_maxLen_{t} :=")
        w(f"  fits_response _ _ _ (by decide +kernel) v hc hw")
    else:
        w(f"theorem c19_fits_{unit} (v : Val) (hc : Canon Irregular.env encSchema_{unit} v)")
        w(f"    (hw : within limits_{unit} encSchema_{unit} v = true) :")
        w(f"    (enc Irregular.env encSchema_{unit} v).length ≤ Framing.rhp4_maxLen_{t} :=")
        w(f"  fits_request _ _ _ (by decide +kernel) v hc hw")
    w("")
for u, lims, why in GW:
    unit = "Gateway_" + u
    w(f"/-- limits of `gateway.{u}`: {why} -/")
    w(f"def limits_{unit} : Limits := {lim_list(unit, lims)}")
    w(f"theorem tie_limits_{unit} : limits_{unit}.map (·.1) = encSchema_{unit}.labels := rfl")
    w(f"theorem c19_gateway_fits_{u} (v : Val) (hc : Canon Irregular.env encSchema_{unit} v)")
    w(f"    (hw : within limits_{unit} encSchema_{unit} v = true) :")
    w(f"    (enc Irregular.env encSchema_{unit} v).length ≤ Framing.gw_maxLen_{u} 0 :=")
    w(f"  fits_request _ _ _ (by decide +kernel) v hc hw")
    w("")
w("end C19")
print("\n".join(out))
