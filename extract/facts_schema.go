package main

// T-schema: codec method bodies -> schema terms of SiaModel.Codec.Schema (C11, C10D).
//
// For every EncodeTo/DecodeFrom (and the unexported encodeTo/decodeFrom,
// encodeRequest/decodeRequest, encodeResponse/decodeResponse of gateway and rhp/v4)
// whose body is a straight sequence of the regular call shapes, emit
//
//	def encSchema_<Pkg>_<Type>[_Request|_Response] : Sch
//	def decSchema_<Pkg>_<Type>[...]                : Sch
//	def fields_<Pkg>_<Type> : List String          (declared struct fields, go/types)
//
// plus the tables `allSchemas`, `encOnlySchemas`, `missingFields`, `decoderConstants`, `irregularCodecs`.
// Labels are Go field paths relative to the receiver. A method on the committed
// irregular list is reported as irregular; any OTHER method the parser cannot
// read is an error (broken tie), never skipped silently.

import (
	"fmt"
	"go/ast"
	"go/printer"
	"go/token"
	"go/types"
	"path/filepath"
	"sort"
	"strings"
)

func init() { registerFacts("FactsSchema", genSchema) }

// Codecs that are NOT straight sequences of the regular shapes (hand-modelled or
// covered by the Go-side oracle only). Key: "<Alias>_<Type>[suffix]".
var schemaIrregular = map[string]string{
	"Types_V1Currency":               "builtin atom cur1 (trimmed big-endian, decoder accepts <= 16 bytes)",
	"Types_SpendPolicy":              "version byte + recursive opcodes (hand model: Policy)",
	"Types_V2FileContractResolution": "type tag selects the resolution codec",
	"Types_V2Transaction":            "version byte + field bitmap",
	"Types_V2TransactionSemantics":   "semantic (ID/sighash) encoding: loops and normalisation",
	"Types_V2TransactionsMultiproof": "multiproof compression",
	"Gateway_V2BlockOutline":         "kinds vector / transaction partition",
	"Rhp2_rpcResponse":               "error flag selects error or payload",
	"Rhp2_loopKeyExchangeRequest":    "constant specifier written, any specifier accepted",
	"Rhp2_RPCReadResponse":           "buffer reuse; unguarded allocation",
	"Rhp3_rpcResponse":               "error flag selects error or payload",
	"Rhp3_Account":                   "unlock-key form with zero-account case",
	"Rhp3_RPCExecuteProgramRequest":  "instruction list with specifiers; unguarded allocation",
	"Rhp3_RPCExecuteProgramResponse": "raw output sized by an earlier field; unguarded allocation",
}

// function adapters, not wire objects
var schemaSkip = map[string]bool{"Types_EncoderFunc": true, "Types_DecoderFunc": true}

// builtin atoms for named types whose codec is hand-modelled as an atom
var schemaBuiltin = map[string]string{
	"Types_V1Currency": ".cur1",
}

type schField struct {
	label string
	expr  string   // Lean term of type Sch
	deps  []string // unit keys referenced (same side)
}

type schUnit struct {
	key      string // Types_UnlockKey, Gateway_RPCSendHeaders_Request
	typeKey  string // Types_UnlockKey, Gateway_RPCSendHeaders
	pkgPath  string
	typeName string
	suffix   string
	enc, dec *ast.FuncDecl
	encF     []schField
	decF     []schField
	encErr   string
	decErr   string
	encOK    bool
	decOK    bool
	consts   []string
}

type schGen struct {
	L     *loader
	units map[string]*schUnit
	// method lookup: pkgpath.Type -> side -> unit key (for EncodeTo/encodeTo only)
	errs []string
}

var schEncMethodSuffix = map[string]string{"EncodeTo": "", "encodeTo": "", "encodeRequest": "_Request", "encodeResponse": "_Response"}
var schDecMethodSuffix = map[string]string{"DecodeFrom": "", "decodeFrom": "", "decodeRequest": "_Request", "decodeResponse": "_Response"}

func (g *schGen) isVerifFile(n ast.Node) bool {
	fn := filepath.Base(g.L.fset.Position(n.Pos()).Filename)
	return strings.HasPrefix(fn, "verif_")
}

func schRecvTypeName(fd *ast.FuncDecl) string {
	if fd.Recv == nil || len(fd.Recv.List) != 1 {
		return ""
	}
	t := fd.Recv.List[0].Type
	if st, ok := t.(*ast.StarExpr); ok {
		t = st.X
	}
	if id, ok := t.(*ast.Ident); ok {
		return id.Name
	}
	return ""
}

func schRecvName(fd *ast.FuncDecl) string {
	if fd.Recv == nil || len(fd.Recv.List) != 1 || len(fd.Recv.List[0].Names) != 1 {
		return ""
	}
	return fd.Recv.List[0].Names[0].Name
}

func schParamName(fd *ast.FuncType, i int) string {
	k := 0
	for _, f := range fd.Params.List {
		if len(f.Names) == 0 {
			if k == i {
				return "_"
			}
			k++
			continue
		}
		for _, n := range f.Names {
			if k == i {
				return n.Name
			}
			k++
		}
	}
	return ""
}

func (g *schGen) collect() {
	var keys []string
	for k := range g.L.funcs {
		keys = append(keys, k)
	}
	sort.Strings(keys)
	for _, k := range keys {
		fd := g.L.funcs[k]
		if fd.Recv == nil || fd.Body == nil || g.isVerifFile(fd) {
			continue
		}
		tn := schRecvTypeName(fd)
		if tn == "" {
			continue
		}
		pkgPath := strings.TrimSuffix(k, "."+tn+"."+fd.Name.Name)
		alias := pkgAlias[pkgPath]
		if alias == "" || alias == "Blake2b" {
			continue
		}
		var suffix string
		var isEnc bool
		if s, ok := schEncMethodSuffix[fd.Name.Name]; ok {
			suffix, isEnc = s, true
		} else if s, ok := schDecMethodSuffix[fd.Name.Name]; ok {
			suffix = s
		} else {
			continue
		}
		// must take exactly one parameter: *types.Encoder / *types.Decoder
		if fd.Type.Params == nil || fd.Type.Params.NumFields() != 1 {
			continue
		}
		key := alias + "_" + tn + suffix
		if schemaSkip[key] {
			continue
		}
		u := g.units[key]
		if u == nil {
			u = &schUnit{key: key, typeKey: alias + "_" + tn, pkgPath: pkgPath, typeName: tn, suffix: suffix}
			g.units[key] = u
		}
		if isEnc {
			if u.enc != nil {
				g.errs = append(g.errs, fmt.Sprintf("schema %s: two encoder methods (%s)", key, g.L.pos(fd)))
			}
			u.enc = fd
		} else {
			if u.dec != nil {
				g.errs = append(g.errs, fmt.Sprintf("schema %s: two decoder methods (%s)", key, g.L.pos(fd)))
			}
			u.dec = fd
		}
	}
}

// ---------------------------------------------------------------- parsing

type schCtx struct {
	g    *schGen
	enc  bool
	recv string // receiver (or closure element) identifier
	ed   string // encoder / decoder identifier
	pos  ast.Node
	// fields the decoder sets from an expression that does not read the stream
	// (FileContractRevision payout sentinel, legacy instruction defaults)
	consts *[]string
	// inside a dependent loop: the element is named by elemIdent (range value
	// variable) or by elemPath[elemKey]
	elemIdent, elemPath, elemKey string
}

// schMentions reports whether identifier name occurs in e.
func schMentions(e ast.Node, name string) bool {
	found := false
	ast.Inspect(e, func(n ast.Node) bool {
		if id, ok := n.(*ast.Ident); ok && id.Name == name {
			found = true
		}
		return !found
	})
	return found
}

type schParseErr struct{ msg string }

func (c *schCtx) fail(n ast.Node, f string, a ...any) {
	panic(schParseErr{fmt.Sprintf("%s: %s", c.g.L.pos(n), fmt.Sprintf(f, a...))})
}

func schUnparen(e ast.Expr) ast.Expr {
	for {
		p, ok := e.(*ast.ParenExpr)
		if !ok {
			return e
		}
		e = p.X
	}
}

func (c *schCtx) typeOf(e ast.Expr) types.Type {
	tv, ok := c.g.L.info.Types[e]
	if !ok || tv.Type == nil {
		c.fail(e, "no type information")
	}
	return tv.Type
}

func (c *schCtx) isTypeExpr(e ast.Expr) bool {
	tv, ok := c.g.L.info.Types[e]
	return ok && tv.IsType()
}

// path returns the field path of e relative to the receiver ("" = the receiver
// itself), stripping value conversions, &, *, parentheses and [:] .
func (c *schCtx) path(e ast.Expr) (string, bool) {
	e = schUnparen(e)
	switch x := e.(type) {
	case *ast.Ident:
		if x.Name == c.recv && c.elemPath == "" && c.elemIdent == "" {
			return "", true
		}
		if c.elemIdent != "" && x.Name == c.elemIdent {
			return "", true
		}
		if x.Name == c.recv {
			return "\x00recv", true
		}
		return "", false
	case *ast.IndexExpr:
		if id, ok := x.Index.(*ast.Ident); ok && c.elemKey != "" && id.Name == c.elemKey {
			if p, ok := c.path(x.X); ok && p == "\x00recv."+c.elemPath {
				return "", true
			}
		}
		return "", false
	case *ast.SelectorExpr:
		p, ok := c.path(x.X)
		if !ok {
			return "", false
		}
		if p == "" {
			return x.Sel.Name, true
		}
		return p + "." + x.Sel.Name, true
	case *ast.StarExpr:
		return c.path(x.X)
	case *ast.UnaryExpr:
		if x.Op == token.AND {
			return c.path(x.X)
		}
	case *ast.SliceExpr:
		if x.Low == nil && x.High == nil && x.Max == nil {
			return c.path(x.X)
		}
	case *ast.CallExpr:
		// value conversion T(x.F)
		if len(x.Args) == 1 && c.isTypeExpr(x.Fun) {
			return c.path(x.Args[0])
		}
	}
	return "", false
}

func schDerefT(t types.Type) types.Type {
	if p, ok := t.Underlying().(*types.Pointer); ok {
		return p.Elem()
	}
	if p, ok := t.(*types.Pointer); ok {
		return p.Elem()
	}
	return t
}

// arrayLen returns n when e is `x[:]` of a [n]byte array (or pointer to one).
func (c *schCtx) arrayLen(e ast.Expr) (int64, bool) {
	se, ok := schUnparen(e).(*ast.SliceExpr)
	if !ok || se.Low != nil || se.High != nil {
		return 0, false
	}
	t := schDerefT(c.typeOf(se.X))
	arr, ok := t.Underlying().(*types.Array)
	if !ok {
		return 0, false
	}
	if b, ok := arr.Elem().Underlying().(*types.Basic); !ok || b.Kind() != types.Uint8 {
		return 0, false
	}
	return arr.Len(), true
}

// refType: the schema of a named type that has its own codec.
func (c *schCtx) refType(n ast.Node, t types.Type) (string, []string) {
	t = schDerefT(t)
	named, ok := t.(*types.Named)
	if !ok {
		if a, ok := t.(*types.Alias); ok {
			return c.refType(n, types.Unalias(a))
		}
		c.fail(n, "type %s has no codec of its own", t)
	}
	obj := named.Obj()
	if obj.Pkg() == nil {
		c.fail(n, "type %s has no codec of its own", t)
	}
	alias := pkgAlias[obj.Pkg().Path()]
	key := alias + "_" + obj.Name()
	if b, ok := schemaBuiltin[key]; ok {
		return b, nil
	}
	u := c.g.units[key]
	if u == nil || (c.enc && u.enc == nil) || (!c.enc && u.dec == nil) {
		// method promoted from an embedded field?
		c.fail(n, "type %s has no %s method of its own", t, map[bool]string{true: "encoder", false: "decoder"}[c.enc])
	}
	if _, irr := schemaIrregular[key]; irr {
		return fmt.Sprintf("(.ext %q)", alias+"."+obj.Name()), nil
	}
	if c.enc {
		return "encSchema_" + key, []string{key}
	}
	return "decSchema_" + key, []string{key}
}

var schWriteAtoms = map[string]string{"WriteUint8": ".u8", "WriteUint64": ".u64", "WriteBool": ".bool", "WriteTime": ".time", "WriteBytes": ".bytes", "WriteString": ".str"}
var schReadAtoms = map[string]string{"ReadUint8": ".u8", "ReadUint64": ".u64", "ReadBool": ".bool", "ReadTime": ".time", "ReadBytes": ".bytes", "ReadString": ".str"}

// schCalleeName: base name of a (possibly package-qualified, possibly instantiated) function.
func schCalleeName(e ast.Expr) (string, []ast.Expr) {
	e = schUnparen(e)
	var targs []ast.Expr
	switch x := e.(type) {
	case *ast.IndexExpr:
		targs = []ast.Expr{x.Index}
		e = x.X
	case *ast.IndexListExpr:
		targs = x.Indices
		e = x.X
	}
	switch x := e.(type) {
	case *ast.Ident:
		return x.Name, targs
	case *ast.SelectorExpr:
		if id, ok := x.X.(*ast.Ident); ok && (id.Name == "types") {
			return x.Sel.Name, targs
		}
	}
	return "", nil
}

func (c *schCtx) isED(e ast.Expr) bool {
	id, ok := schUnparen(e).(*ast.Ident)
	return ok && id.Name == c.ed
}

// methodExprAtom: (*Encoder).WriteUint64 / (*types.Decoder).ReadBool ...
func (c *schCtx) methodExprAtom(e ast.Expr) (string, bool) {
	se, ok := schUnparen(e).(*ast.SelectorExpr)
	if !ok {
		return "", false
	}
	if !c.isTypeExpr(se.X) {
		return "", false
	}
	if c.enc {
		a, ok := schWriteAtoms[se.Sel.Name]
		return a, ok
	}
	a, ok := schReadAtoms[se.Sel.Name]
	return a, ok
}

func (c *schCtx) sliceElemType(n ast.Node, t types.Type) types.Type {
	t = schDerefT(t)
	s, ok := t.Underlying().(*types.Slice)
	if !ok {
		c.fail(n, "expected a slice, got %s", t)
	}
	return s.Elem()
}

// schFieldsExpr renders a field list as a Lean term.
func schFieldsExpr(fs []schField) string {
	if len(fs) == 1 && fs[0].label == "" {
		return fs[0].expr
	}
	var sb strings.Builder
	sb.WriteString("(")
	for _, f := range fs {
		if f.label == "" {
			sb.WriteString("Sch.append " + f.expr + " <| ")
		} else {
			sb.WriteString(fmt.Sprintf(".cons %q %s <| ", f.label, f.expr))
		}
	}
	sb.WriteString(".nil)")
	return sb.String()
}

func schDepsOf(fs []schField) []string {
	var d []string
	for _, f := range fs {
		d = append(d, f.deps...)
	}
	return d
}

// closure element codec: func(e *Encoder, v T) {...} / func(d *Decoder) (v T) {...}
func (c *schCtx) funcLit(fl *ast.FuncLit) (string, []string) {
	sub := &schCtx{g: c.g, enc: c.enc}
	if c.enc {
		if fl.Type.Params.NumFields() != 2 {
			c.fail(fl, "element encoder closure must take (e, v)")
		}
		sub.ed = schParamName(fl.Type, 0)
		sub.recv = schParamName(fl.Type, 1)
		fs := sub.stmts(fl.Body.List)
		return schFieldsExpr(fs), schDepsOf(fs)
	}
	if fl.Type.Params.NumFields() != 1 || fl.Type.Results == nil || fl.Type.Results.NumFields() != 1 {
		c.fail(fl, "element decoder closure must be func(d) T")
	}
	sub.ed = schParamName(fl.Type, 0)
	res := fl.Type.Results.List[0]
	if len(res.Names) == 1 {
		sub.recv = res.Names[0].Name
		body := fl.Body.List
		if len(body) == 0 {
			c.fail(fl, "empty element decoder")
		}
		last, ok := body[len(body)-1].(*ast.ReturnStmt)
		if !ok || len(last.Results) != 0 {
			c.fail(fl, "element decoder with a named result must end in a bare return")
		}
		fs := sub.stmts(body[:len(body)-1])
		return schFieldsExpr(fs), schDepsOf(fs)
	}
	// func(d) T { return d.ReadX() }
	if len(fl.Body.List) == 1 {
		if rs, ok := fl.Body.List[0].(*ast.ReturnStmt); ok && len(rs.Results) == 1 {
			if a, ok := sub.readCall(rs.Results[0]); ok {
				return a, nil
			}
		}
	}
	c.fail(fl, "unrecognised element decoder closure")
	return "", nil
}

// readCall: d.ReadX() possibly wrapped in value conversions.
func (c *schCtx) readCall(e ast.Expr) (string, bool) {
	e = schUnparen(e)
	call, ok := e.(*ast.CallExpr)
	if !ok {
		return "", false
	}
	if len(call.Args) == 1 && c.isTypeExpr(call.Fun) {
		return c.readCall(call.Args[0])
	}
	se, ok := call.Fun.(*ast.SelectorExpr)
	if !ok || !c.isED(se.X) || len(call.Args) != 0 {
		return "", false
	}
	a, ok := schReadAtoms[se.Sel.Name]
	return a, ok
}

func (c *schCtx) stmts(list []ast.Stmt) []schField {
	var out []schField
	for i := 0; i < len(list); i++ {
		st := list[i]
		// V1SiafundOutput decoder: var val V1Currency; val.DecodeFrom(d); if val.Hi != 0 {SetErr; return}; x.F = val.Lo
		if !c.enc && i+3 < len(list) {
			if f, ok := c.sfvalPattern(list[i : i+4]); ok {
				out = append(out, f)
				i += 3
				continue
			}
		}
		// x.F = <expression that does not read the stream>: not a wire field
		if as, ok := st.(*ast.AssignStmt); ok && !c.enc && as.Tok == token.ASSIGN && len(as.Lhs) == 1 && len(as.Rhs) == 1 && !schMentions(as.Rhs[0], c.ed) && c.consts != nil {
			if p, ok := c.path(as.Lhs[0]); ok && p != "" {
				*c.consts = append(*c.consts, p)
				continue
			}
		}
		out = append(out, c.stmt(st))
	}
	return out
}

func (c *schCtx) sfvalPattern(l []ast.Stmt) (schField, bool) {
	ds, ok := l[0].(*ast.DeclStmt)
	if !ok {
		return schField{}, false
	}
	gd, ok := ds.Decl.(*ast.GenDecl)
	if !ok || gd.Tok != token.VAR || len(gd.Specs) != 1 {
		return schField{}, false
	}
	vs := gd.Specs[0].(*ast.ValueSpec)
	if len(vs.Names) != 1 || vs.Type == nil || len(vs.Values) != 0 {
		return schField{}, false
	}
	v := vs.Names[0].Name
	if id, ok := vs.Type.(*ast.Ident); !ok || id.Name != "V1Currency" {
		return schField{}, false
	}
	// val.DecodeFrom(d)
	es, ok := l[1].(*ast.ExprStmt)
	if !ok {
		return schField{}, false
	}
	call, ok := es.X.(*ast.CallExpr)
	if !ok || len(call.Args) != 1 || !c.isED(call.Args[0]) {
		return schField{}, false
	}
	se, ok := call.Fun.(*ast.SelectorExpr)
	if !ok || se.Sel.Name != "DecodeFrom" {
		return schField{}, false
	}
	if id, ok := se.X.(*ast.Ident); !ok || id.Name != v {
		return schField{}, false
	}
	// if val.Hi != 0 { d.SetErr(...); return }
	is, ok := l[2].(*ast.IfStmt)
	if !ok || is.Init != nil || is.Else != nil || len(is.Body.List) != 2 {
		return schField{}, false
	}
	be, ok := is.Cond.(*ast.BinaryExpr)
	if !ok || be.Op != token.NEQ {
		return schField{}, false
	}
	lhs, ok := be.X.(*ast.SelectorExpr)
	if !ok || lhs.Sel.Name != "Hi" {
		return schField{}, false
	}
	if id, ok := lhs.X.(*ast.Ident); !ok || id.Name != v {
		return schField{}, false
	}
	if bl, ok := be.Y.(*ast.BasicLit); !ok || bl.Value != "0" {
		return schField{}, false
	}
	if es2, ok := is.Body.List[0].(*ast.ExprStmt); !ok {
		return schField{}, false
	} else if call2, ok := es2.X.(*ast.CallExpr); !ok {
		return schField{}, false
	} else if se2, ok := call2.Fun.(*ast.SelectorExpr); !ok || se2.Sel.Name != "SetErr" || !c.isED(se2.X) {
		return schField{}, false
	}
	if rs, ok := is.Body.List[1].(*ast.ReturnStmt); !ok || len(rs.Results) != 0 {
		return schField{}, false
	}
	// x.F = val.Lo
	as, ok := l[3].(*ast.AssignStmt)
	if !ok || as.Tok != token.ASSIGN || len(as.Lhs) != 1 || len(as.Rhs) != 1 {
		return schField{}, false
	}
	rhs, ok := as.Rhs[0].(*ast.SelectorExpr)
	if !ok || rhs.Sel.Name != "Lo" {
		return schField{}, false
	}
	if id, ok := rhs.X.(*ast.Ident); !ok || id.Name != v {
		return schField{}, false
	}
	p, ok := c.path(as.Lhs[0])
	if !ok || p == "" {
		return schField{}, false
	}
	return schField{label: p, expr: ".sfval1"}, true
}

func (c *schCtx) stmt(st ast.Stmt) schField {
	switch s := st.(type) {
	case *ast.ExprStmt:
		call, ok := s.X.(*ast.CallExpr)
		if !ok {
			c.fail(st, "unrecognised statement")
		}
		return c.call(call)
	case *ast.AssignStmt:
		if c.enc {
			c.fail(st, "assignment in an encoder")
		}
		if s.Tok != token.ASSIGN || len(s.Lhs) != 1 || len(s.Rhs) != 1 {
			c.fail(st, "unrecognised assignment")
		}
		p, ok := c.path(s.Lhs[0])
		if !ok {
			c.fail(st, "assignment to something that is not a field of the receiver")
		}
		a, ok := c.readCall(s.Rhs[0])
		if !ok {
			c.fail(st, "field assigned from something that is not a d.ReadX() call")
		}
		return schField{label: p, expr: a}
	case *ast.RangeStmt:
		return c.depLoop(s)
	}
	c.fail(st, "unrecognised statement (%T)", st)
	return schField{}
}

// depLoop: an array field of which only a receiver-dependent part is transmitted:
//
//	for _, v := range x.F[:x.m()] { <encode v> }      for i := range x.F[:x.m()] { x.F[i] = <read> }
//	for i, v := range x.F { if x.m(i) { <encode v> } }  for i := range x.F { if x.m(i) { <decode x.F[i]> } }
//
// becomes one field F with schema `.ext "dep<which part> <element schema>"`: the
// element count depends on other fields, which the schema language cannot say; the
// field's position and element form are still tied.
func (c *schCtx) depLoop(rs *ast.RangeStmt) schField {
	if c.elemPath != "" || c.elemIdent != "" {
		c.fail(rs, "nested loop")
	}
	strip := func(n ast.Node) string {
		var pb strings.Builder
		printer.Fprint(&pb, c.g.L.fset, n)
		return strings.ReplaceAll(pb.String(), c.recv+".", "")
	}
	x := unparenX(rs.X)
	which := ""
	if se, ok := x.(*ast.SliceExpr); ok {
		if se.Low != nil || se.High == nil || se.Max != nil {
			c.fail(rs, "unrecognised loop range")
		}
		which = "[:" + strip(se.High) + "]"
		x = se.X
	}
	p, ok := c.path(x)
	if !ok || p == "" || strings.Contains(p, ".") {
		c.fail(rs, "loop over something that is not a field of the receiver")
	}
	body := rs.Body.List
	key, val := "", ""
	if id, ok := rs.Key.(*ast.Ident); ok && id.Name != "_" {
		key = id.Name
	}
	if rs.Value != nil {
		if id, ok := rs.Value.(*ast.Ident); ok && id.Name != "_" {
			val = id.Name
		}
	}
	if which == "" {
		if len(body) != 1 {
			c.fail(rs, "unrecognised loop body")
		}
		is, ok := body[0].(*ast.IfStmt)
		if !ok || is.Init != nil || is.Else != nil {
			c.fail(rs, "unrecognised loop body")
		}
		which = "[" + strip(is.Cond) + "]"
		body = is.Body.List
	}
	if len(body) != 1 {
		c.fail(rs, "unrecognised loop body")
	}
	sub := &schCtx{g: c.g, enc: c.enc, recv: c.recv, ed: c.ed, elemIdent: val, elemPath: p, elemKey: key}
	var f schField
	if as, ok := body[0].(*ast.AssignStmt); ok && !c.enc {
		// x.F[i] = d.ReadX()
		if as.Tok != token.ASSIGN || len(as.Lhs) != 1 || len(as.Rhs) != 1 {
			c.fail(rs, "unrecognised loop body")
		}
		lp, ok := sub.path(as.Lhs[0])
		a, ok2 := sub.readCall(as.Rhs[0])
		if !ok || lp != "" || !ok2 {
			c.fail(rs, "unrecognised loop body")
		}
		f = schField{expr: a}
	} else {
		f = sub.stmt(body[0])
		if f.label != "" {
			c.fail(rs, "loop body does not encode the element")
		}
	}
	elem := strings.NewReplacer("encSchema_", "", "decSchema_", "").Replace(strings.Trim(f.expr, "()"))
	return schField{label: p, expr: fmt.Sprintf("(.ext %q)", "dep"+which+" "+elem), deps: nil}
}

func unparenX(e ast.Expr) ast.Expr { return schUnparen(e) }

func (c *schCtx) call(call *ast.CallExpr) schField {
	// ---- e.WriteX(arg) / d.Read(x.F[:])
	if se, ok := call.Fun.(*ast.SelectorExpr); ok && c.isED(se.X) {
		if c.enc {
			if len(call.Args) != 1 {
				c.fail(call, "unexpected encoder call %s", se.Sel.Name)
			}
			arg := call.Args[0]
			p, ok := c.path(arg)
			if !ok {
				c.fail(call, "argument of %s is not a field of the receiver", se.Sel.Name)
			}
			switch se.Sel.Name {
			case "Write":
				n, ok := c.arrayLen(arg)
				if !ok {
					c.fail(call, "e.Write of something that is not a byte array")
				}
				return schField{label: p, expr: fmt.Sprintf("(.fixed %d)", n)}
			case "WriteBytes":
				if n, ok := c.arrayLen(arg); ok {
					return schField{label: p, expr: fmt.Sprintf("(.pfixed %d)", n)}
				}
				return schField{label: p, expr: ".bytes"}
			default:
				a, ok := schWriteAtoms[se.Sel.Name]
				if !ok {
					c.fail(call, "unknown encoder method %s", se.Sel.Name)
				}
				return schField{label: p, expr: a}
			}
		}
		if se.Sel.Name == "Read" && len(call.Args) == 1 {
			p, ok := c.path(call.Args[0])
			n, ok2 := c.arrayLen(call.Args[0])
			if !ok || !ok2 {
				c.fail(call, "d.Read into something that is not a byte-array field")
			}
			return schField{label: p, expr: fmt.Sprintf("(.fixed %d)", n)}
		}
		c.fail(call, "unexpected decoder call %s", se.Sel.Name)
	}
	// ---- copy(x.F[:], d.ReadBytes())
	if id, ok := call.Fun.(*ast.Ident); ok && id.Name == "copy" && !c.enc && len(call.Args) == 2 {
		p, ok := c.path(call.Args[0])
		n, ok2 := c.arrayLen(call.Args[0])
		a, ok3 := c.readCall(call.Args[1])
		if ok && ok2 && ok3 && a == ".bytes" {
			return schField{label: p, expr: fmt.Sprintf("(.pfixed %d)", n)}
		}
		c.fail(call, "unrecognised copy")
	}
	// ---- X.EncodeTo(e) / X.DecodeFrom(d)
	if se, ok := call.Fun.(*ast.SelectorExpr); ok && len(call.Args) == 1 && c.isED(call.Args[0]) {
		m := se.Sel.Name
		if (c.enc && (m == "EncodeTo" || m == "encodeTo")) || (!c.enc && (m == "DecodeFrom" || m == "decodeFrom")) {
			return c.delegate(call, se.X)
		}
	}
	// ---- generic helpers
	name, targs := schCalleeName(call.Fun)
	want := func(n int) {
		if len(call.Args) != n || !c.isED(call.Args[0]) {
			c.fail(call, "unexpected arguments of %s", name)
		}
	}
	switch {
	case (c.enc && name == "EncodeSlice") || (!c.enc && name == "DecodeSlice"):
		want(2)
		p, ok := c.path(call.Args[1])
		if !ok {
			c.fail(call, "%s of something that is not a field of the receiver", name)
		}
		el := c.sliceElemType(call, c.typeOf(call.Args[1]))
		r, d := c.refType(call, el)
		return schField{label: p, expr: "(.slice " + r + ")", deps: d}
	case (c.enc && name == "EncodeSliceCast") || (!c.enc && name == "DecodeSliceCast"):
		want(2)
		if len(targs) < 1 {
			c.fail(call, "%s without an explicit type argument", name)
		}
		p, ok := c.path(call.Args[1])
		if !ok {
			c.fail(call, "%s of something that is not a field of the receiver", name)
		}
		r, d := c.refType(call, c.typeOf(targs[0]))
		return schField{label: p, expr: "(.slice " + r + ")", deps: d}
	case (c.enc && name == "EncodeSliceFn") || (!c.enc && name == "DecodeSliceFn"):
		want(3)
		p, ok := c.path(call.Args[1])
		if !ok {
			c.fail(call, "%s of something that is not a field of the receiver", name)
		}
		if a, ok := c.methodExprAtom(call.Args[2]); ok {
			return schField{label: p, expr: "(.slice " + a + ")"}
		}
		if fl, ok := schUnparen(call.Args[2]).(*ast.FuncLit); ok {
			r, d := c.funcLit(fl)
			return schField{label: p, expr: "(.slice " + r + ")", deps: d}
		}
		c.fail(call, "unrecognised element function of %s", name)
	case (c.enc && name == "EncodePtr") || (!c.enc && name == "DecodePtr"):
		want(2)
		p, ok := c.path(call.Args[1])
		if !ok {
			c.fail(call, "%s of something that is not a field of the receiver", name)
		}
		t := schDerefT(c.typeOf(call.Args[1]))
		if !c.enc {
			t = schDerefT(t) // &x.F : **T
		}
		r, d := c.refType(call, t)
		return schField{label: p, expr: "(.opt " + r + ")", deps: d}
	case (c.enc && name == "EncodePtrCast") || (!c.enc && name == "DecodePtrCast"):
		want(2)
		if len(targs) < 1 {
			c.fail(call, "%s without an explicit type argument", name)
		}
		p, ok := c.path(call.Args[1])
		if !ok {
			c.fail(call, "%s of something that is not a field of the receiver", name)
		}
		r, d := c.refType(call, c.typeOf(targs[0]))
		return schField{label: p, expr: "(.opt " + r + ")", deps: d}
	}
	c.fail(call, "unrecognised call")
	return schField{}
}

// delegate: X.EncodeTo(e) where X is a field path, a conversion T(path), (*T)(&path),
// V1Currency(NewCurrency64(path)) or the literal V1Currency{}.
func (c *schCtx) delegate(call *ast.CallExpr, x ast.Expr) schField {
	x = schUnparen(x)
	// (V1Currency{}).EncodeTo / (&V1Currency{}).DecodeFrom : discarded zero "ClaimStart"
	lit := x
	if u, ok := lit.(*ast.UnaryExpr); ok && u.Op == token.AND {
		lit = schUnparen(u.X)
	}
	if cl, ok := lit.(*ast.CompositeLit); ok && len(cl.Elts) == 0 {
		if id, ok := cl.Type.(*ast.Ident); ok && id.Name == "V1Currency" {
			return schField{label: "-", expr: ".cur1pad"}
		}
	}
	// conversion
	if cv, ok := x.(*ast.CallExpr); ok && len(cv.Args) == 1 && c.isTypeExpr(cv.Fun) {
		inner := schUnparen(cv.Args[0])
		// V1Currency(NewCurrency64(x.F))
		if ic, ok := inner.(*ast.CallExpr); ok && c.enc {
			if id, ok := ic.Fun.(*ast.Ident); ok && id.Name == "NewCurrency64" && len(ic.Args) == 1 {
				if tid, ok := schUnparen(cv.Fun).(*ast.Ident); ok && tid.Name == "V1Currency" {
					p, ok := c.path(ic.Args[0])
					if !ok {
						c.fail(call, "NewCurrency64 of something that is not a field")
					}
					return schField{label: p, expr: ".sfval1"}
				}
			}
		}
		p, ok := c.path(inner)
		if !ok {
			c.fail(call, "conversion of something that is not a field of the receiver")
		}
		r, d := c.refType(call, c.typeOf(cv.Fun))
		return schField{label: p, expr: r, deps: d}
	}
	p, ok := c.path(x)
	if !ok {
		c.fail(call, "codec call on something that is not a field of the receiver")
	}
	if p == "" {
		c.fail(call, "codec calls itself")
	}
	r, d := c.refType(call, c.typeOf(x))
	return schField{label: p, expr: r, deps: d}
}

func (g *schGen) parse(fd *ast.FuncDecl, enc bool, consts *[]string) (fs []schField, errMsg string) {
	defer func() {
		if r := recover(); r != nil {
			if pe, ok := r.(schParseErr); ok {
				errMsg = pe.msg
				fs = nil
				return
			}
			panic(r)
		}
	}()
	c := &schCtx{g: g, enc: enc, recv: schRecvName(fd), ed: schParamName(fd.Type, 0), consts: consts}
	if c.recv == "" {
		c.recv = "\x00none"
	}
	return c.stmts(fd.Body.List), ""
}

// encLabels: labels of the encoder schema with splices (label "") expanded
func (g *schGen) encLabels(u *schUnit) []string {
	var out []string
	for _, f := range u.encF {
		if f.label == "" {
			for _, d := range f.deps {
				if du := g.units[d]; du != nil && du != u {
					out = append(out, g.encLabels(du)...)
				}
			}
			continue
		}
		out = append(out, f.label)
	}
	return out
}

// declared fields of the receiver's struct
func (g *schGen) declaredFields(u *schUnit) []string {
	pkg := g.L.pkgs[u.pkgPath]
	if pkg == nil {
		return nil
	}
	obj := pkg.Scope().Lookup(u.typeName)
	if obj == nil {
		return nil
	}
	st, ok := obj.Type().Underlying().(*types.Struct)
	if !ok {
		return nil
	}
	labelled := map[string]bool{}
	for _, lab := range g.encLabels(u) {
		top := lab
		if i := strings.Index(top, "."); i > 0 {
			top = top[:i]
		}
		labelled[top] = true
	}
	var out []string
	for i := 0; i < st.NumFields(); i++ {
		f := st.Field(i)
		if f.Embedded() {
			// an embedded struct whose fields are used through promotion: list its fields
			if inner, ok := schDerefT(f.Type()).Underlying().(*types.Struct); ok && !labelled[f.Name()] && inner.NumFields() > 0 {
				anyPromoted := false
				for j := 0; j < inner.NumFields(); j++ {
					if labelled[inner.Field(j).Name()] {
						anyPromoted = true
					}
				}
				if anyPromoted {
					for j := 0; j < inner.NumFields(); j++ {
						out = append(out, inner.Field(j).Name())
					}
					continue
				}
			}
			// an embedded type that declares (some of) the codec methods itself carries that
			// half of the codec and is tied as its own unit
			if n, ok := schDerefT(f.Type()).(*types.Named); ok && n.Obj().Pkg() != nil {
				k := pkgAlias[n.Obj().Pkg().Path()] + "_" + n.Obj().Name()
				if g.units[k+"_Request"] != nil || g.units[k+"_Response"] != nil {
					continue
				}
			}
		}
		out = append(out, f.Name())
	}
	return out
}

// subFields: declared fields of the struct type of field `top` of u's receiver
func (g *schGen) subFields(u *schUnit, top string) ([]string, bool) {
	pkg := g.L.pkgs[u.pkgPath]
	if pkg == nil {
		return nil, false
	}
	obj := pkg.Scope().Lookup(u.typeName)
	if obj == nil {
		return nil, false
	}
	st, ok := obj.Type().Underlying().(*types.Struct)
	if !ok {
		return nil, false
	}
	for i := 0; i < st.NumFields(); i++ {
		if st.Field(i).Name() == top {
			inner, ok := schDerefT(st.Field(i).Type()).Underlying().(*types.Struct)
			if !ok {
				return nil, false
			}
			var out []string
			for j := 0; j < inner.NumFields(); j++ {
				out = append(out, inner.Field(j).Name())
			}
			return out, true
		}
	}
	return nil, false
}

func schLeanStrList(xs []string) string {
	q := make([]string, len(xs))
	for i, x := range xs {
		q[i] = fmt.Sprintf("%q", x)
	}
	return "[" + strings.Join(q, ", ") + "]"
}

func genSchema(L *loader) (string, any, []string) {
	g := &schGen{L: L, units: map[string]*schUnit{}}
	g.collect()
	var keys []string
	for k := range g.units {
		keys = append(keys, k)
	}
	sort.Strings(keys)

	type repUnit struct {
		Name   string `json:"name"`
		Status string `json:"status"` // regular | irregular | enc-only | dec-only
		Why    string `json:"why,omitempty"`
		Pos    string `json:"pos,omitempty"`
	}
	var rep []repUnit
	var irregular []string

	for _, k := range keys {
		u := g.units[k]
		_, irr := schemaIrregular[k]
		if u.enc != nil {
			u.encF, u.encErr = g.parse(u.enc, true, nil)
			u.encOK = u.encErr == ""
		}
		if u.dec != nil {
			u.decF, u.decErr = g.parse(u.dec, false, &u.consts)
			u.decOK = u.decErr == ""
		}
		if irr {
			u.encOK, u.decOK = false, false
			why := schemaIrregular[k]
			rep = append(rep, repUnit{Name: k, Status: "irregular", Why: why})
			irregular = append(irregular, k)
			continue
		}
		if u.enc != nil && !u.encOK {
			g.errs = append(g.errs, fmt.Sprintf("schema %s: encoder %s.%s is not on the irregular list and cannot be read as a schema: %s", k, u.typeName, u.enc.Name.Name, u.encErr))
		}
		if u.dec != nil && !u.decOK {
			g.errs = append(g.errs, fmt.Sprintf("schema %s: decoder %s.%s is not on the irregular list and cannot be read as a schema: %s", k, u.typeName, u.dec.Name.Name, u.decErr))
		}
	}
	for k := range schemaIrregular {
		if g.units[k] == nil {
			g.errs = append(g.errs, fmt.Sprintf("schema %s: listed as irregular but no such codec exists any more", k))
		}
	}
	// a unit that depends on a failed unit fails too (propagate)
	changed := true
	for changed {
		changed = false
		for _, k := range keys {
			u := g.units[k]
			for _, side := range []bool{true, false} {
				ok := u.decOK
				fs := u.decF
				if side {
					ok, fs = u.encOK, u.encF
				}
				if !ok {
					continue
				}
				for _, d := range schDepsOf(fs) {
					du := g.units[d]
					dok := du.decOK
					if side {
						dok = du.encOK
					}
					if !dok {
						if side {
							u.encOK = false
						} else {
							u.decOK = false
						}
						g.errs = append(g.errs, fmt.Sprintf("schema %s: depends on %s, which has no schema", k, d))
						changed = true
					}
				}
			}
		}
	}

	// ---- emit, dependencies first
	var sb strings.Builder
	sb.WriteString("import SiaModel.Codec.Schema\n")
	sb.WriteString("/-! T-schema: schema terms read off the codec method bodies (see extract/facts_schema.go). -/\n")
	sb.WriteString("namespace Sia.Codec.Gen\nopen Sia.Codec\n\n")
	emitted := map[string]bool{}
	var emit func(k string, enc bool)
	emit = func(k string, enc bool) {
		id := map[bool]string{true: "enc:", false: "dec:"}[enc] + k
		if emitted[id] {
			return
		}
		emitted[id] = true
		u := g.units[k]
		fs := u.decF
		if enc {
			fs = u.encF
		}
		for _, d := range schDepsOf(fs) {
			emit(d, enc)
		}
		fd := u.dec
		pre := "decSchema_"
		if enc {
			fd, pre = u.enc, "encSchema_"
		}
		sb.WriteString(fmt.Sprintf("/-- %s.%s (%s) -/\ndef %s%s : Sch :=\n  %s\n\n", u.typeName, fd.Name.Name, L.pos(fd), pre, k, schFieldsTerm(fs)))
	}
	var both, encOnly []string
	for _, k := range keys {
		u := g.units[k]
		if u.encOK {
			emit(k, true)
		}
		if u.decOK {
			emit(k, false)
		}
		if _, irr := schemaIrregular[k]; irr {
			continue
		}
		switch {
		case u.encOK && u.decOK:
			both = append(both, k)
			rep = append(rep, repUnit{Name: k, Status: "regular", Pos: L.pos(u.enc)})
		case u.encOK && u.dec == nil:
			encOnly = append(encOnly, k)
			rep = append(rep, repUnit{Name: k, Status: "enc-only", Pos: L.pos(u.enc)})
		case u.decOK && u.enc == nil:
			rep = append(rep, repUnit{Name: k, Status: "dec-only", Pos: L.pos(u.dec)})
		default:
			rep = append(rep, repUnit{Name: k, Status: "error"})
		}
	}
	// ---- declared fields, per type
	typeUnits := map[string][]string{}
	var typeKeys []string
	for _, k := range both {
		u := g.units[k]
		if _, ok := typeUnits[u.typeKey]; !ok {
			typeKeys = append(typeKeys, u.typeKey)
		}
		typeUnits[u.typeKey] = append(typeUnits[u.typeKey], k)
	}
	sort.Strings(typeKeys)
	for _, tk := range typeKeys {
		u := g.units[typeUnits[tk][0]]
		sb.WriteString(fmt.Sprintf("def fields_%s : List String := %s\n", tk, schLeanStrList(g.declaredFields(u))))
	}
	sb.WriteString("\n/-- every regular codec: (name, encoder schema, decoder schema) -/\ndef allSchemas : List (String × Sch × Sch) := [\n")
	for i, k := range both {
		sep := ","
		if i == len(both)-1 {
			sep = ""
		}
		sb.WriteString(fmt.Sprintf("  (%q, encSchema_%s, decSchema_%s)%s\n", k, k, k, sep))
	}
	sb.WriteString("]\n\n/-- encoder-only schemas (no decoder exists) -/\ndef encOnlySchemas : List (String × Sch) := [\n")
	for i, k := range encOnly {
		sep := ","
		if i == len(encOnly)-1 {
			sep = ""
		}
		sb.WriteString(fmt.Sprintf("  (%q, encSchema_%s)%s\n", k, k, sep))
	}
	sb.WriteString("]\n\n")
	// ---- field completeness: declared fields that no encoder label schMentions.
	// (Computed here rather than in Lean: comparing strings in the Lean kernel costs
	// ~50 ms per comparison. The Lean side ties the RESULT to the committed allow-list.)
	type miss struct {
		name   string
		fields []string
	}
	var missing []miss
	for _, tk := range typeKeys {
		u0 := g.units[typeUnits[tk][0]]
		heads := map[string]bool{}
		groups := map[string][]string{}
		var order []string
		for _, k := range typeUnits[tk] {
			for _, lab := range g.encLabels(g.units[k]) {
				if i := strings.Index(lab, "."); i > 0 {
					top := lab[:i]
					if _, ok := groups[top]; !ok {
						order = append(order, top)
					}
					groups[top] = append(groups[top], lab[i+1:])
				} else {
					heads[lab] = true
				}
			}
		}
		var m []string
		for _, f := range g.declaredFields(u0) {
			if !heads[f] && groups[f] == nil {
				m = append(m, f)
			}
		}
		sb.WriteString(fmt.Sprintf("def missing_%s : List String := %s\n", tk, schLeanStrList(m)))
		if len(m) > 0 {
			missing = append(missing, miss{tk, m})
		}
		// struct fields transmitted piecewise ("FileContract.Filesize", ...): check one level down
		for _, top := range order {
			if heads[top] {
				continue
			}
			decl, ok := g.subFields(u0, top)
			if !ok {
				g.errs = append(g.errs, fmt.Sprintf("schema %s: cannot resolve the struct of piecewise field %s", tk, top))
				continue
			}
			var sm []string
			for _, f := range decl {
				found := false
				for _, x := range groups[top] {
					if x == f || strings.HasPrefix(x, f+".") {
						found = true
					}
				}
				if !found {
					sm = append(sm, f)
				}
			}
			if len(sm) > 0 {
				missing = append(missing, miss{tk + "." + top, sm})
			}
		}
	}
	sb.WriteString("\n/-- declared struct fields that no encoder label schMentions (must equal the committed allow-list) -/\ndef missingFields : List (String × List String) := [\n")
	for i, m := range missing {
		sep := ","
		if i == len(missing)-1 {
			sep = ""
		}
		sb.WriteString(fmt.Sprintf("  (%q, %s)%s\n", m.name, schLeanStrList(m.fields), sep))
	}
	sb.WriteString("]\n\n/-- fields the decoder sets without reading the stream (not transmitted) -/\ndef decoderConstants : List (String × List String) := [\n")
	first := true
	for _, k := range both {
		if u := g.units[k]; len(u.consts) > 0 {
			if !first {
				sb.WriteString(",\n")
			}
			first = false
			sb.WriteString(fmt.Sprintf("  (%q, %s)", k, schLeanStrList(u.consts)))
		}
	}
	sb.WriteString("\n")
	sort.Strings(irregular)
	sb.WriteString("]\n\n/-- codecs that are not straight sequences of the regular shapes -/\ndef irregularCodecs : List String := " + schLeanStrList(irregular) + "\n")
	// ---- the length-prefix guards of the shared helpers (what `slice`/`bytes` assume)
	sb.WriteString("\n/-- (helper, condition under which it refuses the length prefix `n`) -/\ndef prefixGuards : List (String × String) := [\n")
	for i, fn := range []string{"Decoder.ReadBytes", "DecodeSlice", "DecodeSliceFn"} {
		cond, err := g.prefixGuard(coreMod + "/types." + fn)
		if err != "" {
			g.errs = append(g.errs, "schema guard "+fn+": "+err)
		}
		sep := ","
		if i == 2 {
			sep = ""
		}
		sb.WriteString(fmt.Sprintf("  (%q, %q)%s\n", fn, cond, sep))
	}
	sb.WriteString("]\n")
	// ---- how the shared slice helpers size their result (append growth: one slot per
	// element decoded; a pre-sizing from the claimed count shows up here)
	sb.WriteString("\n/-- (helper, every statement / call in its body that creates or grows a slice, in source order) -/\ndef sliceGrowth : List (String × List String) := [\n")
	for i, fn := range []string{"Decoder.ReadBytes", "DecodeSlice", "DecodeSliceFn", "DecodeSliceCast"} {
		sites, err := g.sliceGrowth(coreMod + "/types." + fn)
		if err != "" {
			g.errs = append(g.errs, "schema slice growth "+fn+": "+err)
		}
		sep := ","
		if i == 3 {
			sep = ""
		}
		sb.WriteString(fmt.Sprintf("  (%q, %s)%s\n", fn, schLeanStrList(sites), sep))
	}
	sb.WriteString("]\n")
	// ---- internal buffer sizes of Encoder / Decoder (value sizes that straddle them are
	// exercised by the harness)
	for _, tn := range []string{"Encoder", "Decoder"} {
		n := int64(-1)
		if pkg := L.pkgs[coreMod+"/types"]; pkg != nil {
			if obj := pkg.Scope().Lookup(tn); obj != nil {
				if st, ok := obj.Type().Underlying().(*types.Struct); ok {
					for i := 0; i < st.NumFields(); i++ {
						if st.Field(i).Name() == "buf" {
							if arr, ok := st.Field(i).Type().Underlying().(*types.Array); ok {
								n = arr.Len()
							}
						}
					}
				}
			}
		}
		if n < 0 {
			g.errs = append(g.errs, "schema buffer size: types."+tn+".buf is not an array any more")
			n = 0
		}
		sb.WriteString(fmt.Sprintf("\n/-- `len(types.%s{}.buf)` -/\ndef %sBufSize : Nat := %d\n", tn, strings.ToLower(tn), n))
	}
	// ---- every `make` in a decoder body whose size is not a literal (candidates for
	// allocation from an untrusted length); the Lean side ties the list to a reviewed one
	sb.WriteString("\n/-- (decoder, `make` call whose length is computed at run time) -/\ndef decoderMakes : List (String × String) := [\n")
	var makes []string
	for _, k := range keys {
		u := g.units[k]
		if u.dec == nil {
			continue
		}
		ast.Inspect(u.dec.Body, func(n ast.Node) bool {
			call, ok := n.(*ast.CallExpr)
			if !ok {
				return true
			}
			id, ok := call.Fun.(*ast.Ident)
			if !ok || id.Name != "make" || len(call.Args) < 2 {
				return true
			}
			lit := true
			for _, a := range call.Args[1:] {
				if _, ok := a.(*ast.BasicLit); !ok {
					lit = false
				}
			}
			if !lit {
				var pb strings.Builder
				printer.Fprint(&pb, L.fset, call)
				makes = append(makes, fmt.Sprintf("  (%q, %q)", k, pb.String()))
			}
			return true
		})
	}
	sb.WriteString(strings.Join(makes, ",\n"))
	sb.WriteString("\n]\n")
	// ---- constants of irregular codecs: the resolution type tags
	encTags, err1 := g.resolutionTags(true)
	decTags, err2 := g.resolutionTags(false)
	for _, e := range []string{err1, err2} {
		if e != "" {
			g.errs = append(g.errs, "schema Types_V2FileContractResolution tags: "+e)
		}
	}
	sb.WriteString("\n/-- V2FileContractResolution.EncodeTo: payload type -> tag byte -/\ndef resolutionTagsEnc : List (String × Nat) := " + encTags + "\n")
	sb.WriteString("/-- V2FileContractResolution.DecodeFrom: payload type -> tag byte -/\ndef resolutionTagsDec : List (String × Nat) := " + decTags + "\n")
	// ---- V2Transaction: version byte, presence bitmap, fields
	for _, side := range []bool{true, false} {
		src, err := g.v2TxnFacts(side)
		if err != "" {
			g.errs = append(g.errs, "schema Types_V2Transaction bitmap: "+err)
		}
		sb.WriteString(src)
	}
	sb.WriteString("\nend Sia.Codec.Gen\n")
	report := map[string]any{"units": rep, "regular": len(both), "irregular": len(irregular), "enc_only": len(encOnly)}
	return sb.String(), report, g.errs
}

// resolutionTags reads the type switch of V2FileContractResolution.EncodeTo
// (`case *T: e.WriteUint8(n)`) or the tag switch of DecodeFrom
// (`case n: res.Resolution = new(T)`); the method must otherwise be
// `res.Parent.<codec>; switch; res.Resolution.(..).<codec>`.
func (g *schGen) resolutionTags(enc bool) (string, string) {
	name := "DecodeFrom"
	if enc {
		name = "EncodeTo"
	}
	fd := g.L.funcs[coreMod+"/types.V2FileContractResolution."+name]
	if fd == nil || fd.Body == nil || len(fd.Body.List) != 3 {
		return "[]", name + " does not have the shape parent; switch; payload"
	}
	var pairs []string
	lit := func(e ast.Expr) (string, bool) {
		bl, ok := e.(*ast.BasicLit)
		if !ok || bl.Kind != token.INT {
			return "", false
		}
		return bl.Value, true
	}
	typeName := func(e ast.Expr) (string, bool) {
		if st, ok := e.(*ast.StarExpr); ok {
			e = st.X
		}
		id, ok := e.(*ast.Ident)
		if !ok {
			return "", false
		}
		return id.Name, true
	}
	if enc {
		ts, ok := fd.Body.List[1].(*ast.TypeSwitchStmt)
		if !ok {
			return "[]", "no type switch"
		}
		for _, cc := range ts.Body.List {
			c := cc.(*ast.CaseClause)
			if c.List == nil { // default: panic
				continue
			}
			if len(c.List) != 1 || len(c.Body) != 1 {
				return "[]", "unrecognised case"
			}
			tn, ok := typeName(c.List[0])
			es, ok2 := c.Body[0].(*ast.ExprStmt)
			if !ok || !ok2 {
				return "[]", "unrecognised case"
			}
			call, ok := es.X.(*ast.CallExpr)
			if !ok || len(call.Args) != 1 {
				return "[]", "unrecognised case"
			}
			se, ok := call.Fun.(*ast.SelectorExpr)
			v, ok2 := lit(call.Args[0])
			if !ok || !ok2 || se.Sel.Name != "WriteUint8" {
				return "[]", "unrecognised case"
			}
			pairs = append(pairs, fmt.Sprintf("(%q, %s)", tn, v))
		}
	} else {
		ss, ok := fd.Body.List[1].(*ast.SwitchStmt)
		if !ok {
			return "[]", "no tag switch"
		}
		for _, cc := range ss.Body.List {
			c := cc.(*ast.CaseClause)
			if c.List == nil { // default: SetErr
				continue
			}
			if len(c.List) != 1 || len(c.Body) != 1 {
				return "[]", "unrecognised case"
			}
			v, ok := lit(c.List[0])
			as, ok2 := c.Body[0].(*ast.AssignStmt)
			if !ok || !ok2 || len(as.Rhs) != 1 {
				return "[]", "unrecognised case"
			}
			call, ok := as.Rhs[0].(*ast.CallExpr)
			if !ok || len(call.Args) != 1 {
				return "[]", "unrecognised case"
			}
			if id, ok := call.Fun.(*ast.Ident); !ok || id.Name != "new" {
				return "[]", "unrecognised case"
			}
			tn, ok := typeName(call.Args[0])
			if !ok {
				return "[]", "unrecognised case"
			}
			pairs = append(pairs, fmt.Sprintf("(%q, %s)", tn, v))
		}
	}
	return "[" + strings.Join(pairs, ", ") + "]", ""
}

// v2TxnFacts reads V2Transaction.EncodeTo / DecodeFrom: the version constant, the
// emptiness test of every bitmap position (encoder) and, per `if fields&(1<<i) != 0`
// block, the bit index, the field and its (regular) schema.
func (g *schGen) v2TxnFacts(enc bool) (string, string) {
	name, pre := "DecodeFrom", "Dec"
	if enc {
		name, pre = "EncodeTo", "Enc"
	}
	empty := fmt.Sprintf("def v2TxnVersion%s : Nat := 0\ndef v2TxnFields%s : List (Nat × String × ZeroKind × Sch) := []\n", pre, pre)
	fd := g.L.funcs[coreMod+"/types.V2Transaction."+name]
	if fd == nil || fd.Body == nil {
		return empty, name + " not found"
	}
	c := &schCtx{g: g, enc: enc, recv: schRecvName(fd), ed: schParamName(fd.Type, 0)}
	var consts []string
	c.consts = &consts
	version := ""
	kinds := map[string]string{}
	var order []string
	type fld struct {
		bit string
		f   schField
	}
	var flds []fld
	var perr string
	func() {
		defer func() {
			if r := recover(); r != nil {
				if pe, ok := r.(schParseErr); ok {
					perr = pe.msg
					return
				}
				panic(r)
			}
		}()
		for _, st := range fd.Body.List {
			switch s := st.(type) {
			case *ast.DeclStmt: // const version = 2 ; var fields uint64
				gd := s.Decl.(*ast.GenDecl)
				if gd.Tok == token.CONST {
					vs := gd.Specs[0].(*ast.ValueSpec)
					if len(vs.Values) == 1 {
						if bl, ok := vs.Values[0].(*ast.BasicLit); ok {
							version = bl.Value
						}
					}
				}
			case *ast.RangeStmt: // for i, b := range [...]bool{...}
				cl, ok := schUnparen(s.X).(*ast.CompositeLit)
				if !ok {
					c.fail(s, "unrecognised loop")
				}
				for _, el := range cl.Elts {
					el = schUnparen(el)
					kind, target := "", ast.Expr(nil)
					if be, ok := el.(*ast.BinaryExpr); ok && be.Op == token.NEQ {
						if call, ok := be.X.(*ast.CallExpr); ok {
							if id, ok := call.Fun.(*ast.Ident); ok && id.Name == "len" && len(call.Args) == 1 {
								kind, target = ".len", call.Args[0]
							}
						} else if id, ok := be.Y.(*ast.Ident); ok && id.Name == "nil" {
							kind, target = ".never", be.X
						}
					} else if ue, ok := el.(*ast.UnaryExpr); ok && ue.Op == token.NOT {
						if call, ok := ue.X.(*ast.CallExpr); ok && len(call.Args) == 0 {
							if se, ok := call.Fun.(*ast.SelectorExpr); ok && se.Sel.Name == "IsZero" {
								kind, target = ".zero", se.X
							}
						}
					}
					p, ok := "", false
					if target != nil {
						p, ok = c.path(target)
					}
					if kind == "" || !ok {
						c.fail(el, "unrecognised emptiness test")
					}
					kinds[p] = kind
					order = append(order, p)
				}
			case *ast.IfStmt:
				if s.Init != nil { // if version := d.ReadUint8(); version != 2 {...}
					if be, ok := s.Cond.(*ast.BinaryExpr); ok && be.Op == token.NEQ {
						if bl, ok := be.Y.(*ast.BasicLit); ok {
							version = bl.Value
						}
					}
					continue
				}
				// fields&(1<<i) != 0
				var pb strings.Builder
				printer.Fprint(&pb, g.L.fset, s.Cond)
				cond := pb.String()
				if !strings.HasPrefix(cond, "fields&(1<<") || !strings.HasSuffix(cond, ") != 0") {
					c.fail(s, "unrecognised condition %s", cond)
				}
				bit := strings.TrimSuffix(strings.TrimPrefix(cond, "fields&(1<<"), ") != 0")
				fs := c.stmts(s.Body.List)
				if len(fs) != 1 || s.Else != nil {
					c.fail(s, "a bitmap block must hold exactly one field")
				}
				flds = append(flds, fld{bit, fs[0]})
			case *ast.ExprStmt, *ast.AssignStmt:
				// e.WriteUint8(version), e.WriteUint64(fields), fields := d.ReadUint64()
			default:
				c.fail(st, "unrecognised statement (%T)", st)
			}
		}
	}()
	if perr != "" {
		return empty, perr
	}
	if version == "" {
		return empty, "no version constant"
	}
	var sb strings.Builder
	sb.WriteString(fmt.Sprintf("\n/-- V2Transaction.%s: version byte -/\ndef v2TxnVersion%s : Nat := %s\n", name, pre, version))
	sb.WriteString(fmt.Sprintf("/-- V2Transaction.%s: (bit, field, emptiness test, schema) per bitmap block -/\ndef v2TxnFields%s : List (Nat × String × ZeroKind × Sch) := [\n", name, pre))
	for i, f := range flds {
		k := ".len"
		if enc {
			if i >= len(order) || order[i] != f.f.label {
				return empty, "the emptiness tests and the bitmap blocks are not in the same order"
			}
			k = kinds[f.f.label]
		}
		sep := ","
		if i == len(flds)-1 {
			sep = ""
		}
		sb.WriteString(fmt.Sprintf("  (%s, %q, %s, %s)%s\n", f.bit, f.f.label, k, f.f.expr, sep))
	}
	sb.WriteString("]\n")
	if enc && len(order) != len(flds) {
		return empty, "the number of emptiness tests differs from the number of bitmap blocks"
	}
	return sb.String(), ""
}

// prefixGuard: the helper must start with `n := d.ReadUint64()` followed by
// `if <cond> { d.SetErr(...); return ... }`; returns the text of <cond>.
func (g *schGen) prefixGuard(key string) (string, string) {
	fd := g.L.funcs[key]
	if fd == nil || fd.Body == nil || len(fd.Body.List) < 2 {
		return "", "function not found"
	}
	as, ok := fd.Body.List[0].(*ast.AssignStmt)
	if !ok || len(as.Lhs) != 1 || len(as.Rhs) != 1 {
		return "", "does not start by reading the prefix"
	}
	var pb strings.Builder
	printer.Fprint(&pb, g.L.fset, as)
	if pb.String() != "n := d.ReadUint64()" {
		return "", "does not start with n := d.ReadUint64() but " + pb.String()
	}
	is, ok := fd.Body.List[1].(*ast.IfStmt)
	if !ok || is.Init != nil || is.Else != nil || len(is.Body.List) != 2 {
		return "", "the prefix is not followed by a guard"
	}
	if es, ok := is.Body.List[0].(*ast.ExprStmt); !ok {
		return "", "guard does not set the error"
	} else if call, ok := es.X.(*ast.CallExpr); !ok {
		return "", "guard does not set the error"
	} else if se, ok := call.Fun.(*ast.SelectorExpr); !ok || se.Sel.Name != "SetErr" {
		return "", "guard does not set the error"
	}
	if _, ok := is.Body.List[1].(*ast.ReturnStmt); !ok {
		return "", "guard does not return"
	}
	var cb strings.Builder
	printer.Fprint(&cb, g.L.fset, is.Cond)
	return cb.String(), ""
}

// sliceGrowth lists, in source order, what in the body of a decoding helper creates or
// grows a slice: `var x []T` declarations, calls of make / append / new, calls into
// package slices / bytes, and calls of generic helpers (delegation).
func (g *schGen) sliceGrowth(key string) ([]string, string) {
	fd := g.L.funcs[key]
	if fd == nil || fd.Body == nil {
		return nil, "function not found"
	}
	var out []string
	render := func(n ast.Node) string {
		var pb strings.Builder
		printer.Fprint(&pb, g.L.fset, n)
		return pb.String()
	}
	ast.Inspect(fd.Body, func(n ast.Node) bool {
		switch x := n.(type) {
		case *ast.DeclStmt:
			if gd, ok := x.Decl.(*ast.GenDecl); ok && gd.Tok == token.VAR {
				for _, sp := range gd.Specs {
					if vs, ok := sp.(*ast.ValueSpec); ok {
						if at, ok := vs.Type.(*ast.ArrayType); ok && at.Len == nil {
							out = append(out, render(x))
						}
					}
				}
			}
		case *ast.CallExpr:
			switch f := x.Fun.(type) {
			case *ast.Ident:
				if f.Name == "make" || f.Name == "append" || f.Name == "new" {
					out = append(out, render(x))
				}
			case *ast.SelectorExpr:
				if id, ok := f.X.(*ast.Ident); ok && (id.Name == "slices" || id.Name == "bytes") {
					out = append(out, render(x))
				}
			case *ast.IndexExpr, *ast.IndexListExpr:
				out = append(out, render(x))
			}
		}
		return true
	})
	return out, ""
}

// schFieldsTerm: like schFieldsExpr but one field per line
func schFieldsTerm(fs []schField) string {
	if len(fs) == 0 {
		return ".nil"
	}
	if len(fs) == 1 && fs[0].label == "" {
		return fs[0].expr
	}
	var sb strings.Builder
	for _, f := range fs {
		if f.label == "" {
			sb.WriteString("Sch.append " + f.expr + " <|\n  ")
		} else {
			sb.WriteString(fmt.Sprintf(".cons %q %s <|\n  ", f.label, f.expr))
		}
	}
	sb.WriteString(".nil")
	return sb.String()
}
