// Package fw is the small framework shared by all property harnesses: seeded
// randomness, the pipe to the Lean model driver, result/evidence accounting.
package fw

import (
	"bufio"
	"crypto/sha256"
	"encoding/hex"
	"encoding/json"
	"fmt"
	"io"
	"math/rand"
	"os"
	"os/exec"
	"path/filepath"
	"sort"
	"strings"
	"sync"
)

// A Violation is a concrete input on which the REAL code contradicts the
// property statement (found by a statement-level oracle, independent of the
// Lean model).
type Violation struct {
	Key      string `json:"key"`  // stable identifier (matched against known_findings.txt)
	What     string `json:"what"` // one line
	Replay   any    `json:"replay"`
	Expected string `json:"expected,omitempty"`
	Observed string `json:"observed,omitempty"`
}

// A Disagreement is a case on which the Lean model and the Go code differ.
type Disagreement struct {
	Op    string `json:"op"`
	Go    string `json:"go"`
	Model string `json:"model"`
	Note  string `json:"note,omitempty"`
}

// Result is what a property harness reports.
type Result struct {
	Property      string         `json:"property"`
	Evaluations   int            `json:"evaluations"`
	Nontrivial    int            `json:"distinct_nontrivial"`
	Rule          string         `json:"rule"`
	Samples       []any          `json:"samples"`
	Distribution  map[string]int `json:"distribution"`
	ModelOps      int            `json:"model_ops"`
	Disagreements []Disagreement `json:"disagreements"`
	Violations    []Violation    `json:"violations"`
	Notes         []string       `json:"notes"`
	Exhaustive    bool           `json:"exhaustive,omitempty"`
	ModelUsed     bool           `json:"model_used"`

	mu       sync.Mutex
	distinct map[[32]byte]struct{}
}

// Ctx carries the run configuration.
type Ctx struct {
	Seed    int64
	Tier    string // quick | thorough
	Search  bool   // a proof/tie broke: spend the budget looking for a failing input
	Model   *Model // nil when the model could not be built
	Rng     *rand.Rand
	Res     *Result
	Replay  string // path of a replay file to re-run ("" = normal run)
	WorkDir string
}

func (c *Ctx) Thorough() bool { return c.Tier == "thorough" || c.Search }

// Budget picks a count by tier.
func (c *Ctx) Budget(quick, thorough int) int {
	if c.Thorough() {
		return thorough
	}
	return quick
}

func NewResult(prop string) *Result {
	return &Result{Property: prop, Distribution: map[string]int{}, distinct: map[[32]byte]struct{}{}}
}

// Count adds to a distribution bucket.
func (r *Result) Count(bucket string) {
	r.mu.Lock()
	r.Distribution[bucket]++
	r.mu.Unlock()
}

func (r *Result) CountN(bucket string, n int) {
	r.mu.Lock()
	r.Distribution[bucket] += n
	r.mu.Unlock()
}

// Eval records one evaluated case; nontrivial cases are de-duplicated by content.
func (r *Result) Eval(caseRepr string, nontrivial bool) {
	r.mu.Lock()
	r.Evaluations++
	if nontrivial {
		h := sha256.Sum256([]byte(caseRepr))
		if _, ok := r.distinct[h]; !ok {
			r.distinct[h] = struct{}{}
			r.Nontrivial++
		}
	}
	r.mu.Unlock()
}

func (r *Result) Sample(s any) {
	r.mu.Lock()
	if len(r.Samples) < 12 {
		r.Samples = append(r.Samples, s)
	}
	r.mu.Unlock()
}

func (r *Result) Note(f string, a ...any) {
	r.mu.Lock()
	r.Notes = append(r.Notes, fmt.Sprintf(f, a...))
	r.mu.Unlock()
}

func (r *Result) Violate(v Violation) {
	r.mu.Lock()
	defer r.mu.Unlock()
	for _, o := range r.Violations {
		if o.Key == v.Key {
			return
		}
	}
	if len(r.Violations) < 50 {
		r.Violations = append(r.Violations, v)
	}
}

func (r *Result) Disagree(d Disagreement) {
	r.mu.Lock()
	if len(r.Disagreements) < 50 {
		r.Disagreements = append(r.Disagreements, d)
	}
	r.mu.Unlock()
}

// ---------------------------------------------------------------- model pipe

// Model is a running Lean driver process speaking the line protocol.
type Model struct {
	path string
}

func NewModel(path string) (*Model, error) {
	if _, err := os.Stat(path); err != nil {
		return nil, err
	}
	return &Model{path: path}, nil
}

// Eval sends every line to a fresh driver process and returns one output line
// per input line. The input is split over `workers` processes.
func (m *Model) Eval(lines []string) ([]string, error) {
	if len(lines) == 0 {
		return nil, nil
	}
	workers := 1
	if len(lines) > 2000 {
		workers = 8
	}
	out := make([]string, len(lines))
	var wg sync.WaitGroup
	errs := make([]error, workers)
	chunk := (len(lines) + workers - 1) / workers
	for w := 0; w < workers; w++ {
		lo, hi := w*chunk, (w+1)*chunk
		if lo >= len(lines) {
			break
		}
		if hi > len(lines) {
			hi = len(lines)
		}
		wg.Add(1)
		go func(w, lo, hi int) {
			defer wg.Done()
			res, err := m.evalOne(lines[lo:hi])
			if err != nil {
				errs[w] = err
				return
			}
			copy(out[lo:hi], res)
		}(w, lo, hi)
	}
	wg.Wait()
	for _, e := range errs {
		if e != nil {
			return nil, e
		}
	}
	return out, nil
}

func (m *Model) evalOne(lines []string) ([]string, error) {
	cmd := exec.Command(m.path)
	stdin, err := cmd.StdinPipe()
	if err != nil {
		return nil, err
	}
	stdout, err := cmd.StdoutPipe()
	if err != nil {
		return nil, err
	}
	cmd.Stderr = os.Stderr
	if err := cmd.Start(); err != nil {
		return nil, err
	}
	go func() {
		w := bufio.NewWriterSize(stdin, 1<<20)
		for _, l := range lines {
			w.WriteString(l)
			w.WriteByte('\n')
		}
		w.Flush()
		stdin.Close()
	}()
	var out []string
	sc := bufio.NewReaderSize(stdout, 1<<20)
	for {
		l, err := sc.ReadString('\n')
		if l != "" {
			out = append(out, strings.TrimRight(l, "\n"))
		}
		if err == io.EOF {
			break
		}
		if err != nil {
			return nil, err
		}
	}
	if err := cmd.Wait(); err != nil {
		return nil, fmt.Errorf("model driver: %w", err)
	}
	if len(out) != len(lines) {
		return nil, fmt.Errorf("model driver returned %d lines for %d ops (first op %q)", len(out), len(lines), lines[0])
	}
	return out, nil
}

// Compare pipes ops to the model and records a disagreement for each line where
// the model's answer differs from goOut. Returns the number of disagreements.
func (c *Ctx) Compare(ops []string, goOut []string) int {
	if c.Model == nil {
		return 0
	}
	c.Res.ModelUsed = true
	res, err := c.Model.Eval(ops)
	if err != nil {
		c.Res.Disagree(Disagreement{Op: "(driver)", Go: "", Model: err.Error(), Note: "model driver failed"})
		if d := os.Getenv("VERIF_DUMP_OPS"); d != "" {
			os.WriteFile(d, []byte(strings.Join(ops, "\n")+"\n"), 0o644)
		}
		return 1
	}
	n := 0
	for i := range ops {
		c.Res.ModelOps++
		if res[i] != goOut[i] {
			n++
			c.Res.Disagree(Disagreement{Op: ops[i], Go: goOut[i], Model: res[i]})
		}
	}
	return n
}

// ---------------------------------------------------------------- helpers

func Hex(b []byte) string { return hex.EncodeToString(b) }

func SortedKeys(m map[string]int) []string {
	var ks []string
	for k := range m {
		ks = append(ks, k)
	}
	sort.Strings(ks)
	return ks
}

// WriteJSON writes v to path, creating directories.
func WriteJSON(path string, v any) error {
	if err := os.MkdirAll(filepath.Dir(path), 0o755); err != nil {
		return err
	}
	b, err := json.MarshalIndent(v, "", " ")
	if err != nil {
		return err
	}
	return os.WriteFile(path, b, 0o644)
}

// Recover runs f and converts a panic into (true, message).
func Recover(f func()) (panicked bool, msg string) {
	defer func() {
		if r := recover(); r != nil {
			panicked = true
			msg = fmt.Sprint(r)
		}
	}()
	f()
	return
}

// Runner is a property harness.
type Runner func(c *Ctx)

var registry = map[string]Runner{}

func Register(prop string, r Runner) { registry[prop] = r }
func Lookup(prop string) Runner       { return registry[prop] }
func Props() []string {
	var ks []string
	for k := range registry {
		ks = append(ks, k)
	}
	sort.Strings(ks)
	return ks
}
