package chain

// Independent membership check against State.Elements (exported fields Trees and
// NumLeaves): recomputes the element's leaf hash and Merkle root with this
// package's own tree code.

import (
	"encoding/binary"

	"go.sia.tech/core/consensus"
	"go.sia.tech/core/types"
)

func elemLeaf(elemHash types.Hash256, idx uint64, spent bool) types.Hash256 {
	buf := make([]byte, 1+32+8+1)
	copy(buf[1:], elemHash[:])
	binary.LittleEndian.PutUint64(buf[33:], idx)
	if spent {
		buf[41] = 1
	}
	return types.HashBytes(buf)
}

func hashWith(dist string, parts ...types.EncoderTo) types.Hash256 {
	h := types.NewHasher()
	h.WriteDistinguisher(dist)
	for _, p := range parts {
		p.EncodeTo(h.E)
	}
	return h.Sum()
}

type u64 uint64

func (u u64) EncodeTo(e *types.Encoder) { e.WriteUint64(uint64(u)) }

func SCElemHash(e types.SiacoinElement) types.Hash256 {
	return hashWith("leaf/siacoin", e.ID, types.V2SiacoinOutput(e.SiacoinOutput), u64(e.MaturityHeight))
}
func SFElemHash(e types.SiafundElement) types.Hash256 {
	return hashWith("leaf/siafund", e.ID, types.V2SiafundOutput(e.SiafundOutput), types.V2Currency(e.ClaimStart))
}
func FCElemHash(e types.FileContractElement) types.Hash256 {
	return hashWith("leaf/filecontract", e.ID, e.FileContract)
}
func V2FCElemHash(e types.V2FileContractElement) types.Hash256 {
	return hashWith("leaf/v2filecontract", e.ID, e.V2FileContract)
}
func CIElemHash(e types.ChainIndexElement) types.Hash256 {
	return hashWith("leaf/chainindex", e.ID, e.ChainIndex)
}

// Member reports whether the leaf (elemHash, index, spent) with the given proof
// is in the accumulator.
func Member(acc consensus.ElementAccumulator, elemHash types.Hash256, se types.StateElement, spent bool) bool {
	n := len(se.MerkleProof)
	if n >= 64 || acc.NumLeaves&(1<<uint(n)) == 0 || se.LeafIndex >= acc.NumLeaves {
		return false
	}
	root := elemLeaf(elemHash, se.LeafIndex, spent)
	for i, h := range se.MerkleProof {
		if se.LeafIndex&(1<<uint(i)) == 0 {
			root = nodeHash(root, h)
		} else {
			root = nodeHash(h, root)
		}
	}
	return acc.Trees[n] == root
}

// VerifyStore checks that every element of the store is an unspent member of
// the state's accumulator. Returns a description of the first failure.
func (st *Store) VerifyAgainst(cs consensus.State) string {
	for id, e := range st.SC {
		if !Member(cs.Elements, SCElemHash(e), e.StateElement, false) {
			return "siacoin element " + hexs(id[:])
		}
	}
	for id, e := range st.SF {
		if !Member(cs.Elements, SFElemHash(e), e.StateElement, false) {
			return "siafund element " + hexs(id[:])
		}
	}
	for id, e := range st.FC {
		if !Member(cs.Elements, FCElemHash(e), e.StateElement, false) {
			return "file contract element " + hexs(id[:])
		}
	}
	for id, e := range st.V2FC {
		if !Member(cs.Elements, V2FCElemHash(e), e.StateElement, false) {
			return "v2 file contract element " + hexs(id[:])
		}
	}
	for _, e := range st.CIE {
		if !Member(cs.Elements, CIElemHash(e), e.StateElement, false) {
			return "chain index element " + hexs(e.ID[:])
		}
	}
	return ""
}
