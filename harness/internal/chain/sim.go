package chain

import (
	"bytes"
	"errors"
	"fmt"
	"math/rand"
	"sort"
	"strings"
	"time"

	"go.sia.tech/core/consensus"
	"go.sia.tech/core/types"
)

// Sim grows a chain block by block with random valid transactions of every kind.
type Sim struct {
	Monthly bool // Foundation subsidy due every 1-3 blocks (mode suffix "-monthly")
	Net     *consensus.Network
	Genesis types.Block
	Rng     *rand.Rand
	W       *Wallet

	Tip     consensus.State
	Parents []consensus.State // Parents[h] = state block h was applied to
	Blocks  []types.Block
	Supps   []consensus.V1BlockSupplement
	Times   []time.Time
	St      *Store

	Files   map[types.Hash256][]byte // contract data by Merkle root, for storage proofs
	Mode    string
	Counts  map[string]int // what the generator produced (input distribution)
	MaxTxns int

	pendingData [][]byte
}

// Mode: "v1" (v2 never allowed within the run), "mixed" (all eras crossed within
// ~40 blocks), "v2" (v2 required almost from the start), "legacy" (like mixed,
// with the ephemeral-output fix height inside the v2 era).
func RandomNetwork(rng *rand.Rand, mode string) *consensus.Network {
	n := &consensus.Network{
		Name:            "verif-" + mode,
		InitialCoinbase: types.Siacoins(uint32(300000 + rng.Intn(1000))),
		MinimumCoinbase: types.Siacoins(uint32(299990 + rng.Intn(10))),
		InitialTarget:   types.BlockID{0xFF},
		BlockInterval:   time.Duration(1+rng.Intn(600)) * time.Second,
		MaturityDelay:   uint64(1 + rng.Intn(4)),
	}
	h := uint64(1)
	next := func(max int) uint64 { h += uint64(rng.Intn(max + 1)); return h }
	n.HardforkDevAddr.Height = next(2)
	n.HardforkTax.Height = next(3)
	n.HardforkStorageProof.Height = next(3)
	n.HardforkOak.Height = next(3)
	n.HardforkOak.FixHeight = next(3)
	n.HardforkOak.GenesisTimestamp = time.Unix(1618033988, 0)
	n.HardforkASIC.Height = next(3)
	n.HardforkASIC.OakTime = 10000 * time.Second
	n.HardforkASIC.OakTarget = n.InitialTarget
	n.HardforkASIC.NonceFactor = uint64(1 + rng.Intn(1100))
	n.HardforkFoundation.Height = next(3)
	switch mode {
	case "v1":
		n.HardforkV2.AllowHeight = 100000
		n.HardforkV2.RequireHeight = 100010
		n.HardforkV2.FinalCutHeight = 100020
	case "v2":
		n.HardforkDevAddr.Height, n.HardforkTax.Height, n.HardforkStorageProof.Height = 0, 0, 0
		n.HardforkOak.Height, n.HardforkOak.FixHeight, n.HardforkASIC.Height, n.HardforkFoundation.Height = 0, 0, 0, 0
		n.HardforkV2.AllowHeight = 0
		n.HardforkV2.RequireHeight = uint64(rng.Intn(3))
		n.HardforkV2.FinalCutHeight = n.HardforkV2.RequireHeight + uint64(rng.Intn(12))
	default:
		n.HardforkV2.AllowHeight = next(6) + 2
		n.HardforkV2.RequireHeight = n.HardforkV2.AllowHeight + uint64(3+rng.Intn(10))
		n.HardforkV2.FinalCutHeight = n.HardforkV2.RequireHeight + uint64(rng.Intn(10))
	}
	if mode == "legacy" {
		n.HardforkV2.EphemeralOutputHeight = n.HardforkV2.AllowHeight + uint64(2+rng.Intn(8))
	}
	if mode == "legacy-long" {
		// the legacy ephemeral window stays open for the whole generated chain
		n.HardforkV2.EphemeralOutputHeight = n.HardforkV2.AllowHeight + 100000
	}
	return n
}

func NewSim(rng *rand.Rand, mode string) *Sim {
	monthly := strings.HasSuffix(mode, "-monthly")
	mode = strings.TrimSuffix(mode, "-monthly")
	s := &Sim{Rng: rng, Mode: mode, Monthly: monthly, W: NewWallet(rng, 6), St: NewStore(), Files: map[types.Hash256][]byte{}, Counts: map[string]int{}, MaxTxns: 6}
	s.Net = RandomNetwork(rng, mode)
	if monthly {
		// blocksPerYear = 12k exactly, so the Foundation subsidy falls due every k blocks
		k := 1 + rng.Intn(3)
		s.Net.BlockInterval = 365 * 24 * time.Hour / time.Duration(12*k)
	}
	t0 := s.Net.HardforkOak.GenesisTimestamp
	// foundation addresses are wallet addresses so that updates can be authorised
	fp := s.W.NewRecipeKind("uc1", 0, t0)
	ff := s.W.NewRecipeKind("uc1", 0, t0)
	s.Net.HardforkFoundation.PrimaryAddress = fp.Addr
	s.Net.HardforkFoundation.FailsafeAddress = ff.Addr
	// genesis allocation
	var gtx types.Transaction
	v2ok := s.Net.HardforkV2.AllowHeight <= 2
	for i := 0; i < 10; i++ {
		kind := "uc1"
		if i%3 == 1 {
			kind = "uc2of3"
		}
		if v2ok && i%2 == 1 {
			kind = []string{"pk", "thresh", "hash"}[i%3]
		}
		r := s.W.NewRecipeKind(kind, 0, t0)
		gtx.SiacoinOutputs = append(gtx.SiacoinOutputs, types.SiacoinOutput{Address: r.Addr, Value: types.Siacoins(uint32(1000 + rng.Intn(100000)))})
	}
	// the two foundation addresses get funds so they can sign updates
	gtx.SiacoinOutputs = append(gtx.SiacoinOutputs, types.SiacoinOutput{Address: fp.Addr, Value: types.Siacoins(5000)}, types.SiacoinOutput{Address: ff.Addr, Value: types.Siacoins(5000)})
	rem := uint64(10000)
	for i := 0; i < 4; i++ {
		v := rem
		if i < 3 {
			v = 1 + uint64(rng.Intn(int(rem/2)))
		}
		rem -= v
		kind := "uc1"
		if v2ok && i%2 == 1 {
			kind = "pk"
		}
		r := s.W.NewRecipeKind(kind, 0, t0)
		gtx.SiafundOutputs = append(gtx.SiafundOutputs, types.SiafundOutput{Address: r.Addr, Value: v})
	}
	// the developer-address override (HardforkDevAddr): siafunds held by OldAddress may, from the hardfork height on,
	// also be spent by revealing the unlock conditions of NewAddress — here conditions with a timelock a few blocks ahead
	devNew := s.W.NewRecipeKind("uclock", 6+uint64(rng.Intn(6)), t0)
	s.Net.HardforkDevAddr.OldAddress = gtx.SiafundOutputs[0].Address
	s.Net.HardforkDevAddr.NewAddress = devNew.Addr
	// the old address also holds siacoins: the override is for siafunds only
	gtx.SiacoinOutputs = append(gtx.SiacoinOutputs, types.SiacoinOutput{Address: s.Net.HardforkDevAddr.OldAddress, Value: types.Siacoins(7000)})
	s.Genesis = types.Block{Timestamp: t0, Transactions: []types.Transaction{gtx}}
	if s.Net.HardforkV2.RequireHeight == 0 {
		// a v2-only network needs a v2 genesis
		var vtx types.V2Transaction
		vtx.SiacoinOutputs = gtx.SiacoinOutputs
		vtx.SiafundOutputs = gtx.SiafundOutputs
		s.Genesis = types.Block{Timestamp: t0, V2: &types.V2BlockData{Height: 0, Transactions: []types.V2Transaction{vtx}}}
	}
	gs := s.Net.GenesisState()
	bs := consensus.V1BlockSupplement{Transactions: make([]consensus.V1TransactionSupplement, len(s.Genesis.Transactions))}
	cs, au := consensus.ApplyBlock(gs, s.Genesis, bs, time.Time{})
	s.Parents = append(s.Parents, gs)
	s.Blocks = append(s.Blocks, s.Genesis)
	s.Supps = append(s.Supps, bs)
	s.Times = append(s.Times, t0)
	s.St.Apply(au)
	s.Tip = cs
	return s
}

func (s *Sim) Height() uint64      { return s.Tip.Index.Height }
func (s *Sim) ChildHeight() uint64 { return s.Tip.Index.Height + 1 }

func (s *Sim) V2Allowed() bool   { return s.ChildHeight() >= s.Net.HardforkV2.AllowHeight }
func (s *Sim) V1Forbidden() bool { return s.ChildHeight() >= s.Net.HardforkV2.RequireHeight }

// TargetTimestamp is the ancestor timestamp ApplyBlock wants for the pre-Oak
// difficulty adjustment (the block AncestorDepth before the parent, clamped).
func (s *Sim) TargetTimestamp() time.Time {
	h := s.Tip.Index.Height
	d := s.Tip.AncestorDepth()
	if h < d {
		return s.Times[0]
	}
	return s.Times[h-d]
}

func (s *Sim) MedianTime() time.Time {
	// independent of core: median of the last min(11, n) timestamps
	n := len(s.Times)
	k := 11
	if n < k {
		k = n
	}
	ts := append([]time.Time(nil), s.Times[n-k:]...)
	sort.Slice(ts, func(i, j int) bool { return ts[i].Before(ts[j]) })
	if k%2 == 1 {
		return ts[k/2]
	}
	l, r := ts[k/2-1], ts[k/2]
	return l.Add(r.Sub(l) / 2)
}

// blockCtx tracks what the block under construction already uses.
type blockCtx struct {
	used      map[types.Hash256]bool // element ids spent / revised / resolved in this block
	fees      types.Currency
	ts        time.Time
	ephemeral []types.SiacoinElement // v2 outputs created in this block, spendable ephemerally
	v1made    []v1eph               // v1 siacoin outputs created in this block (spendable at once by a later v1 transaction)
	v1madeSF  []v1ephSF             // v1 siafund outputs created in this block
	inblock   []*inblockFC          // v1 contracts created or revised in this block
	v2revised map[types.FileContractID]types.V2FileContract // latest in-block revision of v2 contracts
	provedV1  map[types.FileContractID]bool                  // v1 contracts of the store proven in this block
}

type inblockFC struct {
	id              types.FileContractID
	fc              types.FileContract // as it currently stands
	elemWindowStart uint64             // WindowStart of the diff's FileContractElement (decides the window id)
	data            []byte
	proved          bool
	created         bool
}

type v1eph struct {
	id  types.SiacoinOutputID
	out types.SiacoinOutput
}

type v1ephSF struct {
	id  types.SiafundOutputID
	out types.SiafundOutput
}

func (s *Sim) recipeFor(addr types.Address) *Recipe { return s.W.Recipes[addr] }

func (s *Sim) spendable(r *Recipe, v2 bool, ts time.Time) bool {
	if r == nil {
		return false
	}
	child := s.ChildHeight()
	if v2 {
		if r.UC != nil && r.UC.Timelock > 0 && s.Tip.Index.Height < r.UC.Timelock {
			return false
		}
		if r.Kind == "above" && child < r.MinHeight {
			return false
		}
		if r.Kind == "after" && !s.MedianTime().After(r.MinTime) {
			return false
		}
		return true
	}
	if r.UC == nil {
		return false
	}
	return r.UC.Timelock <= child
}

func (s *Sim) newAddr(v2 bool, ts time.Time) types.Address {
	// outputs that only v2 can spend are only created once v1 can no longer be required
	v2ok := v2
	return s.W.NewRecipe(v2ok, s.ChildHeight(), ts).Addr
}

func sortedSC(m map[types.SiacoinOutputID]types.SiacoinElement) []types.SiacoinElement {
	out := make([]types.SiacoinElement, 0, len(m))
	for _, e := range m {
		out = append(out, e)
	}
	sort.Slice(out, func(i, j int) bool { return string(out[i].ID[:]) < string(out[j].ID[:]) })
	return out
}

func (s *Sim) pickSC(ctx *blockCtx, v2 bool, max int) []types.SiacoinElement {
	var cands []types.SiacoinElement
	for _, e := range sortedSC(s.St.SC) {
		if ctx.used[types.Hash256(e.ID)] || e.MaturityHeight > s.ChildHeight() || e.SiacoinOutput.Value.IsZero() {
			continue
		}
		if s.spendable(s.recipeFor(e.SiacoinOutput.Address), v2, ctx.ts) {
			cands = append(cands, e)
		}
	}
	s.Rng.Shuffle(len(cands), func(i, j int) { cands[i], cands[j] = cands[j], cands[i] })
	n := 1 + s.Rng.Intn(max)
	if n > len(cands) {
		n = len(cands)
	}
	for _, e := range cands[:n] {
		ctx.used[types.Hash256(e.ID)] = true
	}
	return cands[:n]
}

// split divides total into n positive parts (n is reduced if total is too small).
func (s *Sim) split(total types.Currency, n int) []types.Currency {
	var parts []types.Currency
	rem := total
	for i := 0; i < n-1; i++ {
		if rem.Cmp(types.NewCurrency64(2)) < 0 {
			break
		}
		// a random fraction of what remains
		p := rem.Div64(uint64(2 + s.Rng.Intn(5)))
		if p.IsZero() {
			p = types.NewCurrency64(1)
		}
		parts = append(parts, p)
		rem = rem.Sub(p)
	}
	if !rem.IsZero() {
		parts = append(parts, rem)
	}
	return parts
}

func (s *Sim) randData() []byte {
	var n int
	switch s.Rng.Intn(6) {
	case 0:
		n = 0
	case 1:
		n = 64 * (1 + s.Rng.Intn(4))
	default:
		n = 1 + s.Rng.Intn(400)
	}
	b := make([]byte, n)
	s.Rng.Read(b)
	return b
}

var errNothing = errors.New("nothing to do")

// ---------------------------------------------------------------- v1 transactions

func (s *Sim) signV1(cs consensus.State, txn *types.Transaction) {
	add := func(id types.Hash256, r *Recipe) {
		for i, k := range r.Keys {
			sig := types.TransactionSignature{ParentID: id, PublicKeyIndex: r.UCKeyIdx[i], CoveredFields: types.CoveredFields{WholeTransaction: true}}
			txn.Signatures = append(txn.Signatures, sig)
			_ = k
		}
	}
	for _, in := range txn.SiacoinInputs {
		add(types.Hash256(in.ParentID), s.recipeFor(in.UnlockConditions.UnlockHash()))
	}
	for _, in := range txn.SiafundInputs {
		add(types.Hash256(in.ParentID), s.recipeFor(in.UnlockConditions.UnlockHash()))
	}
	for _, rev := range txn.FileContractRevisions {
		add(types.Hash256(rev.ParentID), s.recipeFor(rev.UnlockConditions.UnlockHash()))
	}
	// fill in signatures (whole-transaction signatures do not cover other signatures)
	idx := 0
	fill := func(r *Recipe) {
		for _, k := range r.Keys {
			sig := &txn.Signatures[idx]
			h := cs.WholeSigHash(*txn, sig.ParentID, sig.PublicKeyIndex, sig.Timelock, nil)
			s2 := k.SignHash(h)
			sig.Signature = s2[:]
			idx++
		}
	}
	for _, in := range txn.SiacoinInputs {
		fill(s.recipeFor(in.UnlockConditions.UnlockHash()))
	}
	for _, in := range txn.SiafundInputs {
		fill(s.recipeFor(in.UnlockConditions.UnlockHash()))
	}
	for _, rev := range txn.FileContractRevisions {
		fill(s.recipeFor(rev.UnlockConditions.UnlockHash()))
	}
}

// fundV1 adds inputs worth at least `need` (if need is zero: whatever was picked)
// and returns the total input value.
func (s *Sim) fundV1(ctx *blockCtx, txn *types.Transaction, ts *consensus.V1TransactionSupplement) (types.Currency, bool) {
	ins := s.pickSC(ctx, false, 3)
	if len(ins) == 0 {
		return types.ZeroCurrency, false
	}
	var sum types.Currency
	for _, e := range ins {
		r := s.recipeFor(e.SiacoinOutput.Address)
		txn.SiacoinInputs = append(txn.SiacoinInputs, types.SiacoinInput{ParentID: e.ID, UnlockConditions: *r.UC})
		ts.SiacoinInputs = append(ts.SiacoinInputs, e.Copy())
		sum = sum.Add(e.SiacoinOutput.Value)
	}
	return sum, true
}

func (s *Sim) payOutV1(ctx *blockCtx, txn *types.Transaction, amount types.Currency) {
	// amount is distributed over outputs and 0..2 miner fees
	// an explicit miner fee in about half of the transactions (the split below rarely yields a fee-sized part)
	if s.Rng.Intn(2) == 0 && amount.Cmp(types.Siacoins(4)) > 0 {
		fee := types.NewCurrency64(1 + uint64(s.Rng.Int63n(2_000_000_000))).Mul64(1 + uint64(s.Rng.Int63n(1_000_000_000)))
		txn.MinerFees = append(txn.MinerFees, fee)
		ctx.fees = ctx.fees.Add(fee)
		amount = amount.Sub(fee)
	}
	parts := s.split(amount, 2+s.Rng.Intn(3))
	nfee := 0
	if len(parts) > 1 {
		nfee = s.Rng.Intn(3)
		if nfee >= len(parts) {
			nfee = len(parts) - 1
		}
	}
	for i, p := range parts {
		if i < nfee && p.Cmp(types.Siacoins(10)) < 0 {
			txn.MinerFees = append(txn.MinerFees, p)
			ctx.fees = ctx.fees.Add(p)
		} else {
			txn.SiacoinOutputs = append(txn.SiacoinOutputs, types.SiacoinOutput{Value: p, Address: s.newAddr(false, ctx.ts)})
		}
	}
}

func (s *Sim) v1Pay(ctx *blockCtx) (types.Transaction, consensus.V1TransactionSupplement, error) {
	var txn types.Transaction
	var ts consensus.V1TransactionSupplement
	sum, ok := s.fundV1(ctx, &txn, &ts)
	if !ok {
		return txn, ts, errNothing
	}
	s.payOutV1(ctx, &txn, sum)
	if s.Rng.Intn(4) == 0 {
		txn.ArbitraryData = [][]byte{[]byte("verif arbitrary data")}
	}
	s.Counts["v1:pay"]++
	return txn, ts, nil
}

// v1SpendEphemeral spends a siacoin output created by an earlier v1 transaction of the same block.
func (s *Sim) v1SpendEphemeral(ctx *blockCtx) (types.Transaction, consensus.V1TransactionSupplement, error) {
	var txn types.Transaction
	var ts consensus.V1TransactionSupplement
	for _, m := range ctx.v1made {
		r := s.recipeFor(m.out.Address)
		if ctx.used[types.Hash256(m.id)] || r == nil || !s.spendable(r, false, ctx.ts) || m.out.Value.IsZero() {
			continue
		}
		ctx.used[types.Hash256(m.id)] = true
		txn.SiacoinInputs = []types.SiacoinInput{{ParentID: m.id, UnlockConditions: *r.UC}}
		s.payOutV1(ctx, &txn, m.out.Value)
		s.Counts["v1:ephemeral-siacoin"]++
		return txn, ts, nil
	}
	return txn, ts, errNothing
}

// v1SiafundEphemeral spends a siafund output created by an earlier v1 transaction of the same block.
func (s *Sim) v1SiafundEphemeral(ctx *blockCtx) (types.Transaction, consensus.V1TransactionSupplement, error) {
	var txn types.Transaction
	var ts consensus.V1TransactionSupplement
	for _, m := range ctx.v1madeSF {
		r := s.recipeFor(m.out.Address)
		if ctx.used[types.Hash256(m.id)] || r == nil || !s.spendable(r, false, ctx.ts) {
			continue
		}
		ctx.used[types.Hash256(m.id)] = true
		txn.SiafundInputs = []types.SiafundInput{{ParentID: m.id, UnlockConditions: *r.UC, ClaimAddress: s.newAddr(false, ctx.ts)}}
		txn.SiafundOutputs = []types.SiafundOutput{{Value: m.out.Value, Address: s.newAddr(false, ctx.ts)}}
		s.Counts["v1:ephemeral-siafund"]++
		return txn, ts, nil
	}
	return txn, ts, errNothing
}

func (s *Sim) v1Siafund(ctx *blockCtx) (types.Transaction, consensus.V1TransactionSupplement, error) {
	var txn types.Transaction
	var ts consensus.V1TransactionSupplement
	for _, e := range sortedSF(s.St.SF) {
		r := s.recipeFor(e.SiafundOutput.Address)
		if e.SiafundOutput.Address == s.Net.HardforkDevAddr.OldAddress && s.ChildHeight() >= s.Net.HardforkDevAddr.Height && s.Rng.Intn(2) == 0 {
			// developer-address override: reveal NewAddress's conditions instead
			if nr := s.recipeFor(s.Net.HardforkDevAddr.NewAddress); nr != nil && s.spendable(nr, false, ctx.ts) {
				r = nr
				s.Counts["v1:siafund-devaddr-override"]++
			}
		}
		if ctx.used[types.Hash256(e.ID)] || !s.spendable(r, false, ctx.ts) {
			continue
		}
		ctx.used[types.Hash256(e.ID)] = true
		claim := s.newAddr(false, ctx.ts)
		txn.SiafundInputs = append(txn.SiafundInputs, types.SiafundInput{ParentID: e.ID, UnlockConditions: *r.UC, ClaimAddress: claim})
		ts.SiafundInputs = append(ts.SiafundInputs, e.Copy())
		v := e.SiafundOutput.Value
		if v > 1 && s.Rng.Intn(2) == 0 {
			a := 1 + uint64(s.Rng.Int63n(int64(v-1)))
			txn.SiafundOutputs = append(txn.SiafundOutputs, types.SiafundOutput{Value: a, Address: s.newAddr(false, ctx.ts)}, types.SiafundOutput{Value: v - a, Address: s.newAddr(false, ctx.ts)})
		} else {
			txn.SiafundOutputs = append(txn.SiafundOutputs, types.SiafundOutput{Value: v, Address: s.newAddr(false, ctx.ts)})
		}
		s.Counts["v1:siafund"]++
		return txn, ts, nil
	}
	return txn, ts, errNothing
}

func sortedSF(m map[types.SiafundOutputID]types.SiafundElement) []types.SiafundElement {
	out := make([]types.SiafundElement, 0, len(m))
	for _, e := range m {
		out = append(out, e)
	}
	sort.Slice(out, func(i, j int) bool { return string(out[i].ID[:]) < string(out[j].ID[:]) })
	return out
}

func (s *Sim) contractUC() *Recipe { return s.W.NewRecipeKind("uc2of3", 0, time.Time{}) }

func (s *Sim) v1Form(ctx *blockCtx) (types.Transaction, consensus.V1TransactionSupplement, error) {
	var txn types.Transaction
	var ts consensus.V1TransactionSupplement
	sum, ok := s.fundV1(ctx, &txn, &ts)
	if !ok || sum.Cmp(types.Siacoins(2)) < 0 {
		return txn, ts, errNothing
	}
	payout := sum.Div64(uint64(2 + s.Rng.Intn(3)))
	child := s.ChildHeight()
	data := s.randData()
	ws := child + uint64(s.Rng.Intn(5))
	fc := types.FileContract{
		Filesize: uint64(len(data)), FileMerkleRoot: FileRoot(data),
		WindowStart: ws, WindowEnd: ws + 1 + uint64(s.Rng.Intn(4)),
		Payout: payout, UnlockHash: s.contractUC().Addr, RevisionNumber: uint64(s.Rng.Intn(3)),
	}
	tax := s.Tip.FileContractTax(fc)
	validSum := payout.Sub(tax)
	for _, p := range s.split(validSum, 1+s.Rng.Intn(3)) {
		fc.ValidProofOutputs = append(fc.ValidProofOutputs, types.SiacoinOutput{Value: p, Address: s.newAddr(false, ctx.ts)})
	}
	for _, p := range s.split(validSum, 1+s.Rng.Intn(3)) {
		fc.MissedProofOutputs = append(fc.MissedProofOutputs, types.SiacoinOutput{Value: p, Address: s.newAddr(false, ctx.ts)})
	}
	if validSum.IsZero() {
		return txn, ts, errNothing
	}
	txn.FileContracts = []types.FileContract{fc}
	s.payOutV1(ctx, &txn, sum.Sub(payout))
	s.Files[FileRoot(data)] = data
	ctx.inblock = append(ctx.inblock, &inblockFC{id: txn.FileContractID(0), fc: fc, elemWindowStart: fc.WindowStart, data: data, created: true})
	s.Counts["v1:form"]++
	return txn, ts, nil
}

func sortedFC(m map[types.FileContractID]types.FileContractElement) []types.FileContractElement {
	out := make([]types.FileContractElement, 0, len(m))
	for _, e := range m {
		out = append(out, e)
	}
	sort.Slice(out, func(i, j int) bool { return string(out[i].ID[:]) < string(out[j].ID[:]) })
	return out
}

// reviseContent produces a revision of cur with fresh data, windows and output split.
func (s *Sim) reviseContent(ctx *blockCtx, cur types.FileContract) (types.FileContract, []byte) {
	child := s.ChildHeight()
	fc := cur
	fc.RevisionNumber += 1 + uint64(s.Rng.Intn(3))
	data := s.randData()
	fc.Filesize, fc.FileMerkleRoot = uint64(len(data)), FileRoot(data)
	fc.WindowStart = child + uint64(s.Rng.Intn(4))
	fc.WindowEnd = fc.WindowStart + 1 + uint64(s.Rng.Intn(4))
	var vsum, msum types.Currency
	for _, o := range fc.ValidProofOutputs {
		vsum = vsum.Add(o.Value)
	}
	for _, o := range fc.MissedProofOutputs {
		msum = msum.Add(o.Value)
	}
	fc.ValidProofOutputs, fc.MissedProofOutputs = nil, nil
	for _, p := range s.split(vsum, 1+s.Rng.Intn(3)) {
		fc.ValidProofOutputs = append(fc.ValidProofOutputs, types.SiacoinOutput{Value: p, Address: s.newAddr(false, ctx.ts)})
	}
	for _, p := range s.split(msum, 1+s.Rng.Intn(3)) {
		fc.MissedProofOutputs = append(fc.MissedProofOutputs, types.SiacoinOutput{Value: p, Address: s.newAddr(false, ctx.ts)})
	}
	fc.Payout = types.ZeroCurrency // not part of a revision
	return fc, data
}

func (s *Sim) v1Revise(ctx *blockCtx) (types.Transaction, consensus.V1TransactionSupplement, error) {
	var txn types.Transaction
	var ts consensus.V1TransactionSupplement
	child := s.ChildHeight()
	// a contract created or revised by an earlier transaction of this block may be revised again
	if len(ctx.inblock) > 0 && s.Rng.Intn(3) == 0 {
		ib := ctx.inblock[s.Rng.Intn(len(ctx.inblock))]
		if r := s.recipeFor(ib.fc.UnlockHash); r != nil && !ib.proved && ib.fc.WindowStart >= child {
			fc, data := s.reviseContent(ctx, ib.fc)
			txn.FileContractRevisions = []types.FileContractRevision{{ParentID: ib.id, UnlockConditions: *r.UC, FileContract: fc}}
			s.Files[FileRoot(data)] = data
			fc.Payout = ib.fc.Payout
			ib.fc, ib.data = fc, data
			if ib.created {
				ib.elemWindowStart = fc.WindowStart
			}
			s.Counts["v1:revise-again-same-block"]++
			return txn, ts, nil
		}
	}
	for _, e := range sortedFC(s.St.FC) {
		if ctx.used[types.Hash256(e.ID)] || e.FileContract.WindowStart < child || s.Rng.Intn(2) == 0 {
			continue
		}
		r := s.recipeFor(e.FileContract.UnlockHash)
		if r == nil {
			continue
		}
		ctx.used[types.Hash256(e.ID)] = true
		fc := e.FileContract
		fc.RevisionNumber += 1 + uint64(s.Rng.Intn(3))
		data := s.randData()
		fc.Filesize, fc.FileMerkleRoot = uint64(len(data)), FileRoot(data)
		fc.WindowStart = child + uint64(s.Rng.Intn(4))
		fc.WindowEnd = fc.WindowStart + 1 + uint64(s.Rng.Intn(4))
		var vsum, msum types.Currency
		for _, o := range fc.ValidProofOutputs {
			vsum = vsum.Add(o.Value)
		}
		for _, o := range fc.MissedProofOutputs {
			msum = msum.Add(o.Value)
		}
		fc.ValidProofOutputs, fc.MissedProofOutputs = nil, nil
		for _, p := range s.split(vsum, 1+s.Rng.Intn(3)) {
			fc.ValidProofOutputs = append(fc.ValidProofOutputs, types.SiacoinOutput{Value: p, Address: s.newAddr(false, ctx.ts)})
		}
		for _, p := range s.split(msum, 1+s.Rng.Intn(3)) {
			fc.MissedProofOutputs = append(fc.MissedProofOutputs, types.SiacoinOutput{Value: p, Address: s.newAddr(false, ctx.ts)})
		}
		fc.Payout = types.ZeroCurrency // not part of a revision
		txn.FileContractRevisions = []types.FileContractRevision{{ParentID: e.ID, UnlockConditions: *r.UC, FileContract: fc}}
		ts.RevisedFileContracts = append(ts.RevisedFileContracts, e.Copy())
		s.Files[FileRoot(data)] = data
		cur := fc
		cur.Payout = e.FileContract.Payout
		ctx.inblock = append(ctx.inblock, &inblockFC{id: e.ID, fc: cur, elemWindowStart: e.FileContract.WindowStart, data: data})
		s.Counts["v1:revise"]++
		return txn, ts, nil
	}
	return txn, ts, errNothing
}

// v1LeafForEra returns the leaf bytes an honest prover supplies (always the
// zero-padded 64-byte segment).
func (s *Sim) v1Proof(ctx *blockCtx) (types.Transaction, consensus.V1TransactionSupplement, error) {
	var txn types.Transaction
	var ts consensus.V1TransactionSupplement
	child := s.ChildHeight()
	// a contract created or revised earlier in this block can be proven at once
	// when the window starts right now (the parent block is the window-start block)
	for _, ib := range ctx.inblock {
		if ib.proved || ib.elemWindowStart != child || uint64(len(ib.data)) != ib.fc.Filesize {
			continue
		}
		if child < s.Net.HardforkStorageProof.Height && (ib.fc.Filesize == 0 || (child >= s.Net.HardforkTax.Height && ib.fc.Filesize%64 == 0)) {
			continue
		}
		windowID := s.Tip.Index.ID
		idx := s.Tip.StorageProofLeafIndex(ib.fc.Filesize, windowID, ib.id)
		sp := types.StorageProof{ParentID: ib.id}
		if ib.fc.Filesize > 0 {
			sp.Leaf, sp.Proof = FileProof(ib.data, idx)
		}
		ib.proved = true
		txn.StorageProofs = []types.StorageProof{sp}
		s.Counts["v1:proof-same-block"]++
		return txn, ts, nil
	}
	for _, e := range sortedFC(s.St.FC) {
		fc := e.FileContract
		if ctx.used[types.Hash256(e.ID)] || fc.WindowStart >= child || child > fc.WindowEnd {
			continue
		}
		data, ok := s.Files[fc.FileMerkleRoot]
		if !ok || uint64(len(data)) != fc.Filesize {
			continue
		}
		if child < s.Net.HardforkStorageProof.Height && child >= s.Net.HardforkTax.Height && fc.Filesize%64 == 0 {
			// historical era in which a full final segment cannot be proven (see DESIGN C07)
			continue
		}
		if fc.Filesize == 0 && child < s.Net.HardforkStorageProof.Height {
			continue // empty files are only provable after the storage-proof hardfork
		}
		windowID := s.Blocks[fc.WindowStart].ID()
		idx := s.Tip.StorageProofLeafIndex(fc.Filesize, windowID, e.ID)
		sp := types.StorageProof{ParentID: e.ID}
		if fc.Filesize > 0 {
			sp.Leaf, sp.Proof = FileProof(data, idx)
		}
		ctx.used[types.Hash256(e.ID)] = true
		if ctx.provedV1 == nil {
			ctx.provedV1 = map[types.FileContractID]bool{}
		}
		ctx.provedV1[e.ID] = true
		txn.StorageProofs = []types.StorageProof{sp}
		ts.StorageProofs = append(ts.StorageProofs, consensus.V1StorageProofSupplement{FileContract: e.Copy(), WindowID: windowID})
		s.Counts["v1:proof"]++
		return txn, ts, nil
	}
	return txn, ts, errNothing
}

func (s *Sim) v1Foundation(ctx *blockCtx) (types.Transaction, consensus.V1TransactionSupplement, error) {
	var txn types.Transaction
	var ts consensus.V1TransactionSupplement
	if s.ChildHeight() < s.Net.HardforkFoundation.Height+1 {
		return txn, ts, errNothing
	}
	for _, e := range sortedSC(s.St.SC) {
		a := e.SiacoinOutput.Address
		if ctx.used[types.Hash256(e.ID)] || e.MaturityHeight > s.ChildHeight() || e.SiacoinOutput.Value.Cmp(types.NewCurrency64(2)) < 0 || (a != s.Tip.FoundationSubsidyAddress && a != s.Tip.FoundationManagementAddress) {
			continue
		}
		r := s.recipeFor(a)
		if r == nil || !s.spendable(r, false, ctx.ts) {
			continue
		}
		ctx.used[types.Hash256(e.ID)] = true
		txn.SiacoinInputs = []types.SiacoinInput{{ParentID: e.ID, UnlockConditions: *r.UC}}
		ts.SiacoinInputs = []types.SiacoinElement{e.Copy()}
		np := s.W.NewRecipeKind("uc1", 0, ctx.ts)
		nf := s.W.NewRecipeKind("uc1", 0, ctx.ts)
		// keep the new addresses funded
		half := e.SiacoinOutput.Value.Div64(2)
		txn.SiacoinOutputs = []types.SiacoinOutput{{Value: half, Address: np.Addr}, {Value: e.SiacoinOutput.Value.Sub(half), Address: nf.Addr}}
		upd := types.FoundationAddressUpdate{NewPrimary: np.Addr, NewFailsafe: nf.Addr}
		txn.ArbitraryData = [][]byte{append(append([]byte{}, types.SpecifierFoundation[:]...), Encode(upd)...)}
		s.Counts["v1:foundation-update"]++
		return txn, ts, nil
	}
	return txn, ts, errNothing
}

// ---------------------------------------------------------------- v2 transactions

type v2Pending struct {
	txn      types.V2Transaction
	scRecipe []*Recipe
	sfRecipe []*Recipe
}

func (s *Sim) signV2(cs consensus.State, p *v2Pending) {
	h := cs.InputSigHash(p.txn)
	for i := range p.txn.SiacoinInputs {
		p.txn.SiacoinInputs[i].SatisfiedPolicy = p.scRecipe[i].Satisfy(h)
	}
	for i := range p.txn.SiafundInputs {
		p.txn.SiafundInputs[i].SatisfiedPolicy = p.sfRecipe[i].Satisfy(h)
	}
}

func (s *Sim) fundV2(ctx *blockCtx, p *v2Pending) (types.Currency, bool) {
	var ins []types.SiacoinElement
	if len(ctx.ephemeral) > 0 && s.Rng.Intn(2) == 0 {
		// spend an output created earlier in this block
		e := ctx.ephemeral[0]
		ctx.ephemeral = ctx.ephemeral[1:]
		if r := s.recipeFor(e.SiacoinOutput.Address); s.spendable(r, true, ctx.ts) && !ctx.used[types.Hash256(e.ID)] {
			ctx.used[types.Hash256(e.ID)] = true
			ins = append(ins, e)
			s.Counts["v2:ephemeral-spend"]++
		}
	}
	if len(ins) == 0 {
		ins = s.pickSC(ctx, true, 3)
	}
	if len(ins) == 0 {
		return types.ZeroCurrency, false
	}
	var sum types.Currency
	for _, e := range ins {
		p.txn.SiacoinInputs = append(p.txn.SiacoinInputs, types.V2SiacoinInput{Parent: e.Copy()})
		p.scRecipe = append(p.scRecipe, s.recipeFor(e.SiacoinOutput.Address))
		sum = sum.Add(e.SiacoinOutput.Value)
	}
	return sum, true
}

func (s *Sim) payOutV2(ctx *blockCtx, p *v2Pending, amount types.Currency) {
	if s.Rng.Intn(2) == 0 && amount.Cmp(types.Siacoins(4)) > 0 && p.txn.MinerFee.IsZero() {
		fee := types.NewCurrency64(1 + uint64(s.Rng.Int63n(2_000_000_000))).Mul64(1 + uint64(s.Rng.Int63n(1_000_000_000)))
		p.txn.MinerFee = fee
		ctx.fees = ctx.fees.Add(fee)
		amount = amount.Sub(fee)
	}
	parts := s.split(amount, 2+s.Rng.Intn(3))
	for i, q := range parts {
		if i == 0 && len(parts) > 1 && q.Cmp(types.Siacoins(10)) < 0 && s.Rng.Intn(2) == 0 && p.txn.MinerFee.IsZero() {
			p.txn.MinerFee = q
			ctx.fees = ctx.fees.Add(q)
			continue
		}
		p.txn.SiacoinOutputs = append(p.txn.SiacoinOutputs, types.SiacoinOutput{Value: q, Address: s.newAddr(!s.v1StillPossible(), ctx.ts)})
	}
}

// v1StillPossible: while v1 transactions may still be needed to move funds we
// keep creating addresses both versions can spend half of the time.
func (s *Sim) v1StillPossible() bool { return s.Rng.Intn(2) == 0 && !s.V1Forbidden() }

func (s *Sim) noteEphemeral(ctx *blockCtx, txn types.V2Transaction) {
	txid := txn.ID()
	for i, o := range txn.SiacoinOutputs {
		ctx.ephemeral = append(ctx.ephemeral, types.SiacoinElement{
			ID: txn.SiacoinOutputID(txid, i), StateElement: types.StateElement{LeafIndex: types.UnassignedLeafIndex}, SiacoinOutput: o,
		})
	}
}

func (s *Sim) v2Pay(ctx *blockCtx) (*v2Pending, error) {
	p := &v2Pending{}
	sum, ok := s.fundV2(ctx, p)
	if !ok {
		return nil, errNothing
	}
	s.payOutV2(ctx, p, sum)
	if s.Rng.Intn(4) == 0 {
		p.txn.ArbitraryData = []byte("verif v2 arbitrary")
	}
	if s.Rng.Intn(4) == 0 {
		k := s.W.key()
		a := types.Attestation{PublicKey: k.PublicKey(), Key: "verif", Value: []byte{byte(s.Rng.Intn(256))}}
		a.Signature = k.SignHash(s.Tip.AttestationSigHash(a))
		p.txn.Attestations = append(p.txn.Attestations, a)
		s.Counts["v2:attestation"]++
	}
	s.Counts["v2:pay"]++
	return p, nil
}

func (s *Sim) v2Siafund(ctx *blockCtx) (*v2Pending, error) {
	p := &v2Pending{}
	for _, e := range sortedSF(s.St.SF) {
		r := s.recipeFor(e.SiafundOutput.Address)
		if ctx.used[types.Hash256(e.ID)] || !s.spendable(r, true, ctx.ts) {
			continue
		}
		ctx.used[types.Hash256(e.ID)] = true
		p.txn.SiafundInputs = append(p.txn.SiafundInputs, types.V2SiafundInput{Parent: e.Copy(), ClaimAddress: s.newAddr(true, ctx.ts)})
		p.sfRecipe = append(p.sfRecipe, r)
		v := e.SiafundOutput.Value
		if v > 1 && s.Rng.Intn(2) == 0 {
			a := 1 + uint64(s.Rng.Int63n(int64(v-1)))
			p.txn.SiafundOutputs = append(p.txn.SiafundOutputs, types.SiafundOutput{Value: a, Address: s.newAddr(true, ctx.ts)}, types.SiafundOutput{Value: v - a, Address: s.newAddr(true, ctx.ts)})
		} else {
			p.txn.SiafundOutputs = append(p.txn.SiafundOutputs, types.SiafundOutput{Value: v, Address: s.newAddr(true, ctx.ts)})
		}
		s.Counts["v2:siafund"]++
		return p, nil
	}
	return nil, errNothing
}

// contract parties: renter and host keys are wallet keys
func (s *Sim) keyFor(pk types.PublicKey) types.PrivateKey {
	for _, k := range s.W.Keys {
		if k.PublicKey() == pk {
			return k
		}
	}
	panic("unknown contract key")
}

func (s *Sim) signContract(fc *types.V2FileContract, renter, host types.PublicKey) {
	fc.RenterSignature, fc.HostSignature = types.Signature{}, types.Signature{}
	h := s.Tip.ContractSigHash(*fc)
	fc.RenterSignature = s.keyFor(renter).SignHash(h)
	fc.HostSignature = s.keyFor(host).SignHash(h)
}

func (s *Sim) newV2Contract(ctx *blockCtx, value types.Currency) (types.V2FileContract, []byte) {
	child := s.ChildHeight()
	data := s.randData()
	renterV := value.Div64(uint64(2 + s.Rng.Intn(3)))
	hostV := value.Sub(renterV)
	ph := child + uint64(s.Rng.Intn(5))
	fc := types.V2FileContract{
		Capacity: uint64(len(data)) + uint64(s.Rng.Intn(3))*64, Filesize: uint64(len(data)), FileMerkleRoot: FileRoot(data),
		ProofHeight: ph, ExpirationHeight: ph + 1 + uint64(s.Rng.Intn(4)),
		RenterOutput:    types.SiacoinOutput{Value: renterV, Address: s.newAddr(true, ctx.ts)},
		HostOutput:      types.SiacoinOutput{Value: hostV, Address: s.newAddr(true, ctx.ts)},
		RenterPublicKey: s.W.key().PublicKey(), HostPublicKey: s.W.key().PublicKey(),
		RevisionNumber: uint64(s.Rng.Intn(3)),
	}
	fc.TotalCollateral = hostV.Div64(uint64(1 + s.Rng.Intn(4)))
	fc.MissedHostValue = hostV.Div64(uint64(1 + s.Rng.Intn(4)))
	s.signContract(&fc, fc.RenterPublicKey, fc.HostPublicKey)
	return fc, data
}

func (s *Sim) v2Form(ctx *blockCtx) (*v2Pending, error) {
	p := &v2Pending{}
	sum, ok := s.fundV2(ctx, p)
	if !ok || sum.Cmp(types.Siacoins(2)) < 0 {
		return nil, errNothing
	}
	value := sum.Div64(uint64(2 + s.Rng.Intn(3)))
	fc, data := s.newV2Contract(ctx, value)
	tax := s.Tip.V2FileContractTax(fc)
	p.txn.FileContracts = []types.V2FileContract{fc}
	s.payOutV2(ctx, p, sum.Sub(value).Sub(tax))
	// the contract id depends on the final transaction; record data afterwards
	s.Counts["v2:form"]++
	s.pendingData = append(s.pendingData, data)
	return p, nil
}

func sortedV2FC(m map[types.FileContractID]types.V2FileContractElement) []types.V2FileContractElement {
	out := make([]types.V2FileContractElement, 0, len(m))
	for _, e := range m {
		out = append(out, e)
	}
	sort.Slice(out, func(i, j int) bool { return string(out[i].ID[:]) < string(out[j].ID[:]) })
	return out
}

func (s *Sim) v2Revise(ctx *blockCtx) (*v2Pending, error) {
	child := s.ChildHeight()
	for _, e := range sortedV2FC(s.St.V2FC) {
		latest, again := ctx.v2revised[e.ID]
		if (ctx.used[types.Hash256(e.ID)] && !(again && s.Rng.Intn(2) == 0)) || e.V2FileContract.ProofHeight < child || s.Rng.Intn(2) == 0 {
			continue
		}
		ctx.used[types.Hash256(e.ID)] = true
		cur := e.V2FileContract
		if again {
			// revised earlier in this block: the new revision is judged against (and signed by the keys of) that revision
			if latest.ProofHeight < child {
				continue
			}
			cur = latest
			s.Counts["v2:revise-again-same-block"]++
		}
		rev := cur
		rev.RevisionNumber += 1 + uint64(s.Rng.Intn(3))
		data := s.randData()
		rev.Filesize, rev.FileMerkleRoot = uint64(len(data)), FileRoot(data)
		if rev.Capacity < rev.Filesize {
			rev.Capacity = rev.Filesize
		}
		// move value between the parties, total unchanged
		total := cur.RenterOutput.Value.Add(cur.HostOutput.Value)
		minHost := cur.TotalCollateral // host output must stay >= total collateral
		if total.Cmp(minHost) > 0 {
			extra := total.Sub(minHost)
			hostExtra := extra.Div64(uint64(1 + s.Rng.Intn(4)))
			rev.HostOutput.Value = minHost.Add(hostExtra)
			rev.RenterOutput.Value = total.Sub(rev.HostOutput.Value)
		}
		if s.Rng.Intn(2) == 0 && !rev.MissedHostValue.IsZero() {
			rev.MissedHostValue = rev.MissedHostValue.Div64(2)
		}
		if rev.MissedHostValue.Cmp(rev.HostOutput.Value) > 0 {
			rev.MissedHostValue = rev.HostOutput.Value
		}
		rev.ProofHeight = child + uint64(s.Rng.Intn(4))
		rev.ExpirationHeight = rev.ProofHeight + 1 + uint64(s.Rng.Intn(4))
		if s.Rng.Intn(4) == 0 { // key rotation
			rev.RenterPublicKey = s.W.key().PublicKey()
		}
		s.signContract(&rev, cur.RenterPublicKey, cur.HostPublicKey)
		p := &v2Pending{}
		p.txn.FileContractRevisions = []types.V2FileContractRevision{{Parent: e.Copy(), Revision: rev}}
		if ctx.v2revised == nil {
			ctx.v2revised = map[types.FileContractID]types.V2FileContract{}
		}
		ctx.v2revised[e.ID] = rev
		s.Files[FileRoot(data)] = data
		s.Counts["v2:revise"]++
		return p, nil
	}
	return nil, errNothing
}

func (s *Sim) v2Resolve(ctx *blockCtx) (*v2Pending, error) {
	child := s.ChildHeight()
	for _, e := range sortedV2FC(s.St.V2FC) {
		if ctx.used[types.Hash256(e.ID)] {
			continue
		}
		fc := e.V2FileContract
		p := &v2Pending{}
		var res types.V2FileContractResolutionType
		switch {
		case child > fc.ExpirationHeight:
			res = &types.V2FileContractExpiration{}
			s.Counts["v2:expire"]++
		case child > fc.ProofHeight && s.Rng.Intn(3) > 0:
			cie, ok := s.St.CIE[fc.ProofHeight]
			data, ok2 := s.Files[fc.FileMerkleRoot]
			if !ok || !ok2 || uint64(len(data)) != fc.Filesize {
				continue
			}
			idx := s.Tip.StorageProofLeafIndex(fc.Filesize, cie.ChainIndex.ID, e.ID)
			sp := &types.V2StorageProof{ProofIndex: cie.Copy()}
			if fc.Filesize > 0 {
				sp.Leaf, sp.Proof = FileProof(data, idx)
			}
			res = sp
			s.Counts["v2:proof"]++
		case s.Rng.Intn(3) == 0:
			// renewal: final outputs + rollover = old outputs; new contract funded by rollover + fresh inputs
			rn := &types.V2FileContractRenewal{
				FinalRenterOutput: fc.RenterOutput, FinalHostOutput: fc.HostOutput,
			}
			rn.RenterRollover = fc.RenterOutput.Value.Div64(uint64(1 + s.Rng.Intn(3)))
			rn.HostRollover = fc.HostOutput.Value.Div64(uint64(1 + s.Rng.Intn(3)))
			rn.FinalRenterOutput.Value = fc.RenterOutput.Value.Sub(rn.RenterRollover)
			rn.FinalHostOutput.Value = fc.HostOutput.Value.Sub(rn.HostRollover)
			sum, ok := s.fundV2(ctx, p)
			if !ok {
				continue
			}
			value := sum.Div64(2).Add(rn.RenterRollover).Add(rn.HostRollover)
			nc, data := s.newV2Contract(ctx, value)
			nc.RenterPublicKey, nc.HostPublicKey = fc.RenterPublicKey, fc.HostPublicKey
			s.signContract(&nc, nc.RenterPublicKey, nc.HostPublicKey)
			rn.NewContract = nc
			tax := s.Tip.V2FileContractTax(nc)
			// inputs + rollover = new contract + tax + change
			avail := sum.Add(rn.RenterRollover).Add(rn.HostRollover)
			if avail.Cmp(value.Add(tax)) < 0 {
				continue
			}
			change := avail.Sub(value).Sub(tax)
			s.payOutV2(ctx, p, change)
			h := s.Tip.RenewalSigHash(*rn)
			rn.RenterSignature = s.keyFor(fc.RenterPublicKey).SignHash(h)
			rn.HostSignature = s.keyFor(fc.HostPublicKey).SignHash(h)
			res = rn
			s.Files[FileRoot(data)] = data
			s.Counts["v2:renew"]++
		default:
			continue
		}
		ctx.used[types.Hash256(e.ID)] = true
		p.txn.FileContractResolutions = []types.V2FileContractResolution{{Parent: e.Copy(), Resolution: res}}
		return p, nil
	}
	return nil, errNothing
}

func (s *Sim) v2Foundation(ctx *blockCtx) (*v2Pending, error) {
	for _, e := range sortedSC(s.St.SC) {
		a := e.SiacoinOutput.Address
		if ctx.used[types.Hash256(e.ID)] || e.MaturityHeight > s.ChildHeight() || e.SiacoinOutput.Value.IsZero() || a != s.Tip.FoundationManagementAddress {
			continue
		}
		r := s.recipeFor(a)
		if r == nil || !s.spendable(r, true, ctx.ts) {
			continue
		}
		ctx.used[types.Hash256(e.ID)] = true
		p := &v2Pending{}
		p.txn.SiacoinInputs = []types.V2SiacoinInput{{Parent: e.Copy()}}
		p.scRecipe = []*Recipe{r}
		na := s.W.NewRecipeKind("uc1", 0, ctx.ts)
		p.txn.SiacoinOutputs = []types.SiacoinOutput{{Value: e.SiacoinOutput.Value, Address: na.Addr}}
		addr := na.Addr
		if s.Monthly && s.Rng.Intn(3) == 0 {
			// waive the subsidy: the void address (the management address stays as it is)
			addr = types.VoidAddress
			p.txn.SiacoinOutputs[0].Address = a
			s.Counts["v2:foundation-waiver"]++
		}
		p.txn.NewFoundationAddress = &addr
		s.Counts["v2:foundation-update"]++
		return p, nil
	}
	return nil, errNothing
}

// ---------------------------------------------------------------- blocks

// BlockPlan is an unsealed block together with what is needed to re-seal it.
type BlockPlan struct {
	Block types.Block
	Supp  consensus.V1BlockSupplement
	Miner types.Address
}

// Seal recomputes miner payout (reward + fees), commitment and nonce so that a
// block whose transactions were edited is wrong only where the editor intended.
func (s *Sim) Seal(b *types.Block, miner types.Address) {
	cs := s.Tip
	total := cs.BlockReward()
	ov := false
	for _, t := range b.Transactions {
		for _, f := range t.MinerFees {
			var o bool
			total, o = total.AddWithOverflow(f)
			ov = ov || o
		}
	}
	for _, t := range b.V2Transactions() {
		var o bool
		total, o = total.AddWithOverflow(t.MinerFee)
		ov = ov || o
	}
	b.MinerPayouts = []types.SiacoinOutput{{Address: miner, Value: total}}
	if b.V2 != nil {
		b.V2.Height = cs.Index.Height + 1
		b.V2.Commitment = cs.Commitment(miner, b.Transactions, b.V2Transactions())
	}
	b.ParentID = cs.Index.ID
	b.Nonce = 0
	nf := cs.NonceFactor()
	for b.ID().CmpWork(cs.PoWTarget()) < 0 {
		b.Nonce += nf
	}
}

// NextTimestamp picks a timestamp allowed by the median rule.
func (s *Sim) NextTimestamp() time.Time {
	med := s.MedianTime()
	last := s.Times[len(s.Times)-1]
	// block timestamps have second resolution on the wire: the earliest admissible
	// whole second is the median rounded up
	if med.Nanosecond() != 0 {
		med = med.Truncate(time.Second).Add(time.Second)
	}
	switch s.Rng.Intn(6) {
	case 0:
		return med // the earliest admissible
	case 1:
		return last // constant
	default:
		return last.Add(time.Duration(1+s.Rng.Intn(int(2*s.Net.BlockInterval/time.Second)+1)) * time.Second)
	}
}

// BuildBlock assembles a random valid block on the tip (does not apply it).
func (s *Sim) BuildBlock() BlockPlan {
	ctx := &blockCtx{used: map[types.Hash256]bool{}, ts: s.NextTimestamp()}
	s.pendingData = nil
	var b types.Block
	b.Timestamp = ctx.ts
	var supp consensus.V1BlockSupplement
	child := s.ChildHeight()
	useV2 := s.V2Allowed()
	n := s.Rng.Intn(s.MaxTxns + 1)
	if !s.V1Forbidden() {
		kinds := []func(*blockCtx) (types.Transaction, consensus.V1TransactionSupplement, error){s.v1Pay, s.v1Pay, s.v1Siafund, s.v1Form, s.v1Form, s.v1Revise, s.v1Proof, s.v1Proof, s.v1Foundation, s.v1SpendEphemeral, s.v1SiafundEphemeral}
		nv1 := n
		if useV2 {
			nv1 = s.Rng.Intn(n + 1)
		}
		for i := 0; i < nv1; i++ {
			txn, ts, err := kinds[s.Rng.Intn(len(kinds))](ctx)
			if err != nil {
				continue
			}
			s.signV1(s.Tip, &txn)
			b.Transactions = append(b.Transactions, txn)
			supp.Transactions = append(supp.Transactions, ts)
			if len(txn.StorageProofs) == 0 {
				for oi, o := range txn.SiacoinOutputs {
					ctx.v1made = append(ctx.v1made, v1eph{txn.SiacoinOutputID(oi), o})
				}
				for oi, o := range txn.SiafundOutputs {
					ctx.v1madeSF = append(ctx.v1madeSF, v1ephSF{txn.SiafundOutputID(oi), o})
				}
			}
		}
		n -= nv1
		// contracts whose window ends now expire
		for _, e := range sortedFC(s.St.FC) {
			if e.FileContract.WindowEnd <= child && !ctx.used[types.Hash256(e.ID)] {
				supp.ExpiringFileContracts = append(supp.ExpiringFileContracts, e.Copy())
				s.Counts["v1:expire"]++
			} else if e.FileContract.WindowEnd <= child && ctx.provedV1[e.ID] && s.Rng.Intn(3) > 0 {
				// a node computes the expiring set from the contracts live at the START of the block, so a contract that
				// is proven in the last block of its window is listed as expiring too; applying the block must skip it
				supp.ExpiringFileContracts = append(supp.ExpiringFileContracts, e.Copy())
				s.Counts["v1:expire-listed-but-proven-in-block"]++
			}
		}
	}
	if useV2 {
		b.V2 = &types.V2BlockData{Height: child}
		kinds := []func(*blockCtx) (*v2Pending, error){s.v2Pay, s.v2Pay, s.v2Pay, s.v2Siafund, s.v2Form, s.v2Form, s.v2Revise, s.v2Resolve, s.v2Resolve, s.v2Foundation}
		for i := 0; i < n; i++ {
			k := s.Rng.Intn(len(kinds))
			p, err := kinds[k](ctx)
			if err != nil {
				continue
			}
			s.signV2(s.Tip, p)
			b.V2.Transactions = append(b.V2.Transactions, p.txn)
			s.noteEphemeral(ctx, p.txn)
			if len(p.txn.FileContracts) == 1 && len(s.pendingData) > 0 {
				s.Files[FileRoot(s.pendingData[len(s.pendingData)-1])] = s.pendingData[len(s.pendingData)-1]
				s.pendingData = s.pendingData[:len(s.pendingData)-1]
			}
		}
	}
	miner := s.newAddr(useV2 && s.V1Forbidden(), ctx.ts)
	s.Seal(&b, miner)
	return BlockPlan{Block: b, Supp: supp, Miner: miner}
}

// Apply validates and applies a block to the tip.
func (s *Sim) Apply(b types.Block, bs consensus.V1BlockSupplement) (consensus.ApplyUpdate, error) {
	if err := consensus.ValidateBlock(s.Tip, b, bs); err != nil {
		return consensus.ApplyUpdate{}, err
	}
	return s.ApplyUnchecked(b, bs), nil
}

func (s *Sim) ApplyUnchecked(b types.Block, bs consensus.V1BlockSupplement) consensus.ApplyUpdate {
	cs, au := consensus.ApplyBlock(s.Tip, b, bs, s.TargetTimestamp())
	s.Parents = append(s.Parents, s.Tip)
	s.Blocks = append(s.Blocks, b)
	s.Supps = append(s.Supps, bs)
	s.Times = append(s.Times, b.Timestamp)
	s.St.Apply(au)
	s.Tip = cs
	return au
}

// RevertTip reverts the tip block.
func (s *Sim) RevertTip() consensus.RevertUpdate {
	n := len(s.Blocks) - 1
	parent := s.Parents[n]
	ru := consensus.RevertBlock(parent, s.Blocks[n], s.Supps[n])
	s.St.Revert(ru, s.Tip.Index.Height)
	s.Tip = parent
	s.Parents, s.Blocks, s.Supps, s.Times = s.Parents[:n], s.Blocks[:n], s.Supps[:n], s.Times[:n]
	return ru
}

// Step builds, validates and applies one random block.
func (s *Sim) Step() (BlockPlan, consensus.ApplyUpdate, error) {
	p := s.BuildBlock()
	au, err := s.Apply(p.Block, p.Supp)
	if err != nil {
		return p, au, fmt.Errorf("generator produced a block core rejects at height %d: %w", s.ChildHeight(), err)
	}
	return p, au, nil
}

// ---------------------------------------------------------------- helpers for adversarial harnesses

// ResignV1 replaces the signatures of a v1 transaction (whole-transaction
// signatures by the wallet keys of every listed parent), so that an edited
// transaction is wrong only where the editor intended.
func (s *Sim) ResignV1(txn *types.Transaction) bool {
	txn.Signatures = nil
	for _, in := range txn.SiacoinInputs {
		if s.recipeFor(in.UnlockConditions.UnlockHash()) == nil {
			return false
		}
	}
	for _, in := range txn.SiafundInputs {
		if s.recipeFor(in.UnlockConditions.UnlockHash()) == nil {
			return false
		}
	}
	for _, r := range txn.FileContractRevisions {
		if s.recipeFor(r.UnlockConditions.UnlockHash()) == nil {
			return false
		}
	}
	s.signV1(s.Tip, txn)
	return true
}

// ResignV2 re-satisfies the spend policies of every input of a v2 transaction.
func (s *Sim) ResignV2(txn *types.V2Transaction) bool {
	p := &v2Pending{txn: *txn}
	for _, in := range txn.SiacoinInputs {
		r := s.recipeFor(in.Parent.SiacoinOutput.Address)
		if r == nil {
			return false
		}
		p.scRecipe = append(p.scRecipe, r)
	}
	for _, in := range txn.SiafundInputs {
		r := s.recipeFor(in.Parent.SiafundOutput.Address)
		if r == nil {
			return false
		}
		p.sfRecipe = append(p.sfRecipe, r)
	}
	s.signV2(s.Tip, p)
	*txn = p.txn
	return true
}

// RecipeFor exposes the spending recipe of an address.
func (s *Sim) RecipeFor(a types.Address) *Recipe { return s.recipeFor(a) }

// SignContract signs a v2 contract (revision) with the given parties' keys.
func (s *Sim) SignContract(fc *types.V2FileContract, renter, host types.PublicKey) {
	s.signContract(fc, renter, host)
}

// KeyFor returns the wallet key for a public key.
func (s *Sim) KeyFor(pk types.PublicKey) types.PrivateKey { return s.keyFor(pk) }

// NewAddr returns a fresh wallet address.
func (s *Sim) NewAddr(v2only bool) types.Address { return s.newAddr(v2only, s.Times[len(s.Times)-1]) }

// Spendable reports whether an address can be spent now by the given version.
func (s *Sim) Spendable(a types.Address, v2 bool) bool {
	return s.spendable(s.recipeFor(a), v2, s.Times[len(s.Times)-1])
}

// DeepCopyBlock returns an independent copy of a block (via its encoding).
func DeepCopyBlock(b types.Block) types.Block {
	var buf bytes.Buffer
	e := types.NewEncoder(&buf)
	types.V2Block(b).EncodeTo(e)
	e.Flush()
	var b2 types.Block
	d := types.NewBufDecoder(buf.Bytes())
	(*types.V2Block)(&b2).DecodeFrom(d)
	return b2
}

// CopySupp returns an independent copy of a supplement.
func CopySupp(bs consensus.V1BlockSupplement) consensus.V1BlockSupplement {
	var out consensus.V1BlockSupplement
	d := types.NewBufDecoder(Encode(bs))
	out.DecodeFrom(d)
	return out
}
