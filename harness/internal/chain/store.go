// Package chain builds valid (and deliberately invalid) Sia chains through the
// exported API of go.sia.tech/core only, and keeps an independent element store
// driven by the public update diffs. It is shared by the ledger-level property
// harnesses (C01–C04, C06–C10, C18).
package chain

import (
	"sort"

	"go.sia.tech/core/consensus"
	"go.sia.tech/core/types"
)

// Store is the simplest possible client-side store, written from the doc
// comments of ApplyUpdate / RevertUpdate and the *ElementDiff types: it holds
// every live element with its current Merkle proof.
type Store struct {
	SC   map[types.SiacoinOutputID]types.SiacoinElement
	SF   map[types.SiafundOutputID]types.SiafundElement
	FC   map[types.FileContractID]types.FileContractElement
	V2FC map[types.FileContractID]types.V2FileContractElement
	CIE  map[uint64]types.ChainIndexElement // chain index elements by height
}

func NewStore() *Store {
	return &Store{
		SC:   map[types.SiacoinOutputID]types.SiacoinElement{},
		SF:   map[types.SiafundOutputID]types.SiafundElement{},
		FC:   map[types.FileContractID]types.FileContractElement{},
		V2FC: map[types.FileContractID]types.V2FileContractElement{},
		CIE:  map[uint64]types.ChainIndexElement{},
	}
}

// Clone returns a deep copy (proof slices are copied).
func (st *Store) Clone() *Store {
	c := NewStore()
	for k, v := range st.SC {
		c.SC[k] = v.Copy()
	}
	for k, v := range st.SF {
		c.SF[k] = v.Copy()
	}
	for k, v := range st.FC {
		c.FC[k] = v.Copy()
	}
	for k, v := range st.V2FC {
		c.V2FC[k] = v.Copy()
	}
	for k, v := range st.CIE {
		c.CIE[k] = v.Copy()
	}
	return c
}

type proofUpdater interface {
	UpdateElementProof(e *types.StateElement)
}

func (st *Store) updateProofs(u proofUpdater) {
	for id, e := range st.SC {
		u.UpdateElementProof(&e.StateElement)
		st.SC[id] = e
	}
	for id, e := range st.SF {
		u.UpdateElementProof(&e.StateElement)
		st.SF[id] = e
	}
	for id, e := range st.FC {
		u.UpdateElementProof(&e.StateElement)
		st.FC[id] = e
	}
	for id, e := range st.V2FC {
		u.UpdateElementProof(&e.StateElement)
		st.V2FC[id] = e
	}
	for h, e := range st.CIE {
		u.UpdateElementProof(&e.StateElement)
		st.CIE[h] = e
	}
}

// Apply applies the update of a newly applied block.
func (st *Store) Apply(au consensus.ApplyUpdate) {
	st.updateProofs(au)
	for _, d := range au.SiacoinElementDiffs() {
		switch {
		case d.Spent:
			delete(st.SC, d.SiacoinElement.ID)
		case d.Created:
			st.SC[d.SiacoinElement.ID] = d.SiacoinElement.Copy()
		}
	}
	for _, d := range au.SiafundElementDiffs() {
		switch {
		case d.Spent:
			delete(st.SF, d.SiafundElement.ID)
		case d.Created:
			st.SF[d.SiafundElement.ID] = d.SiafundElement.Copy()
		}
	}
	for _, d := range au.FileContractElementDiffs() {
		switch {
		case d.Resolved:
			delete(st.FC, d.FileContractElement.ID)
		case d.Revision != nil:
			e := d.FileContractElement.Copy()
			e.FileContract = *d.Revision
			st.FC[e.ID] = e
		case d.Created:
			st.FC[d.FileContractElement.ID] = d.FileContractElement.Copy()
		}
	}
	for _, d := range au.V2FileContractElementDiffs() {
		switch {
		case d.Resolution != nil:
			delete(st.V2FC, d.V2FileContractElement.ID)
		case d.Revision != nil:
			e := d.V2FileContractElement.Copy()
			e.V2FileContract = *d.Revision
			st.V2FC[e.ID] = e
		case d.Created:
			st.V2FC[d.V2FileContractElement.ID] = d.V2FileContractElement.Copy()
		}
	}
	cie := au.ChainIndexElement()
	st.CIE[cie.ChainIndex.Height] = cie.Copy()
}

// Revert undoes the update of the tip block.
func (st *Store) Revert(ru consensus.RevertUpdate, height uint64) {
	delete(st.CIE, height)
	for _, d := range ru.SiacoinElementDiffs() {
		switch {
		case d.Created:
			delete(st.SC, d.SiacoinElement.ID)
		case d.Spent:
			st.SC[d.SiacoinElement.ID] = d.SiacoinElement.Copy()
		}
	}
	for _, d := range ru.SiafundElementDiffs() {
		switch {
		case d.Created:
			delete(st.SF, d.SiafundElement.ID)
		case d.Spent:
			st.SF[d.SiafundElement.ID] = d.SiafundElement.Copy()
		}
	}
	for _, d := range ru.FileContractElementDiffs() {
		switch {
		case d.Created:
			delete(st.FC, d.FileContractElement.ID)
		default: // revised and/or resolved: back to the element as it was before the block
			st.FC[d.FileContractElement.ID] = d.FileContractElement.Copy()
		}
	}
	for _, d := range ru.V2FileContractElementDiffs() {
		switch {
		case d.Created:
			delete(st.V2FC, d.V2FileContractElement.ID)
		default:
			st.V2FC[d.V2FileContractElement.ID] = d.V2FileContractElement.Copy()
		}
	}
	st.updateProofs(ru)
}

// Dump is a canonical, order-independent rendering of the store: (kind, id,
// fields, leaf index) — proofs excluded unless withProofs.
func (st *Store) Dump(withProofs bool) []string {
	var out []string
	enc := func(kind string, id [32]byte, se types.StateElement, v types.EncoderTo) {
		var sb []byte
		sb = append(sb, kind...)
		sb = append(sb, ' ')
		sb = append(sb, hexs(id[:])...)
		sb = append(sb, ' ')
		sb = append(sb, hexs(Encode(v))...)
		sb = append(sb, ' ')
		sb = append(sb, uitoa(se.LeafIndex)...)
		if withProofs {
			for _, h := range se.MerkleProof {
				sb = append(sb, ' ')
				sb = append(sb, hexs(h[:])...)
			}
		}
		out = append(out, string(sb))
	}
	for id, e := range st.SC {
		enc("sc", id, e.StateElement, encFn(func(en *types.Encoder) {
			types.V2SiacoinOutput(e.SiacoinOutput).EncodeTo(en)
			en.WriteUint64(e.MaturityHeight)
		}))
	}
	for id, e := range st.SF {
		enc("sf", id, e.StateElement, encFn(func(en *types.Encoder) {
			types.V2SiafundOutput(e.SiafundOutput).EncodeTo(en)
			types.V2Currency(e.ClaimStart).EncodeTo(en)
		}))
	}
	for id, e := range st.FC {
		enc("fc", id, e.StateElement, e.FileContract)
	}
	for id, e := range st.V2FC {
		enc("v2fc", id, e.StateElement, e.V2FileContract)
	}
	sort.Strings(out)
	return out
}

type encFn func(e *types.Encoder)

func (f encFn) EncodeTo(e *types.Encoder) { f(e) }

const hexdigits = "0123456789abcdef"

func hexs(b []byte) string {
	o := make([]byte, len(b)*2)
	for i, c := range b {
		o[2*i] = hexdigits[c>>4]
		o[2*i+1] = hexdigits[c&15]
	}
	return string(o)
}

func uitoa(u uint64) string {
	if u == 0 {
		return "0"
	}
	var b [20]byte
	i := len(b)
	for u > 0 {
		i--
		b[i] = byte('0' + u%10)
		u /= 10
	}
	return string(b[i:])
}

// Deterministic iteration orders (Go map order is random; harness decisions must
// depend on the seed only).
func (st *Store) SortedSC() []types.SiacoinElement         { return sortedSC(st.SC) }
func (st *Store) SortedSF() []types.SiafundElement         { return sortedSF(st.SF) }
func (st *Store) SortedFC() []types.FileContractElement    { return sortedFC(st.FC) }
func (st *Store) SortedV2FC() []types.V2FileContractElement { return sortedV2FC(st.V2FC) }
