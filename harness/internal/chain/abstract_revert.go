package chain

import (
	"fmt"
	"strings"

	"go.sia.tech/core/consensus"
	"go.sia.tech/core/types"
)

// DumpRevert renders a RevertUpdate like the model's `ledger-revert` op: the
// four diff lists in the order the update reports them (the apply order
// reversed), followed by the state scalars of the reverted tip (`after` = the
// state being reverted, `before` = its parent), in the format of DumpUpdate.
func (a *Abstractor) DumpRevert(ru consensus.RevertUpdate, after consensus.State, before consensus.State) string {
	var parts []string
	for _, d := range ru.SiacoinElementDiffs() {
		e := d.SiacoinElement
		parts = append(parts, fmt.Sprintf("sc %d %s %d %d %s%s", a.id(e.ID), e.SiacoinOutput.Value.ExactString(), a.id(e.SiacoinOutput.Address), e.MaturityHeight, b2s(d.Created), b2s(d.Spent)))
	}
	for _, d := range ru.SiafundElementDiffs() {
		e := d.SiafundElement
		parts = append(parts, fmt.Sprintf("sf %d %d %d %s %s%s", a.id(e.ID), e.SiafundOutput.Value, a.id(e.SiafundOutput.Address), e.ClaimStart.ExactString(), b2s(d.Created), b2s(d.Spent)))
	}
	for _, d := range ru.FileContractElementDiffs() {
		rev := "-"
		if d.Revision != nil {
			rev = a.dumpFc1(*d.Revision)
		}
		parts = append(parts, fmt.Sprintf("fc %d %s %s%s%s %s", a.id(d.FileContractElement.ID), a.dumpFc1(d.FileContractElement.FileContract), b2s(d.Created), b2s(d.Resolved), b2s(d.Valid), rev))
	}
	for _, d := range ru.V2FileContractElementDiffs() {
		rev := "-"
		if d.Revision != nil {
			rev = a.dumpFc2(*d.Revision)
		}
		res := "-"
		switch d.Resolution.(type) {
		case *types.V2FileContractRenewal:
			res = "renewal"
		case *types.V2StorageProof:
			res = "proof"
		case *types.V2FileContractExpiration:
			res = "expiration"
		}
		parts = append(parts, fmt.Sprintf("v2fc %d %s %s %s %s", a.id(d.V2FileContractElement.ID), a.dumpFc2(d.V2FileContractElement.V2FileContract), b2s(d.Created), res, rev))
	}
	return strings.Join(parts, ";") + fmt.Sprintf(";pool %s;foundation %d %d;atts %d", after.SiafundTaxRevenue.ExactString(), a.id(after.FoundationSubsidyAddress), a.id(after.FoundationManagementAddress), after.Attestations-before.Attestations)
}
