package chain

// Abstraction of real blocks into inputs of the Lean ledger model
// (lean/SiaModel/Ledger/Model.lean) and canonical rendering of real updates in
// the model's dump format. Hashes become interned numbers; authorisation and
// Merkle checks become verdict bits computed here with exported API + this
// package's own Merkle code.

import (
	"bytes"
	"crypto/sha256"
	"encoding/json"
	"fmt"
	"math/bits"
	"strings"
	"time"

	"go.sia.tech/core/consensus"
	"go.sia.tech/core/types"
)

// Cur marshals a Currency as a bare JSON number.
type Cur types.Currency

func (c Cur) MarshalJSON() ([]byte, error) { return []byte(types.Currency(c).ExactString()), nil }

type Interner struct {
	m map[[32]byte]uint64
}

func NewInterner() *Interner { return &Interner{m: map[[32]byte]uint64{}} }

func (in *Interner) ID(h [32]byte) uint64 {
	if v, ok := in.m[h]; ok {
		return v
	}
	v := uint64(len(in.m) + 1)
	in.m[h] = v
	return v
}

type mParams struct {
	InitialCoinbase Cur    `json:"initialCoinbase"`
	MinimumCoinbase Cur    `json:"minimumCoinbase"`
	MaturityDelay   uint64 `json:"maturityDelay"`
	BlocksPerYear   uint64 `json:"blocksPerYear"`
	HfDevAddr       uint64 `json:"hfDevAddr"`
	DevOldAddr      uint64 `json:"devOldAddr"`
	DevNewAddr      uint64 `json:"devNewAddr"`
	HfTax           uint64 `json:"hfTax"`
	HfStorageProof  uint64 `json:"hfStorageProof"`
	HfFoundation    uint64 `json:"hfFoundation"`
	V2Allow         uint64 `json:"v2Allow"`
	V2Require       uint64 `json:"v2Require"`
	EphemeralFix    uint64 `json:"ephemeralFix"`
	VoidAddr        uint64 `json:"voidAddr"`
}

type mScOut struct {
	Value Cur    `json:"value"`
	Addr  uint64 `json:"addr"`
}

type mScElem struct {
	ID       uint64  `json:"id"`
	Value    Cur     `json:"value"`
	Addr     uint64  `json:"addr"`
	Maturity uint64  `json:"maturity"`
	Leaf     *uint64 `json:"leaf"`
}

type mSfElem struct {
	ID         uint64  `json:"id"`
	Value      uint64  `json:"value"`
	Addr       uint64  `json:"addr"`
	ClaimStart Cur     `json:"claimStart"`
	Leaf       *uint64 `json:"leaf"`
}

type mFc1 struct {
	Filesize    uint64   `json:"filesize"`
	Root        uint64   `json:"root"`
	WindowStart uint64   `json:"windowStart"`
	WindowEnd   uint64   `json:"windowEnd"`
	Payout      Cur      `json:"payout"`
	Valid       []mScOut `json:"valid"`
	Missed      []mScOut `json:"missed"`
	UnlockHash  uint64   `json:"unlockHash"`
	RevNum      uint64   `json:"revNum"`
}

type mFc1Elem struct {
	ID   uint64  `json:"id"`
	Fc   mFc1    `json:"fc"`
	Leaf *uint64 `json:"leaf"`
}

type mFc2 struct {
	Capacity        uint64 `json:"capacity"`
	Filesize        uint64 `json:"filesize"`
	Root            uint64 `json:"root"`
	ProofHeight     uint64 `json:"proofHeight"`
	ExpHeight       uint64 `json:"expHeight"`
	Renter          mScOut `json:"renter"`
	Host            mScOut `json:"host"`
	MissedHost      Cur    `json:"missedHost"`
	TotalCollateral Cur    `json:"totalCollateral"`
	RenterKey       uint64 `json:"renterKey"`
	HostKey         uint64 `json:"hostKey"`
	RevNum          uint64 `json:"revNum"`
}

type mFc2Elem struct {
	ID   uint64  `json:"id"`
	Fc   mFc2    `json:"fc"`
	Leaf *uint64 `json:"leaf"`
}

type mLedger struct {
	P         mParams     `json:"P"`
	Child     uint64      `json:"child"`
	Sc        []mScElem   `json:"sc"`
	Sf        []mSfElem   `json:"sf"`
	Fc1       []mFc1Elem  `json:"fc1"`
	Fc2       []mFc2Elem  `json:"fc2"`
	Pool      Cur         `json:"pool"`
	FPrimary  uint64      `json:"fPrimary"`
	FFailsafe uint64      `json:"fFailsafe"`
	Chain     [][2]uint64 `json:"chain"`
}

type mScIn1 struct {
	Parent   uint64 `json:"parent"`
	Timelock uint64 `json:"timelock"`
	UcAddr   uint64 `json:"ucAddr"`
}
type mSfIn1 struct {
	Parent    uint64 `json:"parent"`
	Timelock  uint64 `json:"timelock"`
	UcAddr    uint64 `json:"ucAddr"`
	ClaimAddr uint64 `json:"claimAddr"`
	ClaimID   uint64 `json:"claimId"`
}
type mRev1 struct {
	Parent   uint64 `json:"parent"`
	Timelock uint64 `json:"timelock"`
	UcAddr   uint64 `json:"ucAddr"`
	Fc       mFc1   `json:"fc"`
}
type mProof1 struct {
	Parent  uint64   `json:"parent"`
	ProofOk bool     `json:"proofOk"`
	OutIds  []uint64 `json:"outIds"`
}
type mSupp1 struct {
	ScIns   []mScElem `json:"scIns"`
	SfIns   []mSfElem `json:"sfIns"`
	Revised []mFc1Elem `json:"revised"`
	Proofs  [][2]any  `json:"proofs"`
}
type mTxn1 struct {
	ScIns      []mScIn1  `json:"scIns"`
	ScOuts     [][2]any  `json:"scOuts"`
	Fcs        [][2]any  `json:"fcs"`
	Revs       []mRev1   `json:"revs"`
	Proofs     []mProof1 `json:"proofs"`
	SfIns      []mSfIn1  `json:"sfIns"`
	SfOuts     [][2]any  `json:"sfOuts"`
	Fees       []Cur     `json:"fees"`
	Foundation any       `json:"foundation"`
	SigsOk     bool      `json:"sigsOk"`
	Weight     uint64    `json:"weight"`
	Supp       mSupp1    `json:"supp"`
}
type mScIn2 struct {
	Parent mScElem `json:"parent"`
	AddrOk bool    `json:"addrOk"`
	AuthOk bool    `json:"authOk"`
}
type mSfIn2 struct {
	Parent    mSfElem `json:"parent"`
	ClaimAddr uint64  `json:"claimAddr"`
	ClaimID   uint64  `json:"claimId"`
	AddrOk    bool    `json:"addrOk"`
	AuthOk    bool    `json:"authOk"`
}
type mRev2 struct {
	Parent   mFc2Elem `json:"parent"`
	Rev      mFc2     `json:"rev"`
	SigCurOk bool     `json:"sigCurOk"`
}
type mRenewal struct {
	FinalRenter    mScOut `json:"finalRenter"`
	FinalHost      mScOut `json:"finalHost"`
	RenterRollover Cur    `json:"renterRollover"`
	HostRollover   Cur    `json:"hostRollover"`
	NewContract    mFc2   `json:"newContract"`
	NewID          uint64 `json:"newId"`
	NewSigOk       bool   `json:"newSigOk"`
	SigOk          bool   `json:"sigOk"`
}
type mResolution2 struct {
	Parent      mFc2Elem `json:"parent"`
	Res         any      `json:"res"`
	RenterOutID uint64   `json:"renterOutId"`
	HostOutID   uint64   `json:"hostOutId"`
}
type mTxn2 struct {
	ScIns         []mScIn2       `json:"scIns"`
	ScOuts        [][2]any       `json:"scOuts"`
	SfIns         []mSfIn2       `json:"sfIns"`
	SfOuts        [][2]any       `json:"sfOuts"`
	Fcs           [][2]any       `json:"fcs"`
	Revs          []mRev2        `json:"revs"`
	Ress          []mResolution2 `json:"ress"`
	Natts         uint64         `json:"natts"`
	AttsOk        bool           `json:"attsOk"`
	NewFoundation *uint64        `json:"newFoundation"`
	Fee           Cur            `json:"fee"`
	Weight        uint64         `json:"weight"`
}
type mBlock struct {
	Txns1           []mTxn1  `json:"txns1"`
	V2              any      `json:"v2"`
	Payouts         [][2]any `json:"payouts"`
	FoundationOutID uint64   `json:"foundationOutId"`
	Expiring        [][2]any `json:"expiring"`
	HeaderOk        bool     `json:"headerOk"`
	BlockID         uint64   `json:"blockId"`
	MaxWeight       uint64   `json:"maxWeight"`
	SuppLenOk       bool     `json:"suppLenOk"`
}
type mReq struct {
	Ledger        mLedger `json:"ledger"`
	Block         mBlock  `json:"block"`
	ParentBlockID uint64  `json:"parentBlockId"`
}

// Abstractor converts blocks of one Sim.
type Abstractor struct {
	S  *Sim
	In *Interner
}

func NewAbstractor(s *Sim) *Abstractor { return &Abstractor{S: s, In: NewInterner()} }

func (a *Abstractor) id(h [32]byte) uint64 { return a.In.ID(h) }

func (a *Abstractor) leaf(se types.StateElement, storeProof []types.Hash256, known bool) *uint64 {
	if se.LeafIndex == types.UnassignedLeafIndex {
		return nil
	}
	l := se.LeafIndex
	if known && !proofEq(se.MerkleProof, storeProof) {
		// a proof that is not the maintained one cannot verify (C04/C05); poison the position
		l = l ^ (1 << 62)
	}
	return &l
}

func proofEq(a, b []types.Hash256) bool {
	if len(a) != len(b) {
		return false
	}
	for i := range a {
		if a[i] != b[i] {
			return false
		}
	}
	return true
}

func (a *Abstractor) scOut(o types.SiacoinOutput) mScOut {
	return mScOut{Value: Cur(o.Value), Addr: a.id(o.Address)}
}

func (a *Abstractor) scElem(e types.SiacoinElement) mScElem {
	st, ok := a.S.St.SC[e.ID]
	return mScElem{ID: a.id(e.ID), Value: Cur(e.SiacoinOutput.Value), Addr: a.id(e.SiacoinOutput.Address), Maturity: e.MaturityHeight, Leaf: a.leaf(e.StateElement, st.StateElement.MerkleProof, ok)}
}

func (a *Abstractor) sfElem(e types.SiafundElement) mSfElem {
	st, ok := a.S.St.SF[e.ID]
	return mSfElem{ID: a.id(e.ID), Value: e.SiafundOutput.Value, Addr: a.id(e.SiafundOutput.Address), ClaimStart: Cur(e.ClaimStart), Leaf: a.leaf(e.StateElement, st.StateElement.MerkleProof, ok)}
}

func (a *Abstractor) fc1(fc types.FileContract) mFc1 {
	m := mFc1{Filesize: fc.Filesize, Root: a.id(fc.FileMerkleRoot), WindowStart: fc.WindowStart, WindowEnd: fc.WindowEnd, Payout: Cur(fc.Payout), UnlockHash: a.id(fc.UnlockHash), RevNum: fc.RevisionNumber, Valid: []mScOut{}, Missed: []mScOut{}}
	for _, o := range fc.ValidProofOutputs {
		m.Valid = append(m.Valid, a.scOut(o))
	}
	for _, o := range fc.MissedProofOutputs {
		m.Missed = append(m.Missed, a.scOut(o))
	}
	return m
}

func (a *Abstractor) fc1Elem(e types.FileContractElement) mFc1Elem {
	st, ok := a.S.St.FC[e.ID]
	return mFc1Elem{ID: a.id(e.ID), Fc: a.fc1(e.FileContract), Leaf: a.leaf(e.StateElement, st.StateElement.MerkleProof, ok)}
}

func (a *Abstractor) fc2(fc types.V2FileContract) mFc2 {
	return mFc2{Capacity: fc.Capacity, Filesize: fc.Filesize, Root: a.id(fc.FileMerkleRoot), ProofHeight: fc.ProofHeight, ExpHeight: fc.ExpirationHeight,
		Renter: a.scOut(fc.RenterOutput), Host: a.scOut(fc.HostOutput), MissedHost: Cur(fc.MissedHostValue), TotalCollateral: Cur(fc.TotalCollateral),
		RenterKey: a.id(fc.RenterPublicKey), HostKey: a.id(fc.HostPublicKey), RevNum: fc.RevisionNumber}
}

func (a *Abstractor) fc2Elem(e types.V2FileContractElement) mFc2Elem {
	st, ok := a.S.St.V2FC[e.ID]
	return mFc2Elem{ID: a.id(e.ID), Fc: a.fc2(e.V2FileContract), Leaf: a.leaf(e.StateElement, st.StateElement.MerkleProof, ok)}
}

func (a *Abstractor) params() mParams {
	n := a.S.Net
	return mParams{
		InitialCoinbase: Cur(n.InitialCoinbase), MinimumCoinbase: Cur(n.MinimumCoinbase), MaturityDelay: n.MaturityDelay,
		BlocksPerYear: uint64(365 * 24 * time.Hour / n.BlockInterval),
		HfDevAddr:     n.HardforkDevAddr.Height, DevOldAddr: a.id(n.HardforkDevAddr.OldAddress), DevNewAddr: a.id(n.HardforkDevAddr.NewAddress),
		HfTax: n.HardforkTax.Height, HfStorageProof: n.HardforkStorageProof.Height, HfFoundation: n.HardforkFoundation.Height,
		V2Allow: n.HardforkV2.AllowHeight, V2Require: n.HardforkV2.RequireHeight, EphemeralFix: n.HardforkV2.EphemeralOutputHeight,
		VoidAddr: a.id(types.VoidAddress),
	}
}

// ---- verdict bits

// V1SigsOK mirrors the signature rules of v1 transactions (statement: every
// listed parent needs exactly its required number of valid, non-redundant,
// unlocked signatures by distinct listed keys; entropy keys are unusable).
// Duplicate parents are judged separately by the model.
func V1SigsOK(cs consensus.State, txn types.Transaction, child uint64) bool {
	type entry struct {
		need uint64
		keys []types.UnlockKey
		used []bool
	}
	m := map[types.Hash256]*entry{}
	add := func(id types.Hash256, uc types.UnlockConditions) {
		if _, ok := m[id]; !ok {
			m[id] = &entry{need: uc.SignaturesRequired, keys: uc.PublicKeys, used: make([]bool, len(uc.PublicKeys))}
		}
	}
	for _, i := range txn.SiacoinInputs {
		add(types.Hash256(i.ParentID), i.UnlockConditions)
	}
	for _, i := range txn.SiafundInputs {
		add(types.Hash256(i.ParentID), i.UnlockConditions)
	}
	for _, r := range txn.FileContractRevisions {
		add(types.Hash256(r.ParentID), r.UnlockConditions)
	}
	for _, sig := range txn.Signatures {
		e, ok := m[sig.ParentID]
		if !ok || sig.PublicKeyIndex >= uint64(len(e.keys)) || e.need == 0 || e.used[sig.PublicKeyIndex] || sig.Timelock > child || !coveredInRange(txn, sig.CoveredFields) {
			return false
		}
		e.used[sig.PublicKeyIndex] = true
		e.need--
		switch pk := e.keys[sig.PublicKeyIndex]; pk.Algorithm {
		case types.SpecifierEd25519:
			var epk types.PublicKey
			var esig types.Signature
			copy(epk[:], pk.Key)
			copy(esig[:], sig.Signature)
			var h types.Hash256
			if sig.CoveredFields.WholeTransaction {
				h = cs.WholeSigHash(txn, sig.ParentID, sig.PublicKeyIndex, sig.Timelock, sig.CoveredFields.Signatures)
			} else {
				h = cs.PartialSigHash(txn, sig.CoveredFields)
			}
			if !epk.VerifyHash(h, esig) {
				return false
			}
		case types.SpecifierEntropy:
			return false
		}
	}
	for _, e := range m {
		if e.need > 0 {
			return false
		}
	}
	return true
}

// coveredInRange: a signature may only name fields the transaction has.
func coveredInRange(txn types.Transaction, cf types.CoveredFields) bool {
	in := func(idx []uint64, n int) bool {
		for _, i := range idx {
			if i >= uint64(n) {
				return false
			}
		}
		return true
	}
	if cf.WholeTransaction {
		return in(cf.Signatures, len(txn.Signatures))
	}
	return in(cf.SiacoinInputs, len(txn.SiacoinInputs)) && in(cf.SiacoinOutputs, len(txn.SiacoinOutputs)) && in(cf.FileContracts, len(txn.FileContracts)) &&
		in(cf.FileContractRevisions, len(txn.FileContractRevisions)) && in(cf.StorageProofs, len(txn.StorageProofs)) && in(cf.SiafundInputs, len(txn.SiafundInputs)) &&
		in(cf.SiafundOutputs, len(txn.SiafundOutputs)) && in(cf.MinerFees, len(txn.MinerFees)) && in(cf.ArbitraryData, len(txn.ArbitraryData)) && in(cf.Signatures, len(txn.Signatures))
}

func lastLeafIndex(filesize uint64) uint64 {
	if filesize%64 != 0 {
		return filesize / 64
	}
	return filesize/64 - 1
}

// V1ProofOK: the statement-level reading of the three historical leaf eras.
func V1ProofOK(n *consensus.Network, child uint64, fc types.FileContract, leafIndex uint64, sp types.StorageProof) bool {
	var leaf []byte
	switch {
	case child < n.HardforkTax.Height:
		leaf = sp.Leaf[:]
	case child < n.HardforkStorageProof.Height:
		if leafIndex == lastLeafIndex(fc.Filesize) {
			leaf = sp.Leaf[:fc.Filesize%64]
		} else {
			leaf = sp.Leaf[:]
		}
	default:
		if fc.Filesize == 0 {
			return true
		} else if leafIndex == lastLeafIndex(fc.Filesize) && fc.Filesize%64 != 0 {
			leaf = sp.Leaf[:fc.Filesize%64]
		} else {
			leaf = sp.Leaf[:]
		}
	}
	root := leafHash64(leaf)
	h := bits.Len64(leafIndex ^ lastLeafIndex(fc.Filesize))
	if fc.Filesize > 0 && len(sp.Proof) < h {
		return false // too short to be a proof of this leaf
	}
	for i, p := range sp.Proof {
		if i < 64 && leafIndex&(1<<uint(i)) != 0 || i >= h {
			root = nodeHash(p, root)
		} else {
			root = nodeHash(root, p)
		}
	}
	return root == fc.FileMerkleRoot
}

// V2ProofOK: verify a v2 storage proof against the contract root.
func V2ProofOK(fc types.V2FileContract, leafIndex uint64, sp *types.V2StorageProof) bool {
	last := lastLeafIndex(fc.Filesize)
	h := bits.Len64(leafIndex ^ last)
	if len(sp.Proof) < h {
		return types.Hash256{} == fc.FileMerkleRoot
	}
	var root types.Hash256
	if len(sp.Leaf) == 64 {
		root = leafHash64(sp.Leaf[:])
	}
	for i, p := range sp.Proof {
		if i < h {
			if leafIndex&(1<<uint(i)) == 0 {
				root = nodeHash(root, p)
			} else {
				root = nodeHash(p, root)
			}
		} else {
			root = nodeHash(p, root)
		}
	}
	return root == fc.FileMerkleRoot
}

func contractSigsOK(cs consensus.State, fc types.V2FileContract, renter, host types.PublicKey) bool {
	h := cs.ContractSigHash(fc)
	return renter.VerifyHash(h, fc.RenterSignature) && host.VerifyHash(h, fc.HostSignature)
}

// Abstract builds the model request for block b on the current tip.
func (a *Abstractor) Abstract(b types.Block, bs consensus.V1BlockSupplement) string {
	s := a.S
	cs := s.Tip
	child := s.ChildHeight()
	L := mLedger{P: a.params(), Child: child, Pool: Cur(cs.SiafundTaxRevenue), FPrimary: a.id(cs.FoundationSubsidyAddress), FFailsafe: a.id(cs.FoundationManagementAddress),
		Sc: []mScElem{}, Sf: []mSfElem{}, Fc1: []mFc1Elem{}, Fc2: []mFc2Elem{}, Chain: [][2]uint64{}}
	seen := map[[32]byte]bool{}
	mention := func(id [32]byte) {
		if seen[id] {
			return
		}
		seen[id] = true
		if e, ok := s.St.SC[types.SiacoinOutputID(id)]; ok {
			L.Sc = append(L.Sc, a.scElem(e))
		}
		if e, ok := s.St.SF[types.SiafundOutputID(id)]; ok {
			L.Sf = append(L.Sf, a.sfElem(e))
		}
		if e, ok := s.St.FC[types.FileContractID(id)]; ok {
			L.Fc1 = append(L.Fc1, a.fc1Elem(e))
		}
		if e, ok := s.St.V2FC[types.FileContractID(id)]; ok {
			L.Fc2 = append(L.Fc2, a.fc2Elem(e))
		}
	}
	mb := mBlock{Txns1: []mTxn1{}, Payouts: [][2]any{}, Expiring: [][2]any{}, MaxWeight: cs.MaxBlockWeight(), SuppLenOk: len(bs.Transactions) == len(b.Transactions)}
	bid := b.ID()
	mb.BlockID = a.id(bid)
	mb.FoundationOutID = a.id(bid.FoundationOutputID())
	mb.HeaderOk = consensus.ValidateHeader(cs, b.Header()) == nil
	for i, mp := range b.MinerPayouts {
		mb.Payouts = append(mb.Payouts, [2]any{a.id(bid.MinerOutputID(i)), a.scOut(mp)})
	}
	for i, txn := range b.Transactions {
		var ts consensus.V1TransactionSupplement
		if i < len(bs.Transactions) {
			ts = bs.Transactions[i]
		}
		mt := mTxn1{ScIns: []mScIn1{}, ScOuts: [][2]any{}, Fcs: [][2]any{}, Revs: []mRev1{}, Proofs: []mProof1{}, SfIns: []mSfIn1{}, SfOuts: [][2]any{}, Fees: []Cur{},
			Supp: mSupp1{ScIns: []mScElem{}, SfIns: []mSfElem{}, Revised: []mFc1Elem{}, Proofs: [][2]any{}}}
		for _, e := range ts.SiacoinInputs {
			mention(e.ID)
			mt.Supp.ScIns = append(mt.Supp.ScIns, a.scElem(e))
		}
		for _, e := range ts.SiafundInputs {
			mention(e.ID)
			mt.Supp.SfIns = append(mt.Supp.SfIns, a.sfElem(e))
		}
		for _, e := range ts.RevisedFileContracts {
			mention(e.ID)
			mt.Supp.Revised = append(mt.Supp.Revised, a.fc1Elem(e))
		}
		for _, p := range ts.StorageProofs {
			mention(p.FileContract.ID)
			mt.Supp.Proofs = append(mt.Supp.Proofs, [2]any{a.fc1Elem(p.FileContract), a.id(p.WindowID)})
		}
		for _, in := range txn.SiacoinInputs {
			mention(in.ParentID)
			mt.ScIns = append(mt.ScIns, mScIn1{Parent: a.id(in.ParentID), Timelock: in.UnlockConditions.Timelock, UcAddr: a.id(in.UnlockConditions.UnlockHash())})
		}
		for j, o := range txn.SiacoinOutputs {
			mt.ScOuts = append(mt.ScOuts, [2]any{a.id(txn.SiacoinOutputID(j)), a.scOut(o)})
		}
		for j, fc := range txn.FileContracts {
			mt.Fcs = append(mt.Fcs, [2]any{a.id(txn.FileContractID(j)), a.fc1(fc)})
		}
		for _, r := range txn.FileContractRevisions {
			mention(r.ParentID)
			mt.Revs = append(mt.Revs, mRev1{Parent: a.id(r.ParentID), Timelock: r.UnlockConditions.Timelock, UcAddr: a.id(r.UnlockConditions.UnlockHash()), Fc: a.fc1(r.FileContract)})
		}
		for _, sp := range txn.StorageProofs {
			mention(sp.ParentID)
			mp := mProof1{Parent: a.id(sp.ParentID), OutIds: []uint64{}}
			// contract as it currently stands: in-block revision if any, else supplement
			fc, windowID, ok := a.v1CurrentContract(b, bs, i, sp.ParentID)
			if ok {
				idx := cs.StorageProofLeafIndex(fc.Filesize, windowID, sp.ParentID)
				mp.ProofOk = V1ProofOK(s.Net, child, fc, idx, sp)
				for k := range fc.ValidProofOutputs {
					mp.OutIds = append(mp.OutIds, a.id(sp.ParentID.ValidOutputID(k)))
				}
			}
			mt.Proofs = append(mt.Proofs, mp)
		}
		for _, in := range txn.SiafundInputs {
			mention(in.ParentID)
			mt.SfIns = append(mt.SfIns, mSfIn1{Parent: a.id(in.ParentID), Timelock: in.UnlockConditions.Timelock, UcAddr: a.id(in.UnlockConditions.UnlockHash()), ClaimAddr: a.id(in.ClaimAddress), ClaimID: a.id(in.ParentID.ClaimOutputID())})
		}
		for j, o := range txn.SiafundOutputs {
			mt.SfOuts = append(mt.SfOuts, [2]any{a.id(txn.SiafundOutputID(j)), [2]any{o.Value, a.id(o.Address)}})
		}
		for _, f := range txn.MinerFees {
			mt.Fees = append(mt.Fees, Cur(f))
		}
		mt.Foundation = a.v1Foundation(cs, txn)
		mt.SigsOk = V1SigsOK(cs, txn, child)
		mt.Weight = cs.TransactionWeight(txn)
		mb.Txns1 = append(mb.Txns1, mt)
	}
	for _, e := range bs.ExpiringFileContracts {
		mention(e.ID)
		ids := []uint64{}
		for k := range e.FileContract.MissedProofOutputs {
			ids = append(ids, a.id(e.ID.MissedOutputID(k)))
		}
		mb.Expiring = append(mb.Expiring, [2]any{a.fc1Elem(e), ids})
	}
	if b.V2 != nil {
		commitOk := len(b.MinerPayouts) >= 1 && b.V2.Commitment == cs.Commitment(b.MinerPayouts[0].Address, b.Transactions, b.V2Transactions())
		txns := []mTxn2{}
		curContract := map[types.FileContractID]types.V2FileContract{}
		med := s.MedianTime()
		for _, txn := range b.V2.Transactions {
			txid := txn.ID()
			sigHash := cs.InputSigHash(txn)
			mt := mTxn2{ScIns: []mScIn2{}, ScOuts: [][2]any{}, SfIns: []mSfIn2{}, SfOuts: [][2]any{}, Fcs: [][2]any{}, Revs: []mRev2{}, Ress: []mResolution2{}, Fee: Cur(txn.MinerFee), AttsOk: true}
			for _, in := range txn.SiacoinInputs {
				mention(in.Parent.ID)
				sp := in.SatisfiedPolicy
				mt.ScIns = append(mt.ScIns, mScIn2{Parent: a.scElem(in.Parent), AddrOk: sp.Policy.Address() == in.Parent.SiacoinOutput.Address,
					AuthOk: sp.Policy.Verify(cs.Index.Height, med, sigHash, sp.Signatures, sp.Preimages) == nil})
			}
			for j, o := range txn.SiacoinOutputs {
				mt.ScOuts = append(mt.ScOuts, [2]any{a.id(txn.SiacoinOutputID(txid, j)), a.scOut(o)})
			}
			for _, in := range txn.SiafundInputs {
				mention(in.Parent.ID)
				sp := in.SatisfiedPolicy
				mt.SfIns = append(mt.SfIns, mSfIn2{Parent: a.sfElem(in.Parent), ClaimAddr: a.id(in.ClaimAddress), ClaimID: a.id(in.Parent.ID.V2ClaimOutputID()),
					AddrOk: sp.Policy.Address() == in.Parent.SiafundOutput.Address,
					AuthOk: sp.Policy.Verify(cs.Index.Height, med, sigHash, sp.Signatures, sp.Preimages) == nil})
			}
			for j, o := range txn.SiafundOutputs {
				mt.SfOuts = append(mt.SfOuts, [2]any{a.id(txn.SiafundOutputID(txid, j)), [2]any{o.Value, a.id(o.Address)}})
			}
			for j, fc := range txn.FileContracts {
				mt.Fcs = append(mt.Fcs, [2]any{a.id(txn.V2FileContractID(txid, j)), [2]any{a.fc2(fc), contractSigsOK(cs, fc, fc.RenterPublicKey, fc.HostPublicKey)}})
				curContract[txn.V2FileContractID(txid, j)] = fc
			}
			for _, r := range txn.FileContractRevisions {
				mention(r.Parent.ID)
				cur, ok := curContract[r.Parent.ID]
				if !ok {
					cur = r.Parent.V2FileContract
				}
				mt.Revs = append(mt.Revs, mRev2{Parent: a.fc2Elem(r.Parent), Rev: a.fc2(r.Revision), SigCurOk: contractSigsOK(cs, r.Revision, cur.RenterPublicKey, cur.HostPublicKey)})
				curContract[r.Parent.ID] = r.Revision
			}
			for _, r := range txn.FileContractResolutions {
				mention(r.Parent.ID)
				fc := r.Parent.V2FileContract
				mr := mResolution2{Parent: a.fc2Elem(r.Parent), RenterOutID: a.id(r.Parent.ID.V2RenterOutputID()), HostOutID: a.id(r.Parent.ID.V2HostOutputID())}
				switch res := r.Resolution.(type) {
				case *types.V2FileContractRenewal:
					h := cs.RenewalSigHash(*res)
					mr.Res = map[string]any{"renewal": map[string]any{"r": mRenewal{
						FinalRenter: a.scOut(res.FinalRenterOutput), FinalHost: a.scOut(res.FinalHostOutput), RenterRollover: Cur(res.RenterRollover), HostRollover: Cur(res.HostRollover),
						NewContract: a.fc2(res.NewContract), NewID: a.id(r.Parent.ID.V2RenewalID()),
						NewSigOk: contractSigsOK(cs, res.NewContract, res.NewContract.RenterPublicKey, res.NewContract.HostPublicKey),
						SigOk:    fc.RenterPublicKey.VerifyHash(h, res.RenterSignature) && fc.HostPublicKey.VerifyHash(h, res.HostSignature),
					}}}
				case *types.V2StorageProof:
					ci := res.ProofIndex
					stc, known := s.St.CIE[ci.ChainIndex.Height]
					leafOk := known && stc.ID == ci.ID && stc.ChainIndex == ci.ChainIndex && stc.StateElement.LeafIndex == ci.StateElement.LeafIndex && proofEq(stc.StateElement.MerkleProof, ci.StateElement.MerkleProof)
					if known {
						L.Chain = append(L.Chain, [2]uint64{stc.ChainIndex.Height, a.id(stc.ChainIndex.ID)})
					}
					idx := cs.StorageProofLeafIndex(fc.Filesize, ci.ChainIndex.ID, r.Parent.ID)
					mr.Res = map[string]any{"proof": map[string]any{"indexHeight": ci.ChainIndex.Height, "indexId": a.id(ci.ChainIndex.ID), "indexLeafOk": leafOk, "proofOk": V2ProofOK(fc, idx, res)}}
				case *types.V2FileContractExpiration:
					mr.Res = "expiration"
				}
				mt.Ress = append(mt.Ress, mr)
			}
			mt.Natts = uint64(len(txn.Attestations))
			for _, at := range txn.Attestations {
				if len(at.Key) == 0 || !at.PublicKey.VerifyHash(cs.AttestationSigHash(at), at.Signature) {
					mt.AttsOk = false
				}
			}
			if txn.NewFoundationAddress != nil {
				v := a.id(*txn.NewFoundationAddress)
				mt.NewFoundation = &v
			}
			mt.Weight = cs.V2TransactionWeight(txn)
			txns = append(txns, mt)
		}
		mb.V2 = [2]any{b.V2.Height, [2]any{commitOk, txns}}
	}
	req := mReq{Ledger: L, Block: mb, ParentBlockID: a.id(cs.Index.ID)}
	buf, err := json.Marshal(req)
	if err != nil {
		panic(err)
	}
	if bytes.ContainsAny(buf, " \n") {
		panic("abstract: JSON contains whitespace")
	}
	return string(buf)
}

// v1CurrentContract finds the contract a v1 storage proof in transaction i is
// judged against (the latest in-block creation/revision by transactions before
// i, else the supplement of transaction i) and the window id used.
func (a *Abstractor) v1CurrentContract(b types.Block, bs consensus.V1BlockSupplement, i int, id types.FileContractID) (types.FileContract, types.BlockID, bool) {
	type track struct {
		created  bool
		elemFC   types.FileContract
		revision *types.FileContract
	}
	var tr *track
	for j := 0; j < i && j < len(b.Transactions); j++ {
		t := b.Transactions[j]
		for k, c := range t.FileContracts {
			if t.FileContractID(k) == id {
				tr = &track{created: true, elemFC: c}
			}
		}
		for _, r := range t.FileContractRevisions {
			if r.ParentID != id {
				continue
			}
			rev := r.FileContract
			if tr == nil {
				// parent comes from the supplement of transaction j
				if j >= len(bs.Transactions) {
					continue
				}
				for _, e := range bs.Transactions[j].RevisedFileContracts {
					if e.ID == id {
						tr = &track{elemFC: e.FileContract}
					}
				}
				if tr == nil {
					continue
				}
			}
			cur := tr.elemFC
			if tr.revision != nil {
				cur = *tr.revision
			}
			rev.Payout = cur.Payout
			if tr.created {
				tr.elemFC = rev
			} else {
				tr.revision = &rev
			}
		}
	}
	var fc types.FileContract
	found := false
	var windowID types.BlockID
	haveWindow := false
	if tr != nil {
		fc, found = tr.elemFC, true
		if tr.revision != nil {
			fc = *tr.revision
		}
		if tr.elemFC.WindowStart == a.S.ChildHeight() {
			windowID, haveWindow = a.S.Tip.Index.ID, true
		}
	}
	if i < len(bs.Transactions) {
		if !found {
			for _, e := range bs.Transactions[i].RevisedFileContracts {
				if e.ID == id && !found {
					fc, found = e.FileContract, true
				}
			}
		}
		for _, p := range bs.Transactions[i].StorageProofs {
			if p.FileContract.ID == id {
				if !found {
					fc, found = p.FileContract.FileContract, true
				}
				if !haveWindow {
					windowID, haveWindow = p.WindowID, true
				}
				break
			}
		}
	}
	return fc, windowID, found && haveWindow
}

func (a *Abstractor) v1Foundation(cs consensus.State, txn types.Transaction) any {
	var res any
	for _, arb := range txn.ArbitraryData {
		if !bytes.HasPrefix(arb, types.SpecifierFoundation[:]) {
			continue
		}
		var upd types.FoundationAddressUpdate
		d := types.NewBufDecoder(arb[len(types.SpecifierFoundation):])
		upd.DecodeFrom(d)
		signed := false
		for _, sci := range txn.SiacoinInputs {
			uh := sci.UnlockConditions.UnlockHash()
			if uh != cs.FoundationSubsidyAddress && uh != cs.FoundationManagementAddress {
				continue
			}
			for _, sig := range txn.Signatures {
				signed = signed || (sig.ParentID == types.Hash256(sci.ParentID) && sig.CoveredFields.WholeTransaction)
			}
			if signed {
				break
			}
		}
		if d.Err() != nil {
			return [2]any{nil, signed}
		}
		res = [2]any{[2]uint64{a.id(upd.NewPrimary), a.id(upd.NewFailsafe)}, signed}
	}
	return res
}

// ---- rendering of real updates in the model's dump format

func b2s(b bool) string {
	if b {
		return "1"
	}
	return "0"
}

func (a *Abstractor) dumpOuts(os []types.SiacoinOutput) string {
	var parts []string
	for _, o := range os {
		parts = append(parts, fmt.Sprintf("%s:%d", o.Value.ExactString(), a.id(o.Address)))
	}
	return strings.Join(parts, ",")
}

func (a *Abstractor) dumpFc1(f types.FileContract) string {
	return fmt.Sprintf("%d/%d/%d/%d/%s/[%s]/[%s]/%d/%d", f.Filesize, a.id(f.FileMerkleRoot), f.WindowStart, f.WindowEnd, f.Payout.ExactString(), a.dumpOuts(f.ValidProofOutputs), a.dumpOuts(f.MissedProofOutputs), a.id(f.UnlockHash), f.RevisionNumber)
}

func (a *Abstractor) dumpFc2(f types.V2FileContract) string {
	return fmt.Sprintf("%d/%d/%d/%d/%d/%s:%d/%s:%d/%s/%s/%d/%d/%d", f.Capacity, f.Filesize, a.id(f.FileMerkleRoot), f.ProofHeight, f.ExpirationHeight,
		f.RenterOutput.Value.ExactString(), a.id(f.RenterOutput.Address), f.HostOutput.Value.ExactString(), a.id(f.HostOutput.Address),
		f.MissedHostValue.ExactString(), f.TotalCollateral.ExactString(), a.id(f.RenterPublicKey), a.id(f.HostPublicKey), f.RevisionNumber)
}

// DumpUpdate renders an ApplyUpdate (plus the resulting state scalars) like the
// model's `dumpMid`.
func (a *Abstractor) DumpUpdate(au consensus.ApplyUpdate, after consensus.State, before consensus.State) string {
	var parts []string
	for _, d := range au.SiacoinElementDiffs() {
		e := d.SiacoinElement
		parts = append(parts, fmt.Sprintf("sc %d %s %d %d %s%s", a.id(e.ID), e.SiacoinOutput.Value.ExactString(), a.id(e.SiacoinOutput.Address), e.MaturityHeight, b2s(d.Created), b2s(d.Spent)))
	}
	for _, d := range au.SiafundElementDiffs() {
		e := d.SiafundElement
		parts = append(parts, fmt.Sprintf("sf %d %d %d %s %s%s", a.id(e.ID), e.SiafundOutput.Value, a.id(e.SiafundOutput.Address), e.ClaimStart.ExactString(), b2s(d.Created), b2s(d.Spent)))
	}
	for _, d := range au.FileContractElementDiffs() {
		rev := "-"
		if d.Revision != nil {
			rev = a.dumpFc1(*d.Revision)
		}
		parts = append(parts, fmt.Sprintf("fc %d %s %s%s%s %s", a.id(d.FileContractElement.ID), a.dumpFc1(d.FileContractElement.FileContract), b2s(d.Created), b2s(d.Resolved), b2s(d.Valid), rev))
	}
	for _, d := range au.V2FileContractElementDiffs() {
		rev := "-"
		if d.Revision != nil {
			rev = a.dumpFc2(*d.Revision)
		}
		res := "-"
		switch d.Resolution.(type) {
		case *types.V2FileContractRenewal:
			res = "renewal"
		case *types.V2StorageProof:
			res = "proof"
		case *types.V2FileContractExpiration:
			res = "expiration"
		}
		parts = append(parts, fmt.Sprintf("v2fc %d %s %s %s %s", a.id(d.V2FileContractElement.ID), a.dumpFc2(d.V2FileContractElement.V2FileContract), b2s(d.Created), res, rev))
	}
	return strings.Join(parts, ";") + fmt.Sprintf(";pool %s;foundation %d %d;atts %d", after.SiafundTaxRevenue.ExactString(), a.id(after.FoundationSubsidyAddress), a.id(after.FoundationManagementAddress), after.Attestations-before.Attestations)
}

var _ = sha256.Sum256
