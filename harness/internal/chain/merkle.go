package chain

import (
	"bytes"

	"go.sia.tech/core/types"
)

// Independent, plainly defined binary Merkle tree (RFC 6962 shape: split at the
// largest power of two strictly below n) over 64-byte leaves. Used to build file
// Merkle roots and honest storage proofs without touching core's own tree code.

func Encode(v types.EncoderTo) []byte {
	var buf bytes.Buffer
	e := types.NewEncoder(&buf)
	v.EncodeTo(e)
	e.Flush()
	return buf.Bytes()
}

func leafHash64(seg []byte) types.Hash256 {
	buf := make([]byte, 65)
	buf[0] = 0
	copy(buf[1:], seg)
	return types.HashBytes(buf)
}

func nodeHash(l, r types.Hash256) types.Hash256 {
	buf := make([]byte, 65)
	buf[0] = 1
	copy(buf[1:], l[:])
	copy(buf[33:], r[:])
	return types.HashBytes(buf)
}

func treeRoot(leaves []types.Hash256) types.Hash256 {
	switch len(leaves) {
	case 0:
		return types.Hash256{}
	case 1:
		return leaves[0]
	}
	k := 1
	for k*2 < len(leaves) {
		k *= 2
	}
	return nodeHash(treeRoot(leaves[:k]), treeRoot(leaves[k:]))
}

// treePath returns the sibling hashes from leaf i up to the root.
func treePath(leaves []types.Hash256, i int) []types.Hash256 {
	if len(leaves) <= 1 {
		return nil
	}
	k := 1
	for k*2 < len(leaves) {
		k *= 2
	}
	if i < k {
		return append(treePath(leaves[:k], i), treeRoot(leaves[k:]))
	}
	return append(treePath(leaves[k:], i-k), treeRoot(leaves[:k]))
}

// FileLeaves splits data into 64-byte segments, the last one zero-padded.
func FileLeaves(data []byte) []types.Hash256 {
	var ls []types.Hash256
	for off := 0; off < len(data); off += 64 {
		end := off + 64
		if end > len(data) {
			end = len(data)
		}
		ls = append(ls, leafHash64(data[off:end]))
	}
	return ls
}

// FileRoot is the Merkle root committed in a contract for data.
func FileRoot(data []byte) types.Hash256 { return treeRoot(FileLeaves(data)) }

// FileProof returns the (zero-padded) 64-byte leaf i and its path.
func FileProof(data []byte, i uint64) (leaf [64]byte, proof []types.Hash256) {
	off := int(i) * 64
	end := off + 64
	if end > len(data) {
		end = len(data)
	}
	if off < len(data) {
		copy(leaf[:], data[off:end])
	}
	return leaf, treePath(FileLeaves(data), int(i))
}
