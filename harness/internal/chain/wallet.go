package chain

import (
	"crypto/sha256"
	"math/rand"
	"time"

	"go.sia.tech/core/types"
)

// A Recipe knows how to spend outputs sent to one address.
type Recipe struct {
	Kind   string // uc1 | uc2of3 | pk | thresh | above | after | hash
	Addr   types.Address
	UC     *types.UnlockConditions // set for uc kinds (spendable by v1 and v2 transactions)
	Policy types.SpendPolicy       // full (non-opaque) policy for v2 spends
	// how to satisfy: keys to sign with, in the order the verifier consumes them
	Keys      []types.PrivateKey
	UCKeyIdx  []uint64 // for v1: public key index of each signing key
	Preimages [][32]byte
	// locks
	MinHeight uint64    // v1: uc timelock (child height >= MinHeight); v2 above(h): parent height >= h
	MinTime   time.Time // v2 after(t): median > t
	// the policy revealed when spending (with unused branches opaque)
	Reveal types.SpendPolicy
}

func (r *Recipe) V1Spendable() bool { return r.UC != nil }

type Wallet struct {
	Keys    []types.PrivateKey
	Recipes map[types.Address]*Recipe
	rng     *rand.Rand
}

func NewWallet(rng *rand.Rand, n int) *Wallet {
	w := &Wallet{Recipes: map[types.Address]*Recipe{}, rng: rng}
	for i := 0; i < n; i++ {
		seed := make([]byte, 32)
		rng.Read(seed)
		w.Keys = append(w.Keys, types.NewPrivateKeyFromSeed(seed))
	}
	return w
}

func (w *Wallet) key() types.PrivateKey { return w.Keys[w.rng.Intn(len(w.Keys))] }

func unlockKey(pk types.PublicKey) types.UnlockKey {
	return types.UnlockKey{Algorithm: types.SpecifierEd25519, Key: pk[:]}
}

// NewRecipe registers a fresh address. v2ok: v2-only policies may be used.
// lockHeight/lockTime: a height / time that has already passed (locks are
// generated satisfied-or-soon-satisfied by the caller's choice).
func (w *Wallet) NewRecipe(v2ok bool, curHeight uint64, curTime time.Time) *Recipe {
	kinds := []string{"uc1", "uc1", "uc2of3", "uclock", "uc0", "uc2of70", "ucalien"}
	if v2ok {
		kinds = append(kinds, "pk", "pk", "thresh", "above", "after", "hash")
	}
	return w.NewRecipeKind(kinds[w.rng.Intn(len(kinds))], curHeight, curTime)
}

func (w *Wallet) NewRecipeKind(kind string, curHeight uint64, curTime time.Time) *Recipe {
	r := &Recipe{Kind: kind}
	switch kind {
	case "uc1":
		k := w.key()
		uc := types.StandardUnlockConditions(k.PublicKey())
		r.UC = &uc
		r.Keys = []types.PrivateKey{k}
		r.UCKeyIdx = []uint64{0}
	case "uclock":
		k := w.key()
		uc := types.StandardUnlockConditions(k.PublicKey())
		uc.Timelock = curHeight + uint64(w.rng.Intn(4))
		r.UC = &uc
		r.Keys = []types.PrivateKey{k}
		r.UCKeyIdx = []uint64{0}
		r.MinHeight = uc.Timelock
	case "uc0":
		// anyone can spend: no keys, zero signatures required (distinct addresses via an already-passed timelock)
		uc := types.UnlockConditions{Timelock: uint64(w.rng.Intn(int(curHeight) + 1))}
		r.UC = &uc
		r.MinHeight = uc.Timelock
	case "uc2of3":
		ks := []types.PrivateKey{w.key(), w.key(), w.key()}
		uc := types.UnlockConditions{SignaturesRequired: 2}
		for _, k := range ks {
			uc.PublicKeys = append(uc.PublicKeys, unlockKey(k.PublicKey()))
		}
		r.UC = &uc
		a, b := 0, 1+w.rng.Intn(2)
		if w.rng.Intn(2) == 0 {
			a, b = 1, 2
		}
		r.Keys = []types.PrivateKey{ks[a], ks[b]}
		r.UCKeyIdx = []uint64{uint64(a), uint64(b)}
	case "ucalien":
		// one key of an algorithm core does not know: any signature is accepted for it (v1 and v2),
		// but every other rule (timelocks, covered fields, counts) still applies
		key := make([]byte, 32)
		w.rng.Read(key)
		uc := types.UnlockConditions{SignaturesRequired: 1, PublicKeys: []types.UnlockKey{{Algorithm: types.NewSpecifier("lamport"), Key: key}}}
		r.UC = &uc
		r.Keys = []types.PrivateKey{w.key()} // signs something; the bytes are irrelevant
		r.UCKeyIdx = []uint64{0}
	case "uc2of70":
		// a wide multisig: the two signers sit at key indices beyond 63 (bookkeeping per key index must not be 64 bits wide)
		uc := types.UnlockConditions{SignaturesRequired: 2}
		ks := make([]types.PrivateKey, 70)
		for i := range ks {
			seed := make([]byte, 32)
			w.rng.Read(seed)
			ks[i] = types.NewPrivateKeyFromSeed(seed)
			uc.PublicKeys = append(uc.PublicKeys, unlockKey(ks[i].PublicKey()))
		}
		a := 64 + w.rng.Intn(3)
		b := a + 1 + w.rng.Intn(69-a)
		r.UC = &uc
		r.Keys = []types.PrivateKey{ks[a], ks[b]}
		r.UCKeyIdx = []uint64{uint64(a), uint64(b)}
	case "pk":
		k := w.key()
		r.Policy = types.PolicyPublicKey(k.PublicKey())
		r.Keys = []types.PrivateKey{k}
	case "hash":
		var pre [32]byte
		w.rng.Read(pre[:])
		r.Policy = types.PolicyHash(sha256.Sum256(pre[:]))
		r.Preimages = [][32]byte{pre}
	case "thresh":
		k1, k2, k3 := w.key(), w.key(), w.key()
		var pre [32]byte
		w.rng.Read(pre[:])
		subs := []types.SpendPolicy{
			types.PolicyPublicKey(k1.PublicKey()),
			types.PolicyHash(sha256.Sum256(pre[:])),
			types.PolicyPublicKey(k2.PublicKey()),
			types.PolicyThreshold(1, []types.SpendPolicy{types.PolicyPublicKey(k3.PublicKey())}),
		}
		r.Policy = types.PolicyThreshold(2, subs)
		// satisfy with sub-policies 0 and 1; 2 and 3 opaque
		r.Reveal = types.PolicyThreshold(2, []types.SpendPolicy{subs[0], subs[1], types.PolicyOpaque(subs[2]), types.PolicyOpaque(subs[3])})
		r.Keys = []types.PrivateKey{k1}
		r.Preimages = [][32]byte{pre}
	case "above":
		k := w.key()
		h := curHeight + uint64(w.rng.Intn(4))
		r.Policy = types.PolicyThreshold(2, []types.SpendPolicy{types.PolicyAbove(h), types.PolicyPublicKey(k.PublicKey())})
		r.Keys = []types.PrivateKey{k}
		r.MinHeight = h + 1 // above(h) needs parent height >= h, i.e. child height >= h+1
	case "after":
		k := w.key()
		t := curTime.Add(time.Duration(w.rng.Intn(3)-1) * time.Second)
		r.Policy = types.PolicyThreshold(2, []types.SpendPolicy{types.PolicyAfter(t), types.PolicyPublicKey(k.PublicKey())})
		r.Keys = []types.PrivateKey{k}
		r.MinTime = t
	default:
		panic("unknown recipe kind " + kind)
	}
	if r.UC != nil {
		r.Policy = types.SpendPolicy{Type: types.PolicyTypeUnlockConditions(*r.UC)}
		r.Addr = r.UC.UnlockHash()
	} else {
		r.Addr = r.Policy.Address()
	}
	if r.Reveal.Type == nil {
		r.Reveal = r.Policy
	}
	if old, ok := w.Recipes[r.Addr]; ok {
		return old // same conditions generated twice: keep one way of satisfying them
	}
	w.Recipes[r.Addr] = r
	return r
}

// Satisfy builds the SatisfiedPolicy for sigHash.
func (r *Recipe) Satisfy(sigHash types.Hash256) types.SatisfiedPolicy {
	sp := types.SatisfiedPolicy{Policy: r.Reveal}
	for _, k := range r.Keys {
		sp.Signatures = append(sp.Signatures, k.SignHash(sigHash))
	}
	sp.Preimages = append(sp.Preimages, r.Preimages...)
	return sp
}
