package props

// Reflection-driven value generator, normalising equality and deep copy for the
// codec properties (C11, C10D). Every random choice comes from the seeded rng.

import (
	"errors"
	"fmt"
	"math"
	"math/rand"
	"reflect"
	"time"
	"unsafe"

	"go.sia.tech/core/consensus"
	"go.sia.tech/core/gateway"
	rhp2 "go.sia.tech/core/rhp/v2"
	rhp3 "go.sia.tech/core/rhp/v3"
	"go.sia.tech/core/types"
)

var (
	c11tTime       = reflect.TypeOf(time.Time{})
	c11tCurrency   = reflect.TypeOf(types.Currency{})
	c11tPolicy     = reflect.TypeOf(types.SpendPolicy{})
	c11tWork       = reflect.TypeOf(consensus.Work{})
	c11tState      = reflect.TypeOf(consensus.State{})
	c11tAcc        = reflect.TypeOf(consensus.ElementAccumulator{})
	c11tResolution = reflect.TypeOf(types.V2FileContractResolution{})
	c11tRevision   = reflect.TypeOf(types.FileContractRevision{})
	c11tV2Data     = reflect.TypeOf(types.V2BlockData{})
	c11tOutline    = reflect.TypeOf(gateway.V2BlockOutline{})
	c11tExecReq    = reflect.TypeOf(rhp3.RPCExecuteProgramRequest{})
	c11tExecResp   = reflect.TypeOf(rhp3.RPCExecuteProgramResponse{})
	c11tNoVersion  = reflect.TypeOf(rhp3.InstrReadRegistryNoVersion{})
	c11tNoType     = reflect.TypeOf(rhp3.InstrUpdateRegistryNoType{})
	c11tError      = reflect.TypeOf((*error)(nil)).Elem()
	c11tReadResp   = reflect.TypeOf(rhp2.RPCReadResponse{})
	c11tV1Block    = reflect.TypeOf(types.V1Block{})
)

type c11Gen struct {
	rng *rand.Rand
	// extreme biases the generator towards boundary values
	extreme bool
}

func (g *c11Gen) coin(n int) bool { return g.rng.Intn(n) == 0 }

func (g *c11Gen) u64() uint64 {
	switch g.rng.Intn(10) {
	case 0:
		return 0
	case 1:
		return 1
	case 2:
		return math.MaxUint64
	case 3:
		return 1 << 63
	case 4:
		return 1<<32 + uint64(g.rng.Intn(3)) - 1
	case 5, 6:
		return uint64(g.rng.Intn(1000))
	default:
		return g.rng.Uint64()
	}
}

func (g *c11Gen) bytesN(n int) []byte {
	b := make([]byte, n)
	switch g.rng.Intn(8) {
	case 0: // zeros
	case 1:
		for i := range b {
			b[i] = 0xff
		}
	default:
		g.rng.Read(b)
	}
	return b
}

func (g *c11Gen) currency() types.Currency {
	switch g.rng.Intn(9) {
	case 0:
		return types.ZeroCurrency
	case 1:
		return types.MaxCurrency
	case 2:
		return types.NewCurrency(0, 1) // 2^64
	case 3:
		return types.NewCurrency(math.MaxUint64, 0)
	case 4:
		return types.NewCurrency64(uint64(g.rng.Intn(256)))
	case 5:
		return types.NewCurrency(0, 1<<uint(g.rng.Intn(64))) // low limb zero: trailing zero bytes
	case 6:
		return types.Siacoins(uint32(g.rng.Intn(1000)))
	default:
		return types.NewCurrency(g.rng.Uint64(), g.rng.Uint64()>>uint(g.rng.Intn(64)))
	}
}

// timestamps are generated at second resolution (the wire format's resolution)
func (g *c11Gen) time() time.Time {
	switch g.rng.Intn(8) {
	case 0:
		return time.Unix(0, 0)
	case 1:
		return time.Time{} // zero value (year 1)
	case 2:
		return time.Unix(math.MaxInt64, 0)
	case 3:
		return time.Unix(-1, 0)
	case 4:
		return time.Unix(1<<31, 0)
	default:
		return time.Unix(1600000000+int64(g.rng.Intn(400000000)), 0)
	}
}

func (g *c11Gen) sliceLen(depth int) int {
	if depth <= 0 {
		return 0
	}
	switch g.rng.Intn(6) {
	case 0, 1:
		return 0
	case 2, 3:
		return 1
	case 4:
		return 2
	default:
		return 3 + g.rng.Intn(3)
	}
}

func (g *c11Gen) str() string {
	switch g.rng.Intn(6) {
	case 0:
		return ""
	case 1:
		return "héllo, wörld ✓"
	case 2:
		return string(g.bytesN(g.rng.Intn(40))) // arbitrary (possibly invalid UTF-8) bytes
	default:
		const al = "abcdefghijklmnopqrstuvwxyz0123456789.:-/ "
		b := make([]byte, 1+g.rng.Intn(30))
		for i := range b {
			b[i] = al[g.rng.Intn(len(al))]
		}
		return string(b)
	}
}

func (g *c11Gen) policy(depth int) types.SpendPolicy {
	k := g.rng.Intn(7)
	if depth <= 0 && k == 4 {
		k = 0
	}
	switch k {
	case 0:
		return types.PolicyAbove(g.u64())
	case 1:
		return types.PolicyAfter(g.time())
	case 2:
		var pk types.PublicKey
		copy(pk[:], g.bytesN(32))
		return types.PolicyPublicKey(pk)
	case 3:
		var h types.Hash256
		copy(h[:], g.bytesN(32))
		return types.PolicyHash(h)
	case 4:
		n := g.rng.Intn(4)
		if g.coin(10) {
			n = 0
		}
		of := make([]types.SpendPolicy, n)
		for i := range of {
			of[i] = g.policy(depth - 1)
		}
		if n == 0 && g.coin(2) {
			of = nil
		}
		return types.PolicyThreshold(uint8(g.rng.Intn(256)), of)
	case 5:
		var a types.Address
		copy(a[:], g.bytesN(32))
		return types.SpendPolicy{Type: types.PolicyTypeOpaque(a)}
	default:
		var uc types.UnlockConditions
		g.fill(reflect.ValueOf(&uc).Elem(), 2)
		return types.SpendPolicy{Type: types.PolicyTypeUnlockConditions(uc)}
	}
}

// deepPolicy nests thresholds d levels deep (the decoder allows 32 nested levels).
func (g *c11Gen) deepPolicy(d int) types.SpendPolicy {
	p := types.PolicyAbove(g.u64())
	for i := 0; i < d; i++ {
		p = types.PolicyThreshold(1, []types.SpendPolicy{p})
	}
	return p
}

func (g *c11Gen) instruction() rhp3.Instruction {
	var in rhp3.Instruction
	switch g.rng.Intn(14) {
	case 0:
		in = new(rhp3.InstrAppendSector)
	case 1:
		in = new(rhp3.InstrAppendSectorRoot)
	case 2:
		in = new(rhp3.InstrDropSectors)
	case 3:
		in = new(rhp3.InstrHasSector)
	case 4:
		in = new(rhp3.InstrStoreSector)
	case 5:
		in = new(rhp3.InstrUpdateSector)
	case 6:
		in = new(rhp3.InstrReadOffset)
	case 7:
		in = new(rhp3.InstrReadSector)
	case 8:
		in = new(rhp3.InstrRevision)
	case 9:
		in = new(rhp3.InstrSwapSector)
	case 10:
		in = new(rhp3.InstrUpdateRegistry)
	case 11:
		in = new(rhp3.InstrUpdateRegistryNoType)
	case 12:
		in = new(rhp3.InstrReadRegistry)
	default:
		in = new(rhp3.InstrReadRegistryNoVersion)
	}
	g.fill(reflect.ValueOf(in).Elem(), 2)
	return in
}

// safeV2Txn: a v2 transaction whose element proofs are consistent with ONE
// accumulator (needed wherever transactions travel as a multiproof; the general
// case is property C18): either no element-bearing fields at all, or a single
// siacoin input at leaf 0 of a one-leaf accumulator.
func (g *c11Gen) safeV2Txn() types.V2Transaction {
	var txn types.V2Transaction
	g.fill(reflect.ValueOf(&txn).Elem(), 3)
	txn.SiacoinInputs = nil
	txn.SiafundInputs = nil
	txn.FileContractRevisions = nil
	txn.FileContractResolutions = nil
	return txn
}

func (g *c11Gen) safeV2Txns() []types.V2Transaction {
	n := g.rng.Intn(3)
	if n == 0 {
		if g.coin(2) {
			return nil
		}
		return []types.V2Transaction{}
	}
	txns := make([]types.V2Transaction, n)
	for i := range txns {
		txns[i] = g.safeV2Txn()
	}
	if g.coin(2) {
		var in types.V2SiacoinInput
		g.fill(reflect.ValueOf(&in).Elem(), 3)
		in.Parent.StateElement.LeafIndex = 0
		in.Parent.StateElement.MerkleProof = nil
		txns[g.rng.Intn(n)].SiacoinInputs = []types.V2SiacoinInput{in}
	}
	return txns
}

// field returns an addressable, settable view of struct field i (also unexported).
func c11Field(v reflect.Value, i int) reflect.Value {
	f := v.Field(i)
	if f.CanSet() {
		return f
	}
	return reflect.NewAt(f.Type(), unsafe.Pointer(f.UnsafeAddr())).Elem()
}

// fill sets v (addressable) to a random value in the codec's normal form.
func (g *c11Gen) fill(v reflect.Value, depth int) {
	t := v.Type()
	switch t {
	case c11tTime:
		v.Set(reflect.ValueOf(g.time()))
		return
	case c11tCurrency:
		v.Set(reflect.ValueOf(g.currency()))
		return
	case c11tPolicy:
		if g.coin(25) {
			v.Set(reflect.ValueOf(g.deepPolicy(1 + g.rng.Intn(32))))
		} else {
			v.Set(reflect.ValueOf(g.policy(3)))
		}
		return
	case c11tWork:
		// unexported 32-byte big-endian number
		c11Field(v, 0).Set(reflect.ValueOf(*(*[32]byte)(g.bytesN(32))))
		return
	case c11tV2Data:
		d := types.V2BlockData{Height: g.u64(), Transactions: g.safeV2Txns()}
		copy(d.Commitment[:], g.bytesN(32))
		v.Set(reflect.ValueOf(d))
		return
	case c11tOutline:
		v.Set(reflect.ValueOf(g.outline()))
		return
	}
	if t.Kind() == reflect.Struct && t.ConvertibleTo(c11tTime) && t != c11tTime {
		v.Set(reflect.ValueOf(g.time()).Convert(t))
		return
	}
	switch t.Kind() {
	case reflect.Bool:
		v.SetBool(g.coin(2))
	case reflect.Uint8, reflect.Uint16, reflect.Uint32, reflect.Uint64, reflect.Uint:
		x := g.u64()
		if t.Kind() == reflect.Uint8 {
			x &= 0xff
		}
		v.SetUint(x)
	case reflect.Int, reflect.Int64, reflect.Int32:
		v.SetInt(int64(g.u64()))
	case reflect.String:
		v.SetString(g.str())
	case reflect.Array:
		if t.Elem().Kind() == reflect.Uint8 {
			reflect.Copy(v, reflect.ValueOf(g.bytesN(t.Len())))
			return
		}
		for i := 0; i < t.Len(); i++ {
			g.fill(v.Index(i), depth-1)
		}
	case reflect.Slice:
		if t.Elem().Kind() == reflect.Uint8 {
			n := 0
			switch g.rng.Intn(6) {
			case 0:
				v.Set(reflect.Zero(t)) // nil
				return
			case 1:
				n = 0 // empty, non-nil
			case 2:
				n = 1
			case 3:
				n = 200 + g.rng.Intn(400)
			default:
				n = 1 + g.rng.Intn(70)
			}
			v.Set(reflect.ValueOf(g.bytesN(n)).Convert(t))
			return
		}
		n := g.sliceLen(depth)
		if n == 0 && g.coin(2) {
			v.Set(reflect.Zero(t))
			return
		}
		s := reflect.MakeSlice(t, n, n)
		for i := 0; i < n; i++ {
			g.fill(s.Index(i), depth-1)
		}
		v.Set(s)
	case reflect.Ptr:
		if g.coin(3) || t.Elem().Name() == "Network" { // State.Network is not encoded
			v.Set(reflect.Zero(t))
			return
		}
		p := reflect.New(t.Elem())
		g.fill(p.Elem(), depth-1)
		v.Set(p)
	case reflect.Interface:
		switch {
		case t == c11tError:
			if g.coin(2) {
				v.Set(reflect.Zero(t))
			} else {
				v.Set(reflect.ValueOf(errors.New("e" + g.str())))
			}
		case t.Name() == "V2FileContractResolutionType":
			var r types.V2FileContractResolutionType
			switch g.rng.Intn(3) {
			case 0:
				x := new(types.V2FileContractRenewal)
				g.fill(reflect.ValueOf(x).Elem(), depth-1)
				r = x
			case 1:
				x := new(types.V2StorageProof)
				g.fill(reflect.ValueOf(x).Elem(), depth-1)
				r = x
			default:
				r = new(types.V2FileContractExpiration)
			}
			v.Set(reflect.ValueOf(r))
		case t.Name() == "Instruction":
			v.Set(reflect.ValueOf(g.instruction()))
		default:
			panic("c11gen: no generator for interface " + t.String())
		}
	case reflect.Struct:
		for i := 0; i < t.NumField(); i++ {
			if !t.Field(i).IsExported() {
				continue // StateElement.shared etc.: never transmitted, left zero
			}
			g.fill(v.Field(i), depth)
		}
		if t == c11tState && g.coin(2) {
			// few timestamp slots in use
			v.Addr().Interface().(*consensus.State).Index.Height = uint64(g.rng.Intn(14))
		}
		g.normalise(v)
	default:
		panic("c11gen: no generator for " + t.String())
	}
}

// normalise puts a struct into the documented normal form (fields the wire format
// does not carry hold what the decoder leaves there). Deterministic and idempotent.
func (g *c11Gen) normalise(v reflect.Value) {
	switch v.Type() {
	case c11tRevision:
		// a v1 revision does not transmit the payout; the decoder sets the sentinel
		r := v.Addr().Interface().(*types.FileContractRevision)
		r.FileContract.Payout = types.NewCurrency(math.MaxUint64, math.MaxUint64)
	case c11tAcc:
		a := v.Addr().Interface().(*consensus.ElementAccumulator)
		for i := range a.Trees {
			if a.NumLeaves&(1<<uint(i)) == 0 {
				a.Trees[i] = types.Hash256{}
			}
		}
	case c11tState:
		s := v.Addr().Interface().(*consensus.State)
		s.Network = nil // "network parameters are not encoded"
		n := len(s.PrevTimestamps)
		if ch := s.Index.Height + 1; ch < uint64(n) { // numTimestamps(); wraps to 0 at MaxUint64
			n = int(ch)
		}
		for i := n; i < len(s.PrevTimestamps); i++ {
			s.PrevTimestamps[i] = time.Time{}
		}
	case c11tV1Block:
		// the v1 encoding of a block carries no v2 part
		v.Addr().Interface().(*types.V1Block).V2 = nil
	case c11tNoVersion:
		v.Addr().Interface().(*rhp3.InstrReadRegistryNoVersion).Version = 1
	case c11tNoType:
		v.Addr().Interface().(*rhp3.InstrUpdateRegistryNoType).EntryType = rhp3.EntryTypeArbitrary
	case c11tExecResp:
		r := v.Addr().Interface().(*rhp3.RPCExecuteProgramResponse)
		r.OutputLength = uint64(len(r.Output))
	}
}

func (g *c11Gen) outline() gateway.V2BlockOutline {
	var ob gateway.V2BlockOutline
	ob.Height = g.u64()
	copy(ob.ParentID[:], g.bytesN(32))
	ob.Nonce = g.u64()
	ob.Timestamp = g.time()
	copy(ob.MinerAddress[:], g.bytesN(32))
	v2 := g.safeV2Txns()
	n := g.rng.Intn(5)
	for i := 0; i < n; i++ {
		var ot gateway.OutlineTransaction
		switch g.rng.Intn(3) {
		case 0:
			txn := new(types.Transaction)
			g.fill(reflect.ValueOf(txn).Elem(), 2)
			ot.Transaction = txn
			ot.Hash = txn.MerkleLeafHash()
		case 1:
			if len(v2) == 0 {
				copy(ot.Hash[:], g.bytesN(32))
				break
			}
			txn := v2[0]
			v2 = v2[1:]
			ot.V2Transaction = &txn
			ot.Hash = txn.MerkleLeafHash()
		default:
			copy(ot.Hash[:], g.bytesN(32))
		}
		ob.Transactions = append(ob.Transactions, ot)
	}
	return ob
}

// ---------------------------------------------------------------- equality up to the documented normalisations

// c11NormEq: deep equality where nil and empty slices are equal, timestamps are
// compared at second resolution, errors by message.
func c11NormEq(a, b reflect.Value) bool {
	if a.Type() != b.Type() {
		return false
	}
	t := a.Type()
	if t == c11tTime || (t.Kind() == reflect.Struct && t.ConvertibleTo(c11tTime)) {
		return a.Convert(c11tTime).Interface().(time.Time).Unix() == b.Convert(c11tTime).Interface().(time.Time).Unix()
	}
	switch t.Kind() {
	case reflect.Ptr:
		if a.IsNil() || b.IsNil() {
			return a.IsNil() == b.IsNil()
		}
		return c11NormEq(a.Elem(), b.Elem())
	case reflect.Interface:
		if a.IsNil() || b.IsNil() {
			return a.IsNil() == b.IsNil()
		}
		if t == c11tError {
			return a.Interface().(error).Error() == b.Interface().(error).Error()
		}
		ae, be := a.Elem(), b.Elem()
		if ae.Type() != be.Type() {
			return false
		}
		if ae.Kind() != reflect.Ptr {
			// make the dynamic values addressable
			ac, bc := reflect.New(ae.Type()).Elem(), reflect.New(be.Type()).Elem()
			ac.Set(ae)
			bc.Set(be)
			return c11NormEq(ac, bc)
		}
		return c11NormEq(ae, be)
	case reflect.Slice:
		if a.Len() != b.Len() {
			return false
		}
		for i := 0; i < a.Len(); i++ {
			if !c11NormEq(a.Index(i), b.Index(i)) {
				return false
			}
		}
		return true
	case reflect.Array:
		for i := 0; i < a.Len(); i++ {
			if !c11NormEq(a.Index(i), b.Index(i)) {
				return false
			}
		}
		return true
	case reflect.Struct:
		for i := 0; i < t.NumField(); i++ {
			var fa, fb reflect.Value
			if a.CanAddr() && b.CanAddr() {
				fa, fb = c11Field(a, i), c11Field(b, i)
			} else if t.Field(i).IsExported() {
				fa, fb = a.Field(i), b.Field(i)
			} else {
				continue
			}
			if !c11NormEq(fa, fb) {
				return false
			}
		}
		return true
	case reflect.Bool:
		return a.Bool() == b.Bool()
	case reflect.Uint8, reflect.Uint16, reflect.Uint32, reflect.Uint64, reflect.Uint:
		return a.Uint() == b.Uint()
	case reflect.Int, reflect.Int64, reflect.Int32, reflect.Int16, reflect.Int8:
		return a.Int() == b.Int()
	case reflect.String:
		return a.String() == b.String()
	}
	panic("c11NormEq: unhandled kind " + t.String())
}

// c11DiffPath returns the path of the first difference found by c11NormEq ("" if equal).
func c11DiffPath(a, b reflect.Value, path string) string {
	if c11NormEq(a, b) {
		return ""
	}
	if a.Type() != b.Type() {
		return path + " (types differ)"
	}
	t := a.Type()
	switch t.Kind() {
	case reflect.Ptr, reflect.Interface:
		if a.IsNil() || b.IsNil() || t == c11tError {
			return path
		}
		ae, be := a.Elem(), b.Elem()
		if t.Kind() == reflect.Interface {
			if ae.Type() != be.Type() {
				return path + " (dynamic types differ)"
			}
			if ae.Kind() == reflect.Ptr {
				return c11DiffPath(ae.Elem(), be.Elem(), path)
			}
			return path
		}
		return c11DiffPath(ae, be, path)
	case reflect.Slice, reflect.Array:
		if a.Len() != b.Len() {
			return path + fmt.Sprintf(" (len %d vs %d)", a.Len(), b.Len())
		}
		for i := 0; i < a.Len(); i++ {
			if d := c11DiffPath(a.Index(i), b.Index(i), fmt.Sprintf("%s[%d]", path, i)); d != "" {
				return d
			}
		}
	case reflect.Struct:
		if t == c11tTime || t.ConvertibleTo(c11tTime) {
			return path
		}
		for i := 0; i < t.NumField(); i++ {
			if !t.Field(i).IsExported() {
				continue
			}
			if d := c11DiffPath(a.Field(i), b.Field(i), path+"."+t.Field(i).Name); d != "" {
				return d
			}
		}
	}
	return path
}

// c11DeepCopy copies src into dst (both addressable, same type) without sharing
// slices, pointers or interface values.
func c11DeepCopy(dst, src reflect.Value) {
	t := src.Type()
	switch t.Kind() {
	case reflect.Ptr:
		if src.IsNil() {
			dst.Set(reflect.Zero(t))
			return
		}
		p := reflect.New(t.Elem())
		c11DeepCopy(p.Elem(), src.Elem())
		dst.Set(p)
	case reflect.Interface:
		if src.IsNil() {
			dst.Set(reflect.Zero(t))
			return
		}
		if t == c11tError {
			dst.Set(src)
			return
		}
		e := src.Elem()
		c := reflect.New(e.Type()).Elem()
		c11DeepCopy(c, e)
		dst.Set(c)
	case reflect.Slice:
		if src.IsNil() {
			dst.Set(reflect.Zero(t))
			return
		}
		s := reflect.MakeSlice(t, src.Len(), src.Len())
		for i := 0; i < src.Len(); i++ {
			c11DeepCopy(s.Index(i), src.Index(i))
		}
		dst.Set(s)
	case reflect.Array:
		for i := 0; i < src.Len(); i++ {
			c11DeepCopy(dst.Index(i), src.Index(i))
		}
	case reflect.Struct:
		dst.Set(src) // unexported fields (Work.n, time.Time internals, StateElement.shared) by value
		for i := 0; i < t.NumField(); i++ {
			if t.Field(i).IsExported() {
				c11DeepCopy(dst.Field(i), src.Field(i))
			}
		}
	default:
		dst.Set(src)
	}
}
