package props

import (
	"fmt"
	"math/rand"

	"go.sia.tech/core/consensus"
	"go.sia.tech/core/types"

	"verif/harness/internal/chain"
	"verif/harness/internal/fw"
)

func init() { fw.Register("C03D", runC03D) }

// runC03D: the developer-address override lets SIAFUNDS held by HardforkDevAddr.OldAddress be spent with the
// unlock conditions of NewAddress. It is the only place where revealed conditions need not hash to the parent's
// address, so its reach is pinned here: siacoins at OldAddress revealing NewAddress's conditions (signed by
// NewAddress's key) must be rejected; the owner's own spend and the genuine siafund override are accepted.
func runC03D(c *fw.Ctx) {
	res := c.Res
	for i := 0; i < c.Budget(8, 80); i++ {
		seed := c.Seed*9200021 + int64(i)
		mode := []string{"v1", "mixed", "legacy"}[i%3]
		s := chain.NewSim(rand.New(rand.NewSource(seed)), mode)
		da := s.Net.HardforkDevAddr
		nr, or := s.RecipeFor(da.NewAddress), s.RecipeFor(da.OldAddress)
		if nr == nil || or == nil || nr.UC == nil || or.UC == nil {
			continue
		}
		for k := 0; k < 30; k++ {
			if _, _, err := s.Step(); err != nil {
				break
			}
			child := s.ChildHeight()
			if s.V1Forbidden() || child < da.Height || nr.UC.Timelock > child {
				continue
			}
			mk := func(t types.Transaction, supp consensus.V1TransactionSupplement) (types.Block, consensus.V1BlockSupplement, bool) {
				if !s.ResignV1(&t) {
					return types.Block{}, consensus.V1BlockSupplement{}, false
				}
				b := types.Block{Timestamp: s.NextTimestamp(), Transactions: []types.Transaction{t}}
				if s.V2Allowed() {
					b.V2 = &types.V2BlockData{}
				}
				s.Seal(&b, s.NewAddr(false))
				return b, consensus.V1BlockSupplement{Transactions: []consensus.V1TransactionSupplement{supp}}, true
			}
			judge := func(kind string, b types.Block, bs consensus.V1BlockSupplement, wantAccept bool) {
				var err error
				panicked, msg := fw.Recover(func() { err = consensus.ValidateBlock(s.Tip, b, bs) })
				res.Eval(fmt.Sprintf("devaddr/%s/%d/%d", kind, seed, child), true)
				res.Count(fmt.Sprintf("devaddr:%s:accepted=%v", kind, err == nil && !panicked))
				rp := map[string]any{"seed": seed, "mode": mode, "height": child, "kind": kind, "block": fw.Hex(encodeBlockFull(b))}
				switch {
				case panicked:
					res.Violate(fw.Violation{Key: "c10-validate-panic:devaddr-" + kind, What: "panic: " + msg, Replay: rp})
				case err == nil && !wantAccept:
					res.Violate(fw.Violation{Key: "c03-tamper-accepted:devaddr-override:" + kind, What: "a block was accepted in which an input at the developer OldAddress reveals conditions that do not hash to its parent's address, outside the siafund override", Replay: rp, Expected: "rejected", Observed: "accepted"})
				case err != nil && wantAccept:
					res.Violate(fw.Violation{Key: "c03-untampered-rejected:devaddr:" + kind, What: "an honest spend at the developer address was rejected: " + err.Error(), Replay: rp, Expected: "accepted", Observed: err.Error()})
				}
			}
			for _, e := range s.St.SortedSC() {
				if e.SiacoinOutput.Address != da.OldAddress || e.MaturityHeight > child || e.SiacoinOutput.Value.IsZero() {
					continue
				}
				out := []types.SiacoinOutput{{Value: e.SiacoinOutput.Value, Address: s.NewAddr(false)}}
				supp := consensus.V1TransactionSupplement{SiacoinInputs: []types.SiacoinElement{e.Copy()}}
				if b, bs, ok := mk(types.Transaction{SiacoinInputs: []types.SiacoinInput{{ParentID: e.ID, UnlockConditions: *nr.UC}}, SiacoinOutputs: out}, supp); ok {
					judge("siacoin-reveals-new-address-conditions", b, bs, false)
				}
				if or.UC.Timelock <= child {
					if b, bs, ok := mk(types.Transaction{SiacoinInputs: []types.SiacoinInput{{ParentID: e.ID, UnlockConditions: *or.UC}}, SiacoinOutputs: out}, supp); ok {
						judge("siacoin-owner", b, bs, true)
					}
				}
				break
			}
			for _, e := range s.St.SortedSF() {
				if e.SiafundOutput.Address != da.OldAddress {
					continue
				}
				out := []types.SiafundOutput{{Value: e.SiafundOutput.Value, Address: s.NewAddr(false)}}
				supp := consensus.V1TransactionSupplement{SiafundInputs: []types.SiafundElement{e.Copy()}}
				if b, bs, ok := mk(types.Transaction{SiafundInputs: []types.SiafundInput{{ParentID: e.ID, UnlockConditions: *nr.UC, ClaimAddress: s.NewAddr(false)}}, SiafundOutputs: out}, supp); ok {
					judge("siafund-override", b, bs, true)
				}
				break
			}
		}
	}
}
