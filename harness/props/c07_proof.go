package props

// C07P — consensus storage proofs (consensus/merkle.go storageProofRoot, proofRoot,
// State.StorageProofLeafHash) are complete and sound w.r.t. the plain Merkle tree
// over the 64-byte segments of a file (last one zero padded).
//
// Oracle (statement level): the plain tree and the leaf-to-root path are written here
// from the definition (c16ORoot / c16OLeaf from c16.go, c07pPath below). The Lean model
// (ops sp-*) is compared line by line.

import (
	"sort"
	"encoding/hex"
	"fmt"
	"math"
	"math/big"
	"math/rand"

	xblake "golang.org/x/crypto/blake2b"

	"go.sia.tech/core/consensus"
	"go.sia.tech/core/types"
	"verif/harness/internal/fw"
)

func init() { fw.Register("C07P", runC07P) }

// c07pPath: siblings of leaf i from the leaf up to the root of the plain tree over hs.
func c07pPath(hs []c16H, i int) []c16H {
	if len(hs) < 2 {
		return nil
	}
	k := 1
	for k*2 < len(hs) {
		k *= 2
	}
	if i < k {
		return append(c07pPath(hs[:k], i), c16ORoot(hs[k:]))
	}
	return append(c07pPath(hs[k:], i-k), c16ORoot(hs[:k]))
}

func c07pLeaves(file []byte) [][64]byte {
	n := (len(file) + 63) / 64
	out := make([][64]byte, n)
	for i := range out {
		end := 64*i + 64
		if end > len(file) {
			end = len(file)
		}
		copy(out[i][:], file[64*i:end])
	}
	return out
}

func runC07P(c *fw.Ctx) {
	res := c.Res
	res.Rule = "consensus storageProofRoot/proofRoot/StorageProofLeafHash vs the plain Merkle tree over zero-padded 64-byte segments (independent oracle) and vs the Lean model: every file size 1..(4 leaves + 1 byte) with every leaf index, random sizes up to 2^14 quick / 2^20 thorough bytes with sampled indices; the v1 closures of validateFileContracts are driven through consensus.ValidateTransaction on a hand-built MidState in all three leaf eras (every size 1..4 leaves+1 byte with every index challenged by varying the contract id, larger files statistically; honest accepted except the documented era-2 full-last-leaf quirk, every single corruption rejected, model sp-verify1 agrees); honest proof must fold to the root; wrong index, wrong leaf byte, every proof hash flipped, proof shortened/lengthened must NOT fold to the root. The file size is a trusted input (from the contract): wrong-size runs are only counted. A case is non-trivial when the file has at least 2 leaves."
	var ops, outs []string
	model := func(op, out string) {
		if c.Model != nil {
			ops = append(ops, op)
			outs = append(outs, out)
		}
	}
	var st consensus.State
	one := func(file []byte, indices []int, withModel bool) {
		fs := uint64(len(file))
		leaves := c07pLeaves(file)
		hs := make([]c16H, len(leaves))
		for i := range leaves {
			hs[i] = c16OLeaf(leaves[i][:])
		}
		root := c16ORoot(hs)
		for _, i := range indices {
			rng := rand.New(rand.NewSource(c.Rng.Int63()))
			proof := c07pPath(hs, i)
			name := fmt.Sprintf("size=%d leaves=%d index=%d", fs, len(hs), i)
			res.Eval("sp "+name+" "+c16Hex(root), len(hs) >= 2)
			res.Count("sp:leaves:" + c16Bucket(len(hs)))
			rep := func(what string) map[string]any {
				m := map[string]any{"kind": "sp", "size": fs, "index": i, "what": what}
				if len(file) <= 4096 {
					m["file"] = hex.EncodeToString(file)
				}
				return m
			}
			run := func(leaf []byte, idx uint64, size uint64, pr []c16H) (c16H, bool) {
				var got c16H
				p, _ := fw.Recover(func() {
					got = consensus.VerifStorageProofRoot(st.StorageProofLeafHash(leaf), idx, size, pr)
				})
				return got, p
			}
			got, p := run(leaves[i][:], uint64(i), fs, proof)
			if p || got != root {
				res.Violate(fw.Violation{Key: "c07p-honest-proof-rejected", What: "storageProofRoot of the honest leaf and path differs from the plain tree root, " + name, Replay: rep("honest"), Expected: c16Hex(root), Observed: c16Hex(got)})
			}
			// the unpadded segment hashes to the same leaf (StorageProofLeafHash zero-extends)
			end := 64*i + 64
			if end > len(file) {
				end = len(file)
			}
			if g2, p2 := run(file[64*i:end], uint64(i), fs, proof); p2 || g2 != root {
				res.Violate(fw.Violation{Key: "c07p-honest-proof-rejected:short-leaf", What: "StorageProofLeafHash of the unpadded last segment does not give the padded leaf hash, " + name, Replay: rep("short-leaf"), Expected: c16Hex(root), Observed: c16Hex(g2)})
			}
			if withModel {
				model(fmt.Sprintf("sp-prove %s %d", c16HexData(file), i), c16Hex(root)+" "+hex.EncodeToString(leaves[i][:])+" "+c16HexList(proof))
				model(fmt.Sprintf("sp-root2 %s %d %d %s", hex.EncodeToString(leaves[i][:]), i, fs, c16HexList(proof)), c16Hex(got))
				lh := c16OLeaf(leaves[i][:])
				var pr c16H
				fw.Recover(func() { pr = consensus.VerifProofRoot(lh, uint64(i), proof) })
				model(fmt.Sprintf("sp-proofroot %s %d %s", c16Hex(lh), i, c16HexList(proof)), c16Hex(pr))
			}
			// corruptions: none may fold to the root
			type corr struct {
				what  string
				leaf  []byte
				idx   uint64
				proof []c16H
			}
			var cs []corr
			bad := append([]byte(nil), leaves[i][:]...)
			bad[rng.Intn(64)] ^= 1 << uint(rng.Intn(8))
			cs = append(cs, corr{"leaf-byte", bad, uint64(i), proof})
			for j := range hs {
				if j != i && hs[j] != hs[i] && (len(hs) <= 9 || rng.Intn(len(hs)) < 4) {
					cs = append(cs, corr{"index", leaves[i][:], uint64(j), proof})
				}
			}
			for j := range proof {
				cs = append(cs, corr{"proof-hash", leaves[i][:], uint64(i), c16WithFlipped(proof, j, rng)})
				cs = append(cs, corr{"proof-shorter", leaves[i][:], uint64(i), c16Without(proof, j)})
			}
			cs = append(cs, corr{"proof-longer", leaves[i][:], uint64(i), append(c16CopyHashes(proof), c16RandHash(rng))})
			cs = append(cs, corr{"proof-longer-front", leaves[i][:], uint64(i), c16InsertAt(proof, 0, c16RandHash(rng))})
			for k, cr := range cs {
				g, _ := run(cr.leaf, cr.idx, fs, cr.proof)
				res.Eval(fmt.Sprintf("sp-corrupt %s %s %d", name, cr.what, k), true)
				res.Count("sp:corrupt:" + cr.what)
				if g == root {
					m := rep(cr.what)
					m["corrupt_index"], m["corrupt_leaf"], m["corrupt_proof"] = cr.idx, hex.EncodeToString(cr.leaf), c16HexList(cr.proof)
					res.Violate(fw.Violation{Key: "c07p-accepts-corrupt:" + cr.what, What: "storageProofRoot folds a corrupted instance (" + cr.what + ") to the true root, " + name, Replay: m, Expected: "a different root", Observed: c16Hex(g)})
				}
				if withModel && (len(hs) <= 5 || k%7 == 0) {
					model(fmt.Sprintf("sp-root2 %s %d %d %s", hex.EncodeToString(cr.leaf), cr.idx, fs, c16HexList(cr.proof)), c16Hex(g))
				}
			}
			// trusted input: a wrong size is only counted
			if g, _ := run(leaves[i][:], uint64(i), fs+64*uint64(1+rng.Intn(3)), proof); g == root {
				res.Count("sp:wrong-size(trusted-input,not-checked):same-root")
			} else {
				res.Count("sp:wrong-size(trusted-input,not-checked):other-root")
			}
		}
	}
	// every size 1 .. 4 leaves + 1 byte, every index
	for size := 1; size <= 4*64+1; size++ {
		file := make([]byte, size)
		c.Rng.Read(file)
		n := (size + 63) / 64
		idx := make([]int, n)
		for i := range idx {
			idx[i] = i
		}
		one(file, idx, size%16 == 1 || size%64 == 0 || size%64 == 63)
	}
	res.Exhaustive = true
	// empty file: storageProofRoot(any, 0, 0, short proof) is the zero hash (degenerate index)
	{
		var z c16H
		g := consensus.VerifStorageProofRoot(st.StorageProofLeafHash(nil), 0, 0, nil)
		res.Eval("sp empty", false)
		if g != z {
			res.Violate(fw.Violation{Key: "c07p-empty-file", What: "storageProofRoot for an empty file and an empty proof is not the zero hash", Replay: map[string]any{"kind": "sp-empty"}, Expected: c16Hex(z), Observed: c16Hex(g)})
		}
		model("sp-root2 "+hex.EncodeToString(make([]byte, 64))+" 0 0 -", c16Hex(g))
	}
	// random sizes, sampled indices (all leaf counts 5..40 included)
	maxSize := c.Budget(1<<14, 1<<20)
	for t := 0; t < c.Budget(150, 1500); t++ {
		var size int
		switch {
		case t < 36:
			size = 64*(5+t) - c.Rng.Intn(64)
		case t%3 == 0:
			size = 1 + c.Rng.Intn(4096)
		default:
			size = 1 + c.Rng.Intn(maxSize)
		}
		file := make([]byte, size)
		c.Rng.Read(file)
		n := (size + 63) / 64
		idx := []int{0, n - 1, c.Rng.Intn(n), c.Rng.Intn(n)}
		if n > 2 {
			idx = append(idx, n-2)
		}
		one(file, idx, size <= 8192)
	}
	c07pLeafIndex(c, model)
	c07pV1(c, model)
	c07pV2(c, model) // the v2 clause through the real ValidateBlock on a simulated chain
	c16ProverPath(c, model) // the library prover path for multi-sector files (shared with C16)
	c.Compare(ops, outs)
}

// c07pV1 drives the REAL v1 closures (lastLeafIndex, storageProofLeaf, storageProofRoot and the
// "too few proof hashes" guard inside validateFileContracts) through
// consensus.ValidateTransaction on a hand-built MidState: a transaction that only carries a
// storage proof, a supplement with the contract (Filesize, FileMerkleRoot chosen here) and the
// window id. The era is selected by the hardfork heights of the network. The challenged index is
// derived from (windowID, fcid, filesize) by State.StorageProofLeafIndex, so contract ids are
// varied until every leaf index of the file has been challenged.
func c07pV1(c *fw.Ctx, model func(op, out string)) {
	res := c.Res
	type eraT struct {
		name        string
		tax, spFork uint64
		code        int
	}
	eras := []eraT{{"preTax", 1000, 2000, 0}, {"preStorageProof", 0, 2000, 1}, {"current", 0, 0, 2}}
	verdict := func(era eraT, fcid types.FileContractID, wid types.BlockID, fs uint64, root c16H, leaf [64]byte, proof []c16H) (string, uint64) {
		n := &consensus.Network{}
		n.HardforkTax.Height = era.tax
		n.HardforkStorageProof.Height = era.spFork
		n.HardforkV2.AllowHeight = 100000
		n.HardforkV2.RequireHeight = 200000
		s := consensus.State{Network: n, Index: types.ChainIndex{Height: 10}}
		idx := s.StorageProofLeafIndex(fs, wid, fcid)
		fce := types.FileContractElement{ID: fcid, FileContract: types.FileContract{Filesize: fs, FileMerkleRoot: root, WindowStart: 5, WindowEnd: 50}}
		ts := consensus.V1TransactionSupplement{StorageProofs: []consensus.V1StorageProofSupplement{{FileContract: fce, WindowID: wid}}}
		txn := types.Transaction{StorageProofs: []types.StorageProof{{ParentID: fcid, Leaf: leaf, Proof: proof}}}
		var err error
		if p, msg := fw.Recover(func() { err = consensus.ValidateTransaction(consensus.NewMidState(s), txn, ts) }); p {
			return "panic: " + msg, idx
		}
		if err == nil {
			return "1", idx
		}
		return "0", idx
	}
	sizes := []int{}
	for size := 1; size <= 4*64+1; size++ {
		sizes = append(sizes, size)
	}
	for t := 0; t < c.Budget(40, 400); t++ { // larger files: indices covered statistically
		sizes = append(sizes, 4*64+2+c.Rng.Intn(c.Budget(3000, 60000)))
	}
	for _, size := range sizes {
		file := make([]byte, size)
		c.Rng.Read(file)
		fs := uint64(size)
		leaves := c07pLeaves(file)
		hs := make([]c16H, len(leaves))
		for i := range leaves {
			hs[i] = c16OLeaf(leaves[i][:])
		}
		root := c16ORoot(hs)
		for _, era := range eras {
			// contract ids until every index was challenged (small files) / a few challenges (large)
			seen := map[uint64]bool{}
			want := len(hs)
			tries := 0
			if len(hs) > 5 {
				want = 4
			}
			for len(seen) < want && tries < 400 {
				tries++
				var fcid types.FileContractID
				var wid types.BlockID
				c.Rng.Read(fcid[:])
				c.Rng.Read(wid[:])
				rng := rand.New(rand.NewSource(c.Rng.Int63()))
				n := &consensus.Network{}
				idx := consensus.State{Network: n}.StorageProofLeafIndex(fs, wid, fcid)
				if seen[idx] {
					continue
				}
				seen[idx] = true
				i := int(idx)
				proof := c07pPath(hs, i)
				name := fmt.Sprintf("v1 era=%s size=%d leaves=%d index=%d", era.name, fs, len(hs), i)
				rep := func(what string) map[string]any {
					m := map[string]any{"kind": "sp-v1", "era": era.name, "size": fs, "index": i, "what": what,
						"fcid": hex.EncodeToString(fcid[:]), "window": hex.EncodeToString(wid[:])}
					if len(file) <= 4096 {
						m["file"] = hex.EncodeToString(file)
					}
					return m
				}
				res.Eval("sp-"+name+" "+c16Hex(root), len(hs) >= 2)
				res.Count("sp-v1:era:" + era.name)
				res.Count("sp-v1:leaves:" + c16Bucket(len(hs)))
				mline := func(leaf [64]byte, pr []c16H, r c16H, got string) {
					model(fmt.Sprintf("sp-verify1 %d %d %d %s %s %s", era.code, i, fs, hex.EncodeToString(leaf[:]), c16HexList(pr), c16Hex(r)), got)
				}
				got, gidx := verdict(era, fcid, wid, fs, root, leaves[i], proof)
				if gidx != idx {
					continue
				}
				// the documented historical quirk: before HardforkStorageProof the last leaf of a file
				// whose size is a multiple of 64 is hashed as all zeros
				quirk := era.code == 1 && i == len(hs)-1 && size%64 == 0
				if quirk {
					res.Count("sp-v1:era2-full-last-leaf-quirk:verdict-" + got)
				} else if got != "1" {
					res.Violate(fw.Violation{Key: "c07p-v1-honest-proof-rejected:" + era.name, What: "ValidateTransaction rejects the honest v1 storage proof, " + name, Replay: rep("honest"), Expected: "1", Observed: got})
				}
				mline(leaves[i], proof, root, got)
				if quirk {
					continue
				}
				type corr struct {
					what  string
					leaf  [64]byte
					proof []c16H
					root  c16H
				}
				var cs []corr
				// a byte inside the part of the leaf that the era rule keeps
				keep := 64
				if i == len(hs)-1 && size%64 != 0 && era.code != 0 {
					keep = size % 64
				}
				bad := leaves[i]
				bad[rng.Intn(keep)] ^= 1 << uint(rng.Intn(8))
				cs = append(cs, corr{"leaf-byte", bad, proof, root})
				for j := range proof {
					cs = append(cs, corr{"proof-hash", leaves[i], c16WithFlipped(proof, j, rng), root})
					cs = append(cs, corr{"proof-shorter", leaves[i], c16Without(proof, j), root})
				}
				cs = append(cs, corr{"proof-longer", leaves[i], append(c16CopyHashes(proof), c16RandHash(rng)), root})
				cs = append(cs, corr{"proof-longer-front", leaves[i], c16InsertAt(proof, 0, c16RandHash(rng)), root})
				cs = append(cs, corr{"root", leaves[i], proof, c16Flip(root, rng)})
				for j := range hs { // the leaf and path of another index
					if j != i && hs[j] != hs[i] && (len(hs) <= 5 || rng.Intn(len(hs)) < 2) {
						cs = append(cs, corr{"other-index", leaves[j], c07pPath(hs, j), root})
					}
				}
				for k, cr := range cs {
					g, _ := verdict(era, fcid, wid, fs, cr.root, cr.leaf, cr.proof)
					res.Eval(fmt.Sprintf("sp-corrupt %s %s %d", name, cr.what, k), true)
					res.Count("sp-v1:corrupt:" + cr.what)
					if g != "0" {
						m := rep(cr.what)
						m["corrupt_leaf"], m["corrupt_proof"], m["corrupt_root"] = hex.EncodeToString(cr.leaf[:]), c16HexList(cr.proof), c16Hex(cr.root)
						res.Violate(fw.Violation{Key: "c07p-v1-accepts-corrupt:" + cr.what, What: "ValidateTransaction verdict " + g + " on a corrupted v1 storage proof (" + cr.what + "), " + name, Replay: m, Expected: "0", Observed: g})
					}
					if len(hs) <= 5 || k%5 == 0 {
						mline(cr.leaf, cr.proof, cr.root, g)
					}
				}
			}
			if len(hs) <= 5 && len(seen) < len(hs) {
				res.Count("sp-v1:index-not-hit")
			}
		}
	}
	// several storage proofs (for different contracts) in ONE transaction: every proof is checked — the transaction is
	// accepted exactly when each proof would be accepted alone, whatever the order and whatever stands before it (an
	// empty-file contract needs no Merkle proof in the current era; that must not end the checking of the others)
	{
		type item struct {
			fcid  types.FileContractID
			wid   types.BlockID
			fs    uint64
			root  c16H
			leaf  [64]byte
			proof []c16H
		}
		batch := func(era eraT, items []item) string {
			n := &consensus.Network{}
			n.HardforkTax.Height = era.tax
			n.HardforkStorageProof.Height = era.spFork
			n.HardforkV2.AllowHeight = 100000
			n.HardforkV2.RequireHeight = 200000
			s := consensus.State{Network: n, Index: types.ChainIndex{Height: 10}}
			var ts consensus.V1TransactionSupplement
			var txn types.Transaction
			for _, it := range items {
				fce := types.FileContractElement{ID: it.fcid, FileContract: types.FileContract{Filesize: it.fs, FileMerkleRoot: it.root, WindowStart: 5, WindowEnd: 50}}
				ts.StorageProofs = append(ts.StorageProofs, consensus.V1StorageProofSupplement{FileContract: fce, WindowID: it.wid})
				txn.StorageProofs = append(txn.StorageProofs, types.StorageProof{ParentID: it.fcid, Leaf: it.leaf, Proof: it.proof})
			}
			var err error
			if p, msg := fw.Recover(func() { err = consensus.ValidateTransaction(consensus.NewMidState(s), txn, ts) }); p {
				return "panic: " + msg
			}
			if err == nil {
				return "1"
			}
			return "0"
		}
		mk := func(size int, id byte) (item, item) { // honest and corrupted proof of one non-empty contract
			file := make([]byte, size)
			c.Rng.Read(file)
			leaves := c07pLeaves(file)
			hs := make([]c16H, len(leaves))
			for i := range leaves {
				hs[i] = c16OLeaf(leaves[i][:])
			}
			it := item{fcid: types.FileContractID{id, 7}, wid: types.BlockID{id, 9}, fs: uint64(size), root: c16ORoot(hs)}
			idx := int(consensus.State{Network: &consensus.Network{}}.StorageProofLeafIndex(it.fs, it.wid, it.fcid))
			it.leaf, it.proof = leaves[idx], c07pPath(hs, idx)
			bad := it
			bad.leaf[0] ^= 1
			return it, bad
		}
		for _, era := range eras {
			for rep := 0; rep < c.Budget(6, 60); rep++ {
				empty := item{fcid: types.FileContractID{0xe0, byte(rep)}, wid: types.BlockID{0xe1}}
				empty2 := item{fcid: types.FileContractID{0xe2, byte(rep)}, wid: types.BlockID{0xe3}}
				h1, b1 := mk(65+c.Rng.Intn(400), 1)
				h2, b2 := mk(130+c.Rng.Intn(400), 2)
				lists := map[string][]item{
					"empty,honest": {empty, h1}, "honest,empty": {h1, empty}, "empty,corrupt": {empty, b1}, "corrupt,empty": {b1, empty},
					"honest,corrupt": {h1, b2}, "corrupt,honest": {b1, h2}, "honest,honest": {h1, h2}, "empty,empty": {empty, empty2},
					"empty,honest,corrupt": {empty, h1, b2}, "honest,empty,corrupt": {h1, empty, b2}, "empty,empty,corrupt": {empty, empty2, b1},
				}
				names := make([]string, 0, len(lists))
				for k := range lists {
					names = append(names, k)
				}
				sort.Strings(names)
				for _, name := range names {
					items := lists[name]
					want := "1"
					for _, it := range items {
						if g := batch(era, []item{it}); g != "1" {
							want = "0"
						}
					}
					got := batch(era, items)
					res.Eval(fmt.Sprintf("sp-batch %s %s %d", era.name, name, rep), true)
					res.Count("sp-v1:batch:" + name + ":" + got)
					if got != want {
						res.Violate(fw.Violation{Key: "c07p-v1-batch-verdict:" + name, What: fmt.Sprintf("a transaction with storage proofs [%s] (era %s) has verdict %s, but taken one by one the proofs give %s", name, era.name, got, want),
							Replay: map[string]any{"kind": "sp-v1-batch", "era": era.name, "list": name}, Expected: want, Observed: got})
					}
				}
			}
		}
	}
	// empty file: no proof needed in the current era; in the older eras the degenerate index applies
	for _, era := range eras {
		var z c16H
		var leaf [64]byte
		g, _ := verdict(era, types.FileContractID{1}, types.BlockID{2}, 0, z, leaf, nil)
		res.Count("sp-v1:empty-file:" + era.name + ":verdict-" + g)
		model(fmt.Sprintf("sp-verify1 %d 0 0 %s - %s", era.code, hex.EncodeToString(leaf[:]), c16Hex(z)), g)
	}
}

// c07pLeafIndex: State.StorageProofLeafIndex against the statement (the 256-bit big-endian value of
// blake2b(windowID ‖ fcid) modulo the number of 64-byte leaves, 0 for an empty file, never a panic)
// and against the Lean model (op sp-leafindex), on every boundary file size and random ids.
func c07pLeafIndex(c *fw.Ctx, model func(op, out string)) {
	res := c.Res
	sizes := []uint64{0, 1, 2, 63, 64, 65, 127, 128, 129, 4096, 1<<32 - 1, 1 << 32, 1<<32 + 1, 1<<63 - 1, 1 << 63, 1<<63 + 1}
	for d := uint64(0); d <= 130; d++ { // 2^64-131 … 2^64-1: around every rounding boundary at the top
		sizes = append(sizes, math.MaxUint64-d)
	}
	for i := 0; i < c.Budget(200, 5000); i++ {
		sizes = append(sizes, c.Rng.Uint64()>>uint(c.Rng.Intn(64)))
	}
	st := consensus.State{Network: &consensus.Network{}}
	two64 := new(big.Int).Lsh(big.NewInt(1), 64)
	for _, fs := range sizes {
		for k := 0; k < c.Budget(3, 10); k++ {
			var wid types.BlockID
			var fcid types.FileContractID
			c.Rng.Read(wid[:])
			c.Rng.Read(fcid[:])
			if k == 0 {
				wid, fcid = types.BlockID{}, types.FileContractID{}
			}
			// statement: numLeaves = ceil(fs/64) over the integers; index = seed mod numLeaves
			n := new(big.Int).SetUint64(fs)
			n.Add(n, big.NewInt(63)).Div(n, big.NewInt(64))
			want := "ok 0"
			if n.Sign() > 0 {
				seed := xblake.Sum256(append(append([]byte{}, wid[:]...), fcid[:]...))
				r := new(big.Int).Mod(new(big.Int).SetBytes(seed[:]), n)
				if r.Cmp(two64) >= 0 {
					want = "?"
				} else {
					want = "ok " + r.String()
				}
			}
			got := ""
			if p, _ := fw.Recover(func() { got = fmt.Sprintf("ok %d", st.StorageProofLeafIndex(fs, wid, fcid)) }); p {
				got = "panic"
			}
			res.Eval(fmt.Sprintf("leafindex %d %x %x", fs, wid[:4], fcid[:4]), fs > 64)
			res.Count("sp-leafindex:cases")
			if got != want {
				res.Violate(fw.Violation{Key: "c07p-leaf-index:" + map[bool]string{true: "panic", false: "wrong"}[got == "panic"],
					What:     fmt.Sprintf("StorageProofLeafIndex(%d, …) = %s, the statement (seed mod ceil(filesize/64)) gives %s", fs, got, want),
					Replay:   map[string]any{"kind": "leafindex", "filesize": fs, "window": hex.EncodeToString(wid[:]), "fcid": hex.EncodeToString(fcid[:])},
					Expected: want, Observed: got})
			}
			model(fmt.Sprintf("sp-leafindex %d %s %s", fs, hex.EncodeToString(wid[:]), hex.EncodeToString(fcid[:])), got)
		}
	}
}
