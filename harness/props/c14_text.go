package props

// C14 — text form of policy trees shared with the Lean driver
// (lean/SiaModel/Driver/Policy.lean), and the scenario line.

import (
	"encoding/hex"
	"errors"
	"fmt"
	"strconv"
	"strings"
	"time"

	"go.sia.tech/core/types"
)

func c14Show(p types.SpendPolicy) string {
	var sb strings.Builder
	c14ShowTo(&sb, p)
	return sb.String()
}

func c14ShowTo(sb *strings.Builder, p types.SpendPolicy) {
	switch t := p.Type.(type) {
	case types.PolicyTypeAbove:
		fmt.Fprintf(sb, "a%d.", uint64(t))
	case types.PolicyTypeAfter:
		fmt.Fprintf(sb, "f%d.", time.Time(t).Unix())
	case types.PolicyTypePublicKey:
		fmt.Fprintf(sb, "k%s.", hex.EncodeToString(t[:]))
	case types.PolicyTypeHash:
		fmt.Fprintf(sb, "h%s.", hex.EncodeToString(t[:]))
	case types.PolicyTypeOpaque:
		fmt.Fprintf(sb, "o%s.", hex.EncodeToString(t[:]))
	case types.PolicyTypeThreshold:
		fmt.Fprintf(sb, "t%d.%d.", t.N, len(t.Of))
		for _, c := range t.Of {
			c14ShowTo(sb, c)
		}
	case types.PolicyTypeUnlockConditions:
		fmt.Fprintf(sb, "u%d.%d.%d.", t.Timelock, t.SignaturesRequired, len(t.PublicKeys))
		for _, k := range t.PublicKeys {
			fmt.Fprintf(sb, "%s.%s.", hex.EncodeToString(k.Algorithm[:]), hex.EncodeToString(k.Key))
		}
	default:
		sb.WriteString("?")
	}
}

type c14Parser struct {
	s   string
	err error
}

func (q *c14Parser) field() string {
	if q.err != nil {
		return ""
	}
	i := strings.IndexByte(q.s, '.')
	if i < 0 {
		q.err = errors.New("missing '.'")
		return ""
	}
	f := q.s[:i]
	q.s = q.s[i+1:]
	return f
}

func (q *c14Parser) num() uint64 {
	f := q.field()
	if q.err != nil {
		return 0
	}
	v, err := strconv.ParseUint(f, 10, 64)
	if err != nil {
		q.err = err
	}
	return v
}

func (q *c14Parser) bytes() []byte {
	f := q.field()
	if q.err != nil {
		return nil
	}
	b, err := hex.DecodeString(f)
	if err != nil {
		q.err = err
	}
	return b
}

func (q *c14Parser) policy() types.SpendPolicy {
	if q.err != nil || len(q.s) == 0 {
		if q.err == nil {
			q.err = errors.New("unexpected end")
		}
		return types.SpendPolicy{}
	}
	k := q.s[0]
	q.s = q.s[1:]
	var b32 [32]byte
	switch k {
	case 'a':
		return types.PolicyAbove(q.num())
	case 'f':
		f := q.field()
		v, err := strconv.ParseInt(f, 10, 64)
		if err != nil && q.err == nil {
			q.err = err
		}
		return types.PolicyAfter(time.Unix(v, 0))
	case 'k':
		copy(b32[:], q.bytes())
		return types.PolicyPublicKey(b32)
	case 'h':
		copy(b32[:], q.bytes())
		return types.PolicyHash(b32)
	case 'o':
		copy(b32[:], q.bytes())
		return types.SpendPolicy{Type: types.PolicyTypeOpaque(b32)}
	case 't':
		n := q.num()
		cnt := q.num()
		var of []types.SpendPolicy
		for i := uint64(0); i < cnt && q.err == nil; i++ {
			of = append(of, q.policy())
		}
		return types.PolicyThreshold(uint8(n), of)
	case 'u':
		var uc types.UnlockConditions
		uc.Timelock = q.num()
		uc.SignaturesRequired = q.num()
		nk := q.num()
		for i := uint64(0); i < nk && q.err == nil; i++ {
			var uk types.UnlockKey
			copy(uk.Algorithm[:], q.bytes())
			uk.Key = q.bytes()
			uc.PublicKeys = append(uc.PublicKeys, uk)
		}
		return types.SpendPolicy{Type: types.PolicyTypeUnlockConditions(uc)}
	}
	q.err = fmt.Errorf("unknown policy kind %q", k)
	return types.SpendPolicy{}
}

func c14Parse(s string) (types.SpendPolicy, error) {
	q := &c14Parser{s: s}
	p := q.policy()
	if q.err == nil && q.s != "" {
		q.err = errors.New("trailing input")
	}
	return p, q.err
}

// a scenario: policy + environment + witnesses
type c14Scn struct {
	P      types.SpendPolicy
	Height uint64
	Median int64 // unix seconds
	// MedianNs: nanoseconds within the second (Go-vs-oracle cases only; the model is second-resolution)
	MedianNs int64
	SigH     types.Hash256
	Sigs   []types.Signature
	Pres   [][32]byte
	Tag    string // generator family + mutation (for the distribution)
	Focus  string // leaf kind the scenario is about (violation key suffix)
	// NoModel: too deeply nested to send through the driver's recursive text parser
	NoModel bool
}

func c14HexList[T any](xs []T, f func(T) []byte) string {
	if len(xs) == 0 {
		return "-"
	}
	parts := make([]string, len(xs))
	for i, x := range xs {
		parts[i] = hex.EncodeToString(f(x))
	}
	return strings.Join(parts, ",")
}

// c14Line renders the model op. `keys` are the distinct 32-byte keys the policy can
// check a signature against; valid[i] lists the (key,sig) index pairs for which the
// REAL VerifyHash says true.
func (s *c14Scn) line(op string, keys []types.PublicKey, valid [][2]int) string {
	v := "-"
	if len(valid) > 0 {
		parts := make([]string, len(valid))
		for i, kv := range valid {
			parts[i] = fmt.Sprintf("%d:%d", kv[0], kv[1])
		}
		v = strings.Join(parts, ",")
	}
	if s.MedianNs != 0 {
		op = fmt.Sprintf("%s+%dns", op, s.MedianNs)
	}
	return fmt.Sprintf("%s %d %d %s %s %s %s %s %s", op, s.Height, s.Median, hex.EncodeToString(s.SigH[:]), c14Show(s.P),
		c14HexList(s.Sigs, func(x types.Signature) []byte { return x[:] }),
		c14HexList(s.Pres, func(x [32]byte) []byte { return x[:] }),
		c14HexList(keys, func(x types.PublicKey) []byte { return x[:] }), v)
}

// c14ParseLine is the inverse of line (used by --replay).
func c14ParseLine(l string) (*c14Scn, error) {
	f := strings.Fields(l)
	if len(f) != 9 {
		return nil, fmt.Errorf("scenario line has %d fields", len(f))
	}
	var s c14Scn
	var err error
	if i := strings.IndexByte(f[0], '+'); i >= 0 {
		fmt.Sscanf(f[0][i:], "+%dns", &s.MedianNs)
		s.NoModel = true
	}
	if s.Height, err = strconv.ParseUint(f[1], 10, 64); err != nil {
		return nil, err
	}
	if s.Median, err = strconv.ParseInt(f[2], 10, 64); err != nil {
		return nil, err
	}
	b, err := hex.DecodeString(f[3])
	if err != nil {
		return nil, err
	}
	copy(s.SigH[:], b)
	if s.P, err = c14Parse(f[4]); err != nil {
		return nil, err
	}
	if f[5] != "-" {
		for _, h := range strings.Split(f[5], ",") {
			b, err := hex.DecodeString(h)
			if err != nil {
				return nil, err
			}
			var sg types.Signature
			copy(sg[:], b)
			s.Sigs = append(s.Sigs, sg)
		}
	}
	if f[6] != "-" {
		for _, h := range strings.Split(f[6], ",") {
			b, err := hex.DecodeString(h)
			if err != nil {
				return nil, err
			}
			var pre [32]byte
			copy(pre[:], b)
			s.Pres = append(s.Pres, pre)
		}
	}
	s.Tag, s.Focus = "replay", "replay"
	return &s, nil
}
