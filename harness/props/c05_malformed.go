package props

// C05 malformed stream: ill-formed blocks and stale/forged holder proofs. There is no
// statement-level expectation here (the property speaks about well-formed use); the
// point is model fidelity: the Lean transliteration must do exactly what the Go code
// does — same panics, same (garbage) proofs.

import (
	"fmt"

	"go.sia.tech/core/consensus"
	"go.sia.tech/core/types"
	"verif/harness/internal/fw"
)

func c05Malformed(c *fw.Ctx) {
	res := c.Res
	if c.Model == nil {
		return
	}
	rounds := c.Budget(400, 20000)
	var ops, outs []string
	for r := 0; r < rounds; r++ {
		n := 1 + c.Rng.Intn(40)
		base, err := c05Build("mal", n)
		if err != nil {
			continue
		}
		// a well-formed block first
		var upd []consensus.VerifLeaf
		var wUpd, wAdd, wTrk []string
		seen := map[int]bool{}
		for x := 0; x < c.Rng.Intn(5); x++ {
			i := c.Rng.Intn(n)
			if seen[i] {
				continue
			}
			seen[i] = true
			l := accLeaf{Elem: accElemFor("mal-upd", r, i), Spent: c.Rng.Intn(2) == 0}
			proof := base.proofs[i]
			idx := uint64(i)
			upd = append(upd, accMkVerifLeaf(l, idx, proof))
			wUpd = append(wUpd, accWLeaf(idx, l, proof))
		}
		kind := c.Rng.Intn(6)
		switch kind {
		case 0: // duplicate updated index
			if len(upd) > 0 {
				d := upd[c.Rng.Intn(len(upd))]
				l := accLeaf{Elem: accElemFor("mal-dup", r, 0), Spent: false}
				upd = append(upd, accMkVerifLeaf(l, d.SE.LeafIndex, d.SE.MerkleProof))
				wUpd = append(wUpd, accWLeaf(d.SE.LeafIndex, l, d.SE.MerkleProof))
			}
		case 1: // an updated leaf carrying another leaf's proof of the same length
			if len(upd) > 0 {
				k := c.Rng.Intn(len(upd))
				for o := 0; o < n; o++ {
					if len(base.proofs[o]) == len(upd[k].SE.MerkleProof) && uint64(o) != upd[k].SE.LeafIndex {
						upd[k].SE.MerkleProof = accCloneProof(base.proofs[o])
						wUpd[k] = accWLeaf(upd[k].SE.LeafIndex, accLeaf{Elem: upd[k].ElementHash, Spent: upd[k].Spent}, base.proofs[o])
						break
					}
				}
			}
		}
		var added []consensus.VerifLeaf
		for j := 0; j < c.Rng.Intn(6); j++ {
			l := accLeaf{Elem: accElemFor("mal-add", r, j)}
			added = append(added, accMkVerifLeaf(l, types.UnassignedLeafIndex, nil))
			wAdd = append(wAdd, accWNew(l))
		}
		// holders: genuine, truncated, extended, wrong index, unassigned, beyond
		type holder struct {
			idx   uint64
			proof []accHash
		}
		var hs []holder
		for x := 0; x < 6; x++ {
			j := c.Rng.Intn(n)
			p := accCloneProof(base.proofs[j])
			idx := uint64(j)
			switch c.Rng.Intn(7) {
			case 0:
				if len(p) > 0 {
					p = p[:len(p)-1]
				}
			case 1:
				p = append(p, accElemFor("mal-ext", r, x))
			case 2:
				idx = uint64(c.Rng.Intn(n))
			case 3:
				idx = types.UnassignedLeafIndex
			case 4:
				idx = uint64(n + c.Rng.Intn(4))
			case 5:
				if len(p) > 0 {
					p[c.Rng.Intn(len(p))] = accHash{}
				}
			}
			hs = append(hs, holder{idx, p})
			wTrk = append(wTrk, accWIdxProof(idx, p))
		}
		acc := base.acc
		op := fmt.Sprintf("acc-apply %d %s %s %s %s", acc.NumLeaves, accWHashes(accRoots(&acc)), accWList(wUpd), accWList(wAdd), accWList(wTrk))
		var u consensus.VerifApplyUpdate
		out := ""
		if p, _ := fw.Recover(func() { u = acc.VerifApplyBlock(upd, added) }); p {
			out = "panic"
			res.Count("malformed:applyBlock=panic")
		} else {
			var ups, adds []accIdxProof
			for _, v := range upd {
				ups = append(ups, accIdxProof{v.SE.LeafIndex, v.SE.MerkleProof})
			}
			for _, v := range added {
				adds = append(adds, accIdxProof{v.SE.LeafIndex, v.SE.MerkleProof})
			}
			var trk []string
			for _, h := range hs {
				se := types.StateElement{LeafIndex: h.idx, MerkleProof: accCloneProof(h.proof)}
				if p, _ := fw.Recover(func() { u.UpdateElementProof(&se) }); p {
					trk = append(trk, "panic")
					res.Count("malformed:updateElementProof=panic")
				} else {
					trk = append(trk, accWHashes(se.MerkleProof))
					res.Count("malformed:updateElementProof=ok")
				}
			}
			out = fmt.Sprintf("ok %d %s %s %s %s", acc.NumLeaves, accWHashes(accRoots(&acc)), accWIdxProofsSorted(ups), accWIdxProofsSorted(adds), accWList(trk))
			res.Count("malformed:applyBlock=ok")
		}
		res.Eval("malformed "+op, true)
		ops, outs = append(ops, op), append(outs, out)
	}
	c.Compare(ops, outs)
}
