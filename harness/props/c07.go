package props

// C07 — Contracts pay out exactly once, totals fixed; storage proofs sound & complete.
//
// Go side (statement-level oracle on generated chains): for every accepted block,
// every resolution creates exactly the outputs of the contract's latest accepted
// revision (valid outputs on a storage proof, missed outputs on expiry, final
// outputs on a v2 renewal), with maturity height = block height + delay; every
// accepted revision keeps the totals, raises the revision number, and for v2 never
// raises the missed host value nor touches total collateral; no contract is resolved
// twice. Storage proofs: honest proofs built with the harness's own Merkle code are
// accepted (they are part of the generated chains, all three v1 eras and v2), and
// every single-point corruption (other leaf index, other data, other size, other
// contract's root, truncated / extended proof) re-sealed into a block is rejected.

import (
	"fmt"
	"math/rand"
	"strings"

	"go.sia.tech/core/consensus"
	"go.sia.tech/core/types"
	"verif/harness/internal/chain"
	"verif/harness/internal/fw"
)

func init() { fw.Register("C07", runC07) }

func sumOutputs(os []types.SiacoinOutput) types.Currency {
	var s types.Currency
	for _, o := range os {
		s = s.Add(o.Value)
	}
	return s
}

// payoutOracle checks one applied block against the store as it was before the block.
func payoutOracle(c *fw.Ctx, s *chain.Sim, pre *chain.Store, parent consensus.State, p chain.BlockPlan, au consensus.ApplyUpdate, resolved map[types.FileContractID]uint64, rp blockReplay) {
	res := c.Res
	b := p.Block
	height := rp.Height
	maturity := height + s.Net.MaturityDelay
	created := map[types.SiacoinOutputID]types.SiacoinElement{}
	for _, d := range au.SiacoinElementDiffs() {
		if d.Created {
			created[d.SiacoinElement.ID] = d.SiacoinElement
		}
	}
	expect := func(kind string, id types.SiacoinOutputID, want types.SiacoinOutput) {
		got, ok := created[id]
		if !ok || got.SiacoinOutput != want || got.MaturityHeight != maturity {
			res.Violate(fw.Violation{Key: "c07-payout:" + kind, What: fmt.Sprintf("resolution (%s) did not create exactly the expected output", kind), Replay: rp,
				Expected: fmt.Sprintf("%v to %v maturing at %d", want.Value, want.Address, maturity), Observed: fmt.Sprintf("present=%v %v to %v maturing at %d", ok, got.SiacoinOutput.Value, got.SiacoinOutput.Address, got.MaturityHeight)})
		}
		delete(created, id)
		res.Count("payout:" + kind)
	}
	once := func(id types.FileContractID, kind string) {
		if h, dup := resolved[id]; dup {
			res.Violate(fw.Violation{Key: "c07-resolved-twice:" + kind, What: fmt.Sprintf("contract resolved at height %d and again at %d", h, height), Replay: rp})
		}
		resolved[id] = height
	}
	// v1: latest accepted revision = store content, overridden by in-block creations/revisions in order
	latest := map[types.FileContractID]types.FileContract{}
	lookup := func(id types.FileContractID) (types.FileContract, bool) {
		if fc, ok := latest[id]; ok {
			return fc, true
		}
		e, ok := pre.FC[id]
		return e.FileContract, ok
	}
	for _, t := range b.Transactions {
		for i, fc := range t.FileContracts {
			latest[t.FileContractID(i)] = fc
		}
		for _, r := range t.FileContractRevisions {
			old, ok := lookup(r.ParentID)
			if !ok {
				continue
			}
			nf := r.FileContract
			nf.Payout = old.Payout
			if sumOutputs(nf.ValidProofOutputs) != sumOutputs(old.ValidProofOutputs) || sumOutputs(nf.MissedProofOutputs) != sumOutputs(old.MissedProofOutputs) {
				res.Violate(fw.Violation{Key: "c07-revision-changes-total:v1", What: "accepted v1 revision changes the valid or missed payout sum", Replay: rp})
			}
			if nf.RevisionNumber <= old.RevisionNumber {
				res.Violate(fw.Violation{Key: "c07-revision-number:v1", What: "accepted v1 revision does not raise the revision number", Replay: rp})
			}
			latest[r.ParentID] = nf
			res.Count("revision:v1")
		}
		for _, sp := range t.StorageProofs {
			fc, ok := lookup(sp.ParentID)
			if !ok {
				continue
			}
			once(sp.ParentID, "v1-proof")
			for i, o := range fc.ValidProofOutputs {
				expect("v1-proof", sp.ParentID.ValidOutputID(i), o)
			}
			// … and ONLY those: a proven contract pays none of its missed outputs (it may also be listed as expiring when
			// the proof lands in the last block of the window)
			for i := range fc.MissedProofOutputs {
				if _, extra := created[sp.ParentID.MissedOutputID(i)]; extra {
					res.Violate(fw.Violation{Key: "c07-payout-extra:v1-proof", What: fmt.Sprintf("contract %v was proven in this block and ALSO paid its missed output %d", sp.ParentID, i), Replay: rp})
				}
			}
		}
	}
	for _, e := range p.Supp.ExpiringFileContracts {
		if _, proven := resolved[e.ID]; proven && resolved[e.ID] == height {
			continue // proven in this very block: the expiry is skipped
		}
		fc, ok := lookup(e.ID)
		if !ok {
			continue
		}
		once(e.ID, "v1-expiry")
		for i, o := range fc.MissedProofOutputs {
			expect("v1-expiry", e.ID.MissedOutputID(i), o)
		}
		for i := range fc.ValidProofOutputs {
			if _, extra := created[e.ID.ValidOutputID(i)]; extra {
				res.Violate(fw.Violation{Key: "c07-payout-extra:v1-expiry", What: fmt.Sprintf("contract %v expired in this block and ALSO paid its valid output %d", e.ID, i), Replay: rp})
			}
		}
	}
	// v2
	latest2 := map[types.FileContractID]types.V2FileContract{}
	lookup2 := func(id types.FileContractID) (types.V2FileContract, bool) {
		if fc, ok := latest2[id]; ok {
			return fc, true
		}
		e, ok := pre.V2FC[id]
		return e.V2FileContract, ok
	}
	for _, t := range b.V2Transactions() {
		txid := t.ID()
		for i, fc := range t.FileContracts {
			latest2[t.V2FileContractID(txid, i)] = fc
		}
		for _, r := range t.FileContractRevisions {
			old, ok := lookup2(r.Parent.ID)
			if !ok {
				continue
			}
			nf := r.Revision
			if nf.RenterOutput.Value.Add(nf.HostOutput.Value) != old.RenterOutput.Value.Add(old.HostOutput.Value) {
				res.Violate(fw.Violation{Key: "c07-revision-changes-total:v2", What: "accepted v2 revision changes renter+host value", Replay: rp})
			}
			if nf.RevisionNumber <= old.RevisionNumber {
				res.Violate(fw.Violation{Key: "c07-revision-number:v2", What: "accepted v2 revision does not raise the revision number", Replay: rp})
			}
			if nf.MissedHostValue.Cmp(old.MissedHostValue) > 0 {
				res.Violate(fw.Violation{Key: "c07-revision-raises-missed-host-value", What: "accepted v2 revision raises the host's missed value", Replay: rp})
			}
			if nf.TotalCollateral != old.TotalCollateral {
				res.Violate(fw.Violation{Key: "c07-revision-changes-collateral", What: "accepted v2 revision alters total collateral", Replay: rp})
			}
			latest2[r.Parent.ID] = nf
			res.Count("revision:v2")
		}
		for _, r := range t.FileContractResolutions {
			fc, ok := lookup2(r.Parent.ID)
			if !ok {
				continue
			}
			id := r.Parent.ID
			switch x := r.Resolution.(type) {
			case *types.V2StorageProof:
				once(id, "v2-proof")
				expect("v2-proof", id.V2RenterOutputID(), fc.RenterOutput)
				expect("v2-proof", id.V2HostOutputID(), fc.HostOutput)
			case *types.V2FileContractExpiration:
				once(id, "v2-expiry")
				expect("v2-expiry", id.V2RenterOutputID(), fc.RenterOutput)
				expect("v2-expiry", id.V2HostOutputID(), types.SiacoinOutput{Value: fc.MissedHostValue, Address: fc.HostOutput.Address})
			case *types.V2FileContractRenewal:
				once(id, "v2-renewal")
				expect("v2-renewal", id.V2RenterOutputID(), x.FinalRenterOutput)
				expect("v2-renewal", id.V2HostOutputID(), x.FinalHostOutput)
				tot := x.FinalRenterOutput.Value.Add(x.RenterRollover).Add(x.FinalHostOutput.Value).Add(x.HostRollover)
				if tot != fc.RenterOutput.Value.Add(fc.HostOutput.Value) {
					res.Violate(fw.Violation{Key: "c07-renewal-split", What: "renewal final outputs + rollover differ from the latest revision's renter+host value", Replay: rp})
				}
				latest2[id.V2RenewalID()] = x.NewContract
			}
		}
	}
}

// proofMutants: single-point corruptions of the storage proofs contained in p.
func proofMutants(s *chain.Sim, p chain.BlockPlan, rng *rand.Rand) []mutant {
	var out []mutant
	b := p.Block
	for i, t := range b.Transactions {
		for j, sp := range t.StorageProofs {
			mk := func(kind string, f func(sp *types.StorageProof) bool) {
				mb, ms := chain.DeepCopyBlock(b), chain.CopySupp(p.Supp)
				if !f(&mb.Transactions[i].StorageProofs[j]) {
					return
				}
				s.Seal(&mb, p.Miner)
				out = append(out, mutant{"v1:" + kind, mb, ms})
			}
			var fc types.FileContract
			for _, e := range p.Supp.Transactions[i].StorageProofs {
				if e.FileContract.ID == sp.ParentID {
					fc = e.FileContract.FileContract
				}
			}
			if fc.Filesize == 0 {
				continue
			}
			data := s.Files[fc.FileMerkleRoot]
			nleaves := (fc.Filesize + 63) / 64
			mk("leaf-byte", func(sp *types.StorageProof) bool {
				// flip a bit of the challenged segment's DATA (padding of a partial last segment is not data)
				idx := s.Tip.StorageProofLeafIndex(fc.Filesize, p.Supp.Transactions[i].StorageProofs[0].WindowID, sp.ParentID)
				dataLen := uint64(64)
				if idx == nleaves-1 && fc.Filesize%64 != 0 {
					dataLen = fc.Filesize % 64
				}
				sp.Leaf[rng.Intn(int(dataLen))] ^= 1 << uint(rng.Intn(8))
				return true
			})
			if nleaves > 1 {
				mk("other-leaf", func(sp *types.StorageProof) bool {
					// an honest proof of another leaf of the same file
					idx := s.Tip.StorageProofLeafIndex(fc.Filesize, p.Supp.Transactions[i].StorageProofs[0].WindowID, sp.ParentID)
					other := (idx + 1 + uint64(rng.Intn(int(nleaves-1)))) % nleaves
					sp.Leaf, sp.Proof = chain.FileProof(data, other)
					return true
				})
				mk("proof-hash", func(sp *types.StorageProof) bool {
					if len(sp.Proof) == 0 {
						return false
					}
					sp.Proof[rng.Intn(len(sp.Proof))][rng.Intn(32)] ^= 0x10
					return true
				})
				mk("proof-truncated", func(sp *types.StorageProof) bool {
					if len(sp.Proof) == 0 {
						return false
					}
					sp.Proof = sp.Proof[:len(sp.Proof)-1]
					return true
				})
			}
			mk("proof-extended", func(sp *types.StorageProof) bool {
				sp.Proof = append(sp.Proof, types.Hash256{1})
				return true
			})
		}
	}
	for i, t := range b.V2Transactions() {
		for j, r := range t.FileContractResolutions {
			sp, ok := r.Resolution.(*types.V2StorageProof)
			if !ok || r.Parent.V2FileContract.Filesize == 0 {
				continue
			}
			fc := r.Parent.V2FileContract
			data := s.Files[fc.FileMerkleRoot]
			nleaves := (fc.Filesize + 63) / 64
			mk := func(kind string, f func(sp *types.V2StorageProof) bool) {
				mb, ms := chain.DeepCopyBlock(b), chain.CopySupp(p.Supp)
				q := mb.V2.Transactions[i].FileContractResolutions[j].Resolution.(*types.V2StorageProof)
				if !f(q) {
					return
				}
				s.Seal(&mb, p.Miner)
				out = append(out, mutant{"v2:" + kind, mb, ms})
			}
			_ = sp
			mk("leaf-byte", func(q *types.V2StorageProof) bool {
				// v2 leaves are always 64 bytes, zero-extended: every byte is committed
				q.Leaf[rng.Intn(64)] ^= 1 << uint(rng.Intn(8))
				return true
			})
			if nleaves > 1 {
				mk("other-leaf", func(q *types.V2StorageProof) bool {
					idx := s.Tip.StorageProofLeafIndex(fc.Filesize, q.ProofIndex.ChainIndex.ID, r.Parent.ID)
					other := (idx + 1 + uint64(rng.Intn(int(nleaves-1)))) % nleaves
					q.Leaf, q.Proof = chain.FileProof(data, other)
					return true
				})
				mk("proof-hash", func(q *types.V2StorageProof) bool {
					if len(q.Proof) == 0 {
						return false
					}
					q.Proof[rng.Intn(len(q.Proof))][rng.Intn(32)] ^= 0x10
					return true
				})
				mk("proof-truncated", func(q *types.V2StorageProof) bool {
					if len(q.Proof) == 0 {
						return false
					}
					q.Proof = q.Proof[:len(q.Proof)-1]
					return true
				})
			}
			mk("proof-extended", func(q *types.V2StorageProof) bool {
				q.Proof = append(q.Proof, types.Hash256{1})
				return true
			})
			mk("other-chain-index", func(q *types.V2StorageProof) bool {
				// a genuine ancestor of another height: the challenge would come from another block
				for h, cie := range s.St.CIE {
					if h != fc.ProofHeight {
						q.ProofIndex = cie.Copy()
						return true
					}
				}
				return false
			})
		}
	}
	return out
}

func runC07(c *fw.Ctx) {
	res := c.Res
	// the storage-proof half (closures driven directly + Lean storage-proof model) is the sub-check C07P
	defer func() {
		hugeFileProbe(c, true)
		if r := fw.Lookup("C07R"); r != nil {
			rule := c.Res.Rule
			r(c)
			c.Res.Rule = rule + " PLUS (C07R): " + c.Res.Rule
		}
		if sp := fw.Lookup("C07P"); sp != nil {
			rule := c.Res.Rule
			sp(c)
			c.Res.Rule = rule + " PLUS (C07P): " + c.Res.Rule
		}
	}()
	res.Rule = "random valid chains (all modes; v1 contracts across the three storage-proof eras, v2 contracts) with contract formation, revision sequences, storage proofs (files of 0 bytes, partial last leaf, 1..7 leaves, non-power-of-two leaf counts), expiry and renewal: after every block the payout oracle (from the store before the block and the block's own revisions, in order) checks created outputs, maturity, revision invariants and single resolution; every storage proof of every generated block is also corrupted at one point (leaf byte, proof of another leaf, one proof hash, truncated, extended, another chain index), re-sealed and must be rejected. Non-trivial = block with a contract operation, or a proof mutant."
	nChains := c.Budget(40, 1500)
	blocks := c.Budget(45, 70)
	var ops, outs []string
	for i := 0; i < nChains; i++ {
		mode := ledgerModes[i%len(ledgerModes)]
		seed := c.Seed*3000017 + int64(i)
		s := chain.NewSim(rand.New(rand.NewSource(seed)), mode)
		ab := chain.NewAbstractor(s)
		mrng := rand.New(rand.NewSource(seed ^ 0xc07))
		res.Count("chains:" + mode)
		resolved := map[types.FileContractID]uint64{}
		for k := 0; k < blocks; k++ {
			pre := s.St.Clone()
			parent := s.Tip
			p := s.BuildBlock()
			height := s.ChildHeight()
			rp := blockReplay{Mode: mode, Seed: seed, Height: height}
			for _, m := range proofMutants(s, p, mrng) {
				var err error
				panicked, msg := fw.Recover(func() { err = consensus.ValidateBlock(s.Tip, m.block, m.supp) })
				res.Eval(fmt.Sprintf("%s/%d/%d/%s/%x", mode, seed, height, m.kind, m.block.ID()), true)
				res.Count("proof-mutant:" + m.kind)
				if panicked {
					res.Violate(fw.Violation{Key: "c10-validate-panic:c07-" + m.kind, What: "panic on a corrupted storage proof: " + msg, Replay: rp})
				} else if err == nil {
					res.Violate(fw.Violation{Key: "c07-proof-accepts-corrupt:" + m.kind, What: "a corrupted storage proof was accepted (" + m.kind + ")", Replay: rp})
				} else if c.Model != nil {
					ops = append(ops, "ledger-block "+ab.Abstract(m.block, m.supp))
					outs = append(outs, "reject")
				}
			}
			au, err := s.Apply(p.Block, p.Supp)
			if err != nil {
				res.Note("generator produced a rejected block (%s seed %d height %d): %v", mode, seed, height, err)
				res.Count("generator-rejected")
				if strings.Contains(err.Error(), "storage proof") {
					// the generator only submits honest proofs built from the real data with this package's own Merkle code
					res.Violate(fw.Violation{Key: "c07-honest-proof-rejected", What: "an honest storage proof was rejected: " + err.Error(), Replay: rp})
				}
				break
			}
			nContractOps := 0
			for _, t := range p.Block.Transactions {
				nContractOps += len(t.FileContracts) + len(t.FileContractRevisions) + len(t.StorageProofs)
			}
			for _, t := range p.Block.V2Transactions() {
				nContractOps += len(t.FileContracts) + len(t.FileContractRevisions) + len(t.FileContractResolutions)
			}
			res.Eval(fmt.Sprintf("%s/%d/%d", mode, seed, k), nContractOps+len(p.Supp.ExpiringFileContracts) > 0)
			payoutOracle(c, s, pre, parent, p, au, resolved, rp)
		}
		for k, v := range s.Counts {
			res.CountN("gen:"+k, v)
		}
		if i == 0 {
			res.Sample(map[string]any{"mode": mode, "seed": seed, "generated": s.Counts})
		}
	}
	if len(ops) > 0 {
		c.Compare(ops, outs)
	}
}
