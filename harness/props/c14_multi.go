package props

// C14 — multi-input transactions through the real consensus.ValidateV2Transaction
// (and, on a subsample, consensus.ValidateBlock).
//
// The property speaks about each satisfied policy; consensus is where it is observed. For every
// policy shape, genesis holds two siacoin and two siafund outputs at the policy's address. A
// transaction spends two (or three) of them; each input carries its own SatisfiedPolicy. The
// verdict of ValidateV2Transaction must be the CONJUNCTION over the inputs of
//      "the policy is the one the parent's address commits to"  ∧  "the policy's meaning holds
//       for this input's own witnesses"
// (c14Meaning, the statement-level oracle; key c14-consensus-verdict-differs:multi-input:<variation>),
// and must agree with the Lean model of the loop (driver op policy-txn; theorem
// c14_transaction_inputs_all_verified). Variations of the second (or first) input: signature
// corrupted / missing / surplus / by a stranger / reordered / zeroed, preimage corrupted /
// missing / surplus, all-opaque threshold, no witnesses, a different policy; the same
// SatisfiedPolicy value reused for both inputs; inputs at different addresses sharing keys.

import (
	"fmt"
	"runtime"
	"strings"
	"sync"
	"time"

	"go.sia.tech/core/consensus"
	"go.sia.tech/core/types"
	"verif/harness/internal/fw"
)

// replace the generator's lock constants by locks that make sense at the e2e chain tip
func c14Relock(p types.SpendPolicy, h uint64, t int64) types.SpendPolicy {
	switch x := p.Type.(type) {
	case types.PolicyTypeAbove:
		return types.PolicyAbove(h)
	case types.PolicyTypeAfter:
		return types.PolicyAfter(time.Unix(t, 0))
	case types.PolicyTypeThreshold:
		of := make([]types.SpendPolicy, len(x.Of))
		for i := range of {
			of[i] = c14Relock(x.Of[i], h, t)
		}
		return types.PolicyThreshold(x.N, of)
	}
	return p
}

// natural witnesses with signatures over an arbitrary hash
func (f *c14Fix) witnessesFor(p types.SpendPolicy, h types.Hash256) (sigs []types.Signature, pres [][32]byte) {
	s0, pres := f.witnesses(p)
	sigs = make([]types.Signature, len(s0))
	for i, s := range s0 {
		sigs[i] = s
		for k := range f.sig { // f.witnesses hands out f.sig[k]: re-sign with the same key
			if s == f.sig[k] {
				sigs[i] = f.priv[k].SignHash(h)
			}
		}
	}
	return
}

type c14Variation struct {
	name string
	// apply returns the varied policy and witnesses, or ok=false when not applicable
	apply func(f *c14Fix, p types.SpendPolicy, h types.Hash256, sigs []types.Signature, pres [][32]byte) (types.SpendPolicy, []types.Signature, [][32]byte, bool)
}

func c14Variations() []c14Variation {
	cpS := func(s []types.Signature) []types.Signature { return append([]types.Signature(nil), s...) }
	cpP := func(s [][32]byte) [][32]byte { return append([][32]byte(nil), s...) }
	type A = func(f *c14Fix, p types.SpendPolicy, h types.Hash256, sigs []types.Signature, pres [][32]byte) (types.SpendPolicy, []types.Signature, [][32]byte, bool)
	return []c14Variation{
		{"sig-corrupt", A(func(f *c14Fix, p types.SpendPolicy, h types.Hash256, s []types.Signature, pr [][32]byte) (types.SpendPolicy, []types.Signature, [][32]byte, bool) {
			if len(s) == 0 {
				return p, s, pr, false
			}
			s = cpS(s)
			s[len(s)-1] = c14FlipSig(s[len(s)-1], 77)
			return p, s, pr, true
		})},
		{"sig-zero", A(func(f *c14Fix, p types.SpendPolicy, h types.Hash256, s []types.Signature, pr [][32]byte) (types.SpendPolicy, []types.Signature, [][32]byte, bool) {
			if len(s) == 0 {
				return p, s, pr, false
			}
			return p, make([]types.Signature, len(s)), pr, true
		})},
		{"sig-missing", A(func(f *c14Fix, p types.SpendPolicy, h types.Hash256, s []types.Signature, pr [][32]byte) (types.SpendPolicy, []types.Signature, [][32]byte, bool) {
			if len(s) == 0 {
				return p, s, pr, false
			}
			return p, cpS(s)[:len(s)-1], pr, true
		})},
		{"sig-surplus", A(func(f *c14Fix, p types.SpendPolicy, h types.Hash256, s []types.Signature, pr [][32]byte) (types.SpendPolicy, []types.Signature, [][32]byte, bool) {
			return p, append(cpS(s), f.priv[0].SignHash(h)), pr, true
		})},
		{"sig-stranger", A(func(f *c14Fix, p types.SpendPolicy, h types.Hash256, s []types.Signature, pr [][32]byte) (types.SpendPolicy, []types.Signature, [][32]byte, bool) {
			if len(s) == 0 {
				return p, s, pr, false
			}
			s = cpS(s)
			s[0] = f.priv[len(f.priv)-1].SignHash(h) // a valid signature over the right hash, by a key outside the policy
			return p, s, pr, true
		})},
		{"sig-reordered", A(func(f *c14Fix, p types.SpendPolicy, h types.Hash256, s []types.Signature, pr [][32]byte) (types.SpendPolicy, []types.Signature, [][32]byte, bool) {
			if len(s) < 2 || s[0] == s[1] {
				return p, s, pr, false
			}
			s = cpS(s)
			s[0], s[1] = s[1], s[0]
			return p, s, pr, true
		})},
		{"pre-corrupt", A(func(f *c14Fix, p types.SpendPolicy, h types.Hash256, s []types.Signature, pr [][32]byte) (types.SpendPolicy, []types.Signature, [][32]byte, bool) {
			if len(pr) == 0 {
				return p, s, pr, false
			}
			pr = cpP(pr)
			pr[0][9] ^= 4
			return p, s, pr, true
		})},
		{"pre-missing", A(func(f *c14Fix, p types.SpendPolicy, h types.Hash256, s []types.Signature, pr [][32]byte) (types.SpendPolicy, []types.Signature, [][32]byte, bool) {
			if len(pr) == 0 {
				return p, s, pr, false
			}
			return p, s, cpP(pr)[1:], true
		})},
		{"pre-surplus", A(func(f *c14Fix, p types.SpendPolicy, h types.Hash256, s []types.Signature, pr [][32]byte) (types.SpendPolicy, []types.Signature, [][32]byte, bool) {
			return p, s, append(cpP(pr), f.pre[0]), true
		})},
		{"no-witnesses", A(func(f *c14Fix, p types.SpendPolicy, h types.Hash256, s []types.Signature, pr [][32]byte) (types.SpendPolicy, []types.Signature, [][32]byte, bool) {
			return p, nil, nil, len(s)+len(pr) > 0
		})},
		{"all-opaque", A(func(f *c14Fix, p types.SpendPolicy, h types.Hash256, s []types.Signature, pr [][32]byte) (types.SpendPolicy, []types.Signature, [][32]byte, bool) {
			t, ok := p.Type.(types.PolicyTypeThreshold)
			if !ok || t.N == 0 {
				return p, s, pr, false
			}
			of := make([]types.SpendPolicy, len(t.Of))
			for i := range of {
				of[i] = types.PolicyOpaque(t.Of[i])
			}
			return types.PolicyThreshold(t.N, of), nil, nil, true // same address, nothing revealed
		})},
		{"other-policy", A(func(f *c14Fix, p types.SpendPolicy, h types.Hash256, s []types.Signature, pr [][32]byte) (types.SpendPolicy, []types.Signature, [][32]byte, bool) {
			q := types.PolicyPublicKey(f.pub[len(f.pub)-1]) // satisfied, but not what the address commits to
			return q, []types.Signature{f.priv[len(f.priv)-1].SignHash(h)}, nil, true
		})},
	}
}

// one input of a multi-input transaction, before signing
type c14MIn struct {
	shape int    // index into the shapes (which address it spends from)
	slot  int    // 0/1: which of the two outputs at that address
	fund  bool   // siafund input instead of siacoin input
	vary  int    // -1 = natural witnesses, else index into c14Variations
	reuse bool   // reuse the SatisfiedPolicy VALUE of the previous input
}

type c14MTxn struct {
	ins   []c14MIn
	label string // variation label for the key
	order string // e.g. "(good,bad)"
	block bool   // also through ValidateBlock
}

func (r *c14Run) multiFamily() {
	c, res, f := r.c, r.res, r.f
	n, genesis := c14Network()
	ts := genesis.Timestamp.Unix()
	const tipHeight = 0
	// ---- shapes (spend forms): all satisfiable at (height 0, median = genesis timestamp)
	probe := types.Hash256{0xC1, 0x4}
	satisfiable := func(p types.SpendPolicy) bool {
		s, pr := f.witnessesFor(p, probe)
		return c14Meaning(&c14Scn{P: p, Height: tipHeight, Median: ts, SigH: probe, Sigs: s, Pres: pr}) == c14Accept
	}
	var shapes []types.SpendPolicy
	seenShape := map[string]bool{}
	addShape := func(p types.SpendPolicy) {
		txt := c14Show(p)
		if !seenShape[txt] && satisfiable(p) && len(txt) < 3000 {
			seenShape[txt] = true
			shapes = append(shapes, p)
		}
	}
	var tmpl []types.SpendPolicy
	for _, t := range c14Templates(1, 3) {
		tmpl = append(tmpl, c14Relock(f.instantiate(t), tipHeight, ts-1))
	}
	for _, p := range tmpl {
		addShape(p)
	}
	nTemplateShapes := len(shapes)
	// legacy unlock conditions
	key := func(i int) types.UnlockKey { return f.pub[i].UnlockKey() }
	for _, uc := range []types.UnlockConditions{
		types.StandardUnlockConditions(f.pub[0]),
		{PublicKeys: []types.UnlockKey{key(0), key(1), key(2)}, SignaturesRequired: 2},
		{PublicKeys: []types.UnlockKey{key(3), key(3)}, SignaturesRequired: 2},
		{PublicKeys: []types.UnlockKey{key(1)}, SignaturesRequired: 0},
	} {
		addShape(types.SpendPolicy{Type: types.PolicyTypeUnlockConditions(uc)})
	}
	// random satisfiable-by-construction trees (depth <= 3) with hidden branches
	var gen func(depth int) types.SpendPolicy
	gen = func(depth int) types.SpendPolicy {
		k := c.Rng.Intn(8)
		if depth == 0 {
			k = c.Rng.Intn(5)
		}
		switch k {
		case 0:
			return types.PolicyAbove(0)
		case 1:
			return types.PolicyAfter(time.Unix(ts-1-int64(c.Rng.Intn(1000)), 0))
		case 2, 3:
			return types.PolicyPublicKey(f.pub[c.Rng.Intn(len(f.pub)-1)])
		case 4:
			return types.PolicyHash(f.hash[c.Rng.Intn(len(f.hash))])
		}
		nk := 1 + c.Rng.Intn(4)
		of := make([]types.SpendPolicy, nk)
		cnt := 0
		for i := range of {
			if c.Rng.Intn(3) > 0 {
				of[i] = gen(depth - 1)
				cnt++
			} else {
				of[i] = types.PolicyOpaque(types.PolicyPublicKey(f.pub[c.Rng.Intn(len(f.pub))]))
			}
		}
		return types.PolicyThreshold(uint8(cnt), of)
	}
	for i := 0; i < c.Budget(120, 1500); i++ {
		addShape(gen(1 + c.Rng.Intn(3)))
	}
	// quick tier: deterministic subsample of the template shapes
	if !c.Thorough() && nTemplateShapes > 160 {
		kept := shapes[:0:0]
		for i, p := range shapes {
			if i >= nTemplateShapes || c.Rng.Intn(nTemplateShapes) < 160 {
				kept = append(kept, p)
			}
		}
		shapes = kept
	}
	res.CountN("multi:shapes", len(shapes))

	// ---- genesis: two siacoin and two siafund outputs per shape
	var gift types.Transaction
	addrs := make([]types.Address, len(shapes))
	for j, p := range shapes {
		addrs[j] = p.Address()
		for k := 0; k < 2; k++ {
			gift.SiacoinOutputs = append(gift.SiacoinOutputs, types.SiacoinOutput{Address: addrs[j], Value: types.Siacoins(uint32(10 + k))})
			gift.SiafundOutputs = append(gift.SiafundOutputs, types.SiafundOutput{Address: addrs[j], Value: uint64(1 + k)})
		}
	}
	genesis.Transactions = []types.Transaction{gift}
	var cs consensus.State
	var au consensus.ApplyUpdate
	if panicked, msg := fw.Recover(func() {
		cs, au = consensus.ApplyBlock(n.GenesisState(), genesis, consensus.V1BlockSupplement{Transactions: make([]consensus.V1TransactionSupplement, 1)}, time.Time{})
	}); panicked {
		res.Note("multi-input setup: ApplyBlock(genesis) panicked: %s", msg)
		return
	}
	scAt := map[types.Address][]types.SiacoinElement{}
	sfAt := map[types.Address][]types.SiafundElement{}
	for _, d := range au.SiacoinElementDiffs() {
		a := d.SiacoinElement.SiacoinOutput.Address
		scAt[a] = append(scAt[a], d.SiacoinElement.Copy())
	}
	for _, d := range au.SiafundElementDiffs() {
		a := d.SiafundElement.SiafundOutput.Address
		sfAt[a] = append(sfAt[a], d.SiafundElement.Copy())
	}
	median := cs.PrevTimestamps[0].Unix()
	height := cs.Index.Height
	sink := types.StandardAddress(f.pub[5])
	vars := c14Variations()

	// ---- the transactions
	var txns []c14MTxn
	for j := range shapes {
		good := func(slot int, fund bool) c14MIn { return c14MIn{shape: j, slot: slot, fund: fund, vary: -1} }
		txns = append(txns, c14MTxn{ins: []c14MIn{good(0, false), good(1, false)}, label: "none", order: "(good,good)", block: j%8 == 0})
		txns = append(txns, c14MTxn{ins: []c14MIn{good(0, false), {shape: j, slot: 1, vary: -1, reuse: true}}, label: "same-satisfied-policy", order: "(good,same)"})
		txns = append(txns, c14MTxn{ins: []c14MIn{good(0, true), good(1, true)}, label: "none", order: "siafund (good,good)"})
		txns = append(txns, c14MTxn{ins: []c14MIn{good(0, false), good(0, true)}, label: "none", order: "siacoin+siafund (good,good)"})
		for vi, v := range vars {
			bad := func(slot int, fund bool) c14MIn { return c14MIn{shape: j, slot: slot, fund: fund, vary: vi} }
			txns = append(txns,
				c14MTxn{ins: []c14MIn{good(0, false), bad(1, false)}, label: v.name, order: "(good,bad)", block: (j+vi)%16 == 0},
				c14MTxn{ins: []c14MIn{bad(0, false), good(1, false)}, label: v.name, order: "(bad,good)"},
				c14MTxn{ins: []c14MIn{good(0, true), bad(1, true)}, label: v.name, order: "siafund (good,bad)"},
				c14MTxn{ins: []c14MIn{bad(0, true), good(1, true)}, label: v.name, order: "siafund (bad,good)"},
				c14MTxn{ins: []c14MIn{good(0, false), bad(0, true)}, label: v.name, order: "siacoin good, siafund bad"},
				c14MTxn{ins: []c14MIn{bad(1, false), {shape: j, slot: 0, vary: vi, reuse: true}}, label: v.name, order: "(bad,same)"},
			)
			if vi%4 == j%4 {
				txns = append(txns, c14MTxn{ins: []c14MIn{good(0, false), good(1, false), bad(0, true)}, label: v.name, order: "(good,good,siafund bad)"})
			}
		}
		// different addresses (often sharing keys): a good input of this shape with a bad one of the next
		if j+1 < len(shapes) {
			vi := j % len(vars)
			txns = append(txns,
				c14MTxn{ins: []c14MIn{good(0, false), {shape: j + 1, slot: 0, vary: vi}}, label: vars[vi].name, order: "different addresses (good,bad)"},
				c14MTxn{ins: []c14MIn{{shape: j + 1, slot: 0, vary: vi}, good(0, false)}, label: vars[vi].name, order: "different addresses (bad,good)"},
				c14MTxn{ins: []c14MIn{good(0, false), {shape: j + 1, slot: 0, vary: -1}}, label: "none", order: "different addresses (good,good)"})
		}
	}
	// the same key under different addresses: pk(K) and thresholds / unlock conditions over K
	res.CountN("multi:transactions", len(txns))

	// ---- evaluate (parallel: signing and verification dominate)
	type outT struct {
		skip             bool
		goV, goErr       string
		blockV           string
		want             c14Verdict
		line             string
		scns             []*c14Scn
		desc             string
	}
	outs := make([]outT, len(txns))
	workers := min(runtime.GOMAXPROCS(0), 8)
	var wg sync.WaitGroup
	for w := 0; w < workers; w++ {
		wg.Add(1)
		go func(w int) {
			defer wg.Done()
			for ti := w; ti < len(txns); ti += workers {
				t := txns[ti]
				o := &outs[ti]
				var txn types.V2Transaction
				var scSum types.Currency
				var sfSum uint64
				for _, in := range t.ins {
					a := addrs[in.shape]
					if in.fund {
						el := sfAt[a][in.slot]
						txn.SiafundInputs = append(txn.SiafundInputs, types.V2SiafundInput{Parent: el.Copy(), ClaimAddress: sink})
						sfSum += el.SiafundOutput.Value
					} else {
						el := scAt[a][in.slot]
						txn.SiacoinInputs = append(txn.SiacoinInputs, types.V2SiacoinInput{Parent: el.Copy()})
						scSum = scSum.Add(el.SiacoinOutput.Value)
					}
				}
				if !scSum.IsZero() {
					txn.SiacoinOutputs = []types.SiacoinOutput{{Address: sink, Value: scSum}}
				}
				if sfSum != 0 {
					txn.SiafundOutputs = []types.SiafundOutput{{Address: sink, Value: sfSum}}
				}
				// policies first (the signature hash may cover them), then witnesses
				sps := make([]types.SatisfiedPolicy, len(t.ins))
				for k, in := range t.ins {
					sps[k].Policy = shapes[in.shape]
					if in.vary >= 0 {
						p2, _, _, ok := vars[in.vary].apply(f, shapes[in.shape], probe, nil, nil)
						_ = ok
						if vars[in.vary].name == "all-opaque" || vars[in.vary].name == "other-policy" {
							sps[k].Policy = p2
						}
					}
				}
				assign := func() {
					si, fi := 0, 0
					for k, in := range t.ins {
						if in.fund {
							txn.SiafundInputs[fi].SatisfiedPolicy = sps[k]
							fi++
						} else {
							txn.SiacoinInputs[si].SatisfiedPolicy = sps[k]
							si++
						}
					}
				}
				assign()
				sigHash := cs.InputSigHash(txn)
				for k, in := range t.ins {
					if in.reuse && k > 0 {
						sps[k] = sps[k-1] // the very same value (shared slices)
						continue
					}
					s, pr := f.witnessesFor(shapes[in.shape], sigHash)
					p := shapes[in.shape]
					if in.vary >= 0 {
						var ok bool
						p, s, pr, ok = vars[in.vary].apply(f, p, sigHash, s, pr)
						if !ok {
							o.skip = true
						}
					}
					sps[k] = types.SatisfiedPolicy{Policy: p, Signatures: s, Preimages: pr}
				}
				if o.skip {
					continue
				}
				assign()
				if cs.InputSigHash(txn) != sigHash {
					o.skip = true // cannot happen: witnesses are not covered by the signature hash
					continue
				}
				// order of validation: siacoin inputs, then siafund inputs
				var order []int
				for k, in := range t.ins {
					if !in.fund {
						order = append(order, k)
					}
				}
				for k, in := range t.ins {
					if in.fund {
						order = append(order, k)
					}
				}
				// the real code
				var err error
				if panicked, msg := fw.Recover(func() { err = consensus.ValidateV2Transaction(consensus.NewMidState(cs), txn) }); panicked {
					o.goV, o.goErr = "panic", msg
				} else if err != nil {
					o.goV, o.goErr = "reject", err.Error()
				} else {
					o.goV = "accept"
				}
				if t.block {
					b := types.Block{
						ParentID:     genesis.ID(),
						Timestamp:    genesis.Timestamp.Add(time.Second),
						MinerPayouts: []types.SiacoinOutput{{Address: types.VoidAddress, Value: cs.BlockReward()}},
						V2:           &types.V2BlockData{Height: 1, Transactions: []types.V2Transaction{txn}},
					}
					b.V2.Commitment = cs.Commitment(b.MinerPayouts[0].Address, b.Transactions, b.V2Transactions())
					for b.Nonce%cs.NonceFactor() != 0 {
						b.Nonce++
					}
					for b.ID().CmpWork(cs.PoWTarget()) < 0 {
						b.Nonce += cs.NonceFactor()
					}
					var berr error
					if panicked, _ := fw.Recover(func() { berr = consensus.ValidateBlock(cs, b, consensus.V1BlockSupplement{}) }); panicked {
						o.blockV = "panic"
					} else if berr != nil {
						o.blockV = "reject"
					} else {
						o.blockV = "accept"
					}
				}
				// the statement: conjunction over the inputs
				o.want = c14Accept
				var parts []string
				for _, k := range order {
					in := t.ins[k]
					sc := &c14Scn{P: sps[k].Policy, Height: height, Median: median, SigH: sigHash, Sigs: sps[k].Signatures, Pres: sps[k].Preimages,
						Tag: "multi-input/" + t.label, Focus: c14RootKind(sps[k].Policy)}
					o.scns = append(o.scns, sc)
					v := c14Meaning(sc)
					if sps[k].Policy.Address() != addrs[in.shape] {
						v = c14Reject // not the policy the parent's address commits to
					}
					if v == c14Reject {
						o.want = c14Reject
					} else if v == c14Unspecified && o.want == c14Accept {
						o.want = c14Unspecified
					}
					if r.c.Model != nil {
						fl := strings.Fields(sc.modelLine())
						parts = append(parts, strings.Join(fl[4:9], " ")+" "+fmt.Sprintf("%x", addrs[in.shape][:]))
					}
				}
				if r.c.Model != nil {
					o.line = fmt.Sprintf("policy-txn %d %d %x %s", height, median, sigHash[:], strings.Join(parts, " "))
				}
				o.desc = fmt.Sprintf("%s %s: %d siacoin + %d siafund inputs, first policy %s", t.label, t.order, len(txn.SiacoinInputs), len(txn.SiafundInputs), c14Trunc(c14Show(sps[0].Policy), 160))
			}
		}(w)
	}
	wg.Wait()

	// ---- account, statement check, model comparison
	var lines []string
	var lidx []int
	for ti := range txns {
		o := &outs[ti]
		t := txns[ti]
		if o.skip {
			res.Count("multi:not-applicable")
			continue
		}
		res.Eval("multi "+o.desc+" "+o.line+o.goErr, true)
		res.Count("multi:variation:" + t.label)
		res.Count("multi:consensus:" + o.goV)
		res.Count("multi:oracle:" + o.want.String())
		if ti%5 == 0 { // the per-input three-way comparison on consensus' own signature hash
			for _, sc := range o.scns {
				r.add(sc)
			}
		}
		viol := func(what, observed string) {
			res.Violate(fw.Violation{
				Key:  "c14-consensus-verdict-differs:multi-input:" + t.label,
				What: fmt.Sprintf("%s on a transaction whose inputs are %s", what, o.desc),
				Replay: map[string]any{"kind": "multi", "variation": t.label, "order": t.order, "model_op": c14Trunc(o.line, 20000),
					"go_error": o.goErr},
				Expected: o.want.String() + " (conjunction of the per-input verdicts)", Observed: observed,
			})
		}
		if o.goV == "panic" {
			viol("ValidateV2Transaction panicked: "+o.goErr, "panic")
		} else if o.want != c14Unspecified && o.goV != o.want.String() {
			viol("ValidateV2Transaction says "+o.goV, o.goV)
		}
		if o.blockV != "" {
			res.Count("multi:block:" + o.blockV)
			if o.want != c14Unspecified && o.blockV != o.want.String() {
				viol("ValidateBlock says "+o.blockV, o.blockV)
			}
		}
		if o.line != "" {
			lines = append(lines, o.line)
			lidx = append(lidx, ti)
		}
	}
	if r.c.Model != nil && len(lines) > 0 {
		res.ModelUsed = true
		mo, err := r.c.Model.Eval(lines)
		if err != nil {
			res.Disagree(fw.Disagreement{Op: "(driver)", Model: err.Error(), Note: "model driver failed (policy-txn)"})
			return
		}
		for k, ti := range lidx {
			res.ModelOps++
			if c14Verdict3(mo[k]) != outs[ti].goV {
				res.Disagree(fw.Disagreement{Op: c14Trunc(lines[k], 4000), Go: outs[ti].goV + " " + outs[ti].goErr, Model: mo[k], Note: "multi-input " + txns[ti].label + " " + txns[ti].order})
			}
		}
	}
}
