package props

// Wire-format clause of C11, on the Go side.
//
//  1. c11WireCheck: for a type whose layout is pinned by lean/SiaModel/Codec/Spec.lean (the
//     `tie_wire_*` theorems), the model's encoding of a value IS the specified layout. If Go
//     encodes the same value to different bytes, and the model's bytes decode under Go to
//     that very value (so the model side is demonstrably a valid encoding of it — a model bug
//     cannot masquerade as a violation), the wire format has changed:
//     `c11-wire-format:<type>` with both encodings and the first differing offset.
//  2. c11Edges: the canonical edge values of every atom, pushed through every codec type:
//     zero / one / 2^64-1 / 2^64 / 2^128-1 currencies (v1 and v2 form), all-zero values
//     (zero hashes, timestamps, siafund counts, miner fees, missed outputs), nil and empty
//     slices, maximal numbers and 0xff byte strings.
//  3. c11Golden: committed (name, hex) vectors of siad-era v1 objects, computed on the
//     pinned commit — historical transaction and block IDs depend on these exact bytes.

import (
	"bytes"
	"fmt"
	"math"
	"os"
	"reflect"
	"time"

	"go.sia.tech/core/types"
	"verif/harness/internal/fw"
)

// types whose byte layout is pinned (the WIRE table of extract/gen_c11tie.py plus the
// hand-modelled layouts of Codec/Spec.lean and the V1Currency atom)
var c11Pinned = map[string]bool{}

func init() {
	for _, n := range []string{
		"Types_Hash256", "Types_BlockID", "Types_TransactionID", "Types_Address", "Types_PublicKey", "Types_SiacoinOutputID",
		"Types_SiafundOutputID", "Types_FileContractID", "Types_AttestationID", "Types_Signature", "Types_Specifier",
		"Types_V1Currency", "Types_V2Currency", "Types_ChainIndex", "Types_UnlockKey", "Types_UnlockConditions",
		"Types_V1SiacoinOutput", "Types_V1SiafundOutput", "Types_SiacoinInput", "Types_SiafundInput", "Types_FileContract",
		"Types_FileContractRevision", "Types_StorageProof", "Types_FoundationAddressUpdate", "Types_CoveredFields",
		"Types_TransactionSignature", "Types_Transaction", "Types_BlockHeader", "Types_V1Block", "Types_V2BlockData", "Types_V2Block",
		"Types_V2SiacoinOutput", "Types_V2SiafundOutput", "Types_StateElement", "Types_ChainIndexElement", "Types_SiacoinElement",
		"Types_SiafundElement", "Types_FileContractElement", "Types_V2FileContract", "Types_V2FileContractElement",
		"Types_SatisfiedPolicy", "Types_SpendPolicy", "Types_V2SiacoinInput", "Types_V2SiafundInput", "Types_V2FileContractRevision",
		"Types_V2FileContractRenewal", "Types_V2StorageProof", "Types_V2FileContractExpiration", "Types_V2FileContractResolution",
		"Types_V2Transaction", "Types_Attestation", "Consensus_Work", "Consensus_V1StorageProofSupplement",
		"Consensus_V1TransactionSupplement", "Consensus_V1BlockSupplement", "Consensus_ElementAccumulator", "Consensus_State",
	} {
		c11Pinned[n] = true
	}
}

// c11WireCheck is called when the model's answer to `codec <T> <go encoding of v>` differs
// from `ok <same bytes> 0`.
func c11WireCheck(c *fw.Ctx, w c11WireCase, modelLine string) {
	if !c11Pinned[w.ct.lean] {
		return
	}
	var hex string
	var rest int
	if n, _ := fmt.Sscanf(modelLine, "ok %s %d", &hex, &rest); n != 2 || rest != 0 {
		return // the model refuses Go's bytes altogether: a disagreement, no agreed value
	}
	var mb []byte
	if hex != "-" {
		if _, err := fmt.Sscanf(hex, "%x", &mb); err != nil {
			return
		}
	}
	if bytes.Equal(mb, w.b) {
		return
	}
	// the model's bytes must be a valid encoding of the SAME value under Go
	o := c11Decode(w.ct, mb)
	if o.panicked || o.err != nil || o.rest != 0 || !c11NormEq(reflect.ValueOf(w.p).Elem(), reflect.ValueOf(o.p).Elem()) {
		c.Res.Count("wire:model-bytes-not-the-same-value-under-go")
		return
	}
	off := 0
	for off < len(mb) && off < len(w.b) && mb[off] == w.b[off] {
		off++
	}
	c.Res.Violate(fw.Violation{Key: "c11-wire-format:" + w.ct.goName,
		What:     fmt.Sprintf("the encoding of a %s differs from the specified byte layout (first difference at offset %d; the specified bytes decode to the same value)", w.ct.goName, off),
		Replay:   map[string]any{"kind": "codec", "type": w.ct.lean, "hex": fw.Hex(w.b), "specified": fw.Hex(mb), "offset": off},
		Expected: fw.Hex(mb), Observed: fw.Hex(w.b)})
}

// ---------------------------------------------------------------- edge values

type c11Edge struct {
	name string
	cur  types.Currency
	u64  uint64
	fill byte // content of byte arrays / byte strings
	blob int  // length of byte strings (-1: nil)
	t    time.Time
}

var c11EdgeModes = []c11Edge{
	{"zero", types.ZeroCurrency, 0, 0, -1, time.Unix(0, 0)},
	{"zero-empty-slices", types.ZeroCurrency, 0, 0, 0, time.Unix(0, 0)},
	{"one", types.NewCurrency64(1), 1, 1, 1, time.Unix(1, 0)},
	{"2^64-1", types.NewCurrency(math.MaxUint64, 0), math.MaxUint64, 0xff, 3, time.Unix(math.MaxInt64, 0)},
	{"2^64", types.NewCurrency(0, 1), 1 << 63, 0x80, 2, time.Unix(1<<32, 0)},
	{"2^128-1", types.MaxCurrency, math.MaxUint64, 0xff, 64, time.Unix(-1, 0)},
}

// c11ApplyEdge overwrites every atom reachable from v (structs, slices, pointers present in
// the value) with the edge value of its kind.
func c11ApplyEdge(v reflect.Value, e c11Edge, depth int) {
	t := v.Type()
	if depth > 12 {
		return
	}
	switch {
	case t == c11tCurrency:
		v.Set(reflect.ValueOf(e.cur))
		return
	case t == c11tTime:
		v.Set(reflect.ValueOf(e.t))
		return
	case t.Kind() == reflect.Struct && t.ConvertibleTo(c11tTime):
		v.Set(reflect.ValueOf(e.t).Convert(t))
		return
	case t == c11tPolicy || t == c11tWork || t == c11tV2Data || t == c11tOutline:
		return
	}
	switch t.Kind() {
	case reflect.Bool:
		v.SetBool(e.u64 != 0)
	case reflect.Uint8:
		v.SetUint(e.u64 & 0xff)
	case reflect.Uint16, reflect.Uint32, reflect.Uint64, reflect.Uint:
		v.SetUint(e.u64)
	case reflect.Int, reflect.Int32, reflect.Int64:
		v.SetInt(int64(e.u64))
	case reflect.String:
		if e.blob > 0 {
			v.SetString(string(bytes.Repeat([]byte{'z'}, e.blob)))
		} else {
			v.SetString("")
		}
	case reflect.Array:
		if t.Elem().Kind() == reflect.Uint8 {
			reflect.Copy(v, reflect.ValueOf(bytes.Repeat([]byte{e.fill}, t.Len())))
			return
		}
		for i := 0; i < v.Len(); i++ {
			c11ApplyEdge(v.Index(i), e, depth+1)
		}
	case reflect.Slice:
		if t.Elem().Kind() == reflect.Uint8 {
			switch {
			case e.blob < 0:
				v.Set(reflect.Zero(t))
			default:
				v.Set(reflect.ValueOf(bytes.Repeat([]byte{e.fill}, e.blob)).Convert(t))
			}
			return
		}
		if v.Len() == 0 {
			if e.blob == 0 {
				v.Set(reflect.MakeSlice(t, 0, 0)) // empty, non-nil
			} else if e.blob < 0 {
				v.Set(reflect.Zero(t))
			}
		}
		for i := 0; i < v.Len(); i++ {
			c11ApplyEdge(v.Index(i), e, depth+1)
		}
	case reflect.Ptr:
		if !v.IsNil() && t.Elem().Name() != "Network" {
			c11ApplyEdge(v.Elem(), e, depth+1)
		}
	case reflect.Interface:
		if !v.IsNil() && v.Elem().Kind() == reflect.Ptr && t != c11tError {
			c11ApplyEdge(v.Elem().Elem(), e, depth+1)
		}
	case reflect.Struct:
		for i := 0; i < t.NumField(); i++ {
			if t.Field(i).IsExported() {
				c11ApplyEdge(v.Field(i), e, depth+1)
			}
		}
	}
}

// c11Clear empties every slice and nils every optional pointer reachable through structs.
func c11Clear(v reflect.Value, depth int) {
	t := v.Type()
	if depth > 12 || t == c11tPolicy || t == c11tWork || t == c11tV2Data || t == c11tOutline || t == c11tTime || t == c11tCurrency {
		return
	}
	switch t.Kind() {
	case reflect.Slice, reflect.Ptr:
		v.Set(reflect.Zero(t))
	case reflect.Interface:
		if !v.IsNil() && v.Elem().Kind() == reflect.Ptr && t != c11tError {
			c11Clear(v.Elem().Elem(), depth+1)
		}
	case reflect.Struct:
		if t.ConvertibleTo(c11tTime) {
			return
		}
		for i := 0; i < t.NumField(); i++ {
			if t.Field(i).IsExported() {
				c11Clear(v.Field(i), depth+1)
			}
		}
	}
}

// c11Edges: every codec type at every edge mode, once on the zero value (no elements, nil
// pointers) and once on a generated value (so that slices hold elements to overwrite).
func c11Edges(c *fw.Ctx, g *c11Gen, ct c11Codec, modelled bool, model *c11Model) {
	if ct.gen != nil && ct.norm == nil {
		return
	}
	for _, e := range c11EdgeModes {
		for _, populated := range []bool{false, true} {
			// start from a generated value (interfaces and policies hold something encodable);
			// the unpopulated variant drops every slice element and optional pointer
			p := ct.generate(g)
			v := reflect.ValueOf(p).Elem()
			if !populated {
				c11Clear(v, 0)
			}
			if len(ct.fields) > 0 {
				for _, f := range ct.fields {
					c11ApplyEdge(v.FieldByName(f), e, 1)
				}
			} else {
				c11ApplyEdge(v, e, 0)
			}
			c11NormaliseDeep(g, v, 0)
			if ct.norm != nil {
				ct.norm(p)
			}
			c.Res.Count("edge:" + e.name)
			c11CheckValue(c, g, ct, p, modelled, model, nil, "edge "+e.name)
		}
	}
}

// ---------------------------------------------------------------- golden vectors

func c11GoldenValues() []struct {
	name string
	v    types.EncoderTo
} {
	addr := func(b byte) (a types.Address) {
		for i := range a {
			a[i] = b + byte(i)
		}
		return
	}
	h := func(b byte) (x types.Hash256) {
		for i := range x {
			x[i] = b ^ byte(i*7)
		}
		return
	}
	uc := types.UnlockConditions{Timelock: 3, SignaturesRequired: 1, PublicKeys: []types.UnlockKey{
		{Algorithm: types.SpecifierEd25519, Key: bytes.Repeat([]byte{0xab}, 32)}, {Algorithm: types.NewSpecifier("entropy"), Key: nil}}}
	fc := types.FileContract{
		Filesize: 4096, FileMerkleRoot: h(1), WindowStart: 100, WindowEnd: 200, Payout: types.Siacoins(10),
		ValidProofOutputs:  []types.SiacoinOutput{{Value: types.Siacoins(6), Address: addr(1)}, {Value: types.Siacoins(4), Address: addr(2)}},
		MissedProofOutputs: []types.SiacoinOutput{{Value: types.Siacoins(6), Address: addr(1)}, {Value: types.ZeroCurrency, Address: addr(2)}, {Value: types.NewCurrency64(1), Address: types.VoidAddress}},
		UnlockHash:         addr(9), RevisionNumber: 7,
	}
	rev := types.FileContractRevision{ParentID: types.FileContractID(h(3)), UnlockConditions: uc, FileContract: fc}
	rev.FileContract.RevisionNumber = 8
	sp := types.StorageProof{ParentID: types.FileContractID(h(3)), Proof: []types.Hash256{h(4), h(5)}}
	for i := range sp.Leaf {
		sp.Leaf[i] = byte(i)
	}
	txn := types.Transaction{
		SiacoinInputs:         []types.SiacoinInput{{ParentID: types.SiacoinOutputID(h(6)), UnlockConditions: uc}},
		SiacoinOutputs:        []types.SiacoinOutput{{Value: types.ZeroCurrency, Address: addr(3)}, {Value: types.NewCurrency(0, 1), Address: addr(4)}, {Value: types.MaxCurrency, Address: addr(5)}},
		FileContracts:         []types.FileContract{fc},
		FileContractRevisions: []types.FileContractRevision{rev},
		StorageProofs:         []types.StorageProof{sp},
		SiafundInputs:         []types.SiafundInput{{ParentID: types.SiafundOutputID(h(7)), UnlockConditions: uc, ClaimAddress: addr(6)}},
		SiafundOutputs:        []types.SiafundOutput{{Value: 0, Address: addr(7)}, {Value: 10000, Address: addr(8)}},
		MinerFees:             []types.Currency{types.ZeroCurrency, types.NewCurrency64(255), types.NewCurrency64(256)},
		ArbitraryData:         [][]byte{nil, []byte("NonSia"), bytes.Repeat([]byte{7}, 40)},
		Signatures: []types.TransactionSignature{{ParentID: h(6), PublicKeyIndex: 0, Timelock: 0,
			CoveredFields: types.CoveredFields{WholeTransaction: true}, Signature: bytes.Repeat([]byte{0x5a}, 64)},
			{ParentID: h(7), PublicKeyIndex: 1, Timelock: 9, CoveredFields: types.CoveredFields{SiacoinInputs: []uint64{0}, MinerFees: []uint64{0, 1, 2}, Signatures: []uint64{0}}, Signature: nil}},
	}
	hdr := types.BlockHeader{ParentID: types.BlockID(h(8)), Nonce: 0x0102030405060708, Timestamp: time.Unix(1433600000, 0), Commitment: h(9)}
	blk := types.Block{ParentID: types.BlockID(h(8)), Nonce: 42, Timestamp: time.Unix(1433600000, 0),
		MinerPayouts: []types.SiacoinOutput{{Value: types.Siacoins(300000), Address: addr(10)}}, Transactions: []types.Transaction{txn}}
	return []struct {
		name string
		v    types.EncoderTo
	}{
		{"v1currency-zero", types.V1Currency(types.ZeroCurrency)},
		{"v1currency-one", types.V1Currency(types.NewCurrency64(1))},
		{"v1currency-256", types.V1Currency(types.NewCurrency64(256))},
		{"v1currency-2^64", types.V1Currency(types.NewCurrency(0, 1))},
		{"v1currency-max", types.V1Currency(types.MaxCurrency)},
		{"v1siafundoutput-zero", types.V1SiafundOutput(types.SiafundOutput{})},
		{"unlockconditions", uc},
		{"filecontract", fc},
		{"filecontractrevision", rev},
		{"storageproof", sp},
		{"transaction-all-fields", txn},
		{"transaction-empty", types.Transaction{}},
		{"blockheader", hdr},
		{"v1block", types.V1Block(blk)},
		{"transaction-id", txn.ID()},
		{"blockheader-id", hdr.ID()},
	}
}

func c11Golden(c *fw.Ctx) {
	print := os.Getenv("VERIF_C11_PRINT_GOLDEN") != ""
	for _, gv := range c11GoldenValues() {
		var buf bytes.Buffer
		e := types.NewEncoder(&buf)
		gv.v.EncodeTo(e)
		e.Flush()
		got := fw.Hex(buf.Bytes())
		if print {
			fmt.Fprintf(os.Stderr, "\t%q: %q,\n", gv.name, got)
			continue
		}
		want, ok := c11GoldenHex[gv.name]
		c.Res.Eval("golden "+gv.name, true)
		c.Res.Count("golden-vectors")
		if !ok {
			c.Res.Note("golden vector %s has no committed bytes", gv.name)
			continue
		}
		if got != want {
			off := 0
			for off < len(got) && off < len(want) && got[off] == want[off] {
				off++
			}
			c.Res.Violate(fw.Violation{Key: "c11-golden:" + gv.name,
				What:     fmt.Sprintf("the encoding of golden vector %s differs from the committed bytes (first difference at byte %d): IDs of historical objects would change", gv.name, off/2),
				Replay:   map[string]any{"kind": "golden", "name": gv.name, "hex": got},
				Expected: want, Observed: got})
		}
	}
}
