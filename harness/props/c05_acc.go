package props

// Shared helpers for the accumulator properties C04/C05: the independent naive
// Merkle forest (the statement-level oracle), leaf bookkeeping, and the wire
// format of the Lean driver ops in SiaModel/Driver/Acc.lean.

import (
	"encoding/binary"
	"encoding/hex"
	"fmt"
	"sort"
	"strings"

	"golang.org/x/crypto/blake2b"

	"go.sia.tech/core/consensus"
	"go.sia.tech/core/types"
)

type accHash = types.Hash256

// ---------------------------------------------------------------- oracle
//
// The naive forest over ALL leaf hashes ever added: one perfect tree per set bit
// of the leaf count, highest first. Written from the property statement; it does
// not use any code of go.sia.tech/core (hashing is x/crypto BLAKE2b with the
// RFC 6962 prefixes).

func accNfPair(l, r accHash) accHash {
	var b [65]byte
	b[0] = 1
	copy(b[1:], l[:])
	copy(b[33:], r[:])
	return blake2b.Sum256(b[:])
}

func accNfLeafHash(elem accHash, index uint64, spent bool) accHash {
	var b [42]byte
	copy(b[1:], elem[:])
	binary.LittleEndian.PutUint64(b[33:], index)
	if spent {
		b[41] = 1
	}
	return blake2b.Sum256(b[:])
}

type accNfTree struct {
	start, height int
	levels        [][]accHash // levels[0] = the leaves, levels[height] = {root}
}

func accNfForest(leaves []accHash) (trees []accNfTree) {
	for start := 0; start < len(leaves); {
		height := 0
		for 1<<(height+1) <= len(leaves)-start {
			height++
		}
		t := accNfTree{start: start, height: height, levels: [][]accHash{leaves[start : start+1<<height]}}
		for d := 0; d < height; d++ {
			prev := t.levels[d]
			next := make([]accHash, len(prev)/2)
			for j := range next {
				next[j] = accNfPair(prev[2*j], prev[2*j+1])
			}
			t.levels = append(t.levels, next)
		}
		trees = append(trees, t)
		start += 1 << height
	}
	return
}

func (t accNfTree) root() accHash { return t.levels[t.height][0] }

// accNfPath returns the sibling hashes from leaf i up to the root of its tree.
func accNfPath(trees []accNfTree, i int) []accHash {
	for _, t := range trees {
		if i >= t.start && i < t.start+1<<t.height {
			p := make([]accHash, 0, t.height)
			for d := 0; d < t.height; d++ {
				p = append(p, t.levels[d][((i-t.start)>>d)^1])
			}
			return p
		}
	}
	return nil
}

// accNfRoots returns the roots by height (ascending), as the accumulator encodes them.
func accNfRoots(trees []accNfTree) []accHash {
	var rs []accHash
	for j := len(trees) - 1; j >= 0; j-- {
		rs = append(rs, trees[j].root())
	}
	return rs
}

// ---------------------------------------------------------------- leaves

// accLeaf is the harness's own record of one accumulator leaf.
type accLeaf struct {
	Elem  accHash
	Spent bool
}

func (l accLeaf) hashAt(i int) accHash { return accNfLeafHash(l.Elem, uint64(i), l.Spent) }

func accLeafHashes(ls []accLeaf) []accHash {
	out := make([]accHash, len(ls))
	for i, l := range ls {
		out[i] = l.hashAt(i)
	}
	return out
}

func accCloneProof(p []accHash) []accHash { return append([]accHash(nil), p...) }

func accMkVerifLeaf(l accLeaf, index uint64, proof []accHash) consensus.VerifLeaf {
	return consensus.VerifLeaf{SE: &types.StateElement{LeafIndex: index, MerkleProof: accCloneProof(proof)}, ElementHash: l.Elem, Spent: l.Spent}
}

func accRoots(acc *consensus.ElementAccumulator) []accHash {
	var rs []accHash
	for h := 0; h < 64; h++ {
		if acc.NumLeaves&(1<<h) != 0 {
			rs = append(rs, acc.Trees[h])
		}
	}
	return rs
}

func accEqProof(a, b []accHash) bool {
	if len(a) != len(b) {
		return false
	}
	for i := range a {
		if a[i] != b[i] {
			return false
		}
	}
	return true
}

// accElemFor derives a distinct 32-byte element hash from small integers.
func accElemFor(tag string, a, b int) accHash {
	return blake2b.Sum256([]byte(fmt.Sprintf("verif/%s/%d/%d", tag, a, b)))
}

// ---------------------------------------------------------------- wire format

func accWHash(h accHash) string { return hex.EncodeToString(h[:]) }

func accWHashes(hs []accHash) string {
	if len(hs) == 0 {
		return "-"
	}
	ss := make([]string, len(hs))
	for i, h := range hs {
		ss[i] = accWHash(h)
	}
	return strings.Join(ss, ",")
}

func accWList(ss []string) string {
	if len(ss) == 0 {
		return "-"
	}
	return strings.Join(ss, ";")
}

func accWBool(b bool) string {
	if b {
		return "1"
	}
	return "0"
}

func accWProofOnly(p []accHash) string {
	if len(p) == 0 {
		return ""
	}
	return accWHashes(p)
}

func accWLeaf(index uint64, l accLeaf, proof []accHash) string {
	return fmt.Sprintf("%d:%s:%s:%s", index, accWBool(l.Spent), accWHash(l.Elem), accWProofOnly(proof))
}

func accWNew(l accLeaf) string { return accWBool(l.Spent) + ":" + accWHash(l.Elem) }

func accWIdxProof(index uint64, proof []accHash) string {
	return fmt.Sprintf("%d:%s", index, accWHashes(proof))
}

type accIdxProof struct {
	idx   uint64
	proof []accHash
}

func accWIdxProofsSorted(ps []accIdxProof) string {
	sort.SliceStable(ps, func(i, j int) bool { return ps[i].idx < ps[j].idx })
	ss := make([]string, len(ps))
	for i, p := range ps {
		ss[i] = accWIdxProof(p.idx, p.proof)
	}
	return accWList(ss)
}
