package props

// C07P, v2 part: the `case *types.V2StorageProof` clause of validateV2FileContracts (height checks,
// history proof, leaf index, the "too few proof hashes" guard of fix a3a6e71, the root comparison)
// driven through the REAL consensus.ValidateBlock on a chain built by the shared simulator: a v2
// contract is formed with a Filesize and a FileMerkleRoot chosen here (the plain root of random file
// data, the zero hash, or garbage), the chain is advanced past its proof height, and storage-proof
// resolutions are validated against the tip. The challenged leaf index is whatever
// State.StorageProofLeafIndex derives. Oracle: the plain tree (c16ORoot / c07pPath); model: sp-verify2.

import (
	"encoding/hex"
	"fmt"
	"math"
	"math/rand"

	"go.sia.tech/core/consensus"
	"go.sia.tech/core/types"

	"verif/harness/internal/chain"
	"verif/harness/internal/fw"
)

func c07pV2(c *fw.Ctx, model func(op, out string)) {
	res := c.Res
	type spec struct {
		size uint64
		root string // "data" (plain root of random data), "zero", "garbage"
	}
	specs := []spec{{1, "data"}, {64, "data"}, {65, "data"}, {4096, "data"}, {200, "data"}, {64*5 + 1, "data"},
		{1, "zero"}, {64, "zero"}, {65, "zero"}, {4096, "zero"}, {math.MaxUint64, "zero"}, {math.MaxUint64, "garbage"},
		{4096, "garbage"}, {0, "zero"}}
	nRuns := c.Budget(len(specs), 4*len(specs))
	for run := 0; run < nRuns; run++ {
		sp := specs[run%len(specs)]
		if run >= len(specs) && sp.root == "data" {
			sp.size = 1 + uint64(c.Rng.Intn(3000))
		}
		seed := c.Seed*7000003 + int64(run)
		rng := rand.New(rand.NewSource(seed))
		// the file and its tree
		var file []byte
		var leaves [][64]byte
		var hs []c16H
		var root c16H
		switch sp.root {
		case "data":
			file = make([]byte, sp.size)
			rng.Read(file)
			leaves = c07pLeaves(file)
			hs = make([]c16H, len(leaves))
			for i := range leaves {
				hs[i] = c16OLeaf(leaves[i][:])
			}
			root = c16ORoot(hs)
		case "garbage":
			rng.Read(root[:])
		}
		s := chain.NewSim(rand.New(rand.NewSource(seed)), "v2")
		var id types.FileContractID
		var fcGot types.V2FileContract
		found := false
		for k := 0; k < 40 && !found; k++ {
			p := s.BuildBlock()
			for ti, t := range p.Block.V2Transactions() {
				if len(t.FileContracts) == 0 {
					continue
				}
				mb := chain.DeepCopyBlock(p.Block)
				mb.Timestamp = p.Block.Timestamp
				txn := &mb.V2.Transactions[ti]
				fc := &txn.FileContracts[0]
				fc.Filesize, fc.Capacity = sp.size, math.MaxUint64
				fc.FileMerkleRoot = types.Hash256(root)
				fc.ProofHeight = s.ChildHeight() + 1
				fc.ExpirationHeight = fc.ProofHeight + 6
				s.SignContract(fc, fc.RenterPublicKey, fc.HostPublicKey)
				if !s.ResignV2(txn) {
					continue
				}
				mb.V2.Transactions = mb.V2.Transactions[:ti+1]
				mb.Transactions = nil
				s.Seal(&mb, p.Miner)
				if _, err := s.Apply(mb, consensus.V1BlockSupplement{}); err != nil {
					res.Count("sp-v2:formation-rejected")
					continue
				}
				id, fcGot, found = txn.V2FileContractID(txn.ID(), 0), *fc, true
				break
			}
			if !found {
				if _, err := s.Apply(p.Block, p.Supp); err != nil {
					break
				}
			}
		}
		if !found {
			res.Count("sp-v2:no-contract")
			continue
		}
		miner := s.NewAddr(false)
		mk := func(txns ...types.V2Transaction) types.Block {
			b := types.Block{Timestamp: s.NextTimestamp(), V2: &types.V2BlockData{Transactions: txns}}
			s.Seal(&b, miner)
			return b
		}
		ok := true
		for s.ChildHeight() <= fcGot.ProofHeight && ok {
			if _, err := s.Apply(mk(), consensus.V1BlockSupplement{}); err != nil {
				ok = false
			}
		}
		e, live := s.St.V2FC[id]
		cie, have := s.St.CIE[fcGot.ProofHeight]
		if !ok || !live || !have {
			res.Count("sp-v2:lost")
			continue
		}
		var idx uint64
		if p, msg := fw.Recover(func() { idx = s.Tip.StorageProofLeafIndex(sp.size, cie.ChainIndex.ID, id) }); p {
			res.Violate(fw.Violation{Key: "c07p-v2-panic:StorageProofLeafIndex", What: fmt.Sprintf("StorageProofLeafIndex(%d) panicked: %s", sp.size, msg),
				Replay: map[string]any{"kind": "sp-v2", "filesize": sp.size, "seed": seed}, Expected: "an index", Observed: "panic: " + msg})
			continue
		}
		name := fmt.Sprintf("v2 size=%d root=%s index=%d", sp.size, sp.root, idx)
		res.Count("sp-v2:contract:" + sp.root)
		verdict := func(leaf [64]byte, proof []c16H) string {
			prf := make([]types.Hash256, len(proof))
			for i := range proof {
				prf[i] = types.Hash256(proof[i])
			}
			r := &types.V2StorageProof{ProofIndex: cie.Copy(), Leaf: leaf, Proof: prf}
			b := mk(types.V2Transaction{FileContractResolutions: []types.V2FileContractResolution{{Parent: e.Copy(), Resolution: r}}})
			var err error
			if p, msg := fw.Recover(func() { err = consensus.ValidateBlock(s.Tip, b, consensus.V1BlockSupplement{}) }); p {
				return "panic: " + msg
			}
			if err == nil {
				return "1"
			}
			return "0"
		}
		type tcase struct {
			what   string
			leaf   [64]byte
			proof  []c16H
			expect string // "1", "0", or "" (compare with the model only)
		}
		var cases []tcase
		var zeroLeaf [64]byte
		for _, n := range []int{0, 1, 2, 63, 64, 65} {
			exp := "0"
			if sp.size == 0 {
				exp = "" // empty file: accepted iff the root is the zero hash (sentinel) — compared with the model
			}
			cases = append(cases, tcase{fmt.Sprintf("garbage-zero-proof-%d", n), zeroLeaf, make([]c16H, n), exp})
		}
		if sp.root == "data" {
			i := int(idx)
			honest := c07pPath(hs, i)
			cases = append(cases, tcase{"honest", leaves[i], honest, "1"})
			bad := leaves[i]
			bad[rng.Intn(64)] ^= 1 << uint(rng.Intn(8))
			// StorageProofLeafHash hashes all 64 bytes of the submitted leaf: any flipped bit matters
			cases = append(cases, tcase{"leaf-byte", bad, honest, "0"})
			for j := range honest {
				cases = append(cases, tcase{"proof-hash", leaves[i], c16WithFlipped(honest, j, rng), "0"})
				cases = append(cases, tcase{"proof-shorter", leaves[i], c16Without(honest, j), "0"})
			}
			cases = append(cases, tcase{"proof-longer", leaves[i], append(c16CopyHashes(honest), c16RandHash(rng)), "0"})
			cases = append(cases, tcase{"proof-longer-front", leaves[i], c16InsertAt(honest, 0, c16RandHash(rng)), "0"})
			if len(honest) > 0 {
				cases = append(cases, tcase{"proof-empty", leaves[i], nil, "0"})
			}
			for j := range hs {
				if j != i && hs[j] != hs[i] {
					cases = append(cases, tcase{"other-index", leaves[j], c07pPath(hs, j), "0"})
				}
			}
		} else if sp.size > 0 && sp.size < 1<<20 {
			// the honest proof of SOME data of that size must not verify against a zero / garbage root
			f2 := make([]byte, sp.size)
			rng.Read(f2)
			l2 := c07pLeaves(f2)
			h2 := make([]c16H, len(l2))
			for i := range l2 {
				h2[i] = c16OLeaf(l2[i][:])
			}
			if int(idx) < len(h2) {
				cases = append(cases, tcase{"honest-proof-of-other-data", l2[idx], c07pPath(h2, int(idx)), "0"})
			}
		}
		for k, tc := range cases {
			got := verdict(tc.leaf, tc.proof)
			res.Eval(fmt.Sprintf("sp-%s %s %d seed %d", name, tc.what, k, seed), true)
			res.Count("sp-v2:case:" + tc.what + ":verdict-" + got)
			rep := map[string]any{"kind": "sp-v2", "seed": seed, "filesize": sp.size, "root_kind": sp.root, "root": c16Hex(root), "index": idx,
				"what": tc.what, "leaf": hex.EncodeToString(tc.leaf[:]), "proof": c16HexList(tc.proof)}
			if len(file) > 0 && len(file) <= 4096 {
				rep["file"] = hex.EncodeToString(file)
			}
			switch {
			case len(got) > 1: // panic
				res.Violate(fw.Violation{Key: "c07p-v2-panic:ValidateBlock", What: "ValidateBlock panicked on a v2 storage proof, " + name + " " + tc.what + ": " + got, Replay: rep, Expected: "accept or reject", Observed: got})
			case tc.expect == "1" && got != "1":
				res.Violate(fw.Violation{Key: "c07p-v2-honest-proof-rejected", What: "ValidateBlock rejects the honest v2 storage proof, " + name, Replay: rep, Expected: "1", Observed: got})
			case tc.expect == "0" && got != "0":
				key := "c07p-v2-accepts-corrupt:" + tc.what
				if sp.root != "data" {
					key = "c07p-v2-accepts-corrupt:" + sp.root + "-root"
				}
				res.Violate(fw.Violation{Key: key, What: fmt.Sprintf("ValidateBlock accepts a v2 storage proof that proves nothing (%s; contract root kind %q, %d proof hashes), %s", tc.what, sp.root, len(tc.proof), name), Replay: rep, Expected: "0", Observed: got})
			}
			if len(got) == 1 {
				model(fmt.Sprintf("sp-verify2 %d %d %s %s %s", idx, sp.size, hex.EncodeToString(tc.leaf[:]), c16HexList(tc.proof), c16Hex(root)), got)
			}
		}
	}
}
