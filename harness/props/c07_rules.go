package props

// C07R — every rejection rule of validateFileContracts / validateV2FileContracts (and the
// neighbouring value rules) exercised from the rejecting side: for each rule a mutant of a
// generated valid block that breaks exactly that rule and is otherwise consistent
// (re-balanced, contracts re-signed by the right parties, inputs re-signed, block re-sealed),
// so that removing or weakening the rule in core makes the mutant acceptable. The real
// ValidateBlock and the Lean ledger model must both reject it.
//
// Which rules exist was read from the source (statement coverage of validation.go by the
// ledger checks showed the rejecting branch of most of them was never taken).

import (
	"fmt"
	"math/rand"
	"regexp"
	"strings"

	"go.sia.tech/core/consensus"
	"go.sia.tech/core/types"

	"verif/harness/internal/chain"
	"verif/harness/internal/fw"
)

func init() { fw.Register("C07R", runC07R) }

var one = types.NewCurrency64(1)

func ruleMutants(s *chain.Sim, p chain.BlockPlan, rng *rand.Rand) []mutant {
	var out []mutant
	b := p.Block
	child := s.ChildHeight()
	add := func(kind string, f func(mb *types.Block, ms *consensus.V1BlockSupplement) bool) {
		mb, ms := chain.DeepCopyBlock(b), chain.CopySupp(p.Supp)
		if !f(&mb, &ms) {
			return
		}
		s.Seal(&mb, p.Miner)
		out = append(out, mutant{kind, mb, ms})
	}
	// ---------------------------------------------------------------- v1
	for i, t := range b.Transactions {
		i := i
		v1 := func(kind string, f func(txn *types.Transaction) bool) {
			add(kind, func(mb *types.Block, _ *consensus.V1BlockSupplement) bool {
				txn := &mb.Transactions[i]
				return f(txn) && s.ResignV1(txn)
			})
		}
		if len(t.FileContracts) > 0 {
			if child >= 1 {
				v1("v1-fc:window-start-past", func(txn *types.Transaction) bool {
					txn.FileContracts[0].WindowStart = child - 1
					return txn.FileContracts[0].WindowEnd > txn.FileContracts[0].WindowStart
				})
			}
			v1("v1-fc:window-end-not-after-start", func(txn *types.Transaction) bool {
				txn.FileContracts[0].WindowEnd = txn.FileContracts[0].WindowStart
				return true
			})
			if len(t.FileContracts[0].MissedProofOutputs) > 0 {
				v1("v1-fc:valid-ne-missed", func(txn *types.Transaction) bool {
					o := &txn.FileContracts[0].MissedProofOutputs[0]
					o.Value = o.Value.Add(one)
					return true
				})
			}
			if len(t.SiacoinOutputs) > 0 && t.SiacoinOutputs[0].Value.Cmp(types.NewCurrency64(20000)) > 0 {
				// payout raised, a siacoin output lowered by the same amount: inputs still equal outputs, only the tax equation breaks
				v1("v1-fc:payout-tax", func(txn *types.Transaction) bool {
					d := types.NewCurrency64(uint64(1 + rng.Intn(9999)))
					txn.FileContracts[0].Payout = txn.FileContracts[0].Payout.Add(d)
					txn.SiacoinOutputs[0].Value = txn.SiacoinOutputs[0].Value.Sub(d)
					return true
				})
			}
		}
		if len(t.FileContractRevisions) > 0 {
			if child >= 1 {
				v1("v1-rev:window-start-past", func(txn *types.Transaction) bool {
					fc := &txn.FileContractRevisions[0].FileContract
					fc.WindowStart = child - 1
					return fc.WindowEnd > fc.WindowStart
				})
			}
			v1("v1-rev:window-end-not-after-start", func(txn *types.Transaction) bool {
				fc := &txn.FileContractRevisions[0].FileContract
				fc.WindowEnd = fc.WindowStart
				return true
			})
			v1("v1-rev:revision-number-not-higher", func(txn *types.Transaction) bool {
				txn.FileContractRevisions[0].FileContract.RevisionNumber = 0
				return true
			})
			if len(t.FileContractRevisions[0].FileContract.ValidProofOutputs) > 0 {
				v1("v1-rev:valid-sum-changed", func(txn *types.Transaction) bool {
					o := &txn.FileContractRevisions[0].FileContract.ValidProofOutputs[0]
					o.Value = o.Value.Add(one)
					return true
				})
			}
			if len(t.FileContractRevisions[0].FileContract.MissedProofOutputs) > 0 {
				v1("v1-rev:missed-sum-changed", func(txn *types.Transaction) bool {
					o := &txn.FileContractRevisions[0].FileContract.MissedProofOutputs[0]
					o.Value = o.Value.Add(one)
					return true
				})
			}
			v1("v1-rev:foreign-unlock-conditions", func(txn *types.Transaction) bool {
				// somebody else's conditions, signed by their own key
				r := s.W.NewRecipeKind("uc1", child, s.NextTimestamp())
				if r.UC == nil || r.UC.UnlockHash() == txn.FileContractRevisions[0].UnlockConditions.UnlockHash() {
					return false
				}
				txn.FileContractRevisions[0].UnlockConditions = *r.UC
				return true
			})
		}
		if len(t.SiacoinOutputs) > 0 && len(t.StorageProofs) == 0 {
			v1("v1:zero-valued-output", func(txn *types.Transaction) bool {
				txn.SiacoinOutputs = append(txn.SiacoinOutputs, types.SiacoinOutput{Address: txn.SiacoinOutputs[0].Address})
				return true
			})
			v1("v1:zero-fee", func(txn *types.Transaction) bool {
				txn.MinerFees = append(txn.MinerFees, types.ZeroCurrency)
				return true
			})
		}
		if len(t.SiafundOutputs) > 0 {
			v1("v1:siafund-sum", func(txn *types.Transaction) bool {
				txn.SiafundOutputs[0].Value++
				return true
			})
		}
	}
	// ---------------------------------------------------------------- v2
	if b.V2 == nil {
		return out
	}
	revisedBefore := func(i int, id types.FileContractID) bool {
		for k := 0; k < i; k++ {
			for _, r := range b.V2.Transactions[k].FileContractRevisions {
				if r.Parent.ID == id {
					return true
				}
			}
		}
		return false
	}
	for i, t := range b.V2.Transactions {
		i := i
		if len(t.FileContracts) > 0 {
			fcm := func(kind string, f func(txn *types.V2Transaction, fc *types.V2FileContract) bool) {
				add(kind, func(mb *types.Block, _ *consensus.V1BlockSupplement) bool {
					txn := &mb.V2.Transactions[i]
					fc := &txn.FileContracts[0]
					if !f(txn, fc) {
						return false
					}
					s.SignContract(fc, fc.RenterPublicKey, fc.HostPublicKey)
					return s.ResignV2(txn)
				})
			}
			fcm("v2-fc:filesize-exceeds-capacity", func(_ *types.V2Transaction, fc *types.V2FileContract) bool {
				fc.Filesize = fc.Capacity + 1
				return true
			})
			if child >= 1 {
				fcm("v2-fc:proof-height-passed", func(_ *types.V2Transaction, fc *types.V2FileContract) bool {
					fc.ProofHeight = child - 1
					return fc.ExpirationHeight > fc.ProofHeight
				})
			}
			fcm("v2-fc:expiration-not-after-proof", func(_ *types.V2Transaction, fc *types.V2FileContract) bool {
				fc.ExpirationHeight = fc.ProofHeight
				return true
			})
			fcm("v2-fc:missed-host-exceeds-host", func(_ *types.V2Transaction, fc *types.V2FileContract) bool {
				fc.MissedHostValue = fc.HostOutput.Value.Add(one)
				return true
			})
			fcm("v2-fc:collateral-exceeds-host", func(_ *types.V2Transaction, fc *types.V2FileContract) bool {
				fc.TotalCollateral = fc.HostOutput.Value.Add(one)
				return true
			})
			if len(t.SiacoinOutputs) > 0 {
				fcm("v2-fc:zero-value", func(txn *types.V2Transaction, fc *types.V2FileContract) bool {
					freed := fc.RenterOutput.Value.Add(fc.HostOutput.Value).Add(s.Tip.V2FileContractTax(*fc))
					fc.RenterOutput.Value, fc.HostOutput.Value = types.ZeroCurrency, types.ZeroCurrency
					fc.MissedHostValue, fc.TotalCollateral = types.ZeroCurrency, types.ZeroCurrency
					txn.SiacoinOutputs[0].Value = txn.SiacoinOutputs[0].Value.Add(freed)
					return true
				})
			}
		}
		if len(t.FileContractRevisions) > 0 {
			// the contract as it stands when this revision is judged: the latest earlier revision in the block, else the parent
			cur := t.FileContractRevisions[0].Parent.V2FileContract
			inblock := revisedBefore(i, t.FileContractRevisions[0].Parent.ID)
			if inblock {
				for k := 0; k < i; k++ {
					for _, r := range b.V2.Transactions[k].FileContractRevisions {
						if r.Parent.ID == t.FileContractRevisions[0].Parent.ID {
							cur = r.Revision
						}
					}
				}
			}
			tag := ""
			if inblock {
				tag = ":after-inblock-revision"
			}
			rvm := func(kind string, f func(rev *types.V2FileContract) bool) {
				add(kind, func(mb *types.Block, _ *consensus.V1BlockSupplement) bool {
					// later revisions of the same contract in this block were signed against this one: drop them
					txn := &mb.V2.Transactions[i]
					rev := &txn.FileContractRevisions[0].Revision
					if !f(rev) {
						return false
					}
					s.SignContract(rev, cur.RenterPublicKey, cur.HostPublicKey)
					return true
				})
			}
			if cur.Capacity > 0 {
				rvm("v2-rev:capacity-decreased"+tag, func(rev *types.V2FileContract) bool {
					rev.Capacity = cur.Capacity - 1
					if rev.Filesize > rev.Capacity {
						rev.Filesize = rev.Capacity
					}
					return true
				})
			}
			rvm("v2-rev:filesize-exceeds-capacity"+tag, func(rev *types.V2FileContract) bool {
				rev.Filesize = rev.Capacity + 1
				return true
			})
			rvm("v2-rev:revision-number-not-increased"+tag, func(rev *types.V2FileContract) bool {
				rev.RevisionNumber = cur.RevisionNumber
				return true
			})
			rvm("v2-rev:output-sum-changed"+tag, func(rev *types.V2FileContract) bool {
				rev.RenterOutput.Value = rev.RenterOutput.Value.Add(one)
				return true
			})
			rvm("v2-rev:missed-host-raised"+tag, func(rev *types.V2FileContract) bool {
				rev.MissedHostValue = cur.MissedHostValue.Add(one)
				return rev.MissedHostValue.Cmp(rev.HostOutput.Value) <= 0
			})
			if child >= s.Net.HardforkV2.EphemeralOutputHeight {
				rvm("v2-rev:missed-host-exceeds-host"+tag, func(rev *types.V2FileContract) bool {
					if rev.MissedHostValue.IsZero() || rev.MissedHostValue.Cmp(cur.MissedHostValue) > 0 {
						return false
					}
					newHost := rev.MissedHostValue.Sub(one)
					total := rev.RenterOutput.Value.Add(rev.HostOutput.Value)
					rev.HostOutput.Value = newHost
					rev.RenterOutput.Value = total.Sub(newHost)
					return true
				})
			}
			rvm("v2-rev:collateral-changed"+tag, func(rev *types.V2FileContract) bool {
				rev.TotalCollateral = cur.TotalCollateral.Add(one)
				return true
			})
			if child >= 1 {
				rvm("v2-rev:proof-height-passed"+tag, func(rev *types.V2FileContract) bool {
					rev.ProofHeight = child - 1
					return rev.ExpirationHeight > rev.ProofHeight
				})
			}
			rvm("v2-rev:expiration-not-after-proof"+tag, func(rev *types.V2FileContract) bool {
				rev.ExpirationHeight = rev.ProofHeight
				return true
			})
		}
		for j, res := range t.FileContractResolutions {
			j := j
			rn, ok := res.Resolution.(*types.V2FileContractRenewal)
			if !ok {
				continue
			}
			old := res.Parent.V2FileContract
			rnm := func(kind string, f func(rn *types.V2FileContractRenewal) bool) {
				add(kind, func(mb *types.Block, _ *consensus.V1BlockSupplement) bool {
					txn := &mb.V2.Transactions[i]
					r := txn.FileContractResolutions[j].Resolution.(*types.V2FileContractRenewal)
					if !f(r) {
						return false
					}
					s.SignContract(&r.NewContract, r.NewContract.RenterPublicKey, r.NewContract.HostPublicKey)
					r.RenterSignature, r.HostSignature = types.Signature{}, types.Signature{}
					h := s.Tip.RenewalSigHash(*r)
					r.RenterSignature = s.KeyFor(old.RenterPublicKey).SignHash(h)
					r.HostSignature = s.KeyFor(old.HostPublicKey).SignHash(h)
					return s.ResignV2(txn)
				})
			}
			_ = rn
			rnm("v2-renew:renter-key-changed", func(r *types.V2FileContractRenewal) bool {
				for _, k := range s.W.Keys {
					if k.PublicKey() != old.RenterPublicKey {
						r.NewContract.RenterPublicKey = k.PublicKey()
						return true
					}
				}
				return false
			})
			rnm("v2-renew:host-key-changed", func(r *types.V2FileContractRenewal) bool {
				for _, k := range s.W.Keys {
					if k.PublicKey() != old.HostPublicKey {
						r.NewContract.HostPublicKey = k.PublicKey()
						return true
					}
				}
				return false
			})
			rnm("v2-renew:payout-mismatch", func(r *types.V2FileContractRenewal) bool {
				r.FinalRenterOutput.Value = r.FinalRenterOutput.Value.Add(one)
				return true
			})
			rnm("v2-renew:new-contract-filesize-exceeds-capacity", func(r *types.V2FileContractRenewal) bool {
				r.NewContract.Filesize = r.NewContract.Capacity + 1
				return true
			})
			rnm("v2-renew:new-contract-missed-host-exceeds-host", func(r *types.V2FileContractRenewal) bool {
				r.NewContract.MissedHostValue = r.NewContract.HostOutput.Value.Add(one)
				return true
			})
		}
		if len(t.SiacoinInputs) > 0 {
			add("v2:zero-valued-siafund-output", func(mb *types.Block, _ *consensus.V1BlockSupplement) bool {
				txn := &mb.V2.Transactions[i]
				txn.SiafundOutputs = append(txn.SiafundOutputs, types.SiafundOutput{Address: txn.SiacoinInputs[0].Parent.SiacoinOutput.Address})
				return s.ResignV2(txn)
			})
			add("v2:zero-valued-siacoin-output", func(mb *types.Block, _ *consensus.V1BlockSupplement) bool {
				txn := &mb.V2.Transactions[i]
				txn.SiacoinOutputs = append(txn.SiacoinOutputs, types.SiacoinOutput{Address: txn.SiacoinInputs[0].Parent.SiacoinOutput.Address})
				return s.ResignV2(txn)
			})
		}
		if len(t.SiafundOutputs) > 0 && len(t.SiafundInputs) > 0 {
			add("v2:siafund-sum", func(mb *types.Block, _ *consensus.V1BlockSupplement) bool {
				txn := &mb.V2.Transactions[i]
				txn.SiafundOutputs[0].Value++
				return s.ResignV2(txn)
			})
		}
		if len(t.Attestations) > 0 {
			add("v2:attestation-empty-key", func(mb *types.Block, _ *consensus.V1BlockSupplement) bool {
				txn := &mb.V2.Transactions[i]
				a := &txn.Attestations[0]
				a.Key = ""
				a.Signature = s.KeyFor(a.PublicKey).SignHash(s.Tip.AttestationSigHash(*a))
				return s.ResignV2(txn)
			})
		}
	}
	return out
}

var ruleWhyNum = regexp.MustCompile(`[0-9a-f]{16,}|[0-9]+(\.[0-9]+)?( [a-zA-Z]?[SH]\b| SC| SF)?`)

// ruleWhy canonicalises a rejection message (numbers and ids removed) for the distribution.
func ruleWhy(e string) string {
	if i := strings.Index(e, "is invalid: "); i >= 0 {
		e = e[i+len("is invalid: "):]
	}
	e = ruleWhyNum.ReplaceAllString(e, "#")
	if len(e) > 90 {
		e = e[:90]
	}
	return e
}

func runC07R(c *fw.Ctx) {
	res := c.Res
	res.Rule = "for every block of random valid chains, for each rejection rule of validateFileContracts / validateV2FileContracts and the zero-value / siafund-sum / attestation-key rules that the block's transactions can break: one mutant breaking exactly that rule, re-balanced, contracts and renewals re-signed by the right parties, inputs re-signed, block re-sealed; the real ValidateBlock and the Lean ledger model must reject it"
	nChains := c.Budget(16, 600)
	blocks := c.Budget(45, 70)
	var ops, outs []string
	for i := 0; i < nChains; i++ {
		mode := ledgerModes[i%len(ledgerModes)]
		seed := c.Seed*9000011 + int64(i)
		s := chain.NewSim(rand.New(rand.NewSource(seed)), mode)
		ab := chain.NewAbstractor(s)
		mrng := rand.New(rand.NewSource(seed ^ 0xc07))
		for k := 0; k < blocks; k++ {
			p := s.BuildBlock()
			height := s.ChildHeight()
			for _, m := range ruleMutants(s, p, mrng) {
				rp := map[string]any{"mode": mode, "seed": seed, "height": height, "rule": m.kind, "block": fw.Hex(encodeBlockFull(m.block))}
				var err error
				panicked, msg := fw.Recover(func() { err = consensus.ValidateBlock(s.Tip, m.block, m.supp) })
				res.Eval(fmt.Sprintf("R/%s/%d/%d/%s/%x", mode, seed, height, m.kind, m.block.ID()), true)
				res.Count("rule:" + m.kind)
				switch {
				case panicked:
					res.Violate(fw.Violation{Key: "c10-validate-panic:rule-" + m.kind, What: "panic on a rule-breaking block: " + msg, Replay: rp})
				case err == nil:
					res.Violate(fw.Violation{Key: "c07-rule-not-enforced:" + m.kind, What: "ValidateBlock accepted a block that breaks the rule " + m.kind + " (everything else consistent and re-signed)", Replay: rp, Expected: "rejected", Observed: "accepted"})
				default:
					res.Count("rule-why:" + m.kind + ":" + ruleWhy(err.Error()))
					if c.Model != nil {
						ops = append(ops, "ledger-block "+ab.Abstract(m.block, m.supp))
						outs = append(outs, "reject")
					}
				}
			}
			if _, err := s.Apply(p.Block, p.Supp); err != nil {
				res.Note("generator produced a rejected block (%s seed %d height %d): %v", mode, seed, height, err)
				res.Count("generator-rejected")
				break
			}
		}
	}
	if len(ops) > 0 {
		c.Compare(ops, outs)
	}
}
