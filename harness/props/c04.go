package props

// C04 — Accumulator membership is sound.
//
// The REAL containsLeaf (and the element-typed contains* checks used by validation)
// is asked about
//   - every genuine leaf of states reached through applyBlock/revertBlock (must be
//     accepted with its current spent flag), and
//   - every single mutation of it: each element-hash bit, other leaf indices, the
//     spent flag, each proof hash, proof length -1/+1, another leaf's proof or
//     position, never-created elements, leaves of reverted branches (must be rejected);
//   - typed elements of all six kinds with every field altered (reflection sweep).
// Oracle: the statement itself (genuine <-> accepted), with the naive forest confirming
// that the "genuine" proofs are the true Merkle paths. Correspondence: the Lean model's
// containsLeaf (acc-contains) on the same questions.

import (
	"encoding/json"
	"fmt"
	"reflect"

	"go.sia.tech/core/consensus"
	"go.sia.tech/core/types"
	"verif/harness/internal/fw"
)

func init() { fw.Register("C04", runC04) }

type c04Query struct {
	kind  string
	index uint64
	leaf  accLeaf
	proof []accHash
	want  bool
}

type c04Run struct {
	c    *fw.Ctx
	ops  []string
	outs []string
}

func (r *c04Run) ask(acc *consensus.ElementAccumulator, q c04Query, replay any, toModel bool) {
	res := r.c.Res
	vl := consensus.VerifLeaf{SE: &types.StateElement{LeafIndex: q.index, MerkleProof: q.proof}, ElementHash: q.leaf.Elem, Spent: q.leaf.Spent}
	var got bool
	if p, msg := fw.Recover(func() { got = acc.VerifContainsLeaf(vl) }); p {
		if len(q.proof) < 64 {
			res.Violate(fw.Violation{Key: "c04-panic:" + q.kind, What: "containsLeaf panicked: " + msg, Replay: replay})
		}
		return
	}
	res.Eval(fmt.Sprintf("%s %d %v %x %s", q.kind, q.index, q.leaf.Spent, q.leaf.Elem, accWHashes(q.proof)), true)
	res.Count("query:" + q.kind)
	if got && !q.want {
		res.Violate(fw.Violation{Key: "c04-accepts-mutant:" + q.kind, What: fmt.Sprintf("containsLeaf accepts a leaf that was never created in this form (%s, index %d)", q.kind, q.index),
			Replay: replay, Expected: "rejected", Observed: "accepted"})
	}
	if !got && q.want {
		res.Violate(fw.Violation{Key: "c04-rejects-genuine:" + q.kind, What: fmt.Sprintf("containsLeaf rejects a genuine live leaf (index %d)", q.index),
			Replay: replay, Expected: "accepted", Observed: "rejected"})
	}
	if toModel && r.c.Model != nil && len(q.proof) < 64 {
		r.ops = append(r.ops, fmt.Sprintf("acc-contains %d %s %s", acc.NumLeaves, accWHashes(accRoots(acc)), accWLeaf(q.index, q.leaf, q.proof)))
		r.outs = append(r.outs, accWBool(got))
	}
}

func c04FlipBit(h accHash, bit int) accHash {
	h[bit/8] ^= 1 << uint(bit%8)
	return h
}

// c04Sweep asks about leaf j of the tracked state and all its single c04Mutations.
func (r *c04Run) sweep(st *c05Base, j int, allBits bool, replay any) {
	c := r.c
	acc := &st.acc
	n := len(st.leaves)
	l, proof := st.leaves[j], st.proofs[j]
	idx := uint64(j)
	sample := func(p int) bool { return c.Rng.Intn(p) == 0 }
	r.ask(acc, c04Query{"genuine", idx, l, proof, true}, replay, true)
	// spent flag: the leaf must not verify with the other status
	kind := "spent-flag"
	if l.Spent {
		kind = "spent-as-unspent"
	}
	r.ask(acc, c04Query{kind, idx, accLeaf{l.Elem, !l.Spent}, proof, false}, replay, true)
	// element hash bits
	for b := 0; b < 256; b++ {
		if allBits || b == 0 || b == 255 || sample(16) {
			r.ask(acc, c04Query{"elem-bit", idx, accLeaf{c04FlipBit(l.Elem, b), l.Spent}, proof, false}, replay, sample(8))
		}
	}
	// never-created element at a genuine position
	r.ask(acc, c04Query{"never-created", idx, accLeaf{accElemFor("ghost", j, n), l.Spent}, proof, false}, replay, sample(4))
	// leaf index
	tryIdx := map[uint64]bool{types.UnassignedLeafIndex: true, idx + uint64(1)<<uint(len(proof)): true, idx + uint64(1)<<63: true, ^uint64(0): true}
	for i := 0; i < n+4; i++ {
		tryIdx[uint64(i)] = true
	}
	for b := 0; b < 64; b++ {
		tryIdx[idx^(1<<uint(b))] = true
	}
	for i := range tryIdx {
		if i != idx && (n <= 16 || i > uint64(n) || sample(4)) {
			r.ask(acc, c04Query{"index", i, l, proof, false}, replay, sample(8))
		}
	}
	// proof hashes
	for k := range proof {
		p := accCloneProof(proof)
		p[k] = c04FlipBit(p[k], c.Rng.Intn(256))
		r.ask(acc, c04Query{"proof-hash", idx, l, p, false}, replay, sample(4))
		p = accCloneProof(proof)
		p[k] = accHash{}
		r.ask(acc, c04Query{"proof-hash", idx, l, p, false}, replay, false)
		if k+1 < len(proof) && proof[k] != proof[k+1] {
			p = accCloneProof(proof)
			p[k], p[k+1] = p[k+1], p[k]
			r.ask(acc, c04Query{"proof-swap", idx, l, p, false}, replay, sample(4))
		}
	}
	// proof length
	if len(proof) > 0 {
		r.ask(acc, c04Query{"proof-len-1", idx, l, proof[:len(proof)-1], false}, replay, sample(2))
		r.ask(acc, c04Query{"proof-len-1", idx, l, proof[1:], false}, replay, sample(2))
	}
	for _, extra := range []accHash{{}, acc.Trees[len(proof)], l.hashAt(j)} {
		r.ask(acc, c04Query{"proof-len+1", idx, l, append(accCloneProof(proof), extra), false}, replay, sample(2))
		r.ask(acc, c04Query{"proof-len+1", idx, l, append([]accHash{extra}, proof...), false}, replay, sample(2))
	}
	if len(proof) > 0 {
		r.ask(acc, c04Query{"proof-len+1", idx, l, append(accCloneProof(proof), proof[len(proof)-1]), false}, replay, false)
	}
	// another leaf's proof / position
	for o := 0; o < n; o++ {
		if o == j || (n > 16 && !sample(n/8)) {
			continue
		}
		if !accEqProof(st.proofs[o], proof) {
			r.ask(acc, c04Query{"other-proof", idx, l, st.proofs[o], false}, replay, sample(8))
		}
		r.ask(acc, c04Query{"other-position", uint64(o), l, st.proofs[o], false}, replay, sample(8))
	}
}

// c04Small: exhaustive small states (every n, a spread of update masks and growths),
// full sweep of every leaf.
func (r *c04Run) small() {
	c := r.c
	maxN := c.Budget(8, 12)
	for n := 1; n <= maxN; n++ {
		base, err := c05Build("c04", n)
		if err != nil {
			c.Res.Violate(fw.Violation{Key: "c04-panic:build", What: err.Error()})
			continue
		}
		masks := []uint32{0, 1, 1 << uint(n-1), (1 << uint(n)) - 1, uint32(c.Rng.Intn(1 << uint(n))), uint32(c.Rng.Intn(1 << uint(n)))}
		for mi, mask := range masks {
			for _, k := range []int{0, 1, c.Rng.Intn(5)} {
				sc := c05Scenario{Kind: "scenario", N: n, Mask: mask, K: k}
				st := &c05Base{acc: base.acc, leaves: append([]accLeaf(nil), base.leaves...), proofs: base.proofs}
				undo, _, _, ok := c05Apply(c.Res, st, sc.block(base), nil, sc)
				if !ok {
					continue
				}
				c.Res.Count(fmt.Sprintf("small:n=%02d", len(st.leaves)))
				for j := range st.leaves {
					r.sweep(st, j, c.Thorough() && mi < 2, sc)
				}
				// leaves of the reverted branch: revert, then ask the parent state
				child := &c05Base{acc: st.acc, leaves: append([]accLeaf(nil), st.leaves...), proofs: st.proofs}
				if _, _, ok := c05Revert(c.Res, st, undo, nil, sc); ok {
					r.reverted(st, child, undo, sc)
				}
			}
		}
	}
}

// reverted: after reverting `undo`, the elements created or rewritten by the reverted
// block must be rejected by the parent accumulator, in every form a holder could have.
func (r *c04Run) reverted(parent, child *c05Base, undo *c05Undo, replay any) {
	acc := &parent.acc
	n := undo.numLeaves
	for j := n; j < len(child.leaves); j++ { // created by the reverted block
		r.ask(acc, c04Query{"reverted-created", uint64(j), child.leaves[j], child.proofs[j], false}, replay, true)
		if h := len(child.proofs[j]); h > 0 {
			r.ask(acc, c04Query{"reverted-created", uint64(j), child.leaves[j], child.proofs[j][:h-1], false}, replay, false)
		}
		if n > 0 { // with a proof that is valid in the parent
			o := r.c.Rng.Intn(n)
			r.ask(acc, c04Query{"reverted-created", uint64(j), child.leaves[j], parent.proofs[o], false}, replay, false)
			r.ask(acc, c04Query{"reverted-created", uint64(o), child.leaves[j], parent.proofs[o], false}, replay, false)
		}
	}
	for k, i := range undo.block.Updated { // rewritten by the reverted block
		nl := undo.block.NewLeaf[k]
		if nl == parent.leaves[i] {
			continue
		}
		r.ask(acc, c04Query{"reverted-updated", uint64(i), nl, child.proofs[i], false}, replay, true)
		r.ask(acc, c04Query{"reverted-updated", uint64(i), nl, parent.proofs[i], false}, replay, true)
		// and the restored element is live again
		r.ask(acc, c04Query{"genuine-restored", uint64(i), parent.leaves[i], parent.proofs[i], true}, replay, true)
	}
}

// c04Histories: random histories with reorgs; sweep a sample of leaves after each step,
// and keep asking about everything that was reverted.
func (r *c04Run) histories() {
	c := r.c
	histories := c.Budget(10, 120)
	steps := c.Budget(25, 80)
	serial := 0
	for hi := 0; hi < histories; hi++ {
		st, err := c05Build(fmt.Sprintf("c04h%d", hi), c.Rng.Intn(200))
		if err != nil {
			continue
		}
		type ghost struct {
			q c04Query
		}
		var ghosts []ghost
		var stack []*c05Undo
		var children []*c05Base
		for s := 0; s < steps; s++ {
			replay := map[string]any{"kind": "history", "seed": c.Seed, "history": hi, "step": s}
			if len(stack) > 0 && c.Rng.Intn(3) == 0 {
				depth := 1 + c.Rng.Intn(len(stack))
				for d := 0; d < depth; d++ {
					undo, child := stack[len(stack)-1], children[len(children)-1]
					stack, children = stack[:len(stack)-1], children[:len(children)-1]
					if _, _, ok := c05Revert(c.Res, st, undo, nil, replay); !ok {
						return
					}
					r.reverted(st, child, undo, replay)
					for j := undo.numLeaves; j < len(child.leaves) && j < undo.numLeaves+3; j++ {
						ghosts = append(ghosts, ghost{c04Query{"reverted-created-later", uint64(j), child.leaves[j], child.proofs[j], false}})
					}
				}
				c.Res.Count("history:revert-depth=" + c05Bucket(depth))
			} else {
				blk := c05RandomBlock(c, st, &serial)
				undo, _, _, ok := c05Apply(c.Res, st, blk, nil, replay)
				if !ok {
					return
				}
				stack = append(stack, undo)
				children = append(children, &c05Base{acc: st.acc, leaves: append([]accLeaf(nil), st.leaves...), proofs: st.proofs})
			}
			c.Res.Count("history:leaves=" + c05Bucket(len(st.leaves)))
			for x := 0; x < 4 && len(st.leaves) > 0; x++ {
				r.sweep(st, c.Rng.Intn(len(st.leaves)), false, replay)
			}
			// everything ever reverted stays rejected (fresh element hashes never recur)
			for _, g := range ghosts {
				if int(g.q.index) < len(st.leaves) && st.leaves[g.q.index] == g.q.leaf {
					continue
				}
				r.ask(&st.acc, g.q, replay, false)
			}
		}
	}
}

// ---------------------------------------------------------------- typed elements

// c04Mutations returns copies of v (a struct value) with exactly one settable leaf field
// altered, labelled by field path. Fields named StateElement are skipped (index and
// proof are mutated separately).
func c04Mutations(v any) (out []struct {
	path string
	val  any
}) {
	var walk func(root reflect.Value, cur reflect.Value, path string)
	emit := func(root reflect.Value, path string) {
		cp := reflect.New(root.Type()).Elem()
		cp.Set(root)
		out = append(out, struct {
			path string
			val  any
		}{path, c04DeepCopy(cp).Interface()})
	}
	walk = func(root, cur reflect.Value, path string) {
		if !cur.CanSet() {
			return
		}
		switch cur.Kind() {
		case reflect.Struct:
			for i := 0; i < cur.NumField(); i++ {
				f := cur.Type().Field(i)
				if f.Name == "StateElement" || !f.IsExported() {
					continue
				}
				walk(root, cur.Field(i), path+"."+f.Name)
			}
		case reflect.Uint64, reflect.Uint8, reflect.Uint32, reflect.Int, reflect.Int64:
			old := reflect.New(cur.Type()).Elem()
			old.Set(cur)
			if cur.CanUint() {
				cur.SetUint(cur.Uint() + 1)
			} else {
				cur.SetInt(cur.Int() + 1)
			}
			emit(root, path)
			cur.Set(old)
		case reflect.Bool:
			cur.SetBool(!cur.Bool())
			emit(root, path)
			cur.SetBool(!cur.Bool())
		case reflect.String:
			old := cur.String()
			cur.SetString(old + "x")
			emit(root, path)
			cur.SetString(old)
		case reflect.Array:
			if cur.Type().Elem().Kind() == reflect.Uint8 && cur.Len() > 0 {
				for _, pos := range []int{0, cur.Len() - 1} {
					b := cur.Index(pos)
					b.SetUint(b.Uint() ^ 0x80)
					emit(root, fmt.Sprintf("%s[%d]", path, pos))
					b.SetUint(b.Uint() ^ 0x80)
				}
			} else {
				for i := 0; i < cur.Len(); i++ {
					walk(root, cur.Index(i), fmt.Sprintf("%s[%d]", path, i))
				}
			}
		case reflect.Slice:
			old := reflect.New(cur.Type()).Elem()
			old.Set(cur)
			// one element more
			cur.Set(reflect.Append(cur, reflect.Zero(cur.Type().Elem())))
			emit(root, path+"(+1)")
			cur.Set(old)
			if cur.Len() > 0 {
				cur.Set(cur.Slice(0, cur.Len()-1))
				emit(root, path+"(-1)")
				cur.Set(old)
				cp := reflect.MakeSlice(cur.Type(), cur.Len(), cur.Len())
				reflect.Copy(cp, cur)
				cur.Set(cp)
				for i := 0; i < cur.Len(); i++ {
					walk(root, cur.Index(i), fmt.Sprintf("%s[%d]", path, i))
				}
				cur.Set(old)
			}
		}
	}
	root := reflect.New(reflect.TypeOf(v)).Elem()
	root.Set(reflect.ValueOf(v))
	walk(root, root, "")
	return
}

// c04DeepCopy clones slices so that emitted mutants do not alias the value being walked.
func c04DeepCopy(v reflect.Value) reflect.Value {
	switch v.Kind() {
	case reflect.Struct:
		cp := reflect.New(v.Type()).Elem()
		cp.Set(v)
		for i := 0; i < v.NumField(); i++ {
			if cp.Field(i).CanSet() {
				cp.Field(i).Set(c04DeepCopy(v.Field(i)))
			}
		}
		return cp
	case reflect.Slice:
		if v.IsNil() {
			return v
		}
		cp := reflect.MakeSlice(v.Type(), v.Len(), v.Len())
		for i := 0; i < v.Len(); i++ {
			cp.Index(i).Set(c04DeepCopy(v.Index(i)))
		}
		return cp
	default:
		return v
	}
}

func (r *c04Run) rndHash() (h accHash) { r.c.Rng.Read(h[:]); return }
func (r *c04Run) rndCur() types.Currency {
	return types.NewCurrency(r.c.Rng.Uint64(), uint64(r.c.Rng.Intn(1<<20)))
}

// typed builds an accumulator out of real elements of all six kinds and checks the
// element-level membership functions used by validation.
func (r *c04Run) typed() {
	c := r.c
	res := c.Res
	rounds := c.Budget(6, 80)
	for round := 0; round < rounds; round++ {
		per := 1 + c.Rng.Intn(4)
		var sces []types.SiacoinElement
		var sfes []types.SiafundElement
		var fces []types.FileContractElement
		var v2s []types.V2FileContractElement
		var aes []types.AttestationElement
		var cies []types.ChainIndexElement
		unassigned := types.StateElement{LeafIndex: types.UnassignedLeafIndex}
		for i := 0; i < per; i++ {
			sces = append(sces, types.SiacoinElement{ID: types.SiacoinOutputID(r.rndHash()), StateElement: unassigned,
				SiacoinOutput: types.SiacoinOutput{Value: r.rndCur(), Address: types.Address(r.rndHash())}, MaturityHeight: c.Rng.Uint64() >> 30})
			sfes = append(sfes, types.SiafundElement{ID: types.SiafundOutputID(r.rndHash()), StateElement: unassigned,
				SiafundOutput: types.SiafundOutput{Value: uint64(c.Rng.Intn(10000)), Address: types.Address(r.rndHash())}, ClaimStart: r.rndCur()})
			fces = append(fces, types.FileContractElement{ID: types.FileContractID(r.rndHash()), StateElement: unassigned,
				FileContract: types.FileContract{Filesize: c.Rng.Uint64() >> 20, FileMerkleRoot: r.rndHash(), WindowStart: uint64(c.Rng.Intn(1000)), WindowEnd: uint64(1000 + c.Rng.Intn(1000)),
					Payout: r.rndCur(), ValidProofOutputs: []types.SiacoinOutput{{Value: r.rndCur(), Address: types.Address(r.rndHash())}, {Value: r.rndCur(), Address: types.Address(r.rndHash())}},
					MissedProofOutputs: []types.SiacoinOutput{{Value: r.rndCur(), Address: types.Address(r.rndHash())}},
					UnlockHash:         types.Address(r.rndHash()), RevisionNumber: uint64(c.Rng.Intn(100))}})
			var sig1, sig2 types.Signature
			c.Rng.Read(sig1[:])
			c.Rng.Read(sig2[:])
			v2s = append(v2s, types.V2FileContractElement{ID: types.FileContractID(r.rndHash()), StateElement: unassigned,
				V2FileContract: types.V2FileContract{Capacity: c.Rng.Uint64() >> 20, Filesize: c.Rng.Uint64() >> 24, FileMerkleRoot: r.rndHash(), ProofHeight: uint64(c.Rng.Intn(1000)), ExpirationHeight: uint64(1000 + c.Rng.Intn(100)),
					RenterOutput: types.SiacoinOutput{Value: r.rndCur(), Address: types.Address(r.rndHash())}, HostOutput: types.SiacoinOutput{Value: r.rndCur(), Address: types.Address(r.rndHash())},
					MissedHostValue: r.rndCur(), TotalCollateral: r.rndCur(), RenterPublicKey: types.PublicKey(r.rndHash()), HostPublicKey: types.PublicKey(r.rndHash()),
					RevisionNumber: uint64(c.Rng.Intn(100)), RenterSignature: sig1, HostSignature: sig2}})
			aes = append(aes, types.AttestationElement{ID: types.AttestationID(r.rndHash()), StateElement: unassigned,
				Attestation: types.Attestation{PublicKey: types.PublicKey(r.rndHash()), Key: fmt.Sprintf("key%d", c.Rng.Intn(100)), Value: []byte{byte(c.Rng.Intn(256)), 2, 3}, Signature: sig1}})
			bid := types.BlockID(r.rndHash())
			cies = append(cies, types.ChainIndexElement{ID: bid, StateElement: unassigned, ChainIndex: types.ChainIndex{Height: uint64(c.Rng.Intn(1 << 20)), ID: bid}})
		}
		// some filler leaves first so that positions and tree shapes vary
		var acc consensus.ElementAccumulator
		var filler []consensus.VerifLeaf
		for i := 0; i < c.Rng.Intn(20); i++ {
			filler = append(filler, accMkVerifLeaf(accLeaf{Elem: accElemFor("filler", round, i)}, types.UnassignedLeafIndex, nil))
		}
		acc.VerifAddLeaves(filler)
		var batch []consensus.VerifLeaf
		// some elements are added in their spent/resolved form
		spentSC, spentSF, resFC, resV2 := c.Rng.Intn(per), c.Rng.Intn(per), c.Rng.Intn(per), c.Rng.Intn(per)
		for i := range sces {
			batch = append(batch, consensus.VerifSiacoinLeaf(&sces[i], i == spentSC))
			batch = append(batch, consensus.VerifSiafundLeaf(&sfes[i], i == spentSF))
			batch = append(batch, consensus.VerifFileContractLeaf(&fces[i], nil, i == resFC))
			batch = append(batch, consensus.VerifV2FileContractLeaf(&v2s[i], nil, i == resV2))
			batch = append(batch, consensus.VerifAttestationLeaf(&aes[i]))
			batch = append(batch, consensus.VerifChainIndexLeaf(&cies[i]))
		}
		if p, msg := fw.Recover(func() { acc.VerifAddLeaves(batch) }); p {
			res.Violate(fw.Violation{Key: "c04-panic:build", What: "addLeaves panicked on typed elements: " + msg})
			continue
		}
		expect := func(kind, path string, got, want bool) {
			res.Eval(fmt.Sprintf("typed %d %s %s", round, kind, path), true)
			res.Count("typed:" + kind)
			if got && !want {
				key := "c04-accepts-mutant:field:" + kind + path
				if len(path) > 0 && path[0] == '(' {
					key = "c04-accepts-wrong-status:" + kind + path
				}
				res.Violate(fw.Violation{Key: key, What: fmt.Sprintf("%s element with altered %s is accepted as a member", kind, path),
					Replay: map[string]any{"kind": "typed", "seed": c.Seed, "round": round, "element": kind, "field": path}, Expected: "rejected", Observed: "accepted"})
			}
			if !got && want {
				res.Violate(fw.Violation{Key: "c04-rejects-genuine:" + kind, What: fmt.Sprintf("genuine %s element is rejected (%s)", kind, path),
					Replay: map[string]any{"kind": "typed", "seed": c.Seed, "round": round, "element": kind}, Expected: "accepted", Observed: "rejected"})
			}
		}
		for i := range sces {
			e := sces[i]
			spent := i == spentSC
			expect("siacoin", "(unspent query)", acc.VerifContainsUnspentSiacoinElement(e.Share()), !spent)
			expect("siacoin", "(spent query)", acc.VerifContainsSpentSiacoinElement(e.Share()), spent)
			for _, m := range c04Mutations(e) {
				me := m.val.(types.SiacoinElement)
				expect("siacoin", m.path, acc.VerifContainsUnspentSiacoinElement(me) || acc.VerifContainsSpentSiacoinElement(me), false)
			}
			me := e.Copy()
			me.StateElement.LeafIndex ^= 1
			expect("siacoin", ".StateElement.LeafIndex", acc.VerifContainsUnspentSiacoinElement(me) || acc.VerifContainsSpentSiacoinElement(me), false)
		}
		for i := range sfes {
			e := sfes[i]
			spent := i == spentSF
			expect("siafund", "(unspent query)", acc.VerifContainsUnspentSiafundElement(e.Share()), !spent)
			expect("siafund", "(spent query)", acc.VerifContainsSpentSiafundElement(e.Share()), spent)
			for _, m := range c04Mutations(e) {
				me := m.val.(types.SiafundElement)
				expect("siafund", m.path, acc.VerifContainsUnspentSiafundElement(me) || acc.VerifContainsSpentSiafundElement(me), false)
			}
		}
		for i := range fces {
			e := fces[i]
			expect("filecontract", "(unresolved query)", acc.VerifContainsUnresolvedFileContractElement(e.Share()), i != resFC)
			for _, m := range c04Mutations(e) {
				expect("filecontract", m.path, acc.VerifContainsUnresolvedFileContractElement(m.val.(types.FileContractElement)), false)
			}
		}
		for i := range v2s {
			e := v2s[i]
			expect("v2filecontract", "(unresolved query)", acc.VerifContainsUnresolvedV2FileContractElement(e.Share()), i != resV2)
			expect("v2filecontract", "(resolved query)", acc.VerifContainsResolvedV2FileContractElement(e.Share()), i == resV2)
			for _, m := range c04Mutations(e) {
				me := m.val.(types.V2FileContractElement)
				expect("v2filecontract", m.path, acc.VerifContainsUnresolvedV2FileContractElement(me) || acc.VerifContainsResolvedV2FileContractElement(me), false)
			}
		}
		for i := range cies {
			e := cies[i]
			expect("chainindex", "(query)", acc.VerifContainsChainIndex(e.Share()), true)
			for _, m := range c04Mutations(e) {
				expect("chainindex", m.path, acc.VerifContainsChainIndex(m.val.(types.ChainIndexElement)), false)
			}
		}
		for i := range aes {
			e := aes[i]
			gl := consensus.VerifAttestationLeaf(&e)
			expect("attestation", "(query)", acc.VerifContainsLeaf(gl), true)
			for _, m := range c04Mutations(e) {
				me := m.val.(types.AttestationElement)
				expect("attestation", m.path, acc.VerifContainsLeaf(consensus.VerifAttestationLeaf(&me)), false)
			}
		}
		// an element of one kind is not a member as another kind with the same id and proof
		for i := range sces {
			sf := types.SiafundElement{ID: types.SiafundOutputID(sces[i].ID), StateElement: sces[i].StateElement.Copy(), SiafundOutput: types.SiafundOutput{Value: sces[i].SiacoinOutput.Value.Lo, Address: sces[i].SiacoinOutput.Address}}
			expect("cross-kind", ".siacoin-as-siafund", acc.VerifContainsUnspentSiafundElement(sf), false)
		}
	}
}

// replay re-runs the full sweep on one stored small scenario (violations found in
// random histories or typed rounds are reproduced by re-running with the stored seed).
func (r *c04Run) replay() {
	c := r.c
	b, err := readFile(c.Replay)
	if err != nil {
		c.Res.Note("cannot read replay: %v", err)
		return
	}
	var v struct {
		Seed   int64       `json:"seed"`
		Replay c05Scenario `json:"replay"`
	}
	if json.Unmarshal(b, &v) != nil || v.Replay.Kind != "scenario" {
		c.Res.Note("replay file is not a small scenario; re-run with VERIF_SEED=%d to reproduce", v.Seed)
		r.small()
		r.histories()
		r.typed()
		return
	}
	sc := v.Replay
	base, err := c05Build("c04", sc.N)
	if err != nil {
		c.Res.Violate(fw.Violation{Key: "c04-panic:build", What: err.Error(), Replay: sc})
		return
	}
	st := &c05Base{acc: base.acc, leaves: append([]accLeaf(nil), base.leaves...), proofs: base.proofs}
	undo, _, _, ok := c05Apply(c.Res, st, sc.block(base), nil, sc)
	if !ok {
		return
	}
	for j := range st.leaves {
		r.sweep(st, j, true, sc)
	}
	child := &c05Base{acc: st.acc, leaves: append([]accLeaf(nil), st.leaves...), proofs: st.proofs}
	if _, _, ok := c05Revert(c.Res, st, undo, nil, sc); ok {
		r.reverted(st, child, undo, sc)
	}
}

func runC04(c *fw.Ctx) {
	defer func() {
		// ledger-level sweep: altered parent records through ValidateBlock (c04_chain.go)
		rule := c.Res.Rule
		runC04L(c)
		c.Res.Rule = rule + " PLUS ledger level: on generated chains every element record presented to the accumulator (v2 parents, v1 supplements, expiring contracts, chain indices) altered at one point, re-signed/re-sealed, must be rejected by ValidateBlock — including after an in-block revision of the same contract."
	}()
	c.Res.Rule = "membership questions put to the real containsLeaf / contains*Element on accumulator states reached by applyBlock/revertBlock: each genuine live leaf (expect accept) and each single mutation of it — element-hash bit, leaf index, spent flag, each proof hash, proof length +-1, another leaf's proof or position, never-created element, leaf of a reverted branch (expect reject); typed elements of all six kinds with every field altered by reflection. A case is one membership question; all are non-trivial; distinct by (kind,index,leaf,proof)."
	r := &c04Run{c: c}
	if c.Replay != "" {
		r.replay()
		c.Compare(r.ops, r.outs)
		return
	}
	r.small()
	r.histories()
	r.typed()
	if len(r.ops) > 0 {
		c.Res.Sample(map[string]string{"op": r.ops[0], "go": r.outs[0]})
		c.Res.Sample(map[string]string{"op": r.ops[len(r.ops)-1], "go": r.outs[len(r.outs)-1]})
	}
	c.Compare(r.ops, r.outs)
}
