package props

// C10 — Untrusted input can never crash a node: decoding and validation are total.
//
// Two halves share this check:
//  (1) decoding: the malformed-stream harness of the codec work (registered as
//      "C10D") — every DecodeFrom/Unmarshal entry point fed random bytes,
//      truncations, inflated length prefixes, valid-prefix+garbage;
//  (2) validation: structure-aware mutants of valid generated blocks (extreme
//      currency values, overlong / truncated / empty proofs, out-of-range indices in
//      covered fields, duplicated or missing parents and supplements, wrong
//      resolution kinds, huge leaf indices, deep policies, absurd heights) fed to
//      ValidateBlock / ValidateOrphan / ValidateHeader / ValidateTransaction /
//      ValidateV2Transaction under recover; every block that validates is applied
//      and reverted under recover. Mutants are also run through the Lean ledger
//      model, which must agree on accept / reject and must never report a panic
//      where Go does not.

import (
	"os"
	"fmt"
	"math"
	"math/rand"
	"time"

	"go.sia.tech/core/consensus"
	"go.sia.tech/core/types"
	"verif/harness/internal/chain"
	"verif/harness/internal/fw"
)

func init() { fw.Register("C10", runC10) }

var extremeCurrencies = []types.Currency{
	types.MaxCurrency,
	types.NewCurrency(math.MaxUint64, math.MaxUint64>>1),
	types.NewCurrency(0, 1<<63),
	types.NewCurrency(math.MaxUint64, 0),
	types.NewCurrency(0, 1),
	types.ZeroCurrency,
	types.NewCurrency64(1),
}

func bigProof(rng *rand.Rand, n int) []types.Hash256 {
	p := make([]types.Hash256, n)
	for i := range p {
		rng.Read(p[i][:])
	}
	return p
}

// structureMutants returns blocks derived from p by one structural mutation each.
// resign: whether signatures are regenerated after the mutation (so that the
// mutated field, not the signature, decides).
func structureMutants(s *chain.Sim, p chain.BlockPlan, rng *rand.Rand) []mutant {
	var out []mutant
	b := p.Block
	add := func(kind string, f func(mb *types.Block, ms *consensus.V1BlockSupplement) bool, reseal bool) {
		mb, ms := chain.DeepCopyBlock(b), chain.CopySupp(p.Supp)
		if !f(&mb, &ms) {
			return
		}
		if reseal {
			s.Seal(&mb, p.Miner)
		}
		out = append(out, mutant{kind, mb, ms})
	}
	ec := func() types.Currency { return extremeCurrencies[rng.Intn(len(extremeCurrencies))] }
	// ---- block level
	add("block:no-payouts", func(mb *types.Block, _ *consensus.V1BlockSupplement) bool { mb.MinerPayouts = nil; return true }, false)
	add("block:many-payouts", func(mb *types.Block, _ *consensus.V1BlockSupplement) bool {
		mb.MinerPayouts = append(mb.MinerPayouts, mb.MinerPayouts...)
		return true
	}, false)
	add("block:extreme-payout", func(mb *types.Block, _ *consensus.V1BlockSupplement) bool {
		if len(mb.MinerPayouts) == 0 {
			return false
		}
		mb.MinerPayouts[0].Value = ec()
		mb.MinerPayouts = append(mb.MinerPayouts, types.SiacoinOutput{Value: types.MaxCurrency})
		return true
	}, false)
	add("block:supplement-missing", func(_ *types.Block, ms *consensus.V1BlockSupplement) bool {
		if len(ms.Transactions) == 0 {
			return false
		}
		*ms = consensus.V1BlockSupplement{}
		return true
	}, false)
	add("block:supplement-short", func(_ *types.Block, ms *consensus.V1BlockSupplement) bool {
		if len(ms.Transactions) == 0 {
			return false
		}
		ms.Transactions = ms.Transactions[:len(ms.Transactions)-1]
		return true
	}, false)
	add("block:supplement-emptied", func(_ *types.Block, ms *consensus.V1BlockSupplement) bool {
		if len(ms.Transactions) == 0 {
			return false
		}
		for i := range ms.Transactions {
			ms.Transactions[i] = consensus.V1TransactionSupplement{}
		}
		return true
	}, false)
	// a v1 transaction in a block of ANY era (in particular after the v2 require height, where the honest
	// supplement is empty), with the supplement left as it is, emptied, or sized to match
	for _, suppMode := range []string{"as-is", "empty", "sized"} {
		suppMode := suppMode
		add("block:extra-v1-txn:supplement-"+suppMode, func(mb *types.Block, ms *consensus.V1BlockSupplement) bool {
			extra := types.Transaction{}
			if rng.Intn(2) == 0 {
				extra.ArbitraryData = [][]byte{[]byte("verif")}
			}
			mb.Transactions = append(mb.Transactions, extra)
			switch suppMode {
			case "empty":
				ms.Transactions = nil
			case "sized":
				for len(ms.Transactions) < len(mb.Transactions) {
					ms.Transactions = append(ms.Transactions, consensus.V1TransactionSupplement{})
				}
			}
			return true
		}, true)
	}
	add("block:v2-height", func(mb *types.Block, _ *consensus.V1BlockSupplement) bool {
		if mb.V2 == nil {
			return false
		}
		mb.V2.Height = []uint64{0, math.MaxUint64, mb.V2.Height + 1}[rng.Intn(3)]
		return true
	}, false)
	add("block:v2-data-on-v1-era", func(mb *types.Block, _ *consensus.V1BlockSupplement) bool {
		if mb.V2 != nil {
			mb.V2 = nil
			return true
		}
		mb.V2 = &types.V2BlockData{Height: s.ChildHeight()}
		return true
	}, true)
	add("block:timestamp-extreme", func(mb *types.Block, _ *consensus.V1BlockSupplement) bool {
		mb.Timestamp = []time.Time{time.Unix(0, 0), time.Unix(math.MaxInt32, 0), time.Unix(1<<40, 0), {}}[rng.Intn(4)]
		return true
	}, true)
	// ---- v1 transactions
	for i, t := range b.Transactions {
		i := i
		if len(t.Signatures) > 0 {
			add("v1:covered-fields-out-of-range", func(mb *types.Block, _ *consensus.V1BlockSupplement) bool {
				sig := &mb.Transactions[i].Signatures[rng.Intn(len(t.Signatures))]
				huge := []uint64{uint64(len(t.SiacoinInputs)), 1 << 20, math.MaxUint64}[rng.Intn(3)]
				sig.CoveredFields.WholeTransaction = false
				// an index list of 1-4 entries in arbitrary order (core never requires sorted lists): at least one
				// entry out of range, the others in range when the field has elements
				txn := &mb.Transactions[i]
				lens := []int{len(txn.SiacoinInputs), len(txn.SiacoinOutputs), len(txn.FileContracts), len(txn.FileContractRevisions),
					len(txn.StorageProofs), len(txn.SiafundInputs), len(txn.SiafundOutputs), len(txn.MinerFees), len(txn.ArbitraryData), len(txn.Signatures)}
				fields := []*[]uint64{&sig.CoveredFields.SiacoinInputs, &sig.CoveredFields.SiacoinOutputs, &sig.CoveredFields.FileContracts,
					&sig.CoveredFields.FileContractRevisions, &sig.CoveredFields.StorageProofs, &sig.CoveredFields.SiafundInputs,
					&sig.CoveredFields.SiafundOutputs, &sig.CoveredFields.MinerFees, &sig.CoveredFields.ArbitraryData, &sig.CoveredFields.Signatures}
				f := rng.Intn(len(fields))
				if rng.Intn(3) > 0 { // prefer a field that has elements, so that in-range entries can surround the bad one
					for try := 0; try < 10 && lens[f] == 0; try++ {
						f = rng.Intn(len(fields))
					}
				}
				huge = []uint64{uint64(lens[f]), uint64(lens[f]) + 6, 1 << 20, math.MaxUint64}[rng.Intn(4)]
				n := 1 + rng.Intn(4)
				list := make([]uint64, n)
				bad := rng.Intn(n)
				for k := range list {
					if k == bad || lens[f] == 0 {
						list[k] = huge
					} else {
						list[k] = uint64(rng.Intn(lens[f]))
					}
				}
				*fields[f] = list
				return true
			}, true)
			add("v1:covered-sigs-out-of-range", func(mb *types.Block, _ *consensus.V1BlockSupplement) bool {
				sig := &mb.Transactions[i].Signatures[rng.Intn(len(t.Signatures))]
				sig.CoveredFields.WholeTransaction = true
				sig.CoveredFields.Signatures = []uint64{uint64(len(t.Signatures)) + uint64(rng.Intn(3))}
				return true
			}, true)
			add("v1:sig-pubkey-index", func(mb *types.Block, _ *consensus.V1BlockSupplement) bool {
				mb.Transactions[i].Signatures[0].PublicKeyIndex = []uint64{3, 1 << 32, math.MaxUint64}[rng.Intn(3)]
				return true
			}, true)
			add("v1:sig-short", func(mb *types.Block, _ *consensus.V1BlockSupplement) bool {
				mb.Transactions[i].Signatures[0].Signature = mb.Transactions[i].Signatures[0].Signature[:rng.Intn(64)]
				return true
			}, true)
		}
		if len(t.SiacoinOutputs) > 0 {
			add("v1:extreme-output", func(mb *types.Block, _ *consensus.V1BlockSupplement) bool {
				mb.Transactions[i].SiacoinOutputs[0].Value = ec()
				if rng.Intn(2) == 0 {
					mb.Transactions[i].MinerFees = append(mb.Transactions[i].MinerFees, ec())
				}
				return s.ResignV1(&mb.Transactions[i])
			}, true)
		}
		if len(t.FileContracts) > 0 {
			add("v1:extreme-contract", func(mb *types.Block, _ *consensus.V1BlockSupplement) bool {
				fc := &mb.Transactions[i].FileContracts[0]
				switch rng.Intn(4) {
				case 0:
					fc.Payout = ec()
				case 1:
					fc.ValidProofOutputs[0].Value = ec()
				case 2:
					fc.WindowStart, fc.WindowEnd = math.MaxUint64-1, math.MaxUint64
				default:
					fc.ValidProofOutputs, fc.MissedProofOutputs = nil, nil
				}
				return s.ResignV1(&mb.Transactions[i])
			}, true)
		}
		if len(t.SiafundOutputs) > 0 {
			add("v1:extreme-siafund", func(mb *types.Block, _ *consensus.V1BlockSupplement) bool {
				mb.Transactions[i].SiafundOutputs[0].Value = []uint64{0, 10001, math.MaxUint64, math.MaxUint64 - 5000}[rng.Intn(4)]
				mb.Transactions[i].SiafundOutputs = append(mb.Transactions[i].SiafundOutputs, types.SiafundOutput{Value: math.MaxUint64})
				return s.ResignV1(&mb.Transactions[i])
			}, true)
		}
		if len(t.StorageProofs) > 0 {
			add("v1:proof-overlong", func(mb *types.Block, _ *consensus.V1BlockSupplement) bool {
				mb.Transactions[i].StorageProofs[0].Proof = bigProof(rng, 60+rng.Intn(80))
				return true
			}, true)
		}
		add("v1:parent-unknown", func(mb *types.Block, _ *consensus.V1BlockSupplement) bool {
			if len(mb.Transactions[i].SiacoinInputs) == 0 {
				return false
			}
			rng.Read(mb.Transactions[i].SiacoinInputs[0].ParentID[:])
			return true
		}, true)
		add("v1:supp-proof-mutilated", func(_ *types.Block, ms *consensus.V1BlockSupplement) bool {
			ts := &ms.Transactions[i]
			switch {
			case len(ts.SiacoinInputs) > 0:
				e := &ts.SiacoinInputs[0]
				switch rng.Intn(4) {
				case 0:
					e.StateElement.MerkleProof = bigProof(rng, 64+rng.Intn(10))
				case 1:
					e.StateElement.MerkleProof = nil
				case 2:
					e.StateElement.LeafIndex = []uint64{math.MaxUint64, 1 << 63, 1 << 40}[rng.Intn(3)]
				default:
					e.SiacoinOutput.Value = ec()
				}
			case len(ts.SiafundInputs) > 0:
				e := &ts.SiafundInputs[0]
				e.ClaimStart = ec()
				if rng.Intn(2) == 0 {
					e.SiafundOutput.Value = math.MaxUint64
				}
			case len(ts.RevisedFileContracts) > 0:
				ts.RevisedFileContracts[0].StateElement.LeafIndex = math.MaxUint64
			case len(ts.StorageProofs) > 0:
				ts.StorageProofs[0].FileContract.FileContract.Filesize = []uint64{math.MaxUint64, 1 << 63, 0}[rng.Intn(3)]
			default:
				return false
			}
			return true
		}, false)
	}
	// ---- a renewal whose rollover alone is bounded, but not its sum with the inputs
	if b.V2 != nil {
		add("v2:renewal-rollover-overflow", func(mb *types.Block, _ *consensus.V1BlockSupplement) bool {
			for _, e := range s.St.SortedSC() {
				if e.MaturityHeight > s.ChildHeight() || e.SiacoinOutput.Value.IsZero() || !s.Spendable(e.SiacoinOutput.Address, true) {
					continue
				}
				used := false
				for _, t := range mb.V2.Transactions {
					for _, in := range t.SiacoinInputs {
						used = used || in.Parent.ID == e.ID
					}
				}
				for _, t := range mb.Transactions {
					for _, in := range t.SiacoinInputs {
						used = used || in.ParentID == e.ID
					}
				}
				if used {
					continue
				}
				rn := &types.V2FileContractRenewal{RenterRollover: types.MaxCurrency}
				if rng.Intn(2) == 0 {
					rn.RenterRollover, rn.HostRollover = types.ZeroCurrency, types.MaxCurrency
				}
				vt := types.V2Transaction{
					SiacoinInputs:           []types.V2SiacoinInput{{Parent: e.Copy()}},
					FileContractResolutions: []types.V2FileContractResolution{{Resolution: rn}},
				}
				if !s.ResignV2(&vt) {
					return false
				}
				mb.V2.Transactions = append(mb.V2.Transactions, vt)
				return true
			}
			return false
		}, true)
	}
	// ---- v1: the same parent listed many times (only detected by the signature check)
	add("v1:duplicate-parent-sum", func(mb *types.Block, ms *consensus.V1BlockSupplement) bool {
		for i := range mb.Transactions {
			t := &mb.Transactions[i]
			if len(t.SiacoinInputs) == 0 || len(t.StorageProofs) > 0 {
				continue
			}
			for k := 0; k < 200; k++ {
				t.SiacoinInputs = append(t.SiacoinInputs, t.SiacoinInputs[0])
			}
			return s.ResignV1(t)
		}
		return false
	}, true)
	// ---- v2 transactions
	for i, t := range b.V2Transactions() {
		i := i
		if len(t.SiacoinInputs) > 0 {
			add("v2:parent-proof-mutilated", func(mb *types.Block, _ *consensus.V1BlockSupplement) bool {
				e := &mb.V2.Transactions[i].SiacoinInputs[0].Parent
				switch rng.Intn(5) {
				case 0:
					e.StateElement.MerkleProof = bigProof(rng, 64+rng.Intn(100))
				case 1:
					e.StateElement.MerkleProof = nil
				case 2:
					e.StateElement.LeafIndex = []uint64{math.MaxUint64, 1 << 63, 1 << 40, math.MaxUint64 - 1}[rng.Intn(4)]
				case 3:
					e.SiacoinOutput.Value = ec()
				default:
					e.MaturityHeight = math.MaxUint64
				}
				return true
			}, true)
			add("v2:ephemeral-forged", func(mb *types.Block, _ *consensus.V1BlockSupplement) bool {
				// claim to spend an output "created in this block" that is not: unassigned index, arbitrary content
				e := &mb.V2.Transactions[i].SiacoinInputs[0].Parent
				e.StateElement = types.StateElement{LeafIndex: types.UnassignedLeafIndex}
				if rng.Intn(2) == 0 {
					rng.Read(e.ID[:])
				}
				e.SiacoinOutput.Value = ec()
				return s.ResignV2(&mb.V2.Transactions[i])
			}, true)
			add("v2:deep-policy", func(mb *types.Block, _ *consensus.V1BlockSupplement) bool {
				p := types.PolicyAbove(0)
				depth := []int{40, 300, 2000}[rng.Intn(3)]
				for d := 0; d < depth; d++ {
					p = types.PolicyThreshold(1, []types.SpendPolicy{p})
				}
				mb.V2.Transactions[i].SiacoinInputs[0].SatisfiedPolicy = types.SatisfiedPolicy{Policy: p}
				return true
			}, true)
			add("v2:wide-policy", func(mb *types.Block, _ *consensus.V1BlockSupplement) bool {
				subs := make([]types.SpendPolicy, 300+rng.Intn(1000))
				for k := range subs {
					subs[k] = types.PolicyOpaque(types.PolicyAbove(uint64(k)))
				}
				mb.V2.Transactions[i].SiacoinInputs[0].SatisfiedPolicy = types.SatisfiedPolicy{Policy: types.PolicyThreshold(0, subs)}
				return true
			}, true)
			add("v2:many-witnesses", func(mb *types.Block, _ *consensus.V1BlockSupplement) bool {
				sp := &mb.V2.Transactions[i].SiacoinInputs[0].SatisfiedPolicy
				sp.Signatures = append(sp.Signatures, make([]types.Signature, 1000)...)
				sp.Preimages = append(sp.Preimages, make([][32]byte, 1000)...)
				return true
			}, true)
		}
		if len(t.SiacoinOutputs) > 0 {
			add("v2:extreme-output", func(mb *types.Block, _ *consensus.V1BlockSupplement) bool {
				mb.V2.Transactions[i].SiacoinOutputs[0].Value = ec()
				mb.V2.Transactions[i].MinerFee = ec()
				return s.ResignV2(&mb.V2.Transactions[i])
			}, true)
		}
		if len(t.SiafundInputs) > 0 {
			add("v2:siafund-parent-forged", func(mb *types.Block, _ *consensus.V1BlockSupplement) bool {
				e := &mb.V2.Transactions[i].SiafundInputs[0].Parent
				switch rng.Intn(3) {
				case 0:
					e.ClaimStart = ec()
				case 1:
					e.SiafundOutput.Value = math.MaxUint64
				default:
					e.StateElement = types.StateElement{LeafIndex: types.UnassignedLeafIndex}
					e.ClaimStart = types.MaxCurrency
				}
				return s.ResignV2(&mb.V2.Transactions[i])
			}, true)
		}
		if len(t.FileContracts) > 0 {
			add("v2:extreme-contract", func(mb *types.Block, _ *consensus.V1BlockSupplement) bool {
				fc := &mb.V2.Transactions[i].FileContracts[0]
				switch rng.Intn(5) {
				case 0:
					fc.RenterOutput.Value, fc.HostOutput.Value = ec(), ec()
				case 1:
					fc.MissedHostValue = ec()
				case 2:
					fc.TotalCollateral = ec()
				case 3:
					fc.ProofHeight, fc.ExpirationHeight = math.MaxUint64-1, math.MaxUint64
				default:
					fc.Filesize, fc.Capacity = math.MaxUint64, math.MaxUint64
				}
				s.SignContract(fc, fc.RenterPublicKey, fc.HostPublicKey)
				return s.ResignV2(&mb.V2.Transactions[i])
			}, true)
		}
		if len(t.FileContractRevisions) > 0 {
			add("v2:extreme-revision", func(mb *types.Block, _ *consensus.V1BlockSupplement) bool {
				r := &mb.V2.Transactions[i].FileContractRevisions[0]
				switch rng.Intn(4) {
				case 0:
					r.Revision.RenterOutput.Value, r.Revision.HostOutput.Value = ec(), ec()
				case 1:
					r.Revision.RevisionNumber = math.MaxUint64
				case 2:
					r.Parent.V2FileContract.RenterOutput.Value = types.MaxCurrency
					r.Parent.V2FileContract.HostOutput.Value = types.MaxCurrency
				default:
					r.Parent.StateElement.MerkleProof = bigProof(rng, 70)
				}
				s.SignContract(&r.Revision, r.Parent.V2FileContract.RenterPublicKey, r.Parent.V2FileContract.HostPublicKey)
				return true
			}, true)
		}
		if len(t.FileContractResolutions) > 0 {
			add("v2:resolution-mutilated", func(mb *types.Block, _ *consensus.V1BlockSupplement) bool {
				r := &mb.V2.Transactions[i].FileContractResolutions[0]
				switch x := r.Resolution.(type) {
				case *types.V2StorageProof:
					switch rng.Intn(4) {
					case 0:
						x.Proof = bigProof(rng, 64+rng.Intn(64))
					case 1:
						x.ProofIndex.StateElement.MerkleProof = bigProof(rng, 65)
					case 2:
						x.ProofIndex.StateElement.LeafIndex = math.MaxUint64
					default:
						x.ProofIndex.ChainIndex.Height = math.MaxUint64
					}
				case *types.V2FileContractRenewal:
					switch rng.Intn(3) {
					case 0:
						x.RenterRollover, x.HostRollover = ec(), ec()
					case 1:
						x.FinalRenterOutput.Value, x.FinalHostOutput.Value = ec(), ec()
					default:
						x.NewContract.RenterOutput.Value, x.NewContract.HostOutput.Value = types.MaxCurrency, types.MaxCurrency
					}
				default:
					// turn an expiration into another kind with an empty body
					if rng.Intn(2) == 0 {
						r.Resolution = &types.V2StorageProof{}
					} else {
						r.Resolution = &types.V2FileContractRenewal{}
					}
				}
				return true
			}, true)
		}
		if len(t.SiafundOutputs) > 0 {
			// an output created in this block is spent again in the block with a forged claimed record
			add("v2:ephemeral-siafund-forged-claim", func(mb *types.Block, _ *consensus.V1BlockSupplement) bool {
				txid := t.ID()
				parent := types.SiafundElement{
					ID:            t.SiafundOutputID(txid, 0),
					StateElement:  types.StateElement{LeafIndex: types.UnassignedLeafIndex},
					SiafundOutput: t.SiafundOutputs[0],
					ClaimStart:    ec(),
				}
				if rng.Intn(2) == 0 {
					parent.SiafundOutput.Value = math.MaxUint64
				}
				if !s.Spendable(parent.SiafundOutput.Address, true) {
					return false
				}
				vt := types.V2Transaction{
					SiafundInputs:  []types.V2SiafundInput{{Parent: parent, ClaimAddress: s.NewAddr(true)}},
					SiafundOutputs: []types.SiafundOutput{{Value: parent.SiafundOutput.Value, Address: s.NewAddr(true)}},
				}
				if !s.ResignV2(&vt) {
					return false
				}
				mb.V2.Transactions = append(mb.V2.Transactions, vt)
				return true
			}, true)
		}
		if len(t.SiacoinOutputs) > 0 {
			add("v2:ephemeral-siacoin-forged-value", func(mb *types.Block, _ *consensus.V1BlockSupplement) bool {
				txid := t.ID()
				parent := types.SiacoinElement{
					ID:            t.SiacoinOutputID(txid, 0),
					StateElement:  types.StateElement{LeafIndex: types.UnassignedLeafIndex},
					SiacoinOutput: t.SiacoinOutputs[0],
				}
				parent.SiacoinOutput.Value = types.MaxCurrency
				if !s.Spendable(parent.SiacoinOutput.Address, true) {
					return false
				}
				vt := types.V2Transaction{
					SiacoinInputs:  []types.V2SiacoinInput{{Parent: parent}, {Parent: parent}},
					SiacoinOutputs: []types.SiacoinOutput{{Value: types.MaxCurrency, Address: s.NewAddr(true)}},
				}
				vt.SiacoinInputs[1].Parent.ID[0] ^= 1
				if !s.ResignV2(&vt) {
					return false
				}
				mb.V2.Transactions = append(mb.V2.Transactions, vt)
				return true
			}, true)
		}
		if len(t.SiacoinOutputs) > 0 {
			// a chain of ephemeral spends, each claiming an inflated value for the output created by the previous
			// transaction and forming a contract whose tax is about 2^128/27: the taxes alone overflow the siafund pool
			add("v2:ephemeral-inflated-contract-tax", func(mb *types.Block, _ *consensus.V1BlockSupplement) bool {
				var addr types.Address
				found := false
				for try := 0; try < 8 && !found; try++ {
					addr = s.NewAddr(true)
					found = s.Spendable(addr, true)
				}
				if !found {
					return false
				}
				k := types.MaxCurrency.Div64(27).Add(types.NewCurrency64(1)) // tax of each contract
				x := k.Mul64(25)                                             // renter + host
				v := x.Add(k).Add(types.NewCurrency64(1))                    // claimed parent value: contract + tax + 1 H change
				prevID := t.SiacoinOutputID(t.ID(), 0)
				child := s.ChildHeight()
				for n := 0; n < 30; n++ {
					fc := types.V2FileContract{
						ProofHeight: child + 5, ExpirationHeight: child + 10,
						RenterOutput:    types.SiacoinOutput{Value: x.Div64(2), Address: addr},
						HostOutput:      types.SiacoinOutput{Value: x.Sub(x.Div64(2)), Address: addr},
						RenterPublicKey: s.W.Keys[0].PublicKey(), HostPublicKey: s.W.Keys[1].PublicKey(),
					}
					s.SignContract(&fc, fc.RenterPublicKey, fc.HostPublicKey)
					vt := types.V2Transaction{
						SiacoinInputs: []types.V2SiacoinInput{{Parent: types.SiacoinElement{
							ID:            prevID,
							StateElement:  types.StateElement{LeafIndex: types.UnassignedLeafIndex},
							SiacoinOutput: types.SiacoinOutput{Value: v, Address: addr},
						}}},
						SiacoinOutputs: []types.SiacoinOutput{{Value: types.NewCurrency64(1), Address: addr}},
						FileContracts:  []types.V2FileContract{fc},
					}
					if !s.ResignV2(&vt) {
						return false
					}
					mb.V2.Transactions = append(mb.V2.Transactions, vt)
					prevID = vt.SiacoinOutputID(vt.ID(), 0)
				}
				return true
			}, true)
		}
		add("v2:empty-txn", func(mb *types.Block, _ *consensus.V1BlockSupplement) bool {
			mb.V2.Transactions = append(mb.V2.Transactions, types.V2Transaction{})
			return true
		}, true)
	}
	// an ephemeral parent (unassigned leaf index) NAMING an element of another kind recorded earlier in the block: the
	// in-block element table is one map for all kinds, the per-kind diff slices are indexed with what it returns
	if b.V2 != nil && len(b.V2.Transactions) > 0 {
		var scIDs, sfIDs, fcIDs []types.Hash256
		for _, t := range b.V2.Transactions {
			txid := t.ID()
			for _, in := range t.SiacoinInputs {
				scIDs = append(scIDs, types.Hash256(in.Parent.ID))
			}
			for k := range t.SiacoinOutputs {
				scIDs = append(scIDs, types.Hash256(t.SiacoinOutputID(txid, k)))
			}
			for _, in := range t.SiafundInputs {
				sfIDs = append(sfIDs, types.Hash256(in.Parent.ID))
			}
			for k := range t.SiafundOutputs {
				sfIDs = append(sfIDs, types.Hash256(t.SiafundOutputID(txid, k)))
			}
			for k := range t.FileContracts {
				fcIDs = append(fcIDs, types.Hash256(t.V2FileContractID(txid, k)))
			}
			for _, r := range t.FileContractRevisions {
				fcIDs = append(fcIDs, types.Hash256(r.Parent.ID))
			}
			for _, r := range t.FileContractResolutions {
				fcIDs = append(fcIDs, types.Hash256(r.Parent.ID))
			}
		}
		anyone := types.SatisfiedPolicy{Policy: types.PolicyAbove(0)}
		addr := types.PolicyAbove(0).Address()
		crossKind := func(kind string, ids []types.Hash256, asSiafund bool) {
			for _, pick := range []int{0, len(ids) - 1} {
				if len(ids) == 0 || (pick == 0 && len(ids) == 1 && kind != "") && false {
					continue
				}
				if pick < 0 || pick >= len(ids) {
					continue
				}
				id := ids[pick]
				which := "first"
				if pick != 0 {
					which = "last"
				}
				add("v2:ephemeral-"+kind+":"+which, func(mb *types.Block, _ *consensus.V1BlockSupplement) bool {
					se := types.StateElement{LeafIndex: types.UnassignedLeafIndex}
					var vt types.V2Transaction
					if asSiafund {
						vt.SiafundInputs = []types.V2SiafundInput{{Parent: types.SiafundElement{ID: types.SiafundOutputID(id), StateElement: se,
							SiafundOutput: types.SiafundOutput{Value: 1, Address: addr}}, SatisfiedPolicy: anyone}}
						vt.SiafundOutputs = []types.SiafundOutput{{Value: 1, Address: addr}}
					} else {
						vt.SiacoinInputs = []types.V2SiacoinInput{{Parent: types.SiacoinElement{ID: types.SiacoinOutputID(id), StateElement: se,
							SiacoinOutput: types.SiacoinOutput{Value: types.Siacoins(1), Address: addr}}, SatisfiedPolicy: anyone}}
						vt.SiacoinOutputs = []types.SiacoinOutput{{Value: types.Siacoins(1), Address: addr}}
					}
					mb.V2.Transactions = append(mb.V2.Transactions, vt)
					return true
				}, true)
			}
		}
		crossKind("siafund-names-siacoin-element", scIDs, true)
		crossKind("siafund-names-contract", fcIDs, true)
		crossKind("siacoin-names-siafund-element", sfIDs, false)
		crossKind("siacoin-names-contract", fcIDs, false)
	}
	return out
}

func runC10(c *fw.Ctx) {
	res := c.Res
	// half 1: decoding
	if dec := fw.Lookup("C10D"); dec != nil {
		dec(c)
	} else {
		res.Note("decoding half (C10D) not registered")
	}
	decRule := res.Rule
	res.Rule = "(1) DECODING: " + decRule + " (2) VALIDATION: for every block of random valid chains (all modes incl. the legacy ephemeral window), every applicable structure-aware mutant (extreme currencies in outputs/fees/contracts/rollovers/payouts, overlong/empty/garbage Merkle proofs, huge leaf indices, covered-field and signature indices out of range, unknown/forged parents incl. forged ephemeral parents and forged siafund claim starts, missing/short/emptied supplements, wrong or nil resolution kinds, policies 2000 levels deep or 1300 children wide, 1000 surplus witnesses, absurd heights and timestamps) is fed to ValidateBlock under recover: it must return (accept or reject), never panic; every accepted block or mutant is applied and reverted under recover. Non-trivial = mutant of a block with transactions."
	var ops, outs, kinds []string
	nChains := c.Budget(24, 120)
	if c.Search && c.Tier != "thorough" {
		nChains = 120 // a broken proof on the quick tier: search wider than quick, but finish in minutes
	}
	blocks := c.Budget(40, 60)
	for i := 0; i < nChains; i++ {
		mode := ledgerModes[i%len(ledgerModes)]
		seed := c.Seed*5000011 + int64(i)
		s := chain.NewSim(rand.New(rand.NewSource(seed)), mode)
		ab := chain.NewAbstractor(s)
		mrng := rand.New(rand.NewSource(seed ^ 0xc10))
		res.Count("chains:" + mode)
		for k := 0; k < blocks; k++ {
			p := s.BuildBlock()
			height := s.ChildHeight()
			legacy := height < s.Net.HardforkV2.EphemeralOutputHeight && height >= s.Net.HardforkV2.AllowHeight
			for _, m := range structureMutants(s, p, mrng) {
				rp := map[string]any{"mode": mode, "seed": seed, "height": height, "mutant": m.kind, "legacy_window": legacy}
				var err error
				panicked, msg := fw.Recover(func() { err = consensus.ValidateBlock(s.Tip, m.block, m.supp) })
				res.Eval(fmt.Sprintf("%s/%d/%d/%s/%x", mode, seed, height, m.kind, m.block.ID()), true)
				res.Count("mutant:" + m.kind)
				key := m.kind
				if legacy {
					key += ":legacy-window"
				}
				verdict := "reject"
				if panicked {
					verdict = "panic-validate"
					res.Count("outcome:panic")
					res.Violate(fw.Violation{Key: "c10-validate-panic:" + key, What: "ValidateBlock panicked on a malformed block (" + m.kind + "): " + msg, Replay: rp, Expected: "accept or reject", Observed: "panic: " + msg})
				} else if err == nil {
					verdict = "accept"
					res.Count("outcome:accept")
					// an accepted block must apply and revert without panic (on a scratch copy of the tip)
					p2, msg2 := fw.Recover(func() {
						_, _ = consensus.ApplyBlock(s.Tip, m.block, m.supp, s.TargetTimestamp())
						_ = consensus.RevertBlock(s.Tip, m.block, m.supp)
					})
					if p2 {
						res.Violate(fw.Violation{Key: "c10-apply-panic:" + key, What: "a block that passed validation panicked in ApplyBlock/RevertBlock: " + msg2, Replay: rp})
					}
				} else {
					res.Count("outcome:reject")
				}
				// header / orphan entry points on the same mutant
				p3, msg3 := fw.Recover(func() {
					_ = consensus.ValidateOrphan(s.Tip, m.block)
					_ = consensus.ValidateHeader(s.Tip, m.block.Header())
				})
				if p3 {
					res.Violate(fw.Violation{Key: "c10-orphan-panic:" + key, What: "ValidateOrphan/ValidateHeader panicked: " + msg3, Replay: rp})
				}
				if c.Model != nil && verdict != "accept" {
					var line string
					pa, _ := fw.Recover(func() { line = "ledger-block " + ab.Abstract(m.block, m.supp) })
					if !pa {
						ops = append(ops, line)
						outs = append(outs, verdict)
						kinds = append(kinds, m.kind)
					}
				}
			}
			au, err := s.Apply(p.Block, p.Supp)
			_ = au
			if err != nil {
				res.Note("generator produced a rejected block (%s seed %d height %d): %v", mode, seed, height, err)
				res.Count("generator-rejected")
				break
			}
		}
	}
	c10HugeFileProbe(c)
	c10MalformedKeyProbe(c)
	genrunCoveredFields(c)
	c10UpdateJSONKeys(c)
	// (3) malformed JSON / text at every hand-written UnmarshalJSON / UnmarshalText (sub-check C10J); values that
	// decode but cannot be encoded or hashed without a panic are flagged (they crash validation)
	if jf := fw.Lookup("C10J"); jf != nil {
		os.Setenv("VERIF_C10J_STRICT", "1")
		jf(c)
	}
	if len(ops) > 0 && c.Model != nil {
		res.ModelUsed = true
		got, err := c.Model.Eval(ops)
		if err != nil {
			res.Disagree(fw.Disagreement{Op: "(driver)", Model: err.Error()})
			return
		}
		for i := range ops {
			res.ModelOps++
			if got[i] != outs[i] {
				res.Disagree(fw.Disagreement{Op: trunc(ops[i], 3000), Go: outs[i], Model: trunc(got[i], 200), Note: kinds[i]})
			}
		}
	}
}
