package props

// C18 synthetic part: transaction sets over fully known synthetic forests (every leaf
// count n up to a bound, EVERY non-empty subset of leaves as one set, in shuffled
// order and grouping), larger random forests with clustered / duplicated / ephemeral
// parents, and the numeric examination of candidate finding F13.

import (
	"fmt"

	"go.sia.tech/core/consensus"
	"go.sia.tech/core/types"
	"verif/harness/internal/fw"
)

// c18Forest is a synthetic accumulator state in which every leaf is a siacoin, siafund,
// v2 contract or chain index element with a genuine proof.
type c18Forest struct {
	sc  map[int]types.SiacoinElement
	sf  map[int]types.SiafundElement
	fc  map[int]types.V2FileContractElement
	ci  map[int]types.ChainIndexElement
	n   int
	acc consensus.ElementAccumulator
}

func c18BuildForest(c *fw.Ctx, tag string, n int) *c18Forest {
	f := &c18Forest{sc: map[int]types.SiacoinElement{}, sf: map[int]types.SiafundElement{}, fc: map[int]types.V2FileContractElement{}, ci: map[int]types.ChainIndexElement{}, n: n}
	rh := func(k int) types.Hash256 { return types.Hash256(accElemFor(tag, n, k)) }
	// one transaction holding every element once, to obtain the element hashes
	var holder types.V2Transaction
	kinds := make([]int, n)
	for i := 0; i < n; i++ {
		se := types.StateElement{LeafIndex: uint64(i)}
		kinds[i] = c.Rng.Intn(4)
		switch kinds[i] {
		case 0:
			holder.SiacoinInputs = append(holder.SiacoinInputs, types.V2SiacoinInput{Parent: types.SiacoinElement{ID: types.SiacoinOutputID(rh(i)), StateElement: se,
				SiacoinOutput: types.SiacoinOutput{Value: types.NewCurrency64(uint64(1000 + i)), Address: types.Address(rh(i + 100000))}, MaturityHeight: uint64(i % 7)}})
		case 1:
			holder.SiafundInputs = append(holder.SiafundInputs, types.V2SiafundInput{Parent: types.SiafundElement{ID: types.SiafundOutputID(rh(i)), StateElement: se,
				SiafundOutput: types.SiafundOutput{Value: uint64(1 + i), Address: types.Address(rh(i + 100000))}, ClaimStart: types.NewCurrency64(uint64(i))}})
		case 2:
			holder.FileContractRevisions = append(holder.FileContractRevisions, types.V2FileContractRevision{Parent: types.V2FileContractElement{ID: types.FileContractID(rh(i)), StateElement: se,
				V2FileContract: types.V2FileContract{Filesize: uint64(i), ProofHeight: 10, ExpirationHeight: 20, RevisionNumber: uint64(i)}}})
		default:
			bid := types.BlockID(rh(i))
			holder.FileContractResolutions = append(holder.FileContractResolutions, types.V2FileContractResolution{
				Parent:     types.V2FileContractElement{ID: types.FileContractID(rh(i + 200000)), StateElement: types.StateElement{LeafIndex: types.UnassignedLeafIndex}},
				Resolution: &types.V2StorageProof{ProofIndex: types.ChainIndexElement{ID: bid, StateElement: se, ChainIndex: types.ChainIndex{Height: uint64(i), ID: bid}}}})
		}
	}
	hashes := make([]accHash, n)
	types.VerifForEachElementLeaf([]types.V2Transaction{holder}, func(l types.VerifElementLeaf) {
		hashes[l.SE.LeafIndex] = accNfLeafHash(l.ElementHash, l.SE.LeafIndex, false)
	})
	trees := accNfForest(hashes)
	f.acc.NumLeaves = uint64(n)
	for _, t := range trees {
		f.acc.Trees[t.height] = t.root()
	}
	a, b, cc, d := 0, 0, 0, 0
	for i := 0; i < n; i++ {
		proof := accNfPath(trees, i)
		switch kinds[i] {
		case 0:
			e := holder.SiacoinInputs[a].Parent
			e.StateElement.MerkleProof = proof
			f.sc[i] = e
			a++
		case 1:
			e := holder.SiafundInputs[b].Parent
			e.StateElement.MerkleProof = proof
			f.sf[i] = e
			b++
		case 2:
			e := holder.FileContractRevisions[cc].Parent
			e.StateElement.MerkleProof = proof
			f.fc[i] = e
			cc++
		default:
			e := holder.FileContractResolutions[d].Resolution.(*types.V2StorageProof).ProofIndex
			e.StateElement.MerkleProof = proof
			f.ci[i] = e
			d++
		}
	}
	return f
}

// txns groups the chosen leaves (repetitions allowed) into transactions.
func (f *c18Forest) txns(c *fw.Ctx, idxs []int, ephemerals int) []types.V2Transaction {
	var out []types.V2Transaction
	cur := types.V2Transaction{}
	flush := func() {
		out = append(out, cur)
		cur = types.V2Transaction{}
	}
	for k, i := range idxs {
		if e, ok := f.sc[i]; ok {
			cur.SiacoinInputs = append(cur.SiacoinInputs, types.V2SiacoinInput{Parent: e.Copy(), SatisfiedPolicy: types.SatisfiedPolicy{Policy: types.AnyoneCanSpend()}})
		} else if e, ok := f.sf[i]; ok {
			cur.SiafundInputs = append(cur.SiafundInputs, types.V2SiafundInput{Parent: e.Copy(), SatisfiedPolicy: types.SatisfiedPolicy{Policy: types.AnyoneCanSpend()}})
		} else if e, ok := f.fc[i]; ok {
			if c.Rng.Intn(2) == 0 {
				cur.FileContractRevisions = append(cur.FileContractRevisions, types.V2FileContractRevision{Parent: e.Copy(), Revision: e.V2FileContract})
			} else {
				cur.FileContractResolutions = append(cur.FileContractResolutions, types.V2FileContractResolution{Parent: e.Copy(), Resolution: &types.V2FileContractExpiration{}})
			}
		} else if e, ok := f.ci[i]; ok {
			// a storage proof whose contract parent is ephemeral-like (unassigned) or a known contract
			parent := types.V2FileContractElement{ID: types.FileContractID(accElemFor("c18-eph", k, i)), StateElement: types.StateElement{LeafIndex: types.UnassignedLeafIndex}}
			cur.FileContractResolutions = append(cur.FileContractResolutions, types.V2FileContractResolution{Parent: parent, Resolution: &types.V2StorageProof{ProofIndex: e.Copy()}})
		}
		if c.Rng.Intn(3) == 0 {
			flush()
		}
	}
	for x := 0; x < ephemerals; x++ {
		cur.SiacoinInputs = append(cur.SiacoinInputs, types.V2SiacoinInput{Parent: types.SiacoinElement{ID: types.SiacoinOutputID(accElemFor("c18-eph-sc", x, 0)),
			StateElement: types.StateElement{LeafIndex: types.UnassignedLeafIndex}, SiacoinOutput: types.SiacoinOutput{Value: types.NewCurrency64(7)}}, SatisfiedPolicy: types.SatisfiedPolicy{Policy: types.AnyoneCanSpend()}})
	}
	flush()
	return out
}

// verifies reports whether every non-ephemeral element proof of txns verifies against f
// (sanity of the generator: the sets are "valid for one state").
func (f *c18Forest) verifies(txns []types.V2Transaction) bool {
	ok := true
	types.VerifForEachElementLeaf(txns, func(l types.VerifElementLeaf) {
		if !f.acc.VerifContainsLeaf(consensus.VerifLeaf{SE: l.SE, ElementHash: l.ElementHash, Spent: false}) {
			ok = false
		}
	})
	return ok
}

func c18Synthetic(r *c18Run) {
	c := r.c
	res := c.Res
	maxN := c.Budget(8, 11)
	complete := true
	for n := 1; n <= maxN; n++ {
		f := c18BuildForest(c, "c18", n)
		for mask := 1; mask < 1<<uint(n); mask++ {
			var idxs []int
			for i := 0; i < n; i++ {
				if mask&(1<<uint(i)) != 0 {
					idxs = append(idxs, i)
				}
			}
			c.Rng.Shuffle(len(idxs), func(i, j int) { idxs[i], idxs[j] = idxs[j], idxs[i] })
			if mask%5 == 0 { // the same leaf twice
				idxs = append(idxs, idxs[c.Rng.Intn(len(idxs))])
			}
			txns := f.txns(c, idxs, mask%3)
			if !f.verifies(txns) {
				res.Note("generator bug: synthetic set does not verify (n=%d mask=%d)", n, mask)
				complete = false
				continue
			}
			saveModel := c.Model
			if mask%3 != 0 && n > 6 {
				c.Model = nil // the model sees every third large case
			}
			if !r.multiproof(txns, "synthetic", map[string]any{"kind": "synthetic", "n": n, "mask": mask, "seed": c.Seed}) {
				complete = false
			}
			c.Model = saveModel
		}
		res.CountN(fmt.Sprintf("synthetic:n=%02d(every subset of leaves)", n), 1<<uint(n)-1)
	}
	// larger forests
	rounds := c.Budget(120, 3000)
	for k := 0; k < rounds; k++ {
		n := 1 + c.Rng.Intn(c.Budget(600, 3000))
		if c.Rng.Intn(4) == 0 {
			n = 1<<uint(1+c.Rng.Intn(9)) - c.Rng.Intn(2)
		}
		f := c18BuildForest(c, fmt.Sprintf("c18r%d", k), n)
		var idxs []int
		cnt := 1 + c.Rng.Intn(60)
		for len(idxs) < cnt {
			switch c.Rng.Intn(4) {
			case 0: // cluster
				base := c.Rng.Intn(n)
				for d := 0; d < 1+c.Rng.Intn(8) && base+d < n; d++ {
					idxs = append(idxs, base+d)
				}
			case 1: // right edge (small trees)
				idxs = append(idxs, n-1-c.Rng.Intn(min(n, 5)))
			case 2: // duplicate
				if len(idxs) > 0 {
					idxs = append(idxs, idxs[c.Rng.Intn(len(idxs))])
				}
			default:
				idxs = append(idxs, c.Rng.Intn(n))
			}
		}
		txns := f.txns(c, idxs, c.Rng.Intn(3))
		if !f.verifies(txns) {
			res.Note("generator bug: synthetic set does not verify (random n=%d)", n)
			continue
		}
		res.Count("synthetic:random-forest-leaves=" + c05Bucket(n))
		r.multiproof(txns, "synthetic-random", map[string]any{"kind": "synthetic-random", "n": n, "round": k, "seed": c.Seed})
	}
	if complete && len(res.Violations) == 0 {
		res.Exhaustive = true
		res.Note("synthetic forests: every leaf count n<=%d and every non-empty subset of leaves as one transaction set (shuffled, random grouping, duplicates and ephemeral parents mixed in) round-trips", maxN)
	}
	c18F13(r)
}

// c18F13 examines candidate finding F13 numerically: the encoded size of a maximal-weight
// v2 block of minimal inputs scattered over a large accumulator vs the gateway's 5e6
// per-block limits (RPCSendV2Blocks response per block, RPCRelayV2BlockOutline,
// RPCSendCheckpoint). Reported as a note; the C19 check owns the verdict.
func c18F13(r *c18Run) {
	res := r.c.Res
	var cs consensus.State
	mk := func(idx uint64, plen int) types.V2SiacoinInput {
		var id types.SiacoinOutputID
		id[0], id[1], id[2], id[3] = byte(idx), byte(idx>>8), byte(idx>>16), byte(idx>>24)
		return types.V2SiacoinInput{Parent: types.SiacoinElement{ID: id, StateElement: types.StateElement{LeafIndex: idx, MerkleProof: make([]types.Hash256, plen)},
			SiacoinOutput: types.SiacoinOutput{Value: types.NewCurrency64(1)}}, SatisfiedPolicy: types.SatisfiedPolicy{Policy: types.AnyoneCanSpend()}}
	}
	one := types.V2Transaction{SiacoinInputs: []types.V2SiacoinInput{mk(0, 0)}}
	wIn := cs.V2TransactionWeight(one)
	maxW := cs.MaxBlockWeight()
	nIn := int(maxW / wIn)
	for _, logN := range []int{16, 19, 20, 27, 32, 40} {
		numLeaves := uint64(1) << uint(logN)
		stride := numLeaves / uint64(nIn)
		txn := types.V2Transaction{}
		for k := 0; k < nIn; k++ {
			txn.SiacoinInputs = append(txn.SiacoinInputs, mk(uint64(k)*stride+uint64(k%7), logN))
		}
		txns := []types.V2Transaction{txn}
		mp := types.VerifMultiproofSize(txns)
		proofless := c18CopyTxns(txns)
		types.VerifForEachElementLeaf(proofless, func(l types.VerifElementLeaf) { l.SE.MerkleProof = nil })
		base := len(c18Enc(proofless[0]))
		total := base + 8 + 8 + 32*mp
		res.Note("F13: %d minimal siacoin inputs (weight %d each, block weight limit %d) scattered over 2^%d leaves: multiproof %d hashes = %d bytes (%.1f per input); proofless transactions %d bytes; encoded v2 transaction data %d bytes vs gateway limit 5000000 -> %s",
			nIn, wIn, maxW, logN, mp, 32*mp, float64(mp)/float64(nIn), base, total, map[bool]string{true: "EXCEEDS", false: "fits"}[total > 5000000])
	}
}
