package props

import (
	"fmt"
	"math/rand"

	"go.sia.tech/core/consensus"
	"go.sia.tech/core/types"

	"verif/harness/internal/chain"
	"verif/harness/internal/fw"
)

// c10MalformedKeyProbe: unlock conditions are free-form — nothing constrains the LENGTH of the key an
// `ed25519` unlock key carries, and an address is only the hash of the conditions. A miner payout sent to the
// address of conditions whose ed25519 key is 0, 1, 31, 33 or 64 bytes long is a perfectly valid history; a later
// transaction that reveals those conditions (v1 input / v2 `uc` policy) reaches the signature check with that
// key. The check must answer (here: reject, no signature can be valid for it) — not crash on the length.
func c10MalformedKeyProbe(c *fw.Ctx) {
	res := c.Res
	lens := []int{0, 1, 31, 33, 64}
	modes := []string{"v1", "mixed", "v2", "legacy"}
	for i := 0; i < c.Budget(8, 40); i++ {
		seed := c.Seed*7000003 + int64(i)
		mode := modes[i%len(modes)]
		rng := rand.New(rand.NewSource(seed))
		s := chain.NewSim(rng, mode)
		klen := lens[i%len(lens)]
		key := make([]byte, klen)
		rng.Read(key)
		uc := types.UnlockConditions{SignaturesRequired: 1, PublicKeys: []types.UnlockKey{{Algorithm: types.SpecifierEd25519, Key: key}}}
		if i%3 == 2 {
			// a well-formed co-signer next to the malformed key
			uc.PublicKeys = append(uc.PublicKeys, types.UnlockKey{Algorithm: types.SpecifierEd25519, Key: make([]byte, 32)})
		}
		bad := uc.UnlockHash()
		mk := func(miner types.Address, v1 []types.Transaction, v2 []types.V2Transaction) types.Block {
			b := types.Block{Timestamp: s.NextTimestamp(), Transactions: v1}
			if s.V2Allowed() {
				b.V2 = &types.V2BlockData{Transactions: v2}
			}
			s.Seal(&b, miner)
			return b
		}
		// a few ordinary blocks, then a payout to the malformed-key address, then wait for maturity
		okc := true
		for k := 0; k < 3+rng.Intn(4) && okc; k++ {
			if _, _, err := s.Step(); err != nil {
				okc = false
			}
		}
		fund := mk(bad, nil, nil)
		fundID := fund.ID().MinerOutputID(0)
		if _, err := s.Apply(fund, consensus.V1BlockSupplement{}); err != nil || !okc {
			res.Count("bad-key-probe:funding-rejected")
			continue
		}
		other := s.NewAddr(false)
		for {
			e, live := s.St.SC[fundID]
			if !live {
				okc = false
				break
			}
			if e.MaturityHeight <= s.ChildHeight() {
				break
			}
			if _, err := s.Apply(mk(other, nil, nil), consensus.V1BlockSupplement{}); err != nil {
				okc = false
				break
			}
		}
		if !okc {
			res.Count("bad-key-probe:lost")
			continue
		}
		e := s.St.SC[fundID]
		sig := make([]byte, 64)
		rng.Read(sig)
		try := func(kind string, b types.Block, bs consensus.V1BlockSupplement) {
			rp := map[string]any{"seed": seed, "mode": mode, "key_len": klen, "kind": kind, "height": s.ChildHeight(), "block": fw.Hex(encodeBlockFull(b))}
			var err error
			panicked, msg := fw.Recover(func() { err = consensus.ValidateBlock(s.Tip, b, bs) })
			res.Eval(fmt.Sprintf("badkey/%d/%s/%d/%s", seed, mode, klen, kind), true)
			res.Count("bad-key-probe:" + kind)
			if panicked {
				res.Violate(fw.Violation{Key: "c10-validate-panic:" + kind + ":malformed-ed25519-key",
					What:   fmt.Sprintf("ValidateBlock panicked on a transaction revealing unlock conditions whose ed25519 key is %d bytes long: %s", klen, msg),
					Replay: rp, Expected: "accept or reject", Observed: "panic: " + msg})
			} else if err == nil {
				res.Count("bad-key-probe:accepted:" + kind)
				res.Note("bad-key probe: spend ACCEPTED (key_len %d, kind %s, seed %d)", klen, kind, seed)
			}
		}
		if !s.V1Forbidden() {
			for _, whole := range []bool{true, false} {
				txn := types.Transaction{
					SiacoinInputs:  []types.SiacoinInput{{ParentID: e.ID, UnlockConditions: uc}},
					SiacoinOutputs: []types.SiacoinOutput{{Value: e.SiacoinOutput.Value, Address: other}},
					Signatures:     []types.TransactionSignature{{ParentID: types.Hash256(e.ID), PublicKeyIndex: 0, Signature: sig, CoveredFields: types.CoveredFields{WholeTransaction: whole}}},
				}
				if !whole {
					txn.Signatures[0].CoveredFields.SiacoinInputs = []uint64{0}
				}
				b := mk(other, []types.Transaction{txn}, nil)
				bs := consensus.V1BlockSupplement{Transactions: []consensus.V1TransactionSupplement{{SiacoinInputs: []types.SiacoinElement{e.Copy()}}}}
				try(fmt.Sprintf("v1:whole=%v", whole), b, bs)
			}
		}
		if s.V2Allowed() {
			var s64 types.Signature
			copy(s64[:], sig)
			txn := types.V2Transaction{
				SiacoinInputs: []types.V2SiacoinInput{{Parent: e.Copy(), SatisfiedPolicy: types.SatisfiedPolicy{
					Policy: types.SpendPolicy{Type: types.PolicyTypeUnlockConditions(uc)}, Signatures: []types.Signature{s64}}}},
				SiacoinOutputs: []types.SiacoinOutput{{Value: e.SiacoinOutput.Value, Address: other}},
			}
			try("v2", mk(other, nil, []types.V2Transaction{txn}), consensus.V1BlockSupplement{})
		}
	}
}
