package props

// C11 on REAL blocks: a stream of blocks from the shared chain simulator (valid
// v1/v2 blocks with consistent accumulator proofs: one contract revised by several
// transactions of a block, several storage proofs against one chain index, …) and
// directed blocks that are guaranteed to reference the same accumulator leaf more than
// once (same element twice and three times, the same contract in a revision and a
// resolution, the same chain-index element in two storage proofs). Each block goes
// through the full per-value oracle as types.V2Block / V2BlockData and inside the
// gateway objects that carry the multiproof block form. Consensus validity of the
// directed blocks is irrelevant here: the codec must round-trip any block whose
// equal-index elements carry equal proofs.

import (
	"math/rand"
	"reflect"

	"go.sia.tech/core/consensus"
	"go.sia.tech/core/gateway"
	"go.sia.tech/core/types"
	"verif/harness/internal/chain"
	"verif/harness/internal/fw"
)

// c11LeafCounts: how often each accumulator leaf is referenced by the v2 transactions
// of b (the leaves the multiproof covers; ephemeral elements excluded).
func c11LeafCounts(b types.Block) map[uint64]int {
	m := map[uint64]int{}
	visit := func(se types.StateElement) {
		if se.LeafIndex != types.UnassignedLeafIndex {
			m[se.LeafIndex]++
		}
	}
	for _, txn := range b.V2Transactions() {
		for _, in := range txn.SiacoinInputs {
			visit(in.Parent.StateElement)
		}
		for _, in := range txn.SiafundInputs {
			visit(in.Parent.StateElement)
		}
		for _, r := range txn.FileContractRevisions {
			visit(r.Parent.StateElement)
		}
		for _, r := range txn.FileContractResolutions {
			visit(r.Parent.StateElement)
			if sp, ok := r.Resolution.(*types.V2StorageProof); ok {
				visit(sp.ProofIndex.StateElement)
			}
		}
	}
	return m
}

func c11MaxDup(b types.Block) int {
	mx := 0
	for _, n := range c11LeafCounts(b) {
		if n > mx {
			mx = n
		}
	}
	return mx
}

func c11CopyBlock(b types.Block) types.Block {
	var out types.Block
	c11DeepCopy(reflect.ValueOf(&out).Elem(), reflect.ValueOf(&b).Elem())
	return out
}

// c11DupBlocks derives from a v2 block the directed variants that reference one leaf
// several times; equal-index elements carry equal (copied) proofs.
func c11DupBlocks(b types.Block) (out []struct {
	kind string
	b    types.Block
}) {
	if b.V2 == nil {
		return
	}
	add := func(kind string, txns ...types.V2Transaction) {
		nb := c11CopyBlock(b)
		for _, t := range txns {
			var tc types.V2Transaction
			c11DeepCopy(reflect.ValueOf(&tc).Elem(), reflect.ValueOf(&t).Elem())
			nb.V2.Transactions = append(nb.V2.Transactions, tc)
		}
		out = append(out, struct {
			kind string
			b    types.Block
		}{kind, nb})
	}
	var sci *types.V2SiacoinInput
	var sfi *types.V2SiafundInput
	var fce *types.V2FileContractElement
	var rev *types.V2FileContractRevision
	var sp *types.V2StorageProof
	for ti := range b.V2.Transactions {
		txn := &b.V2.Transactions[ti]
		for i := range txn.SiacoinInputs {
			if sci == nil && txn.SiacoinInputs[i].Parent.StateElement.LeafIndex != types.UnassignedLeafIndex {
				sci = &txn.SiacoinInputs[i]
			}
		}
		for i := range txn.SiafundInputs {
			if sfi == nil && txn.SiafundInputs[i].Parent.StateElement.LeafIndex != types.UnassignedLeafIndex {
				sfi = &txn.SiafundInputs[i]
			}
		}
		for i := range txn.FileContractRevisions {
			if txn.FileContractRevisions[i].Parent.StateElement.LeafIndex != types.UnassignedLeafIndex {
				if rev == nil {
					rev = &txn.FileContractRevisions[i]
				}
				if fce == nil {
					fce = &txn.FileContractRevisions[i].Parent
				}
			}
		}
		for i := range txn.FileContractResolutions {
			r := &txn.FileContractResolutions[i]
			if fce == nil && r.Parent.StateElement.LeafIndex != types.UnassignedLeafIndex {
				fce = &r.Parent
			}
			if p, ok := r.Resolution.(*types.V2StorageProof); ok && sp == nil {
				sp = p
			}
		}
	}
	if sci != nil {
		t := types.V2Transaction{SiacoinInputs: []types.V2SiacoinInput{*sci}}
		add("same-siacoin-element-twice", t)
		add("same-siacoin-element-three-times", t, t)
	}
	if sfi != nil {
		add("same-siafund-element-twice", types.V2Transaction{SiafundInputs: []types.V2SiafundInput{*sfi}})
	}
	if rev != nil {
		add("same-contract-revised-twice", types.V2Transaction{FileContractRevisions: []types.V2FileContractRevision{*rev}})
		add("same-contract-revision-and-resolution", types.V2Transaction{FileContractResolutions: []types.V2FileContractResolution{
			{Parent: rev.Parent, Resolution: &types.V2FileContractExpiration{}}}})
	}
	if fce != nil {
		add("same-contract-resolved-twice", types.V2Transaction{FileContractResolutions: []types.V2FileContractResolution{
			{Parent: *fce, Resolution: &types.V2FileContractExpiration{}}, {Parent: *fce, Resolution: &types.V2FileContractExpiration{}}}})
	}
	if sp != nil && fce != nil {
		// two more storage proofs against the same chain-index element
		add("same-chain-index-in-storage-proofs", types.V2Transaction{FileContractResolutions: []types.V2FileContractResolution{
			{Parent: *fce, Resolution: sp}}}, types.V2Transaction{FileContractResolutions: []types.V2FileContractResolution{
			{Parent: *fce, Resolution: sp}}})
	}
	return
}

func c11Chain(c *fw.Ctx, g *c11Gen, known map[string]bool, model *c11Model) {
	res := c.Res
	byLean := map[string]c11Codec{}
	for _, ct := range c11Types() {
		if _, dup := byLean[ct.lean]; !dup {
			byLean[ct.lean] = ct
		}
	}
	check := func(lean string, p any, tag string) {
		ct, ok := byLean[lean]
		if !ok {
			return
		}
		// documented normal form (v1 revision payout sentinel, …) before comparing
		c11NormaliseDeep(g, reflect.ValueOf(p).Elem(), 0)
		c11CheckValue(c, g, ct, p, known[lean], model, nil, tag)
	}
	checkBlock := func(b types.Block, tag string) {
		res.Count("chain:blocks:" + tag)
		switch n := c11MaxDup(b); {
		case n >= 3:
			res.Count("chain:blocks-with-a-leaf-referenced-3+-times")
			fallthrough
		case n == 2:
			res.Count("chain:blocks-with-duplicate-leaves")
		}
		b1 := c11CopyBlock(b)
		check("Types_V2Block", (*types.V2Block)(&b1), tag)
		if b.V2 != nil {
			d := c11CopyBlock(b)
			check("Types_V2BlockData", d.V2, tag)
		}
		check("Gateway_RPCSendV2Blocks_Response", &gateway.RPCSendV2Blocks{Blocks: []types.Block{c11CopyBlock(b)}, Remaining: 3}, tag)
		var st consensus.State
		g.fill(reflect.ValueOf(&st).Elem(), 2)
		check("Gateway_RPCSendCheckpoint_Response", &gateway.RPCSendCheckpoint{Block: c11CopyBlock(b), State: st}, tag)
		if b.V2 != nil && len(b.MinerPayouts) > 0 {
			full := c11CopyBlock(b)
			c11NormaliseDeep(g, reflect.ValueOf(&full).Elem(), 0) // before the outline points into it
			check("Gateway_RPCRelayV2BlockOutline_Request", &gateway.RPCRelayV2BlockOutline{Block: gateway.OutlineBlock(full, nil, nil)}, tag)
			// the same outline with some transactions left out (hash only)
			part := c11CopyBlock(b)
			c11NormaliseDeep(g, reflect.ValueOf(&part).Elem(), 0)
			var dropV1 []types.Transaction
			var dropV2 []types.V2Transaction
			for i := range part.Transactions {
				if i%2 == 1 {
					dropV1 = append(dropV1, part.Transactions[i])
				}
			}
			for i := range part.V2.Transactions {
				if i%2 == 1 {
					dropV2 = append(dropV2, part.V2.Transactions[i])
				}
			}
			ob := gateway.OutlineBlock(part, dropV1, dropV2)
			check("Gateway_V2BlockOutline", &ob, tag)
		}
	}
	steps := c.Budget(60, 400)
	for _, mode := range []string{"v2", "mixed", "legacy"} {
		n := steps
		if mode == "legacy" {
			n = steps / 5
		}
		s := chain.NewSim(rand.New(rand.NewSource(c.Rng.Int63())), mode)
		for i := 0; i < n; i++ {
			p, _, err := s.Step()
			if err != nil {
				res.Note("chain simulator (%s) stopped at step %d: %v", mode, i, err)
				break
			}
			checkBlock(p.Block, "sim-"+mode)
			if i%3 == 0 || c.Thorough() {
				for _, d := range c11DupBlocks(p.Block) {
					res.Count("chain:directed:" + d.kind)
					checkBlock(d.b, "directed")
				}
			}
		}
		for k, v := range s.Counts {
			if k == "v2:revise-again-same-block" || k == "v2:proof" {
				res.CountN("chain:sim:"+mode+":"+k, v)
			}
		}
	}
}
