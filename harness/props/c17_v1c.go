package props

// C17, v1 era, the whole constructors:
//   rhp/v2 PrepareContractFormation, CalculateHostPayouts, PrepareContractRenewal,
//          ContractFormationCost, ContractRenewalCost, Contract*Collateral
//   rhp/v3 RenewalCosts, CalculateHostPayouts, PrepareContractRenewal, ContractRenewalCost,
//          PayByContract
// (1) correspondence: every call also goes to the Lean driver (op `rhp1c …`: generated
//     CalculateHostPayouts / collateral functions, hand model for the rest);
// (2) oracle from the statement: valid sum = missed sum, payout = valid + tax(payout),
//     renter cost + host contribution fund payout (+ fee) exactly, PayByContract keeps
//     both sums, bumps the revision number, refuses iff funds are short and then leaves
//     the revision untouched;
// (3) end to end on a v1-era chain (chain.NewSim "v1"): formation, PayByContract
//     revisions, v2- and v3-style renewals as real signed transactions through
//     consensus.ValidateTransaction and ValidateBlock.

import (
	"fmt"
	"math/big"
	"strings"

	"go.sia.tech/core/consensus"
	rhp2 "go.sia.tech/core/rhp/v2"
	rhp3 "go.sia.tech/core/rhp/v3"
	"go.sia.tech/core/types"
	"verif/harness/internal/chain"
	"verif/harness/internal/fw"
)

func c17ShowV1(fc types.FileContract) string {
	var b strings.Builder
	fmt.Fprintf(&b, "%d %d %d %s %d %d", fc.Filesize, fc.WindowStart, fc.WindowEnd, fc.Payout.ExactString(), fc.RevisionNumber, len(fc.ValidProofOutputs))
	for _, o := range fc.ValidProofOutputs {
		b.WriteString(" " + o.Value.ExactString())
	}
	fmt.Fprintf(&b, " %d", len(fc.MissedProofOutputs))
	for _, o := range fc.MissedProofOutputs {
		b.WriteString(" " + o.Value.ExactString())
	}
	return b.String()
}

type c17V1Out struct {
	out     string
	nontriv bool
	bucket  string
	viol    []fw.Violation
}

func (o *c17V1Out) violate(key, what, line, exp, obs string) {
	o.viol = append(o.viol, fw.Violation{Key: key, What: what, Replay: map[string]any{"kind": "line", "line": line}, Expected: exp, Observed: obs})
}

// the two value rules of validateFileContracts, from the statement
func (o *c17V1Out) checkV1Contract(what, line string, fc types.FileContract) {
	p := fc.Payout.Big()
	valid, missed := c17SumOutputs(fc.ValidProofOutputs), c17SumOutputs(fc.MissedProofOutputs)
	if missed.Cmp(valid) != 0 {
		o.violate("c17-v1-missed-sum", what+": missed outputs do not sum to the valid outputs", line, valid.String(), missed.String())
	}
	if c17Add(valid, c17V1Tax(p)).Cmp(p) != 0 {
		o.violate("c17-v1-tax-equation", what+": payout != valid outputs + tax(payout)", line, c17Add(valid, c17V1Tax(p)).String(), p.String())
	}
}

var c17PostTax = consensus.State{Network: &consensus.Network{}}

func c17V1PT(r *c17Toks) (pt rhp3.HostPriceTable) {
	pt.ContractPrice = r.cur()
	pt.CollateralCost = r.cur()
	pt.WriteStoreCost = r.cur()
	pt.MaxCollateral = r.cur()
	pt.RenewContractCost = r.cur()
	pt.WindowSize = r.u64()
	pt.HostBlockHeight = r.u64()
	return
}

func c17ShowPT(pt rhp3.HostPriceTable) string {
	return fmt.Sprintf("%s %s %s %s %s %d %d", pt.ContractPrice.ExactString(), pt.CollateralCost.ExactString(), pt.WriteStoreCost.ExactString(),
		pt.MaxCollateral.ExactString(), pt.RenewContractCost.ExactString(), pt.WindowSize, pt.HostBlockHeight)
}

// c17V1Eval runs the real code on one `rhp1c` line.
func c17V1Eval(line string) (o c17V1Out) {
	f := strings.Fields(line)
	if len(f) < 2 || f[0] != "rhp1c" {
		o.out = "bad-op"
		return
	}
	op := f[1]
	r := &c17Toks{t: f[2:]}
	o.bucket = "v1c:" + op
	o.nontriv = true
	switch op {
	case "form":
		rp, hc, cp := r.cur(), r.cur(), r.cur()
		end, ws := r.u64(), r.u64()
		if !r.done() {
			o.out = "bad-op"
			return
		}
		hs := rhp2.HostSettings{ContractPrice: cp, WindowSize: ws}
		var fc types.FileContract
		panicked, msg := fw.Recover(func() {
			fc = rhp2.PrepareContractFormation(types.PublicKey{1}, types.PublicKey{2}, rp, hc, end, hs, types.Address{})
		})
		total := c17Add(c17B(rp), c17B(hc), c17B(cp))
		fits := new(big.Int).Mul(total, big.NewInt(1000)).Cmp(c17W128) < 0
		if panicked {
			o.out = "panic"
			if fits {
				o.violate("c17-constructor-panic:PrepareContractFormation", "rhp/v2 PrepareContractFormation panics ("+msg+") although 1000*(payouts) fits in 128 bits", line, "no panic", "panic")
			}
			return
		}
		o.out = "ok " + c17ShowV1(fc)
		o.checkV1Contract("rhp/v2 PrepareContractFormation", line, fc)
		if c17SumOutputs(fc.ValidProofOutputs).Cmp(total) != 0 {
			o.violate("c17-v1-formation-outputs", "formation valid outputs are not renter payout + contract price + collateral", line, total.String(), c17SumOutputs(fc.ValidProofOutputs).String())
		}
		// renter cost + host collateral fund the payout exactly
		var cost types.Currency
		if p2, _ := fw.Recover(func() { cost = rhp2.ContractFormationCost(c17PostTax, fc, cp) }); !p2 {
			if c17Add(c17B(cost), c17B(hc)).Cmp(c17B(fc.Payout)) != 0 {
				o.violate("c17-v1-formation-cost", "ContractFormationCost + host collateral != payout", line, fc.Payout.ExactString(), c17Add(c17B(cost), c17B(hc)).String())
			}
		}
	case "hostpay2", "renew2":
		fs, wend := r.u64(), r.u64()
		var rp types.Currency
		if op == "renew2" {
			rp = r.cur()
		}
		nc, cp, sp, coll := r.cur(), r.cur(), r.cur(), r.cur()
		end, ws := r.u64(), r.u64()
		if !r.done() {
			o.out = "bad-op"
			return
		}
		hs := rhp2.HostSettings{ContractPrice: cp, StoragePrice: sp, Collateral: coll, WindowSize: ws}
		cur := types.FileContract{Filesize: fs, WindowEnd: wend}
		if op == "hostpay2" {
			var hv, hm, vm, bp types.Currency
			panicked, _ := fw.Recover(func() { hv, hm, vm, bp = rhp2.CalculateHostPayouts(cur, nc, hs, end) })
			if panicked {
				o.out = "panic"
				return
			}
			o.out = fmt.Sprintf("ok %s %s %s %s", hv.ExactString(), hm.ExactString(), vm.ExactString(), bp.ExactString())
			if c17Add(c17B(hm), c17B(vm)).Cmp(c17B(hv)) != 0 {
				o.violate("c17-v1-host-payouts", "rhp/v2 CalculateHostPayouts: missed + void != valid", line, hv.ExactString(), c17Add(c17B(hm), c17B(vm)).String())
			}
			return
		}
		var fc types.FileContract
		var bp types.Currency
		panicked, _ := fw.Recover(func() {
			fc, bp = rhp2.PrepareContractRenewal(types.FileContractRevision{FileContract: cur}, types.Address{}, rp, nc, hs, end)
		})
		if panicked {
			o.out = "panic"
			return
		}
		o.out = "ok " + c17ShowV1(fc) + " " + bp.ExactString()
		o.checkV1Contract("rhp/v2 PrepareContractRenewal", line, fc)
		// renter cost + host contribution = payout + miner fee
		fee := types.NewCurrency64(777)
		var cost types.Currency
		if p2, _ := fw.Recover(func() { cost = rhp2.ContractRenewalCost(c17PostTax, fc, cp, fee, bp) }); !p2 {
			hostPart := c17Sub(c17Sub(c17B(fc.ValidProofOutputs[1].Value), c17B(cp)), c17B(bp))
			if hostPart.Sign() < 0 || c17Add(c17B(cost), hostPart).Cmp(c17Add(c17B(fc.Payout), c17B(fee))) != 0 {
				o.violate("c17-v1-renewal-cost", "rhp/v2 ContractRenewalCost + host contribution != payout + miner fee", line, c17Add(c17B(fc.Payout), c17B(fee)).String(), c17Add(c17B(cost), hostPart).String())
			}
		}
	case "formcoll2":
		period, storage := r.u64(), r.u64()
		coll, maxc := r.cur(), r.cur()
		if !r.done() {
			o.out = "bad-op"
			return
		}
		var v types.Currency
		if panicked, _ := fw.Recover(func() { v = rhp2.ContractFormationCollateral(period, storage, rhp2.HostSettings{Collateral: coll, MaxCollateral: maxc}) }); panicked {
			o.out = "panic"
		} else {
			o.out = "ok " + v.ExactString()
			if v.Cmp(maxc) > 0 {
				o.violate("c17-v1-collateral-cap", "ContractFormationCollateral exceeds MaxCollateral", line, "<= "+maxc.ExactString(), v.ExactString())
			}
		}
	case "renewcoll2":
		fs, wstart, wend, ens := r.u64(), r.u64(), r.u64(), r.u64()
		coll, maxc := r.cur(), r.cur()
		bh, end := r.u64(), r.u64()
		if !r.done() {
			o.out = "bad-op"
			return
		}
		var v types.Currency
		if panicked, _ := fw.Recover(func() {
			v = rhp2.ContractRenewalCollateral(types.FileContract{Filesize: fs, WindowStart: wstart, WindowEnd: wend}, ens, rhp2.HostSettings{Collateral: coll, MaxCollateral: maxc}, bh, end)
		}); panicked {
			o.out = "panic"
		} else {
			o.out = "ok " + v.ExactString()
		}
	case "costs3", "hostpay3", "renew3":
		fs := r.u64()
		var wstart uint64
		if op != "costs3" {
			wstart = r.u64()
		}
		wend := r.u64()
		var rp, minNC types.Currency
		if op == "renew3" {
			rp = r.cur()
		}
		if op != "costs3" {
			minNC = r.cur()
		}
		pt := c17V1PT(r)
		ens, end := r.u64(), r.u64()
		if !r.done() {
			o.out = "bad-op"
			return
		}
		cur := types.FileContract{Filesize: fs, WindowStart: wstart, WindowEnd: wend}
		switch op {
		case "costs3":
			var a, b, c types.Currency
			if panicked, _ := fw.Recover(func() { a, b, c = rhp3.RenewalCosts(cur, pt, ens, end) }); panicked {
				o.out = "panic"
			} else {
				o.out = fmt.Sprintf("ok %s %s %s", a.ExactString(), b.ExactString(), c.ExactString())
				if c17Add(c17B(b), c17B(c)).Cmp(c17B(pt.MaxCollateral)) > 0 && c17B(b).Cmp(c17B(pt.MaxCollateral)) <= 0 {
					o.violate("c17-v1-collateral-cap", "rhp/v3 RenewalCosts: base + new collateral exceeds MaxCollateral", line, "<= "+pt.MaxCollateral.ExactString(), c17Add(c17B(b), c17B(c)).String())
				}
			}
		case "hostpay3":
			var hv, hm, vm, bp types.Currency
			var err error
			if panicked, _ := fw.Recover(func() { hv, hm, vm, bp, err = rhp3.CalculateHostPayouts(cur, minNC, pt, ens, end) }); panicked {
				o.out = "panic"
			} else if err != nil {
				o.out = "err"
			} else {
				o.out = fmt.Sprintf("ok %s %s %s %s", hv.ExactString(), hm.ExactString(), vm.ExactString(), bp.ExactString())
				if c17Add(c17B(hm), c17B(vm)).Cmp(c17B(hv)) != 0 {
					o.violate("c17-v1-host-payouts", "rhp/v3 CalculateHostPayouts: missed + void != valid", line, hv.ExactString(), c17Add(c17B(hm), c17B(vm)).String())
				}
			}
		case "renew3":
			var fc types.FileContract
			var bp types.Currency
			var err error
			if panicked, _ := fw.Recover(func() {
				fc, bp, err = rhp3.PrepareContractRenewal(types.FileContractRevision{FileContract: cur}, types.Address{}, types.Address{}, rp, minNC, pt, ens, end)
			}); panicked {
				o.out = "panic"
			} else if err != nil {
				o.out = "err"
			} else {
				o.out = "ok " + c17ShowV1(fc) + " " + bp.ExactString()
				o.checkV1Contract("rhp/v3 PrepareContractRenewal", line, fc)
				fee := types.NewCurrency64(777)
				var cost types.Currency
				if p2, _ := fw.Recover(func() { cost = rhp3.ContractRenewalCost(c17PostTax, pt, fc, fee, bp) }); !p2 {
					hostPart := c17Sub(c17Sub(c17B(fc.ValidProofOutputs[1].Value), c17B(pt.ContractPrice)), c17B(bp))
					if hostPart.Sign() < 0 || c17Add(c17B(cost), hostPart).Cmp(c17Add(c17B(fc.Payout), c17B(fee))) != 0 {
						o.violate("c17-v1-renewal-cost", "rhp/v3 ContractRenewalCost + host contribution != payout + miner fee", line, c17Add(c17B(fc.Payout), c17B(fee)).String(), c17Add(c17B(cost), hostPart).String())
					}
				}
			}
		}
	case "paybc":
		rev := r.u64()
		amount := r.cur()
		nv := int(r.u64())
		var fcr types.FileContractRevision
		fcr.FileContract.RevisionNumber = rev
		for i := 0; i < nv && !r.bad; i++ {
			fcr.FileContract.ValidProofOutputs = append(fcr.FileContract.ValidProofOutputs, types.SiacoinOutput{Value: r.cur(), Address: types.Address{byte(i)}})
		}
		nm := int(r.u64())
		for i := 0; i < nm && !r.bad; i++ {
			fcr.FileContract.MissedProofOutputs = append(fcr.FileContract.MissedProofOutputs, types.SiacoinOutput{Value: r.cur(), Address: types.Address{byte(i)}})
		}
		if !r.done() {
			o.out = "bad-op"
			return
		}
		before := fcr
		before.FileContract.ValidProofOutputs = append([]types.SiacoinOutput(nil), fcr.FileContract.ValidProofOutputs...)
		before.FileContract.MissedProofOutputs = append([]types.SiacoinOutput(nil), fcr.FileContract.MissedProofOutputs...)
		sk := types.NewPrivateKeyFromSeed(make([]byte, 32))
		var ok bool
		var req rhp3.PayByContractRequest
		panicked, msg := fw.Recover(func() { req, ok = rhp3.PayByContract(&fcr, amount, rhp3.Account{1}, sk) })
		wellFormed := nv >= 2 && nm >= 2
		a := c17B(amount)
		if panicked {
			o.out = "panic"
			if wellFormed && c17Fits(c17Add(c17B(before.FileContract.ValidProofOutputs[1].Value), a), c17Add(c17B(before.FileContract.MissedProofOutputs[1].Value), a)) {
				o.violate("c17-constructor-panic:PayByContract", "PayByContract panics ("+msg+") on a revision with renter and host outputs and fitting sums", line, "no panic", "panic")
			}
			return
		}
		fc := fcr.FileContract
		if !ok {
			o.out = "false"
		} else {
			o.out = fmt.Sprintf("ok %d", fc.RevisionNumber)
			o.out += fmt.Sprintf(" %d", len(fc.ValidProofOutputs))
			for _, x := range fc.ValidProofOutputs {
				o.out += " " + x.Value.ExactString()
			}
			o.out += fmt.Sprintf(" %d", len(fc.MissedProofOutputs))
			for _, x := range fc.MissedProofOutputs {
				o.out += " " + x.Value.ExactString()
			}
		}
		if !wellFormed {
			o.nontriv = false
			return
		}
		b := before.FileContract
		short := c17B(b.ValidProofOutputs[0].Value).Cmp(a) < 0 || c17B(b.MissedProofOutputs[0].Value).Cmp(a) < 0
		if ok == short {
			o.violate("c17-pay-by-contract:refuses-iff-short", "PayByContract must refuse exactly when the valid or missed renter output is below the amount", line, fmt.Sprint(!short), fmt.Sprint(ok))
		}
		if !ok {
			if c17ShowV1(fc) != c17ShowV1(b) {
				o.violate("c17-pay-by-contract:failure-modifies-revision", "PayByContract refused but modified the revision", line, c17ShowV1(b), c17ShowV1(fc))
			}
			return
		}
		if c17SumOutputs(fc.ValidProofOutputs).Cmp(c17SumOutputs(b.ValidProofOutputs)) != 0 || c17SumOutputs(fc.MissedProofOutputs).Cmp(c17SumOutputs(b.MissedProofOutputs)) != 0 {
			o.violate("c17-pay-by-contract:totals", "PayByContract changes the valid or missed output sum", line, c17ShowV1(b), c17ShowV1(fc))
		}
		if b.RevisionNumber < c17MaxU64 && fc.RevisionNumber != b.RevisionNumber+1 {
			o.violate("c17-pay-by-contract:revision-number", "PayByContract does not increment the revision number", line, fmt.Sprint(b.RevisionNumber+1), fmt.Sprint(fc.RevisionNumber))
		}
		if c17Sub(c17B(b.ValidProofOutputs[0].Value), a).Cmp(c17B(fc.ValidProofOutputs[0].Value)) != 0 || c17Add(c17B(b.ValidProofOutputs[1].Value), a).Cmp(c17B(fc.ValidProofOutputs[1].Value)) != 0 ||
			c17Sub(c17B(b.MissedProofOutputs[0].Value), a).Cmp(c17B(fc.MissedProofOutputs[0].Value)) != 0 || c17Add(c17B(b.MissedProofOutputs[1].Value), a).Cmp(c17B(fc.MissedProofOutputs[1].Value)) != 0 {
			o.violate("c17-pay-by-contract:transfer", "PayByContract does not move exactly the amount from renter to host in both output sets", line, c17ShowV1(b), c17ShowV1(fc))
		}
		for i := 2; i < len(b.ValidProofOutputs); i++ {
			if fc.ValidProofOutputs[i] != b.ValidProofOutputs[i] {
				o.violate("c17-pay-by-contract:other-outputs", "PayByContract touches another valid output", line, "", "")
			}
		}
		for i := 2; i < len(b.MissedProofOutputs); i++ {
			if fc.MissedProofOutputs[i] != b.MissedProofOutputs[i] {
				o.violate("c17-pay-by-contract:other-outputs", "PayByContract touches another missed output", line, "", "")
			}
		}
		// the request carries the new values
		if len(req.ValidProofValues) != len(fc.ValidProofOutputs) || len(req.MissedProofValues) != len(fc.MissedProofOutputs) || req.RevisionNumber != fc.RevisionNumber {
			o.violate("c17-pay-by-contract:request", "PayByContractRequest does not carry the revised values", line, "", "")
		}
	default:
		o.out = "bad-op"
	}
	return
}

// ---------------------------------------------------------------- generators + runner

func c17V1Contracts(c *fw.Ctx) {
	res := c.Res
	g := c17Gen{c}
	var lines, outs []string
	do := func(line string) {
		o := c17V1Eval(line)
		res.Eval(line, o.nontriv)
		res.Count(o.bucket)
		if o.out == "panic" {
			res.Count(o.bucket + ":panic")
		} else if o.out == "err" || o.out == "false" {
			res.Count(o.bucket + ":refused")
		}
		for _, v := range o.viol {
			res.Violate(v)
		}
		lines = append(lines, line)
		outs = append(outs, o.out)
		if len(lines)%2999 == 0 {
			res.Sample(map[string]string{"op": line, "go": o.out})
		}
	}
	cur := func(bits uint) string {
		if c.Rng.Intn(25) == 0 {
			return g.wildCur().ExactString()
		}
		return g.curBits(bits).ExactString()
	}
	height := func() uint64 {
		switch c.Rng.Intn(12) {
		case 0:
			return g.wildU64()
		case 1:
			return c17MaxU64 - uint64(c.Rng.Intn(100))
		}
		return uint64(c.Rng.Intn(200000))
	}
	n := c.Budget(6000, 400000)
	for i := 0; i < n; i++ {
		end := height()
		ws := uint64(c.Rng.Intn(2000))
		wend := end - uint64(c.Rng.Intn(3000)) + uint64(c.Rng.Intn(1500))
		fs := uint64(c.Rng.Int63n(1 << 40))
		if c.Rng.Intn(10) == 0 {
			fs = g.wildU64()
		}
		pt := rhp3.HostPriceTable{ContractPrice: g.curBits(90), CollateralCost: g.curBits(35), WriteStoreCost: g.curBits(35), MaxCollateral: g.curBits(110),
			RenewContractCost: g.curBits(70), WindowSize: ws, HostBlockHeight: end - uint64(c.Rng.Intn(5000))}
		if c.Rng.Intn(8) == 0 {
			pt.MaxCollateral = g.curBits(40) // cap binds
		}
		switch c.Rng.Intn(10) {
		case 0:
			do(fmt.Sprintf("rhp1c form %s %s %s %d %d", cur(110), cur(110), cur(90), end, ws))
		case 1:
			do(fmt.Sprintf("rhp1c hostpay2 %d %d %s %s %s %s %d %d", fs, wend, cur(100), cur(90), cur(35), cur(35), end, ws))
		case 2:
			do(fmt.Sprintf("rhp1c renew2 %d %d %s %s %s %s %s %d %d", fs, wend, cur(100), cur(100), cur(90), cur(35), cur(35), end, ws))
		case 3:
			do(fmt.Sprintf("rhp1c formcoll2 %d %d %s %s", height(), fs, cur(35), cur(100)))
		case 4:
			do(fmt.Sprintf("rhp1c renewcoll2 %d %d %d %d %s %s %d %d", fs, wend-ws, wend, uint64(c.Rng.Int63n(1<<40)), cur(35), cur(90), end-uint64(c.Rng.Intn(5000)), end))
		case 5:
			do(fmt.Sprintf("rhp1c costs3 %d %d %s %d %d", fs, wend, c17ShowPT(pt), uint64(c.Rng.Int63n(1<<40)), end))
		case 6:
			do(fmt.Sprintf("rhp1c hostpay3 %d %d %d %s %s %d %d", fs, wend-ws, wend, cur(60), c17ShowPT(pt), uint64(c.Rng.Int63n(1<<40)), end))
		case 7:
			minNC := "0"
			if c.Rng.Intn(3) == 0 {
				minNC = cur(80)
			}
			do(fmt.Sprintf("rhp1c renew3 %d %d %d %s %s %s %d %d", fs, wend-ws, wend, cur(100), minNC, c17ShowPT(pt), uint64(c.Rng.Int63n(1<<40)), end))
		default:
			nv, nm := 2, 3
			switch c.Rng.Intn(10) {
			case 0:
				nv, nm = c.Rng.Intn(3), c.Rng.Intn(4)
			case 1:
				nv, nm = 2+c.Rng.Intn(3), 2+c.Rng.Intn(3)
			}
			vals := make([]string, 0, nv+nm)
			var vr, mr *big.Int
			for j := 0; j < nv+nm; j++ {
				v := g.curBits(110)
				if c.Rng.Intn(30) == 0 {
					v = g.wildCur()
				}
				if j == 0 {
					vr = c17B(v)
				}
				if j == nv {
					mr = c17B(v)
				}
				vals = append(vals, v.ExactString())
			}
			amount := g.curBits(110)
			if vr != nil && mr != nil {
				m := vr
				if mr.Cmp(m) < 0 {
					m = mr
				}
				switch c.Rng.Intn(4) {
				case 0:
					amount = bigCur(m) // exact balance
				case 1:
					if a := c17Add(m, big.NewInt(1)); a.Cmp(c17W128) < 0 {
						amount = bigCur(a) // one hasting short
					}
				case 2:
					amount = bigCur(new(big.Int).Rand(c.Rng, c17Add(m, big.NewInt(1))))
				}
			}
			rev := g.wildU64()
			do(fmt.Sprintf("rhp1c paybc %d %s %d %s %d %s", rev, amount.ExactString(), nv, strings.Join(vals[:nv], " "), nm, strings.Join(vals[nv:], " ")))
		}
	}
	// fix up accidental double spaces from empty joins
	for i := range lines {
		lines[i] = strings.Join(strings.Fields(lines[i]), " ")
	}
	c.Compare(lines, outs)
	c17V1E2E(c)
}

// ---------------------------------------------------------------- end to end on a v1 chain

type c17V1Chain struct {
	c        *fw.Ctx
	s        *chain.Sim
	renter   types.PrivateKey
	host     types.PrivateKey
	uc       types.UnlockConditions
	seq      int
	hostAddr types.Address
}

func (ch *c17V1Chain) replay() map[string]any {
	return map[string]any{"kind": "e2e-v1", "seed": ch.c.Seed, "sequence": ch.seq}
}

// pick an unspent, mature, v1-spendable wallet output worth at least min
func (ch *c17V1Chain) pick(min *big.Int, used map[types.SiacoinOutputID]bool) (types.SiacoinElement, *chain.Recipe, bool) {
	s := ch.s
	for _, e := range s.St.SortedSC() {
		if used[e.ID] || e.MaturityHeight > s.ChildHeight() || e.SiacoinOutput.Value.Big().Cmp(min) <= 0 {
			continue
		}
		r := s.RecipeFor(e.SiacoinOutput.Address)
		if r == nil || !r.V1Spendable() || !s.Spendable(e.SiacoinOutput.Address, false) || r.MinHeight > s.ChildHeight() {
			continue
		}
		return e, r, true
	}
	return types.SiacoinElement{}, nil, false
}

// mine one block with the given transactions (plus the contracts expiring now)
func (ch *c17V1Chain) mine(txns []types.Transaction, supps []consensus.V1TransactionSupplement) error {
	s := ch.s
	b := types.Block{Timestamp: s.NextTimestamp(), Transactions: txns}
	bs := consensus.V1BlockSupplement{Transactions: supps}
	touched := map[types.FileContractID]bool{}
	for _, t := range txns {
		for _, rev := range t.FileContractRevisions {
			touched[rev.ParentID] = true
		}
	}
	for _, e := range s.St.SortedFC() {
		if e.FileContract.WindowEnd <= s.ChildHeight() && !touched[e.ID] {
			bs.ExpiringFileContracts = append(bs.ExpiringFileContracts, e.Copy())
		}
	}
	s.Seal(&b, s.NewAddr(false))
	_, err := s.Apply(b, bs)
	if err == nil {
		ch.c.Res.Count("e2e-v1:blocks-mined")
	}
	return err
}

// fundedContractTxn: one wallet input, the contract, a fee and a change output such that
// the parties' contributions (`contrib`, as computed by the rhp cost functions) and the fee are paid.
func (ch *c17V1Chain) fundedContractTxn(fc types.FileContract, contrib *big.Int, fee types.Currency) (types.Transaction, consensus.V1TransactionSupplement, bool) {
	need := c17Add(contrib, c17B(fee))
	e, r, ok := ch.pick(need, nil)
	if !ok {
		return types.Transaction{}, consensus.V1TransactionSupplement{}, false
	}
	change := c17Sub(e.SiacoinOutput.Value.Big(), need)
	txn := types.Transaction{
		SiacoinInputs:  []types.SiacoinInput{{ParentID: e.ID, UnlockConditions: *r.UC}},
		SiacoinOutputs: []types.SiacoinOutput{{Value: bigCur(change), Address: ch.s.NewAddr(false)}},
		FileContracts:  []types.FileContract{fc},
		MinerFees:      []types.Currency{fee},
	}
	ts := consensus.V1TransactionSupplement{SiacoinInputs: []types.SiacoinElement{e.Copy()}}
	if !ch.s.ResignV1(&txn) {
		return txn, ts, false
	}
	return txn, ts, true
}

func (ch *c17V1Chain) validate(txn types.Transaction, ts consensus.V1TransactionSupplement) (err error) {
	panicked, msg := fw.Recover(func() { err = consensus.ValidateTransaction(consensus.NewMidState(ch.s.Tip), txn, ts) })
	if panicked {
		return fmt.Errorf("PANIC in ValidateTransaction: %s", msg)
	}
	return
}

func (ch *c17V1Chain) sequence(g c17Gen) {
	c, res, s := ch.c, ch.c.Res, ch.s
	ch.seq++
	child := s.ChildHeight()
	sc := func(maxSC int) types.Currency { // up to maxSC siacoins, any hasting amount
		return bigCur(new(big.Int).Rand(c.Rng, types.Siacoins(uint32(maxSC)).Big()))
	}
	hs := rhp2.HostSettings{ContractPrice: sc(2), Collateral: g.curBits(20), StoragePrice: g.curBits(20), MaxCollateral: sc(1000),
		WindowSize: uint64(1 + c.Rng.Intn(6)), Address: ch.hostAddr}
	renterAddr := s.NewAddr(false)
	end := child + 3 + uint64(c.Rng.Intn(12))
	rp, hc := sc(40), sc(40)
	fee := bigCur(c17Add(sc(1).Big(), big.NewInt(1)))
	var fc types.FileContract
	var cost types.Currency
	if panicked, msg := fw.Recover(func() {
		fc = rhp2.PrepareContractFormation(ch.renter.PublicKey(), ch.host.PublicKey(), rp, hc, end, hs, renterAddr)
		cost = rhp2.ContractFormationCost(s.Tip, fc, hs.ContractPrice)
	}); panicked {
		res.Violate(fw.Violation{Key: "c17-constructor-panic:PrepareContractFormation", What: "formation constructors panic on siacoin-scale values: " + msg, Replay: ch.replay()})
		return
	}
	txn, ts, ok := ch.fundedContractTxn(fc, c17Add(c17B(cost), c17B(hc)), fee)
	if !ok {
		res.Count("e2e-v1:no-funds")
		return
	}
	err := ch.validate(txn, ts)
	res.Eval("e2e-v1 form "+c17ShowV1(fc), true)
	res.Count("e2e-v1:formation")
	if err != nil {
		res.Violate(fw.Violation{Key: "c17-v1-formation-rejected", What: "v1 formation transaction (PrepareContractFormation funded by ContractFormationCost + collateral) is rejected by consensus", Replay: ch.replay(),
			Expected: "accepted", Observed: err.Error() + " | " + c17ShowV1(fc)})
		return
	}
	// the judge is alive: one hasting more payout breaks the tax equation
	bad := txn
	bad.FileContracts = []types.FileContract{fc}
	bad.FileContracts[0].Payout = fc.Payout.Add(types.NewCurrency64(1))
	bad.SiacoinOutputs = []types.SiacoinOutput{{Value: txn.SiacoinOutputs[0].Value.Sub(types.NewCurrency64(1)), Address: txn.SiacoinOutputs[0].Address}}
	if s.ResignV1(&bad) {
		if e := ch.validate(bad, ts); e == nil {
			res.Count("e2e-v1:judge-accepted-wrong-payout")
			res.Note("consensus accepted a v1 contract whose payout was raised by one hasting (tax rounding window): %s", c17ShowV1(bad.FileContracts[0]))
		} else {
			res.Count("e2e-v1:judge-rejects-wrong-payout")
		}
	}
	if err := ch.mine([]types.Transaction{txn}, []consensus.V1TransactionSupplement{ts}); err != nil {
		res.Violate(fw.Violation{Key: "c17-v1-formation-rejected", What: "block with the v1 formation transaction is rejected by ValidateBlock", Replay: ch.replay(), Observed: err.Error()})
		return
	}
	id := txn.FileContractID(0)
	cur := fc

	// ---- PayByContract revisions
	for k := 0; k < 1+c.Rng.Intn(4); k++ {
		fce, ok := s.St.FC[id]
		if !ok || cur.WindowStart < s.ChildHeight() {
			break
		}
		rev := types.FileContractRevision{ParentID: id, UnlockConditions: ch.uc, FileContract: cur}
		rev.FileContract.ValidProofOutputs = append([]types.SiacoinOutput(nil), cur.ValidProofOutputs...)
		rev.FileContract.MissedProofOutputs = append([]types.SiacoinOutput(nil), cur.MissedProofOutputs...)
		bal := cur.ValidProofOutputs[0].Value.Big()
		if m := cur.MissedProofOutputs[0].Value.Big(); m.Cmp(bal) < 0 {
			bal = m
		}
		var amount *big.Int
		switch c.Rng.Intn(4) {
		case 0:
			amount = new(big.Int).Set(bal) // exact balance
		case 1:
			amount = c17Add(bal, big.NewInt(1))
		default:
			amount = new(big.Int).Rand(c.Rng, c17Add(bal, big.NewInt(1)))
		}
		var paid bool
		if panicked, msg := fw.Recover(func() { _, paid = rhp3.PayByContract(&rev, bigCur(amount), rhp3.Account{9}, ch.renter) }); panicked {
			res.Violate(fw.Violation{Key: "c17-constructor-panic:PayByContract", What: "PayByContract panics on a live contract: " + msg, Replay: ch.replay()})
			break
		}
		if !paid {
			res.Count("e2e-v1:paybc-refused")
			continue
		}
		rtxn := types.Transaction{FileContractRevisions: []types.FileContractRevision{rev}}
		rts := consensus.V1TransactionSupplement{RevisedFileContracts: []types.FileContractElement{fce.Copy()}}
		if !s.ResignV1(&rtxn) {
			res.Count("e2e-v1:cannot-sign")
			break
		}
		err := ch.validate(rtxn, rts)
		res.Eval("e2e-v1 paybc "+c17ShowV1(rev.FileContract), true)
		res.Count("e2e-v1:pay-by-contract")
		if err != nil {
			res.Violate(fw.Violation{Key: "c17-pay-by-contract-rejected", What: "revision produced by PayByContract is rejected by consensus", Replay: ch.replay(), Expected: "accepted",
				Observed: err.Error() + " | " + c17ShowV1(cur) + " -> " + c17ShowV1(rev.FileContract)})
			break
		}
		if err := ch.mine([]types.Transaction{rtxn}, []consensus.V1TransactionSupplement{rts}); err != nil {
			res.Violate(fw.Violation{Key: "c17-pay-by-contract-rejected", What: "block with the PayByContract revision is rejected by ValidateBlock", Replay: ch.replay(), Observed: err.Error()})
			break
		}
		cur = rev.FileContract
	}

	// ---- renewal (v2 or v3 style)
	if cur.WindowStart < s.ChildHeight() {
		return
	}
	currentRev := types.FileContractRevision{ParentID: id, UnlockConditions: ch.uc, FileContract: cur}
	currentRev.FileContract.Filesize = uint64(c.Rng.Int63n(1 << 32)) // as if data had been uploaded
	newEnd := max(cur.WindowStart, s.ChildHeight()+2) + uint64(c.Rng.Intn(20))
	fee = bigCur(c17Add(sc(1).Big(), big.NewInt(1)))
	var fc2 types.FileContract
	var contrib *big.Int
	var name string
	if c.Rng.Intn(2) == 0 {
		name = "rhp/v2 PrepareContractRenewal"
		var bp, rcost types.Currency
		if panicked, msg := fw.Recover(func() {
			fc2, bp = rhp2.PrepareContractRenewal(currentRev, renterAddr, sc(40), sc(20), hs, newEnd)
			rcost = rhp2.ContractRenewalCost(s.Tip, fc2, hs.ContractPrice, fee, bp)
		}); panicked {
			res.Violate(fw.Violation{Key: "c17-constructor-panic:PrepareContractRenewal-v2", What: "v2 renewal constructors panic on siacoin-scale values: " + msg, Replay: ch.replay()})
			return
		}
		hostPart := c17Sub(c17Sub(c17B(fc2.ValidProofOutputs[1].Value), c17B(hs.ContractPrice)), c17B(bp))
		contrib = c17Sub(c17Add(c17B(rcost), hostPart), c17B(fee)) // ContractRenewalCost already includes the miner fee
	} else {
		name = "rhp/v3 PrepareContractRenewal"
		pt := rhp3.HostPriceTable{ContractPrice: hs.ContractPrice, CollateralCost: hs.Collateral, WriteStoreCost: hs.StoragePrice, MaxCollateral: hs.MaxCollateral,
			RenewContractCost: sc(1), WindowSize: hs.WindowSize, HostBlockHeight: s.Tip.Index.Height}
		var bp, rcost types.Currency
		var rerr error
		if panicked, msg := fw.Recover(func() {
			fc2, bp, rerr = rhp3.PrepareContractRenewal(currentRev, ch.hostAddr, renterAddr, sc(40), types.ZeroCurrency, pt, uint64(c.Rng.Int63n(1<<30)), newEnd)
			if rerr == nil {
				rcost = rhp3.ContractRenewalCost(s.Tip, pt, fc2, fee, bp)
			}
		}); panicked {
			res.Violate(fw.Violation{Key: "c17-constructor-panic:PrepareContractRenewal-v3", What: "v3 renewal constructors panic on siacoin-scale values: " + msg, Replay: ch.replay()})
			return
		}
		if rerr != nil {
			res.Count("e2e-v1:renewal-v3-refused")
			return
		}
		hostPart := c17Sub(c17Sub(c17B(fc2.ValidProofOutputs[1].Value), c17B(pt.ContractPrice)), c17B(bp))
		contrib = c17Sub(c17Add(c17B(rcost), hostPart), c17B(fee))
	}
	if contrib.Sign() < 0 {
		res.Violate(fw.Violation{Key: "c17-v1-renewal-cost", What: name + ": negative contribution", Replay: ch.replay()})
		return
	}
	txn2, ts2, ok := ch.fundedContractTxn(fc2, contrib, fee)
	if !ok {
		res.Count("e2e-v1:no-funds")
		return
	}
	err = ch.validate(txn2, ts2)
	res.Eval("e2e-v1 renew "+c17ShowV1(fc2), true)
	res.Count("e2e-v1:renewal:" + name[:6])
	if err != nil {
		res.Violate(fw.Violation{Key: "c17-v1-renewal-rejected", What: "v1 renewal transaction (" + name + " funded by ContractRenewalCost + host contribution) is rejected by consensus", Replay: ch.replay(),
			Expected: "accepted", Observed: err.Error() + " | " + c17ShowV1(fc2)})
		return
	}
	if err := ch.mine([]types.Transaction{txn2}, []consensus.V1TransactionSupplement{ts2}); err != nil {
		res.Violate(fw.Violation{Key: "c17-v1-renewal-rejected", What: "block with the v1 renewal transaction is rejected by ValidateBlock", Replay: ch.replay(), Observed: err.Error()})
	}
}

func c17V1E2E(c *fw.Ctx) {
	res := c.Res
	s := chain.NewSim(c.Rng, "v1")
	for i := 0; i < 14; i++ { // past every v1 hardfork height, with some history
		if _, _, err := s.Step(); err != nil {
			res.Note("v1 simulator: %v", err)
			return
		}
	}
	if s.ChildHeight() < s.Net.HardforkTax.Height {
		res.Note("v1 simulator did not reach the tax hardfork")
		return
	}
	ch := &c17V1Chain{c: c, s: s}
	ch.renter = types.NewPrivateKeyFromSeed(c17Seed(c))
	ch.host = types.NewPrivateKeyFromSeed(c17Seed(c))
	ch.hostAddr = s.NewAddr(false)
	rk, hk := ch.renter.PublicKey(), ch.host.PublicKey()
	ch.uc = types.UnlockConditions{PublicKeys: []types.UnlockKey{{Algorithm: types.SpecifierEd25519, Key: rk[:]}, {Algorithm: types.SpecifierEd25519, Key: hk[:]}}, SignaturesRequired: 2}
	// teach the simulator's wallet how to sign for the contract's 2-of-2 unlock conditions
	uc := ch.uc
	s.W.Recipes[uc.UnlockHash()] = &chain.Recipe{Kind: "uc2of2", Addr: uc.UnlockHash(), UC: &uc, Keys: []types.PrivateKey{ch.renter, ch.host}, UCKeyIdx: []uint64{0, 1}}
	g := c17Gen{c}
	for i := 0; i < c.Budget(25, 1500); i++ {
		ch.sequence(g)
		if c.Rng.Intn(3) == 0 { // unrelated traffic in between
			if _, _, err := s.Step(); err != nil {
				res.Note("v1 simulator: %v", err)
				return
			}
		}
	}
}
