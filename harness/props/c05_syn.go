package props

// C05 (c): synthetic accumulators with large leaf counts. Only a handful of leaves are
// "known"; every maximal subtree without a known leaf has an arbitrary (but fixed)
// root. The oracle is the naive forest evaluated sparsely over that virtual leaf set.

import (
	"encoding/binary"
	"fmt"
	"sort"

	"golang.org/x/crypto/blake2b"

	"go.sia.tech/core/consensus"
	"go.sia.tech/core/types"
	"verif/harness/internal/fw"
)

type c05SynForest struct {
	salt  uint64
	n     uint64
	known map[uint64]accLeaf
	keys  []uint64 // sorted known indices
}

func (f *c05SynForest) reindex() {
	f.keys = f.keys[:0]
	for k := range f.known {
		f.keys = append(f.keys, k)
	}
	sort.Slice(f.keys, func(i, j int) bool { return f.keys[i] < f.keys[j] })
}

func (f *c05SynForest) hasKnown(lo, hi uint64) bool { // any known index in [lo,hi)
	i := sort.Search(len(f.keys), func(i int) bool { return f.keys[i] >= lo })
	return i < len(f.keys) && f.keys[i] < hi
}

// root of the aligned subtree of the given height whose index at that height is idx
func (f *c05SynForest) root(height int, idx uint64) accHash {
	lo := idx << uint(height)
	if !f.hasKnown(lo, lo+1<<uint(height)) {
		var b [32]byte
		copy(b[:], "verif/syn")
		binary.LittleEndian.PutUint64(b[9:], f.salt)
		binary.LittleEndian.PutUint64(b[17:], uint64(height))
		binary.LittleEndian.PutUint64(b[24:], idx)
		return blake2b.Sum256(b[:])
	}
	if height == 0 {
		return f.known[lo].hashAt(int(lo))
	}
	return accNfPair(f.root(height-1, 2*idx), f.root(height-1, 2*idx+1))
}

func (f *c05SynForest) treeHeightOf(i uint64) int {
	// trees from the left: highest set bit first
	start := uint64(0)
	for h := 63; h >= 0; h-- {
		if f.n&(1<<uint(h)) != 0 {
			if i < start+1<<uint(h) {
				return h
			}
			start += 1 << uint(h)
		}
	}
	return -1
}

func (f *c05SynForest) path(i uint64) []accHash {
	H := f.treeHeightOf(i)
	p := make([]accHash, 0, H)
	for d := 0; d < H; d++ {
		p = append(p, f.root(d, (i>>uint(d))^1))
	}
	return p
}

func (f *c05SynForest) acc() (a consensus.ElementAccumulator) {
	a.NumLeaves = f.n
	start := uint64(0)
	for h := 63; h >= 0; h-- {
		if f.n&(1<<uint(h)) != 0 {
			a.Trees[h] = f.root(h, start>>uint(h))
			start += 1 << uint(h)
		}
	}
	return
}

func c05SynRandN(c *fw.Ctx) uint64 {
	bitsN := 1 + c.Rng.Intn(40)
	n := c.Rng.Uint64() & (1<<uint(bitsN) - 1)
	switch c.Rng.Intn(5) {
	case 0: // all ones: the next leaf merges every tree
		n = 1<<uint(bitsN) - 1
	case 1: // a single tree
		n = 1 << uint(bitsN)
	case 2: // long run of low ones under a sparse top
		n = n&^(1<<uint(bitsN/2)-1) | (1<<uint(bitsN/2) - 1)
	}
	if n == 0 {
		n = 1
	}
	return n
}

func c05Synthetic(c *fw.Ctx) {
	res := c.Res
	rounds := c.Budget(300, 20000)
	var ops, outs []string
	for r := 0; r < rounds; r++ {
		f := &c05SynForest{salt: uint64(c.Seed)<<32 | uint64(r), n: c05SynRandN(c), known: map[uint64]accLeaf{}}
		nk := 1 + c.Rng.Intn(8)
		for len(f.known) < nk && uint64(len(f.known)) < f.n {
			var i uint64
			switch c.Rng.Intn(4) {
			case 0:
				i = f.n - 1 - uint64(c.Rng.Intn(4))%f.n
			case 1:
				i = uint64(c.Rng.Intn(4)) % f.n
			case 2: // first or last leaf of some tree
				h := c.Rng.Intn(41)
				if f.n&(1<<uint(h)) != 0 {
					i = f.n &^ (1<<uint(h+1) - 1)
					if c.Rng.Intn(2) == 0 {
						i += 1<<uint(h) - 1
					}
				} else {
					i = c.Rng.Uint64() % f.n
				}
			default:
				i = c.Rng.Uint64() % f.n
			}
			if len(f.known) > 0 && c.Rng.Intn(3) == 0 { // neighbour of a known leaf
				i = (f.keys[c.Rng.Intn(len(f.keys))] ^ uint64(1<<uint(c.Rng.Intn(6)))) % f.n
			}
			f.known[i] = accLeaf{Elem: accElemFor("syn", r, len(f.known)), Spent: c.Rng.Intn(4) == 0}
			f.reindex()
		}
		proofs := map[uint64][]accHash{}
		for _, i := range f.keys {
			proofs[i] = f.path(i)
		}
		acc := f.acc()
		replay := map[string]any{"kind": "synthetic", "seed": c.Seed, "round": r, "n": f.n, "known": fmt.Sprint(f.keys)}
		check := func(stage string) bool {
			ok := true
			want := f.acc()
			if acc.NumLeaves != want.NumLeaves {
				res.Violate(fw.Violation{Key: "c05-numleaves-mismatch:" + stage, What: "leaf count wrong (synthetic large accumulator)", Replay: replay, Expected: fmt.Sprint(want.NumLeaves), Observed: fmt.Sprint(acc.NumLeaves)})
				return false
			}
			if accWHashes(accRoots(&acc)) != accWHashes(accRoots(&want)) {
				res.Violate(fw.Violation{Key: "c05-root-mismatch:" + stage, What: "roots differ from the naive forest (synthetic large accumulator)", Replay: replay, Expected: accWHashes(accRoots(&want)), Observed: accWHashes(accRoots(&acc))})
				ok = false
			}
			for _, i := range f.keys {
				if !accEqProof(proofs[i], f.path(i)) {
					res.Violate(fw.Violation{Key: "c05-proof-stale:" + stage, What: fmt.Sprintf("tracked proof of leaf %d is not the naive path (synthetic large accumulator, n=%d)", i, f.n), Replay: replay, Expected: accWHashes(f.path(i)), Observed: accWHashes(proofs[i])})
					ok = false
					continue
				}
				l := f.known[i]
				vl := consensus.VerifLeaf{SE: &types.StateElement{LeafIndex: i, MerkleProof: proofs[i]}, ElementHash: l.Elem, Spent: l.Spent}
				if !acc.VerifContainsLeaf(vl) {
					res.Violate(fw.Violation{Key: "c05-proof-rejected:" + stage, What: fmt.Sprintf("updated proof of leaf %d does not verify (synthetic large accumulator, n=%d)", i, f.n), Replay: replay})
					ok = false
				}
				vl.Spent = !vl.Spent
				if acc.VerifContainsLeaf(vl) {
					res.Violate(fw.Violation{Key: "c05-spent-status:" + stage, What: fmt.Sprintf("leaf %d verifies with the wrong spent flag", i), Replay: replay})
					ok = false
				}
			}
			return ok
		}
		if !check("build") {
			continue
		}
		type undoT struct {
			acc       consensus.ElementAccumulator
			n         uint64
			updIdx    []uint64
			oldLeaf   []accLeaf
			oldProofs [][]accHash
			added     int
		}
		var stack []undoT
		depth := 1 + c.Rng.Intn(3)
		good := true
		for d := 0; d < depth && good; d++ {
			var updated, added []consensus.VerifLeaf
			var wUpd, wAdd, wTrk []string
			u := undoT{acc: acc, n: f.n}
			newContent := map[uint64]accLeaf{}
			for _, i := range f.keys {
				if c.Rng.Intn(2) == 0 {
					nl := accLeaf{Elem: accElemFor("syn-upd", r*8+d, int(i%1000)), Spent: c.Rng.Intn(2) == 0}
					u.updIdx = append(u.updIdx, i)
					u.oldLeaf = append(u.oldLeaf, f.known[i])
					u.oldProofs = append(u.oldProofs, accCloneProof(proofs[i]))
					updated = append(updated, accMkVerifLeaf(nl, i, proofs[i]))
					wUpd = append(wUpd, accWLeaf(i, nl, proofs[i]))
					newContent[i] = nl
				}
			}
			k := 0
			switch c.Rng.Intn(4) {
			case 0:
				k = 0
			case 1:
				k = 1
			default:
				k = c.Rng.Intn(12)
			}
			var addLeaves []accLeaf
			for j := 0; j < k; j++ {
				l := accLeaf{Elem: accElemFor("syn-add", r*8+d, j)}
				addLeaves = append(addLeaves, l)
				added = append(added, accMkVerifLeaf(l, types.UnassignedLeafIndex, nil))
				wAdd = append(wAdd, accWNew(l))
			}
			u.added = k
			for _, i := range f.keys {
				wTrk = append(wTrk, accWIdxProof(i, proofs[i]))
			}
			op := fmt.Sprintf("acc-apply %d %s %s %s %s", acc.NumLeaves, accWHashes(accRoots(&acc)), accWList(wUpd), accWList(wAdd), accWList(wTrk))
			var au consensus.VerifApplyUpdate
			if p, msg := fw.Recover(func() { au = acc.VerifApplyBlock(updated, added) }); p {
				res.Violate(fw.Violation{Key: "c05-panic:apply", What: "applyBlock panicked (synthetic large accumulator): " + msg, Replay: replay})
				good = false
				break
			}
			oldKeys := append([]uint64(nil), f.keys...)
			for _, i := range oldKeys {
				se := types.StateElement{LeafIndex: i, MerkleProof: accCloneProof(proofs[i])}
				if p, msg := fw.Recover(func() { au.UpdateElementProof(&se) }); p {
					res.Violate(fw.Violation{Key: "c05-panic:update-apply", What: "UpdateElementProof panicked (synthetic large accumulator): " + msg, Replay: replay})
					good = false
				}
				proofs[i] = se.MerkleProof
			}
			if !good {
				break
			}
			for i, nl := range newContent {
				f.known[i] = nl
			}
			for j, v := range added {
				f.known[f.n+uint64(j)] = addLeaves[j]
				proofs[f.n+uint64(j)] = v.SE.MerkleProof
			}
			f.n += uint64(k)
			f.reindex()
			stack = append(stack, u)
			res.Eval(fmt.Sprintf("syn %d %d apply", r, d), len(updated)+k > 0)
			res.Count("synthetic:step=apply")
			res.Count(fmt.Sprintf("synthetic:log2(n)=%02d-%02d", (c05Bits64(u.n)/8)*8, (c05Bits64(u.n)/8)*8+7))
			good = check("apply")
			if c.Model != nil && c.Rng.Intn(2) == 0 {
				var ups, adds []accIdxProof
				for _, v := range updated {
					ups = append(ups, accIdxProof{v.SE.LeafIndex, v.SE.MerkleProof})
				}
				for _, v := range added {
					adds = append(adds, accIdxProof{v.SE.LeafIndex, v.SE.MerkleProof})
				}
				var trk []string
				for _, i := range oldKeys {
					trk = append(trk, accWHashes(proofs[i]))
				}
				ops = append(ops, op)
				outs = append(outs, fmt.Sprintf("ok %d %s %s %s %s", acc.NumLeaves, accWHashes(accRoots(&acc)), accWIdxProofsSorted(ups), accWIdxProofsSorted(adds), accWList(trk)))
			}
		}
		// revert everything, innermost first
		for len(stack) > 0 && good {
			u := stack[len(stack)-1]
			stack = stack[:len(stack)-1]
			acc0 := u.acc
			var updated, added []consensus.VerifLeaf
			for k, i := range u.updIdx {
				updated = append(updated, accMkVerifLeaf(u.oldLeaf[k], i, u.oldProofs[k]))
			}
			for j := 0; j < u.added; j++ {
				added = append(added, accMkVerifLeaf(accLeaf{}, types.UnassignedLeafIndex, nil))
			}
			var ru consensus.VerifRevertUpdate
			if p, msg := fw.Recover(func() { ru = acc0.VerifRevertBlock(updated, added) }); p {
				res.Violate(fw.Violation{Key: "c05-panic:revert", What: "revertBlock panicked (synthetic large accumulator): " + msg, Replay: replay})
				good = false
				break
			}
			for _, i := range f.keys {
				if i >= u.n {
					delete(f.known, i)
					delete(proofs, i)
					continue
				}
				se := types.StateElement{LeafIndex: i, MerkleProof: accCloneProof(proofs[i])}
				if p, msg := fw.Recover(func() { ru.UpdateElementProof(&se) }); p {
					res.Violate(fw.Violation{Key: "c05-panic:update-revert", What: "RevertUpdate.UpdateElementProof panicked (synthetic large accumulator): " + msg, Replay: replay})
					good = false
				}
				proofs[i] = se.MerkleProof
			}
			for k, i := range u.updIdx {
				f.known[i] = u.oldLeaf[k]
			}
			f.n = u.n
			f.reindex()
			acc = acc0
			res.Eval(fmt.Sprintf("syn %d revert", r), true)
			res.Count("synthetic:step=revert")
			if good {
				good = check("revert")
			}
		}
	}
	c.Compare(ops, outs)
}

func c05Bits64(x uint64) int {
	n := 0
	for x != 0 {
		n++
		x >>= 1
	}
	return n
}
